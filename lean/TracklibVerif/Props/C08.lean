import TracklibVerif.Lemmas.GridNetwork
import Mathlib.Data.Rat.Floor
/-! # C08 — the grid spatial index never omits a feature that is geometrically there

Property theorems only (helper lemmas: `Lemmas/Grid.lean` (ordered-field geometry), `Lemmas/GridCells.lean`,
`GridIndex.lean`, `GridBuild.lean`, `GridQuery.lean`, `GridMain.lean`, `GridReturns.lean`, `GridNetwork.lean`). The model is
`Model/Grid.lean` (`core/spatial_index.py` after ad7c5ee, 9a44198, the degenerate-extent repair and the upper-border
repair, `cartesienne`/`isSegmentIntersects` of `util/geometry.py`).

All statements are over an arbitrary linearly ordered field `α` (ℚ, ℝ) with `fl : α → ℤ` any function satisfying
the contract of `math.floor` (`IsFloor`); they are about the exact values, not about IEEE rounding.
`lerp A B s` is the point `A + s (B − A)` of the segment `[A, B]`; `Consec t` are the consecutive vertex pairs of
the track `t`; `Holds g i j k` says `k ∈ grid[i][j]`. `getCell ix p = some c` says that `p` is inside the closed
extent and `c` are its fractional cell indices (what `__getCell` returns: `getCell_min_is_identity`). `cellOf fl ix c =
(min(floor c.x, csize − 1), min(floor c.y, lsize − 1))` is the cell containing the point, as `request(coord)` computes
it: cells are half-open as `floor` assigns them, except that the last column / row is closed on the upper border of
the extent (`extent_point_cell`). The legitimate configurations are `margin ≥ 0` (0 included) and the default or a
positive explicit cell size; on them the constructor and every query of a point / segment / track inside the closed
extent return (`constructor_returns`, `point_query_complete`, `segment_query_returns`, `track_query_returns`,
`neighborhood_complete`), for every bounding box: thin, flat, a single point, shorter than a cell
(`grid_always_builds`, `flat_axis_single_column`). The front ends are inside the model: `TrackCollection.createSpatialIndex`
(`collection_create_index`: its flag is the margin), the constructor and `Network.createSpatialIndex` with their default
margin 0.05 (`default_margin_create_index`), and sequences of `Network.addEdge` calls on an indexed network
(`network_add_edges_complete`: running edge numbers). -/
namespace TV.C08
open TV.Grid
variable {α : Type} [Field α] [LinearOrder α] [IsStrictOrderedRing α]

/-- T1 `straddle_necessary`: two closed segments that share a point pass `isSegmentIntersects` (the
product-of-evaluations test `val1 <= 0 and val2 <= 0`), including touching ends, collinear overlap and
zero-length segments. -/
theorem straddle_necessary (s1 s2 : Seg α) (r q : α) (hr0 : 0 ≤ r) (hr1 : r ≤ 1) (hq0 : 0 ≤ q) (hq1 : q ≤ 1)
    (hx : s1.x1 + r * (s1.x2 - s1.x1) = s2.x1 + q * (s2.x2 - s2.x1))
    (hy : s1.y1 + r * (s1.y2 - s1.y1) = s2.y1 + q * (s2.y2 - s2.y1)) :
    isSegmentIntersects s1 s2 = true :=
  (isSegmentIntersects_iff s1 s2).mpr (inter_of_common _ _ _ _ _ _ _ _ r q hr0 hr1 hq0 hq1 hx hy)

/-- T2 `cells_complete`: let `P = c1 + s (c2 − c1)` be a point of the segment `[c1, c2]` (fractional cell indices) of
a grid of `cs × ls` cells, and `(i, j)` a cell containing it: `i ≤ Px < i+1`, or `i = cs − 1` is the last column and
`i ≤ Px ≤ cs` (closed on the upper border); likewise for `j`. Then `(i, j)` is in the list returned by
`__cellsCrossSegment(c1, c2)`: the cell is inside the scanned (clamped) index box and passes one of the five tests —
including for a segment lying exactly on the upper border. -/
theorem cells_complete {fl : α → Int} (hf : IsFloor fl) (cs ls : Int) (c1 c2 : α × α) (s : α) (hs0 : 0 ≤ s) (hs1 : s ≤ 1)
    (i j : Int) (hic : i ≤ cs - 1) (hjc : j ≤ ls - 1)
    (hi : ((i : Int) : α) ≤ (lerp c1 c2 s).1 ∧
      ((lerp c1 c2 s).1 < ((i : Int) : α) + 1 ∨ (i = cs - 1 ∧ (lerp c1 c2 s).1 ≤ ((cs : Int) : α))))
    (hj : ((j : Int) : α) ≤ (lerp c1 c2 s).2 ∧
      ((lerp c1 c2 s).2 < ((j : Int) : α) + 1 ∨ (j = ls - 1 ∧ (lerp c1 c2 s).2 ≤ ((ls : Int) : α)))) :
    (i, j) ∈ cellsCross fl cs ls c1 c2 := by
  -- one axis: the clamped floor is the given index, and the coordinate is at most the size
  have axis : ∀ (x : α) (k n : Int), k ≤ n - 1 → ((k : Int) : α) ≤ x →
      (x < ((k : Int) : α) + 1 ∨ (k = n - 1 ∧ x ≤ ((n : Int) : α))) → min (fl x) (n - 1) = k ∧ x ≤ ((n : Int) : α) := by
    intro x k n hkn h1 h2
    have hk : k ≤ fl x := by
      have := hf.mono h1
      rwa [hf.eq_of (le_refl _) (by linarith)] at this
    rcases h2 with h2 | ⟨rfl, h2⟩
    · have e := hf.eq_of h1 h2
      refine ⟨by rw [e]; exact min_eq_left hkn, ?_⟩
      have : ((k : Int) : α) + 1 ≤ ((n : Int) : α) := by
        have : ((k + 1 : Int) : α) ≤ ((n : Int) : α) := by exact_mod_cast (by omega : k + 1 ≤ n)
        push_cast at this; exact this
      linarith
    · exact ⟨min_eq_right hk, h2⟩
  unfold lerp at hi hj
  obtain ⟨ei, bx⟩ := axis _ i cs hic hi.1 hi.2
  obtain ⟨ej, b_y⟩ := axis _ j ls hjc hj.1 hj.2
  have := cellsCross_complete hf cs ls c1 c2 s hs0 hs1 bx b_y
  rw [ei, ej] at this
  exact this

/-- `constructor_returns`: `SpatialIndex(collection, resolution, margin)` does not raise for a non-empty collection,
`margin ≥ 0` — `margin = 0` included, where the right-most and top-most vertices lie on the upper border of the
extent — and the default or a positive explicit cell size (a flat or single-point bounding box, a cell larger than
the extent included). (Findings `vertex-on-upper-border` and `default-resolution-flat-extent`, repaired.) -/
theorem constructor_returns {fl : α → Int} (hf : IsFloor fl) (feats : List (List (α × α))) (res : Option (α × α))
    (margin : α) (hm : 0 ≤ margin) (hres : ∀ r, res = some r → 0 < r.1 ∧ 0 < r.2) (hne : feats.flatten ≠ []) :
    ∃ ix, build fl feats res margin = .ok ix :=
  build_returns hf feats res margin hm hres hne

/-- `collection_create_index`: `TrackCollection.createSpatialIndex(resolution, verbose)` hands its flag to the
constructor in the position of `margin`; the index it makes is `SpatialIndex(collection, resolution, margin)` with
`margin = 1` (`verbose=True`) or `margin = 0` (`verbose=False`, the extent is the bounding box and the extreme
vertices lie on its upper border). Both are `≥ 0`: the call returns and every theorem of this file applies to the
index. (`Network.createSpatialIndex` passes resolution, margin, verbose in order: it is the constructor.) -/
theorem collection_create_index {fl : α → Int} (hf : IsFloor fl) (feats : List (List (α × α))) (res : Option (α × α))
    (verbose : Bool) (hres : ∀ r, res = some r → 0 < r.1 ∧ 0 < r.2) (hne : feats.flatten ≠ []) :
    ∃ m ix, 0 ≤ m ∧ (m = 1 ∨ m = 0) ∧ createIndexTC fl feats res verbose = build fl feats res m ∧
      build fl feats res m = .ok ix := by
  cases verbose with
  | true =>
    obtain ⟨ix, h⟩ := build_returns hf feats res (1 : α) zero_le_one hres hne
    exact ⟨1, ix, zero_le_one, Or.inl rfl, by simp [createIndexTC], h⟩
  | false =>
    obtain ⟨ix, h⟩ := build_returns hf feats res (0 : α) (le_refl _) hres hne
    exact ⟨0, ix, le_refl _, Or.inr rfl, by simp [createIndexTC], h⟩

/-- `getCell_min_is_identity`: on an index on which nothing raises (in particular every built index) `__getCell` as
executed — `idx = min((x − xmin) / dX, csize)`, `idy = min((y − ymin) / dY, lsize)` — returns exactly the affine
fractional indices `getCell`: the `min` (which protects against a quotient that exceeds the grid size by a rounding
error when `x = xmax`) is the identity in exact arithmetic, because the cells cover the extent. -/
theorem getCell_min_is_identity (ix : Index α) (hg : Good ix) (p : α × α) : getCellR ix p = .ok (getCell ix p) :=
  getCellR_of_nz ix hg.nz hg.bounded p

/-- `extent_point_cell`: on a built index every point `p` of the closed extent has a cell `cellOf` inside the grid
(`0 ≤ i < csize`, `0 ≤ j < lsize`) whose closed square contains its fractional indices `c`: `i ≤ c.x ≤ i + 1`
(`c.x < i + 1` except for the last column, which owns the upper border `c.x = csize`), likewise for `j`. -/
theorem extent_point_cell {fl : α → Int} (hf : IsFloor fl) (feats : List (List (α × α))) (res : Option (α × α))
    (margin : α) (ix : Index α) (hm : 0 ≤ margin) (hres : ∀ r, res = some r → 0 < r.1 ∧ 0 < r.2)
    (hb : build fl feats res margin = .ok ix) (p c : α × α) (hp : getCell ix p = some c) :
    let cell := cellOf fl ix c
    ((0 ≤ cell.1 ∧ cell.1 < ix.csize) ∧ (0 ≤ cell.2 ∧ cell.2 < ix.lsize)) ∧
    (((cell.1 : Int) : α) ≤ c.1 ∧ (c.1 < ((cell.1 : Int) : α) + 1 ∨ (cell.1 = ix.csize - 1 ∧ c.1 = ((ix.csize : Int) : α)))) ∧
    (((cell.2 : Int) : α) ≤ c.2 ∧ (c.2 < ((cell.2 : Int) : α) + 1 ∨ (cell.2 = ix.lsize - 1 ∧ c.2 = ((ix.lsize : Int) : α)))) := by
  intro cell
  have hg := build_good hf feats res margin ix hm hres hb
  obtain ⟨r1, r2⟩ := getCell_range hf feats res margin ix hm hres hb p c hp
  have axis : ∀ (x : α) (n : Int), x ≤ ((n : Int) : α) →
      (((min (fl x) (n - 1) : Int) : α) ≤ x ∧
        (x < ((min (fl x) (n - 1) : Int) : α) + 1 ∨ (min (fl x) (n - 1) = n - 1 ∧ x = ((n : Int) : α)))) := by
    intro x n hx
    refine ⟨(clamp_closed hf x n hx).1, ?_⟩
    rcases le_total (fl x) (n - 1) with h | h
    · left; rw [min_eq_left h]; exact (hf x).2
    · rcases lt_or_eq_of_le hx with hlt | heq
      · left
        rw [min_eq_right h]
        push_cast; linarith
      · right; exact ⟨min_eq_right h, heq⟩
  exact ⟨cellOf_inGrid hf ix hg p c hp, axis c.1 ix.csize r1.2, axis c.2 ix.lsize r2.2⟩

/-- T3a `index_complete`: after `SpatialIndex(collection, resolution, margin)` (`margin ≥ 0`, default or positive cell
size) every point `P` of every segment `[A, B]` of feature number `k` is inside the extent and the cell containing
it (`cellOf`) lists `k` — the vertices on the upper border of the extent (`margin = 0`) included. -/
theorem index_complete {fl : α → Int} (hf : IsFloor fl) (feats : List (List (α × α))) (res : Option (α × α))
    (margin : α) (ix : Index α) (hm : 0 ≤ margin) (hres : ∀ r, res = some r → 0 < r.1 ∧ 0 < r.2)
    (hb : build fl feats res margin = .ok ix)
    (k : Nat) (t : List (α × α)) (hk : feats[k]? = some t) (A B : α × α) (hAB : (A, B) ∈ Consec t)
    (s : α) (hs0 : 0 ≤ s) (hs1 : s ≤ 1) :
    ∃ c, getCell ix (lerp A B s) = some c ∧ Holds ix.grid (cellOf fl ix c).1 (cellOf fl ix c).2 k :=
  build_registers hf feats res margin ix hm hres hb k t hk A B hAB s hs0 hs1

/-- T3b `point_query_complete`: `request(q)` for EVERY point `q` of the closed extent (its upper border included)
does not raise, and returns every feature `k` having a segment with a point `P` in the cell that contains `q`
(same `cellOf`). -/
theorem point_query_complete {fl : α → Int} (hf : IsFloor fl) (feats : List (List (α × α))) (res : Option (α × α))
    (margin : α) (ix : Index α) (hm : 0 ≤ margin) (hres : ∀ r, res = some r → 0 < r.1 ∧ 0 < r.2)
    (hb : build fl feats res margin = .ok ix) (q cq : α × α) (hq : getCell ix q = some cq) :
    ∃ l, requestPoint fl ix q = .ok l ∧
      ∀ (k : Nat) (t : List (α × α)) (A B : α × α) (s : α) (cP : α × α), feats[k]? = some t → (A, B) ∈ Consec t →
        0 ≤ s → s ≤ 1 → getCell ix (lerp A B s) = some cP → cellOf fl ix cq = cellOf fl ix cP → k ∈ l := by
  have hg := build_good hf feats res margin ix hm hres hb
  obtain ⟨l, hl⟩ := requestPoint_ok hf ix hg q cq hq
  refine ⟨l, hl, ?_⟩
  intro k t A B s cP hk hAB hs0 hs1 hP hcell
  obtain ⟨c, hc, l', hl', hkl⟩ := build_registers hf feats res margin ix hm hres hb k t hk A B hAB s hs0 hs1
  rw [hP] at hc; cases hc
  unfold requestPoint requestCell at hl
  simp only [getCellR_of_nz ix hg.nz hg.bounded q, hq, hcell] at hl
  rw [hl] at hl'; cases hl'
  exact hkl

/-- T3c `segment_query_complete`: a returned `request([Q1, Q2])` on a built index contains every feature listed in
the cell (`cellOf`) of any point `Q` of the query segment — in particular (T3a) every feature having a point in
such a cell. -/
theorem segment_query_complete {fl : α → Int} (hf : IsFloor fl) (feats : List (List (α × α))) (res : Option (α × α))
    (margin : α) (ix : Index α) (hm : 0 ≤ margin) (hres : ∀ r, res = some r → 0 < r.1 ∧ 0 < r.2)
    (hb : build fl feats res margin = .ok ix) (Q1 Q2 : α × α) (l : List Nat)
    (h : requestSeg fl ix Q1 Q2 = .ok l) (s : α) (hs0 : 0 ≤ s) (hs1 : s ≤ 1) :
    ∃ c, getCell ix (lerp Q1 Q2 s) = some c ∧ ∀ k, Holds ix.grid (cellOf fl ix c).1 (cellOf fl ix c).2 k → k ∈ l := by
  have hg := build_good hf feats res margin ix hm hres hb
  obtain ⟨p1, p2, g1, g2, _, hc⟩ := requestSegInto_spec fl ix hg.bounded [] l Q1 Q2 h
  have hP := getCell_lerp ix Q1 Q2 p1 p2 s hs0 hs1 g1 g2
  obtain ⟨r1, r2⟩ := getCell_range hf feats res margin ix hm hres hb _ _ hP
  refine ⟨lerp p1 p2 s, hP, ?_⟩
  intro k hk
  exact hc _ (cellsCross_complete hf ix.csize ix.lsize p1 p2 s hs0 hs1 r1.2 r2.2) k hk

/-- T3e `segment_query_returns`: on a built index `request([Q1, Q2])` does not raise when both ends are inside the
closed extent, its upper border included (finding `query-on-upper-border`, repaired). -/
theorem segment_query_returns {fl : α → Int} (hf : IsFloor fl) (feats : List (List (α × α))) (res : Option (α × α))
    (margin : α) (ix : Index α) (hm : 0 ≤ margin) (hres : ∀ r, res = some r → 0 < r.1 ∧ 0 < r.2)
    (hb : build fl feats res margin = .ok ix) (Q1 Q2 : α × α)
    (h1 : getCell ix Q1 ≠ none) (h2 : getCell ix Q2 ≠ none) :
    ∃ l, requestSeg fl ix Q1 Q2 = .ok l :=
  requestSegInto_ok hf ix (build_good hf feats res margin ix hm hres hb) [] Q1 Q2 h1 h2

/-- T3d `track_query_complete`: the same as T3c for `request(track)` and every segment of the query track. -/
theorem track_query_complete {fl : α → Int} (hf : IsFloor fl) (feats : List (List (α × α))) (res : Option (α × α))
    (margin : α) (ix : Index α) (hm : 0 ≤ margin) (hres : ∀ r, res = some r → 0 < r.1 ∧ 0 < r.2)
    (hb : build fl feats res margin = .ok ix) (track : List (α × α)) (l : List Nat)
    (h : requestTrack fl ix track = .ok l) (Q1 Q2 : α × α) (hQ : (Q1, Q2) ∈ Consec track)
    (s : α) (hs0 : 0 ≤ s) (hs1 : s ≤ 1) :
    ∃ c, getCell ix (lerp Q1 Q2 s) = some c ∧ ∀ k, Holds ix.grid (cellOf fl ix c).1 (cellOf fl ix c).2 k → k ∈ l := by
  have hg := build_good hf feats res margin ix hm hres hb
  obtain ⟨_, hc⟩ := requestTrackLoop_spec fl ix hg.bounded track none [] l h
  obtain ⟨p1, p2, g1, g2, hcc⟩ := hc Q1 Q2 (by simpa using hQ)
  have hP := getCell_lerp ix Q1 Q2 p1 p2 s hs0 hs1 g1 g2
  obtain ⟨r1, r2⟩ := getCell_range hf feats res margin ix hm hres hb _ _ hP
  refine ⟨lerp p1 p2 s, hP, ?_⟩
  intro k hk
  exact hcc _ (cellsCross_complete hf ix.csize ix.lsize p1 p2 s hs0 hs1 r1.2 r2.2) k hk

/-- T3f `track_query_returns`: on a built index `request(track)` does not raise when every vertex of the query
track is inside the closed extent. -/
theorem track_query_returns {fl : α → Int} (hf : IsFloor fl) (feats : List (List (α × α))) (res : Option (α × α))
    (margin : α) (ix : Index α) (hm : 0 ≤ margin) (hres : ∀ r, res = some r → 0 < r.1 ∧ 0 < r.2)
    (hb : build fl feats res margin = .ok ix) (track : List (α × α)) (hin : ∀ p ∈ track, getCell ix p ≠ none) :
    ∃ l, requestTrack fl ix track = .ok l :=
  requestTrackLoop_ok hf ix (build_good hf feats res margin ix hm hres hb) track none [] (by simpa using hin)

/-- T4a `units_sound`: with positive cell sizes, two points inside the extent whose coordinates differ by at most
`d` on each axis (in particular two points at Euclidean distance ≤ `d`) fall in cells whose column and row indices
— floors of the fractional indices, hence also the clamped `cellOf` — differ by at most
`groundDistanceToUnits(d) = floor(d / min(dX, dY) + 1)` (which does not raise). -/
theorem units_sound {fl : α → Int} (hf : IsFloor fl) (ix : Index α) (hdX : 0 < ix.dX) (hdY : 0 < ix.dY)
    (p q cp cq : α × α) (d : α) (hp : getCell ix p = some cp) (hq : getCell ix q = some cq)
    (hx : -d ≤ q.1 - p.1 ∧ q.1 - p.1 ≤ d) (hy : -d ≤ q.2 - p.2 ∧ q.2 - p.2 ≤ d) :
    ∃ u, groundDistanceToUnits fl ix d = .ok u ∧ u = fl (d / min ix.dX ix.dY + 1) ∧
      (fl cq.1 - fl cp.1 ≤ u ∧ fl cp.1 - fl cq.1 ≤ u) ∧ (fl cq.2 - fl cp.2 ≤ u ∧ fl cp.2 - fl cq.2 ≤ u) ∧
      ((cellOf fl ix cq).1 - (cellOf fl ix cp).1 ≤ u ∧ (cellOf fl ix cp).1 - (cellOf fl ix cq).1 ≤ u) ∧
      ((cellOf fl ix cq).2 - (cellOf fl ix cp).2 ≤ u ∧ (cellOf fl ix cp).2 - (cellOf fl ix cq).2 ≤ u) := by
  obtain ⟨_, _, rfl⟩ := (getCell_some_iff ix p cp).mp hp
  obtain ⟨_, _, rfl⟩ := (getCell_some_iff ix q cq).mp hq
  have hmn : 0 < min ix.dX ix.dY := lt_min hdX hdY
  have hz : isZero (min ix.dX ix.dY) = false := (isZero_false_iff _).mpr (ne_of_gt hmn)
  have ax := units_axis hf p.1 q.1 ix.xmin ix.dX d _ hmn (min_le_left _ _) hx.1 hx.2
  have ay := units_axis hf p.2 q.2 ix.ymin ix.dY d _ hmn (min_le_right _ _) hy.1 hy.2
  have hu : 0 ≤ fl (d / min ix.dX ix.dY + 1) := by omega
  refine ⟨fl (d / min ix.dX ix.dY + 1), ?_, rfl, ax, ay, ?_, ?_⟩
  · simp only [groundDistanceToUnits, pyMin_eq, Int.cast_one, hz, Bool.false_eq_true, if_false]
  · unfold cellOf; dsimp only; constructor <;> omega
  · unfold cellOf; dsimp only; constructor <;> omega

omit [Field α] [LinearOrder α] [IsStrictOrderedRing α] in
/-- T4b `neighboringCells_square`: `__neighboringcells(i, j, u)` is exactly the square of Chebyshev radius `u`
around `(i, j)` clipped to the grid `[0, csize) × [0, lsize)`. -/
theorem neighboringCells_square (ix : Index α) (i j u i' j' : Int) :
    (i', j') ∈ neighboringCells ix i j u false ↔
      (i - u ≤ i' ∧ i' ≤ i + u ∧ 0 ≤ i' ∧ i' < ix.csize) ∧ (j - u ≤ j' ∧ j' ≤ j + u ∧ 0 ≤ j' ∧ j' < ix.lsize) := by
  rw [mem_neighboringCells]
  constructor
  · rintro ⟨⟨a, b⟩, c, d⟩
    exact ⟨⟨by omega, by omega, by omega, by omega⟩, by omega, by omega, by omega, by omega⟩
  · rintro ⟨⟨a, b, c, d⟩, e, f, g, h⟩
    exact ⟨⟨by omega, by omega⟩, by omega, by omega⟩

/-- T4c' `neighborhood_finds_registered`: on ANY index on which nothing raises (`Good`: well formed, at least one
column and row, positive cell sides — a built index, also after later `addFeature` / `Network.addEdge` calls), for
every query point `q` of the closed extent and ground distance `d ≥ 0`: `groundDistanceToUnits(d)` and
`neighborhood(q, unit = groundDistanceToUnits(d))` do not raise and the latter returns every feature `k` listed in
the cell of a point `P` of the extent within Euclidean distance `d` of `q`. The answer is a function of the grid as
it is now: nothing remembered from earlier queries enters it. -/
theorem neighborhood_finds_registered {fl : α → Int} (hf : IsFloor fl) (ix : Index α) (hg : Good ix)
    (k : Nat) (P cP : α × α) (hP : getCell ix P = some cP) (hHolds : Holds ix.grid (cellOf fl ix cP).1 (cellOf fl ix cP).2 k)
    (q : α × α) (hq : getCell ix q ≠ none) (d : α) (hd : 0 ≤ d)
    (hdist : (q.1 - P.1) ^ 2 + (q.2 - P.2) ^ 2 ≤ d ^ 2) :
    ∃ u l, groundDistanceToUnits fl ix d = .ok u ∧ neighborhoodPoint fl ix q u = .ok (some l) ∧ k ∈ l := by
  have hnz := hg.nz
  have hbd := hg.bounded
  have hgrid := cellOf_inGrid hf ix hg
  obtain ⟨hw, hcs, hls, hdX, hdY, _⟩ := hg
  obtain ⟨cq, hcq⟩ := Option.ne_none_iff_exists'.mp hq
  -- coordinate differences are bounded by the Euclidean distance
  have hx : -d ≤ q.1 - P.1 ∧ q.1 - P.1 ≤ d := by
    have h2 : (q.1 - P.1) ^ 2 ≤ d ^ 2 := by nlinarith [sq_nonneg (q.2 - P.2)]
    exact abs_le.mp (abs_le_of_sq_le_sq h2 hd)
  have hy : -d ≤ q.2 - P.2 ∧ q.2 - P.2 ≤ d := by
    have h2 : (q.2 - P.2) ^ 2 ≤ d ^ 2 := by nlinarith [sq_nonneg (q.1 - P.1)]
    exact abs_le.mp (abs_le_of_sq_le_sq h2 hd)
  obtain ⟨u, hgu, hueq, _, _, ⟨u1, u2⟩, u3, u4⟩ := units_sound hf ix hdX hdY P q cP cq d hP hcq hx hy
  have hmn : 0 < min ix.dX ix.dY := lt_min hdX hdY
  have hu1 : 1 ≤ u := by
    rw [hueq]
    exact units_pos hf d _ hd hmn
  -- the cell of P is inside the grid
  obtain ⟨⟨hi0, hi1⟩, hj0, hj1⟩ := hgrid _ cP hP
  -- the query
  refine ⟨u, ?_⟩
  unfold neighborhoodPoint
  simp only [getCellR_of_nz ix hnz hbd q, hcq]
  unfold neighborhoodCell
  have hne : (u != -1) = true := by
    simp only [bne_iff_ne, ne_eq]; omega
  simp only [hne, if_true]
  obtain ⟨out, hout⟩ := collectCells_ok ix (neighboringCells ix (cellOf fl ix cq).1 (cellOf fl ix cq).2 u false) []
    hw.2 (by
      intro cell hcell
      have := (neighboringCells_square ix _ _ _ cell.1 cell.2).mp hcell
      exact ⟨⟨this.1.2.2.1, this.1.2.2.2⟩, this.2.2.2.1, this.2.2.2.2⟩)
  refine ⟨out, hgu, by rw [hout], ?_⟩
  obtain ⟨_, hall⟩ := collectCells_spec ix _ [] out hout
  apply hall ((cellOf fl ix cP).1, (cellOf fl ix cP).2)
  · rw [neighboringCells_square]
    exact ⟨⟨by omega, by omega, hi0, hi1⟩, by omega, by omega, hj0, hj1⟩
  · exact hHolds

/-- T4c `neighborhood_complete`: for an index built with `margin ≥ 0` and a positive (or the default) cell size,
EVERY query point `q` of the closed extent and a ground distance `d ≥ 0`:
`groundDistanceToUnits(d)` and `neighborhood(q, unit = groundDistanceToUnits(d))` do not raise and the latter
returns every feature `k` that has a point `P` (on one of its segments) within Euclidean distance `d` of `q`. -/
theorem neighborhood_complete {fl : α → Int} (hf : IsFloor fl) (feats : List (List (α × α))) (res : Option (α × α))
    (margin : α) (ix : Index α) (hm : 0 ≤ margin) (hres : ∀ r, res = some r → 0 < r.1 ∧ 0 < r.2)
    (hb : build fl feats res margin = .ok ix)
    (k : Nat) (t : List (α × α)) (hk : feats[k]? = some t) (A B : α × α) (hAB : (A, B) ∈ Consec t)
    (s : α) (hs0 : 0 ≤ s) (hs1 : s ≤ 1) (q : α × α) (hq : getCell ix q ≠ none) (d : α) (hd : 0 ≤ d)
    (hdist : (q.1 - (lerp A B s).1) ^ 2 + (q.2 - (lerp A B s).2) ^ 2 ≤ d ^ 2) :
    ∃ u l, groundDistanceToUnits fl ix d = .ok u ∧ neighborhoodPoint fl ix q u = .ok (some l) ∧ k ∈ l := by
  obtain ⟨cP, hP, hHolds⟩ := build_registers hf feats res margin ix hm hres hb k t hk A B hAB s hs0 hs1
  exact neighborhood_finds_registered hf ix (build_good hf feats res margin ix hm hres hb) k _ cP hP hHolds q hq d hd hdist

/-- T5 `late_feature_complete`: a feature added to an existing index — `addFeature(track, num)` after construction,
which is what `Network.addEdge` does on an indexed network — whose vertices are all inside the extent: the call
returns an index `ix'` with the same extent and grid dimensions in which everything registered before is still
registered, every point of every segment of the track lies in a cell that lists `num`, a point request in that cell
returns `num`, and a neighbourhood query from a ground distance `d` around any point `q` within `d` of the track
returns `num` — whatever was asked of the index before the addition. (`ix` is any index reached from a built one by
such additions: `Good` is kept; `built_index_good` is the starting point.) -/
theorem late_feature_complete {fl : α → Int} (hf : IsFloor fl) (ix : Index α) (hg : Good ix)
    (track : List (α × α)) (num : Nat) (hin : ∀ p ∈ track, getCell ix p ≠ none) :
    ∃ ix', addFeature fl ix track num = .ok ix' ∧ Good ix' ∧ Same ix ix' ∧
      (∀ i j k, Holds ix.grid i j k → Holds ix'.grid i j k) ∧
      ∀ A B, (A, B) ∈ Consec track → ∀ s : α, 0 ≤ s → s ≤ 1 →
        (∃ c, getCell ix' (lerp A B s) = some c ∧ Holds ix'.grid (cellOf fl ix' c).1 (cellOf fl ix' c).2 num) ∧
        (∃ l, requestPoint fl ix' (lerp A B s) = .ok l ∧ num ∈ l) ∧
        (∀ (q : α × α) (d : α), getCell ix' q ≠ none → 0 ≤ d →
          (q.1 - (lerp A B s).1) ^ 2 + (q.2 - (lerp A B s).2) ^ 2 ≤ d ^ 2 →
          ∃ u l, groundDistanceToUnits fl ix' d = .ok u ∧ neighborhoodPoint fl ix' q u = .ok (some l) ∧ num ∈ l) := by
  obtain ⟨ix', h, hg', e, hreg⟩ := addFeature_complete hf ix hg track num hin
  refine ⟨ix', h, hg', e.1, e.2, ?_⟩
  intro A B hAB s hs0 hs1
  obtain ⟨c, hc, hH⟩ := hreg A B hAB s hs0 hs1
  refine ⟨⟨c, hc, hH⟩, ?_, ?_⟩
  · obtain ⟨l, hl, hkl⟩ := hH
    refine ⟨l, ?_, hkl⟩
    unfold requestPoint requestCell
    simp only [getCellR_of_nz ix' hg'.nz hg'.bounded, hc]
    exact hl
  · intro q d hq hd hdist
    exact neighborhood_finds_registered hf ix' hg' num _ c hc hH q hq d hd hdist

/-- a built index is `Good` (well formed, at least one column and row, positive cell sides, the cells cover the
extent): the starting point of `late_feature_complete`, which keeps it -/
theorem built_index_good {fl : α → Int} (hf : IsFloor fl) (feats : List (List (α × α))) (res : Option (α × α))
    (margin : α) (ix : Index α) (hm : 0 ≤ margin) (hres : ∀ r, res = some r → 0 < r.1 ∧ 0 < r.2)
    (hb : build fl feats res margin = .ok ix) : Good ix :=
  build_good hf feats res margin ix hm hres hb

/-- `grid_always_builds` (the repairs 9a44198 and the degenerate-extent one): with the default resolution or a
positive explicit cell size, `__init__` reaches the registration loop without raising for EVERY bounding box — an
extent more than 100 times wider than tall, a flat one (all vertices on one horizontal or vertical line), a single
point, one shorter than the cell size on an axis: the grid has at least one column and one row, both cell sides
are positive (so `__getCell` and `groundDistanceToUnits` never divide by zero), the cells tile every axis of
positive length exactly, and an axis of zero length has one column / row. (Each of these cases used to raise
ZeroDivisionError.) -/
theorem grid_always_builds {fl : α → Int} (hf : IsFloor fl) (bb : α × α × α × α) (res : Option (α × α)) (margin : α)
    (hres : ∀ r, res = some r → 0 < r.1 ∧ 0 < r.2) :
    ∃ ix, mkIndex fl bb res margin = .ok ix ∧ 1 ≤ ix.csize ∧ 1 ≤ ix.lsize ∧ 0 < ix.dX ∧ 0 < ix.dY ∧
      (ix.xmin < ix.xmax → ix.dX * ((ix.csize : Int) : α) = ix.xmax - ix.xmin) ∧
      (ix.ymin < ix.ymax → ix.dY * ((ix.lsize : Int) : α) = ix.ymax - ix.ymin) ∧
      (ix.xmin = ix.xmax → ix.csize = 1) ∧ (ix.ymin = ix.ymax → ix.lsize = 1) :=
  mkIndex_builds hf bb res margin hres

/-- `flat_axis_single_column`: on a built index whose extent has zero length along x (all vertices share one
abscissa: a straight north-south track) there is one column and every point of the extent — every vertex, every
admissible query point — has column index `0`; likewise along y. Together with T3/T4 (which speak about every
built index) such a collection is indexed and queried like any other. -/
theorem flat_axis_single_column {fl : α → Int} (hf : IsFloor fl) (feats : List (List (α × α))) (res : Option (α × α))
    (margin : α) (ix : Index α) (hm : 0 ≤ margin) (hres : ∀ r, res = some r → 0 < r.1 ∧ 0 < r.2)
    (hb : build fl feats res margin = .ok ix) (p c : α × α) (hp : getCell ix p = some c) :
    (ix.xmin = ix.xmax → ix.csize = 1 ∧ (cellOf fl ix c).1 = 0) ∧
    (ix.ymin = ix.ymax → ix.lsize = 1 ∧ (cellOf fl ix c).2 = 0) := by
  obtain ⟨_, _, _, _, _, _, oX, oY⟩ := build_grid hf feats res margin ix hm hres hb
  obtain ⟨⟨a1, a2⟩, ⟨b1, b2⟩, rfl⟩ := (getCell_some_iff ix p c).mp hp
  constructor
  · intro h
    refine ⟨oX h, ?_⟩
    have : p.1 - ix.xmin = 0 := by
      have : p.1 = ix.xmin := le_antisymm (by rw [h]; exact a2) a1
      rw [this]; ring
    unfold cellOf
    simp only [this, zero_div, hf.zero, oX h]
    rfl
  · intro h
    refine ⟨oY h, ?_⟩
    have : p.2 - ix.ymin = 0 := by
      have : p.2 = ix.ymin := le_antisymm (by rw [h]; exact b2) b1
      rw [this]; ring
    unfold cellOf
    simp only [this, zero_div, hf.zero, oY h]
    rfl

/-- `default_margin_create_index` (argument handling of the front ends that take a margin): `SpatialIndex(collection,
resolution=None, margin=0.05, verbose=True)` and `Network.createSpatialIndex(resolution=None, margin=0.05,
verbose=True)` called with the margin left out (`margin = none`) build the index of margin `1/20`, called with a
margin `m` that of margin `m`; for `m ≥ 0` (the default is) and the default or a positive cell size the call
returns, so every theorem of this file applies to the index. -/
theorem default_margin_create_index {fl : α → Int} (hf : IsFloor fl) (feats : List (List (α × α))) (res : Option (α × α))
    (margin : Option α) (hm : ∀ m, margin = some m → 0 ≤ m) (hres : ∀ r, res = some r → 0 < r.1 ∧ 0 < r.2)
    (hne : feats.flatten ≠ []) :
    ∃ m ix, 0 ≤ m ∧ (margin = some m ∨ (margin = none ∧ m = 1 / 20)) ∧
      createIndexArgs fl feats res margin = build fl feats res m ∧ build fl feats res m = .ok ix := by
  cases margin with
  | none =>
    have h0 : (0 : α) ≤ 1 / 20 := by norm_num
    obtain ⟨ix, h⟩ := build_returns hf feats res (1 / 20 : α) h0 hres hne
    exact ⟨1 / 20, ix, h0, Or.inr ⟨rfl, rfl⟩, by simp [createIndexArgs, defaultMargin], h⟩
  | some m =>
    obtain ⟨ix, h⟩ := build_returns hf feats res m (hm m rfl) hres hne
    exact ⟨m, ix, hm m rfl, Or.inl rfl, rfl, h⟩

/-- `network_add_edges_complete`: a sequence of `Network.addEdge` calls on an indexed network of `n` edges (each
registers the new edge under the running number of edges: `n`, `n + 1`, …), every vertex of every new edge inside the
extent. All calls return; the index keeps its extent and dimensions and everything registered before; and for the
`k`-th new edge, every point of every one of its segments lies in a cell that lists `n + k`, a point request there
returns `n + k`, and a neighbourhood query from a ground distance `d` around any `q` of the extent within `d` of that
point returns `n + k` — after ALL the additions (a later edge never removes an earlier one). `ix` is any index on
which nothing raises (`built_index_good`). -/
theorem network_add_edges_complete {fl : α → Int} (hf : IsFloor fl) (ix : Index α) (hg : Good ix) (n : Nat)
    (tracks : List (List (α × α))) (hin : ∀ t ∈ tracks, ∀ p ∈ t, getCell ix p ≠ none) :
    ∃ ix', networkAddEdges fl ix n tracks = .ok ix' ∧ Good ix' ∧ Same ix ix' ∧
      (∀ i j k, Holds ix.grid i j k → Holds ix'.grid i j k) ∧
      ∀ (k : Nat) (t : List (α × α)), tracks[k]? = some t → ∀ A B, (A, B) ∈ Consec t → ∀ s : α, 0 ≤ s → s ≤ 1 →
        (∃ c, getCell ix' (lerp A B s) = some c ∧ Holds ix'.grid (cellOf fl ix' c).1 (cellOf fl ix' c).2 (n + k)) ∧
        (∃ l, requestPoint fl ix' (lerp A B s) = .ok l ∧ n + k ∈ l) ∧
        (∀ (q : α × α) (d : α), getCell ix' q ≠ none → 0 ≤ d →
          (q.1 - (lerp A B s).1) ^ 2 + (q.2 - (lerp A B s).2) ^ 2 ≤ d ^ 2 →
          ∃ u l, groundDistanceToUnits fl ix' d = .ok u ∧ neighborhoodPoint fl ix' q u = .ok (some l) ∧ n + k ∈ l) := by
  obtain ⟨ix', h, hg', e, hreg⟩ := addFeatures_inside_complete hf tracks ix n hg hin
  refine ⟨ix', h, hg', e.1, e.2, ?_⟩
  intro k t hk A B hAB s hs0 hs1
  obtain ⟨c, hc, hH⟩ := hreg k t hk A B hAB s hs0 hs1
  refine ⟨⟨c, hc, hH⟩, ?_, ?_⟩
  · obtain ⟨l, hl, hkl⟩ := hH
    refine ⟨l, ?_, hkl⟩
    unfold requestPoint requestCell
    simp only [getCellR_of_nz ix' hg'.nz hg'.bounded, hc]
    exact hl
  · intro q d hq hd hdist
    exact neighborhood_finds_registered hf ix' hg' (n + k) _ c hc hH q hq d hd hdist

/-! ### non-vacuity -/

/-- `Rat.floor` (the driver's `math.floor`) satisfies the floor contract -/
theorem isFloor_ratFloor : IsFloor (α := ℚ) Rat.floor := by
  intro x
  have e : Rat.floor x = ⌊x⌋ := rfl
  rw [e]
  exact ⟨Int.floor_le x, Int.lt_floor_add_one x⟩

/-- the hypotheses of T3/T4 are satisfiable: the index of the tracks (0,0)-(4,3) and (1,5/2)-(2,5/2)-(4,0) with
cell size (1,1) and margin 1/2 is built (8 x 6 cells over [-2,6] x [-3/2,9/2]) -/
example : (build Rat.floor [[((0 : ℚ), (0 : ℚ)), (4, 3)], [(1, 5/2), (2, 5/2), (4, 0)]] (some (1, 1)) (1/2)).toBool = true := by
  decide +kernel

/-- regression witness of finding `vertex-on-upper-border` (repaired): with margin 0 the track (0,0)-(1,1), cell
size (1,1), is indexed on a 1 x 1 grid (the constructor used to raise IndexError: the vertex (1,1) has fractional
indices (csize, lsize)); the corner (1,1), the border point (1/2,1) and the border segment (1,0)-(1,1) find it -/
example : (match build Rat.floor [[((0 : ℚ), (0 : ℚ)), (1, 1)]] (some (1, 1)) 0 with
    | .ok ix => (ix.csize, ix.lsize, requestPoint Rat.floor ix (1, 1), requestPoint Rat.floor ix (1/2, 1),
        requestSeg Rat.floor ix (1, 0) (1, 1))
    | .error _ => (0, 0, .error .exit, .error .exit, .error .exit)) = (1, 1, .ok [0], .ok [0], .ok [0]) := by
  decide +kernel

/-- segments lying exactly on the upper border (margin 0, 2 x 2 cells over [0,2]²): track 0 = (0,0)-(2,0)-(2,2) runs
along the right border, track 1 = (0,2)-(2,2) along the top one. The border points (2,1), (1,2), (2,2) belong to
the last column / row and find both tracks; the interior point (1/2,1/2) finds track 0 only -/
example : (match build Rat.floor [[((0 : ℚ), (0 : ℚ)), (2, 0), (2, 2)], [(0, 2), (2, 2)]] (some (1, 1)) 0 with
    | .ok ix => (requestPoint Rat.floor ix (2, 1), requestPoint Rat.floor ix (1, 2), requestPoint Rat.floor ix (2, 2),
        requestPoint Rat.floor ix (1/2, 1/2))
    | .error _ => (.error .exit, .error .exit, .error .exit, .error .exit)) = (.ok [0, 1], .ok [0, 1], .ok [0, 1], .ok [0]) := by
  decide +kernel

/-- regression witness of finding `query-on-upper-border` (repaired): on the index of the track (0,0)-(2,2), cell
size (1,1), margin 1/2 (extent [-1,3]², 4 x 4 cells), `request` of the border point (3,1), of the corner (3,3)
and of the segment (3,-1)-(3,3) lying on the border return (they used to raise IndexError) -/
example : (match build Rat.floor [[((0 : ℚ), (0 : ℚ)), (2, 2)]] (some (1, 1)) (1/2) with
    | .ok ix => (requestPoint Rat.floor ix (3, 1), requestPoint Rat.floor ix (3, 3), requestSeg Rat.floor ix (3, -1) (3, 3))
    | .error _ => (.error .exit, .error .exit, .error .exit)) = (.ok [0], .ok [0], .ok [0]) := by
  decide +kernel

/-- a later addition (the hypotheses of `late_feature_complete` are satisfiable): the network of the two edges
(0,0)-(100,0) and (0,100)-(100,100), cell size (10,10), margin 1/20; the neighbourhood of (50,50) for a ground distance
15 (2 units) is empty; after `addFeature` of the edge (58,58)-(62,62) under number 2 — it crosses cells next to that of
(50,50), not that cell itself — the same query returns it -/
example : (match build Rat.floor [[((0 : ℚ), (0 : ℚ)), (100, 0)], [(0, 100), (100, 100)]] (some (10, 10)) (1/20) with
    | .ok ix =>
      (match addFeature Rat.floor ix [(58, 58), (62, 62)] 2 with
       | .ok ix' => (groundDistanceToUnits Rat.floor ix 15, neighborhoodPoint Rat.floor ix (50, 50) 2,
                     neighborhoodPoint Rat.floor ix' (50, 50) 2)
       | .error _ => (.error .exit, .error .exit, .error .exit))
    | .error _ => (.error .exit, .error .exit, .error .exit)) = (.ok 2, .ok (some []), .ok (some [2])) := by
  decide +kernel

/-- the front ends of a network (the hypotheses of `default_margin_create_index` and `network_add_edges_complete` are
satisfiable): `Network.createSpatialIndex((10, 10))` — margin left out — on the two edges (0,0)-(100,0) and
(0,100)-(100,100) builds the index of margin 1/20 (extent [-5,105]², 11 x 11 cells of side 10); two `Network.addEdge`
calls register the new edges under the numbers 2 and 3, and point requests on them find them -/
example : (match createIndexArgs Rat.floor [[((0 : ℚ), (0 : ℚ)), (100, 0)], [(0, 100), (100, 100)]] (some (10, 10)) none with
    | .ok ix =>
      (match networkAddEdges Rat.floor ix 2 [[(58, 58), (62, 62)], [(10, 10), (10, 30)]] with
       | .ok ix' => (ix'.xmin, ix'.csize, ix'.dX, requestPoint Rat.floor ix' (60, 60), requestPoint Rat.floor ix' (10, 20))
       | .error _ => (0, 0, 0, .error .exit, .error .exit))
    | .error _ => (0, 0, 0, .error .exit, .error .exit)) = (-5, 11, 10, .ok [2], .ok [3]) := by
  decide +kernel

/-- regression witness of the defect repaired by ad7c5ee: cells 60 x 1, distance 10 gives 11 units (was 1) -/
example : (match build Rat.floor [[((0 : ℚ), (0 : ℚ)), (60, 0), (60, 4)], [(0, 10), (60, 10)]] (some (60, 1)) (1/2) with
    | .ok ix => (match groundDistanceToUnits Rat.floor ix 10 with | .ok u => u | .error _ => 0) | .error _ => 0) = 11 := by
  decide +kernel

/-- regression witness of the defect repaired by 9a44198: the track (0,0)-(1000,5) with the default resolution and
margin 1/20 is indexed on a 100 x 1 grid (it used to raise ZeroDivisionError), and the point (500, 5/2) finds it -/
example : (match build Rat.floor [[((0 : ℚ), (0 : ℚ)), (1000, 5)]] none (1/20) with
    | .ok ix => (ix.csize, ix.lsize, requestPoint Rat.floor ix (500, 5/2)) | .error _ => (0, 0, .error .exit))
    = (100, 1, .ok [0]) := by
  decide +kernel

/-- regression witness of the degenerate-extent repair: the straight east-west track (0,0)-(10,0) with the default
resolution and margin 1/20 is indexed on a 100 x 1 grid (it used to raise ZeroDivisionError in `__getCell`), the
point (5, 0) finds it, and a ground distance of 1 is 10 units (cell side 11/100 on both axes) -/
example : (match build Rat.floor [[((0 : ℚ), (0 : ℚ)), (10, 0)]] none (1/20) with
    | .ok ix => (ix.csize, ix.lsize, requestPoint Rat.floor ix (5, 0), groundDistanceToUnits Rat.floor ix 1)
    | .error _ => (0, 0, .error .exit, .error .exit)) = (100, 1, .ok [0], .ok 10) := by
  decide +kernel

/-- the same track with an explicit cell size (2, 2): 5 x 1 cells (`int(0 / 2) = 0` rows used to raise
ZeroDivisionError in `__init__`) -/
example : (match build Rat.floor [[((0 : ℚ), (0 : ℚ)), (10, 0)]] (some (2, 2)) (1/20) with
    | .ok ix => (ix.csize, ix.lsize, requestPoint Rat.floor ix (5, 0)) | .error _ => (0, 0, .error .exit))
    = (5, 1, .ok [0]) := by
  decide +kernel

/-- an explicit cell size larger than the extent on one axis: the track (0,0)-(10,1) with cells (2, 5) is indexed on
5 x 1 cells of height 11/10 (`int(1.1 / 5) = 0` rows used to raise ZeroDivisionError) -/
example : (match build Rat.floor [[((0 : ℚ), (0 : ℚ)), (10, 1)]] (some (2, 5)) (1/20) with
    | .ok ix => (ix.csize, ix.lsize, ix.dY, requestPoint Rat.floor ix (5, 1/2)) | .error _ => (0, 0, 0, .error .exit))
    = (5, 1, 11/10, .ok [0]) := by
  decide +kernel

/-- a bounding box that is a single point (a track that never moves): one cell of unit side (`r = 0 / 100` used to
raise ZeroDivisionError), and the point finds the track -/
example : (match build Rat.floor [[((3 : ℚ), (4 : ℚ)), (3, 4)]] none (1/20) with
    | .ok ix => (ix.csize, ix.lsize, ix.dX, ix.dY, requestPoint Rat.floor ix (3, 4)) | .error _ => (0, 0, 0, 0, .error .exit))
    = (1, 1, 1, 1, .ok [0]) := by
  decide +kernel

end TV.C08
