import TracklibVerif.Lemmas.GridMain
import Mathlib.Data.Rat.Floor
/-! # C08 — the grid spatial index never omits a feature that is geometrically there

Property theorems only (helper lemmas: `Lemmas/Grid.lean` (ordered-field geometry), `Lemmas/GridCells.lean`,
`GridIndex.lean`, `GridBuild.lean`, `GridQuery.lean`, `GridMain.lean`). The model is `Model/Grid.lean`
(`core/spatial_index.py` after ad7c5ee, 9a44198 and the degenerate-extent repair, `cartesienne`/`isSegmentIntersects`
of `util/geometry.py`).

All statements are over an arbitrary linearly ordered field `α` (ℚ, ℝ) with `fl : α → ℤ` any function satisfying
the contract of `math.floor` (`IsFloor`); they are about the exact values, not about IEEE rounding.
`lerp A B s` is the point `A + s (B − A)` of the segment `[A, B]`; `Consec t` are the consecutive vertex pairs of
the track `t`; `Holds g i j k` says `k ∈ grid[i][j]`. `getCell ix p = some c` says that `p` is inside the closed
extent and `c` are its fractional cell indices (what `__getCell` returns when it returns; `getCellR` is `__getCell`
with its ZeroDivisionError on a zero cell side, which no built index has: `grid_always_builds`). A theorem about
`build … = .ok ix` speaks about constructor calls that return: that includes thin, flat and single-point extents and
extents shorter than the cell size (`grid_always_builds`, `flat_axis_single_column`); for `margin = 0` a vertex on the
upper border of a non-flat axis makes the registration loop raise (finding `vertex-on-upper-border`). -/
namespace TV.C08
open TV.Grid
variable {α : Type} [Field α] [LinearOrder α] [IsStrictOrderedRing α]

/-- T1 `straddle_necessary`: two closed segments that share a point pass `isSegmentIntersects` (the
product-of-evaluations test `val1 <= 0 and val2 <= 0`), including touching ends, collinear overlap and
zero-length segments. -/
theorem straddle_necessary (s1 s2 : Seg α) (r q : α) (hr0 : 0 ≤ r) (hr1 : r ≤ 1) (hq0 : 0 ≤ q) (hq1 : q ≤ 1)
    (hx : s1.x1 + r * (s1.x2 - s1.x1) = s2.x1 + q * (s2.x2 - s2.x1))
    (hy : s1.y1 + r * (s1.y2 - s1.y1) = s2.y1 + q * (s2.y2 - s2.y1)) :
    isSegmentIntersects s1 s2 = true :=
  (isSegmentIntersects_iff s1 s2).mpr (inter_of_common _ _ _ _ _ _ _ _ r q hr0 hr1 hq0 hq1 hx hy)

/-- T2 `cells_complete`: if a point `P = c1 + s (c2 − c1)` of the segment `[c1, c2]` (fractional cell indices) lies
in cell `(i, j)`, i.e. `i ≤ Px < i+1` and `j ≤ Py < j+1`, then `(i, j)` is in the list returned by
`__cellsCrossSegment(c1, c2)`: the cell is inside the scanned index box and passes one of the five tests. -/
theorem cells_complete {fl : α → Int} (hf : IsFloor fl) (c1 c2 : α × α) (s : α) (hs0 : 0 ≤ s) (hs1 : s ≤ 1) (i j : Int)
    (hi : ((i : Int) : α) ≤ (lerp c1 c2 s).1 ∧ (lerp c1 c2 s).1 < ((i : Int) : α) + 1)
    (hj : ((j : Int) : α) ≤ (lerp c1 c2 s).2 ∧ (lerp c1 c2 s).2 < ((j : Int) : α) + 1) :
    (i, j) ∈ cellsCross fl c1 c2 := by
  have := cellsCross_complete hf c1 c2 s hs0 hs1
  unfold lerp at hi hj
  rw [hf.eq_of hi.1 hi.2, hf.eq_of hj.1 hj.2] at this
  exact this

/-- T3a `index_complete`: after `SpatialIndex(collection, resolution, margin)` with `margin ≥ 0` returned, every
point `P` of every segment `[A, B]` of feature number `k` is inside the extent and the cell
`(floor idx, floor idy)` containing it lists `k`. -/
theorem index_complete {fl : α → Int} (hf : IsFloor fl) (feats : List (List (α × α))) (res : Option (α × α))
    (margin : α) (ix : Index α) (hm : 0 ≤ margin) (hb : build fl feats res margin = .ok ix)
    (k : Nat) (t : List (α × α)) (hk : feats[k]? = some t) (A B : α × α) (hAB : (A, B) ∈ Consec t)
    (s : α) (hs0 : 0 ≤ s) (hs1 : s ≤ 1) :
    ∃ c, getCell ix (lerp A B s) = some c ∧ Holds ix.grid (fl c.1) (fl c.2) k :=
  build_registers hf feats res margin ix hm hb k t hk A B hAB s hs0 hs1

/-- T3b `point_query_complete`: `request(q)` for a point `q` inside the extent returns every feature `k` having
a segment with a point `P` in the cell that contains `q` (same `floor` of both fractional indices): it does not
raise and `k` is in the returned list. -/
theorem point_query_complete {fl : α → Int} (hf : IsFloor fl) (feats : List (List (α × α))) (res : Option (α × α))
    (margin : α) (ix : Index α) (hm : 0 ≤ margin) (hb : build fl feats res margin = .ok ix)
    (k : Nat) (t : List (α × α)) (hk : feats[k]? = some t) (A B : α × α) (hAB : (A, B) ∈ Consec t)
    (s : α) (hs0 : 0 ≤ s) (hs1 : s ≤ 1) (q cq cP : α × α) (hq : getCell ix q = some cq)
    (hP : getCell ix (lerp A B s) = some cP) (hcell : fl cq.1 = fl cP.1 ∧ fl cq.2 = fl cP.2) :
    ∃ l, requestPoint fl ix q = .ok l ∧ k ∈ l := by
  obtain ⟨c, hc, l, hl, hkl⟩ := build_registers hf feats res margin ix hm hb k t hk A B hAB s hs0 hs1
  rw [hP] at hc; cases hc
  obtain ⟨_, _, _, hz⟩ := build_spec feats res margin ix hm hb
  have hnz := hz t (List.mem_of_getElem? hk) (List.ne_nil_of_mem hAB)
  refine ⟨l, ?_, hkl⟩
  unfold requestPoint requestCell
  simp only [getCellR_of_nz ix hnz q, hq, hcell.1, hcell.2]
  exact hl

/-- T3c `segment_query_complete`: a returned `request([Q1, Q2])` contains every feature listed in the cell of any
point `Q` of the query segment — in particular (T3a) every feature having a point in such a cell. -/
theorem segment_query_complete {fl : α → Int} (hf : IsFloor fl) (ix : Index α) (Q1 Q2 : α × α) (l : List Nat)
    (h : requestSeg fl ix Q1 Q2 = .ok l) (s : α) (hs0 : 0 ≤ s) (hs1 : s ≤ 1) :
    ∃ c, getCell ix (lerp Q1 Q2 s) = some c ∧ ∀ k, Holds ix.grid (fl c.1) (fl c.2) k → k ∈ l := by
  obtain ⟨p1, p2, g1, g2, _, hc⟩ := requestSegInto_spec fl ix [] l Q1 Q2 h
  refine ⟨lerp p1 p2 s, getCell_lerp ix Q1 Q2 p1 p2 s hs0 hs1 g1 g2, ?_⟩
  intro k hk
  exact hc _ (cellsCross_complete hf p1 p2 s hs0 hs1) k hk

/-- T3e `segment_query_returns`: for an index built with `margin ≥ 0` and a positive (or the default) cell size,
`request([Q1, Q2])` does not raise when both ends are inside the extent and strictly below its upper borders
(with T3c: it then returns every feature registered in a crossed cell). On the upper border it raises IndexError:
finding `query-on-upper-border`. -/
theorem segment_query_returns {fl : α → Int} (hf : IsFloor fl) (feats : List (List (α × α))) (res : Option (α × α))
    (margin : α) (ix : Index α) (hm : 0 ≤ margin) (hres : ∀ r, res = some r → 0 < r.1 ∧ 0 < r.2)
    (hb : build fl feats res margin = .ok ix) (Q1 Q2 : α × α)
    (h1 : (ix.xmin ≤ Q1.1 ∧ Q1.1 < ix.xmax) ∧ (ix.ymin ≤ Q1.2 ∧ Q1.2 < ix.ymax))
    (h2 : (ix.xmin ≤ Q2.1 ∧ Q2.1 < ix.xmax) ∧ (ix.ymin ≤ Q2.2 ∧ Q2.2 < ix.ymax)) :
    ∃ l, requestSeg fl ix Q1 Q2 = .ok l := by
  obtain ⟨hw, _, _, _⟩ := build_spec feats res margin ix hm hb
  obtain ⟨_, _, hdX, hdY, tX, tY, _, _⟩ := build_grid hf feats res margin ix hm hres hb
  have hnz : NZ ix := (NZ_iff ix).mpr ⟨ne_of_gt hdX, ne_of_gt hdY⟩
  have ex := tX (lt_of_le_of_lt h1.1.1 h1.1.2)
  have ey := tY (lt_of_le_of_lt h1.2.1 h1.2.2)
  have g1 : getCell ix Q1 = some ((Q1.1 - ix.xmin) / ix.dX, (Q1.2 - ix.ymin) / ix.dY) :=
    (getCell_some_iff ix Q1 _).mpr ⟨⟨h1.1.1, le_of_lt h1.1.2⟩, ⟨h1.2.1, le_of_lt h1.2.2⟩, rfl⟩
  have g2 : getCell ix Q2 = some ((Q2.1 - ix.xmin) / ix.dX, (Q2.2 - ix.ymin) / ix.dY) :=
    (getCell_some_iff ix Q2 _).mpr ⟨⟨h2.1.1, le_of_lt h2.1.2⟩, ⟨h2.2.1, le_of_lt h2.2.2⟩, rfl⟩
  have a1 := floor_index_range hf ix.xmin ix.xmax ix.dX Q1.1 ix.csize hdX ex h1.1.1 h1.1.2
  have a2 := floor_index_range hf ix.xmin ix.xmax ix.dX Q2.1 ix.csize hdX ex h2.1.1 h2.1.2
  have b1 := floor_index_range hf ix.ymin ix.ymax ix.dY Q1.2 ix.lsize hdY ey h1.2.1 h1.2.2
  have b2 := floor_index_range hf ix.ymin ix.ymax ix.dY Q2.2 ix.lsize hdY ey h2.2.1 h2.2.2
  unfold requestSeg requestSegInto
  simp only [getCellR_of_nz ix hnz, g1, g2]
  apply collectCells_ok ix _ [] hw.2
  intro cell hcell
  have hc : (cell.1, cell.2) ∈ cellsCross fl ((Q1.1 - ix.xmin) / ix.dX, (Q1.2 - ix.ymin) / ix.dY)
      ((Q2.1 - ix.xmin) / ix.dX, (Q2.2 - ix.ymin) / ix.dY) := hcell
  rw [mem_cellsCross] at hc
  obtain ⟨⟨c1, c2⟩, ⟨c3, c4⟩, _⟩ := hc
  dsimp only at c1 c2 c3 c4
  exact ⟨⟨by omega, by omega⟩, by omega, by omega⟩

/-- T3d `track_query_complete`: the same for `request(track)` and every segment of the query track. -/
theorem track_query_complete {fl : α → Int} (hf : IsFloor fl) (ix : Index α) (track : List (α × α)) (l : List Nat)
    (h : requestTrack fl ix track = .ok l) (Q1 Q2 : α × α) (hQ : (Q1, Q2) ∈ Consec track)
    (s : α) (hs0 : 0 ≤ s) (hs1 : s ≤ 1) :
    ∃ c, getCell ix (lerp Q1 Q2 s) = some c ∧ ∀ k, Holds ix.grid (fl c.1) (fl c.2) k → k ∈ l := by
  obtain ⟨_, hc⟩ := requestTrackLoop_spec fl ix track none [] l h
  obtain ⟨p1, p2, g1, g2, hcc⟩ := hc Q1 Q2 (by simpa using hQ)
  refine ⟨lerp p1 p2 s, getCell_lerp ix Q1 Q2 p1 p2 s hs0 hs1 g1 g2, ?_⟩
  intro k hk
  exact hcc _ (cellsCross_complete hf p1 p2 s hs0 hs1) k hk

/-- T4a `units_sound`: with positive cell sizes, two points inside the extent whose coordinates differ by at most
`d` on each axis (in particular two points at Euclidean distance ≤ `d`) fall in cells whose column and row indices
differ by at most `groundDistanceToUnits(d) = floor(d / min(dX, dY) + 1)` (which does not raise). -/
theorem units_sound {fl : α → Int} (hf : IsFloor fl) (ix : Index α) (hdX : 0 < ix.dX) (hdY : 0 < ix.dY)
    (p q cp cq : α × α) (d : α) (hp : getCell ix p = some cp) (hq : getCell ix q = some cq)
    (hx : -d ≤ q.1 - p.1 ∧ q.1 - p.1 ≤ d) (hy : -d ≤ q.2 - p.2 ∧ q.2 - p.2 ≤ d) :
    ∃ u, groundDistanceToUnits fl ix d = .ok u ∧ u = fl (d / min ix.dX ix.dY + 1) ∧
      (fl cq.1 - fl cp.1 ≤ u ∧ fl cp.1 - fl cq.1 ≤ u) ∧ (fl cq.2 - fl cp.2 ≤ u ∧ fl cp.2 - fl cq.2 ≤ u) := by
  obtain ⟨_, _, rfl⟩ := (getCell_some_iff ix p cp).mp hp
  obtain ⟨_, _, rfl⟩ := (getCell_some_iff ix q cq).mp hq
  have hmn : 0 < min ix.dX ix.dY := lt_min hdX hdY
  have hz : isZero (min ix.dX ix.dY) = false := (isZero_false_iff _).mpr (ne_of_gt hmn)
  refine ⟨fl (d / min ix.dX ix.dY + 1), ?_, rfl, ?_⟩
  · simp only [groundDistanceToUnits, pyMin_eq, Int.cast_one, hz, Bool.false_eq_true, if_false]
  · exact ⟨units_axis hf p.1 q.1 ix.xmin ix.dX d _ hmn (min_le_left _ _) hx.1 hx.2,
      units_axis hf p.2 q.2 ix.ymin ix.dY d _ hmn (min_le_right _ _) hy.1 hy.2⟩

omit [Field α] [LinearOrder α] [IsStrictOrderedRing α] in
/-- T4b `neighboringCells_square`: `__neighboringcells(i, j, u)` is exactly the square of Chebyshev radius `u`
around `(i, j)` clipped to the grid `[0, csize) × [0, lsize)`. -/
theorem neighboringCells_square (ix : Index α) (i j u i' j' : Int) :
    (i', j') ∈ neighboringCells ix i j u false ↔
      (i - u ≤ i' ∧ i' ≤ i + u ∧ 0 ≤ i' ∧ i' < ix.csize) ∧ (j - u ≤ j' ∧ j' ≤ j + u ∧ 0 ≤ j' ∧ j' < ix.lsize) := by
  rw [mem_neighboringCells]
  constructor
  · rintro ⟨⟨a, b⟩, c, d⟩
    exact ⟨⟨by omega, by omega, by omega, by omega⟩, by omega, by omega, by omega, by omega⟩
  · rintro ⟨⟨a, b, c, d⟩, e, f, g, h⟩
    exact ⟨⟨by omega, by omega⟩, by omega, by omega⟩

/-- T4c `neighborhood_complete`: for an index built with `margin ≥ 0` and a positive (or the default) cell size,
a query point `q` inside the extent and a ground distance `d ≥ 0`:
`groundDistanceToUnits(d)` and `neighborhood(q, unit = groundDistanceToUnits(d))` do not raise and the latter
returns every feature `k` that has a point `P` (on one of its segments) within Euclidean distance `d` of `q`. -/
theorem neighborhood_complete {fl : α → Int} (hf : IsFloor fl) (feats : List (List (α × α))) (res : Option (α × α))
    (margin : α) (ix : Index α) (hm : 0 ≤ margin) (hres : ∀ r, res = some r → 0 < r.1 ∧ 0 < r.2)
    (hb : build fl feats res margin = .ok ix)
    (k : Nat) (t : List (α × α)) (hk : feats[k]? = some t) (A B : α × α) (hAB : (A, B) ∈ Consec t)
    (s : α) (hs0 : 0 ≤ s) (hs1 : s ≤ 1) (q : α × α) (hq : getCell ix q ≠ none) (d : α) (hd : 0 ≤ d)
    (hdist : (q.1 - (lerp A B s).1) ^ 2 + (q.2 - (lerp A B s).2) ^ 2 ≤ d ^ 2) :
    ∃ u l, groundDistanceToUnits fl ix d = .ok u ∧ neighborhoodPoint fl ix q u = .ok (some l) ∧ k ∈ l := by
  obtain ⟨hw, _, _, _⟩ := build_spec feats res margin ix hm hb
  obtain ⟨hcs, hls, hdX, hdY, _⟩ := build_grid hf feats res margin ix hm hres hb
  have hnz := build_nz hf feats res margin ix hm hres hb
  obtain ⟨cP, hP, hHolds⟩ := build_registers hf feats res margin ix hm hb k t hk A B hAB s hs0 hs1
  obtain ⟨cq, hcq⟩ := Option.ne_none_iff_exists'.mp hq
  -- coordinate differences are bounded by the Euclidean distance
  have hx : -d ≤ q.1 - (lerp A B s).1 ∧ q.1 - (lerp A B s).1 ≤ d := by
    have h2 : (q.1 - (lerp A B s).1) ^ 2 ≤ d ^ 2 := by nlinarith [sq_nonneg (q.2 - (lerp A B s).2)]
    exact abs_le.mp (abs_le_of_sq_le_sq h2 hd)
  have hy : -d ≤ q.2 - (lerp A B s).2 ∧ q.2 - (lerp A B s).2 ≤ d := by
    have h2 : (q.2 - (lerp A B s).2) ^ 2 ≤ d ^ 2 := by nlinarith [sq_nonneg (q.1 - (lerp A B s).1)]
    exact abs_le.mp (abs_le_of_sq_le_sq h2 hd)
  obtain ⟨u, hgu, hueq, ⟨u1, u2⟩, u3, u4⟩ := units_sound hf ix hdX hdY (lerp A B s) q cP cq d hP hcq hx hy
  have hmn : 0 < min ix.dX ix.dY := lt_min hdX hdY
  have hu1 : 1 ≤ u := by
    rw [hueq]
    exact units_pos hf d _ hd hmn
  -- the cell of P is inside the grid
  obtain ⟨a1, a2, rfl⟩ := (getCell_some_iff ix _ cP).mp hP
  dsimp only at u1 u2 u3 u4 hHolds
  have hi0 : 0 ≤ fl (((lerp A B s).1 - ix.xmin) / ix.dX) := by
    have := hf.mono (div_nonneg (sub_nonneg.mpr a1.1) (le_of_lt hdX))
    rwa [hf.zero] at this
  have hj0 : 0 ≤ fl (((lerp A B s).2 - ix.ymin) / ix.dY) := by
    have := hf.mono (div_nonneg (sub_nonneg.mpr a2.1) (le_of_lt hdY))
    rwa [hf.zero] at this
  obtain ⟨cl, hcl, hkcl⟩ := hHolds
  obtain ⟨hi1, hj1⟩ := lt_of_cellGet_ok ix.grid _ _ hw.2 _ _ cl hcl hi0 hj0
  have hi1' : fl (((lerp A B s).1 - ix.xmin) / ix.dX) < ix.csize := by omega
  have hj1' : fl (((lerp A B s).2 - ix.ymin) / ix.dY) < ix.lsize := by omega
  -- the query
  refine ⟨u, ?_⟩
  unfold neighborhoodPoint
  simp only [getCellR_of_nz ix hnz q, hcq]
  unfold neighborhoodCell
  have hne : (u != -1) = true := by
    simp only [bne_iff_ne, ne_eq]; omega
  simp only [hne, if_true]
  obtain ⟨out, hout⟩ := collectCells_ok ix (neighboringCells ix (fl cq.1) (fl cq.2) u false) []
    hw.2 (by
      intro cell hcell
      have := (neighboringCells_square ix _ _ _ cell.1 cell.2).mp hcell
      exact ⟨⟨this.1.2.2.1, this.1.2.2.2⟩, this.2.2.2.1, this.2.2.2.2⟩)
  refine ⟨out, hgu, by rw [hout], ?_⟩
  obtain ⟨_, hall⟩ := collectCells_spec ix _ [] out hout
  apply hall (fl (((lerp A B s).1 - ix.xmin) / ix.dX), fl (((lerp A B s).2 - ix.ymin) / ix.dY))
  · rw [neighboringCells_square]
    exact ⟨⟨by omega, by omega, hi0, hi1'⟩, by omega, by omega, hj0, hj1'⟩
  · exact ⟨cl, hcl, hkcl⟩

/-- Formal side of finding `vertex-on-upper-border` (D10): if the constructor returns (margin ≥ 0, positive or
default cell size) then no point of any feature segment lies on the upper border `x = xmax` of an axis of positive
length (`y = ymax` likewise). With `margin = 0` the extent is the bounding box, so a right-most or top-most vertex
that belongs to a track of at least two points makes the constructor raise (the model's `grid[csize]` IndexError) —
unless all vertices share that abscissa (ordinate): the single column (row) of a zero-length axis holds them. -/
theorem vertex_on_upper_border_raises {fl : α → Int} (hf : IsFloor fl) (feats : List (List (α × α))) (res : Option (α × α))
    (margin : α) (ix : Index α) (hm : 0 ≤ margin) (hres : ∀ r, res = some r → 0 < r.1 ∧ 0 < r.2)
    (hb : build fl feats res margin = .ok ix)
    (k : Nat) (t : List (α × α)) (hk : feats[k]? = some t) (A B : α × α) (hAB : (A, B) ∈ Consec t)
    (s : α) (hs0 : 0 ≤ s) (hs1 : s ≤ 1) :
    (ix.xmin < ix.xmax → (lerp A B s).1 < ix.xmax) ∧ (ix.ymin < ix.ymax → (lerp A B s).2 < ix.ymax) := by
  obtain ⟨hw, _, _, _⟩ := build_spec feats res margin ix hm hb
  obtain ⟨_, _, hdX, hdY, tX, tY, _, _⟩ := build_grid hf feats res margin ix hm hres hb
  obtain ⟨cP, hP, cl, hcl, _⟩ := build_registers hf feats res margin ix hm hb k t hk A B hAB s hs0 hs1
  obtain ⟨a1, a2, rfl⟩ := (getCell_some_iff ix _ cP).mp hP
  dsimp only at hcl
  have hi0 : 0 ≤ fl (((lerp A B s).1 - ix.xmin) / ix.dX) := by
    have := hf.mono (div_nonneg (sub_nonneg.mpr a1.1) (le_of_lt hdX))
    rwa [hf.zero] at this
  have hj0 : 0 ≤ fl (((lerp A B s).2 - ix.ymin) / ix.dY) := by
    have := hf.mono (div_nonneg (sub_nonneg.mpr a2.1) (le_of_lt hdY))
    rwa [hf.zero] at this
  obtain ⟨hi1, hj1⟩ := lt_of_cellGet_ok ix.grid _ _ hw.2 _ _ cl hcl hi0 hj0
  constructor
  · intro hlt
    have ex := tX hlt
    by_contra hc
    have he : (lerp A B s).1 = ix.xmax := le_antisymm a1.2 (not_lt.mp hc)
    have : ((lerp A B s).1 - ix.xmin) / ix.dX = ((ix.csize : Int) : α) := by
      rw [he, ← ex, mul_comm, mul_div_assoc, div_self (ne_of_gt hdX), mul_one]
    rw [this, hf.eq_of (le_refl _) (by linarith)] at hi1
    omega
  · intro hlt
    have ey := tY hlt
    by_contra hc
    have he : (lerp A B s).2 = ix.ymax := le_antisymm a2.2 (not_lt.mp hc)
    have : ((lerp A B s).2 - ix.ymin) / ix.dY = ((ix.lsize : Int) : α) := by
      rw [he, ← ey, mul_comm, mul_div_assoc, div_self (ne_of_gt hdY), mul_one]
    rw [this, hf.eq_of (le_refl _) (by linarith)] at hj1
    omega

/-- Formal side of finding `query-on-upper-border`: on a built index, `request(q)` for a point `q` of the extent
on the upper border of an axis of positive length (`q.x = xmax > xmin` or `q.y = ymax > ymin`) raises IndexError:
`__getCell` accepts the point and returns index `csize` / `lsize`. -/
theorem point_query_on_upper_border_raises {fl : α → Int} (hf : IsFloor fl) (feats : List (List (α × α)))
    (res : Option (α × α)) (margin : α) (ix : Index α) (hm : 0 ≤ margin) (hres : ∀ r, res = some r → 0 < r.1 ∧ 0 < r.2)
    (hb : build fl feats res margin = .ok ix) (q : α × α) (hq : getCell ix q ≠ none)
    (hborder : (ix.xmin < ix.xmax ∧ q.1 = ix.xmax) ∨ (ix.ymin < ix.ymax ∧ q.2 = ix.ymax)) :
    requestPoint fl ix q = .error .index := by
  obtain ⟨hw, _, _, _⟩ := build_spec feats res margin ix hm hb
  obtain ⟨hcs, hls, hdX, hdY, tX, tY, _, _⟩ := build_grid hf feats res margin ix hm hres hb
  have hnz := build_nz hf feats res margin ix hm hres hb
  obtain ⟨cq, hcq⟩ := Option.ne_none_iff_exists'.mp hq
  obtain ⟨⟨a1, a2⟩, ⟨b1, b2⟩, rfl⟩ := (getCell_some_iff ix q cq).mp hcq
  unfold requestPoint requestCell
  simp only [getCellR_of_nz ix hnz q, hcq]
  rcases hborder with ⟨hlt, he⟩ | ⟨hlt, he⟩
  · have ex := tX hlt
    have : (q.1 - ix.xmin) / ix.dX = ((ix.csize : Int) : α) := by
      rw [he, ← ex, mul_comm, mul_div_assoc, div_self (ne_of_gt hdX), mul_one]
    rw [this, hf.eq_of (le_refl _) (by linarith)]
    apply cellGet_err_col
    rw [hw.2.1]; omega
  · have ey := tY hlt
    have : (q.2 - ix.ymin) / ix.dY = ((ix.lsize : Int) : α) := by
      rw [he, ← ey, mul_comm, mul_div_assoc, div_self (ne_of_gt hdY), mul_one]
    rw [this, hf.eq_of (le_refl _) (by linarith)]
    apply cellGet_err_row _ _ _ hw.2
    omega

/-- `grid_always_builds` (the repairs 9a44198 and the degenerate-extent one): with the default resolution or a
positive explicit cell size, `__init__` reaches the registration loop without raising for EVERY bounding box — an
extent more than 100 times wider than tall, a flat one (all vertices on one horizontal or vertical line), a single
point, one shorter than the cell size on an axis: the grid has at least one column and one row, both cell sides
are positive (so `__getCell` and `groundDistanceToUnits` never divide by zero), the cells tile every axis of
positive length exactly, and an axis of zero length has one column / row. (Each of these cases used to raise
ZeroDivisionError.) -/
theorem grid_always_builds {fl : α → Int} (hf : IsFloor fl) (bb : α × α × α × α) (res : Option (α × α)) (margin : α)
    (hres : ∀ r, res = some r → 0 < r.1 ∧ 0 < r.2) :
    ∃ ix, mkIndex fl bb res margin = .ok ix ∧ 1 ≤ ix.csize ∧ 1 ≤ ix.lsize ∧ 0 < ix.dX ∧ 0 < ix.dY ∧
      (ix.xmin < ix.xmax → ix.dX * ((ix.csize : Int) : α) = ix.xmax - ix.xmin) ∧
      (ix.ymin < ix.ymax → ix.dY * ((ix.lsize : Int) : α) = ix.ymax - ix.ymin) ∧
      (ix.xmin = ix.xmax → ix.csize = 1) ∧ (ix.ymin = ix.ymax → ix.lsize = 1) :=
  mkIndex_builds hf bb res margin hres

/-- `flat_axis_single_column`: on a built index whose extent has zero length along x (all vertices share one
abscissa: a straight north-south track) there is one column and every point of the extent — every vertex, every
admissible query point — has column index `floor(0 / dX) = 0`; likewise along y. Together with T3/T4 (which speak
about every built index) such a collection is indexed and queried like any other. -/
theorem flat_axis_single_column {fl : α → Int} (hf : IsFloor fl) (feats : List (List (α × α))) (res : Option (α × α))
    (margin : α) (ix : Index α) (hm : 0 ≤ margin) (hres : ∀ r, res = some r → 0 < r.1 ∧ 0 < r.2)
    (hb : build fl feats res margin = .ok ix) (p c : α × α) (hp : getCell ix p = some c) :
    (ix.xmin = ix.xmax → ix.csize = 1 ∧ fl c.1 = 0) ∧ (ix.ymin = ix.ymax → ix.lsize = 1 ∧ fl c.2 = 0) := by
  obtain ⟨_, _, _, _, _, _, oX, oY⟩ := build_grid hf feats res margin ix hm hres hb
  obtain ⟨⟨a1, a2⟩, ⟨b1, b2⟩, rfl⟩ := (getCell_some_iff ix p c).mp hp
  constructor
  · intro h
    refine ⟨oX h, ?_⟩
    have : p.1 - ix.xmin = 0 := by
      have : p.1 = ix.xmin := le_antisymm (by rw [h]; exact a2) a1
      rw [this]; ring
    simp only [this, zero_div]
    exact hf.zero
  · intro h
    refine ⟨oY h, ?_⟩
    have : p.2 - ix.ymin = 0 := by
      have : p.2 = ix.ymin := le_antisymm (by rw [h]; exact b2) b1
      rw [this]; ring
    simp only [this, zero_div]
    exact hf.zero

/-! ### non-vacuity -/

/-- `Rat.floor` (the driver's `math.floor`) satisfies the floor contract -/
theorem isFloor_ratFloor : IsFloor (α := ℚ) Rat.floor := by
  intro x
  have e : Rat.floor x = ⌊x⌋ := rfl
  rw [e]
  exact ⟨Int.floor_le x, Int.lt_floor_add_one x⟩

/-- the hypotheses of T3/T4 are satisfiable: the index of the tracks (0,0)-(4,3) and (1,5/2)-(2,5/2)-(4,0) with
cell size (1,1) and margin 1/2 is built (8 x 6 cells over [-2,6] x [-3/2,9/2]) -/
example : (build Rat.floor [[((0 : ℚ), (0 : ℚ)), (4, 3)], [(1, 5/2), (2, 5/2), (4, 0)]] (some (1, 1)) (1/2)).toBool = true := by
  decide +kernel

/-- with margin 0 no index is built (finding `vertex-on-upper-border`): the constructor raises IndexError -/
example : (build Rat.floor [[((0 : ℚ), (0 : ℚ)), (1, 1)]] (some (1, 1)) 0).toBool = false := by
  decide +kernel

/-- regression witness of the defect repaired by ad7c5ee: cells 60 x 1, distance 10 gives 11 units (was 1) -/
example : (match build Rat.floor [[((0 : ℚ), (0 : ℚ)), (60, 0), (60, 4)], [(0, 10), (60, 10)]] (some (60, 1)) (1/2) with
    | .ok ix => (match groundDistanceToUnits Rat.floor ix 10 with | .ok u => u | .error _ => 0) | .error _ => 0) = 11 := by
  decide +kernel

/-- regression witness of the defect repaired by 9a44198: the track (0,0)-(1000,5) with the default resolution and
margin 1/20 is indexed on a 100 x 1 grid (it used to raise ZeroDivisionError), and the point (500, 5/2) finds it -/
example : (match build Rat.floor [[((0 : ℚ), (0 : ℚ)), (1000, 5)]] none (1/20) with
    | .ok ix => (ix.csize, ix.lsize, requestPoint Rat.floor ix (500, 5/2)) | .error _ => (0, 0, .error .exit))
    = (100, 1, .ok [0]) := by
  decide +kernel

/-- regression witness of the degenerate-extent repair: the straight east-west track (0,0)-(10,0) with the default
resolution and margin 1/20 is indexed on a 100 x 1 grid (it used to raise ZeroDivisionError in `__getCell`), the
point (5, 0) finds it, and a ground distance of 1 is 10 units (cell side 11/100 on both axes) -/
example : (match build Rat.floor [[((0 : ℚ), (0 : ℚ)), (10, 0)]] none (1/20) with
    | .ok ix => (ix.csize, ix.lsize, requestPoint Rat.floor ix (5, 0), groundDistanceToUnits Rat.floor ix 1)
    | .error _ => (0, 0, .error .exit, .error .exit)) = (100, 1, .ok [0], .ok 10) := by
  decide +kernel

/-- the same track with an explicit cell size (2, 2): 5 x 1 cells (`int(0 / 2) = 0` rows used to raise
ZeroDivisionError in `__init__`) -/
example : (match build Rat.floor [[((0 : ℚ), (0 : ℚ)), (10, 0)]] (some (2, 2)) (1/20) with
    | .ok ix => (ix.csize, ix.lsize, requestPoint Rat.floor ix (5, 0)) | .error _ => (0, 0, .error .exit))
    = (5, 1, .ok [0]) := by
  decide +kernel

/-- an explicit cell size larger than the extent on one axis: the track (0,0)-(10,1) with cells (2, 5) is indexed on
5 x 1 cells of height 11/10 (`int(1.1 / 5) = 0` rows used to raise ZeroDivisionError) -/
example : (match build Rat.floor [[((0 : ℚ), (0 : ℚ)), (10, 1)]] (some (2, 5)) (1/20) with
    | .ok ix => (ix.csize, ix.lsize, ix.dY, requestPoint Rat.floor ix (5, 1/2)) | .error _ => (0, 0, 0, .error .exit))
    = (5, 1, 11/10, .ok [0]) := by
  decide +kernel

/-- a bounding box that is a single point (a track that never moves): one cell of unit side (`r = 0 / 100` used to
raise ZeroDivisionError), and the point finds the track -/
example : (match build Rat.floor [[((3 : ℚ), (4 : ℚ)), (3, 4)]] none (1/20) with
    | .ok ix => (ix.csize, ix.lsize, ix.dX, ix.dY, requestPoint Rat.floor ix (3, 4)) | .error _ => (0, 0, 0, 0, .error .exit))
    = (1, 1, 1, 1, .ok [0]) := by
  decide +kernel

end TV.C08
