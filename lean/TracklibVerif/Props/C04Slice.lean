import TracklibVerif.Props.C04
import TracklibVerif.Lemmas.SeqSliceNeg
/-! # C04, part 2 — slices with a negative step; what the code does where the arguments designate no observation

`track[a:b:c]` with `c ≤ -1` (every `a`, `b`, absent or not), and the boundary of the oracle's domain as theorems about
the model: for each operator, exactly which arguments raise (and which exception the model's `none` stands for) and
which selection the clamped / wrapped arguments make. The harness compares the model with the code on all these
arguments (streams `extract`, `step`, `pattern`, `gt`, `lt`, `remove`, one-operation sessions), so the statements below
say what the CODE does there; the property's oracle (`spec`) does not speak of these arguments. -/
namespace TV.C04
open TV.Seq
variable {α : Type}

/-! ## `track[a:b:c]` with a negative step -/

/-- `track[a:b:c]` with `c = -d ≤ -1`, EVERY `a` and `b` (absent, negative, beyond the ends). With `(s, e)` the bounds as
CPython's `PySlice_AdjustIndices` (= `slice.indices`) adjusts them — an absent start is the last position `size-1`,
an absent stop is `-1` (one before the first), a bound `x ≥ 0` is `min(x, size-1)`, a bound `x < 0` is
`max(x + size, -1)` — the result holds exactly the observations at the positions `s, s-d, s-2d, … > e`, in THIS
(reversed) order, nothing else, with the feature table of the source: its `i`-th observation is the source's
`(s - i·d)`-th. Equivalently it is every `d`-th observation of `reversed(track[e+1 : s+1])`. -/
theorem getitemSlice_neg_spec (tr : Track) (a b : Option Int) (d : Nat) (hd : 1 ≤ d) :
    ∃ (s e : Int) (r : Track), sliceBounds tr.pts.length a b (-(d : Int)) = (s, e) ∧
      -1 ≤ s ∧ s ≤ (tr.pts.length : Int) - 1 ∧ -1 ≤ e ∧ e ≤ (tr.pts.length : Int) - 1 ∧
      (a = none → s = (tr.pts.length : Int) - 1) ∧
      (∀ x : Int, a = some x → 0 ≤ x → s = min x ((tr.pts.length : Int) - 1)) ∧
      (∀ x : Int, a = some x → x < 0 → s = max (x + (tr.pts.length : Int)) (-1)) ∧
      (b = none → e = -1) ∧
      (∀ x : Int, b = some x → 0 ≤ x → e = min x ((tr.pts.length : Int) - 1)) ∧
      (∀ x : Int, b = some x → x < 0 → e = max (x + (tr.pts.length : Int)) (-1)) ∧
      getitemSlice tr a b (some (-(d : Int))) = some r ∧ r.table = tr.table ∧
      (∀ i : Nat, r.pts[i]? =
        if e < s - (i : Int) * (d : Int) then tr.pts[(s - (i : Int) * (d : Int)).toNat]? else none) ∧
      r.pts = stepAux d 0 ((tr.pts.take (s + 1).toNat).drop (e + 1).toNat).reverse := by
  obtain ⟨s, e, hb, h1, h2, h3, h4, h5, h6, h7, h8, h9, h10⟩ :=
    sliceBounds_neg tr.pts.length a b (-(d : Int)) (by omega)
  obtain ⟨s1, e1, r, hb1, hp, hr⟩ := pySlice_neg tr.pts a b d hd
  obtain ⟨s2, e2, hb2, hp2⟩ := pySlice_neg_reverse tr.pts a b d hd
  rw [hb] at hb1 hb2
  have hs1 : s1 = s := by cases hb1; rfl
  have he1 : e1 = e := by cases hb1; rfl
  have hs2 : s2 = s := by cases hb2; rfl
  have he2 : e2 = e := by cases hb2; rfl
  subst hs1; subst he1; subst hs2; subst he2
  refine ⟨_, _, ⟨r, tr.table⟩, hb, h1, h2, h3, h4, h5, h6, h7, h8, h9, h10, ?_, rfl, hr, ?_⟩
  · simp only [getitemSlice, hp, Option.map_some, transmitAF]
  · rw [hp] at hp2
    exact Option.some.inj hp2

/-- every `d`-th element from the first, `d = 1`: the list itself -/
theorem stepAux_one (l : List α) : stepAux 1 0 l = l := by
  apply List.ext_getElem?
  intro i
  rw [stepAux_getElem? 1 (by omega), Nat.zero_add, Nat.mul_one]

/-- `track[::-1]` is the track in reverse order (all its observations, the last one first), table carried -/
theorem getitemSlice_reversed (tr : Track) :
    getitemSlice tr none none (some (-1)) = some ⟨tr.pts.reverse, tr.table⟩ := by
  obtain ⟨s, e, r, _, _, _, _, _, hs, _, _, he, _, _, h, ht, _, hp⟩ := getitemSlice_neg_spec tr none none 1 (by omega)
  have hs' := hs rfl
  have he' := he rfl
  have e1 : (s + 1).toNat = tr.pts.length := by omega
  have e2 : (e + 1).toNat = 0 := by omega
  rw [e1, e2, List.take_length, List.drop_zero, stepAux_one] at hp
  have : ((-(1 : Nat) : Int)) = -1 := rfl
  rw [this] at h
  rw [h]
  cases r
  simp only at ht hp
  rw [ht, hp]

/-- `track % (-d)` (`d ≥ 1`) is `track[::-d]`: the observations at the positions `size-1, size-1-d, …`, last first -/
theorem decimateStep_neg_spec (tr : Track) (d : Nat) (hd : 1 ≤ d) :
    decimateStep tr (-(d : Int)) = getitemSlice tr none none (some (-(d : Int))) ∧
    ∃ r, decimateStep tr (-(d : Int)) = some r ∧ r.table = tr.table ∧
      ∀ i : Nat, r.pts[i]? = if i * d < tr.pts.length then tr.pts[tr.pts.length - 1 - i * d]? else none := by
  have h0 : ¬ (-(d : Int) = 0) := by omega
  have h1 : ¬ (-(d : Int) > 0) := by omega
  have hdd : (- -(d : Int)).toNat = d := by omega
  have hdec : decimateStep tr (-(d : Int)) = some ⟨stepAux d 0 tr.pts.reverse, tr.table⟩ := by
    simp only [decimateStep, pyStep, if_neg h0, if_neg h1, hdd, Option.map_some, transmitAF]
  obtain ⟨s, e, r, _, _, _, _, _, hs, _, _, he, _, _, h, ht, _, hp⟩ := getitemSlice_neg_spec tr none none d hd
  have hs' := hs rfl
  have he' := he rfl
  have e1 : (s + 1).toNat = tr.pts.length := by omega
  have e2 : (e + 1).toNat = 0 := by omega
  rw [e1, e2, List.take_length, List.drop_zero] at hp
  constructor
  · rw [hdec, h]
    cases r
    simp only at ht hp
    rw [ht, hp]
  · refine ⟨_, hdec, rfl, ?_⟩
    intro i
    show (stepAux d 0 tr.pts.reverse)[i]? = _
    rw [stepAux_getElem? d hd, Nat.zero_add]
    by_cases hi : i * d < tr.pts.length
    · rw [if_pos hi, List.getElem?_reverse hi]
    · rw [if_neg hi]
      apply List.getElem?_eq_none
      rw [List.length_reverse]; omega

/-! ## the boundary of the oracle's domain: which arguments raise, what the others select -/

/-- `track[a:b:c]` raises (`ValueError: slice step cannot be zero`) exactly when the step is 0; every other slice
returns a track -/
theorem getitemSlice_raises_iff (tr : Track) (a b c : Option Int) :
    getitemSlice tr a b c = none ↔ c = some 0 := by
  unfold getitemSlice pySlice
  cases c with
  | none => simp
  | some v =>
    by_cases hv : v = 0
    · simp [hv]
    · simp [hv]

/-- `track % 0` raises (`ValueError`); every other integer returns a track -/
theorem decimateStep_raises_iff (tr : Track) (n : Int) : decimateStep tr n = none ↔ n = 0 := by
  unfold decimateStep pyStep
  by_cases h0 : n = 0
  · simp [h0]
  · by_cases h1 : n > 0 <;> simp [h0, h1]

/-- `track % []` raises (`ZeroDivisionError`) exactly on a non-empty track; on the empty track the loop does not run and
the result is the empty track with the source's table. A non-empty pattern never raises. -/
theorem decimatePattern_raises_iff (tr : Track) (pat : List Bool) :
    (decimatePattern tr pat = none ↔ pat = [] ∧ tr.pts ≠ []) ∧
    (tr.pts = [] → decimatePattern tr pat = some ⟨[], tr.table⟩) := by
  constructor
  · unfold decimatePattern
    cases pat <;> cases hp : tr.pts <;> simp
  · intro h
    unfold decimatePattern
    simp [h, patLoop, transmitAF]

/-- the element reads of `extract`: `r[i] = L[k+i]` (Python indexing) for `i < n`, failure iff one of them fails -/
theorem extractLoop_get (l : List α) : ∀ (n : Nat) (k : Int),
    (∀ r, extractLoop l k n = some r → r.length = n ∧ ∀ i : Nat, i < n → r[i]? = pyGet l (k + (i : Int))) ∧
    (extractLoop l k n = none ↔ ∃ i : Nat, i < n ∧ pyGet l (k + (i : Int)) = none)
  | 0, k => by
    refine ⟨fun r h => ?_, ?_⟩
    · simp only [extractLoop, Option.some.injEq] at h
      subst h; exact ⟨rfl, fun i hi => absurd hi (by omega)⟩
    · simp [extractLoop]
  | n + 1, k => by
    obtain ⟨ih1, ih2⟩ := extractLoop_get l n (k + 1)
    refine ⟨fun r h => ?_, ?_⟩
    · simp only [extractLoop] at h
      cases hx : pyGet l k with
      | none => simp [hx] at h
      | some x =>
        cases hr : extractLoop l (k + 1) n with
        | none => simp [hx, hr] at h
        | some r' =>
          simp only [hx, hr, Option.some.injEq] at h
          subst h
          obtain ⟨hl, hg⟩ := ih1 r' hr
          refine ⟨by simp [hl], fun i hi => ?_⟩
          cases i with
          | zero => simp [hx]
          | succ i =>
            rw [List.getElem?_cons_succ, hg i (by omega)]
            congr 1; omega
    · simp only [extractLoop]
      cases hx : pyGet l k with
      | none =>
        simp only [true_iff]
        exact ⟨0, by omega, by simpa using hx⟩
      | some x =>
        cases hr : extractLoop l (k + 1) n with
        | none =>
          simp only [true_iff]
          obtain ⟨i, hi, hg⟩ := ih2.mp hr
          refine ⟨i + 1, by omega, ?_⟩
          rw [← hg]; congr 1; omega
        | some r' =>
          simp only [reduceCtorEq, false_iff]
          rintro ⟨i, hi, hg⟩
          cases i with
          | zero => simp [hx] at hg
          | succ i =>
            have : extractLoop l (k + 1) n = none := ih2.mpr ⟨i, by omega, by rw [← hg]; congr 1; omega⟩
            rw [hr] at this; cases this

theorem pyGet_none_iff (l : List α) (i : Int) : pyGet l i = none ↔ (l.length : Int) ≤ i ∨ i < -(l.length : Int) := by
  unfold pyGet
  by_cases h0 : 0 ≤ i
  · simp only [h0, if_true, List.getElem?_eq_none_iff]; omega
  · by_cases h1 : 0 ≤ (l.length : Int) + i
    · simp only [h0, h1, if_true, if_false, List.getElem?_eq_none_iff]; omega
    · simp only [h0, h1, if_false, true_iff]; omega

/-- `extract(a, b)` for EVERY pair of integers. It raises (`IndexError`) exactly when `a ≤ b` and one of the indices
`a..b` is outside `-size..size-1` (`a < -size` or `b ≥ size`). Otherwise the result has `b+1-a` observations (none when
`a > b`), the `i`-th being `track[a+i]` with Python's indexing: a NEGATIVE `a` wraps (`extract(-2, 1)` on 5 observations
holds the observations 3, 4, 0, 1); the table is the source's. -/
theorem extract_total (tr : Track) (a b : Int) :
    (extract tr a b = none ↔ a ≤ b ∧ (a < -(tr.pts.length : Int) ∨ (tr.pts.length : Int) ≤ b)) ∧
    ∀ r, extract tr a b = some r → r.table = tr.table ∧ r.pts.length = (b + 1 - a).toNat ∧
      ∀ i : Nat, i < (b + 1 - a).toNat → r.pts[i]? = pyGet tr.pts (a + (i : Int)) := by
  obtain ⟨h1, h2⟩ := extractLoop_get tr.pts (b + 1 - a).toNat a
  constructor
  · unfold extract
    rw [Option.map_eq_none_iff, h2]
    constructor
    · rintro ⟨i, hi, hg⟩
      have := (pyGet_none_iff _ _).mp hg
      omega
    · rintro ⟨hab, h | h⟩
      · exact ⟨0, by omega, (pyGet_none_iff _ _).mpr (by omega)⟩
      · exact ⟨(b - a).toNat, by omega, (pyGet_none_iff _ _).mpr (by omega)⟩
  · intro r hr
    unfold extract at hr
    cases hl : extractLoop tr.pts a (b + 1 - a).toNat with
    | none => simp [hl] at hr
    | some p =>
      simp only [hl, Option.map_some, Option.some.injEq] at hr
      subst hr
      exact ⟨rfl, (h1 p hl).1, (h1 p hl).2⟩

/-- `track > n` with a NEGATIVE `n = -k` keeps the LAST `k` observations (`L[-k:]`), the whole track when `k ≥ size`;
no integer raises -/
theorem dropFirst_neg (tr : Track) (k : Nat) (hk : 1 ≤ k) :
    dropFirst tr (-(k : Int)) = ⟨tr.pts.drop (tr.pts.length - k), tr.table⟩ := by
  have h0 : ¬ ((0 : Int) ≤ -(k : Int)) := by omega
  simp only [dropFirst, pySliceFrom, h0, if_false, transmitAF]
  congr 2
  omega

/-- `track < n` with a negative `n` returns ALL the observations (`L[0 : size - n]`, the stop is beyond the end); no
integer raises -/
theorem dropLast_neg (tr : Track) (n : Int) (hn : n ≤ 0) : dropLast tr n = ⟨tr.pts, tr.table⟩ := by
  simp only [dropLast, transmitAF]
  congr 1
  apply List.take_of_length_le
  omega

/-- `track[i]` raises (`IndexError`) exactly when `i ≥ size` or `i < -size` -/
theorem getitemInt_raises_iff (tr : Track) (i : Int) :
    getitemInt tr i = none ↔ (tr.pts.length : Int) ≤ i ∨ i < -(tr.pts.length : Int) :=
  pyGet_none_iff tr.pts i

theorem pyDel_none_iff (l : List α) (i : Int) : pyDel l i = none ↔ (l.length : Int) ≤ i ∨ i < -(l.length : Int) := by
  unfold pyDel
  by_cases h0 : 0 ≤ i
  · by_cases h1 : i.toNat < l.length
    · simp only [h0, h1, if_true, reduceCtorEq, false_iff]; omega
    · simp only [h0, h1, if_true, if_false, true_iff]; omega
  · by_cases h1 : 0 ≤ (l.length : Int) + i
    · simp only [h0, h1, if_true, if_false, reduceCtorEq, false_iff]; omega
    · simp only [h0, h1, if_false, true_iff]; omega

/-- `removeObs(i)` for EVERY integer: an index `-size ≤ i < 0` counts from the end (the observation `size+i` is removed,
1 returned); `i ≥ size` or `i < -size` raises `IndexError` and removes nothing. (`0 ≤ i < size`: `removeObs_spec`.) -/
theorem removeObs_total (l : List α) (i : Int) :
    (-(l.length : Int) ≤ i → i < 0 → removeObs l i = (l.eraseIdx ((l.length : Int) + i).toNat, some 1)) ∧
    ((l.length : Int) ≤ i ∨ i < -(l.length : Int) → removeObs l i = (l, none)) := by
  constructor
  · intro h1 h2
    have h0 : ¬ ((0 : Int) ≤ i) := by omega
    have h3 : (0 : Int) ≤ (l.length : Int) + i := by omega
    have hd : pyDel l i = some (l.eraseIdx ((l.length : Int) + i).toNat) := by
      simp only [pyDel, h0, h3, if_true, if_false]
    have hlen : (l.eraseIdx ((l.length : Int) + i).toNat).length = l.length - 1 := by
      rw [List.length_eraseIdx, if_pos (by omega)]
    simp only [removeObs, removeByIdx, List.isEmpty_cons, Bool.false_eq_true, if_false, List.mergeSort_singleton,
      hasAdjDup, List.reverse_cons, List.reverse_nil, List.nil_append, delLoop, hd, hlen]
    congr 2
    omega
  · intro h
    have hd : pyDel l i = none := (pyDel_none_iff l i).mpr h
    simp only [removeObs, removeByIdx, List.isEmpty_cons, Bool.false_eq_true, if_false, List.mergeSort_singleton,
      hasAdjDup, List.reverse_cons, List.reverse_nil, List.nil_append, delLoop, hd]

/-- `removeFirstObs()` / `removeLastObs()` on the EMPTY track raise `IndexError` (`del L[0]`, `del L[-1]`) -/
theorem removeEnds_empty : removeFirst ([] : List α) = ([], none) ∧ removeLast ([] : List α) = ([], none) := by
  constructor
  · exact (removeObs_total ([] : List α) 0).2 (Or.inl (by simp))
  · exact (removeObs_total ([] : List α) _).2 (Or.inr (by simp))

/-- `popObs(i)` outside `-size..size-1` raises `IndexError` at the read and removes nothing; with `-size ≤ i < 0` it
returns and removes the observation `size+i` -/
theorem popObs_total (l : List α) (i : Int) :
    ((l.length : Int) ≤ i ∨ i < -(l.length : Int) → popObs l i = (l, none)) ∧
    (-(l.length : Int) ≤ i → i < 0 →
      popObs l i = (l.eraseIdx ((l.length : Int) + i).toNat, l[((l.length : Int) + i).toNat]?)) := by
  constructor
  · intro h
    simp only [popObs, (pyGet_none_iff l i).mpr h]
  · intro h1 h2
    have h0 : ¬ ((0 : Int) ≤ i) := by omega
    have h3 : (0 : Int) ≤ (l.length : Int) + i := by omega
    have hlt : ((l.length : Int) + i).toNat < l.length := by omega
    have hg : pyGet l i = some l[((l.length : Int) + i).toNat] := by
      simp only [pyGet, h0, h3, if_true, if_false, List.getElem?_eq_getElem hlt]
    simp only [popObs, hg, (removeObs_total l i).1 h1 h2, List.getElem?_eq_getElem hlt]

/-- `insertObs(obs, i)` for EVERY integer `i` never raises: the observation goes to the position `p` = `i` clamped as
`list.insert` does (`i > size` → `size`: appended; `i < 0` → `max(0, size + i)`), the others keep their order -/
theorem insertAt_total (tr : Track) (o : Obs) (i : Int) :
    ∃ p : Nat, p ≤ tr.pts.length ∧ insertAt tr o i = ⟨tr.pts.take p ++ o :: tr.pts.drop p, tr.table⟩ ∧
      (0 ≤ i → (p : Int) = min i (tr.pts.length : Int)) ∧ (i < 0 → (p : Int) = max 0 ((tr.pts.length : Int) + i)) := by
  let q : Int := if i < 0 then (if i + (tr.pts.length : Int) < 0 then 0 else i + (tr.pts.length : Int))
    else (if i > (tr.pts.length : Int) then (tr.pts.length : Int) else i)
  have hq : 0 ≤ q ∧ q ≤ (tr.pts.length : Int) ∧ (0 ≤ i → q = min i (tr.pts.length : Int)) ∧
      (i < 0 → q = max 0 ((tr.pts.length : Int) + i)) := by
    show 0 ≤ (if i < 0 then _ else _) ∧ (if i < 0 then _ else _) ≤ _ ∧ (_ → (if i < 0 then _ else _) = _) ∧
      (_ → (if i < 0 then _ else _) = _)
    refine ⟨?_, ?_, ?_, ?_⟩ <;> (split <;> split <;> omega)
  refine ⟨q.toNat, by omega, ?_, by omega, by omega⟩
  show Track.mk (pyInsert tr.pts i o) tr.table = _
  congr 1
  show tr.pts.insertIdx q.toNat o = _
  exact insertIdx_eq_take_drop tr.pts q.toNat o (by omega)

/-- `removeObsList(tab)` with distinct indices the LARGEST of which is `≥ size`: the first deletion (the loop goes
from the largest index down) raises `IndexError`; nothing has been removed -/
theorem removeByIdx_index_error (l : List α) (tab : List Int) (hn : tab.Nodup)
    (hm : ∃ m ∈ tab, (l.length : Int) ≤ m) : removeByIdx l tab = (l, none) := by
  obtain ⟨m, hmt, hml⟩ := hm
  unfold removeByIdx
  cases tab with
  | nil => simp at hmt
  | cons t ts =>
    have hperm := List.mergeSort_perm (t :: ts) (fun a b => decide (a ≤ b))
    have hsorted : ((t :: ts).mergeSort (fun a b => decide (a ≤ b))).Pairwise (· ≤ ·) := by
      have := List.pairwise_mergeSort (le := fun (a b : Int) => decide (a ≤ b))
        (by intro a b c; simp only [decide_eq_true_eq]; omega)
        (by intro a b; simp only [Bool.or_eq_true, decide_eq_true_eq]; omega) (t :: ts)
      exact this.imp (by intro a b h; simpa using h)
    have hnd : ((t :: ts).mergeSort (fun a b => decide (a ≤ b))).Nodup := hperm.nodup_iff.mpr hn
    have hadj : hasAdjDup ((t :: ts).mergeSort (fun a b => decide (a ≤ b))) = false := by
      cases h : hasAdjDup ((t :: ts).mergeSort (fun a b => decide (a ≤ b))) with
      | false => rfl
      | true => exact absurd hnd (fun hnd => hasAdjDup_true_not_nodup _ h hnd)
    simp only [List.isEmpty_cons, Bool.false_eq_true, if_false, hadj]
    have hrev : ((t :: ts).mergeSort (fun a b => decide (a ≤ b))).reverse.Pairwise (· ≥ ·) := by
      rw [List.pairwise_reverse]; exact hsorted.imp (by intro a b h; exact h)
    have hmem : m ∈ ((t :: ts).mergeSort (fun a b => decide (a ≤ b))).reverse :=
      List.mem_reverse.mpr (hperm.mem_iff.mpr hmt)
    cases hr : ((t :: ts).mergeSort (fun a b => decide (a ≤ b))).reverse with
    | nil => rw [hr] at hmem; simp at hmem
    | cons y ys =>
      rw [hr] at hrev hmem
      have hy : (l.length : Int) ≤ y := by
        rcases List.mem_cons.mp hmem with h | h
        · omega
        · have := (List.pairwise_cons.mp hrev).1 m h; omega
      simp only [delLoop, (pyDel_none_iff l y).mpr (Or.inl hy)]

/-! ### `removeObsList` with ANY list of integers: the deletions done before the `IndexError` stay done -/

/-- the deletions `del L[i]` for the indices of `is` in this order, all of them succeeding -/
def delAll : List Int → List α → Option (List α)
  | [], l => some l
  | i :: rest, l => (pyDel l i).bind (delAll rest)

theorem pyDel_some (l l' : List α) (i : Int) (h : pyDel l i = some l') :
    l'.Sublist l ∧ l'.length + 1 = l.length := by
  unfold pyDel at h
  split at h
  · split at h
    · cases h
      exact ⟨List.eraseIdx_sublist _ _, by rw [List.length_eraseIdx, if_pos (by assumption)]; omega⟩
    · cases h
  · split at h
    · cases h
      exact ⟨List.eraseIdx_sublist _ _, by rw [List.length_eraseIdx, if_pos (by omega)]; omega⟩
    · cases h

/-- the loop of `__removeObsListById` on ANY list of integers `is` (in the order of the loop), negative and
out-of-range ones included: there is a number `k` of deletions done, the first `k` indices of `is` were all deleted
(`del L[i]` on the list as it is at that moment, a negative `i` counting from the CURRENT end), each removing exactly
one observation; the list left is that one (a sub-sequence of the source with `k` observations fewer) — ALSO when the
`IndexError` is raised; the call returns (the counter advanced by `k = len(is)`) exactly when all the indices were
deleted, and otherwise raises at `is[k]`, which is out of range for the list left -/
theorem delLoop_partial (is : List Int) (l : List α) (c : Nat) :
    ∃ (k : Nat) (l' : List α), k ≤ is.length ∧ delAll (is.take k) l = some l' ∧
      l'.Sublist l ∧ l'.length + k = l.length ∧ (delLoop is l c).1 = l' ∧
      ((delLoop is l c).2 = none ↔ k < is.length) ∧
      (k = is.length → (delLoop is l c).2 = some (c + k)) ∧
      (∀ h : k < is.length, pyDel l' is[k] = none) := by
  induction is generalizing l c with
  | nil => exact ⟨0, l, by simp, by simp [delAll], List.Sublist.refl l, by simp, by simp [delLoop], by simp [delLoop],
      by simp [delLoop], by simp⟩
  | cons i rest ih =>
    cases hd : pyDel l i with
    | none =>
      refine ⟨0, l, by simp, by simp [delAll], List.Sublist.refl l, by simp, by simp [delLoop, hd],
        by simp [delLoop, hd], by simp, ?_⟩
      intro _; simpa using hd
    | some l1 =>
      obtain ⟨hs1, hl1⟩ := pyDel_some l l1 i hd
      obtain ⟨k, l', hk, hall, hsub, hlen, h1, h2, h3, h4⟩ := ih l1 (c + (l.length - l1.length))
      refine ⟨k + 1, l', by simp; omega, by simp [delAll, hd, hall], hsub.trans hs1, by omega,
        by simp only [delLoop, hd]; exact h1, ?_, ?_, ?_⟩
      · simp only [delLoop, hd, List.length_cons]; rw [h2]; omega
      · intro hk'
        simp only [delLoop, hd]
        rw [h3 (by simpa using hk')]
        congr 1; omega
      · intro hk'
        have hk'' : k < rest.length := by simpa using hk'
        simpa using h4 hk''

/-- `removeObsList(tab)`, ANY list of integers (negative, repeated, out of range): either nothing is removed and 0
returned (empty list, or a repeated index), or the loop runs over the indices sorted in DECREASING order `d` and
`delLoop_partial` says what is left: the first `k` of them deleted one observation each, and the call returns `k =
len(tab)` or raises `IndexError` at `d[k]` with these `k` deletions done -/
theorem removeByIdx_partial (l : List α) (tab : List Int) :
    removeByIdx l tab = (l, some 0) ∨
    ∃ (d : List Int) (k : Nat) (l' : List α), d.Perm tab ∧ d.Pairwise (· ≥ ·) ∧ k ≤ d.length ∧
      delAll (d.take k) l = some l' ∧ l'.Sublist l ∧ l'.length + k = l.length ∧
      (removeByIdx l tab).1 = l' ∧
      ((removeByIdx l tab).2 = none ↔ k < d.length) ∧
      (k = d.length → (removeByIdx l tab).2 = some k) ∧
      (∀ h : k < d.length, pyDel l' d[k] = none) := by
  unfold removeByIdx
  by_cases he : tab.isEmpty = true
  · left; simp [he]
  · by_cases hdup : hasAdjDup (tab.mergeSort (fun a b => decide (a ≤ b))) = true
    · left; simp [he, hdup]
    · right
      simp only [he, hdup, Bool.false_eq_true, if_false]
      have hperm := List.mergeSort_perm tab (fun a b => decide (a ≤ b))
      have hsorted : (tab.mergeSort (fun a b => decide (a ≤ b))).Pairwise (· ≤ ·) := by
        have := List.pairwise_mergeSort (le := fun (a b : Int) => decide (a ≤ b))
          (by intro a b c; simp only [decide_eq_true_eq]; omega)
          (by intro a b; simp only [Bool.or_eq_true, decide_eq_true_eq]; omega) tab
        exact this.imp (by intro a b h; simpa using h)
      obtain ⟨k, l', hk, hall, hsub, hlen, h1, h2, h3, h4⟩ :=
        delLoop_partial (tab.mergeSort (fun a b => decide (a ≤ b))).reverse l 0
      refine ⟨_, k, l', (List.reverse_perm _).trans hperm, ?_, hk, hall, hsub, hlen, h1, h2, ?_, h4⟩
      · rw [List.pairwise_reverse]; exact hsorted.imp (by intro a b h; exact h)
      · intro hk'; simpa using h3 hk'

/-- `removeObsList(tab)`, ANY list of integers, returning or raising: what is left is a SUB-SEQUENCE of the source (the
observations left keep their order, none is duplicated or invented); when the call returns `n`, exactly `n`
observations are gone and `n` is 0 (refused) or `len(tab)` -/
theorem removeByIdx_sublist_any (l : List α) (tab : List Int) :
    (removeByIdx l tab).1.Sublist l ∧
    ∀ n, (removeByIdx l tab).2 = some n →
      (removeByIdx l tab).1.length + n = l.length ∧ (n = 0 ∨ n = tab.length) := by
  rcases removeByIdx_partial l tab with h | ⟨d, k, l', hperm, _, hk, _, hsub, hlen, h1, h2, h3, _⟩
  · rw [h]; exact ⟨List.Sublist.refl l, fun n hn => by cases hn; exact ⟨rfl, Or.inl rfl⟩⟩
  · rw [h1]
    refine ⟨hsub, fun n hn => ?_⟩
    have hkd : k = d.length := by
      rcases Nat.lt_or_ge k d.length with hlt | hge
      · rw [h2.mpr hlt] at hn; cases hn
      · omega
    rw [h3 hkd] at hn; cases hn
    exact ⟨hlen, Or.inr (by rw [hkd]; exact hperm.length_eq)⟩

/-- `extractSpanTime(track)` with an EMPTY other track raises `IndexError` (`track[0]`) -/
theorem extractSpanTrack_empty (tr other : Track) (h : other.pts = []) : extractSpanTrack tr other = none := by
  simp [extractSpanTrack, h, pyGet]

/-! ## non-vacuity and witnesses -/

/-- bounds from the end, beyond the ends and absent, with a negative step, on 5 observations -/
example : let tr : Track := ⟨[⟨0, 1, []⟩, ⟨1, 2, []⟩, ⟨2, 3, []⟩, ⟨3, 4, []⟩, ⟨4, 5, []⟩], []⟩
    (getitemSlice tr (some (-2)) (some 0) (some (-2))).map (fun t => t.pts.map (·.tag)) = some [3, 1] ∧
    (getitemSlice tr (some 9) (some (-9)) (some (-3))).map (fun t => t.pts.map (·.tag)) = some [4, 1] ∧
    (getitemSlice tr none (some 1) (some (-1))).map (fun t => t.pts.map (·.tag)) = some [4, 3, 2] ∧
    (getitemSlice tr (some 1) (some 3) (some (-1))).map (fun t => t.pts.map (·.tag)) = some [] ∧
    sliceBounds 5 (some 9) (some (-9)) (-3) = (4, -1) := by decide +kernel
/-- a negative `a` wraps in `extract` -/
example : (extract ⟨[⟨0, 1, []⟩, ⟨1, 2, []⟩, ⟨2, 3, []⟩, ⟨3, 4, []⟩, ⟨4, 5, []⟩], []⟩ (-2) 1).map
    (fun t => t.pts.map (·.tag)) = some [3, 4, 0, 1] := by decide +kernel
/-- the hypotheses of `removeByIdx_index_error` -/
example : ([3, 0] : List Int).Nodup ∧ ∃ m ∈ ([3, 0] : List Int), (([10, 11, 12] : List Nat).length : Int) ≤ m := by
  refine ⟨by decide, 3, by decide, by decide⟩
/-- a valid largest index followed by an invalid negative one (the loop of `removeObsList([2, -4])`, largest index
first): the deletion of 2 is done before `-4` raises (what the code does; outside the theorems above) -/
example : delLoop [2, -4] [10, 11, 12] 0 = ([10, 11], none) := by decide +kernel

/-- the loop of `removeObsList([2, -4])` on three observations (`d = [2, -4]`, `k = 1`): one deletion done, then `IndexError` at `-4` -/
example : delLoop [2, -4] [10, 11, 12] 0 = ([10, 11], none) ∧ delAll [2] [10, 11, 12] = some [10, 11] ∧
    pyDel [10, 11] (-4) = none := by decide +kernel
/-- negative indices count from the CURRENT end: the loop of `removeObsList([-1, -2])` (`d = [-1, -2]`) removes the last and then the one before the
NEW last but one, i.e. positions 3 and 1 of four (not 3 and 2) -/
example : delLoop [-1, -2] [10, 11, 12, 13] 0 = ([10, 12], some 2) := by decide +kernel

end TV.C04
