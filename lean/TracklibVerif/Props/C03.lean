import TracklibVerif.Lemmas.ObsTime
/-! # C03 — timestamps convert to and from epoch seconds without drifting or deforming

Property theorems only (helper lemmas are in `Lemmas/ObsTime.lean`). The model
(`Model/ObsTime.lean`) is in integer milliseconds; all statements are for every instant /
every well-formed stamp, with no bound on the year. -/
namespace TV.C03
open TV.ObsTime

/-- T1: every instant reads back as a well-formed calendar stamp. -/
theorem readUnix_wellFormed (t : Nat) : WFs (readUnixMs t) :=
  ⟨(readUnix_spec (t / 1000)).1, Nat.mod_lt _ (by omega)⟩

/-- T2: seconds → calendar → seconds is the identity (same instant, exactly). -/
theorem toAbs_readUnix (t : Nat) : toAbsMs (readUnixMs t) = t := by
  have h := (readUnix_spec (t / 1000)).2
  unfold toAbsMs readUnixMs
  simp only [h]
  omega

/-- T3: calendar → seconds → calendar is the identity on well-formed stamps. -/
theorem readUnix_toAbs (s : Stamp) (h : WFs s) : readUnixMs (toAbsMs s) = s := by
  obtain ⟨hd, hms⟩ := h
  cases s with | mk d ms =>
  unfold readUnixMs toAbsMs
  simp only at hms ⊢
  have e1 : (toAbsSec d * 1000 + ms) / 1000 = toAbsSec d := by omega
  have e2 : (toAbsSec d * 1000 + ms) % 1000 = ms := by omega
  rw [e1, e2, ObsTime.readUnix_toAbs d hd]

/-- T4: the instant is `(day number)·86400 s + time of day`, and the day number computed by
`toAbsTime`'s year and month loops is the closed-form proleptic Gregorian day number
(`civilDays`, days since 1970-01-01). -/
theorem toAbs_gregorian (s : Stamp) (h : WFs s) :
    toAbsMs s = (dayNo s.d * 86400 + (s.d.hour * 3600 + s.d.min * 60 + s.d.sec)) * 1000 + s.ms
    ∧ (dayNo s.d : Int) = civilDays s.d.year s.d.month s.d.day :=
  ⟨by unfold toAbsMs; rw [toAbs_split]; rfl, dayNo_civil s.d h.1⟩

/-- T5: the field-wise `<` orders well-formed stamps as their epoch milliseconds do. -/
theorem lt_iff (a b : Stamp) (ha : WFs a) (hb : WFs b) : ltS a b = true ↔ toAbsMs a < toAbsMs b :=
  ltS_iff a b ha hb

theorem gt_iff (a b : Stamp) (ha : WFs a) (hb : WFs b) : gtS a b = true ↔ toAbsMs a > toAbsMs b := by
  rw [gtS_eq_ltS]; exact ltS_iff b a hb ha

theorem eq_iff (a b : Stamp) (ha : WFs a) (hb : WFs b) : eqS a b = true ↔ toAbsMs a = toAbsMs b := by
  rw [eqS_iff]
  constructor
  · intro h; rw [h]
  · exact toAbsMs_inj a b ha hb

theorem le_iff (a b : Stamp) (ha : WFs a) (hb : WFs b) : leS a b = true ↔ toAbsMs a ≤ toAbsMs b := by
  have := gt_iff a b ha hb
  unfold leS
  cases h : gtS a b <;> simp [h] at this ⊢ <;> omega

theorem ge_iff (a b : Stamp) (ha : WFs a) (hb : WFs b) : geS a b = true ↔ toAbsMs a ≥ toAbsMs b := by
  have := lt_iff a b ha hb
  unfold geS
  cases h : ltS a b <;> simp [h] at this ⊢ <;> omega

/-- T6: adding `n` seconds moves the instant by exactly `n` seconds, and the result is well formed. -/
theorem addSec_spec (t : Stamp) (n : Nat) :
    WFs (addSec t n) ∧ toAbsMs (addSec t n) = toAbsMs t + n * 1000 :=
  ⟨readUnix_wellFormed _, toAbs_readUnix _⟩

/-- non-vacuity: a leap-day stamp is well formed, and the round trip is the identity on it. -/
example : WFs ⟨⟨2000, 2, 29, 23, 59, 59⟩, 999⟩ := by unfold WFs WF monthDays isLeap; decide
example : readUnixMs (toAbsMs ⟨⟨2000, 2, 29, 23, 59, 59⟩, 999⟩) = ⟨⟨2000, 2, 29, 23, 59, 59⟩, 999⟩ := by decide +kernel
/-- regression witness for the defect repaired by the first `fix:` commit: the first second of 1971. -/
example : readUnixMs 31536000000 = ⟨⟨1971, 1, 1, 0, 0, 0⟩, 0⟩ := by decide +kernel

end TV.C03
