import TracklibVerif.Lemmas.ObsTimeG
import Mathlib.Algebra.Order.Floor.Ring
import Mathlib.Data.Rat.Floor
/-! # C03 — timestamps convert to and from epoch seconds without drifting or deforming

Property theorems only (helper lemmas are in `Lemmas/ObsTime.lean`, `Lemmas/ObsTimeG.lean`). T1–T6 are about the
integer model (`Model/ObsTime.lean`, integer milliseconds); T7–T14 are about the scalar-polymorphic model of the
float path (`Model/ObsTimeG.lean`) over a linearly ordered field with an exact `int()`, and reduce it to the
integer model. All statements are for every instant / every well-formed stamp, with no bound on the year. -/
namespace TV.C03
open TV.ObsTime

/-- T1: every instant reads back as a well-formed calendar stamp. -/
theorem readUnix_wellFormed (t : Nat) : WFs (readUnixMs t) :=
  ⟨(readUnix_spec (t / 1000)).1, Nat.mod_lt _ (by omega)⟩

/-- T2: seconds → calendar → seconds is the identity (same instant, exactly). -/
theorem toAbs_readUnix (t : Nat) : toAbsMs (readUnixMs t) = t := by
  have h := (readUnix_spec (t / 1000)).2
  unfold toAbsMs readUnixMs
  simp only [h]
  omega

/-- T3: calendar → seconds → calendar is the identity on well-formed stamps. -/
theorem readUnix_toAbs (s : Stamp) (h : WFs s) : readUnixMs (toAbsMs s) = s := by
  obtain ⟨hd, hms⟩ := h
  cases s with | mk d ms =>
  unfold readUnixMs toAbsMs
  simp only at hms ⊢
  have e1 : (toAbsSec d * 1000 + ms) / 1000 = toAbsSec d := by omega
  have e2 : (toAbsSec d * 1000 + ms) % 1000 = ms := by omega
  rw [e1, e2, ObsTime.readUnix_toAbs d hd]

/-- T4: the instant is `(day number)·86400 s + time of day`, and the day number computed by
`toAbsTime`'s year and month loops is the closed-form proleptic Gregorian day number
(`civilDays`, days since 1970-01-01). -/
theorem toAbs_gregorian (s : Stamp) (h : WFs s) :
    toAbsMs s = (dayNo s.d * 86400 + (s.d.hour * 3600 + s.d.min * 60 + s.d.sec)) * 1000 + s.ms
    ∧ (dayNo s.d : Int) = civilDays s.d.year s.d.month s.d.day :=
  ⟨by unfold toAbsMs; rw [toAbs_split]; rfl, dayNo_civil s.d h.1⟩

/-- T5: the field-wise `<` orders well-formed stamps as their epoch milliseconds do. -/
theorem lt_iff (a b : Stamp) (ha : WFs a) (hb : WFs b) : ltS a b = true ↔ toAbsMs a < toAbsMs b :=
  ltS_iff a b ha hb

theorem gt_iff (a b : Stamp) (ha : WFs a) (hb : WFs b) : gtS a b = true ↔ toAbsMs a > toAbsMs b := by
  rw [gtS_eq_ltS]; exact ltS_iff b a hb ha

theorem eq_iff (a b : Stamp) (ha : WFs a) (hb : WFs b) : eqS a b = true ↔ toAbsMs a = toAbsMs b := by
  rw [eqS_iff]
  constructor
  · intro h; rw [h]
  · exact toAbsMs_inj a b ha hb

theorem le_iff (a b : Stamp) (ha : WFs a) (hb : WFs b) : leS a b = true ↔ toAbsMs a ≤ toAbsMs b := by
  have := gt_iff a b ha hb
  unfold leS
  cases h : gtS a b <;> simp [h] at this ⊢ <;> omega

theorem ge_iff (a b : Stamp) (ha : WFs a) (hb : WFs b) : geS a b = true ↔ toAbsMs a ≥ toAbsMs b := by
  have := lt_iff a b ha hb
  unfold geS
  cases h : ltS a b <;> simp [h] at this ⊢ <;> omega

/-- T6: adding `n` seconds moves the instant by exactly `n` seconds, and the result is well formed. -/
theorem addSec_spec (t : Stamp) (n : Nat) :
    WFs (addSec t n) ∧ toAbsMs (addSec t n) = toAbsMs t + n * 1000 :=
  ⟨readUnix_wellFormed _, toAbs_readUnix _⟩

/-- non-vacuity: a leap-day stamp is well formed, and the round trip is the identity on it. -/
example : WFs ⟨⟨2000, 2, 29, 23, 59, 59⟩, 999⟩ := by unfold WFs WF monthDays isLeap; decide
example : readUnixMs (toAbsMs ⟨⟨2000, 2, 29, 23, 59, 59⟩, 999⟩) = ⟨⟨2000, 2, 29, 23, 59, 59⟩, 999⟩ := by decide +kernel
/-- regression witness for the defect repaired by the first `fix:` commit: the first second of 1971. -/
example : readUnixMs 31536000000 = ⟨⟨1971, 1, 1, 0, 0, 0⟩, 0⟩ := by decide +kernel

/-! ## The float path: `readUnixTime(x)` on fractional seconds, `toAbsTime()` as a scalar, `addSec` with
fractional and negative amounts, `__sub__`

The statements are over a linearly ordered field `α` with an exact truncation (`TruncZ trunc`: `trunc` is
Python's `int()` on non-negative reals). They need exact arithmetic: IEEE rounding of `toAbsTime()`'s
`ms / 1000.0` and of the sum, and of `elapsed_seconds * 1000`, is outside them (a float `toAbsTime()` of a stamp
with `ms = 57` is slightly below `….057` and reads back as 56 ms: within the property's millisecond, and
covered by the exact correspondence of the same definitions at `Float`). -/
section FloatPath
variable {α : Type} [Field α] [LinearOrder α] [IsStrictOrderedRing α]

/-- T7: for every `x ≥ 0` the float reader, run operation for operation (year loop on `elapsed - sec` with the
integer accumulator, month loop, the three truncated divisions, `ms = int(frac * 1000)`), returns the calendar
fields of the integer reader on `⌊x⌋` and `⌊(x − ⌊x⌋)·1000⌋` milliseconds; in particular the year loop ends. -/
theorem readUnixG_eq (trunc : α → Int) (htr : TruncZ trunc) (x : α) (hx : 0 ≤ x) :
    readUnixG trunc x = some (readUnixSpec trunc x).toZ := by
  obtain ⟨hf0, hf1⟩ := frac_bounds trunc htr x hx
  have e : x = ((trunc x).toNat : α) + (x - ((trunc x).toNat : α)) := by ring
  conv_lhs => rw [e]
  exact readUnixG_nat_add_frac trunc htr _ _ hf0 hf1

/-- T8: the stamp read from any `x ≥ 0` is well formed (month 1–12, a day of that month, hour 0–23,
minute and second 0–59, **millisecond 0–999**). -/
theorem readUnixG_wellFormed (trunc : α → Int) (htr : TruncZ trunc) (x : α) (hx : 0 ≤ x) :
    WFs (readUnixSpec trunc x) := by
  obtain ⟨hf0, hf1⟩ := frac_bounds trunc htr x hx
  exact ⟨(readUnix_spec _).1, (ms_bounds trunc htr _ hf0 hf1).1⟩

/-- T9: "the same instant to within one millisecond": `0 ≤ x − toAbsTime(readUnixTime(x)) < 1/1000`. -/
theorem readUnixG_within_ms (trunc : α → Int) (htr : TruncZ trunc) (x : α) (hx : 0 ≤ x) :
    0 ≤ x - toAbsG (readUnixSpec trunc x).toZ ∧ x - toAbsG (readUnixSpec trunc x).toZ < 1 / 1000 := by
  obtain ⟨hf0, hf1⟩ := frac_bounds trunc htr x hx
  obtain ⟨-, hk1, hk2⟩ := ms_bounds trunc htr _ hf0 hf1
  have hw := readUnixG_wellFormed trunc htr x hx
  rw [toAbsG_toZ _ hw.1.2.2.2.1]
  have hs : toAbsSec (readUnixSec (trunc x).toNat) = (trunc x).toNat := (readUnix_spec _).2
  simp only [toAbsMs, hs, readUnixSpec, Nat.cast_add, Nat.cast_mul, Nat.cast_ofNat] at hk1 hk2 ⊢
  constructor <;> linarith

/-- T7–T9 in one statement about the mirrored code: `readUnixTime(x)` returns a well-formed stamp whose
`toAbsTime()` is at most `x` and more than `x − 1 ms`. -/
theorem readUnixG_spec (trunc : α → Int) (htr : TruncZ trunc) (x : α) (hx : 0 ≤ x) :
    ∃ s : Stamp, readUnixG trunc x = some s.toZ ∧ WFs s
      ∧ 0 ≤ x - toAbsG s.toZ ∧ x - toAbsG s.toZ < 1 / 1000 :=
  ⟨readUnixSpec trunc x, readUnixG_eq trunc htr x hx, readUnixG_wellFormed trunc htr x hx,
    readUnixG_within_ms trunc htr x hx⟩

/-- T10: calendar → `toAbsTime()` → `readUnixTime` is the identity on every well-formed stamp, the
millisecond field included ("exactly the same timestamp"), when the arithmetic is exact. -/
theorem readUnixG_toAbsG (trunc : α → Int) (htr : TruncZ trunc) (s : Stamp) (h : WFs s) :
    readUnixG trunc (toAbsG s.toZ) = some s.toZ := by
  obtain ⟨hd, hms⟩ := h
  have e : (toAbsG s.toZ : α) = ((toAbsSec s.d : Nat) : α) + (s.ms : α) / 1000 := by
    rw [toAbsG_toZ s hd.2.2.2.1]; simp only [toAbsMs, Nat.cast_add, Nat.cast_mul, Nat.cast_ofNat]; ring
  have hf0 : (0 : α) ≤ (s.ms : α) / 1000 := by positivity
  have hf1 : (s.ms : α) / 1000 < 1 := by
    rw [div_lt_one (by norm_num)]; exact_mod_cast hms
  rw [e, readUnixG_nat_add_frac trunc htr _ _ hf0 hf1, ms_exact trunc htr, ObsTime.readUnix_toAbs s.d hd]

/-- T11: `addSec(a)` for any scalar amount `a` (fractional, negative) that does not lead before 1970:
the result is well formed and denotes `toAbsTime() + a` to within one millisecond (truncated). -/
theorem addSecG_spec (trunc : α → Int) (htr : TruncZ trunc) (t : StampZ) (a : α) (h : 0 ≤ toAbsG t + a) :
    ∃ r : Stamp, addSecG trunc t a = some r.toZ ∧ WFs r
      ∧ 0 ≤ (toAbsG t + a) - toAbsG r.toZ ∧ (toAbsG t + a) - toAbsG r.toZ < 1 / 1000 :=
  readUnixG_spec trunc htr _ h

/-- `addMin`, `addHour`, `addDay`: the same with the amount multiplied by 60, 3600, 86400. -/
theorem addMinG_spec (trunc : α → Int) (htr : TruncZ trunc) (t : StampZ) (a : α) (h : 0 ≤ toAbsG t + a * 60) :
    ∃ r : Stamp, addMinG trunc t a = some r.toZ ∧ WFs r
      ∧ 0 ≤ (toAbsG t + a * 60) - toAbsG r.toZ ∧ (toAbsG t + a * 60) - toAbsG r.toZ < 1 / 1000 := by
  have := readUnixG_spec trunc htr (toAbsG t + a * 60) h
  simpa [addMinG] using this
theorem addHourG_spec (trunc : α → Int) (htr : TruncZ trunc) (t : StampZ) (a : α) (h : 0 ≤ toAbsG t + a * 3600) :
    ∃ r : Stamp, addHourG trunc t a = some r.toZ ∧ WFs r
      ∧ 0 ≤ (toAbsG t + a * 3600) - toAbsG r.toZ ∧ (toAbsG t + a * 3600) - toAbsG r.toZ < 1 / 1000 := by
  have := readUnixG_spec trunc htr (toAbsG t + a * 3600) h
  simpa [addHourG] using this
theorem addDayG_spec (trunc : α → Int) (htr : TruncZ trunc) (t : StampZ) (a : α) (h : 0 ≤ toAbsG t + a * 86400) :
    ∃ r : Stamp, addDayG trunc t a = some r.toZ ∧ WFs r
      ∧ 0 ≤ (toAbsG t + a * 86400) - toAbsG r.toZ ∧ (toAbsG t + a * 86400) - toAbsG r.toZ < 1 / 1000 := by
  have := readUnixG_spec trunc htr (toAbsG t + a * 86400) h
  simpa [addDayG] using this

/-- T12: adding a whole number `k` of seconds, **negative included**, to a well-formed stamp moves the instant
by exactly `k` seconds and keeps the millisecond field (the float path agrees with the integer model's
`readUnixMs (toAbsMs t + 1000 k)`; with `toAbs_readUnix` the instant is `toAbsMs t + 1000 k` exactly). -/
theorem addSecG_whole (trunc : α → Int) (htr : TruncZ trunc) (t : Stamp) (h : WFs t) (k : Int)
    (hk : 0 ≤ (toAbsMs t : Int) + k * 1000) :
    addSecG trunc t.toZ ((k : Int) : α) = some (readUnixMs ((toAbsMs t : Int) + k * 1000).toNat).toZ := by
  obtain ⟨hd, hms⟩ := h
  have hn : 0 ≤ (toAbsSec t.d : Int) + k := by unfold toAbsMs at hk; omega
  obtain ⟨n, hn'⟩ := Int.eq_ofNat_of_zero_le hn
  have e : (toAbsG t.toZ : α) + ((k : Int) : α) = ((n : Nat) : α) + (t.ms : α) / 1000 := by
    rw [toAbsG_toZ t hd.2.2.2.1]
    have : ((n : Nat) : α) = ((toAbsSec t.d : Nat) : α) + ((k : Int) : α) := by
      rw [← Int.cast_natCast (R := α) n, ← hn']; push_cast; ring
    rw [this]; simp only [toAbsMs, Nat.cast_add, Nat.cast_mul, Nat.cast_ofNat]; ring
  have hf0 : (0 : α) ≤ (t.ms : α) / 1000 := by positivity
  have hf1 : (t.ms : α) / 1000 < 1 := by
    rw [div_lt_one (by norm_num)]; exact_mod_cast hms
  have hT : ((toAbsMs t : Int) + k * 1000).toNat = n * 1000 + t.ms := by unfold toAbsMs at hk ⊢; omega
  unfold addSecG
  rw [e, readUnixG_nat_add_frac trunc htr _ _ hf0 hf1, ms_exact trunc htr, hT]
  unfold readUnixMs
  have e1 : (n * 1000 + t.ms) / 1000 = n := by omega
  have e2 : (n * 1000 + t.ms) % 1000 = t.ms := by omega
  rw [e1, e2]

/-- T13: the comparison operators order well-formed stamps exactly as their `toAbsTime()` values
(seconds since 1970, as scalars) do, and as the sign of `__sub__` does. -/
theorem cmp_iff_seconds (a b : Stamp) (ha : WFs a) (hb : WFs b) :
    (ltS a b = true ↔ (toAbsG a.toZ : α) < toAbsG b.toZ)
    ∧ (gtS a b = true ↔ (toAbsG a.toZ : α) > toAbsG b.toZ)
    ∧ (eqS a b = true ↔ (toAbsG a.toZ : α) = toAbsG b.toZ)
    ∧ (leS a b = true ↔ (toAbsG a.toZ : α) ≤ toAbsG b.toZ)
    ∧ (geS a b = true ↔ (toAbsG a.toZ : α) ≥ toAbsG b.toZ)
    ∧ (neS a b = true ↔ (toAbsG a.toZ : α) ≠ toAbsG b.toZ) := by
  have da := ha.1.2.2.2.1
  have db := hb.1.2.2.2.1
  have hlt := (lt_iff a b ha hb).trans (toAbsG_lt_iff (α := α) a b da db).symm
  have hgt := (gt_iff a b ha hb).trans (toAbsG_lt_iff (α := α) b a db da).symm
  have heq := (eq_iff a b ha hb).trans (toAbsG_eq_iff (α := α) a b da db).symm
  refine ⟨hlt, hgt, heq, ?_, ?_, ?_⟩
  · unfold leS; rw [← not_lt, ← hgt]; simp
  · unfold geS; rw [ge_iff_le, ← not_lt, ← hlt]; simp
  · have heq' := (eq_iff b a hb ha).trans (toAbsG_eq_iff (α := α) b a db da).symm
    unfold neS; rw [ne_comm, Ne, ← heq']; simp

/-- `t1 - t2` (`__sub__`) is the difference of the epoch milliseconds over 1000; its sign is the comparison. -/
theorem sub_spec (a b : Stamp) (ha : WFs a) (hb : WFs b) :
    (subG a.toZ b.toZ : α) = ((toAbsMs a : α) - (toAbsMs b : α)) / 1000
    ∧ (ltS a b = true ↔ (subG a.toZ b.toZ : α) < 0)
    ∧ (gtS a b = true ↔ (subG a.toZ b.toZ : α) > 0)
    ∧ (eqS a b = true ↔ (subG a.toZ b.toZ : α) = 0) := by
  obtain ⟨h1, h2, h3, -⟩ := cmp_iff_seconds (α := α) a b ha hb
  refine ⟨?_, ?_, ?_, ?_⟩
  · unfold subG; rw [toAbsG_toZ a ha.1.2.2.2.1, toAbsG_toZ b hb.1.2.2.2.1]; ring
  · rw [h1]; unfold subG; exact sub_neg.symm
  · rw [h2]; unfold subG; exact sub_pos.symm
  · rw [h3]; unfold subG; exact sub_eq_zero.symm

/-- the field-wise cascades evaluated on float-path stamps (integer-valued fields) are those of the integer model -/
theorem cmpZ_toZ (a b : Stamp) :
    ltZ a.toZ b.toZ = ltS a b ∧ gtZ a.toZ b.toZ = gtS a b ∧ eqZ a.toZ b.toZ = eqS a b :=
  ⟨ltZ_toZ a b, gtZ_toZ a b, eqZ_toZ a b⟩

/-- T14: reading is monotone: `0 ≤ x ≤ y` implies `readUnixTime(x) <= readUnixTime(y)` (so a chronological
sequence of float instants stays chronological when stamped). -/
theorem readUnixG_monotone (trunc : α → Int) (htr : TruncZ trunc) (x y : α) (hx : 0 ≤ x) (hxy : x ≤ y) :
    leS (readUnixSpec trunc x) (readUnixSpec trunc y) = true := by
  have hy : 0 ≤ y := le_trans hx hxy
  rw [le_iff _ _ (readUnixG_wellFormed trunc htr x hx) (readUnixG_wellFormed trunc htr y hy)]
  obtain ⟨fx0, fx1⟩ := frac_bounds trunc htr x hx
  obtain ⟨fy0, fy1⟩ := frac_bounds trunc htr y hy
  obtain ⟨-, kx1, -⟩ := ms_bounds trunc htr _ fx0 fx1
  obtain ⟨-, -, ky2⟩ := ms_bounds trunc htr _ fy0 fy1
  have sx : toAbsSec (readUnixSec (trunc x).toNat) = (trunc x).toNat := (readUnix_spec _).2
  have sy : toAbsSec (readUnixSec (trunc y).toNat) = (trunc y).toNat := (readUnix_spec _).2
  simp only [toAbsMs, sx, sy, readUnixSpec]
  have : (((trunc x).toNat * 1000 + (trunc ((x - ((trunc x).toNat : α)) * 1000)).toNat : Nat) : α)
      < (((trunc y).toNat * 1000 + (trunc ((y - ((trunc y).toNat : α)) * 1000)).toNat + 1 : Nat) : α) := by
    push_cast; linarith
  have := Nat.cast_lt.mp this
  omega

end FloatPath

/-- `ObsTime()` (the defaults of `__init__`) is the epoch: the stamp read from 0, with `toAbsTime()` = 0. -/
theorem default_is_epoch : defaultZ = (readUnixMs 0).toZ ∧ secondsZ defaultZ = 0 ∧ defaultZ.ms = 0 := by
  decide +kernel

/-! ### non-vacuity of the float-path statements -/

/-- Python's `int()` on non-negative rationals is the floor: the contract is satisfiable -/
example : TruncZ (fun x : ℚ => ⌊x⌋) := fun x hx =>
  ⟨Int.floor_nonneg.mpr hx, Int.floor_le x, Int.lt_floor_add_one x⟩

/-- an instant in the last half millisecond of a second (the inputs of the seeded change C03-4):
`readUnixTime(1550941038.9996)` is `2019-02-23 16:57:18.999`, not `….18.1000`. -/
example : readUnixSpec (fun x : ℚ => ⌊x⌋) (1550941038 + 9996 / 10000) = ⟨⟨2019, 2, 23, 16, 57, 18⟩, 999⟩ := by
  have h1 : ⌊(1550941038 + 9996 / 10000 : ℚ)⌋ = 1550941038 := by
    rw [Int.floor_eq_iff]; constructor <;> norm_num
  have h0 : (1550941038 : ℤ).toNat = 1550941038 := by decide
  have h2 : ⌊((1550941038 + 9996 / 10000 : ℚ) - ((1550941038 : ℕ) : ℚ)) * 1000⌋ = 999 := by
    rw [Int.floor_eq_iff]; constructor <;> norm_num
  have h3 : (999 : ℤ).toNat = 999 := by decide
  simp only [readUnixSpec, h1, h0, h2, h3]
  decide +kernel

end TV.C03
