import TracklibVerif.Lemmas.ObsTimeG
import TracklibVerif.Lemmas.ObsTimeZone
import TracklibVerif.Model.ObsTimeOperand
import Mathlib.Algebra.Order.Floor.Ring
import Mathlib.Data.Rat.Floor
/-! # C03 — timestamps convert to and from epoch seconds without drifting or deforming

Property theorems only (helper lemmas are in `Lemmas/ObsTime.lean`, `Lemmas/ObsTimeG.lean`). T1–T6 are about the
integer model (`Model/ObsTime.lean`, integer milliseconds); T7–T14 are about the scalar-polymorphic model of the
float path (`Model/ObsTimeG.lean`) over a linearly ordered field with an exact `int()`, and reduce it to the
integer model. Z1–Z13 are about the `zone` label, `convertToZone`, the `Track` zone methods, `getDayOfWeek`,
`printZone` and about which call creates or modifies an object (`Model/ObsTimeZone.lean`). O1–O2 are about what may
stand on the other side of a comparison operator: a timestamp of any class derived from `ObsTime`, or an object that
is not a timestamp (`Model/ObsTimeOperand.lean`).
All statements are for every instant / every well-formed stamp, with no bound on the year. -/
namespace TV.C03
open TV.ObsTime

/-- T1: every instant reads back as a well-formed calendar stamp. -/
theorem readUnix_wellFormed (t : Nat) : WFs (readUnixMs t) :=
  ⟨(readUnix_spec (t / 1000)).1, Nat.mod_lt _ (by omega)⟩

/-- T2: seconds → calendar → seconds is the identity (same instant, exactly). -/
theorem toAbs_readUnix (t : Nat) : toAbsMs (readUnixMs t) = t := by
  have h := (readUnix_spec (t / 1000)).2
  unfold toAbsMs readUnixMs
  simp only [h]
  omega

/-- T3: calendar → seconds → calendar is the identity on well-formed stamps. -/
theorem readUnix_toAbs (s : Stamp) (h : WFs s) : readUnixMs (toAbsMs s) = s := by
  obtain ⟨hd, hms⟩ := h
  cases s with | mk d ms =>
  unfold readUnixMs toAbsMs
  simp only at hms ⊢
  have e1 : (toAbsSec d * 1000 + ms) / 1000 = toAbsSec d := by omega
  have e2 : (toAbsSec d * 1000 + ms) % 1000 = ms := by omega
  rw [e1, e2, ObsTime.readUnix_toAbs d hd]

/-- T4: the instant is `(day number)·86400 s + time of day`, and the day number computed by
`toAbsTime`'s year and month loops is the closed-form proleptic Gregorian day number
(`civilDays`, days since 1970-01-01). -/
theorem toAbs_gregorian (s : Stamp) (h : WFs s) :
    toAbsMs s = (dayNo s.d * 86400 + (s.d.hour * 3600 + s.d.min * 60 + s.d.sec)) * 1000 + s.ms
    ∧ (dayNo s.d : Int) = civilDays s.d.year s.d.month s.d.day :=
  ⟨by unfold toAbsMs; rw [toAbs_split]; rfl, dayNo_civil s.d h.1⟩

/-- T5: the field-wise `<` orders well-formed stamps as their epoch milliseconds do. -/
theorem lt_iff (a b : Stamp) (ha : WFs a) (hb : WFs b) : ltS a b = true ↔ toAbsMs a < toAbsMs b :=
  ltS_iff a b ha hb

theorem gt_iff (a b : Stamp) (ha : WFs a) (hb : WFs b) : gtS a b = true ↔ toAbsMs a > toAbsMs b := by
  rw [gtS_eq_ltS]; exact ltS_iff b a hb ha

theorem eq_iff (a b : Stamp) (ha : WFs a) (hb : WFs b) : eqS a b = true ↔ toAbsMs a = toAbsMs b := by
  rw [eqS_iff]
  constructor
  · intro h; rw [h]
  · exact toAbsMs_inj a b ha hb

theorem le_iff (a b : Stamp) (ha : WFs a) (hb : WFs b) : leS a b = true ↔ toAbsMs a ≤ toAbsMs b := by
  have := gt_iff a b ha hb
  unfold leS
  cases h : gtS a b <;> simp [h] at this ⊢ <;> omega

theorem ge_iff (a b : Stamp) (ha : WFs a) (hb : WFs b) : geS a b = true ↔ toAbsMs a ≥ toAbsMs b := by
  have := lt_iff a b ha hb
  unfold geS
  cases h : ltS a b <;> simp [h] at this ⊢ <;> omega

/-- T6: adding `n` seconds moves the instant by exactly `n` seconds, and the result is well formed. -/
theorem addSec_spec (t : Stamp) (n : Nat) :
    WFs (addSec t n) ∧ toAbsMs (addSec t n) = toAbsMs t + n * 1000 :=
  ⟨readUnix_wellFormed _, toAbs_readUnix _⟩

/-- non-vacuity: a leap-day stamp is well formed, and the round trip is the identity on it. -/
example : WFs ⟨⟨2000, 2, 29, 23, 59, 59⟩, 999⟩ := by unfold WFs WF monthDays isLeap; decide
example : readUnixMs (toAbsMs ⟨⟨2000, 2, 29, 23, 59, 59⟩, 999⟩) = ⟨⟨2000, 2, 29, 23, 59, 59⟩, 999⟩ := by decide +kernel
/-- regression witness for the defect repaired by the first `fix:` commit: the first second of 1971. -/
example : readUnixMs 31536000000 = ⟨⟨1971, 1, 1, 0, 0, 0⟩, 0⟩ := by decide +kernel

/-! ## The float path: `readUnixTime(x)` on fractional seconds, `toAbsTime()` as a scalar, `addSec` with
fractional and negative amounts, `__sub__`

The statements are over a linearly ordered field `α` with an exact truncation (`TruncZ trunc`: `trunc` is
Python's `int()` on non-negative reals). They need exact arithmetic: IEEE rounding of `toAbsTime()`'s
`ms / 1000.0` and of the sum, and of `elapsed_seconds * 1000`, is outside them (a float `toAbsTime()` of a stamp
with `ms = 57` is slightly below `….057` and reads back as 56 ms: within the property's millisecond, and
covered by the exact correspondence of the same definitions at `Float`). -/
section FloatPath
variable {α : Type} [Field α] [LinearOrder α] [IsStrictOrderedRing α]

/-- T7: for every `x ≥ 0` the float reader, run operation for operation (year loop on `elapsed - sec` with the
integer accumulator, month loop, the three truncated divisions, `ms = int(frac * 1000)`), returns the calendar
fields of the integer reader on `⌊x⌋` and `⌊(x − ⌊x⌋)·1000⌋` milliseconds; in particular the year loop ends. -/
theorem readUnixG_eq (trunc : α → Int) (htr : TruncZ trunc) (x : α) (hx : 0 ≤ x) :
    readUnixG trunc x = some (readUnixSpec trunc x).toZ := by
  obtain ⟨hf0, hf1⟩ := frac_bounds trunc htr x hx
  have e : x = ((trunc x).toNat : α) + (x - ((trunc x).toNat : α)) := by ring
  conv_lhs => rw [e]
  exact readUnixG_nat_add_frac trunc htr _ _ hf0 hf1

/-- T8: the stamp read from any `x ≥ 0` is well formed (month 1–12, a day of that month, hour 0–23,
minute and second 0–59, **millisecond 0–999**). -/
theorem readUnixG_wellFormed (trunc : α → Int) (htr : TruncZ trunc) (x : α) (hx : 0 ≤ x) :
    WFs (readUnixSpec trunc x) := by
  obtain ⟨hf0, hf1⟩ := frac_bounds trunc htr x hx
  exact ⟨(readUnix_spec _).1, (ms_bounds trunc htr _ hf0 hf1).1⟩

/-- T9: "the same instant to within one millisecond": `0 ≤ x − toAbsTime(readUnixTime(x)) < 1/1000`. -/
theorem readUnixG_within_ms (trunc : α → Int) (htr : TruncZ trunc) (x : α) (hx : 0 ≤ x) :
    0 ≤ x - toAbsG (readUnixSpec trunc x).toZ ∧ x - toAbsG (readUnixSpec trunc x).toZ < 1 / 1000 := by
  obtain ⟨hf0, hf1⟩ := frac_bounds trunc htr x hx
  obtain ⟨-, hk1, hk2⟩ := ms_bounds trunc htr _ hf0 hf1
  have hw := readUnixG_wellFormed trunc htr x hx
  rw [toAbsG_toZ _ hw.1.2.2.2.1]
  have hs : toAbsSec (readUnixSec (trunc x).toNat) = (trunc x).toNat := (readUnix_spec _).2
  simp only [toAbsMs, hs, readUnixSpec, Nat.cast_add, Nat.cast_mul, Nat.cast_ofNat] at hk1 hk2 ⊢
  constructor <;> linarith

/-- T7–T9 in one statement about the mirrored code: `readUnixTime(x)` returns a well-formed stamp whose
`toAbsTime()` is at most `x` and more than `x − 1 ms`. -/
theorem readUnixG_spec (trunc : α → Int) (htr : TruncZ trunc) (x : α) (hx : 0 ≤ x) :
    ∃ s : Stamp, readUnixG trunc x = some s.toZ ∧ WFs s
      ∧ 0 ≤ x - toAbsG s.toZ ∧ x - toAbsG s.toZ < 1 / 1000 :=
  ⟨readUnixSpec trunc x, readUnixG_eq trunc htr x hx, readUnixG_wellFormed trunc htr x hx,
    readUnixG_within_ms trunc htr x hx⟩

/-- T10: calendar → `toAbsTime()` → `readUnixTime` is the identity on every well-formed stamp, the
millisecond field included ("exactly the same timestamp"), when the arithmetic is exact. -/
theorem readUnixG_toAbsG (trunc : α → Int) (htr : TruncZ trunc) (s : Stamp) (h : WFs s) :
    readUnixG trunc (toAbsG s.toZ) = some s.toZ := by
  obtain ⟨hd, hms⟩ := h
  have e : (toAbsG s.toZ : α) = ((toAbsSec s.d : Nat) : α) + (s.ms : α) / 1000 := by
    rw [toAbsG_toZ s hd.2.2.2.1]; simp only [toAbsMs, Nat.cast_add, Nat.cast_mul, Nat.cast_ofNat]; ring
  have hf0 : (0 : α) ≤ (s.ms : α) / 1000 := by positivity
  have hf1 : (s.ms : α) / 1000 < 1 := by
    rw [div_lt_one (by norm_num)]; exact_mod_cast hms
  rw [e, readUnixG_nat_add_frac trunc htr _ _ hf0 hf1, ms_exact trunc htr, ObsTime.readUnix_toAbs s.d hd]

/-- T11: `addSec(a)` for any scalar amount `a` (fractional, negative) that does not lead before 1970:
the result is well formed and denotes `toAbsTime() + a` to within one millisecond (truncated). -/
theorem addSecG_spec (trunc : α → Int) (htr : TruncZ trunc) (t : StampZ) (a : α) (h : 0 ≤ toAbsG t + a) :
    ∃ r : Stamp, addSecG trunc t a = some r.toZ ∧ WFs r
      ∧ 0 ≤ (toAbsG t + a) - toAbsG r.toZ ∧ (toAbsG t + a) - toAbsG r.toZ < 1 / 1000 :=
  readUnixG_spec trunc htr _ h

/-- `addMin`, `addHour`, `addDay`: the same with the amount multiplied by 60, 3600, 86400. -/
theorem addMinG_spec (trunc : α → Int) (htr : TruncZ trunc) (t : StampZ) (a : α) (h : 0 ≤ toAbsG t + a * 60) :
    ∃ r : Stamp, addMinG trunc t a = some r.toZ ∧ WFs r
      ∧ 0 ≤ (toAbsG t + a * 60) - toAbsG r.toZ ∧ (toAbsG t + a * 60) - toAbsG r.toZ < 1 / 1000 := by
  have := readUnixG_spec trunc htr (toAbsG t + a * 60) h
  simpa [addMinG] using this
theorem addHourG_spec (trunc : α → Int) (htr : TruncZ trunc) (t : StampZ) (a : α) (h : 0 ≤ toAbsG t + a * 3600) :
    ∃ r : Stamp, addHourG trunc t a = some r.toZ ∧ WFs r
      ∧ 0 ≤ (toAbsG t + a * 3600) - toAbsG r.toZ ∧ (toAbsG t + a * 3600) - toAbsG r.toZ < 1 / 1000 := by
  have := readUnixG_spec trunc htr (toAbsG t + a * 3600) h
  simpa [addHourG] using this
theorem addDayG_spec (trunc : α → Int) (htr : TruncZ trunc) (t : StampZ) (a : α) (h : 0 ≤ toAbsG t + a * 86400) :
    ∃ r : Stamp, addDayG trunc t a = some r.toZ ∧ WFs r
      ∧ 0 ≤ (toAbsG t + a * 86400) - toAbsG r.toZ ∧ (toAbsG t + a * 86400) - toAbsG r.toZ < 1 / 1000 := by
  have := readUnixG_spec trunc htr (toAbsG t + a * 86400) h
  simpa [addDayG] using this

/-- T12: adding a whole number `k` of seconds, **negative included**, to a well-formed stamp moves the instant
by exactly `k` seconds and keeps the millisecond field (the float path agrees with the integer model's
`readUnixMs (toAbsMs t + 1000 k)`; with `toAbs_readUnix` the instant is `toAbsMs t + 1000 k` exactly). -/
theorem addSecG_whole (trunc : α → Int) (htr : TruncZ trunc) (t : Stamp) (h : WFs t) (k : Int)
    (hk : 0 ≤ (toAbsMs t : Int) + k * 1000) :
    addSecG trunc t.toZ ((k : Int) : α) = some (readUnixMs ((toAbsMs t : Int) + k * 1000).toNat).toZ := by
  obtain ⟨hd, hms⟩ := h
  have hn : 0 ≤ (toAbsSec t.d : Int) + k := by unfold toAbsMs at hk; omega
  obtain ⟨n, hn'⟩ := Int.eq_ofNat_of_zero_le hn
  have e : (toAbsG t.toZ : α) + ((k : Int) : α) = ((n : Nat) : α) + (t.ms : α) / 1000 := by
    rw [toAbsG_toZ t hd.2.2.2.1]
    have : ((n : Nat) : α) = ((toAbsSec t.d : Nat) : α) + ((k : Int) : α) := by
      rw [← Int.cast_natCast (R := α) n, ← hn']; push_cast; ring
    rw [this]; simp only [toAbsMs, Nat.cast_add, Nat.cast_mul, Nat.cast_ofNat]; ring
  have hf0 : (0 : α) ≤ (t.ms : α) / 1000 := by positivity
  have hf1 : (t.ms : α) / 1000 < 1 := by
    rw [div_lt_one (by norm_num)]; exact_mod_cast hms
  have hT : ((toAbsMs t : Int) + k * 1000).toNat = n * 1000 + t.ms := by unfold toAbsMs at hk ⊢; omega
  unfold addSecG
  rw [e, readUnixG_nat_add_frac trunc htr _ _ hf0 hf1, ms_exact trunc htr, hT]
  unfold readUnixMs
  have e1 : (n * 1000 + t.ms) / 1000 = n := by omega
  have e2 : (n * 1000 + t.ms) % 1000 = t.ms := by omega
  rw [e1, e2]

/-- T13: the comparison operators order well-formed stamps exactly as their `toAbsTime()` values
(seconds since 1970, as scalars) do, and as the sign of `__sub__` does. -/
theorem cmp_iff_seconds (a b : Stamp) (ha : WFs a) (hb : WFs b) :
    (ltS a b = true ↔ (toAbsG a.toZ : α) < toAbsG b.toZ)
    ∧ (gtS a b = true ↔ (toAbsG a.toZ : α) > toAbsG b.toZ)
    ∧ (eqS a b = true ↔ (toAbsG a.toZ : α) = toAbsG b.toZ)
    ∧ (leS a b = true ↔ (toAbsG a.toZ : α) ≤ toAbsG b.toZ)
    ∧ (geS a b = true ↔ (toAbsG a.toZ : α) ≥ toAbsG b.toZ)
    ∧ (neS a b = true ↔ (toAbsG a.toZ : α) ≠ toAbsG b.toZ) := by
  have da := ha.1.2.2.2.1
  have db := hb.1.2.2.2.1
  have hlt := (lt_iff a b ha hb).trans (toAbsG_lt_iff (α := α) a b da db).symm
  have hgt := (gt_iff a b ha hb).trans (toAbsG_lt_iff (α := α) b a db da).symm
  have heq := (eq_iff a b ha hb).trans (toAbsG_eq_iff (α := α) a b da db).symm
  refine ⟨hlt, hgt, heq, ?_, ?_, ?_⟩
  · unfold leS; rw [← not_lt, ← hgt]; simp
  · unfold geS; rw [ge_iff_le, ← not_lt, ← hlt]; simp
  · have heq' := (eq_iff b a hb ha).trans (toAbsG_eq_iff (α := α) b a db da).symm
    unfold neS; rw [ne_comm, Ne, ← heq']; simp

/-- `t1 - t2` (`__sub__`) is the difference of the epoch milliseconds over 1000; its sign is the comparison. -/
theorem sub_spec (a b : Stamp) (ha : WFs a) (hb : WFs b) :
    (subG a.toZ b.toZ : α) = ((toAbsMs a : α) - (toAbsMs b : α)) / 1000
    ∧ (ltS a b = true ↔ (subG a.toZ b.toZ : α) < 0)
    ∧ (gtS a b = true ↔ (subG a.toZ b.toZ : α) > 0)
    ∧ (eqS a b = true ↔ (subG a.toZ b.toZ : α) = 0) := by
  obtain ⟨h1, h2, h3, -⟩ := cmp_iff_seconds (α := α) a b ha hb
  refine ⟨?_, ?_, ?_, ?_⟩
  · unfold subG; rw [toAbsG_toZ a ha.1.2.2.2.1, toAbsG_toZ b hb.1.2.2.2.1]; ring
  · rw [h1]; unfold subG; exact sub_neg.symm
  · rw [h2]; unfold subG; exact sub_pos.symm
  · rw [h3]; unfold subG; exact sub_eq_zero.symm

/-- the field-wise cascades evaluated on float-path stamps (integer-valued fields) are those of the integer model -/
theorem cmpZ_toZ (a b : Stamp) :
    ltZ a.toZ b.toZ = ltS a b ∧ gtZ a.toZ b.toZ = gtS a b ∧ eqZ a.toZ b.toZ = eqS a b :=
  ⟨ltZ_toZ a b, gtZ_toZ a b, eqZ_toZ a b⟩

/-- T14: reading is monotone: `0 ≤ x ≤ y` implies `readUnixTime(x) <= readUnixTime(y)` (so a chronological
sequence of float instants stays chronological when stamped). -/
theorem readUnixG_monotone (trunc : α → Int) (htr : TruncZ trunc) (x y : α) (hx : 0 ≤ x) (hxy : x ≤ y) :
    leS (readUnixSpec trunc x) (readUnixSpec trunc y) = true := by
  have hy : 0 ≤ y := le_trans hx hxy
  rw [le_iff _ _ (readUnixG_wellFormed trunc htr x hx) (readUnixG_wellFormed trunc htr y hy)]
  obtain ⟨fx0, fx1⟩ := frac_bounds trunc htr x hx
  obtain ⟨fy0, fy1⟩ := frac_bounds trunc htr y hy
  obtain ⟨-, kx1, -⟩ := ms_bounds trunc htr _ fx0 fx1
  obtain ⟨-, -, ky2⟩ := ms_bounds trunc htr _ fy0 fy1
  have sx : toAbsSec (readUnixSec (trunc x).toNat) = (trunc x).toNat := (readUnix_spec _).2
  have sy : toAbsSec (readUnixSec (trunc y).toNat) = (trunc y).toNat := (readUnix_spec _).2
  simp only [toAbsMs, sx, sy, readUnixSpec]
  have : (((trunc x).toNat * 1000 + (trunc ((x - ((trunc x).toNat : α)) * 1000)).toNat : Nat) : α)
      < (((trunc y).toNat * 1000 + (trunc ((y - ((trunc y).toNat : α)) * 1000)).toNat + 1 : Nat) : α) := by
    push_cast; linarith
  have := Nat.cast_lt.mp this
  omega

end FloatPath

/-- `ObsTime()` (the defaults of `__init__`) is the epoch: the stamp read from 0, with `toAbsTime()` = 0. -/
theorem default_is_epoch : defaultZ = (readUnixMs 0).toZ ∧ secondsZ defaultZ = 0 ∧ defaultZ.ms = 0 := by
  decide +kernel

/-! ### non-vacuity of the float-path statements -/

/-- Python's `int()` on non-negative rationals is the floor: the contract is satisfiable -/
example : TruncZ (fun x : ℚ => ⌊x⌋) := fun x hx =>
  ⟨Int.floor_nonneg.mpr hx, Int.floor_le x, Int.lt_floor_add_one x⟩

/-- an instant in the last half millisecond of a second (the inputs of the seeded change C03-4):
`readUnixTime(1550941038.9996)` is `2019-02-23 16:57:18.999`, not `….18.1000`. -/
example : readUnixSpec (fun x : ℚ => ⌊x⌋) (1550941038 + 9996 / 10000) = ⟨⟨2019, 2, 23, 16, 57, 18⟩, 999⟩ := by
  have h1 : ⌊(1550941038 + 9996 / 10000 : ℚ)⌋ = 1550941038 := by
    rw [Int.floor_eq_iff]; constructor <;> norm_num
  have h0 : (1550941038 : ℤ).toNat = 1550941038 := by decide
  have h2 : ⌊((1550941038 + 9996 / 10000 : ℚ) - ((1550941038 : ℕ) : ℚ)) * 1000⌋ = 999 := by
    rw [Int.floor_eq_iff]; constructor <;> norm_num
  have h3 : (999 : ℤ).toNat = 999 := by decide
  simp only [readUnixSpec, h1, h0, h2, h3]
  decide +kernel


/-! ## The `zone` label, the functions around it, and which call creates or modifies an object

`Model/ObsTimeZone.lean`. The property's sentences are about the calendar fields and the seconds value: Z1 says the
label is never read by them, Z2 which label a result carries, Z3–Z6 what `convertToZone` is in exact arithmetic
(a shift of the calendar fields by whole hours that keeps `toAbsTime() − 3600·zone`, minute, second and
millisecond; invertible; order-preserving), Z7–Z8 the `Track` methods, Z9 the day of the week, Z10–Z11, Z13 that every
conversion returns a new object and only an attribute assignment / `Track.setTimeZone` writes into existing ones. -/
section ZoneLabel
variable {α : Type} [Add α] [Sub α] [Mul α] [Div α] [LT α] [DecidableLT α] [IntCast α]

/-- Z1: the zone label is never read by `toAbsTime()`, `-`, the round trip, `addSec/addMin/addHour/addDay`,
`getDayOfWeek()` (and the comparison cascades are defined on the calendar fields only): two objects with the same
calendar fields and different labels give the same answers. -/
theorem zone_not_read (trunc : α → Int) (t : StampZ) (z z' : Int) (b : ObsZ) :
    (toAbsZ ⟨t, z⟩ : α) = toAbsZ ⟨t, z'⟩
    ∧ (subZ ⟨t, z⟩ b : α) = subZ ⟨t, z'⟩ b ∧ (subZ b ⟨t, z⟩ : α) = subZ b ⟨t, z'⟩
    ∧ rtZ (α := α) trunc ⟨t, z⟩ = rtZ (α := α) trunc ⟨t, z'⟩
    ∧ (∀ u nb, addZ trunc u ⟨t, z⟩ nb = addZ trunc u ⟨t, z'⟩ nb)
    ∧ dayOfWeekG (α := α) trunc ⟨t, z⟩ = dayOfWeekG (α := α) trunc ⟨t, z'⟩ :=
  ⟨rfl, rfl, rfl, rfl, fun _ _ => rfl, rfl⟩

/-- Z2: the label of a result: `readUnixTime`, `addSec` …, the round trip return an object in zone 0 (built from
`ObsTime()`), whatever the label of the operand; `convertToZone(z)` returns one labelled `z`. -/
theorem results_zone (trunc : α → Int) (o r : ObsZ) :
    (∀ x, readUnixZ trunc x = some r → r.zone = 0)
    ∧ (∀ u nb, addZ trunc u o nb = some r → r.zone = 0)
    ∧ (rtZ (α := α) trunc o = some r → r.zone = 0)
    ∧ (∀ z, convertToZoneG (α := α) trunc o z = some r → r.zone = z) :=
  ⟨fun _ h => zone_of_map h, fun _ _ h => zone_of_map h, fun h => zone_of_map h, fun _ h => zone_of_map h⟩

end ZoneLabel

section Zone
variable {α : Type} [Field α] [LinearOrder α] [IsStrictOrderedRing α]

/-- Z3: `convertToZone(z)` on a well-formed stamp labelled `z0`, in exact arithmetic, when the target is not before
1970: the stamp of the integer model at `toAbsMs + 3 600 000 (z − z0)`, labelled `z`. -/
theorem convertToZoneG_eq (trunc : α → Int) (htr : TruncZ trunc) (t : Stamp) (h : WFs t) (z0 z : Int)
    (hk : 0 ≤ (toAbsMs t : Int) + 3600000 * (z - z0)) :
    convertToZoneG trunc (⟨t.toZ, z0⟩ : ObsZ) z = some ⟨(convertToZoneMs t z0 z).toZ, z⟩ := by
  have hk' : 0 ≤ (toAbsMs t : Int) + (3600 * (z - z0)) * 1000 := by omega
  have := addSecG_whole trunc htr t h (3600 * (z - z0)) hk'
  unfold addSecG at this
  unfold convertToZoneG convertToZoneMs
  simp only [this, Option.map_some]
  have e : (toAbsMs t : Int) + (3600 * (z - z0)) * 1000 = (toAbsMs t : Int) + 3600000 * (z - z0) := by omega
  rw [e]

/-- Z4: what `convertToZone` changes and what it keeps: the result is well formed; the instant moves by exactly
`z − z0` hours, so that `toAbsTime() − 3600·zone` (the instant on the common clock) is kept; millisecond, second and
minute fields are kept. -/
theorem convertToZone_spec (t : Stamp) (h : WFs t) (z0 z : Int)
    (hk : 0 ≤ (toAbsMs t : Int) + 3600000 * (z - z0)) :
    WFs (convertToZoneMs t z0 z)
    ∧ (toAbsMs (convertToZoneMs t z0 z) : Int) = (toAbsMs t : Int) + 3600000 * (z - z0)
    ∧ (toAbsMs (convertToZoneMs t z0 z) : Int) - 3600000 * z = (toAbsMs t : Int) - 3600000 * z0
    ∧ (convertToZoneMs t z0 z).ms = t.ms
    ∧ (convertToZoneMs t z0 z).d.min = t.d.min ∧ (convertToZoneMs t z0 z).d.sec = t.d.sec := by
  have h1 := toAbsMs_convertToZoneMs t z0 z hk
  have hms := ms_convertToZoneMs t h.2 z0 z hk
  have hw : WFs (convertToZoneMs t z0 z) := WFs_readUnixMs _
  refine ⟨hw, h1, by omega, hms, ?_, ?_⟩
  all_goals
    unfold toAbsMs at h1
    rw [hms, toAbs_split, toAbs_split] at h1
    unfold tod at h1
    obtain ⟨⟨-, -, -, -, -, -, m1, s1⟩, -⟩ := hw
    obtain ⟨⟨-, -, -, -, -, -, m2, s2⟩, -⟩ := h
    omega

/-- Z5: converting to a zone and back gives the stamp one started from; converting to the zone the stamp is in
changes nothing; two conversions in a row are one. -/
theorem convertToZone_back (t : Stamp) (h : WFs t) (z0 z : Int)
    (hk : 0 ≤ (toAbsMs t : Int) + 3600000 * (z - z0)) :
    convertToZoneMs (convertToZoneMs t z0 z) z z0 = t := by
  have h1 := toAbsMs_convertToZoneMs t z0 z hk
  rw [show convertToZoneMs (convertToZoneMs t z0 z) z z0
      = readUnixMs ((toAbsMs (convertToZoneMs t z0 z) : Int) + 3600000 * (z0 - z)).toNat from rfl, h1]
  have e : ((toAbsMs t : Int) + 3600000 * (z - z0) + 3600000 * (z0 - z)).toNat = toAbsMs t := by omega
  rw [e, readUnixMs_toAbsMs t h]

theorem convertToZone_same (t : Stamp) (h : WFs t) (z : Int) : convertToZoneMs t z z = t := by
  unfold convertToZoneMs
  have e : ((toAbsMs t : Int) + 3600000 * (z - z)).toNat = toAbsMs t := by omega
  rw [e, readUnixMs_toAbsMs t h]

theorem convertToZone_comp (t : Stamp) (z0 z1 z2 : Int)
    (hk : 0 ≤ (toAbsMs t : Int) + 3600000 * (z1 - z0)) :
    convertToZoneMs (convertToZoneMs t z0 z1) z1 z2 = convertToZoneMs t z0 z2 := by
  have h1 := toAbsMs_convertToZoneMs t z0 z1 hk
  rw [show convertToZoneMs (convertToZoneMs t z0 z1) z1 z2
      = readUnixMs ((toAbsMs (convertToZoneMs t z0 z1) : Int) + 3600000 * (z2 - z1)).toNat from rfl, h1]
  unfold convertToZoneMs
  congr 2
  omega

/-- Z6: two stamps of one zone converted to one zone keep their order, their equality and their distance -/
theorem convertToZone_order (a b : Stamp) (ha : WFs a) (hb : WFs b) (z0 z : Int)
    (hka : 0 ≤ (toAbsMs a : Int) + 3600000 * (z - z0)) (hkb : 0 ≤ (toAbsMs b : Int) + 3600000 * (z - z0)) :
    ltS (convertToZoneMs a z0 z) (convertToZoneMs b z0 z) = ltS a b
    ∧ gtS (convertToZoneMs a z0 z) (convertToZoneMs b z0 z) = gtS a b
    ∧ eqS (convertToZoneMs a z0 z) (convertToZoneMs b z0 z) = eqS a b
    ∧ (toAbsMs (convertToZoneMs a z0 z) : Int) - toAbsMs (convertToZoneMs b z0 z) = (toAbsMs a : Int) - toAbsMs b := by
  have h1 := toAbsMs_convertToZoneMs a z0 z hka
  have h2 := toAbsMs_convertToZoneMs b z0 z hkb
  have wa : WFs (convertToZoneMs a z0 z) := WFs_readUnixMs _
  have wb : WFs (convertToZoneMs b z0 z) := WFs_readUnixMs _
  refine ⟨?_, ?_, ?_, by omega⟩
  · rw [Bool.eq_iff_iff, lt_iff _ _ wa wb, lt_iff _ _ ha hb]; omega
  · rw [Bool.eq_iff_iff, gt_iff _ _ wa wb, gt_iff _ _ ha hb]; omega
  · rw [Bool.eq_iff_iff, eq_iff _ _ wa wb, eq_iff _ _ ha hb]; omega


/-- Z7: `Track.setTimeZone(z)` relabels: calendar fields (hence seconds, order, differences) untouched, every
label `z`, and `getTimeZone()` then answers `z`. -/
theorem setTimeZone_spec (z : Int) (l : List ObsZ) :
    (setTimeZone z l).map (·.t) = l.map (·.t)
    ∧ (∀ o ∈ setTimeZone z l, o.zone = z)
    ∧ (l ≠ [] → getTimeZone (setTimeZone z l) = some z) := by
  refine ⟨by simp [setTimeZone], ?_, ?_⟩
  · intro o ho
    simp only [setTimeZone, List.mem_map] at ho
    obtain ⟨a, -, rfl⟩ := ho
    rfl
  · intro hl
    cases l with
    | nil => exact absurd rfl hl
    | cons a r => rfl

/-- Z8: `Track.convertToTimeZone(z)` on a track of well-formed stamps (each with its own label) is `convertToZone`
stamp by stamp, in exact arithmetic; `Track.addSeconds(k)` for a whole `k` moves every stamp by `k` seconds exactly
and leaves every result in zone 0. -/
theorem convertToTimeZone_eq (trunc : α → Int) (htr : TruncZ trunc) (z : Int) (ts : List (Stamp × Int))
    (h : ∀ p ∈ ts, WFs p.1 ∧ 0 ≤ (toAbsMs p.1 : Int) + 3600000 * (z - p.2)) :
    convertToTimeZone (α := α) trunc z (ts.map fun p => ⟨p.1.toZ, p.2⟩)
      = some (ts.map fun p => ⟨(convertToZoneMs p.1 p.2 z).toZ, z⟩) := by
  unfold convertToTimeZone
  rw [List.mapM_map] 
  exact mapM_some_of_forall _ _ ts (fun p hp => convertToZoneG_eq trunc htr p.1 (h p hp).1 p.2 z (h p hp).2)


/-- `Track.addSeconds(k)` for a whole `k` (negative included): every stamp moves by exactly `k` seconds; the new
timestamps are in zone 0 whatever the labels were. -/
theorem addSeconds_whole (trunc : α → Int) (htr : TruncZ trunc) (k : Int) (ts : List (Stamp × Int))
    (h : ∀ p ∈ ts, WFs p.1 ∧ 0 ≤ (toAbsMs p.1 : Int) + k * 1000) :
    addSeconds trunc ((k : Int) : α) (ts.map fun p => ⟨p.1.toZ, p.2⟩)
      = some (ts.map fun p => ⟨(readUnixMs ((toAbsMs p.1 : Int) + k * 1000).toNat).toZ, 0⟩) := by
  unfold addSeconds
  rw [List.mapM_map]
  refine mapM_some_of_forall _ _ ts (fun p hp => ?_)
  simp only [Function.comp, addZ, addSecG_whole trunc htr p.1 (h p hp).1 k (h p hp).2, Option.map_some]

/-- Z9: `getDayOfWeek()` of a well-formed stamp is the day of the week of its proleptic Gregorian day number
(1970-01-01, day 0, is a Thursday = index 3 of `Mon … Sun`), whatever the zone label -/
theorem dayOfWeek_spec (trunc : α → Int) (htr : TruncZ trunc) (s : Stamp) (h : WFs s) (z : Int) :
    dayOfWeekG (α := α) trunc ⟨s.toZ, z⟩ = (civilDays s.d.year s.d.month s.d.day + 3) % 7 := by
  obtain ⟨hd, hms⟩ := h
  have e : (toAbsG s.toZ : α) = ((toAbsSec s.d : Nat) : α) + (s.ms : α) / 1000 := by
    rw [toAbsG_toZ s hd.2.2.2.1]; simp only [toAbsMs, Nat.cast_add, Nat.cast_mul, Nat.cast_ofNat]; ring
  have hf0 : (0 : α) ≤ (s.ms : α) / 1000 := by positivity
  have hf1 : (s.ms : α) / 1000 < 1 := by
    rw [div_lt_one (by norm_num)]; exact_mod_cast hms
  have hdiv := trunc_div_nat trunc htr (toAbsSec s.d) 86400 (by norm_num) _ hf0 hf1
  have hday : toAbsSec s.d / 86400 = dayNo s.d := by
    rw [toAbs_split]; unfold tod
    obtain ⟨-, -, -, -, -, hh, hm, hs⟩ := hd
    omega
  unfold dayOfWeekG
  simp only [e, Int.cast_ofNat]
  simp only [Nat.cast_ofNat] at hdiv
  rw [hdiv, hday, dayNo_civil s.d hd]

end Zone

/-! ### objects: which statement creates, which one writes -/
section Frame
variable {α : Type} [Add α] [Sub α] [Mul α] [Div α] [LT α] [DecidableLT α] [IntCast α]

/-- Z10 (frame): a statement leaves every existing object as it is, except the attribute assignment `set i` (object `i`
only) and `Track.setTimeZone` (the objects of the track only). In particular no conversion, offset, comparison,
copy or `Track.convertToTimeZone / addSeconds` changes an object that exists, its own operand included. -/
theorem step_frame (trunc : α → Int) (σ : State) (op : Op α) (k : Nat) (hk : k < σ.store.length)
    (hw : ¬ op.writes σ k) : (step trunc σ op).1.store[k]? = σ.store[k]? := by
  let P : State × Out α → Prop := fun r => r.1.store[k]? = σ.store[k]?
  cases op with
  | new t z => exact push_store σ _ k hk
  | read x => exact push_store σ _ k hk
  | add i u nb => exact withObj_ind σ i _ P rfl (fun o _ => push_store σ _ k hk)
  | conv i z => exact withObj_ind σ i _ P rfl (fun o _ => push_store σ _ k hk)
  | copy i => exact withObj_ind σ i _ P rfl (fun o _ => push_store σ _ k hk)
  | rt i =>
    refine withObj_ind σ i _ P rfl (fun o _ => ?_)
    simp only [P]
    cases rtZ (α := α) trunc o <;> simp [List.getElem?_append_left hk]
  | set i f v =>
    have hki : i ≠ k := fun e => hw (by simp [Op.writes, e])
    refine withObj_ind σ i _ P rfl (fun o _ => ?_)
    simp [P, hki]
  | abs i => exact withObj_ind σ i _ P rfl (fun o _ => rfl)
  | cmp i j => exact withObj_ind σ i _ P rfl (fun a _ => withObj_ind σ j _ P rfl (fun b _ => rfl))
  | sub i j => exact withObj_ind σ i _ P rfl (fun a _ => withObj_ind σ j _ P rfl (fun b _ => rfl))
  | pz i => exact withObj_ind σ i _ P rfl (fun o _ => rfl)
  | tz i => exact withObj_ind σ i _ P rfl (fun o _ => rfl)
  | dow i => exact withObj_ind σ i _ P rfl (fun o _ => rfl)
  | trk is => simp only [step]; split <;> rfl
  | tget => simp only [step]; split <;> rfl
  | tset z => exact foldl_set_zone_other z σ.track σ.store k (fun h => hw (by simpa [Op.writes] using h))
  | tconv z => exact pushTrack_store σ _ k hk
  | tadd nb => exact pushTrack_store σ _ k hk

/-- Z11 (fresh results): a statement that returns an object appends exactly that object to the store — it is a new
object, not one that existed — and what `readUnixTime(x)` returns does not depend on the state at all. -/
theorem step_fresh (trunc : α → Int) (σ σ' : State) (op : Op α) (o : ObsZ) :
    ((step trunc σ op).2 = .obj o → (step trunc σ op).1.store = σ.store ++ [o])
    ∧ (∀ x, (step trunc σ (.read x)).2 = (step trunc σ' (.read x)).2) := by
  constructor
  · let P : State × Out α → Prop := fun r => r.2 = .obj o → r.1.store = σ.store ++ [o]
    have hn : P (σ, .err "slot") := fun h => by cases h
    have hp : ∀ r : Option ObsZ, P (push (α := α) σ r) := by
      intro r h
      cases r with
      | none => simp [push] at h
      | some a => simp only [push, Out.obj.injEq] at h ⊢; rw [h]
    cases op with
    | new t z => exact hp _
    | read x => exact hp _
    | add i u nb => exact withObj_ind σ i _ P hn (fun _ _ => hp _)
    | conv i z => exact withObj_ind σ i _ P hn (fun _ _ => hp _)
    | copy i => exact withObj_ind σ i _ P hn (fun _ _ => hp _)
    | rt i =>
      refine withObj_ind σ i _ P hn (fun a _ => ?_)
      simp only [P]
      cases rtZ (α := α) trunc a <;> simp
    | set i f v => exact withObj_ind σ i _ P hn (fun _ _ h => by cases h)
    | abs i => exact withObj_ind σ i _ P hn (fun _ _ h => by cases h)
    | cmp i j => exact withObj_ind σ i _ P hn (fun _ _ => withObj_ind σ j _ P hn (fun _ _ h => by cases h))
    | sub i j => exact withObj_ind σ i _ P hn (fun _ _ => withObj_ind σ j _ P hn (fun _ _ h => by cases h))
    | pz i => exact withObj_ind σ i _ P hn (fun _ _ h => by cases h)
    | tz i => exact withObj_ind σ i _ P hn (fun _ _ h => by cases h)
    | dow i => exact withObj_ind σ i _ P hn (fun _ _ h => by cases h)
    | trk is => simp only [step]; split <;> (intro h; cases h)
    | tget => simp only [step]; split <;> (intro h; cases h)
    | tset z => intro h; cases h
    | tconv z => simp only [step, pushTrack]; split <;> (intro h; cases h)
    | tadd nb => simp only [step, pushTrack]; split <;> (intro h; cases h)
  · intro x
    simp only [step, push]
    cases readUnixZ trunc x <;> rfl

/-- Z13 (frame, whole programs): a program without attribute assignments and without `Track.setTimeZone` — any
sequence of constructions, conversions, offsets, round trips, zone conversions, copies, comparisons, prints and
`Track.convertToTimeZone / addSeconds` — leaves every object that existed before it exactly as it was. -/
theorem run_frame (trunc : α → Int) (ops : List (Op α)) (hops : ∀ op ∈ ops, assigns op = false) (σ : State)
    (k : Nat) (hk : k < σ.store.length) : (run trunc σ ops).1.store[k]? = σ.store[k]? := by
  induction ops generalizing σ with
  | nil => rfl
  | cons op rest ih =>
    have h1 : ¬ op.writes σ k := by
      have := hops op (List.mem_cons_self ..)
      cases op <;> simp_all [assigns, Op.writes]
    have hs := step_frame trunc σ op k hk h1
    have hl := step_length trunc σ op
    simp only [run]
    rw [ih (fun o ho => hops o (List.mem_cons_of_mem _ ho)) (step trunc σ op).1 (Nat.lt_of_lt_of_le hk hl), hs]
end Frame

/-- the situation of a memoised reader: whatever statements `ops` are run after `readUnixTime(x)` — assignments to
the attributes of its result included — `readUnixTime(x)` again gives the same stamp -/
theorem read_again {α : Type} [Add α] [Sub α] [Mul α] [Div α] [LT α] [DecidableLT α] [IntCast α]
    (trunc : α → Int) (σ : State) (x : α) (ops : List (Op α)) :
    (step trunc (run trunc (step trunc σ (.read x)).1 ops).1 (.read x)).2 = (step trunc σ (.read x)).2 :=
  (step_fresh trunc _ σ (.read x) ⟨defaultZ, 0⟩).2 x

/-- the zone codes −24 … +24 -/
def zoneCodes : List Int := (List.range 49).map (fun (n : Nat) => ((n : Int) - 24 : Int))

/-- Z12: `printZone()` is `Z` exactly for zone 0, and distinct zones print differently (−24 … +24) -/
theorem printZone_inj : (∀ a ∈ zoneCodes, (printZone a = "Z" ↔ a = 0))
    ∧ ∀ a ∈ zoneCodes, ∀ b ∈ zoneCodes, printZone a = printZone b → a = b := by decide +kernel

/-! ### non-vacuity of the zone statements -/

example : printZone 2 = "+02:00" ∧ printZone (-11) = "-11:00" ∧ printZone 0 = "Z" := by decide +kernel
example : timeWithZone ⟨⟨2018, 6, 15, 13, 21, 46, 0⟩, 2⟩ = "2018-06-15T13:21:46+02:00" := by decide +kernel
/-- 13:21:46 in zone +2 is 12:21:46 in zone +1 (the inputs of the seeded change C03-6); across a year boundary:
00:30 on 1 January in zone 0 is 23:30 on 31 December in zone −1 -/
example : convertToZoneMs ⟨⟨2018, 6, 15, 13, 21, 46⟩, 0⟩ 2 1 = ⟨⟨2018, 6, 15, 12, 21, 46⟩, 0⟩ := by decide +kernel
example : convertToZoneMs ⟨⟨2001, 1, 1, 0, 30, 0⟩, 7⟩ 0 (-1) = ⟨⟨2000, 12, 31, 23, 30, 0⟩, 7⟩ := by decide +kernel
/-- the hypotheses of Z3–Z6 hold of a non-trivial input -/
example : WFs ⟨⟨2018, 6, 15, 13, 21, 46⟩, 0⟩ ∧ 0 ≤ (toAbsMs ⟨⟨2018, 6, 15, 13, 21, 46⟩, 0⟩ : Int) + 3600000 * (1 - 2) := by
  refine ⟨by unfold WFs WF monthDays isLeap; decide, by decide +kernel⟩
/-- 2018-06-15 was a Friday (index 4) -/
example : (civilDays 2018 6 15 + 3) % 7 = 4 := by decide +kernel
/-- a program: read, overwrite the hour of the result, read again — two objects, the second one untouched -/
example : (run (α := Rat) (fun x => ⌊x⌋) State.empty [.read 86399, .set 0 3 0, .read 86399]).1.store
    = [⟨⟨1970, 1, 1, 0, 59, 59, 0⟩, 0⟩, ⟨⟨1970, 1, 1, 23, 59, 59, 0⟩, 0⟩] := by decide +kernel

/-! ## What stands on the other side of a comparison operator (`Model/ObsTimeOperand.lean`) -/

private theorem bool_of_iff {b : Bool} {p : Prop} [Decidable p] (h : b = true ↔ p) : b = decide p := by
  cases b <;> simp_all

/-- O1: with a timestamp of ANY class on either side (`ObsTime` itself or a class derived from it: `isinstance` is all
`__eq__` asks, the order operators ask nothing) the six operators `[<, >, ==, <=, >=, !=]` answer, on well-formed
stamps, what the order of the epoch milliseconds says: the class of neither operand is read. -/
theorem cmpO_inst (ca cb : Nat) (a b : Stamp) (ha : WFs a) (hb : WFs b) :
    cmpO ca a (.inst cb b)
      = [some (decide (toAbsMs a < toAbsMs b)), some (decide (toAbsMs a > toAbsMs b)),
         some (decide (toAbsMs a = toAbsMs b)), some (decide (toAbsMs a ≤ toAbsMs b)),
         some (decide (toAbsMs a ≥ toAbsMs b)), some (decide (toAbsMs a ≠ toAbsMs b))] := by
  have h1 := bool_of_iff (lt_iff a b ha hb)
  have h2 := bool_of_iff (gt_iff a b ha hb)
  have h3 := bool_of_iff (eq_iff a b ha hb)
  have h4 := bool_of_iff (le_iff a b ha hb)
  have h5 := bool_of_iff (ge_iff a b ha hb)
  have h6 : neS a b = decide (toAbsMs a ≠ toAbsMs b) := by
    have := eq_iff b a hb ha
    unfold neS
    cases h : eqS b a <;> simp [h] at this ⊢ <;> omega
  show [some (ltS a b), some (gtS a b), some (eqS a b), some (leS a b), some (geS a b), some (neS a b)] = _
  rw [h1, h2, h3, h4, h5, h6]

/-- O2: an operand that is not a timestamp (`None`, a number, a string, a tuple of the fields …) is equal to no
timestamp and different from every one; the four order operators raise (`AttributeError` of `time.year`). No
hypothesis on the stamp. -/
theorem cmpO_other (c : Nat) (a : Stamp) :
    cmpO c a .other = [none, none, some false, none, none, some true] := rfl

/-- non-vacuity: an instance of the first derived class and a plain `ObsTime` on the same leap-day second; one second apart. -/
example : cmpO 1 ⟨⟨2020, 2, 29, 23, 59, 58⟩, 0⟩ (.inst 0 ⟨⟨2020, 2, 29, 23, 59, 58⟩, 0⟩)
    = [some false, some false, some true, some true, some true, some false] := by decide
example : cmpO 0 ⟨⟨2020, 2, 29, 23, 59, 58⟩, 0⟩ (.inst 2 ⟨⟨2020, 2, 29, 23, 59, 59⟩, 0⟩)
    = [some true, some false, some false, some true, some false, some true] := by decide

end TV.C03
