import TracklibVerif.Model.GraphSharedPath
import TracklibVerif.Lemmas.GraphShared
import TracklibVerif.Lemmas.GraphPathExt
import TracklibVerif.Props.C07
/-! # C07 on families of networks that share their `Node` and `Edge` objects

`sub = net.sub_network(s, cut)` fills a new `Network()` with the parent's own `Edge` and `Node` objects; the routing
attributes (`poids`, `visite`, `antecedent`, `antecedent_edge`) are attributes of the shared `Node` objects, so a
`shortest_path` of one network starts on whatever the last search of ANOTHER network left there, `__resetFlags` rewriting
its own `NODES` only (`Model/GraphShared.lean`, `Model/GraphSharedPath.lean`).

`family_path_as_private`: whatever flags the shared objects carry (∀ `st`: anything any other network of the family wrote, in
any order), `shortest_path(s, t, cut)` of a network returns exactly what it returns on `Node` objects of its own — the pure
`shortest_path` of ITS graph (its current edges and weights), hence everything `Props/C07.lean` proves of that; the value left
on the target is its `shortest_distance`; and the call touches the flags of its own nodes only. `family_backward_as_private`:
the same for `run_routing_backward(t')` called right after a search of the SAME network (any target, any cut-off).
Not covered: `run_routing_backward` called when the flags were last written by another network's search (nothing is stated
about it; the harness neither compares nor judges it). -/
set_option linter.unusedSectionVars false
namespace TV.C07
open TV.Graph TV.GraphExt
variable {W : Type} [LinearOrder W] [Add W] [Zero W] [WalkAdd W]

/-- the backward loop reads `antecedent` / `antecedent_edge` along the chain from its start node only; the chain of a
labelling that satisfies the predecessor invariant stays inside the network's own nodes -/
theorem backAuxT_agree (net : Net W) (geo : GeoT) (order : List Nat) (hends : ∀ e ∈ net.edges, e.src ∈ order ∧ e.tgt ∈ order)
    (s : Nat) (a b : St W) (rk : Nat → Nat) (K : Nat) (hp : PInv net s b rk K) (hag : AgreeOn order a b) :
    ∀ (f v : Nat) (nodes : List Nat) (track : Seq.Track), v ∈ order →
      backAuxT net geo a f v nodes track = backAuxT net geo b f v nodes track := by
  intro f
  induction f with
  | zero => intro v nodes track _; rfl
  | succ f ih =>
    intro v nodes track hv
    unfold backAuxT
    rw [(hag v hv).2.2]
    cases hpv : b.pred v with
    | none => rfl
    | some q =>
      obtain ⟨p, eid⟩ := q
      have hpo : p ∈ order := by
        obtain ⟨_, _, e', he', _, _, _⟩ := hp.p2 v p eid hpv
        simp only [nextEdges, List.mem_filter, Bool.or_eq_true, Bool.and_eq_true, decide_eq_true_eq] at he'
        rcases he'.2 with ⟨_, h2⟩ | ⟨_, h2⟩
        · rw [← h2]; exact (hends e' he'.1).1
        · rw [← h2]; exact (hends e' he'.1).2
      simp only []
      cases findEdge net eid with
      | none => rfl
      | some e => exact ih p _ _ hpo

theorem runBackwardT_agree (net : Net W) (geo : GeoT) (order : List Nat) (hends : ∀ e ∈ net.edges, e.src ∈ order ∧ e.tgt ∈ order)
    (s : Nat) (a b : St W) (hg : Good net s b) (hag : AgreeOn order a b) (t : Nat) (ht : t ∈ order) :
    runBackwardT net geo a t = runBackwardT net geo b t := by
  obtain ⟨_, rk, K, hp⟩ := hg
  unfold runBackwardT
  rw [(hag t ht).2.2]
  cases b.pred t with
  | none => rfl
  | some q => exact backAuxT_agree net geo order hends s a b rk K hp hag _ t _ _ ht

/-- **`run_routing_backward` right after a search of the same network, on shared `Node` objects**: whatever flags `st` the
objects carried before the search (written by any network of the family), `run_routing_forward(s, tgt, cut)` followed by
`run_routing_backward(t')` returns what it returns on a fresh network with nodes of its own. -/
theorem family_backward_as_private (net : Net W) (hnet : WFNet net) (geo : GeoT) (order : List Nat)
    (hnodes : ∀ v ∈ order, v < net.n) (hends : ∀ e ∈ net.edges, e.src ∈ order ∧ e.tgt ∈ order) (st : St W)
    (s : Nat) (hs : s ∈ order) (tgt : Option Nat) (cut : Option W) (t' : Nat) (ht : t' ∈ order) :
    backwardAfterSh net geo order st s tgt cut t' = runBackwardT net geo (runForward net s tgt cut).1 t' := by
  obtain ⟨_, hag, _⟩ := routeOnPD_obs net hnet order hnodes hends st s hs tgt cut
  have hg : Good net s (runForward net s tgt cut).1 :=
    forward_good net hnet s tgt cut net.n (St.init s) [] (good_init net s (hnodes s hs))
  exact runBackwardT_agree net geo order hends s _ _ hg hag t' ht

/-- **`shortest_path` on a network of a family = `shortest_path` on that network alone.** For ANY flags `st` found on the
shared `Node` objects: the track returned is the one the pure model returns for this network's graph
(`shortestPathT`: `path_optimal_track`, `geometry_chained_track`, `path_cut_sound` apply), the label left on the target is
its `shortest_distance`, and the flags of the nodes the network does not hold are left as they were. -/
theorem family_path_as_private (net : Net W) (hnet : WFNet net) (geo : GeoT) (order : List Nat)
    (hnodes : ∀ v ∈ order, v < net.n) (hends : ∀ e ∈ net.edges, e.src ∈ order ∧ e.tgt ∈ order) (st : St W)
    (s t : Nat) (hs : s ∈ order) (ht : t ∈ order) (cut : Option W) :
    (shortestPathSh net geo order st s t cut).1 = shortestPathT net geo s t cut ∧
    (shortestPathSh net geo order st s t cut).2.d t = shortestDistance net s t cut ∧
    SameOutside order (shortestPathSh net geo order st s t cut).2 st := by
  obtain ⟨_, hag, hout⟩ := routeOnPD_obs net hnet order hnodes hends st s hs (some t) cut
  refine ⟨family_backward_as_private net hnet geo order hnodes hends st s hs (some t) cut t ht, ?_, hout⟩
  exact (hag t ht).1

/-- so, T1/T2/T4 for a network of a family, whatever the other networks were asked before: never diverges; `None` iff `t` is
unreachable in THIS network or `t = s`; otherwise the chain of a route of this network whose weights sum to its true
shortest distance -/
theorem family_path_optimal (net : Net W) (hnet : WFNet net) (hu : UniqueIds net) (geo : GeoT) (order : List Nat)
    (hnodes : ∀ v ∈ order, v < net.n) (hends : ∀ e ∈ net.edges, e.src ∈ order ∧ e.tgt ∈ order) (st : St W)
    (s t : Nat) (hs : s ∈ order) (ht : t ∈ order) :
    (shortestPathSh net geo order st s t none).1 ≠ .diverge ∧
    ((shortestPathSh net geo order st s t none).1 = .none ↔ (¬ Reachable net s t ∨ t = s)) ∧
    (∀ nodes trk, (shortestPathSh net geo order st s t none).1 = .path nodes trk →
      ∃ l g g' y, nodes = l ++ [t] ∧ trk = ⟨g ++ [geo.pos t], []⟩ ∧ Route net geo.toGeo s l g g' t y ∧ IsDist net s t y) := by
  rw [(family_path_as_private net hnet geo order hnodes hends st s t hs ht none).1]
  exact path_optimal_track net hnet hu geo s t (hnodes s hs)

/-! ### any program over a family -/

/-- the networks of the family are well-formed sessions (related to a family with private `Node` objects) -/
def FamOK (F : Fam W) : Prop := ∃ nets, FamRel F nets

theorem execFamP_ok (geo : GeoT) (F : Fam W) (h : FamOK F) (op : FamPOp W) : FamOK (execFamP geo F op).1 := by
  obtain ⟨nets, hrel⟩ := h
  cases op with
  | fam op => exact ⟨_, (execFam_step F nets hrel op).2.1⟩
  | path k s t cut =>
    simp only [execFamP]
    split
    · exact ⟨nets, hrel⟩
    · split
      · exact ⟨nets, hrel⟩
      · exact ⟨nets, hrel⟩

theorem famPAfter_ok (geo : GeoT) (ops : List (FamPOp W)) : ∀ (F : Fam W), FamOK F → FamOK (famPAfter geo F ops) := by
  induction ops with
  | nil => intro F h; exact h
  | cons op rest ih => intro F h; exact ih _ (execFamP_ok geo F h op)

/-- **ANY PROGRAM over a family**: networks created, filled, searched (distances, tables, `prepare`), extracted with
`sub_network` (the extracts kept and used, extracts of extracts), weights of shared `Edge` objects assigned, and
`shortest_path` asked on any of them in any order. At any point, `nets[k].shortest_path(s, t, cut)` for two nodes of that
network returns the pure `shortest_path` of network `k`'s OWN current graph, and leaves its `shortest_distance` on the target
— whatever the other networks of the family were asked before (their searches wrote `antecedent` / `antecedent_edge` on the
shared `Node` objects). -/
theorem family_program_path_as_private (geo : GeoT) (n : Nat) (ops : List (FamPOp W)) (k s t : Nat) (cut : Option W)
    (σ : Graph.Sess W) (hk : (famPAfter geo (Fam.new n) ops).nets[k]? = some σ) (hs : s ∈ σ.order) (ht : t ∈ σ.order) :
    (execFamP geo (famPAfter geo (Fam.new n) ops) (.path k s t cut)).2 =
      .path (shortestPathT σ.net geo s t cut) (shortestDistance σ.net s t cut) := by
  obtain ⟨nets, hrel⟩ := famPAfter_ok geo ops (Fam.new n) ⟨[], famRel_new n⟩
  generalize famPAfter geo (Fam.new n) ops = F at hk hrel
  have hnone : nets[k]? ≠ none := by
    intro hq; rw [← famRel_none hrel k] at hq; rw [hq] at hk; cases hk
  cases hk' : nets[k]? with
  | none => exact absurd hk' hnone
  | some σ' =>
    obtain ⟨⟨c1, c2, _, _⟩, hok⟩ := hrel.2 k σ σ' hk hk'
    have hwf : WFNet σ.net := by rw [c1]; exact hok.wf
    have hnodes : ∀ v ∈ σ.order, v < σ.net.n := by rw [c1, c2]; exact hok.nodes
    have hends : ∀ e ∈ σ.net.edges, e.src ∈ σ.order ∧ e.tgt ∈ σ.order := by rw [c1, c2]; exact hok.ends
    obtain ⟨a, b, _⟩ := family_path_as_private σ.net hwf geo σ.order hnodes hends F.flags s t hs ht cut
    have hc : (σ.order.contains s && σ.order.contains t) = true := by simp [hs, ht]
    simp only [execFamP, hk, hc, if_true]
    rw [a, b]

/-- non-vacuity: the parent `demo4` (`Props/C07.lean`) with all its nodes; the shared objects carry the flags that a search
of an extract from node 2 left (labels and antecedents that mean nothing for the parent) -/
def staleFlags : St Int :=
  { d := fun v => if v = 2 then some 0 else if v = 1 then some 7 else none, vis := fun v => v = 2 || v = 1,
    pred := fun v => if v = 1 then some (2, 1) else none }
example : (shortestPathSh demo4 demoT [0, 1, 2] staleFlags 0 2 none).1 = shortestPathT demo4 demoT 0 2 none := by decide +kernel
example : (shortestPathSh demo4 demoT [0, 1, 2] staleFlags 0 2 none).1 =
    .path [0, 1, 2] ⟨[ob 10, ob 10, ob 22, ob 21, ob 2], []⟩ := by decide +kernel

/-- the track of a `shortest_path` output -/
def trackOf : FamPOut Int → Option BackT
  | .path b _ => some b
  | _ => none

/-- a program: `A = Network()`, two two-way edges 0 –1– 1 –1– 2 (the second stored 2→1), `B = A.sub_network(2, cut=1)` (holds edge 1 and the nodes 1, 2),
a path on `B` from 2 to 1 (writes antecedents on the shared nodes 1 and 2), then a path on `A` from 0 to 2, then on `B` again -/
def famProg : List (FamPOp Int) :=
  [.fam .create, .fam (.on 0 (.addEdge ⟨0, 0, 1, 1, 0⟩)), .fam (.on 0 (.addEdge ⟨1, 2, 1, 1, 0⟩)), .fam (.extract 0 2 (some 1)),
   .path 1 2 1 none, .path 0 0 2 none, .path 1 1 2 none, .path 1 0 2 none]
example : (runFamP demoT2 (Fam.new 3) famProg).map trackOf =
    [none, none, none, none,
     some (.path [2, 1] ⟨[ob 2, ob 21, ob 1], []⟩),
     some (.path [0, 1, 2] ⟨[ob 0, ob 10, ob 10, ob 1, ob 21, ob 2], []⟩),
     some (.path [1, 2] ⟨[ob 1, ob 21, ob 2], []⟩),
     none] := by decide +kernel
end TV.C07
