import TracklibVerif.Lemmas.MapMatchSound
import TracklibVerif.Lemmas.MapMatchViterbi
import TracklibVerif.Lemmas.MapMatchCompose
import TracklibVerif.Lemmas.MapMatchZ
import TracklibVerif.Lemmas.MapMatchTotal
import TracklibVerif.Lemmas.MapMatchIndexSound
import TracklibVerif.Lemmas.MapMatchTimes
/-! # C10 — map-matched positions lie on a real edge within the search radius

Property theorems only (helpers in `Lemmas/MapMatch.lean`, `Lemmas/MapMatchSound.lean`, `Lemmas/MapMatchNet.lean`,
`Lemmas/MapMatchCompose.lean`; they rest on the C20 theorems), over any linearly ordered field and a `sqrt` with `SqrtSpec`
(exact arithmetic: IEEE rounding is outside the theorems and sampled by the transfer check).

Part I (T1–T3) is about the core `Model/MapMatch.lean` of `mapping.__mapOnNetwork`, where the candidate edge numbers
returned by the spatial index and the state indices decoded by the HMM are PARAMETERS: the theorems hold for every index
answer and every decoder. `IsFlag pos s` is the state `(pos, -1, -1, -1)`; `Sound … pos s` says: `s.edge` is an existing edge
number, `s.p` lies on a segment of that edge's geometry, at a distance `d < radius` of `pos`, and (for an `abs_curv` column
made by `computeAbsCurv`) `s.d0 + s.d1` is the last abscissa.

Part II (T4–T12) is about `Model/MapMatchNet.lean`: the construction path (`Network.addNode` / `addEdge`, `computeAbsCurv` on
the edge geometries, the index attached before or after the last edges), the candidates taken from the network's own index
(the model of C08) with the search unit as coded, and the front end `mapOnNetwork` (bare track / collection, the arguments that
are never read, the columns created on the track). There the statement is about the values a user reads:
`Matched … (netEdges net) pos s` says that `s.edge` is an edge NUMBER of the network and `SoundOn` the geometry stored in the
network under that number: `s.p` on one of its segments, strictly within the radius of `pos`, `s.d0` / `s.d1` the lengths of the
two parts of that geometry on either side of `s.p` (distances to the two end nodes measured along the edge), adding up to its
length `polyLength`. Part III (T13–T14) instantiates the two parameters with the models of C09 and C08 through their registered
theorems.

Part IV (T15–T21, T19b) is about `Model/MapMatchZ.lean`: the same code on networks and tracks WITH ALTITUDES (`LINESTRING(x y z, …)`
read by `NetworkReader`, hand-built networks and GPS tracks with `ENUCoords(x, y, z)`). **Which length the property means.** The
code measures an edge PLANIMETRICALLY: `computeAbsCurv` sums `distance2DTo` (T15), the assigned point is `ENUCoords(x, y, 0)` on
the planimetric geometry and `__distToNode` completes the abscissas with `distance2DTo`; so "distances to the edge's two end
nodes measured along the edge that add up to the edge length" holds with the planimetric length `polyLength3` of the stored
geometry (T17, T19, T20) — NOT with `Track.length()` / `Edge.weight`, which is the 3D length and is larger on every edge that
is not level (T16). No altitude — of a vertex, of a node, of an observation — influences a candidate, an assigned point, a
distance or an exception (T18); the flag state carries the observation's own position, altitude included; the network stores
geometries with their altitudes as given (T20).

Exceptions (`ZeroDivisionError` of the projection on a vertical segment, D16; `IndexError` on a candidate edge with fewer than
two vertices): Parts I–IV are about a call that returns; Part V (T22–T25) says when it does: on a network none of
whose edge geometries has a kept vertical segment and each of which has at least two vertices (`GoodGeom`; a candidate edge
all of whose vertices coincide is an ordinary candidate since the `fix:` commit 563eeba, T22b), for every answer of the
index made of existing edge numbers and every decoder answering in-range indices, nothing is raised.

Part VI (T26–T27) is about the TIME STAMPS: the model's observations carry an opaque stamp (`Obs.t`), and every theorem above is
for every list of observations — chronological or not, with equal stamps or not. T26/T27 say what that means for the code: it
neither requires nor establishes a chronological order; the stamps are never read, the list of observations is handed back as
it was. -/
namespace TV.C10
open TV.Proj TV.MapMatch
variable {α : Type} [Field α] [LinearOrder α] [IsStrictOrderedRing α]

/-- T1 `candidate_sound`: every state of `STATES[i]` is the flag state or a sound candidate, and `STATES[i]` is never
empty (for every list of candidate edge numbers the index may return, `None` included). -/
theorem candidate_sound {sqrt : α → α} (hs : SqrtSpec sqrt) (eps radius : α) (edges : List (Edge α)) (pos : α × α)
    (cand : Option (List Nat)) (l : List (State α)) (h : obsStates sqrt eps radius edges pos cand = .ok l) :
    l ≠ [] ∧ ∀ s ∈ l, IsFlag pos s ∨ Sound sqrt radius edges pos s := by
  have hflag : IsFlag pos (flag pos) := ⟨rfl, rfl, rfl, rfl⟩
  unfold obsStates at h
  cases cand with
  | none =>
    simp only at h; injection h with h; subst h
    exact ⟨by simp, fun s hm => by simp only [List.mem_singleton] at hm; subst hm; exact Or.inl hflag⟩
  | some E =>
    simp only at h
    cases hl : candLoop sqrt eps radius edges pos E [] with
    | error e => rw [hl] at h; cases h
    | ok r =>
      rw [hl] at h
      have snd := candLoop_sound hs eps radius edges pos E [] r (fun s hm => by simp at hm) hl
      cases r with
      | nil =>
        simp only at h; injection h with h; subst h
        exact ⟨by simp, fun s hm => by simp only [List.mem_singleton] at hm; subst hm; exact Or.inl hflag⟩
      | cons s ss =>
        simp only at h; injection h with h; subst h
        exact ⟨by simp, fun s' hm => Or.inr (snd s' hm)⟩

/-- T1b `all_states_sound`: `STATES` has one non-empty list per observation, in order, each made of the flag state or
of sound candidates for that observation's position. -/
theorem all_states_sound {sqrt : α → α} (hs : SqrtSpec sqrt) (eps radius : α) (edges : List (Edge α)) :
    ∀ (track : List (Obs α)) (cands : List (Option (List Nat))) (ss : List (List (State α))),
      allStates sqrt eps radius edges track cands = .ok ss →
      ss.length = track.length ∧
      ∀ (k : Nat) (o : Obs α) (l : List (State α)), track[k]? = some o → ss[k]? = some l →
        l ≠ [] ∧ ∀ s ∈ l, IsFlag o.pos s ∨ Sound sqrt radius edges o.pos s := by
  intro track
  induction track with
  | nil =>
    intro cands ss h
    simp only [allStates] at h; injection h with h; subst h
    exact ⟨rfl, fun k o l hk => by simp at hk⟩
  | cons o os ih =>
    intro cands ss h
    rw [allStates] at h
    cases h1 : obsStates sqrt eps radius edges o.pos (cands.head?.getD none) with
    | error e => rw [h1] at h; cases h
    | ok s0 =>
      rw [h1] at h
      simp only at h
      cases h2 : allStates sqrt eps radius edges os cands.tail with
      | error e => rw [h2] at h; cases h
      | ok rest =>
        rw [h2] at h
        injection h with h; subst h
        obtain ⟨len, f⟩ := ih _ _ h2
        refine ⟨by simp [len], ?_⟩
        intro k o' l hk hl
        cases k with
        | zero =>
          simp only [List.getElem?_cons_zero, Option.some.injEq] at hk hl
          subst hk hl
          exact candidate_sound hs eps radius edges _ _ _ h1
        | succ k =>
          simp only [List.getElem?_cons_succ] at hk hl
          exact f k o' l hk hl

/-- T2 `inferred_is_candidate`: when `mapOnNetwork` returns — whatever the decoder — the `hmm_inference` column has
one entry per observation, entry `k` is one of `STATES[k]`, hence every observation is flagged or assigned a
sound candidate: a point on the geometry of an existing edge, strictly within the search radius of the observed
position, with distances to the edge's two end nodes that add up to the edge length. -/
theorem inferred_is_candidate {sqrt : α → α} (hs : SqrtSpec sqrt) (eps radius : α) (edges : List (Edge α)) (mode : Nat)
    (decode : List (List (State α)) → List Nat) (track : List (Obs α)) (names : List String)
    (cands : List (Option (List Nat))) (res : Result α)
    (h : mapOnNetwork sqrt eps radius edges mode decode track names cands = .ok res) :
    res.inference.length = track.length ∧
    ∀ (k : Nat) (o : Obs α) (st : State α), track[k]? = some o → res.inference[k]? = some st →
      (∃ l, res.states[k]? = some l ∧ st ∈ l) ∧ (IsFlag o.pos st ∨ Sound sqrt radius edges o.pos st) := by
  unfold mapOnNetwork at h
  cases h1 : allStates sqrt eps radius edges track cands with
  | error e => rw [h1] at h; cases h
  | ok states =>
    rw [h1] at h
    simp only at h
    cases h2 : inferAll states (decode states) with
    | error e => rw [h2] at h; cases h
    | ok inf =>
      rw [h2] at h
      injection h with h; subst h
      obtain ⟨len, f⟩ := all_states_sound hs eps radius edges track cands states h1
      obtain ⟨len2, g⟩ := inferAll_mem states _ _ h2
      refine ⟨by simp only; rw [len2, len], ?_⟩
      intro k o st hk hst
      obtain ⟨l, hl, hm⟩ := g k st hst
      exact ⟨⟨l, hl, hm⟩, (f k o l hk hl).2 st hm⟩

/-- T3 `track_preserved`: `mapOnNetwork` (which calls the decoder with mode 1, and more generally any mode outside
{3,4,5}) returns the same observations in the same order with unchanged positions and timestamps; the only
change to the track is the creation of the columns `obs_noise`, `hmm_inference`, `hmm_cost` (each only if
absent), every existing feature name being kept. -/
theorem track_preserved (sqrt : α → α) (eps radius : α) (edges : List (Edge α)) (mode : Nat)
    (hmode : writesPositions mode = false)
    (decode : List (List (State α)) → List Nat) (track : List (Obs α)) (names : List String)
    (cands : List (Option (List Nat))) (res : Result α)
    (h : mapOnNetwork sqrt eps radius edges mode decode track names cands = .ok res) :
    res.track = track ∧
    res.features = addName (addName (addName names "obs_noise") "hmm_inference") "hmm_cost" ∧
    (∀ n ∈ names, n ∈ res.features) := by
  have keep : ∀ (ns : List String) (m n : String), n ∈ ns → n ∈ addName ns m := by
    intro ns m n hn
    unfold addName; split
    · exact hn
    · exact List.mem_append_left _ hn
  unfold mapOnNetwork at h
  cases h1 : allStates sqrt eps radius edges track cands with
  | error e => rw [h1] at h; cases h
  | ok states =>
    rw [h1] at h
    simp only at h
    cases h2 : inferAll states (decode states) with
    | error e => rw [h2] at h; cases h
    | ok inf =>
      rw [h2] at h
      injection h with h; subst h
      exact ⟨newPositions_id mode hmode track inf, rfl, fun n hn => keep _ _ _ (keep _ _ _ (keep _ _ _ hn))⟩

/-- the mode used by `mapOnNetwork` (`MODE_OBS_AS_2D_POSITIONS = 1`) does not write positions -/
example : writesPositions 1 = false := by decide

/-- T3b `timestamps_preserved`: in every mode (also those that overwrite positions) the number of observations and
their timestamps are unchanged. -/
theorem timestamps_preserved (sqrt : α → α) (eps radius : α) (edges : List (Edge α)) (mode : Nat)
    (decode : List (List (State α)) → List Nat) (track : List (Obs α)) (names : List String)
    (cands : List (Option (List Nat))) (res : Result α)
    (h : mapOnNetwork sqrt eps radius edges mode decode track names cands = .ok res) :
    res.track.map (·.t) = track.map (·.t) := by
  unfold mapOnNetwork at h
  cases h1 : allStates sqrt eps radius edges track cands with
  | error e => rw [h1] at h; cases h
  | ok states =>
    rw [h1] at h
    simp only at h
    cases h2 : inferAll states (decode states) with
    | error e => rw [h2] at h; cases h
    | ok inf =>
      rw [h2] at h
      injection h with h; subst h
      exact newPositions_times mode track inf

/-- T2b `decoder_in_range_total`: a decoder that answers, for every epoch, an index inside that epoch's candidate list
(what `HMM.estimate` does: `argmin` of a non-empty row, then back-pointers initialised to 0 into non-empty rows —
rows are non-empty by T1) never makes the backward step fail. -/
theorem decoder_in_range_total (ss : List (List (State α))) (idx : List Nat)
    (h : ∀ (k : Nat) (l : List (State α)), ss[k]? = some l → idx[k]?.getD 0 < l.length) :
    ∃ inf, inferAll ss idx = .ok inf := inferAll_total ss idx h

/-- T2c `viterbi_decoder_total`: with the decoder of C09 (`Model/Viterbi`: first-minimum scan with `best_ant = 0`,
back-pointers, path from any valid last state — `np.argmin` of the non-empty last row), over ANY cost tables whose
row sizes are the sizes of the candidate lists, the backward step of `mapOnNetwork` never fails: the candidate lists
are non-empty (T1), so every decoded index is in range. No assumption on the costs. -/
theorem viterbi_decoder_total {β : Type} [LinearOrder β] (ss : List (List (State α)))
    (t : TV.Viterbi.Tables β) (hpos : ∀ k, 0 < t.n k)
    (hn : ∀ (k : Nat) (l : List (State α)), ss[k]? = some l → t.n k = l.length)
    (last : Nat) (hl : last < t.n (ss.length - 1)) :
    ∃ inf, inferAll ss ((List.range ss.length).map (TV.Viterbi.back t (ss.length - 1) last)) = .ok inf := by
  apply inferAll_total
  intro k l hk
  have hk' : k < ss.length := by
    rcases Nat.lt_or_ge k ss.length with h | h
    · exact h
    · rw [List.getElem?_eq_none h] at hk; cases hk
  have e : ((List.range ss.length).map (TV.Viterbi.back t (ss.length - 1) last))[k]? =
      some (TV.Viterbi.back t (ss.length - 1) last k) := by
    simp [hk']
  rw [e, Option.getD_some, ← hn k l hk]
  exact TV.Viterbi.back_in_range t hpos (ss.length - 1) last hl k (by omega)

/-! Non-vacuity, evaluated on the model over `Rat`: edge 0 = `(0,0)-(8,0)` (horizontal), edge 1 = `(8,0)-(8,6)`
(vertical); observation `(3,4)` with radius 5 → candidate on edge 0 at `(3,0)`, distances 3 and 5 (length 8). -/
def sqTable : Rat → Rat := fun v =>
  if v = 64 then 8 else if v = 9 then 3 else if v = 25 then 5 else if v = 36 then 6 else if v = 16 then 4 else 0

example : (match obsStates sqTable 1 5 [mkEdge sqTable [(0, 0), (8, 0)], mkEdge sqTable [(8, 0), (8, 6)]] (3, 4) (some [0]) with
    | .ok [s] => decide (s.p = (3, 0) ∧ s.edge = 0 ∧ s.d0 = 3 ∧ s.d1 = 5)
    | _ => false) = true := by decide +kernel
/-- no candidate within the radius → the flag state -/
example : (match obsStates sqTable 1 2 [mkEdge sqTable [(0, 0), (8, 0)]] (3, 4) (some [0]) with
    | .ok [s] => decide (s.p = (3, 4) ∧ s.edge = -1 ∧ s.d0 = -1 ∧ s.d1 = -1)
    | _ => false) = true := by decide +kernel

/-! ## Part II — construction path, the network's own index, front end (`Model/MapMatchNet`) -/

/-- T4 `abs_curv_prefix_lengths`: `computeAbsCurv` on an edge geometry: `abs_curv[i]` is the length of the geometry up to vertex
`i` (sum of the 2D lengths of the first `i` segments), the last value is the length of the edge. -/
theorem abs_curv_prefix_lengths (sqrt : α → α) (g : List (α × α)) :
    (∀ i, i < g.length → (absCurv sqrt g)[i]? = some (polyLength sqrt (g.take (i + 1)))) ∧
    (g ≠ [] → (absCurv sqrt g)[g.length - 1]? = some (polyLength sqrt g)) :=
  ⟨fun i hi => absCurv_take sqrt g i hi, fun hg => absCurv_last sqrt g hg⟩

/-- T5 `dist_to_nodes_along_edge`: on an edge whose `abs_curv` column is the computed one, for a point `p` of segment `i`,
`__distToNode(…, 0)` is the length of the geometry from its first vertex to `p` and `__distToNode(…, 1)` the length from `p`
to its last vertex (both along the polyline), and they add up to the length of the edge. -/
theorem dist_to_nodes_along_edge {sqrt : α → α} (hs : SqrtSpec sqrt) (e : Edge α) (p : α × α) (i : Nat) (a b : α)
    (p1 p2 : α × α) (g1 : e.geom[i]? = some p1) (g2 : e.geom[i + 1]? = some p2)
    (hon : OnSeg p1.1 p1.2 p2.1 p2.2 p.1 p.2)
    (ha : distToNode sqrt e p i 0 = some a) (hb : distToNode sqrt e p i 1 = some b)
    (hc : e.curv = absCurv sqrt e.geom) :
    a = polyLength sqrt (e.geom.take (i + 1)) + dist2D sqrt p1 p ∧
    b = polyLength sqrt (e.geom.drop (i + 1)) + dist2D sqrt p2 p ∧
    a + b = polyLength sqrt e.geom := by
  obtain ⟨va, vb⟩ := distToNode_values sqrt e p i a b p1 p2 g1 g2 ha hb hc
  obtain ⟨len, hlen, hsum⟩ := distToNode_sum hs e p i a b p1 p2 g1 g2 hon ha hb hc
  have hne : e.geom ≠ [] := by intro hnil; rw [hnil] at g1; simp at g1
  rw [hc, absCurv_last sqrt e.geom hne] at hlen
  injection hlen with hlen
  exact ⟨va, vb, by rw [hsum, hlen]⟩

/-- T6 `addEdge_keeps_geometry`: one `Network.addEdge(edge, source, target)` that returns: the edge is found under its id with
its geometry and `abs_curv` column AS GIVEN (no vertex moved, nothing recomputed) and the ids of its two end nodes; every
edge stored under another id is untouched; every node already registered keeps its coordinates (a `Node` with a known id is
ignored, whatever its coordinates — node ids shared by edges whose end vertices differ leave all geometries alone). -/
theorem addEdge_keeps_geometry (fl : α → Int) (net net' : Net α) (e : EdgeIn α) (s t : Node α)
    (h : addEdge fl net e s t = .ok net') :
    lookupEdge net'.edges e.id = some ⟨e, s.id, t.id⟩ ∧
    (∀ i, i ≠ e.id → lookupEdge net'.edges i = lookupEdge net.edges i) ∧
    (∀ i m, lookupNode net i = some m → lookupNode net' i = some m) :=
  addEdge_frame fl net net' e s t h

/-- T7 `built_network_edges`: a network built by `addEdge` calls with pairwise different edge ids — the spatial index being
attached after all of them or before the last `late` ones — has, under edge NUMBER `n`, the geometry and the `abs_curv`
column of the `n`-th edge handed over, unchanged. (What `hmm_inference` refers to by number is what was given.) -/
theorem built_network_edges (fl : α → Int) (es : List (EdgeIn α × Node α × Node α)) (late : Nat) (res : Option (α × α))
    (margin : α) (net : Net α) (hnd : (es.map (fun x => x.1.id)).Nodup) (h : buildNet fl es late res margin = .ok net) :
    netEdges net = es.map (fun x => (⟨x.1.geom, x.1.curv⟩ : Edge α)) :=
  buildNet_edges fl es late res margin net hnd h

/-- T8 `states_flag_or_matched`: on edges with computed `abs_curv` columns, `STATES[i]` (any answer of the index) is the flag
state alone, or a non-empty list of matched states: existing edge number, point on a segment of that edge's geometry,
strictly within the radius, along-edge distances to the two ends that add up to the edge length. -/
theorem states_flag_or_matched {sqrt : α → α} (hs : SqrtSpec sqrt) (eps radius : α) (edges : List (Edge α))
    (hcurv : ∀ eg ∈ edges, eg.curv = absCurv sqrt eg.geom) (pos : α × α)
    (cand : Option (List Nat)) (l : List (State α)) (h : obsStates sqrt eps radius edges pos cand = .ok l) :
    l = [flag pos] ∨ (l ≠ [] ∧ ∀ s ∈ l, Matched sqrt radius edges pos s) :=
  obsStates_matched hs eps radius edges hcurv pos cand l h

/-- T9 `flag_iff_out_of_reach`: when `STATES[i]` is returned for the candidate edge numbers `E`, it contains a flag state
(edge number -1: "unmatched") if and only if NO candidate edge projects strictly within the search radius — an observation
is flagged exactly when it has no candidate in reach, and a matched state never carries the number -1. -/
theorem flag_iff_out_of_reach (sqrt : α → α) (eps radius : α) (edges : List (Edge α)) (pos : α × α) (E : List Nat)
    (l : List (State α)) (h : obsStates sqrt eps radius edges pos (some E) = .ok l) :
    (∃ s ∈ l, s.edge = -1) ↔
      ∀ (n : Nat) (eg : Edge α) (r : (α × α) × α × Nat), n ∈ E → edges[n]? = some eg →
        projOnTrack sqrt eps eg.geom pos.1 pos.2 = .ok r → ¬ r.2.1 < radius :=
  obsStates_flag_iff sqrt eps radius edges pos E l h

/-- T10 `front_end_sound`: `mapOnNetwork(tracks, network, …)` — a bare track or a collection, any decoder, any spatial index
attached to the network — on a network whose edge geometries carry computed `abs_curv` columns: for the `j`-th track that was
processed, the track has the same observations (count, order, positions, timestamps), `hmm_inference` has one entry per
observation, entry `k` is one of `STATES[k]` and is the flag state `(position, -1, -1, -1)` or a matched state: the number of
an existing edge, a point on the geometry stored under that number, strictly within `search_radius` of the observed position,
with distances to the two end nodes measured along that geometry that add up to its length. -/
theorem front_end_sound {sqrt : α → α} (hs : SqrtSpec sqrt) (fl : α → Int) (eps : α) (net : Net α)
    (hcurv : ∀ eg ∈ netEdges net, eg.curv = absCurv sqrt eg.geom) (dec : Decoder α) (a : Args α) (tracks : TracksArg α)
    (j : Nat) (r : ResultN α) (hr : (mapOnNetworkFront sqrt fl eps net dec a tracks).1[j]? = some r) :
    ∃ t, tracks.toList[j]? = some t ∧ r.track.obs = t.obs ∧ r.inference.length = t.obs.length ∧
      ∀ (k : Nat) (o : Obs α) (st : State α), t.obs[k]? = some o → r.inference[k]? = some st →
        (∃ l, r.states[k]? = some l ∧ st ∈ l) ∧
        (st = flag o.pos ∨ Matched sqrt a.searchRadius (netEdges net) o.pos st) := by
  obtain ⟨t, ht, hm⟩ := matchLoop_spec sqrt fl eps net dec a tracks.toList j r hr
  obtain ⟨h1, h2, h3, _, _⟩ := matchOne_spec hs fl eps net hcurv dec a t r hm
  exact ⟨t, ht, h1, h2, h3⟩

/-- T11 `front_end_tracks_independent`: the result of the `j`-th track of a call is the result of `__mapOnNetwork` on that track
alone (`STATES` is rebuilt for each track: nothing is carried over from the other tracks of the collection); a bare `Track` is
handled as the collection of that one track; `transition_cost`, `debug`, `verbose` do not influence any result; and when the call
raises nothing, every track of the collection has been processed. -/
theorem front_end_tracks_independent (sqrt : α → α) (fl : α → Int) (eps : α) (net : Net α) (dec : Decoder α) (a : Args α) :
    (∀ (tracks : TracksArg α) (j : Nat) (r : ResultN α), (mapOnNetworkFront sqrt fl eps net dec a tracks).1[j]? = some r →
      ∃ t, tracks.toList[j]? = some t ∧ matchOne sqrt fl eps net dec a t = .ok r) ∧
    (∀ t, mapOnNetworkFront sqrt fl eps net dec a (.one t) = mapOnNetworkFront sqrt fl eps net dec a (.many [t])) ∧
    (∀ (a' : Args α) (tracks : TracksArg α), a'.gpsNoise = a.gpsNoise → a'.searchRadius = a.searchRadius →
      mapOnNetworkFront sqrt fl eps net dec a' tracks = mapOnNetworkFront sqrt fl eps net dec a tracks) ∧
    (∀ (tracks : TracksArg α), (mapOnNetworkFront sqrt fl eps net dec a tracks).2 = none →
      (mapOnNetworkFront sqrt fl eps net dec a tracks).1.length = tracks.toList.length) := by
  refine ⟨fun tracks j r h => matchLoop_spec sqrt fl eps net dec a tracks.toList j r h, fun t => rfl, ?_,
    fun tracks h => matchLoop_complete sqrt fl eps net dec a tracks.toList h⟩
  intro a' tracks h1 h2
  have hone : ∀ t, matchOne sqrt fl eps net dec a' t = matchOne sqrt fl eps net dec a t := by
    intro t; unfold matchOne; rw [h1, h2]
  unfold mapOnNetworkFront
  generalize tracks.toList = ts
  induction ts with
  | nil => rfl
  | cons t rest ih => simp only [matchLoop, hone t, ih]

/-- T12 `front_end_track_preserved`: what `mapOnNetwork` changes on a track: nothing in its observations; the feature names
`obs_noise`, `hmm_inference`, `hmm_cost` are created when absent (every existing name kept, in place); the `obs_noise` column is
filled with `gps_noise` when it is created and KEEPS its content when it existed (a track matched again with another noise
value keeps the old column). -/
theorem front_end_track_preserved {sqrt : α → α} (hs : SqrtSpec sqrt) (fl : α → Int) (eps : α) (net : Net α)
    (hcurv : ∀ eg ∈ netEdges net, eg.curv = absCurv sqrt eg.geom) (dec : Decoder α) (a : Args α) (t : TrackS α)
    (r : ResultN α) (h : matchOne sqrt fl eps net dec a t = .ok r) :
    r.track.obs = t.obs ∧
    r.track.names = addName (addName (addName t.names "obs_noise") "hmm_inference") "hmm_cost" ∧
    (∀ n ∈ t.names, n ∈ r.track.names) ∧
    r.track.noise = (if t.names.contains "obs_noise" then t.noise else t.obs.map (fun _ => a.gpsNoise)) := by
  obtain ⟨h1, _, _, h4, h5⟩ := matchOne_spec hs fl eps net hcurv dec a t r h
  have keep : ∀ (ns : List String) (m n : String), n ∈ ns → n ∈ addName ns m := by
    intro ns m n hn
    unfold addName; split
    · exact hn
    · exact List.mem_append_left _ hn
  exact ⟨h1, h4, fun n hn => by rw [h4]; exact keep _ _ _ (keep _ _ _ (keep _ _ _ hn)), h5⟩

/-- T10b `matched_on_built_network`: T10 on a network built by `addEdge` from edges made the way `NetworkReader` and the
hand-written builders make them (`computeAbsCurv` on the geometry, then `Edge`), with pairwise different ids: a matched state
names the number `n` of an edge handed to `addEdge` and is `SoundOn` the geometry `es[n]` — the geometry as it was given IS the
geometry in the network, and the abscissas used are those of that geometry. -/
theorem matched_on_built_network {sqrt : α → α} (hs : SqrtSpec sqrt) (fl : α → Int) (eps : α)
    (es : List (EdgeIn α × Node α × Node α)) (late : Nat) (res : Option (α × α)) (margin : α) (net : Net α)
    (hnd : (es.map (fun x => x.1.id)).Nodup) (hmade : ∀ x ∈ es, x.1.curv = absCurv sqrt x.1.geom)
    (hb : buildNet fl es late res margin = .ok net)
    (dec : Decoder α) (a : Args α) (tracks : TracksArg α)
    (j : Nat) (r : ResultN α) (hr : (mapOnNetworkFront sqrt fl eps net dec a tracks).1[j]? = some r) :
    ∃ t, tracks.toList[j]? = some t ∧ r.track.obs = t.obs ∧
      ∀ (k : Nat) (o : Obs α) (st : State α), t.obs[k]? = some o → r.inference[k]? = some st →
        st = flag o.pos ∨ ∃ (n : Nat) (x : EdgeIn α × Node α × Node α), st.edge = (n : Int) ∧ es[n]? = some x ∧
          SoundOn sqrt a.searchRadius x.1.geom o.pos st := by
  have hne := built_network_edges fl es late res margin net hnd hb
  have hcurv : ∀ eg ∈ netEdges net, eg.curv = absCurv sqrt eg.geom := by
    intro eg heg
    rw [hne] at heg
    obtain ⟨x, hx, rfl⟩ := List.mem_map.mp heg
    exact hmade x hx
  obtain ⟨t, ht, h1, _, h3⟩ := front_end_sound hs fl eps net hcurv dec a tracks j r hr
  refine ⟨t, ht, h1, ?_⟩
  intro k o st hk hst
  rcases (h3 k o st hk hst).2 with hfl | ⟨n, eg, hn, heg, hso⟩
  · exact Or.inl hfl
  · right
    rw [hne, List.getElem?_map] at heg
    cases hx : es[n]? with
    | none => rw [hx] at heg; simp at heg
    | some x =>
      rw [hx] at heg
      simp only [Option.map_some, Option.some.injEq] at heg
      subst heg
      exact ⟨n, x, hn, hx, hso⟩

/-! ## Part III — the two parameters instantiated with the models of C09 and C08 -/

/-- T13 `viterbi_inference`: with `HMM.estimate` as modelled and proved for C09 (`Viterbi.decode`) over ANY cost tables whose
numbers of states per epoch are the sizes of the candidate lists: decoding does not raise (`TV.C09.decode_succeeds`), its indices
are in range (`TV.C09.decoded_valid`), and `hmm_inference[k]` is one of `STATES[k]`. The only hypothesis on `STATES` — non-empty
lists — is what T1 / T8 prove; so T2 / T10 apply to the real decoder with no assumption on the observation and transition models. -/
theorem viterbi_inference {β : Type} [LinearOrder β] (ss : List (List (State α))) (N : Nat) (hlen : ss.length = N + 1)
    (hne : ∀ (k : Nat) (l : List (State α)), ss[k]? = some l → l ≠ [])
    (t : TV.Viterbi.Tables β) (hn : ∀ (k : Nat) (l : List (State α)), ss[k]? = some l → t.n k = l.length) :
    ∃ (r : List (Nat × β)) (inf : List (State α)), TV.Viterbi.decode t (N + 1) = .ok r ∧
      inferAll ss (r.map Prod.fst) = .ok inf ∧ inf.length = N + 1 ∧
      ∀ (k : Nat) (st : State α), inf[k]? = some st → ∃ l, ss[k]? = some l ∧ st ∈ l :=
  TV.MapMatch.viterbi_inference ss N hlen hne t hn

/-- T14 `near_edge_is_candidate`: the index of C08 as the source of the candidates. By `TV.C08.neighborhood_complete`, for an
index built by the constructor on the network's geometries (`margin ≥ 0`, positive or default cell size), an observation `q`
inside the extent and an edge number `k` with a point within distance `d` of `q`: if the unit computed by `__mapOnNetwork`
(`ceil(search_radius / min(csize, lsize))`, from the NUMBERS of cells) is the unit `groundDistanceToUnits(d)` of the index, `k`
is among the candidates of `q` — and then (T9) `q` is matched as soon as `k` projects within the radius. The code's unit is in
general another number: completeness of the candidates is not part of C10 and not claimed. -/
theorem near_edge_is_candidate {fl : α → Int} (hf : TV.Grid.IsFloor fl) (net : Net α) (res : Option (α × α)) (margin : α)
    (ix : TV.Grid.Index α) (hm : 0 ≤ margin) (hres : ∀ r, res = some r → 0 < r.1 ∧ 0 < r.2)
    (hb : TV.Grid.build fl (netFeatures net) res margin = .ok ix) (hix : net.index = some ix)
    (k : Nat) (g : List (α × α)) (hk : (netFeatures net)[k]? = some g) (A B : α × α) (hAB : (A, B) ∈ TV.Grid.Consec g)
    (s : α) (hs0 : 0 ≤ s) (hs1 : s ≤ 1) (q : α × α) (hq : TV.Grid.getCell ix q ≠ none) (d : α) (hd : 0 ≤ d)
    (hdist : (q.1 - (TV.Grid.lerp A B s).1) ^ 2 + (q.2 - (TV.Grid.lerp A B s).2) ^ 2 ≤ d ^ 2)
    (radius : α) (hu : ∀ u, TV.Grid.groundDistanceToUnits fl ix d = .ok u → searchUnit fl radius ix = .ok u) :
    ∃ l, candidatesOf fl radius net q = .ok (some l) ∧ k ∈ l :=
  TV.MapMatch.near_edge_is_candidate hf net res margin ix hm hres hb hix k g hk A B hAB s hs0 hs1 q hq d hd hdist radius hu

/-! Non-vacuity of Part II, evaluated on the model over `Rat` (`Rat.floor` for `math.floor`; `sqExact` is exact on the squares of
0..59 and answers 1000 elsewhere, so that a distance that is not rational is simply out of reach): two streets sharing node 2
whose polylines do NOT end on the same coordinates (edge 1 starts at `(8,1)`, node 2 was registered at `(8,0)` by edge 0), built
through `buildNet`, index of cell size 4 with margin 1/4, search radius 5. Observation `(3,4)` is matched on edge 0 at `(3,0)`
with along-edge distances 3 and 5 (length 8); `(14,6)` on the second segment of the 3-vertex edge 1 at `(14,5)` with distances
8 and 1 (length 9); `(3,40)`, outside the index, is flagged; the track keeps its feature `speed` and gets the three columns;
the geometry of edge 1 in the network still starts at `(8,1)` and node 2 is still at `(8,0)`. -/
def sqExact (v : Rat) : Rat :=
  match (List.range 60).find? (fun k => decide (((k : Nat) : Rat) * ((k : Nat) : Rat) = v)) with
  | some k => ((k : Nat) : Rat)
  | none => 1000

def demoEdges : List (EdgeIn Rat × Node Rat × Node Rat) :=
  [(readerEdge sqExact 7 [(0, 0), (8, 0)] 0 8, ⟨1, (0, 0)⟩, ⟨2, (8, 0)⟩),
   (readerEdge sqExact 3 [(8, 1), (11, 5), (15, 5)] 1 9, ⟨2, (8, 1)⟩, ⟨5, (15, 5)⟩)]

def demoArgs : Args Rat := ⟨2, 10, 5, false, false⟩

example : (match buildNet Rat.floor demoEdges 0 (some (4, 4)) (1/4) with
    | .ok net =>
      decide ((netEdges net).map (·.geom) = [[(0, 0), (8, 0)], [(8, 1), (11, 5), (15, 5)]] ∧
              (netEdges net).map (·.curv) = [[0, 8], [0, 5, 9]] ∧
              (lookupNode net 2).map (·.coord) = some (8, 0)) &&
      (match mapOnNetworkFront sqExact Rat.floor 1 net (fun _ _ ss => ss.map (fun _ => 0)) demoArgs
          (.many [⟨[⟨(3, 4), 0⟩, ⟨(14, 6), 1⟩, ⟨(3, 40), 2⟩], ["speed"], []⟩]) with
       | ([r], none) =>
         (match r.inference with
          | [s0, s1, s2] =>
            decide (s0.p = (3, 0) ∧ s0.edge = 0 ∧ s0.d0 = 3 ∧ s0.d1 = 5 ∧
                    s1.p = (14, 5) ∧ s1.edge = 1 ∧ s1.d0 = 8 ∧ s1.d1 = 1 ∧
                    s2.p = (3, 40) ∧ s2.edge = -1) &&
            decide (r.track.names = ["speed", "obs_noise", "hmm_inference", "hmm_cost"] ∧ r.track.noise = [2, 2, 2] ∧
                    r.track.obs.map (·.pos) = [(3, 4), (14, 6), (3, 40)])
          | _ => false)
       | _ => false)
    | .error _ => false) = true := by decide +kernel

/-- the same two streets in the other order with the index attached BEFORE the second `addEdge` (which then registers the edge in
the index itself): same geometries by number, and `(7,2)` has a candidate on the late edge (number 1) at `(7,0)` -/
example : (match buildNet Rat.floor demoEdges.reverse 1 (some (4, 4)) 2 with
    | .ok net =>
      decide ((netEdges net).map (·.geom) = [[(8, 1), (11, 5), (15, 5)], [(0, 0), (8, 0)]]) &&
      (match mapOnNetworkFront sqExact Rat.floor 1 net (fun _ _ ss => ss.map (fun _ => 0)) demoArgs
          (.one ⟨[⟨(7, 2), 1⟩], [], []⟩) with
       | ([r], none) => r.states.any (fun l => l.any (fun s => decide (s.edge = 1 ∧ s.p = (7, 0) ∧ s.d0 = 7 ∧ s.d1 = 1)))
       | _ => false)
    | .error _ => false) = true := by decide +kernel

/-! ## Part IV — networks and tracks with altitudes (`Model/MapMatchZ`) -/

/-- T15 `abs_curv_planimetric`: `computeAbsCurv` on an edge geometry with altitudes (`ds` = `distance2DTo`, then `INTEGRATOR`) is
`computeAbsCurv` on its planimetric vertices: two geometries with the same `(x, y)` have the same column whatever their altitudes;
`abs_curv[i]` is the PLANIMETRIC length of the geometry up to vertex `i`, the last value is the planimetric length of the edge. -/
theorem abs_curv_planimetric (sqrt : α → α) (g : List (P3 α)) :
    absCurv3 sqrt g = absCurv sqrt (g.map xy) ∧
    (∀ g' : List (P3 α), g'.map xy = g.map xy → absCurv3 sqrt g' = absCurv3 sqrt g) ∧
    (∀ i, i < g.length → (absCurv3 sqrt g)[i]? = some (polyLength sqrt ((g.map xy).take (i + 1)))) ∧
    (g ≠ [] → (absCurv3 sqrt g)[g.length - 1]? = some (polyLength3 sqrt g)) := by
  refine ⟨absCurv3_eq sqrt g, fun g' h => by rw [absCurv3_eq, absCurv3_eq, h], ?_, ?_⟩
  · intro i hi
    rw [absCurv3_eq]
    exact absCurv_take sqrt (g.map xy) i (by simpa using hi)
  · intro hg
    rw [absCurv3_eq]
    have := absCurv_last sqrt (g.map xy) (by simpa using hg)
    simpa [polyLength3] using this

/-- T16 `weight_is_3d_length`: the edge made by `NetworkReader` (no weight column) / by the hand-written builders carries the
computed `abs_curv` column and the weight `Track.length()`, which is the 3D length: at least the planimetric length that the
along-edge distances of a matched state add up to, and equal to it when all vertices of the edge have the same altitude. -/
theorem weight_is_3d_length {sqrt : α → α} (hs : SqrtSpec sqrt) (id : Nat) (g : List (P3 α)) (o : Int) :
    (readerEdge3 sqrt id g o).curv = absCurv3 sqrt g ∧ (readerEdge3 sqrt id g o).geom = g ∧
    (readerEdge3 sqrt id g o).weight = trackLength3D sqrt g ∧
    polyLength3 sqrt g ≤ trackLength3D sqrt g ∧
    (∀ c, (∀ p ∈ g, p.2.2 = c) → trackLength3D sqrt g = polyLength3 sqrt g) := by
  refine ⟨rfl, rfl, rfl, ?_, ?_⟩
  · cases g with
    | nil => exact le_refl _
    | cons p rest => exact polyLengthFrom_le_trackLengthFrom hs rest 0 0 p (le_refl _)
  · intro c hc
    cases g with
    | nil => rfl
    | cons p rest =>
      exact polyLengthFrom_eq_trackLengthFrom sqrt c rest 0 p (hc p (by simp)) (fun q hq => hc q (List.mem_cons_of_mem _ hq))

/-- T17 `states_flag_or_matched_3d` (T8 with altitudes): on edges whose `abs_curv` columns are the computed ones, `STATES[i]` — for
any answer of the index — is the flag state alone, `(position, -1, -1, -1)` with the observation's OWN 3D position, or a
non-empty list of matched states: the assigned point has `U = 0` and, in the plane, lies on a segment of the geometry stored
under an existing edge number, strictly within the radius of the (planimetric) observed position, with the PLANIMETRIC
along-edge distances to the two end nodes, which add up to the planimetric length of that geometry. -/
theorem states_flag_or_matched_3d {sqrt : α → α} (hs : SqrtSpec sqrt) (eps radius : α) (edges : List (Edge3 α))
    (hcurv : ∀ eg ∈ edges, eg.curv = absCurv3 sqrt eg.geom) (pos : P3 α)
    (cand : Option (List Nat)) (l : List (State3 α)) (h : obsStates3 sqrt eps radius edges pos cand = .ok l) :
    l = [flag3 pos] ∨ (l ≠ [] ∧ ∀ s ∈ l, s.p.2.2 = 0 ∧
      ∃ (n : Nat) (eg : Edge3 α), s.edge = (n : Int) ∧ edges[n]? = some eg ∧
        SoundOn sqrt radius (eg.geom.map xy) (xy pos) (flatS s) ∧ s.d0 + s.d1 = polyLength3 sqrt eg.geom) := by
  rcases obsStates3_matched hs eps radius edges hcurv pos cand l h with hf | ⟨hne, hall⟩
  · exact Or.inl hf
  · refine Or.inr ⟨hne, fun s hsm => ?_⟩
    obtain ⟨hz, n, eg, hn, heg, hso⟩ := hall s hsm
    rw [List.getElem?_map] at heg
    cases he : edges[n]? with
    | none => rw [he] at heg; simp at heg
    | some e3 =>
      rw [he] at heg
      simp only [Option.map_some, Option.some.injEq] at heg
      subst heg
      have hsum : s.d0 + s.d1 = polyLength3 sqrt e3.geom := by
        obtain ⟨i, p1, p2, d, _, _, _, _, _, _, _, _, hsum⟩ := hso
        exact hsum
      exact ⟨hz, n, e3, hn, he, hso, hsum⟩

/-- T18 `altitudes_irrelevant`: (a) building a network with altitudes and then forgetting them gives the network built from the
planimetric data: same edge numbers, same `abs_curv` columns, the same spatial index, the same exceptions; (b) `STATES` of a
track with altitudes on a network with altitudes, the altitudes of the assigned points forgotten, is `STATES` of the planimetric
track on the planimetric network, exceptions included: no altitude influences a candidate, an assigned point or a distance. -/
theorem altitudes_irrelevant (sqrt : α → α) (fl : α → Int) (eps radius : α) :
    (∀ (es : List (EdgeIn3 α × Node3 α × Node3 α)) (late : Nat) (res : Option (α × α)) (margin : α),
      (buildNet3 fl es late res margin).map flatNet =
        buildNet fl (es.map (fun x => (flatEI x.1, flatNode x.2.1, flatNode x.2.2))) late res margin) ∧
    (∀ (net : Net3 α) (track : List (Obs3 α)),
      (allStatesNet3 sqrt fl eps radius net track).map (List.map (List.map flatS)) =
        allStatesNet sqrt fl eps radius (flatNet net) (track.map flatO)) :=
  ⟨fun es late res margin => buildNet3_flat fl es late res margin,
   fun net track => allStatesNet3_flat sqrt fl eps radius net track⟩

/-- T19 `front_end_sound_3d` (T10 and T12 with altitudes): `mapOnNetwork(tracks, network, …)` on a network with altitudes whose
edge geometries carry computed `abs_curv` columns — a bare track or a collection, any decoder, any index: the `j`-th track
processed keeps its observations (count, order, 3D positions, timestamps), gets the three columns, and every `hmm_inference`
entry is one of `STATES[k]` and is the flag state with the observation's own 3D position, or a matched state (T17): `U = 0`,
on the planimetric geometry stored under an existing edge number, strictly within `search_radius`, with planimetric along-edge
distances that add up to the planimetric length of that geometry. -/
theorem front_end_sound_3d {sqrt : α → α} (hs : SqrtSpec sqrt) (fl : α → Int) (eps : α) (net : Net3 α)
    (hcurv : ∀ eg ∈ netEdges3 net, eg.curv = absCurv3 sqrt eg.geom) (dec : Decoder3 α) (a : Args α) (tracks : TracksArg3 α)
    (j : Nat) (r : ResultN3 α) (hr : (mapOnNetworkFront3 sqrt fl eps net dec a tracks).1[j]? = some r) :
    ∃ t, tracks.toList[j]? = some t ∧ r.track.obs = t.obs ∧ r.inference.length = t.obs.length ∧
      r.track.names = addName (addName (addName t.names "obs_noise") "hmm_inference") "hmm_cost" ∧
      r.track.noise = (if t.names.contains "obs_noise" then t.noise else t.obs.map (fun _ => a.gpsNoise)) ∧
      ∀ (k : Nat) (o : Obs3 α) (st : State3 α), t.obs[k]? = some o → r.inference[k]? = some st →
        (∃ l, r.states[k]? = some l ∧ st ∈ l) ∧
        (st = flag3 o.pos ∨ (st.p.2.2 = 0 ∧ Matched sqrt a.searchRadius ((netEdges3 net).map flatE) (xy o.pos) (flatS st))) := by
  obtain ⟨t, ht, hm⟩ := matchLoop_spec3 sqrt fl eps net dec a tracks.toList j r hr
  obtain ⟨h1, h2, h3, h4, h5⟩ := matchOne_spec3 hs fl eps net hcurv dec a t r hm
  exact ⟨t, ht, h1, h2, h4, h5, h3⟩

/-- T19b `front_end_tracks_independent_3d` (T11 with altitudes): the result of the `j`-th track is the result of `__mapOnNetwork` on
that track alone; a bare `Track` is the collection of that one track; `transition_cost`, `debug`, `verbose` influence nothing;
when nothing is raised every track has been processed. -/
theorem front_end_tracks_independent_3d (sqrt : α → α) (fl : α → Int) (eps : α) (net : Net3 α) (dec : Decoder3 α) (a : Args α) :
    (∀ (tracks : TracksArg3 α) (j : Nat) (r : ResultN3 α), (mapOnNetworkFront3 sqrt fl eps net dec a tracks).1[j]? = some r →
      ∃ t, tracks.toList[j]? = some t ∧ matchOne3 sqrt fl eps net dec a t = .ok r) ∧
    (∀ t, mapOnNetworkFront3 sqrt fl eps net dec a (.one t) = mapOnNetworkFront3 sqrt fl eps net dec a (.many [t])) ∧
    (∀ (a' : Args α) (tracks : TracksArg3 α), a'.gpsNoise = a.gpsNoise → a'.searchRadius = a.searchRadius →
      mapOnNetworkFront3 sqrt fl eps net dec a' tracks = mapOnNetworkFront3 sqrt fl eps net dec a tracks) ∧
    (∀ (tracks : TracksArg3 α), (mapOnNetworkFront3 sqrt fl eps net dec a tracks).2 = none →
      (mapOnNetworkFront3 sqrt fl eps net dec a tracks).1.length = tracks.toList.length) := by
  refine ⟨fun tracks j r h => matchLoop_spec3 sqrt fl eps net dec a tracks.toList j r h, fun t => rfl, ?_,
    fun tracks h => matchLoop_complete3 sqrt fl eps net dec a tracks.toList h⟩
  intro a' tracks h1 h2
  have hone : ∀ t, matchOne3 sqrt fl eps net dec a' t = matchOne3 sqrt fl eps net dec a t := by
    intro t; unfold matchOne3; rw [h1, h2]
  unfold mapOnNetworkFront3
  generalize tracks.toList = ts
  induction ts with
  | nil => rfl
  | cons t rest ih => simp only [matchLoop3, hone t, ih]

/-- T20 `matched_on_built_network_3d` (T7 and T10b with altitudes): a network built by `addEdge` from edges made the way
`NetworkReader` makes them from `LINESTRING(x y z, …)` (`computeAbsCurv`, then `Edge`), with pairwise different ids, stores under
edge number `n` the `n`-th geometry handed over WITH ITS ALTITUDES, unchanged; and a matched state names the number `n` of an edge
handed over, has `U = 0` and is `SoundOn` the planimetric vertices of THAT geometry, its two distances adding up to its
planimetric length. -/
theorem matched_on_built_network_3d {sqrt : α → α} (hs : SqrtSpec sqrt) (fl : α → Int) (eps : α)
    (es : List (EdgeIn3 α × Node3 α × Node3 α)) (late : Nat) (res : Option (α × α)) (margin : α) (net : Net3 α)
    (hnd : (es.map (fun x => x.1.id)).Nodup) (hmade : ∀ x ∈ es, x.1.curv = absCurv3 sqrt x.1.geom)
    (hb : buildNet3 fl es late res margin = .ok net)
    (dec : Decoder3 α) (a : Args α) (tracks : TracksArg3 α)
    (j : Nat) (r : ResultN3 α) (hr : (mapOnNetworkFront3 sqrt fl eps net dec a tracks).1[j]? = some r) :
    netEdges3 net = es.map (fun x => (⟨x.1.geom, x.1.curv⟩ : Edge3 α)) ∧
    ∃ t, tracks.toList[j]? = some t ∧ r.track.obs = t.obs ∧
      ∀ (k : Nat) (o : Obs3 α) (st : State3 α), t.obs[k]? = some o → r.inference[k]? = some st →
        st = flag3 o.pos ∨ (st.p.2.2 = 0 ∧ ∃ (n : Nat) (x : EdgeIn3 α × Node3 α × Node3 α), st.edge = (n : Int) ∧ es[n]? = some x ∧
          SoundOn sqrt a.searchRadius (x.1.geom.map xy) (xy o.pos) (flatS st) ∧
          st.d0 + st.d1 = polyLength3 sqrt x.1.geom) := by
  have hne := buildNet_edges3 fl es late res margin net hnd hb
  have hcurv : ∀ eg ∈ netEdges3 net, eg.curv = absCurv3 sqrt eg.geom := by
    intro eg heg
    rw [hne] at heg
    obtain ⟨x, hx, rfl⟩ := List.mem_map.mp heg
    exact hmade x hx
  obtain ⟨t, ht, h1, _, _, _, h3⟩ := front_end_sound_3d hs fl eps net hcurv dec a tracks j r hr
  refine ⟨hne, t, ht, h1, ?_⟩
  intro k o st hk hst
  rcases (h3 k o st hk hst).2 with hfl | ⟨hz, n, eg, hn, heg, hso⟩
  · exact Or.inl hfl
  · right
    rw [hne, List.map_map, List.getElem?_map] at heg
    cases hx : es[n]? with
    | none => rw [hx] at heg; simp at heg
    | some x =>
      rw [hx] at heg
      simp only [Option.map_some, Option.some.injEq] at heg
      subst heg
      have hsum : st.d0 + st.d1 = polyLength3 sqrt x.1.geom := by
        obtain ⟨i, p1, p2, d, _, _, _, _, _, _, _, _, hsum⟩ := hso
        exact hsum
      exact ⟨hz, n, x, hn, hx, hso, hsum⟩

/-- T21 `near_edge_is_candidate_3d` (T14 with altitudes): the index of C08 reads `getX()`, `getY()` only; for an index built by
the constructor on the network's geometries, an observation whose planimetric position is inside the extent and an edge number
`k` with a planimetric point within distance `d` of it: `k` is among the candidates whenever the unit computed by
`__mapOnNetwork` is `groundDistanceToUnits(d)` — whatever the altitudes of the edge and of the observation. -/
theorem near_edge_is_candidate_3d {fl : α → Int} (hf : TV.Grid.IsFloor fl) (net : Net3 α) (res : Option (α × α)) (margin : α)
    (ix : TV.Grid.Index α) (hm : 0 ≤ margin) (hres : ∀ r, res = some r → 0 < r.1 ∧ 0 < r.2)
    (hb : TV.Grid.build fl (netFeatures3 net) res margin = .ok ix) (hix : net.index = some ix)
    (k : Nat) (g : List (α × α)) (hk : (netFeatures3 net)[k]? = some g) (A B : α × α) (hAB : (A, B) ∈ TV.Grid.Consec g)
    (s : α) (hs0 : 0 ≤ s) (hs1 : s ≤ 1) (q : P3 α) (hq : TV.Grid.getCell ix (xy q) ≠ none) (d : α) (hd : 0 ≤ d)
    (hdist : ((xy q).1 - (TV.Grid.lerp A B s).1) ^ 2 + ((xy q).2 - (TV.Grid.lerp A B s).2) ^ 2 ≤ d ^ 2)
    (radius : α) (hu : ∀ u, TV.Grid.groundDistanceToUnits fl ix d = .ok u → searchUnit fl radius ix = .ok u) :
    ∃ l, candidatesOf3 fl radius net q = .ok (some l) ∧ k ∈ l := by
  rw [candidatesOf3_flat]
  exact TV.MapMatch.near_edge_is_candidate hf (flatNet net) res margin ix hm hres (by rw [netFeatures3_flat]; exact hb) hix k g
    (by rw [netFeatures3_flat]; exact hk) A B hAB s hs0 hs1 (xy q) hq d hd hdist radius hu

/-! Non-vacuity of Part IV, evaluated on the model over `Rat`: a road over a hill, `(0,0,0) → (6,8,24) → (12,16,0)` (two
segments of planimetric length 10 and 3D length 26), built through `readerEdge3` / `buildNet3` with an index of cell size 4 and
margin 1/4; search radius 6. The observation `(7,1)` at altitude 100 is matched at `(3,4)` with `U = 0`, along-edge distances
5 and 15: they add up to the PLANIMETRIC length 20 of the edge, whose `abs_curv` column is `[0, 10, 20]` and whose weight
(`Track.length()`) is 52; `(3,40)` at altitude 7, outside the index, is flagged with its own position `(3,40,7)`; the track
keeps its 3D positions; the geometry in the network still has its altitudes. -/
def demoHill : List (EdgeIn3 Rat × Node3 Rat × Node3 Rat) :=
  [(readerEdge3 sqExact 7 [(0, 0, 0), (6, 8, 24), (12, 16, 0)] 0, ⟨1, (0, 0, 0)⟩, ⟨2, (12, 16, 0)⟩)]

example : (match buildNet3 Rat.floor demoHill 0 (some (4, 4)) (1/4) with
    | .ok net =>
      decide ((netEdges3 net).map (·.geom) = [[(0, 0, 0), (6, 8, 24), (12, 16, 0)]] ∧
              (netEdges3 net).map (·.curv) = [[0, 10, 20]] ∧
              net.edges.map (·.e.weight) = [52]) &&
      (match mapOnNetworkFront3 sqExact Rat.floor 1 net (fun _ _ ss => ss.map (fun _ => 0)) ⟨2, 10, 6, false, false⟩
          (.one ⟨[⟨(7, 1, 100), 0⟩, ⟨(3, 40, 7), 1⟩], [], []⟩) with
       | ([r], none) =>
         (match r.inference with
          | [s0, s1] =>
            decide (s0.p = (3, 4, 0) ∧ s0.edge = 0 ∧ s0.d0 = 5 ∧ s0.d1 = 15 ∧
                    s1.p = (3, 40, 7) ∧ s1.edge = -1 ∧ s1.d0 = -1) &&
            decide (r.track.obs.map (·.pos) = [(7, 1, 100), (3, 40, 7)] ∧
                    r.track.names = ["obs_noise", "hmm_inference", "hmm_cost"])
          | _ => false)
       | _ => false)
    | .error _ => false) = true := by decide +kernel

/-! ## Part V — when nothing is raised -/

/-- T22 `returns_on_regular_geometries`: the exceptions of the candidate loop are the `ZeroDivisionError` of the projection on a
kept vertical segment (finding D16, class `vertical-segment-zerodiv`) and the `IndexError` on a geometry with fewer than two
vertices (`Xp[0]` / `abs_curv[i + 1]`). A geometry ALL of whose segments are skipped (all vertices coincide) is no longer one of
them: since the `fix:` commit 563eeba `proj_polyligne` answers with its first vertex and the edge is an ordinary candidate
(the former class `zero-length-edge-unbound`; `zero_length_edge_candidate` below). On edges with computed `abs_curv` columns
whose geometries have no kept vertical segment and at least two vertices (`GoodGeom`), for candidate lists made of existing
edge numbers and a decoder answering in-range indices (T2b / T2c / T13: the Viterbi decoder does), `__mapOnNetwork` returns: no
`ZeroDivisionError`, no `KeyError` / `IndexError`. -/
theorem returns_on_regular_geometries {sqrt : α → α} (hs : SqrtSpec sqrt) (eps radius : α) (edges : List (Edge α))
    (hcurv : ∀ eg ∈ edges, eg.curv = absCurv sqrt eg.geom) (hgood : ∀ eg ∈ edges, GoodGeom eps eg.geom) (mode : Nat)
    (decode : List (List (State α)) → List Nat) (track : List (Obs α)) (names : List String)
    (cands : List (Option (List Nat))) (hc : ∀ c ∈ cands, ∀ E, c = some E → ∀ n ∈ E, n < edges.length)
    (hdec : ∀ ss, allStates sqrt eps radius edges track cands = .ok ss →
      ∀ (k : Nat) (l : List (State α)), ss[k]? = some l → (decode ss)[k]?.getD 0 < l.length) :
    ∃ res, mapOnNetwork sqrt eps radius edges mode decode track names cands = .ok res := by
  obtain ⟨ss, hss⟩ := allStates_total hs eps radius edges hcurv hgood track cands hc
  obtain ⟨inf, hinf⟩ := inferAll_total ss (decode ss) (hdec ss hss)
  unfold mapOnNetwork
  rw [hss]
  simp only [hinf]
  exact ⟨_, rfl⟩

/-- T23 `states_returned_3d`: T22 for the preparation of `STATES[i]` on data with altitudes: whether the projection can raise is
decided by the PLANIMETRIC geometry alone (an edge that is vertical in space — same `(x, y)`, different altitudes — is a
zero-length edge for map-matching). -/
theorem states_returned_3d {sqrt : α → α} (hs : SqrtSpec sqrt) (eps radius : α) (edges : List (Edge3 α))
    (hcurv : ∀ eg ∈ edges, eg.curv = absCurv3 sqrt eg.geom) (hgood : ∀ eg ∈ edges, GoodGeom eps (eg.geom.map xy))
    (pos : P3 α) (cand : Option (List Nat)) (hc : ∀ E, cand = some E → ∀ n ∈ E, n < edges.length) :
    ∃ l, obsStates3 sqrt eps radius edges pos cand = .ok l :=
  obsStates3_total hs eps radius edges hcurv hgood pos cand hc

/-- T24 `candidates_are_edge_numbers`: on a network built by `addEdge` calls with pairwise different edge ids (index attached
before or after the last edges) every number the spatial index answers for an observation is the number of an existing edge:
the grid only ever stores feature numbers handed to `addFeature` — by the constructor (`0 … size-1`) or by `addEdge`
(`getNumberOfEdges() - 1`) —, so `EDGES[getEdgeId(elem)]` in the candidate loop raises neither `IndexError` nor `KeyError`. -/
theorem candidates_are_edge_numbers (fl : α → Int) (es : List (EdgeIn α × Node α × Node α)) (late : Nat) (res : Option (α × α))
    (margin : α) (net : Net α) (hnd : (es.map (fun x => x.1.id)).Nodup) (h : buildNet fl es late res margin = .ok net)
    (radius : α) (pos : α × α) (E : List Nat) (hc : candidatesOf fl radius net pos = .ok (some E)) :
    ∀ n ∈ E, n < (netEdges net).length ∧ ∃ eg, (netEdges net)[n]? = some eg := by
  intro n hn
  have hlt := candidates_exist fl es late res margin net hnd h radius pos E hc n hn
  exact ⟨hlt, _, List.getElem?_eq_getElem hlt⟩

/-- T25 `states_returned_on_built_network`: on a network built from `computeAbsCurv`-made edges with pairwise different ids whose
geometries are regular (`GoodGeom`: no kept vertical segment, at least two vertices — all of them may coincide), the preparation of `STATES` for a whole
track returns unless the index query itself raises (C08's subject; it does not for an observation inside or outside the extent
of an index built by the constructor): no `ZeroDivisionError` of the projection, no `KeyError` /
`IndexError` on an edge number. With T2b / T13 (in-range decoder) the whole `__mapOnNetwork` returns. -/
theorem states_returned_on_built_network {sqrt : α → α} (hs : SqrtSpec sqrt) (fl : α → Int) (eps radius : α)
    (es : List (EdgeIn α × Node α × Node α)) (late : Nat) (res : Option (α × α)) (margin : α) (net : Net α)
    (hnd : (es.map (fun x => x.1.id)).Nodup) (hmade : ∀ x ∈ es, x.1.curv = absCurv sqrt x.1.geom)
    (hgood : ∀ x ∈ es, GoodGeom eps x.1.geom) (hb : buildNet fl es late res margin = .ok net)
    (track : List (Obs α)) (hidx : ∀ o ∈ track, ∃ c, candidatesOf fl radius net o.pos = .ok c) :
    ∃ ss, allStatesNet sqrt fl eps radius net track = .ok ss :=
  allStatesNet_total hs fl eps radius es late res margin net hnd hmade hgood hb track hidx

/-- T25b `states_returned_on_built_network_3d`: T25 with altitudes — regularity is that of the planimetric geometries. -/
theorem states_returned_on_built_network_3d {sqrt : α → α} (hs : SqrtSpec sqrt) (fl : α → Int) (eps radius : α)
    (es : List (EdgeIn3 α × Node3 α × Node3 α)) (late : Nat) (res : Option (α × α)) (margin : α) (net : Net3 α)
    (hnd : (es.map (fun x => x.1.id)).Nodup) (hmade : ∀ x ∈ es, x.1.curv = absCurv3 sqrt x.1.geom)
    (hgood : ∀ x ∈ es, GoodGeom eps (x.1.geom.map xy)) (hb : buildNet3 fl es late res margin = .ok net)
    (track : List (Obs3 α)) (hidx : ∀ o ∈ track, ∃ c, candidatesOf3 fl radius net o.pos = .ok c) :
    ∃ ss, allStatesNet3 sqrt fl eps radius net track = .ok ss := by
  have hflat := buildNet3_flat fl es late res margin
  rw [hb] at hflat
  have hb' : buildNet fl (es.map (fun x => (flatEI x.1, flatNode x.2.1, flatNode x.2.2))) late res margin = .ok (flatNet net) :=
    hflat.symm
  obtain ⟨ss, hss⟩ := allStatesNet_total hs fl eps radius _ late res margin (flatNet net)
    (by rw [List.map_map]; exact hnd)
    (by
      intro x hx
      obtain ⟨y, hy, rfl⟩ := List.mem_map.mp hx
      show y.1.curv = absCurv sqrt (y.1.geom.map xy)
      rw [← absCurv3_eq]; exact hmade y hy)
    (by
      intro x hx
      obtain ⟨y, hy, rfl⟩ := List.mem_map.mp hx
      exact hgood y hy)
    hb' (track.map flatO)
    (by
      intro o ho
      obtain ⟨o3, ho3, rfl⟩ := List.mem_map.mp ho
      obtain ⟨c, hc⟩ := hidx o3 ho3
      exact ⟨c, by rw [← hc, candidatesOf3_flat]; rfl⟩)
  have := allStatesNet3_flat sqrt fl eps radius net track
  rw [hss] at this
  cases h3 : allStatesNet3 sqrt fl eps radius net track with
  | error e => rw [h3] at this; cases this
  | ok l3 => exact ⟨l3, rfl⟩

/-- non-vacuity: the oblique 3-vertex geometry of `demoEdges` is `GoodGeom` (with the driver's threshold replaced by 1) -/
example : GoodGeom (1 : Rat) [(8, 1), (11, 5), (15, 5)] := by
  refine ⟨?_, by decide⟩
  intro j p1 p2 h1 h2 _
  match j with
  | 0 => simp at h1 h2; subst h1 h2; decide +kernel
  | 1 => simp at h1 h2; subst h1 h2; decide +kernel
  | (j + 2) => simp at h2

/-- T22b `zero_length_edge_candidate` (the input of the former class `zero-length-edge-unbound`, repaired by the `fix:` commit
563eeba): a candidate edge whose two vertices coincide, built by `computeAbsCurv`, is an ORDINARY candidate: the candidate
loop raises nothing; the edge yields a state exactly when the vertex is strictly within the radius of the observation, and
that state is `(the vertex, the edge number, 0, 0)` — position on the (point-like) geometry, both along-edge distances `0`,
adding up to the edge length `0`. (Geometries of more vertices, all coinciding: the general theorems — T1 … through
`Proj.proj_polyline_on` — and the evaluated example below.) -/
theorem zero_length_edge_candidate {sqrt : α → α} (hs : SqrtSpec sqrt) (eps radius : α) (heps : 0 < eps)
    (edges : List (Edge α)) (pos : α × α) (elem : Nat) (v : α × α) (acc : List (State α))
    (he : edges[elem]? = some (mkEdge sqrt [v, v])) :
    candLoop sqrt eps radius edges pos [elem] acc =
      .ok (if sqrt (d2 pos.1 pos.2 v.1 v.2) < radius then acc ++ [⟨v, (elem : Int), 0, 0⟩] else acc) := by
  have hsk : skipped eps v.1 v.2 v.1 v.2 = true := by simp [skipped, fabs, heps]
  have hp : projOnTrack sqrt eps [v, v] pos.1 pos.2 = .ok ((v.1, v.2), sqrt (d2 pos.1 pos.2 v.1 v.2), 0) := by
    simp [projOnTrack, projPolyligne, polyLoop, hsk, firstVertex, d2]
  have h0 := sqrt_zero hs
  simp only [candLoop, he, mkEdge, hp]
  split
  · simp [distToNode, absCurv, curvFrom, dist2D, h0]
  · rfl

/-- evaluated on the model (`eps = 1`, `sqrt` by table): the edge `(4,3),(4,3),(4,3)` (three coinciding vertices) as candidate
`0` of an observation at `(0,0)` with radius 6 gives the state `((4,3), 0, 0, 0)`; with radius 5 (the vertex is AT the radius)
no state; an edge with an EMPTY geometry raises `IndexError` -/
example : (match candLoop TV.C20.sqTable 1 6 [mkEdge TV.C20.sqTable [(4, 3), (4, 3), (4, 3)]] (0, 0) [0] [] with
      | .ok [s] => s.p == (4, 3) && s.edge == 0 && s.d0 == 0 && s.d1 == 0 | _ => false) = true
    ∧ (match candLoop TV.C20.sqTable 1 5 [mkEdge TV.C20.sqTable [(4, 3), (4, 3), (4, 3)]] (0, 0) [0] [] with
      | .ok [] => true | _ => false) = true
    ∧ (match candLoop TV.C20.sqTable 1 5 [mkEdge TV.C20.sqTable []] (0, 0) [0] [] with
      | .error (.proj .index) => true | _ => false) = true := by decide +kernel

/-! ## Part VI — time stamps -/

/-- T26 `order_and_stamps_kept`: `__mapOnNetwork` on ONE track, for every network (no hypothesis on its geometries or abscissa
columns), every decoder, every argument and EVERY assignment of time stamps to the observations (reverse-chronological storage,
equal stamps, no time information: all stamps equal): when the call returns, the track holds the same observations in the same
order — positions and time stamps. (T12 states it under the hypotheses needed for its other clauses; this is the clause of the
property "the track keeps the same observations in the same order with unchanged positions and timestamps" on its own.) -/
theorem order_and_stamps_kept (sqrt : α → α) (fl : α → Int) (eps : α) (net : Net α) (dec : Decoder α) (a : Args α)
    (t : TrackS α) (r : ResultN α) (h : matchOne sqrt fl eps net dec a t = .ok r) :
    r.track.obs = t.obs ∧ r.track.obs.map (·.t) = t.obs.map (·.t) ∧ r.track.obs.map (·.pos) = t.obs.map (·.pos) := by
  have := matchOne_obs sqrt fl eps net dec a t r h
  exact ⟨this, by rw [this], by rw [this]⟩

/-- T27 `time_stamps_never_read`: two tracks that differ by their time stamps only (same positions in the same order, same
feature names, same `obs_noise` column) get the same `STATES`, the same `hmm_inference` column, the same feature names and
`obs_noise` column, or the same exception — provided the decoder reads, of the track, the positions, the names and the
`obs_noise` column only (`Decoder.TimeBlind`; `HMM.estimate` is called with `MODE_OBS_AS_2D_POSITIONS`, `__obs_log` reads
`obs_noise` and the position, `__tst_log` the states). In particular the result on a track stored in any order is the result on
the same list of positions stamped chronologically: nothing needs sorting, and by T26 nothing is sorted. The preparation of
`STATES` (first conjunct) needs no hypothesis on the decoder. -/
theorem time_stamps_never_read (sqrt : α → α) (fl : α → Int) (eps : α) (net : Net α) (a : Args α) (t t' : TrackS α)
    (hpos : t.obs.map (·.pos) = t'.obs.map (·.pos)) :
    allStatesNet sqrt fl eps a.searchRadius net t.obs = allStatesNet sqrt fl eps a.searchRadius net t'.obs ∧
    ∀ (dec : Decoder α), Decoder.TimeBlind dec → t.names = t'.names → t.noise = t'.noise →
      (matchOne sqrt fl eps net dec a t).map ResultN.view = (matchOne sqrt fl eps net dec a t').map ResultN.view :=
  ⟨allStatesNet_pos_only sqrt fl eps a.searchRadius net t.obs t'.obs hpos,
   fun dec hdec hn hz => matchOne_time_blind sqrt fl eps net dec hdec a t t' hpos hn hz⟩

/-- non-vacuity of T27: a track stored in reverse chronological order with a tie, and the same positions stamped 1, 2, 3 -/
example : ([⟨(0, 0), 20⟩, ⟨(1, 0), 20⟩, ⟨(2, 5), 10⟩] : List (Obs Rat)).map (·.pos)
    = ([⟨(0, 0), 1⟩, ⟨(1, 0), 2⟩, ⟨(2, 5), 3⟩] : List (Obs Rat)).map (·.pos) := rfl

/-- non-vacuity of `Decoder.TimeBlind`: every decoder computed from the network, the positions, the feature names, the
`obs_noise` column and `STATES` is time-blind -/
example (f : Net α → List (α × α) → List String → List α → List (List (State α)) → List Nat) :
    Decoder.TimeBlind (fun net u st => f net (u.obs.map (·.pos)) u.names u.noise st) := by
  intro net u u' st h1 h2 h3
  simp only [h1, h2, h3]

end TV.C10
