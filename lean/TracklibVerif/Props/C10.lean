import TracklibVerif.Lemmas.MapMatchSound
import TracklibVerif.Lemmas.MapMatchViterbi
/-! # C10 — map-matched positions lie on a real edge within the search radius

Property theorems only (helpers in `Lemmas/MapMatch.lean`, `Lemmas/MapMatchSound.lean`; they rest on the C20
theorems), about the model `Model/MapMatch.lean` of `mapping.mapOnNetwork`, over any linearly ordered field and a
`sqrt` with `SqrtSpec`. The candidate edge numbers returned by the spatial index and the state indices decoded by
the HMM are PARAMETERS: the theorems hold for every index answer and every decoder. `IsFlag pos s` is the
state `(pos, -1, -1, -1)`; `Sound … pos s` says: `s.edge` is an existing edge number, `s.p` lies on a segment of
that edge's geometry, at a distance `d < radius` of `pos`, and (for an `abs_curv` column made by
`computeAbsCurv`) `s.d0 + s.d1` is the edge length. Exceptions (`ZeroDivisionError` of the projection on a
vertical segment, D16) are outside: every statement is about a call that returns. -/
namespace TV.C10
open TV.Proj TV.MapMatch
variable {α : Type} [Field α] [LinearOrder α] [IsStrictOrderedRing α]

/-- T1 `candidate_sound`: every state of `STATES[i]` is the flag state or a sound candidate, and `STATES[i]` is never
empty (for every list of candidate edge numbers the index may return, `None` included). -/
theorem candidate_sound {sqrt : α → α} (hs : SqrtSpec sqrt) (eps radius : α) (edges : List (Edge α)) (pos : α × α)
    (cand : Option (List Nat)) (l : List (State α)) (h : obsStates sqrt eps radius edges pos cand = .ok l) :
    l ≠ [] ∧ ∀ s ∈ l, IsFlag pos s ∨ Sound sqrt radius edges pos s := by
  have hflag : IsFlag pos (flag pos) := ⟨rfl, rfl, rfl, rfl⟩
  unfold obsStates at h
  cases cand with
  | none =>
    simp only at h; injection h with h; subst h
    exact ⟨by simp, fun s hm => by simp only [List.mem_singleton] at hm; subst hm; exact Or.inl hflag⟩
  | some E =>
    simp only at h
    cases hl : candLoop sqrt eps radius edges pos E [] with
    | error e => rw [hl] at h; cases h
    | ok r =>
      rw [hl] at h
      have snd := candLoop_sound hs eps radius edges pos E [] r (fun s hm => by simp at hm) hl
      cases r with
      | nil =>
        simp only at h; injection h with h; subst h
        exact ⟨by simp, fun s hm => by simp only [List.mem_singleton] at hm; subst hm; exact Or.inl hflag⟩
      | cons s ss =>
        simp only at h; injection h with h; subst h
        exact ⟨by simp, fun s' hm => Or.inr (snd s' hm)⟩

/-- T1b `all_states_sound`: `STATES` has one non-empty list per observation, in order, each made of the flag state or
of sound candidates for that observation's position. -/
theorem all_states_sound {sqrt : α → α} (hs : SqrtSpec sqrt) (eps radius : α) (edges : List (Edge α)) :
    ∀ (track : List (Obs α)) (cands : List (Option (List Nat))) (ss : List (List (State α))),
      allStates sqrt eps radius edges track cands = .ok ss →
      ss.length = track.length ∧
      ∀ (k : Nat) (o : Obs α) (l : List (State α)), track[k]? = some o → ss[k]? = some l →
        l ≠ [] ∧ ∀ s ∈ l, IsFlag o.pos s ∨ Sound sqrt radius edges o.pos s := by
  intro track
  induction track with
  | nil =>
    intro cands ss h
    simp only [allStates] at h; injection h with h; subst h
    exact ⟨rfl, fun k o l hk => by simp at hk⟩
  | cons o os ih =>
    intro cands ss h
    rw [allStates] at h
    cases h1 : obsStates sqrt eps radius edges o.pos (cands.head?.getD none) with
    | error e => rw [h1] at h; cases h
    | ok s0 =>
      rw [h1] at h
      simp only at h
      cases h2 : allStates sqrt eps radius edges os cands.tail with
      | error e => rw [h2] at h; cases h
      | ok rest =>
        rw [h2] at h
        injection h with h; subst h
        obtain ⟨len, f⟩ := ih _ _ h2
        refine ⟨by simp [len], ?_⟩
        intro k o' l hk hl
        cases k with
        | zero =>
          simp only [List.getElem?_cons_zero, Option.some.injEq] at hk hl
          subst hk hl
          exact candidate_sound hs eps radius edges _ _ _ h1
        | succ k =>
          simp only [List.getElem?_cons_succ] at hk hl
          exact f k o' l hk hl

/-- T2 `inferred_is_candidate`: when `mapOnNetwork` returns — whatever the decoder — the `hmm_inference` column has
one entry per observation, entry `k` is one of `STATES[k]`, hence every observation is flagged or assigned a
sound candidate: a point on the geometry of an existing edge, strictly within the search radius of the observed
position, with distances to the edge's two end nodes that add up to the edge length. -/
theorem inferred_is_candidate {sqrt : α → α} (hs : SqrtSpec sqrt) (eps radius : α) (edges : List (Edge α)) (mode : Nat)
    (decode : List (List (State α)) → List Nat) (track : List (Obs α)) (names : List String)
    (cands : List (Option (List Nat))) (res : Result α)
    (h : mapOnNetwork sqrt eps radius edges mode decode track names cands = .ok res) :
    res.inference.length = track.length ∧
    ∀ (k : Nat) (o : Obs α) (st : State α), track[k]? = some o → res.inference[k]? = some st →
      (∃ l, res.states[k]? = some l ∧ st ∈ l) ∧ (IsFlag o.pos st ∨ Sound sqrt radius edges o.pos st) := by
  unfold mapOnNetwork at h
  cases h1 : allStates sqrt eps radius edges track cands with
  | error e => rw [h1] at h; cases h
  | ok states =>
    rw [h1] at h
    simp only at h
    cases h2 : inferAll states (decode states) with
    | error e => rw [h2] at h; cases h
    | ok inf =>
      rw [h2] at h
      injection h with h; subst h
      obtain ⟨len, f⟩ := all_states_sound hs eps radius edges track cands states h1
      obtain ⟨len2, g⟩ := inferAll_mem states _ _ h2
      refine ⟨by simp only; rw [len2, len], ?_⟩
      intro k o st hk hst
      obtain ⟨l, hl, hm⟩ := g k st hst
      exact ⟨⟨l, hl, hm⟩, (f k o l hk hl).2 st hm⟩

/-- T3 `track_preserved`: `mapOnNetwork` (which calls the decoder with mode 1, and more generally any mode outside
{3,4,5}) returns the same observations in the same order with unchanged positions and timestamps; the only
change to the track is the creation of the columns `obs_noise`, `hmm_inference`, `hmm_cost` (each only if
absent), every existing feature name being kept. -/
theorem track_preserved (sqrt : α → α) (eps radius : α) (edges : List (Edge α)) (mode : Nat)
    (hmode : writesPositions mode = false)
    (decode : List (List (State α)) → List Nat) (track : List (Obs α)) (names : List String)
    (cands : List (Option (List Nat))) (res : Result α)
    (h : mapOnNetwork sqrt eps radius edges mode decode track names cands = .ok res) :
    res.track = track ∧
    res.features = addName (addName (addName names "obs_noise") "hmm_inference") "hmm_cost" ∧
    (∀ n ∈ names, n ∈ res.features) := by
  have keep : ∀ (ns : List String) (m n : String), n ∈ ns → n ∈ addName ns m := by
    intro ns m n hn
    unfold addName; split
    · exact hn
    · exact List.mem_append_left _ hn
  unfold mapOnNetwork at h
  cases h1 : allStates sqrt eps radius edges track cands with
  | error e => rw [h1] at h; cases h
  | ok states =>
    rw [h1] at h
    simp only at h
    cases h2 : inferAll states (decode states) with
    | error e => rw [h2] at h; cases h
    | ok inf =>
      rw [h2] at h
      injection h with h; subst h
      exact ⟨newPositions_id mode hmode track inf, rfl, fun n hn => keep _ _ _ (keep _ _ _ (keep _ _ _ hn))⟩

/-- the mode used by `mapOnNetwork` (`MODE_OBS_AS_2D_POSITIONS = 1`) does not write positions -/
example : writesPositions 1 = false := by decide

/-- T3b `timestamps_preserved`: in every mode (also those that overwrite positions) the number of observations and
their timestamps are unchanged. -/
theorem timestamps_preserved (sqrt : α → α) (eps radius : α) (edges : List (Edge α)) (mode : Nat)
    (decode : List (List (State α)) → List Nat) (track : List (Obs α)) (names : List String)
    (cands : List (Option (List Nat))) (res : Result α)
    (h : mapOnNetwork sqrt eps radius edges mode decode track names cands = .ok res) :
    res.track.map (·.t) = track.map (·.t) := by
  unfold mapOnNetwork at h
  cases h1 : allStates sqrt eps radius edges track cands with
  | error e => rw [h1] at h; cases h
  | ok states =>
    rw [h1] at h
    simp only at h
    cases h2 : inferAll states (decode states) with
    | error e => rw [h2] at h; cases h
    | ok inf =>
      rw [h2] at h
      injection h with h; subst h
      exact newPositions_times mode track inf

/-- T2b `decoder_in_range_total`: a decoder that answers, for every epoch, an index inside that epoch's candidate list
(what `HMM.estimate` does: `argmin` of a non-empty row, then back-pointers initialised to 0 into non-empty rows —
rows are non-empty by T1) never makes the backward step fail. -/
theorem decoder_in_range_total (ss : List (List (State α))) (idx : List Nat)
    (h : ∀ (k : Nat) (l : List (State α)), ss[k]? = some l → idx[k]?.getD 0 < l.length) :
    ∃ inf, inferAll ss idx = .ok inf := inferAll_total ss idx h

/-- T2c `viterbi_decoder_total`: with the decoder of C09 (`Model/Viterbi`: first-minimum scan with `best_ant = 0`,
back-pointers, path from any valid last state — `np.argmin` of the non-empty last row), over ANY cost tables whose
row sizes are the sizes of the candidate lists, the backward step of `mapOnNetwork` never fails: the candidate lists
are non-empty (T1), so every decoded index is in range. No assumption on the costs. -/
theorem viterbi_decoder_total {β : Type} [LinearOrder β] (ss : List (List (State α)))
    (t : TV.Viterbi.Tables β) (hpos : ∀ k, 0 < t.n k)
    (hn : ∀ (k : Nat) (l : List (State α)), ss[k]? = some l → t.n k = l.length)
    (last : Nat) (hl : last < t.n (ss.length - 1)) :
    ∃ inf, inferAll ss ((List.range ss.length).map (TV.Viterbi.back t (ss.length - 1) last)) = .ok inf := by
  apply inferAll_total
  intro k l hk
  have hk' : k < ss.length := by
    rcases Nat.lt_or_ge k ss.length with h | h
    · exact h
    · rw [List.getElem?_eq_none h] at hk; cases hk
  have e : ((List.range ss.length).map (TV.Viterbi.back t (ss.length - 1) last))[k]? =
      some (TV.Viterbi.back t (ss.length - 1) last k) := by
    simp [hk']
  rw [e, Option.getD_some, ← hn k l hk]
  exact TV.Viterbi.back_in_range t hpos (ss.length - 1) last hl k (by omega)

/-! Non-vacuity, evaluated on the model over `Rat`: edge 0 = `(0,0)-(8,0)` (horizontal), edge 1 = `(8,0)-(8,6)`
(vertical); observation `(3,4)` with radius 5 → candidate on edge 0 at `(3,0)`, distances 3 and 5 (length 8). -/
def sqTable : Rat → Rat := fun v =>
  if v = 64 then 8 else if v = 9 then 3 else if v = 25 then 5 else if v = 36 then 6 else if v = 16 then 4 else 0

example : (match obsStates sqTable 1 5 [mkEdge sqTable [(0, 0), (8, 0)], mkEdge sqTable [(8, 0), (8, 6)]] (3, 4) (some [0]) with
    | .ok [s] => decide (s.p = (3, 0) ∧ s.edge = 0 ∧ s.d0 = 3 ∧ s.d1 = 5)
    | _ => false) = true := by decide +kernel
/-- no candidate within the radius → the flag state -/
example : (match obsStates sqTable 1 2 [mkEdge sqTable [(0, 0), (8, 0)]] (3, 4) (some [0]) with
    | .ok [s] => decide (s.p = (3, 4) ∧ s.edge = -1 ∧ s.d0 = -1 ∧ s.d1 = -1)
    | _ => false) = true := by decide +kernel

end TV.C10
