import TracklibVerif.Lemmas.ObsTimeNeg
import TracklibVerif.Props.C03
import Mathlib.Algebra.Order.Floor.Ring
import Mathlib.Data.Rat.Floor
/-! C03, the domain boundary as theorems: what this tree does with an instant BEFORE 1970.

The property speaks of seconds since 1970. Before 1970 no oracle clause and no theorem of `Props/C03.lean` applies;
the theorems below say what `readUnixTime`, `toAbsTime`, `addSec` and `convertToZone` of this tree compute there,
operation for operation, in exact arithmetic (ordered field; `int()` rounds toward zero: `TruncNeg`). With IEEE
doubles the same definitions are run bit-exactly at `Float` by the correspondence (streams `rdf` / `addf` / `prog`
with negative instants). -/
open TV.ObsTime
namespace TV.C03

section Before1970
variable {α : Type} [Field α] [LinearOrder α] [IsStrictOrderedRing α]

/-- B1: for every `x ≤ 0` the reader, run operation for operation, stops both loops at once (1970, January) and
returns `day = 1 − n div 86400` and the NEGATED hour, minute, second, millisecond of `−x = n + f`
(`readUnixTime(-1)` is `1970-01-01 00:00:-1`, `readUnixTime(-86400.5)` is `1970-01-00 00:00:00.-500`). -/
theorem readUnixG_before1970 (trunc : α → Int) (htn : TruncNeg trunc) (x : α) (hx : x ≤ 0) :
    readUnixG trunc x = some (readUnixNegSpec trunc x) := by
  obtain ⟨hf0, hf1⟩ := neg_frac_bounds trunc htn x hx
  have e : x = -((((-(trunc x)).toNat : Nat) : α) + (-x - (((-(trunc x)).toNat : Nat) : α))) := by ring
  conv_lhs => rw [e]
  exact readUnixG_neg_nat_add_frac trunc htn _ _ hf0 hf1

/-- B2: the fields of that stamp: year 1970, month 1, day ≤ 1, hour −23…0, minute and second −59…0,
millisecond −999…0 — every field other than year and month is non-positive (day − 1 included). -/
theorem readUnixG_before1970_fields (trunc : α → Int) (htn : TruncNeg trunc) (x : α) (hx : x ≤ 0) :
    let r := readUnixNegSpec trunc x
    r.year = 1970 ∧ r.month = 1 ∧ r.day ≤ 1 ∧ (-23 ≤ r.hour ∧ r.hour ≤ 0) ∧ (-59 ≤ r.min ∧ r.min ≤ 0)
      ∧ (-59 ≤ r.sec ∧ r.sec ≤ 0) ∧ (-999 ≤ r.ms ∧ r.ms ≤ 0) := by
  obtain ⟨hf0, hf1⟩ := neg_frac_bounds trunc htn x hx
  obtain ⟨m, hm, hm1, -, -⟩ := ms_neg_bounds trunc htn _ hf0 hf1
  simp only [readUnixNegSpec, negStamp, hm]
  refine ⟨trivial, trivial, ?_, ?_, ?_, ?_, ?_⟩ <;> omega

/-- B3: the INSTANT is nevertheless kept to within one millisecond, rounded toward zero:
`x ≤ toAbsTime(readUnixTime(x)) < x + 1/1000` for `x ≤ 0` (after 1970 it is `x − 1/1000 < … ≤ x`). -/
theorem readUnixG_before1970_instant (trunc : α → Int) (htn : TruncNeg trunc) (x : α) (hx : x ≤ 0) :
    x ≤ toAbsG (readUnixNegSpec trunc x) ∧ toAbsG (readUnixNegSpec trunc x) < x + 1 / 1000 := by
  obtain ⟨hf0, hf1⟩ := neg_frac_bounds trunc htn x hx
  obtain ⟨m, hm, -, hm2, hm3⟩ := ms_neg_bounds trunc htn _ hf0 hf1
  unfold toAbsG readUnixNegSpec
  rw [secondsZ_negStamp, hm]
  simp only [negStamp, Int.cast_neg, Int.cast_natCast, Int.cast_ofNat]
  constructor <;> linarith

/-- B4: the domain boundary. A millisecond or more before 1970 the stamp returned is NOT well formed (day 0 or less, or a
negative hour, minute, second or millisecond); less than a millisecond before 1970 it is the epoch stamp `ObsTime()`. -/
theorem readUnixG_before1970_illFormed (trunc : α → Int) (htn : TruncNeg trunc) (x : α) (hx : x ≤ 0) :
    let r := readUnixNegSpec trunc x
    (x ≤ -(1 / 1000) → r.day < 1 ∨ r.hour < 0 ∨ r.min < 0 ∨ r.sec < 0 ∨ r.ms < 0)
    ∧ (-(1 / 1000) < x → r = defaultZ) := by
  obtain ⟨hf0, hf1⟩ := neg_frac_bounds trunc htn x hx
  obtain ⟨m, hm, hm1, hm2, hm3⟩ := ms_neg_bounds trunc htn _ hf0 hf1
  simp only [readUnixNegSpec, negStamp, hm]
  generalize hn : (-(trunc x)).toNat = n at *
  constructor
  · intro h
    by_cases h0 : n = 0
    · subst h0
      have : (1 : α) ≤ (-x - ((0 : Nat) : α)) * 1000 := by simp only [Nat.cast_zero]; linarith
      have : ((1 : Nat) : α) < ((m + 1 : Nat) : α) := by push_cast; linarith
      have : 1 < m + 1 := by exact_mod_cast this
      right; right; right; right; omega
    · omega
  · intro h
    have hnα : (n : α) < ((1 : Nat) : α) := by push_cast; linarith
    have hn0 : n = 0 := by have : n < 1 := by exact_mod_cast hnα
                           omega
    subst hn0
    have : (m : α) < ((1 : Nat) : α) := by simp only [Nat.cast_zero] at hm2; push_cast; linarith
    have hm0 : m = 0 := by have : m < 1 := by exact_mod_cast this
                           omega
    subst hm0
    simp [defaultZ]

/-- B5: on a whole number `k` of milliseconds before 1970 the reader returns `negStamp (k div 1000) (−(k mod 1000))`, and the
round trip through `toAbsTime()` is exact: `toAbsTime(readUnixTime(−k/1000)) = −k/1000`. -/
theorem readUnixG_negMs (trunc : α → Int) (htn : TruncNeg trunc) (k : Nat) :
    readUnixG trunc (-((k : α) / 1000)) = some (negStamp (k / 1000) (-((k % 1000 : Nat) : Int))) := by
  have hk : -((k : α) / 1000) = -(((k / 1000 : Nat) : α) + ((k % 1000 : Nat) : α) / 1000) := by
    have : (k : α) = ((k / 1000 * 1000 + k % 1000 : Nat) : α) := by rw [Nat.div_add_mod']
    rw [this]; push_cast; ring
  have hlt : ((k % 1000 : Nat) : α) < ((1000 : Nat) : α) := by exact_mod_cast Nat.mod_lt k (by decide)
  have hf0 : (0 : α) ≤ ((k % 1000 : Nat) : α) / 1000 := by positivity
  have hf1 : ((k % 1000 : Nat) : α) / 1000 < 1 := by
    rw [div_lt_one (by norm_num)]; simpa using hlt
  have hms : trunc (-(((k % 1000 : Nat) : α) / 1000 * 1000)) = -((k % 1000 : Nat) : Int) := by
    have e : ((k % 1000 : Nat) : α) / 1000 * 1000 = ((k % 1000 : Nat) : α) + 0 := by ring
    rw [e, trunc_neg trunc, trunc_nat_add_frac (mirror trunc) htn.mirrorZ _ 0 (le_refl _) one_pos]
  rw [hk, readUnixG_neg_nat_add_frac trunc htn _ _ hf0 hf1, hms]
  rfl

theorem toAbsG_readUnixG_before1970 (trunc : α → Int) (htn : TruncNeg trunc) (k : Nat) :
    ∃ r, readUnixG trunc (-((k : α) / 1000)) = some r ∧ (toAbsG r : α) = -((k : α) / 1000) := by
  refine ⟨_, readUnixG_negMs trunc htn k, ?_⟩
  unfold toAbsG
  rw [secondsZ_negStamp]
  have : (k : α) = ((k / 1000 * 1000 + k % 1000 : Nat) : α) := by rw [Nat.div_add_mod']
  rw [this]
  simp only [negStamp, Int.cast_neg, Int.cast_natCast, Int.cast_ofNat]
  push_cast; ring

/-- B6: **there and back across 1970.** From a well-formed stamp, `addSec(k)` with a whole `k` that leads to 1970 or before
returns an ill-formed stamp (B4) whose `toAbsTime()` is nevertheless exactly `toAbsTime() + k`, and `addSec(−k)` on THAT
stamp returns the stamp one started from. (Needs `int()` on both sides of zero: `TruncZ` and `TruncNeg`.) -/
theorem addSecG_before1970_back (trunc : α → Int) (htr : TruncZ trunc) (htn : TruncNeg trunc) (t : Stamp) (h : WFs t)
    (k : Int) (hk : (toAbsMs t : Int) + k * 1000 ≤ 0) :
    ∃ r, addSecG trunc t.toZ ((k : Int) : α) = some r ∧ (toAbsG r : α) = toAbsG t.toZ + ((k : Int) : α)
      ∧ addSecG trunc r ((-k : Int) : α) = some t.toZ := by
  have hd := h.1.2.2.2.1
  obtain ⟨j, hj⟩ := Int.eq_ofNat_of_zero_le (show 0 ≤ -((toAbsMs t : Int) + k * 1000) by omega)
  have e : (toAbsG t.toZ : α) + ((k : Int) : α) = -((j : α) / 1000) := by
    rw [toAbsG_toZ t hd]
    have : ((j : Int) : α) = -(((toAbsMs t : Int) : α) + ((k : Int) : α) * 1000) := by
      rw [← hj]; push_cast; ring
    simp only [Int.cast_natCast] at this
    rw [this]; ring
  obtain ⟨r, hr1, hr2⟩ := toAbsG_readUnixG_before1970 trunc htn j
  refine ⟨r, by unfold addSecG; rw [e]; exact hr1, by rw [hr2, e], ?_⟩
  unfold addSecG
  have : (toAbsG r : α) + ((-k : Int) : α) = toAbsG t.toZ := by
    rw [hr2, ← e]; push_cast; ring
  rw [this]
  exact readUnixG_toAbsG trunc htr t h

/-- B7: the same for `convertToZone`: a conversion whose target is 1970 or before, followed by the conversion back to the
zone one came from, returns the stamp (and the label) one started from. -/
theorem convertToZoneG_before1970_back (trunc : α → Int) (htr : TruncZ trunc) (htn : TruncNeg trunc) (t : Stamp)
    (h : WFs t) (z0 z : Int) (hk : (toAbsMs t : Int) + 3600000 * (z - z0) ≤ 0) :
    ∃ r, convertToZoneG trunc (⟨t.toZ, z0⟩ : ObsZ) z = some ⟨r, z⟩
      ∧ (toAbsG r : α) = toAbsG t.toZ + ((3600 * (z - z0) : Int) : α)
      ∧ convertToZoneG trunc (⟨r, z⟩ : ObsZ) z0 = some ⟨t.toZ, z0⟩ := by
  obtain ⟨r, h1, h2, h3⟩ := addSecG_before1970_back trunc htr htn t h (3600 * (z - z0)) (by omega)
  unfold addSecG at h1 h3
  refine ⟨r, by simp only [convertToZoneG, h1, Option.map_some], h2, ?_⟩
  have e : (3600 * (z0 - z) : Int) = -(3600 * (z - z0)) := by ring
  simp only [convertToZoneG, e, h3, Option.map_some]

/-- B8a: `addSec(a)` / `addMin(a)` / `addHour(a)` / `addDay(a)` for ANY scalar amount (fractional included) and any stamp, when
the instant asked for is 1970 or before: the stamp of B1/B2 (ill formed from one millisecond before 1970 on, B4), whose
`toAbsTime()` is the instant asked for to within one millisecond, rounded toward zero. -/
theorem addG_before1970_spec (trunc : α → Int) (htn : TruncNeg trunc) (t : StampZ) (a c : α) (h : toAbsG t + a * c ≤ 0) :
    readUnixG trunc (toAbsG t + a * c) = some (readUnixNegSpec trunc (toAbsG t + a * c))
    ∧ toAbsG t + a * c ≤ toAbsG (readUnixNegSpec trunc (toAbsG t + a * c))
    ∧ toAbsG (readUnixNegSpec trunc (toAbsG t + a * c)) < toAbsG t + a * c + 1 / 1000 :=
  ⟨readUnixG_before1970 trunc htn _ h, readUnixG_before1970_instant trunc htn _ h⟩

theorem addSecG_before1970_spec (trunc : α → Int) (htn : TruncNeg trunc) (t : StampZ) (a : α) (h : toAbsG t + a ≤ 0) :
    ∃ r, addSecG trunc t a = some r ∧ r = readUnixNegSpec trunc (toAbsG t + a)
      ∧ toAbsG t + a ≤ toAbsG r ∧ toAbsG r < toAbsG t + a + 1 / 1000 := by
  have := addG_before1970_spec trunc htn t a 1 (by simpa using h)
  simp only [mul_one] at this
  exact ⟨_, this.1, rfl, this.2⟩

theorem addMinHourDayG_before1970_spec (trunc : α → Int) (htn : TruncNeg trunc) (t : StampZ) (a : α) :
    (toAbsG t + a * 60 ≤ 0 → ∃ r, addMinG trunc t a = some r
        ∧ toAbsG t + a * 60 ≤ toAbsG r ∧ toAbsG r < toAbsG t + a * 60 + 1 / 1000)
    ∧ (toAbsG t + a * 3600 ≤ 0 → ∃ r, addHourG trunc t a = some r
        ∧ toAbsG t + a * 3600 ≤ toAbsG r ∧ toAbsG r < toAbsG t + a * 3600 + 1 / 1000)
    ∧ (toAbsG t + a * 86400 ≤ 0 → ∃ r, addDayG trunc t a = some r
        ∧ toAbsG t + a * 86400 ≤ toAbsG r ∧ toAbsG r < toAbsG t + a * 86400 + 1 / 1000) := by
  refine ⟨fun h => ?_, fun h => ?_, fun h => ?_⟩
  · have := addG_before1970_spec trunc htn t a 60 h
    exact ⟨_, by simpa [addMinG] using this.1, this.2⟩
  · have := addG_before1970_spec trunc htn t a 3600 h
    exact ⟨_, by simpa [addHourG] using this.1, this.2⟩
  · have := addG_before1970_spec trunc htn t a 86400 h
    exact ⟨_, by simpa [addDayG] using this.1, this.2⟩

/-- B9: **`addSec(k)` for a whole `k`, on both sides of 1970, with no domain hypothesis**: from a well-formed stamp the call
returns `shiftMsZ t (1000 k)` — the integer model's stamp of `toAbsMs + 1000 k` when that is not negative (T12), the negated
decomposition of `−(toAbsMs + 1000 k)` when it is. -/
theorem addSecG_total (trunc : α → Int) (htr : TruncZ trunc) (htn : TruncNeg trunc) (t : Stamp) (h : WFs t) (k : Int) :
    addSecG trunc t.toZ ((k : Int) : α) = some (shiftMsZ t (k * 1000)) := by
  unfold shiftMsZ
  by_cases hk : 0 ≤ (toAbsMs t : Int) + k * 1000
  · simp only [hk, ↓reduceIte]
    exact addSecG_whole trunc htr t h k hk
  · simp only [hk, ↓reduceIte]
    obtain ⟨j, hj⟩ := Int.eq_ofNat_of_zero_le (show 0 ≤ -((toAbsMs t : Int) + k * 1000) by omega)
    have e : (toAbsG t.toZ : α) + ((k : Int) : α) = -((j : α) / 1000) := by
      rw [toAbsG_toZ t h.1.2.2.2.1]
      have : ((j : Int) : α) = -(((toAbsMs t : Int) : α) + ((k : Int) : α) * 1000) := by
        rw [← hj]; push_cast; ring
      simp only [Int.cast_natCast] at this
      rw [this]; ring
    unfold addSecG
    rw [e, readUnixG_negMs trunc htn j, hj, Int.toNat_natCast]

/-- B10: the same for `convertToZone(z)` on a well-formed stamp labelled `z0`: `shiftMsZ t (3 600 000 (z − z0))`, labelled `z`,
whatever the target (Z3 without its hypothesis "not before 1970"). -/
theorem convertToZoneG_total (trunc : α → Int) (htr : TruncZ trunc) (htn : TruncNeg trunc) (t : Stamp) (h : WFs t)
    (z0 z : Int) :
    convertToZoneG trunc (⟨t.toZ, z0⟩ : ObsZ) z = some ⟨shiftMsZ t (3600000 * (z - z0)), z⟩ := by
  have := addSecG_total trunc htr htn t h (3600 * (z - z0))
  unfold addSecG at this
  have e : 3600 * (z - z0) * 1000 = 3600000 * (z - z0) := by ring
  simp only [convertToZoneG, this, Option.map_some, e]

/-- B11: `Track.convertToTimeZone(z)` and `Track.addSeconds(k)` (`k` whole) on ANY track of well-formed stamps, each with its
own label — some targets before 1970, some not: stamp by stamp `shiftMsZ` (Z8 without its domain hypothesis). -/
theorem convertToTimeZone_total (trunc : α → Int) (htr : TruncZ trunc) (htn : TruncNeg trunc) (z : Int)
    (ts : List (Stamp × Int)) (h : ∀ p ∈ ts, WFs p.1) :
    convertToTimeZone (α := α) trunc z (ts.map fun p => ⟨p.1.toZ, p.2⟩)
      = some (ts.map fun p => ⟨shiftMsZ p.1 (3600000 * (z - p.2)), z⟩) := by
  unfold convertToTimeZone
  rw [List.mapM_map]
  exact mapM_some_of_forall _ _ ts (fun p hp => convertToZoneG_total trunc htr htn p.1 (h p hp) p.2 z)

theorem addSeconds_total (trunc : α → Int) (htr : TruncZ trunc) (htn : TruncNeg trunc) (k : Int)
    (ts : List (Stamp × Int)) (h : ∀ p ∈ ts, WFs p.1) :
    addSeconds trunc ((k : Int) : α) (ts.map fun p => ⟨p.1.toZ, p.2⟩)
      = some (ts.map fun p => ⟨shiftMsZ p.1 (k * 1000), 0⟩) := by
  unfold addSeconds
  rw [List.mapM_map]
  refine mapM_some_of_forall _ _ ts (fun p hp => ?_)
  simp only [Function.comp, addZ, addSecG_total trunc htr htn p.1 (h p hp) k, Option.map_some]

end Before1970

/-- B8: `toAbsTime()` counts a year before 1970 as 1970: `range(1970, year)` is empty, so the years contribute nothing
(only the leap rule of the February of `year` is still read). -/
theorem toAbs_year_before1970 (t : StampZ) (hy : t.year ≤ 1970) :
    secondsZ t = ((daysBeforeMonth t.year (t.month - 1) : Nat) : Int) * 86400
      + (t.day - 1) * 86400 + t.hour * 3600 + t.min * 60 + t.sec := by
  have : t.year - 1970 = 0 := by omega
  simp only [secondsZ, this, daysBeforeYear, Nat.zero_add]

/-- `int()` toward zero on the rationals satisfies both contracts -/
def truncQ (x : ℚ) : Int := if 0 ≤ x then ⌊x⌋ else ⌈x⌉

example : TruncZ truncQ := fun x hx => by
  simp only [truncQ, hx, ↓reduceIte]
  exact ⟨Int.floor_nonneg.2 hx, Int.floor_le x, Int.lt_floor_add_one x⟩

example : TruncNeg truncQ := fun x hx => by
  by_cases h0 : 0 ≤ x
  · have : x = 0 := le_antisymm hx h0
    subst this; simp [truncQ]
  · simp only [truncQ, h0, ↓reduceIte]
    refine ⟨Int.ceil_le.2 (by simpa using hx), Int.le_ceil x, ?_⟩
    have := Int.ceil_lt_add_one x
    linarith

/-- witnesses replayed on the real code (corpus/C03/before1970_*.json): `readUnixTime(-1)`, `readUnixTime(-86400.5)`;
1969-12-31 23:59:59 has `toAbsTime() = 31 535 999`, not −1 -/
example : readUnixNegSpec truncQ (-1) = ⟨1970, 1, 1, 0, 0, -1, 0⟩ := by decide +kernel
example : readUnixNegSpec truncQ (-(864005 / 10)) = ⟨1970, 1, 0, 0, 0, 0, -500⟩ := by decide +kernel
example : secondsZ ⟨1969, 12, 31, 23, 59, 59, 0⟩ = 31535999 := by decide +kernel
example : WFs ⟨⟨1970, 1, 1, 0, 30, 0⟩, 7⟩ ∧ (toAbsMs ⟨⟨1970, 1, 1, 0, 30, 0⟩, 7⟩ : Int) + 3600000 * (-1 - 0) ≤ 0 := by
  unfold WFs WF monthDays isLeap; decide

example : shiftMsZ ⟨⟨1970, 1, 1, 0, 30, 0⟩, 0⟩ (3600000 * (-1 - 0)) = ⟨1970, 1, 1, 0, -30, 0, 0⟩ := by decide +kernel
example : shiftMsZ ⟨⟨1970, 1, 1, 0, 30, 0⟩, 7⟩ (3600000 * (1 - 0)) = ⟨1970, 1, 1, 1, 30, 0, 7⟩ := by decide +kernel

end TV.C03
