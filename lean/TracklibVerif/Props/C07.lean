import TracklibVerif.Lemmas.GraphBack
import TracklibVerif.Lemmas.GraphPathExt
import TracklibVerif.Lemmas.GraphMut
import TracklibVerif.Lemmas.GraphR4
import Mathlib.Algebra.Order.Group.Int
/-! # C07 — a returned shortest path is a real, optimal, geometrically continuous route

Property theorems only (helper lemmas: `Lemmas/GraphPath.lean` — the invariant on `antecedent` /
`antecedent_edge`; `Lemmas/GraphBack.lean` — the backward walk). The model (`Model/Graph.lean`) mirrors
`Network.shortest_path` = `run_routing_forward(source, target, cut)` followed by `run_routing_backward(target)`
as it is after fix 9d0d428. Weights: any linear order with an addition that satisfies `WalkAdd` (`Lemmas/Graph.lean`: adding
a non-negative weight does not decrease a label, addition on the right is monotone — every linearly ordered additive
commutative monoid, and also IEEE-754 round-to-nearest addition on the non-NaN doubles, which is not associative: the weight
of a route is the sum taken from the source outwards, `((0 + w₁) + w₂) + …`, as the code takes it), non-negative (`WFNet`);
edge ids unique (`UniqueIds`, `EDGES` is a dict); points: any type.

Sections: the four theorems of the design (walk, optimal, geometry chained, unreachable ⇒ None) on point lists;
any cut-off, also below the true distance (`path_cut_sound`); the same through the TRACK operators of the C04 model
(`Model/GraphPathExt.lean`: `Track()`, `addObs`, `copy`, `reverse`, `>`, `+` — `track_operators_agree`,
`geometry_chained_track`, `path_optimal_track`); sequences of calls on one `Network` object with nodes given by id or by
object and an optional `output_dict` (`session_*`, `backward_after_full_search`, `backward_settled_optimal`,
`output_dict_entries_sound`); a network that is MODIFIED between the calls (`Model/GraphMut.lean`: edges and nodes added
after searches, `getEdge(i).weight = w`, new polylines, moved nodes, `getEdge(i).orientation = o` — `mut_path_fresh`,
`mut_path_optimal`, `mut_path_cut_sound`, `mut_geometry_chained`, `orientation_attribute_not_read`,
`path_after_orientation_assignment`, `path_any_history`, `mut_never_diverges`). Arithmetic: no theorem uses associativity, commutativity or cancellation of `+`
(`WalkAdd` only), so the statements are about the sums as the code rounds them — PROVIDED the double addition satisfies
`WalkAdd`, which is a fact about IEEE-754 that is not proved here (Lean's `Float` is opaque); the float stream of the harness
runs the same model instantiated at `Float` bit for bit. "The shortest distance" is then the least rounded sum over walks.

A* MODE (`setRoutingMethod(ROUTING_ALGO_ASTAR)`: the queue ordered by `poids + heuristic`) is `Props/C07AStar.lean`: real / continuous / weights = reported
value for ANY heuristic, optimal for a consistent one, and from the configuration (weights ≥ `astar_wgt` × straight-line length).
FAMILIES of networks sharing their `Node` / `Edge` objects (`sub_network` kept and used) are `Props/C07Family.lean`: a `shortest_path`
on shared objects carrying any flags answers as on private objects.

`Route net geo s l g g' t y` (see `Lemmas/GraphBack.lean`) says: `l ++ [t]` is a list of nodes starting at `s` in which
each consecutive pair is joined by an existing edge travelled in a direction its orientation permits, `y` is the sum of
those edges' weights, `g` is the concatenation of those edges' polylines, each oriented along the direction of
travel and each without its last vertex (= the first vertex of the next polyline: junction vertices appear once), and
`g'` is the same concatenation with each polyline deprived of its first vertex instead. -/
namespace TV.C07
open TV.Graph
variable {W : Type} [LinearOrder W] [Add W] [Zero W] [WalkAdd W] {P : Type}

/-- the state left by the forward pass of `shortest_path(s, t, cut)` satisfies both invariants -/
theorem forward_state_good (net : Net W) (hnet : WFNet net) (s t : Nat) (hs : s < net.n) (cut : Option W) :
    Good net s (runForward net s (some t) cut).1 :=
  forward_good net hnet s (some t) cut net.n (St.init s) [] (good_init net s hs)

/-- T1 (`path_is_walk`) + first half of T3: whatever `shortest_path(s, t, cut)` returns as a path is a route:
its node list starts at `s`, ends at `t`, consecutive nodes are joined by the recorded edge in a permitted direction;
its geometry is the chain of those edges' polylines along the travel, junction vertices once, closed by the position
of `t`; and the recorded weights sum to the label of `t`. -/
theorem path_is_walk (net : Net W) (hnet : WFNet net) (hu : UniqueIds net) (geo : Geo P) (s t : Nat) (hs : s < net.n)
    (cut : Option W) (nodes : List Nat) (geom : List P) (h : shortestPath net geo s t cut = .path nodes geom) :
    ∃ l g g' y, nodes = l ++ [t] ∧ geom = g ++ [geo.pos t] ∧ nodes.head? = some s ∧ Route net geo s l g g' t y ∧
      Walk net s t y ∧ shortestDistance net s t cut = some y := by
  have hg := forward_state_good net hnet s t hs cut
  obtain ⟨h1, h2⟩ := runBackward_spec net hu geo s _ hg t
  unfold shortestPath at h
  cases hpt : (runForward net s (some t) cut).1.pred t with
  | none => rw [h1 hpt] at h; cases h
  | some p =>
    obtain ⟨l, g, g', y, hd, hr, hb⟩ := h2 p hpt
    rw [hb] at h
    simp only [Back.path.injEq] at h
    obtain ⟨rfl, rfl⟩ := h
    exact ⟨l, g, g', y, rfl, rfl, hr.nodes_head, hr, hr.walk, hd⟩

/-- T2 (`path_optimal`): the weights of the edges used by the path returned by `shortest_path(s, t)` sum to the
true shortest distance. -/
theorem path_optimal (net : Net W) (hnet : WFNet net) (hu : UniqueIds net) (geo : Geo P) (s t : Nat) (hs : s < net.n)
    (nodes : List Nat) (geom : List P) (h : shortestPath net geo s t none = .path nodes geom) :
    ∃ l g g' y, nodes = l ++ [t] ∧ geom = g ++ [geo.pos t] ∧ Route net geo s l g g' t y ∧ IsDist net s t y := by
  obtain ⟨l, g, g', y, a, b, _, c, _, d⟩ := path_is_walk net hnet hu geo s t hs none nodes geom h
  exact ⟨l, g, g', y, a, b, c, ((shortestDistance_spec net hnet s t hs).1 y).1 d⟩

/-- T2 with a cut-off: if the true distance does not exceed the cut-off, the returned path realises it. -/
theorem path_optimal_cut (net : Net W) (hnet : WFNet net) (hu : UniqueIds net) (geo : Geo P) (s t : Nat) (hs : s < net.n)
    (cut : Option W) (d : W) (hd : IsDist net s t d) (hw : Within cut d)
    (nodes : List Nat) (geom : List P) (h : shortestPath net geo s t cut = .path nodes geom) :
    ∃ l g g', nodes = l ++ [t] ∧ geom = g ++ [geo.pos t] ∧ Route net geo s l g g' t d := by
  obtain ⟨l, g, g', y, a, b, _, c, _, e⟩ := path_is_walk net hnet hu geo s t hs cut nodes geom h
  have : shortestDistance net s t cut = some d := by
    unfold shortestDistance runForward
    exact forward_label net hnet s t cut d hw net.n _ _ (inv_init net s hs) ((run_isDist net hnet s hs t d).2 hd)
  rw [this] at e
  cases e
  exact ⟨l, g, g', a, b, c⟩

/-- T3 (`geometry_chained`): when every edge polyline starts at its source's position and ends at its target's,
the returned geometry is the position of `s` followed by the polylines of the edges used (see `path_is_walk`), each
oriented along the direction of travel and each without its first vertex (junction vertices once); it starts at the
position of `s` and ends at the position of `t`. -/
theorem geometry_chained (net : Net W) (hnet : WFNet net) (hu : UniqueIds net) (geo : Geo P) (hgeo : GeoOK net geo)
    (s t : Nat) (hs : s < net.n) (cut : Option W) (nodes : List Nat) (geom : List P)
    (h : shortestPath net geo s t cut = .path nodes geom) :
    ∃ l g g' y, nodes = l ++ [t] ∧ Route net geo s l g g' t y ∧ geom = geo.pos s :: g' ∧
      geom.head? = some (geo.pos s) ∧ geom.getLast? = some (geo.pos t) := by
  obtain ⟨l, g, g', y, a, b, _, c, _, _⟩ := path_is_walk net hnet hu geo s t hs cut nodes geom h
  refine ⟨l, g, g', y, a, c, by rw [b]; exact c.geom_eq hgeo, ?_, by rw [b]; simp⟩
  rw [b]; exact c.geom_head hgeo

/-- T4 (`unreachable_none`): no permitted walk ⇒ `None`; and `t = s` ⇒ `None` (as coded). -/
theorem unreachable_none (net : Net W) (hnet : WFNet net) (hu : UniqueIds net) (geo : Geo P) (s t : Nat) (hs : s < net.n)
    (cut : Option W) (h : ¬ Reachable net s t ∨ t = s) : shortestPath net geo s t cut = .none := by
  obtain ⟨hinv, rk, K, hp⟩ := forward_state_good net hnet s t hs cut
  unfold shortestPath
  apply (runBackward_spec net hu geo s _ ⟨hinv, rk, K, hp⟩ t).1
  rcases h with h | h
  · cases hpt : (runForward net s (some t) cut).1.pred t with
    | none => rfl
    | some p =>
      obtain ⟨a, i⟩ := p
      obtain ⟨_, _, e, _, _, _, x, _, hd⟩ := hp.p2 t a i hpt
      exact absurd ⟨_, hinv.j3 t _ hd⟩ h
  · subst h; exact hp.p1

/-- converse of T4: a reachable target other than the source always gets a path (never `None`, and the backward
loop always ends). -/
theorem reachable_path (net : Net W) (hnet : WFNet net) (hu : UniqueIds net) (geo : Geo P) (s t : Nat) (hs : s < net.n)
    (hr : Reachable net s t) (hts : t ≠ s) : ∃ nodes geom, shortestPath net geo s t none = .path nodes geom := by
  obtain ⟨hinv, rk, K, hp⟩ := forward_state_good net hnet s t hs none
  have hsd := shortestDistance_spec net hnet s t hs
  cases hd : shortestDistance net s t none with
  | none => exact absurd hr (hsd.2.1 hd)
  | some y =>
    have hsome := hp.p3 t y hts hd
    cases hpt : (runForward net s (some t) none).1.pred t with
    | none => rw [hpt] at hsome; cases hsome
    | some p =>
      obtain ⟨l, g, g', y', _, _, hb⟩ := (runBackward_spec net hu geo s _ ⟨hinv, rk, K, hp⟩ t).2 p hpt
      exact ⟨_, _, hb⟩

/-- the backward loop `while node.antecedent != ""` always terminates on the flags left by the forward pass -/
theorem never_diverges (net : Net W) (hnet : WFNet net) (hu : UniqueIds net) (geo : Geo P) (s t : Nat) (hs : s < net.n)
    (cut : Option W) : shortestPath net geo s t cut ≠ .diverge := by
  have hg := forward_state_good net hnet s t hs cut
  obtain ⟨h1, h2⟩ := runBackward_spec net hu geo s _ hg t
  unfold shortestPath
  cases hpt : (runForward net s (some t) cut).1.pred t with
  | none => rw [h1 hpt]; intro h; cases h
  | some p =>
    obtain ⟨l, g, g', y, _, _, hb⟩ := h2 p hpt
    rw [hb]; intro h; cases h

/-! ### with a cut-off (also below the true distance) -/

/-- `shortest_path(s, t, cut)` for ANY cut-off, also one below the true distance (the forward pass then stops on a
label greater than the cut-off and may leave `t` with a tentative label): whatever is returned as a path is a real
route from `s` to `t` with its geometry chained, the weights of its edges sum to the value `y` that
`shortest_distance(s, t, cut)` reports, `y` is at least the true distance `d`, and if `y` does not exceed the
cut-off then `y = d`. So a returned path is optimal or visibly heavier than the cut-off, never a fake. -/
theorem path_cut_sound (net : Net W) (hnet : WFNet net) (hu : UniqueIds net) (geo : Geo P) (s t : Nat) (hs : s < net.n)
    (cut : Option W) (nodes : List Nat) (geom : List P) (h : shortestPath net geo s t cut = .path nodes geom) :
    ∃ l g g' y d, nodes = l ++ [t] ∧ geom = g ++ [geo.pos t] ∧ Route net geo s l g g' t y ∧
      shortestDistance net s t cut = some y ∧ IsDist net s t d ∧ d ≤ y ∧ (Within cut y → y = d) := by
  obtain ⟨l, g, g', y, a, b, _, c, hw, e⟩ := path_is_walk net hnet hu geo s t hs cut nodes geom h
  cases hr : (run net net.n (St.init s)).d t with
  | none => exact absurd ⟨y, hw⟩ ((run_none net hnet s hs t).1 hr)
  | some d =>
    have hd : IsDist net s t d := (run_isDist net hnet s hs t d).1 hr
    have hle : d ≤ y := hd.2 y hw
    refine ⟨l, g, g', y, d, a, b, c, e, hd, hle, fun hwi => ?_⟩
    have hwd : Within cut d := fun c' hc' => le_trans hle (hwi c' hc')
    have : shortestDistance net s t cut = some d := by
      unfold shortestDistance runForward
      exact forward_label net hnet s t cut d hwd net.n _ _ (inv_init net s hs) hr
    rw [this] at e
    exact (Option.some.inj e).symm

/-! ### the track operators (`copy`, `reverse`, `>`, `+`) as modelled for C04 -/
open TV.GraphExt

omit [WalkAdd W] in
/-- `shortest_path` with `run_routing_backward` written on TRACKS with the operators of the C04 model
(`track = track + (edge_geom > 1)` = `Seq.concat track (Seq.dropFirst edge_geom 1)`, `reverse` = copy with the points
reversed, `Track()` / `addObs`) returns: `None` / a path exactly when the list-level model does, with the same node list,
the same points, and no analytical feature. The proof uses the C04 property theorems `TV.C04.concat_spec` and
`TV.C04.dropFirst_spec` for the two operators. -/
theorem track_operators_agree (net : Net W) (geo : GeoT) (s t : Nat) (cut : Option W) :
    shortestPathT net geo s t cut = liftBack (shortestPath net geo.toGeo s t cut) :=
  runBackwardT_eq net geo _ t

/-- T3 through the track operators: when every edge geometry starts at its source's position and ends at its
target's, the `Track` returned by `shortest_path(s, t, cut)` has exactly the points `pos s` followed by the polylines
of the edges used, each oriented along the travel and without its first vertex (`edge_geom > 1`: junction vertices
once); it starts at the position of `s`, ends at the position of `t` and carries no analytical feature. Edge
polylines are arbitrary lists: repeated vertices, two-vertex and one-vertex geometries, edges stored against the
direction of travel (`SENS_INVERSE`) and parallel edges are all covered. -/
theorem geometry_chained_track (net : Net W) (hnet : WFNet net) (hu : UniqueIds net) (geo : GeoT)
    (hgeo : GeoOK net geo.toGeo) (s t : Nat) (hs : s < net.n) (cut : Option W) (nodes : List Nat) (trk : Seq.Track)
    (h : shortestPathT net geo s t cut = .path nodes trk) :
    ∃ l g g' y, nodes = l ++ [t] ∧ Route net geo.toGeo s l g g' t y ∧ trk.pts = geo.pos s :: g' ∧ trk.table = [] ∧
      trk.pts.head? = some (geo.pos s) ∧ trk.pts.getLast? = some (geo.pos t) := by
  rw [track_operators_agree] at h
  obtain ⟨h1, h2⟩ := liftBack_path h
  obtain ⟨l, g, g', y, a, b, c, d, e⟩ := geometry_chained net hnet hu geo.toGeo hgeo s t hs cut nodes trk.pts h1
  exact ⟨l, g, g', y, a, b, c, h2, d, e⟩

/-- T1/T2/T4 through the track operators: `None` exactly when the list-level model returns `None`, never a
divergence; a returned track's points are a route's chain closed by the position of `t`, and without cut-off the
weights sum to the true distance. -/
theorem path_optimal_track (net : Net W) (hnet : WFNet net) (hu : UniqueIds net) (geo : GeoT) (s t : Nat) (hs : s < net.n) :
    shortestPathT net geo s t none ≠ .diverge ∧
    (shortestPathT net geo s t none = .none ↔ (¬ Reachable net s t ∨ t = s)) ∧
    (∀ nodes trk, shortestPathT net geo s t none = .path nodes trk →
      ∃ l g g' y, nodes = l ++ [t] ∧ trk = ⟨g ++ [geo.pos t], []⟩ ∧ Route net geo.toGeo s l g g' t y ∧ IsDist net s t y) := by
  rw [track_operators_agree]
  refine ⟨fun h => never_diverges net hnet hu geo.toGeo s t hs none (liftBack_diverge.1 h), ?_, ?_⟩
  · rw [liftBack_none]
    constructor
    · intro h
      by_contra hc
      have hc' : Reachable net s t ∧ t ≠ s := by
        constructor
        · by_contra h'; exact hc (Or.inl h')
        · intro h'; exact hc (Or.inr h')
      obtain ⟨nodes, geom, hp⟩ := reachable_path net hnet hu geo.toGeo s t hs hc'.1 hc'.2
      rw [h] at hp; cases hp
    · exact unreachable_none net hnet hu geo.toGeo s t hs none
  · intro nodes trk h
    obtain ⟨h1, h2⟩ := liftBack_path h
    obtain ⟨l, g, g', y, a, b, c, d⟩ := path_optimal net hnet hu geo.toGeo s t hs nodes trk.pts h1
    refine ⟨l, g, g', y, a, ?_, c, d⟩
    cases trk with
    | mk p tb => simp only at b h2; rw [b, h2]; rfl

/-! ### several searches on one `Network` object -/

omit [WalkAdd W] in
/-- `shortest_path(source, target, cut[, output_dict])` called at any point of a session returns what it returns on
a fresh network: it does not depend on the flags left on the nodes by earlier searches (`__resetFlags`), on whether
the nodes are designated by id or by `Node` object (`__correctInputNode`), nor on an `output_dict` being passed; the
label left on the target is what `shortest_distance` with the same arguments reports. -/
theorem session_path_fresh (net : Net W) (geo : GeoT) (order : List Nat) (se : Sess W) (s t : NodeArg) (cut : Option W)
    (ud : Bool) :
    (stepOp net geo order se (.path s t cut ud)).2 =
      .path (shortestPathT net geo (correctInputNode s) (correctInputNode t) cut)
            (shortestDistance net (correctInputNode s) (correctInputNode t) cut) := rfl

omit [WalkAdd W] in
/-- `shortest_distance(source, target, cut[, output_dict])` at any point of a session = on a fresh network -/
theorem session_dist_fresh (net : Net W) (geo : GeoT) (order : List Nat) (se : Sess W) (s t : NodeArg) (cut : Option W)
    (ud : Bool) :
    (stepOp net geo order se (.dist s (some t) cut ud)).2 =
      .dist (shortestDistance net (correctInputNode s) (correctInputNode t) cut) := rfl

omit [WalkAdd W] in
/-- the entries written to a caller's `output_dict` by `shortest_path(s, t, cut, output_dict)` and by
`shortest_distance(s, t, cut, output_dict)` are the same, and so are the flags left on the nodes -/
theorem session_path_dist_same_state (net : Net W) (geo : GeoT) (order : List Nat) (se : Sess W) (s t : NodeArg)
    (cut : Option W) (ud : Bool) :
    (stepOp net geo order se (.path s t cut ud)).1 = (stepOp net geo order se (.dist s (some t) cut ud)).1 := rfl

/-- STATE MACHINE: in any sequence of calls `shortest_path` / `shortest_distance` / `run_routing_forward` /
`run_routing_backward` on one network (nodes by id or by object, with or without `output_dict`, any targets and
cut-offs, `run_routing_backward` for any node after any search), the backward loop always terminates and every track
returned is the chain of a real route whose edge weights sum to the label of its last node.
(`OutOk`: what that says of one output; `OpOk`: the source of a call is a node of the network; `SessGood`: the flags are those
of a forward pass — all three in `Lemmas/GraphPathExt.lean`.) -/
theorem session_outputs_ok (net : Net W) (hnet : WFNet net) (hu : UniqueIds net) (geo : GeoT) (order : List Nat) :
    ∀ (ops : List (Op W)) (se : Sess W), (∀ op ∈ ops, OpOk net op) → SessGood net se →
      (∀ o ∈ (runSession net geo order se ops).1, OutOk net geo o) ∧ SessGood net (runSession net geo order se ops).2 := by
  intro ops
  induction ops with
  | nil => intro se _ hse; exact ⟨fun o ho => (by cases ho), hse⟩
  | cons op ops ih =>
    intro se hok hse
    have hop := hok op (List.mem_cons_self)
    have hse' := stepOp_good net hnet geo order se op hop hse
    obtain ⟨ih1, ih2⟩ := ih (stepOp net geo order se op).1 (fun o ho => hok o (List.mem_cons_of_mem _ ho)) hse'
    refine ⟨?_, ih2⟩
    intro o ho
    simp only [runSession, List.mem_cons] at ho
    rcases ho with rfl | ho
    · cases op with
      | path s t cut ud =>
        have hg := sess_forward_good net hnet se s (some t) cut ud hop
        simp only [stepOp]
        split
        · rename_i st hst
          obtain ⟨s0, _, hgood⟩ := hg st hst
          exact backward_out_ok net hu geo s0 st hgood _
        · trivial
      | dist s t cut ud =>
        simp only [stepOp]
        split <;> trivial
      | fwd s t cut ud => trivial
      | back t =>
        simp only [stepOp]
        split
        · trivial
        · rename_i st hst
          obtain ⟨s0, _, hgood⟩ := hse st hst
          exact backward_out_ok net hu geo s0 st hgood _
    · exact ih1 o ho

/-- paths requested after a distance-only search: after `shortest_distance(s)` / `run_routing_forward(s)` (no target,
no cut-off), `run_routing_backward(t)` returns `None` exactly when `t` is unreachable or `t = s`, and otherwise a
route from `s` to `t` whose weights sum to the true distance — for every `t`, in any order, as often as wanted. -/
theorem backward_after_full_search (net : Net W) (hnet : WFNet net) (hu : UniqueIds net) (geo : GeoT) (s : Nat)
    (hs : s < net.n) (t : Nat) :
    runBackwardT net geo (runForward net s none none).1 t ≠ .diverge ∧
    (runBackwardT net geo (runForward net s none none).1 t = .none ↔ (¬ Reachable net s t ∨ t = s)) ∧
    (∀ nodes trk, runBackwardT net geo (runForward net s none none).1 t = .path nodes trk →
      ∃ l g g' y, nodes = l ++ [t] ∧ trk = ⟨g ++ [geo.pos t], []⟩ ∧ Route net geo.toGeo s l g g' t y ∧ IsDist net s t y) := by
  have hg : Good net s (runForward net s none none).1 := forward_good net hnet s none none net.n _ [] (good_init net s hs)
  have hrun : (runForward net s none none).1 = run net net.n (St.init s) := forward_full net net.n _ []
  obtain ⟨h1, h2⟩ := runBackward_spec net hu geo.toGeo s _ hg t
  obtain ⟨hinv, rk, K, hp⟩ := hg
  rw [runBackwardT_eq]
  cases hpt : (runForward net s none none).1.pred t with
  | none =>
    rw [h1 hpt]
    refine ⟨fun h => (by cases h), ⟨fun _ => ?_, fun _ => rfl⟩, fun _ _ h => by cases h⟩
    by_cases hts : t = s
    · exact Or.inr hts
    · left
      cases hd : (runForward net s none none).1.d t with
      | none => rw [hrun] at hd; exact (run_none net hnet s hs t).1 hd
      | some y =>
        have := hp.p3 t y hts hd
        rw [hpt] at this; cases this
  | some p =>
    obtain ⟨l, g, g', y, hd, hr, hb⟩ := h2 p hpt
    rw [hb]
    refine ⟨fun h => (by cases h), ⟨fun h => (by cases h), fun h => ?_⟩, fun nodes trk h => ?_⟩
    · rcases h with h | h
      · exact absurd ⟨y, hr.walk⟩ h
      · subst h; rw [hp.p1] at hpt; cases hpt
    · simp only [liftBack, BackT.path.injEq] at h
      obtain ⟨rfl, rfl⟩ := h
      rw [hrun] at hd
      exact ⟨l, g, g', y, rfl, rfl, hr, (run_isDist net hnet s hs t y).1 hd⟩

/-- paths requested after a search that was STOPPED (at another target `t0`, or by a cut-off): for every node `t ≠ s`
that the search had settled (`visite`) before it stopped, `run_routing_backward(t)` returns a route from `s` to `t`
whose weights sum to the true distance. (Nodes labelled but not settled may get a tentative route:
`session_outputs_ok` / `path_cut_sound`.) -/
theorem backward_settled_optimal (net : Net W) (hnet : WFNet net) (hu : UniqueIds net) (geo : GeoT) (s : Nat)
    (hs : s < net.n) (t0 : Option Nat) (cut : Option W) (t : Nat)
    (hv : (runForward net s t0 cut).1.vis t = true) (hts : t ≠ s) :
    ∃ l g g' y, runBackwardT net geo (runForward net s t0 cut).1 t = .path (l ++ [t]) ⟨g ++ [geo.pos t], []⟩ ∧
      Route net geo.toGeo s l g g' t y ∧ IsDist net s t y := by
  have hg : Good net s (runForward net s t0 cut).1 := forward_good net hnet s t0 cut net.n _ [] (good_init net s hs)
  obtain ⟨_, h2⟩ := runBackward_spec net hu geo.toGeo s _ hg t
  obtain ⟨hinv, rk, K, hp⟩ := hg
  obtain ⟨x, hx⟩ := hinv.j5 t hv
  have hsome := hp.p3 t x hts hx
  cases hpt : (runForward net s t0 cut).1.pred t with
  | none => rw [hpt] at hsome; cases hsome
  | some p =>
    obtain ⟨l, g, g', y, hd, hr, hb⟩ := h2 p hpt
    refine ⟨l, g, g', y, ?_, hr, settled_label_isDist net hnet s _ hinv t y hv hd⟩
    rw [runBackwardT_eq, hb]; rfl

/-- the `output_dict` of `shortest_path(s, t, cut, output_dict)` (and of any other search): every entry
`(s, u) ↦ y` written is the true distance from `s` to `u`, and does not exceed the cut-off. (The target itself is not
written: the loop stops before recording it.) -/
theorem output_dict_entries_sound (net : Net W) (hnet : WFNet net) (s : Nat) (hs : s < net.n) (t0 : Option Nat)
    (cut : Option W) (u : Nat) (y : W) (h : (u, y) ∈ (runForward net s t0 cut).2) : IsDist net s u y ∧ Within cut y := by
  have hinv : Inv net s (runForward net s t0 cut).1 := forward_inv net hnet s t0 cut net.n _ [] (inv_init net s hs)
  obtain ⟨a, b, c⟩ := forward_out_settled net t0 cut net.n (St.init s) [] (fun p hp => by cases hp) (u, y) h
  exact ⟨settled_label_isDist net hnet s _ hinv u y a b, c⟩

/-! ### the network as `addNode` / `addEdge` build it -/

/-- For a network built by successive `addEdge(edge, source, target)` calls (edge ids unique): `EDGES` holds the edges in
insertion order; looking up the ids of `NEXT_EDGES[u]` in `EDGES` yields `pyNext` — each edge that may be left from `u`,
in insertion order, a two-way edge from `u` to `u` twice; and the relaxation loop of one iteration of
`run_routing_forward` over that list (after `pere.visite = True`) has exactly the effect of the loop over the model's
`nextEdges net u`, in which every edge occurs once. So every theorem about the model's forward pass is about the
adjacency lists that `addEdge` actually fills. -/
theorem next_edges_as_built (n : Nat) (es : List (Edge W × P × P)) (hu : UniqueIds ⟨n, es.map (·.1)⟩) (u : Nat) (du : W)
    (st : St W) (hv : st.vis u = true) :
    (build NetObj.empty es).edges = es.map (·.1) ∧
    ((build NetObj.empty es).next u).filterMap (findEdge ⟨n, es.map (·.1)⟩) = pyNext ⟨n, es.map (·.1)⟩ u ∧
    (pyNext ⟨n, es.map (·.1)⟩ u).foldl (relaxOne u du) st = (nextEdges ⟨n, es.map (·.1)⟩ u).foldl (relaxOne u du) st := by
  obtain ⟨h1, h2⟩ := build_spec es (NetObj.empty : NetObj W P)
  refine ⟨by simpa [NetObj.empty] using h1, ?_, pyNext_fold _ u du st hv⟩
  rw [h2 u]
  simp only [NetObj.empty, List.nil_append]
  exact lookup_next ⟨n, es.map (·.1)⟩ hu u (es.map (·.1)) (fun e he => he)

omit [LinearOrder W] [Add W] [Zero W] [WalkAdd W] in
/-- the position of a node is the coordinate of its FIRST registration: later `addNode` / `addEdge` calls that mention
the same id with other `Node` objects (other coordinates) do not change it, and `addEdge` registers both its ends. This
is the position `run_routing_backward` starts the geometry with (`Obs(node.coord)`). -/
theorem first_registration_wins (nb : NetObj W P) (es : List (Edge W × P × P)) (e : Edge W) (sc tc : P) (v : Nat) (p : P) :
    (posOf nb v = some p → posOf (build nb es) v = some p) ∧
    (∃ q, posOf (addEdge nb e sc tc) e.src = some q) ∧ (∃ q, posOf (addEdge nb e sc tc) e.tgt = some q) := by
  refine ⟨build_posOf es nb v p, ?_, ?_⟩
  · obtain ⟨q, hq⟩ := addNode_registers nb e.src sc
    have h2 := addNode_posOf (addNode nb e.src sc) e.tgt tc e.src q hq
    refine ⟨q, ?_⟩
    unfold addEdge
    simp only []
    generalize addNode (addNode nb e.src sc) e.tgt tc = nb' at h2 ⊢
    unfold posOf at h2 ⊢
    by_cases ha : 0 ≤ e.ori <;> by_cases hb : e.ori ≤ 0 <;> simp [ha, hb, h2]
  · obtain ⟨q, h2⟩ := addNode_registers (addNode nb e.src sc) e.tgt tc
    refine ⟨q, ?_⟩
    unfold addEdge
    simp only []
    generalize addNode (addNode nb e.src sc) e.tgt tc = nb' at h2 ⊢
    unfold posOf at h2 ⊢
    by_cases ha : 0 ≤ e.ori <;> by_cases hb : e.ori ≤ 0 <;> simp [ha, hb, h2]


/-! ### a network that is modified between the calls -/
section modified
open TV.GraphMut

/-- CURRENT CONTENT. Take a network built and modified by ANY sequence of calls — `addNode`, `addEdge` (also after searches),
`getEdge(i).weight = w`, `getEdge(i).geom = track`, `getNode(v).coord = c`, interleaved with any routing calls — but no
assignment to an orientation attribute. Then `shortest_path(s, t, cut[, output_dict])` for two registered nodes returns what
it returns on a FRESH network holding the nodes, edges, weights, polylines and coordinates the object has NOW: nothing is
remembered of the earlier weights, of the flags of the earlier searches, of the order in which the content came about. -/
theorem mut_path_fresh (n : Nat) (ops : List (GraphMut.Op W)) (hno : ∀ op ∈ ops, op.isSetOri = false)
    (s t : NodeArg) (cut : Option W) (ud : Bool)
    (hs : registered (runOps (Obj.new n) ops).2 (correctInputNode s) = true)
    (ht : registered (runOps (Obj.new n) ops).2 (correctInputNode t) = true) :
    (exec (runOps (Obj.new n) ops).2 (.path s t cut ud)).2 =
      .path (shortestPathT (netOf (runOps (Obj.new n) ops).2) (geoOf (runOps (Obj.new n) ops).2) (correctInputNode s) (correctInputNode t) cut)
            (shortestDistance (netOf (runOps (Obj.new n) ops).2) (correctInputNode s) (correctInputNode t) cut) :=
  path_query _ (runOps_inv ops _ (inv_new n) hno) s t cut ud hs ht

/-- T1/T2/T4 on the modified network: `shortest_path(s, t)` after any such history never diverges, returns `None` exactly
when `t` is unreachable in the CURRENT network (current edges, current orientations) or `t = s`, and otherwise the chain of a
route of the current network whose CURRENT weights sum to the CURRENT shortest distance; the label it leaves on `t` is what
`shortest_distance` reports on a fresh network with that content. -/
theorem mut_path_optimal (n : Nat) (ops : List (GraphMut.Op W)) (hno : ∀ op ∈ ops, op.isSetOri = false)
    (s t : NodeArg) (ud : Bool)
    (hs : registered (runOps (Obj.new n) ops).2 (correctInputNode s) = true)
    (ht : registered (runOps (Obj.new n) ops).2 (correctInputNode t) = true) :
    ∃ b, (exec (runOps (Obj.new n) ops).2 (.path s t none ud)).2 =
        .path b (shortestDistance (netOf (runOps (Obj.new n) ops).2) (correctInputNode s) (correctInputNode t) none) ∧
      b ≠ .diverge ∧
      (b = .none ↔ (¬ Reachable (netOf (runOps (Obj.new n) ops).2) (correctInputNode s) (correctInputNode t) ∨
                    correctInputNode t = correctInputNode s)) ∧
      (∀ nodes trk, b = .path nodes trk → ∃ l g g' y, nodes = l ++ [correctInputNode t] ∧
        trk = ⟨g ++ [(geoOf (runOps (Obj.new n) ops).2).pos (correctInputNode t)], []⟩ ∧
        Route (netOf (runOps (Obj.new n) ops).2) (geoOf (runOps (Obj.new n) ops).2).toGeo (correctInputNode s) l g g' (correctInputNode t) y ∧
        IsDist (netOf (runOps (Obj.new n) ops).2) (correctInputNode s) (correctInputNode t) y) := by
  have hi := runOps_inv ops _ (inv_new n) hno
  generalize (runOps (Obj.new n) ops).2 = o at hi hs ht ⊢
  have hlt : correctInputNode s < (netOf o).n := registered_lt o hi _ hs
  obtain ⟨h1, h2, h3⟩ := path_optimal_track (netOf o) hi.wf hi.uniq (geoOf o) (correctInputNode s) (correctInputNode t) hlt
  exact ⟨_, path_query o hi s t none ud hs ht, h1, h2, h3⟩

/-- the same with ANY cut-off (also one below the current distance): a returned track is the chain of a real route of the
current network, its current weights sum to the value `y` that `shortest_distance(s, t, cut)` reports, `y` is at least the
current distance and equal to it unless it exceeds the cut-off -/
theorem mut_path_cut_sound (n : Nat) (ops : List (GraphMut.Op W)) (hno : ∀ op ∈ ops, op.isSetOri = false)
    (s t : NodeArg) (cut : Option W) (ud : Bool)
    (hs : registered (runOps (Obj.new n) ops).2 (correctInputNode s) = true)
    (ht : registered (runOps (Obj.new n) ops).2 (correctInputNode t) = true)
    (nodes : List Nat) (trk : Seq.Track) (lab : Option W)
    (h : (exec (runOps (Obj.new n) ops).2 (.path s t cut ud)).2 = .path (.path nodes trk) lab) :
    ∃ l g g' y d, nodes = l ++ [correctInputNode t] ∧ trk = ⟨g ++ [(geoOf (runOps (Obj.new n) ops).2).pos (correctInputNode t)], []⟩ ∧
      Route (netOf (runOps (Obj.new n) ops).2) (geoOf (runOps (Obj.new n) ops).2).toGeo (correctInputNode s) l g g' (correctInputNode t) y ∧
      lab = some y ∧ IsDist (netOf (runOps (Obj.new n) ops).2) (correctInputNode s) (correctInputNode t) d ∧ d ≤ y ∧ (Within cut y → y = d) := by
  have hi := runOps_inv ops _ (inv_new n) hno
  generalize (runOps (Obj.new n) ops).2 = o at hi hs ht h ⊢
  have hlt : correctInputNode s < (netOf o).n := registered_lt o hi _ hs
  rw [path_query o hi s t cut ud hs ht] at h
  simp only [GraphMut.Out.path.injEq] at h
  obtain ⟨hb, hl⟩ := h
  rw [track_operators_agree] at hb
  obtain ⟨h1, h2⟩ := liftBack_path hb
  obtain ⟨l, g, g', y, d, a, b, c, e, f, g1, g2⟩ :=
    path_cut_sound (netOf o) hi.wf hi.uniq (geoOf o).toGeo (correctInputNode s) (correctInputNode t) hlt cut nodes trk.pts h1
  refine ⟨l, g, g', y, d, a, ?_, c, by rw [← hl, e], f, g1, g2⟩
  cases trk with
  | mk p tb => simp only at b h2; rw [b, h2]; rfl

/-- T3 on the modified network: when, NOW, every polyline runs from the current position of its edge's source to the current
position of its target (nodes moved together with the polylines that end there, new polylines joining the positions), the
returned geometry is the position of `s` followed by the used edges' current polylines, each oriented along the travel and
without its first vertex; it starts at the current position of `s`, ends at that of `t`, and has no analytical feature. -/
theorem mut_geometry_chained (n : Nat) (ops : List (GraphMut.Op W)) (hno : ∀ op ∈ ops, op.isSetOri = false)
    (s t : NodeArg) (cut : Option W) (ud : Bool)
    (hs : registered (runOps (Obj.new n) ops).2 (correctInputNode s) = true)
    (ht : registered (runOps (Obj.new n) ops).2 (correctInputNode t) = true)
    (hgeo : GeoOK (netOf (runOps (Obj.new n) ops).2) (geoOf (runOps (Obj.new n) ops).2).toGeo)
    (nodes : List Nat) (trk : Seq.Track) (lab : Option W)
    (h : (exec (runOps (Obj.new n) ops).2 (.path s t cut ud)).2 = .path (.path nodes trk) lab) :
    ∃ l g g' y, nodes = l ++ [correctInputNode t] ∧
      Route (netOf (runOps (Obj.new n) ops).2) (geoOf (runOps (Obj.new n) ops).2).toGeo (correctInputNode s) l g g' (correctInputNode t) y ∧
      trk.pts = (geoOf (runOps (Obj.new n) ops).2).pos (correctInputNode s) :: g' ∧ trk.table = [] ∧
      trk.pts.head? = some ((geoOf (runOps (Obj.new n) ops).2).pos (correctInputNode s)) ∧
      trk.pts.getLast? = some ((geoOf (runOps (Obj.new n) ops).2).pos (correctInputNode t)) := by
  have hi := runOps_inv ops _ (inv_new n) hno
  generalize (runOps (Obj.new n) ops).2 = o at hi hs ht hgeo h ⊢
  have hlt : correctInputNode s < (netOf o).n := registered_lt o hi _ hs
  rw [path_query o hi s t cut ud hs ht] at h
  simp only [GraphMut.Out.path.injEq] at h
  exact geometry_chained_track (netOf o) hi.wf hi.uniq (geoOf o) hgeo _ _ hlt cut nodes trk h.1

omit [WalkAdd W] in
/-- FROZEN ORIENTATION. `getEdge(i).orientation = x` on a built network changes an attribute that only `addEdge` reads:
whatever calls follow (routing calls, further modifications, further `addEdge`), every one of them returns exactly what it
would have returned without the assignment. The directions in which an edge may be travelled are those of the moment it was
added (`NEXT_EDGES`). -/
theorem orientation_attribute_not_read (o : Obj W) (i : Nat) (x : Int) (ops : List (GraphMut.Op W)) :
    (runOps (exec o (.setOri i x)).1 ops).1 = (runOps o ops).1 :=
  (runOps_oriEq ops _ _ (setOri_oriEq o i x)).1

/-- so, for a network that was built and modified without touching an orientation: after `getEdge(i).orientation = x` a
`shortest_path` still answers for the content BEFORE the assignment (the orientations the edges were added with) -/
theorem path_after_orientation_assignment (n : Nat) (ops : List (GraphMut.Op W)) (hno : ∀ op ∈ ops, op.isSetOri = false)
    (i : Nat) (x : Int) (s t : NodeArg) (cut : Option W) (ud : Bool)
    (hs : registered (runOps (Obj.new n) ops).2 (correctInputNode s) = true)
    (ht : registered (runOps (Obj.new n) ops).2 (correctInputNode t) = true) :
    (exec (exec (runOps (Obj.new n) ops).2 (.setOri i x)).1 (.path s t cut ud)).2 =
      .path (shortestPathT (netOf (runOps (Obj.new n) ops).2) (geoOf (runOps (Obj.new n) ops).2) (correctInputNode s) (correctInputNode t) cut)
            (shortestDistance (netOf (runOps (Obj.new n) ops).2) (correctInputNode s) (correctInputNode t) cut) := by
  rw [(exec_oriEq _ _ (setOri_oriEq (runOps (Obj.new n) ops).2 i x) (.path s t cut ud)).2]
  exact mut_path_fresh n ops hno s t cut ud hs ht

/-- ANY history, orientation assignments included: after any sequence of calls on a new network, `shortest_path(s, t, cut)`
answers for a fresh network holding the content that the SAME history WITHOUT its orientation assignments produces — the
current nodes, edges, weights, polylines and coordinates, each edge with the orientation it was added with. -/
theorem path_any_history (n : Nat) (ops : List (GraphMut.Op W)) (s t : NodeArg) (cut : Option W) (ud : Bool)
    (hs : registered (runOps (Obj.new n) ops).2 (correctInputNode s) = true)
    (ht : registered (runOps (Obj.new n) ops).2 (correctInputNode t) = true) :
    (exec (runOps (Obj.new n) ops).2 (.path s t cut ud)).2 =
      .path (shortestPathT (netOf (runOps (Obj.new n) (dropOri ops)).2) (geoOf (runOps (Obj.new n) (dropOri ops)).2)
               (correctInputNode s) (correctInputNode t) cut)
            (shortestDistance (netOf (runOps (Obj.new n) (dropOri ops)).2) (correctInputNode s) (correctInputNode t) cut) := by
  have he := runOps_dropOri ops (Obj.new n) (Obj.new n) (OriEq.refl _)
  rw [(exec_oriEq _ _ he (.path s t cut ud)).2]
  rw [registered_oriEq _ _ he] at hs ht
  exact mut_path_fresh n (dropOri ops) (dropOri_clean ops) s t cut ud hs ht

/-- TERMINATION, any history: whatever the calls were — modifications of any kind, orientation assignments, searches stopped
at targets or cut-offs, `run_routing_backward` on flags older than the last modification, calls naming unknown nodes — no
`shortest_path` / `run_routing_backward` of the sequence runs for ever (the `while node.antecedent != ""` loop follows ranked
antecedents through edges that are still in `EDGES`: nothing is ever removed). -/
theorem mut_never_diverges (n : Nat) (ops : List (GraphMut.Op W)) (b : BackT) (lab : Option W)
    (h : GraphMut.Out.path b lab ∈ (runOps (Obj.new n) ops).1) : b ≠ .diverge :=
  runOps_ends ops (Obj.new n) (Obj.new n) (OriEq.refl _) (inv_new n) (chainOK_new n) _ h

end modified

/-! ### the hypotheses are satisfiable by a non-trivial network, and the model computes on it -/

/-- 0 –(w 0, two-way)– 1 ; edge 1 stored 2→1 but only travelled 1→2 (orientation −1) with a bent polyline;
a heavier parallel edge 1→2. The defect repaired by 9d0d428 truncated this path at node 1 (distance 0). -/
def demo : Net Int :=
  { n := 3, edges := [⟨0, 0, 1, 0, 0⟩, ⟨1, 2, 1, 1, -1⟩, ⟨2, 1, 2, 5, 1⟩] }
def demoGeo : Geo (Int × Int) :=
  { pos := fun v => if v = 0 then (0, 0) else if v = 1 then (1, 0) else (2, 0),
    line := fun i => if i = 0 then [(0, 0), (1, 0)] else if i = 1 then [(2, 0), (1, 1), (1, 0)] else [(1, 0), (2, 0)] }

example : WFNet demo := by
  intro e he
  simp only [demo, List.mem_cons, List.not_mem_nil, or_false] at he
  rcases he with rfl | rfl | rfl <;> simp [demo]
example : UniqueIds demo := by
  intro e he e' he' h
  simp only [demo, List.mem_cons, List.not_mem_nil, or_false] at he he'
  rcases he with rfl | rfl | rfl <;> rcases he' with rfl | rfl | rfl <;> simp_all
example : GeoOK demo demoGeo := by
  intro e he
  simp only [demo, List.mem_cons, List.not_mem_nil, or_false] at he
  rcases he with rfl | rfl | rfl <;> simp [demoGeo]
example : shortestPath demo demoGeo 0 2 none = .path [0, 1, 2] [(0, 0), (1, 0), (1, 1), (2, 0)] := by decide +kernel
example : shortestPath demo demoGeo 2 0 none = .none := by decide +kernel
example : shortestPath demo demoGeo 0 0 none = .none := by decide +kernel

/-! ### the same through the track operators, with awkward geometries; a session; a cut-off below the distance -/

/-- observation number `k` (the tag identifies the vertex occurrence: the returned track starts with the first edge's own
vertex and ends with `Obs(target.coord)`; under `GeoOK` their positions are those of the two nodes) -/
def ob (k : Nat) : Seq.Obs := ⟨k, 0, []⟩

/-- nodes 0,1,2 at observations 0,1,2. Edge 0: 0–1 two-way, weight 0, with a REPEATED vertex (10, 10, 11);
edge 1: stored 2→1, travelled 1→2 only (`SENS_INVERSE`), three vertices, carrying an analytical feature;
edges 2 and 3: PARALLEL, equal weight 5, 1→2, a two-vertex and a one-vertex geometry. -/
def demoT : GeoT :=
  { pos := ob,
    geom := fun i => if i = 0 then ⟨[ob 10, ob 10, ob 11], []⟩ else if i = 1 then ⟨[ob 20, ob 21, ob 22], [("speed", 0)]⟩
                     else if i = 2 then ⟨[ob 30, ob 31], []⟩ else ⟨[ob 40], []⟩ }
def demo4 : Net Int :=
  { n := 3, edges := [⟨0, 0, 1, 0, 0⟩, ⟨1, 2, 1, 1, -1⟩, ⟨2, 1, 2, 5, 1⟩, ⟨3, 1, 2, 5, 1⟩] }

/-- `track + (edge_geom > 1)` twice, the second polyline reversed; the result has no analytical feature although edge 1 has -/
example : shortestPathT demo4 demoT 0 2 none = .path [0, 1, 2] ⟨[ob 10, ob 10, ob 22, ob 21, ob 2], []⟩ := by decide +kernel
example : shortestPathT demo4 demoT 1 0 none = .path [1, 0] ⟨[ob 11, ob 10, ob 0], []⟩ := by decide +kernel
example : shortestPathT demo4 demoT 2 0 none = .none := by decide +kernel

/-- a session: backward before any search; a path with the target given as an object and an `output_dict`; a distance-only
search followed by backward passes to two targets; source = target; an unreachable target after a reachable one;
a cut-off below the true distance of the target -/
example : (runSession demo4 demoT [0, 1, 2] Sess.start
      [.back (.id 2), .path (.id 0) (.obj 2) none true, .dist (.obj 0) none none false, .back (.id 1), .back (.obj 2),
       .path (.id 1) (.id 1) none false, .path (.id 2) (.id 0) none false, .path (.id 1) (.id 2) (some 0) false]).1 =
    [.attrErr,
     .path (.path [0, 1, 2] ⟨[ob 10, ob 10, ob 22, ob 21, ob 2], []⟩) (some 1),
     .dists [some 0, some 0, some 1],
     .path (.path [0, 1] ⟨[ob 10, ob 10, ob 1], []⟩) (some 0),
     .path (.path [0, 1, 2] ⟨[ob 10, ob 10, ob 22, ob 21, ob 2], []⟩) (some 1),
     .path .none (some 0),
     .path .none none,
     .path (.path [1, 2] ⟨[ob 22, ob 21, ob 2], []⟩) (some 1)] := by decide +kernel

/-- the same network with geometries that JOIN the node positions (`GeoOK`): edge 0 has a repeated vertex, edge 1 is stored
against the travel, edges 2 and 3 are parallel with equal weights and different polylines -/
def demoT2 : GeoT :=
  { pos := ob,
    geom := fun i => if i = 0 then ⟨[ob 0, ob 10, ob 10, ob 1], []⟩ else if i = 1 then ⟨[ob 2, ob 21, ob 1], [("speed", 0)]⟩
                     else if i = 2 then ⟨[ob 1, ob 2], []⟩ else ⟨[ob 1, ob 30, ob 2], []⟩ }
example : WFNet demo4 := by
  intro e he
  simp only [demo4, List.mem_cons, List.not_mem_nil, or_false] at he
  rcases he with rfl | rfl | rfl | rfl <;> simp [demo4]
example : UniqueIds demo4 := by
  intro e he e' he' h
  simp only [demo4, List.mem_cons, List.not_mem_nil, or_false] at he he'
  rcases he with rfl | rfl | rfl | rfl <;> rcases he' with rfl | rfl | rfl | rfl <;> simp_all
example : GeoOK demo4 demoT2.toGeo := by
  intro e he
  simp only [demo4, List.mem_cons, List.not_mem_nil, or_false] at he
  rcases he with rfl | rfl | rfl | rfl <;> simp [demoT2, GeoT.toGeo]
example : shortestPathT demo4 demoT2 0 2 none = .path [0, 1, 2] ⟨[ob 0, ob 10, ob 10, ob 1, ob 21, ob 2], []⟩ := by decide +kernel
example : ∀ op ∈ [Op.back (.id 2), Op.path (.id 0) (.obj 2) none true, Op.dist (.obj 0) none (none : Option Int) false], OpOk demo4 op := by
  intro op h
  simp only [List.mem_cons, List.not_mem_nil, or_false] at h
  rcases h with rfl | rfl | rfl <;> simp [OpOk, correctInputNode, demo4]

/-- with a cut-off below the true distance the path returned may be a tentative one: 0 →1→ 1 →1→ 2 and 0 →5→ 2, cut-off 0:
the search stops when node 1 (label 1 > 0) is popped, node 2 still carries the label 5 through the direct edge.
`path_cut_sound`: a real route, weight 5 = the reported value ≥ the true distance 2, and 5 exceeds the cut-off. -/
def demoCut : Net Int := { n := 3, edges := [⟨0, 0, 1, 1, 1⟩, ⟨1, 1, 2, 1, 1⟩, ⟨2, 0, 2, 5, 1⟩] }
def demoCutGeo : Geo Nat := { pos := fun v => v, line := fun i => if i = 0 then [0, 1] else if i = 1 then [1, 2] else [0, 7, 2] }
example : shortestPath demoCut demoCutGeo 0 2 (some 0) = .path [0, 2] [0, 7, 2] := by decide +kernel
example : shortestDistance demoCut 0 2 (some 0) = some 5 := by decide +kernel
example : shortestPath demoCut demoCutGeo 0 2 none = .path [0, 1, 2] [0, 1, 2] := by decide +kernel
example : shortestPath demoCut demoCutGeo 0 2 (some 1) = .path [0, 1, 2] [0, 1, 2] := by decide +kernel

/-- `demo4` built by four `addEdge` calls; node 1 is registered first with the coordinate `ob 1`, the later registrations
with `ob 99` are ignored; `NEXT_EDGES[1]` = edges 0 (two-way), 1 (stored 2→1, travelled 1→2), 2, 3 -/
def demoBuild : NetObj Int Seq.Obs :=
  build NetObj.empty [(⟨0, 0, 1, 0, 0⟩, ob 0, ob 1), (⟨1, 2, 1, 1, -1⟩, ob 2, ob 99), (⟨2, 1, 2, 5, 1⟩, ob 99, ob 98), (⟨3, 1, 2, 5, 1⟩, ob 1, ob 2)]
example : demoBuild.edges.map (·.id) = demo4.edges.map (·.id) ∧ demoBuild.next 1 = [0, 1, 2, 3] ∧ demoBuild.next 2 = [] ∧
    posOf demoBuild 1 = some (ob 1) ∧ posOf demoBuild 2 = some (ob 2) := by decide +kernel
/-- a two-way edge from a node to itself is entered twice in `NEXT_EDGES` -/
example : (build (NetObj.empty : NetObj Int Nat) [(⟨7, 0, 0, 1, 0⟩, 5, 5)]).next 0 = [7, 7] := by decide +kernel


/-! ### a network that is built and modified by the calls themselves -/
open TV.GraphMut in
/-- `a –4– b –4– c`, `a → d` one-way (stored `d → a`, `SENS_INVERSE`) 5, `d –5– c`: a→c goes through `b` (8). Road works: the
weight of `b–c` becomes 50 — a backward pass on the old flags still gives the old route, the next `shortest_path` goes through
`d` (10). Assigning `SENS_DIRECT` to the one-way edge changes nothing (`orientation_attribute_not_read`). Node `d` is moved
together with the two polylines that end there. A new node 4 enters with an edge 4→c (`run_routing_backward(4)` before the
next search: `AttributeError`), then an edge a→4 of weight 0 (its Node objects carry other coordinates: ignored): a→4→c (1).
Unknown node, unknown edge: `KeyError`; a negative weight is outside the domain. -/
def demoOps : List (GraphMut.Op Int) :=
  [.addEdge ⟨0, 0, 1, 4, 0⟩ (ob 0) (ob 1) ⟨[ob 0, ob 10, ob 1], []⟩,
   .addEdge ⟨1, 1, 2, 4, 0⟩ (ob 1) (ob 2) ⟨[ob 1, ob 2], [("speed", 0)]⟩,
   .addEdge ⟨2, 3, 0, 5, -1⟩ (ob 3) (ob 0) ⟨[ob 3, ob 0], []⟩,
   .addEdge ⟨3, 3, 2, 5, 0⟩ (ob 3) (ob 2) ⟨[ob 3, ob 30, ob 2], []⟩,
   .path (.id 0) (.id 2) none false,
   .setWeight 1 50,
   .back (.id 2),
   .path (.id 0) (.obj 2) none false,
   .setOri 2 1,
   .path (.id 0) (.id 2) none false,
   .setCoord 3 (ob 33), .setGeom 2 ⟨[ob 33, ob 0], []⟩, .setGeom 3 ⟨[ob 33, ob 2], []⟩,
   .path (.id 0) (.id 2) none false,
   .addEdge ⟨4, 4, 2, 1, 1⟩ (ob 4) (ob 98) ⟨[ob 4, ob 2], []⟩,
   .back (.id 4),
   .addEdge ⟨5, 0, 4, 0, 1⟩ (ob 99) (ob 97) ⟨[ob 0, ob 4], []⟩,
   .path (.id 0) (.id 2) none true,
   .path (.id 0) (.id 5) none false,
   .setWeight 9 1, .setWeight 1 (-1)]

open TV.GraphMut in
example : (runOps (Obj.new 6) demoOps).1 =
    [.unit, .unit, .unit, .unit,
     .path (.path [0, 1, 2] ⟨[ob 0, ob 10, ob 1, ob 2], []⟩) (some 8),
     .unit,
     .path (.path [0, 1, 2] ⟨[ob 0, ob 10, ob 1, ob 2], []⟩) (some 8),
     .path (.path [0, 3, 2] ⟨[ob 0, ob 3, ob 30, ob 2], []⟩) (some 10),
     .unit,
     .path (.path [0, 3, 2] ⟨[ob 0, ob 3, ob 30, ob 2], []⟩) (some 10),
     .unit, .unit, .unit,
     .path (.path [0, 3, 2] ⟨[ob 0, ob 33, ob 2], []⟩) (some 10),
     .unit, .attrErr, .unit,
     .path (.path [0, 4, 2] ⟨[ob 0, ob 4, ob 2], []⟩) (some 1),
     .keyErr, .keyErr, .err] := by decide +kernel

open TV.GraphMut in
/-- the hypotheses of the `mut_*` theorems on that history (without its orientation assignment): both nodes registered, and the
final content joins its node positions -/
example : ∀ op ∈ demoOps.eraseIdx 8, op.isSetOri = false := by decide +kernel
open TV.GraphMut in
example : registered (runOps (Obj.new 6) (demoOps.eraseIdx 8)).2 0 = true ∧ registered (runOps (Obj.new 6) (demoOps.eraseIdx 8)).2 2 = true := by
  decide +kernel
open TV.GraphMut in
example : (netOf (runOps (Obj.new 6) (demoOps.eraseIdx 8)).2).edges.all (fun e =>
    let geo := (geoOf (runOps (Obj.new 6) (demoOps.eraseIdx 8)).2).toGeo
    (geo.line e.id).head? == some (geo.pos e.src) && (geo.line e.id).getLast? == some (geo.pos e.tgt)) = true := by decide +kernel

/-! ### the theorems do not rest on associativity -/
/-- weights in `TV.C06.R4` (natural numbers, a sum above 2 is rounded up to the next multiple of 4 — monotone, not
associative): 0 →1→ 1 →2→ 2 weighs `(0 + 1) + 2 = 4` (rounded), the direct edge 5 -/
def demoR : Net C06.R4 := { n := 3, edges := [⟨0, 0, 1, C06.R4.of 1, 1⟩, ⟨1, 1, 2, C06.R4.of 2, 1⟩, ⟨2, 0, 2, C06.R4.of 5, 1⟩] }
example : WFNet demoR := by
  intro e he
  simp only [demoR, List.mem_cons, List.not_mem_nil, or_false] at he
  rcases he with rfl | rfl | rfl <;> exact ⟨by decide, by decide, Nat.zero_le _⟩
example : UniqueIds demoR := by
  intro e he e' he' h
  simp only [demoR, List.mem_cons, List.not_mem_nil, or_false] at he he'
  rcases he with rfl | rfl | rfl <;> rcases he' with rfl | rfl | rfl <;> first | rfl | (exact absurd h (by decide))
example : shortestPath demoR demoCutGeo 0 2 none = .path [0, 1, 2] [0, 1, 2] ∧ shortestDistance demoR 0 2 none = some (C06.R4.of 4) := by
  decide +kernel

end TV.C07
