import TracklibVerif.Lemmas.GraphBack
import Mathlib.Algebra.Order.Group.Int
/-! # C07 — a returned shortest path is a real, optimal, geometrically continuous route

Property theorems only (helper lemmas: `Lemmas/GraphPath.lean` — the invariant on `antecedent` /
`antecedent_edge`; `Lemmas/GraphBack.lean` — the backward walk). The model (`Model/Graph.lean`) mirrors
`Network.shortest_path` = `run_routing_forward(source, target, cut)` followed by `run_routing_backward(target)`
as it is after fix 9d0d428. Weights: any linearly ordered additive commutative monoid, non-negative (`WFNet`);
edge ids unique (`UniqueIds`, `EDGES` is a dict); points: any type.

`Route net geo s l g g' t y` (see `Lemmas/GraphBack.lean`) says: `l ++ [t]` is a list of nodes starting at `s` in which
each consecutive pair is joined by an existing edge travelled in a direction its orientation permits, `y` is the sum of
those edges' weights, `g` is the concatenation of those edges' polylines, each oriented along the direction of
travel and each without its last vertex (= the first vertex of the next polyline: junction vertices appear once), and
`g'` is the same concatenation with each polyline deprived of its first vertex instead. -/
namespace TV.C07
open TV.Graph
variable {W : Type} [AddCommMonoid W] [LinearOrder W] [IsOrderedAddMonoid W] {P : Type}

/-- the state left by the forward pass of `shortest_path(s, t, cut)` satisfies both invariants -/
theorem forward_state_good (net : Net W) (hnet : WFNet net) (s t : Nat) (hs : s < net.n) (cut : Option W) :
    Good net s (runForward net s (some t) cut).1 :=
  forward_good net hnet s (some t) cut net.n (St.init s) [] (good_init net s hs)

/-- T1 (`path_is_walk`) + first half of T3: whatever `shortest_path(s, t, cut)` returns as a path is a route:
its node list starts at `s`, ends at `t`, consecutive nodes are joined by the recorded edge in a permitted direction;
its geometry is the chain of those edges' polylines along the travel, junction vertices once, closed by the position
of `t`; and the recorded weights sum to the label of `t`. -/
theorem path_is_walk (net : Net W) (hnet : WFNet net) (hu : UniqueIds net) (geo : Geo P) (s t : Nat) (hs : s < net.n)
    (cut : Option W) (nodes : List Nat) (geom : List P) (h : shortestPath net geo s t cut = .path nodes geom) :
    ∃ l g g' y, nodes = l ++ [t] ∧ geom = g ++ [geo.pos t] ∧ nodes.head? = some s ∧ Route net geo s l g g' t y ∧
      Walk net s t y ∧ shortestDistance net s t cut = some y := by
  have hg := forward_state_good net hnet s t hs cut
  obtain ⟨h1, h2⟩ := runBackward_spec net hu geo s _ hg t
  unfold shortestPath at h
  cases hpt : (runForward net s (some t) cut).1.pred t with
  | none => rw [h1 hpt] at h; cases h
  | some p =>
    obtain ⟨l, g, g', y, hd, hr, hb⟩ := h2 p hpt
    rw [hb] at h
    simp only [Back.path.injEq] at h
    obtain ⟨rfl, rfl⟩ := h
    exact ⟨l, g, g', y, rfl, rfl, hr.nodes_head, hr, hr.walk, hd⟩

/-- T2 (`path_optimal`): the weights of the edges used by the path returned by `shortest_path(s, t)` sum to the
true shortest distance. -/
theorem path_optimal (net : Net W) (hnet : WFNet net) (hu : UniqueIds net) (geo : Geo P) (s t : Nat) (hs : s < net.n)
    (nodes : List Nat) (geom : List P) (h : shortestPath net geo s t none = .path nodes geom) :
    ∃ l g g' y, nodes = l ++ [t] ∧ geom = g ++ [geo.pos t] ∧ Route net geo s l g g' t y ∧ IsDist net s t y := by
  obtain ⟨l, g, g', y, a, b, _, c, _, d⟩ := path_is_walk net hnet hu geo s t hs none nodes geom h
  exact ⟨l, g, g', y, a, b, c, ((shortestDistance_spec net hnet s t hs).1 y).1 d⟩

/-- T2 with a cut-off: if the true distance does not exceed the cut-off, the returned path realises it. -/
theorem path_optimal_cut (net : Net W) (hnet : WFNet net) (hu : UniqueIds net) (geo : Geo P) (s t : Nat) (hs : s < net.n)
    (cut : Option W) (d : W) (hd : IsDist net s t d) (hw : Within cut d)
    (nodes : List Nat) (geom : List P) (h : shortestPath net geo s t cut = .path nodes geom) :
    ∃ l g g', nodes = l ++ [t] ∧ geom = g ++ [geo.pos t] ∧ Route net geo s l g g' t d := by
  obtain ⟨l, g, g', y, a, b, _, c, _, e⟩ := path_is_walk net hnet hu geo s t hs cut nodes geom h
  have : shortestDistance net s t cut = some d := by
    unfold shortestDistance runForward
    exact forward_label net hnet s t cut d hw net.n _ _ (inv_init net s hs) ((run_isDist net hnet s hs t d).2 hd)
  rw [this] at e
  cases e
  exact ⟨l, g, g', a, b, c⟩

/-- T3 (`geometry_chained`): when every edge polyline starts at its source's position and ends at its target's,
the returned geometry is the position of `s` followed by the polylines of the edges used (see `path_is_walk`), each
oriented along the direction of travel and each without its first vertex (junction vertices once); it starts at the
position of `s` and ends at the position of `t`. -/
theorem geometry_chained (net : Net W) (hnet : WFNet net) (hu : UniqueIds net) (geo : Geo P) (hgeo : GeoOK net geo)
    (s t : Nat) (hs : s < net.n) (cut : Option W) (nodes : List Nat) (geom : List P)
    (h : shortestPath net geo s t cut = .path nodes geom) :
    ∃ l g g' y, nodes = l ++ [t] ∧ Route net geo s l g g' t y ∧ geom = geo.pos s :: g' ∧
      geom.head? = some (geo.pos s) ∧ geom.getLast? = some (geo.pos t) := by
  obtain ⟨l, g, g', y, a, b, _, c, _, _⟩ := path_is_walk net hnet hu geo s t hs cut nodes geom h
  refine ⟨l, g, g', y, a, c, by rw [b]; exact c.geom_eq hgeo, ?_, by rw [b]; simp⟩
  rw [b]; exact c.geom_head hgeo

/-- T4 (`unreachable_none`): no permitted walk ⇒ `None`; and `t = s` ⇒ `None` (as coded). -/
theorem unreachable_none (net : Net W) (hnet : WFNet net) (hu : UniqueIds net) (geo : Geo P) (s t : Nat) (hs : s < net.n)
    (cut : Option W) (h : ¬ Reachable net s t ∨ t = s) : shortestPath net geo s t cut = .none := by
  obtain ⟨hinv, rk, K, hp⟩ := forward_state_good net hnet s t hs cut
  unfold shortestPath
  apply (runBackward_spec net hu geo s _ ⟨hinv, rk, K, hp⟩ t).1
  rcases h with h | h
  · cases hpt : (runForward net s (some t) cut).1.pred t with
    | none => rfl
    | some p =>
      obtain ⟨a, i⟩ := p
      obtain ⟨_, _, e, _, _, _, x, _, hd⟩ := hp.p2 t a i hpt
      exact absurd ⟨_, hinv.j3 t _ hd⟩ h
  · subst h; exact hp.p1

/-- converse of T4: a reachable target other than the source always gets a path (never `None`, and the backward
loop always ends). -/
theorem reachable_path (net : Net W) (hnet : WFNet net) (hu : UniqueIds net) (geo : Geo P) (s t : Nat) (hs : s < net.n)
    (hr : Reachable net s t) (hts : t ≠ s) : ∃ nodes geom, shortestPath net geo s t none = .path nodes geom := by
  obtain ⟨hinv, rk, K, hp⟩ := forward_state_good net hnet s t hs none
  have hsd := shortestDistance_spec net hnet s t hs
  cases hd : shortestDistance net s t none with
  | none => exact absurd hr (hsd.2.1 hd)
  | some y =>
    have hsome := hp.p3 t y hts hd
    cases hpt : (runForward net s (some t) none).1.pred t with
    | none => rw [hpt] at hsome; cases hsome
    | some p =>
      obtain ⟨l, g, g', y', _, _, hb⟩ := (runBackward_spec net hu geo s _ ⟨hinv, rk, K, hp⟩ t).2 p hpt
      exact ⟨_, _, hb⟩

/-- the backward loop `while node.antecedent != ""` always terminates on the flags left by the forward pass -/
theorem never_diverges (net : Net W) (hnet : WFNet net) (hu : UniqueIds net) (geo : Geo P) (s t : Nat) (hs : s < net.n)
    (cut : Option W) : shortestPath net geo s t cut ≠ .diverge := by
  have hg := forward_state_good net hnet s t hs cut
  obtain ⟨h1, h2⟩ := runBackward_spec net hu geo s _ hg t
  unfold shortestPath
  cases hpt : (runForward net s (some t) cut).1.pred t with
  | none => rw [h1 hpt]; intro h; cases h
  | some p =>
    obtain ⟨l, g, g', y, _, _, hb⟩ := h2 p hpt
    rw [hb]; intro h; cases h

/-! ### the hypotheses are satisfiable by a non-trivial network, and the model computes on it -/

/-- 0 –(w 0, two-way)– 1 ; edge 1 stored 2→1 but only travelled 1→2 (orientation −1) with a bent polyline;
a heavier parallel edge 1→2. The defect repaired by 9d0d428 truncated this path at node 1 (distance 0). -/
def demo : Net Int :=
  { n := 3, edges := [⟨0, 0, 1, 0, 0⟩, ⟨1, 2, 1, 1, -1⟩, ⟨2, 1, 2, 5, 1⟩] }
def demoGeo : Geo (Int × Int) :=
  { pos := fun v => if v = 0 then (0, 0) else if v = 1 then (1, 0) else (2, 0),
    line := fun i => if i = 0 then [(0, 0), (1, 0)] else if i = 1 then [(2, 0), (1, 1), (1, 0)] else [(1, 0), (2, 0)] }

example : WFNet demo := by
  intro e he
  simp only [demo, List.mem_cons, List.not_mem_nil, or_false] at he
  rcases he with rfl | rfl | rfl <;> simp [demo]
example : UniqueIds demo := by
  intro e he e' he' h
  simp only [demo, List.mem_cons, List.not_mem_nil, or_false] at he he'
  rcases he with rfl | rfl | rfl <;> rcases he' with rfl | rfl | rfl <;> simp_all
example : GeoOK demo demoGeo := by
  intro e he
  simp only [demo, List.mem_cons, List.not_mem_nil, or_false] at he
  rcases he with rfl | rfl | rfl <;> simp [demoGeo]
example : shortestPath demo demoGeo 0 2 none = .path [0, 1, 2] [(0, 0), (1, 0), (1, 1), (2, 0)] := by decide +kernel
example : shortestPath demo demoGeo 2 0 none = .none := by decide +kernel
example : shortestPath demo demoGeo 0 0 none = .none := by decide +kernel

end TV.C07
