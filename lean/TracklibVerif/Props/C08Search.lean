import TracklibVerif.Props.C08
import TracklibVerif.Lemmas.GridAround
/-! # C08, second part — radii given in units, the incremental (`unit = -1`) search, segment / track neighbourhoods,
later additions that leave the extent, and what survives of the cell computation under rounding

Property theorems only (helper lemmas: `Lemmas/GridSearch.lean`, `Lemmas/GridAround.lean`; model `Model/Grid.lean`).
As in `Props/C08.lean` the statements are over a linearly ordered field with an exact `floor`, except the last section
(`rounded_*`), which is about ANY monotone rounded subtraction / division.

`InSq ix c U i j` says that `(i, j)` is a cell of the grid at most `U` units (columns and rows) from the cell `c` — the
clipped square that `__neighboringcells(c[0], c[1], U)` enumerates (`neighboringCells_square`). -/
namespace TV.C08
open TV.Grid

/-- `(i, j)` is a cell of the grid within `U` columns and `U` rows of the cell `c` -/
def InSq {α : Type} (ix : Index α) (c : Int × Int) (U : Int) (i j : Int) : Prop :=
  (c.1 - U ≤ i ∧ i ≤ c.1 + U ∧ 0 ≤ i ∧ i < ix.csize) ∧ (c.2 - U ≤ j ∧ j ≤ c.2 + U ∧ 0 ≤ j ∧ j < ix.lsize)

theorem inSq_iff {α : Type} (ix : Index α) (c : Int × Int) (U i j : Int) :
    (i, j) ∈ neighboringCells ix c.1 c.2 U false ↔ InSq ix c U i j :=
  neighboringCells_square ix c.1 c.2 U i j

theorem sqHolds_iff {α : Type} (ix : Index α) (c : Int × Int) (U : Int) (k : Nat) :
    SqHolds ix c.1 c.2 U k ↔ ∃ i j, InSq ix c U i j ∧ Holds ix.grid i j k := by
  constructor
  · rintro ⟨⟨i, j⟩, hc, hH⟩
    exact ⟨i, j, (inSq_iff ix c U i j).mp hc, hH⟩
  · rintro ⟨i, j, hc, hH⟩
    exact ⟨(i, j), (inSq_iff ix c U i j).mpr hc, hH⟩

variable {α : Type} [Field α] [LinearOrder α] [IsStrictOrderedRing α]

/-- Euclidean distance at most `R ≥ 0` bounds both coordinate differences by `R` -/
theorem coord_le_of_dist {q P : α × α} {R : α} (hR : 0 ≤ R) (h : (q.1 - P.1) ^ 2 + (q.2 - P.2) ^ 2 ≤ R ^ 2) :
    (-R ≤ q.1 - P.1 ∧ q.1 - P.1 ≤ R) ∧ (-R ≤ q.2 - P.2 ∧ q.2 - P.2 ≤ R) := by
  constructor
  · have h2 : (q.1 - P.1) ^ 2 ≤ R ^ 2 := by nlinarith [sq_nonneg (q.2 - P.2)]
    exact abs_le.mp (abs_le_of_sq_le_sq h2 hR)
  · have h2 : (q.2 - P.2) ^ 2 ≤ R ^ 2 := by nlinarith [sq_nonneg (q.1 - P.1)]
    exact abs_le.mp (abs_le_of_sq_le_sq h2 hR)

/-- T4a' `units_cover_ground_distance`: what a radius of `U ≥ 0` UNITS means on the ground. On an index on which nothing
raises, a point `P` of the extent whose coordinates differ from those of `q` by at most `U · min(dX, dY)` (in particular
a point within that Euclidean distance) lies in a cell at most `U` columns and `U` rows from the cell of `q`: the square
that `neighborhood(q, unit=U)` reads. (`groundDistanceToUnits(d) = floor(d / min(dX, dY)) + 1` is one more than needed
when `d` is a multiple of the smaller cell side.) -/
theorem units_cover_ground_distance {fl : α → Int} (hf : IsFloor fl) (ix : Index α) (hg : Good ix) (P q cP cq : α × α)
    (U : Int) (hU : 0 ≤ U) (hP : getCell ix P = some cP) (hq : getCell ix q = some cq)
    (hx : -(((U : Int) : α) * min ix.dX ix.dY) ≤ q.1 - P.1 ∧ q.1 - P.1 ≤ ((U : Int) : α) * min ix.dX ix.dY)
    (hy : -(((U : Int) : α) * min ix.dX ix.dY) ≤ q.2 - P.2 ∧ q.2 - P.2 ≤ ((U : Int) : α) * min ix.dX ix.dY) :
    InSq ix (cellOf fl ix cq) U (cellOf fl ix cP).1 (cellOf fl ix cP).2 :=
  (inSq_iff ix _ U _ _).mp (cell_within_units hf ix hg P q cP cq U hU hP hq hx hy)

/-- `neighborhood_unit_complete`: `neighborhood(q, unit=U)` with a radius given directly in units, `U ≥ 0`, `q` any point
of the closed extent of an index on which nothing raises: it returns, and the answer contains every feature listed in
the cell of a point `P` of the extent within Euclidean distance `U · min(dX, dY)` of `q`. -/
theorem neighborhood_unit_complete {fl : α → Int} (hf : IsFloor fl) (ix : Index α) (hg : Good ix) (q cq : α × α)
    (hq : getCell ix q = some cq) (U : Int) (hU : 0 ≤ U) :
    ∃ l, neighborhoodPoint fl ix q U = .ok (some l) ∧
      ∀ (k : Nat) (P cP : α × α), getCell ix P = some cP → Holds ix.grid (cellOf fl ix cP).1 (cellOf fl ix cP).2 k →
        (q.1 - P.1) ^ 2 + (q.2 - P.2) ^ 2 ≤ (((U : Int) : α) * min ix.dX ix.dY) ^ 2 → k ∈ l := by
  have hR : (0 : α) ≤ ((U : Int) : α) * min ix.dX ix.dY :=
    mul_nonneg (by exact_mod_cast hU) (le_of_lt (lt_min hg.2.2.2.1 hg.2.2.2.2.1))
  obtain ⟨out, hout⟩ := collectCells_ok ix (neighboringCells ix (cellOf fl ix cq).1 (cellOf fl ix cq).2 U false) []
    hg.1.2 (neighboringCells_inGrid ix _ _ U)
  refine ⟨out, ?_, ?_⟩
  · unfold neighborhoodPoint
    simp only [getCellR_of_nz ix hg.nz hg.bounded q, hq]
    unfold neighborhoodCell
    have hne : (U != -1) = true := by simp only [bne_iff_ne, ne_eq]; omega
    simp only [hne, if_true, hout]
  · intro k P cP hP hH hd
    obtain ⟨hx, hy⟩ := coord_le_of_dist hR hd
    obtain ⟨_, hall⟩ := collectCells_spec ix _ [] out hout
    exact hall ((cellOf fl ix cP).1, (cellOf fl ix cP).2) (cell_within_units hf ix hg P q cP cq U hU hP hq hx hy) k hH

/-- `incremental_search_complete`: the incremental search `neighborhood(q, unit=-1)` ("the smallest unit such that the
answer is not empty"), `q` any point of the closed extent of an index on which nothing raises (a built index, also
after later additions). It returns a list `l`, and there is a radius `U` (the last ring read, `0 ≤ U ≤ max(csize, lsize)`)
such that
* (a) `l` is EXACTLY what the cells at most `U` columns and rows from the cell of `q` list: nothing registered in a ring
  that was read is omitted (the rings are cut on the clipped square, which repeats cells and loses none), nothing else
  is returned;
* (b) no false negative in ground distance: every feature listed in the cell of a point `P` of the extent within
  Euclidean distance `U · min(dX, dY)` of `q` is in `l`;
* (c) why it stopped: either `l` is empty and no cell of the grid lists anything, or `l` is not empty, `U ≥ 1`, some cell
  at most `U - 1` units away lists a feature and no cell at most `U - 2` units away lists any: the search stops one
  ring after the first ring that holds a feature.
What it does NOT guarantee is in `incremental_search_misses_nearest`. -/
theorem incremental_search_complete {fl : α → Int} (hf : IsFloor fl) (ix : Index α) (hg : Good ix) (q cq : α × α)
    (hq : getCell ix q = some cq) :
    ∃ (l : List Nat) (U : Int), neighborhoodPoint fl ix q (-1) = .ok (some l) ∧ 0 ≤ U ∧ U ≤ max ix.csize ix.lsize ∧
      (∀ k, k ∈ l ↔ ∃ i j, InSq ix (cellOf fl ix cq) U i j ∧ Holds ix.grid i j k) ∧
      (∀ (k : Nat) (P cP : α × α), getCell ix P = some cP → Holds ix.grid (cellOf fl ix cP).1 (cellOf fl ix cP).2 k →
        (q.1 - P.1) ^ 2 + (q.2 - P.2) ^ 2 ≤ (((U : Int) : α) * min ix.dX ix.dY) ^ 2 → k ∈ l) ∧
      ((l = [] ∧ ∀ i j k, 0 ≤ i → i < ix.csize → 0 ≤ j → j < ix.lsize → ¬ Holds ix.grid i j k) ∨
       (l ≠ [] ∧ 1 ≤ U ∧ (∃ i j k, InSq ix (cellOf fl ix cq) (U - 1) i j ∧ Holds ix.grid i j k) ∧
         ∀ i j k, InSq ix (cellOf fl ix cq) (U - 2) i j → ¬ Holds ix.grid i j k)) := by
  obtain ⟨hi, hj⟩ := cellOf_inGrid hf ix hg q cq hq
  obtain ⟨out, U, hrun, hU0, hUM, hout, hstop⟩ := neighborhoodCell_search ix hg.1.2 _ _ hi hj
  have hR : (0 : α) ≤ ((U : Int) : α) * min ix.dX ix.dY :=
    mul_nonneg (by exact_mod_cast hU0) (le_of_lt (lt_min hg.2.2.2.1 hg.2.2.2.2.1))
  refine ⟨out, U, ?_, hU0, hUM, ?_, ?_, ?_⟩
  · unfold neighborhoodPoint
    simp only [getCellR_of_nz ix hg.nz hg.bounded q, hq, hrun]
  · intro k
    rw [hout k, sqHolds_iff ix (cellOf fl ix cq) U k]
  · intro k P cP hP hH hd
    obtain ⟨hx, hy⟩ := coord_le_of_dist hR hd
    exact (hout k).mpr ⟨_, cell_within_units hf ix hg P q cP cq U hU0 hP hq hx hy, hH⟩
  · rcases hstop with ⟨h1, h2⟩ | ⟨h1, h2, ⟨d, h3⟩, h4⟩
    · left
      refine ⟨h1, ?_⟩
      intro i j k a b c e hH
      have : k ∈ out := (hout k).mpr ⟨(i, j), (sq_full ix _ _ U hi hj (by omega) (i, j)).mpr ⟨⟨a, b⟩, c, e⟩, hH⟩
      rw [h1] at this; cases this
    · right
      refine ⟨h2, h1, ?_, ?_⟩
      · obtain ⟨i, j, hc, hH⟩ := (sqHolds_iff ix (cellOf fl ix cq) (U - 1) d).mp h3
        exact ⟨i, j, d, hc, hH⟩
      · intro i j k hc hH
        exact h4 k ((sqHolds_iff ix (cellOf fl ix cq) (U - 2) k).mpr ⟨i, j, hc, hH⟩)

/-- `incremental_search_on_built_index`: the same for an index built by `SpatialIndex(collection, resolution, margin)`
(`margin ≥ 0`, default or positive cell size) in terms of the FEATURES: `neighborhood(q, unit=-1)` returns a list `l`
and there is a radius `U ≥ 0` (the last ring read) such that every feature with a point within Euclidean distance
`U · min(dX, dY)` of `q` is in `l`; and `l` is not empty as soon as the collection has a segment. -/
theorem incremental_search_on_built_index {fl : α → Int} (hf : IsFloor fl) (feats : List (List (α × α)))
    (res : Option (α × α)) (margin : α) (ix : Index α) (hm : 0 ≤ margin) (hres : ∀ r, res = some r → 0 < r.1 ∧ 0 < r.2)
    (hb : build fl feats res margin = .ok ix) (q : α × α) (hq : getCell ix q ≠ none) :
    ∃ (l : List Nat) (U : Int), neighborhoodPoint fl ix q (-1) = .ok (some l) ∧ 0 ≤ U ∧
      (∀ (k : Nat) (t : List (α × α)) (A B : α × α) (s : α), feats[k]? = some t → (A, B) ∈ Consec t → 0 ≤ s → s ≤ 1 →
        (q.1 - (lerp A B s).1) ^ 2 + (q.2 - (lerp A B s).2) ^ 2 ≤ (((U : Int) : α) * min ix.dX ix.dY) ^ 2 → k ∈ l) ∧
      ((∃ t ∈ feats, Consec t ≠ []) → l ≠ []) := by
  have hg := build_good hf feats res margin ix hm hres hb
  obtain ⟨cq, hcq⟩ := Option.ne_none_iff_exists'.mp hq
  obtain ⟨l, U, hrun, hU0, _, _, hdist, hstop⟩ := incremental_search_complete hf ix hg q cq hcq
  refine ⟨l, U, hrun, hU0, ?_, ?_⟩
  · intro k t A B s hk hAB hs0 hs1 hd
    obtain ⟨cP, hP, hH⟩ := build_registers hf feats res margin ix hm hres hb k t hk A B hAB s hs0 hs1
    exact hdist k _ cP hP hH hd
  · rintro ⟨t, ht, hne⟩ hl
    obtain ⟨k, hk⟩ := List.getElem?_of_mem ht
    obtain ⟨⟨A, B⟩, hAB⟩ := List.exists_mem_of_ne_nil _ hne
    obtain ⟨cP, hP, hH⟩ := build_registers hf feats res margin ix hm hres hb k t hk A B hAB 0 (le_refl _) zero_le_one
    obtain ⟨⟨a, b⟩, c, e⟩ := cellOf_inGrid hf ix hg _ cP hP
    rcases hstop with ⟨_, h2⟩ | ⟨h1, _⟩
    · exact h2 _ _ k a b c e hH
    · exact h1 hl

/-- `segment_neighborhood_complete`: `neighborhood([Q1, Q2], None, unit)` with `unit = groundDistanceToUnits(d)`, `d ≥ 0`,
both ends inside the closed extent of an index on which nothing raises: both calls return, and the answer contains every
feature listed in the cell of a point `P` of the extent within Euclidean distance `d` of SOME point `Q` of the query
segment (with `index_complete`: every feature having a point within `d` of the query segment). -/
theorem segment_neighborhood_complete {fl : α → Int} (hf : IsFloor fl) (ix : Index α) (hg : Good ix) (Q1 Q2 : α × α)
    (h1 : getCell ix Q1 ≠ none) (h2 : getCell ix Q2 ≠ none) (d : α) (hd : 0 ≤ d) :
    ∃ u l, groundDistanceToUnits fl ix d = .ok u ∧ neighborhoodSeg fl ix Q1 Q2 u = .ok (some l) ∧
      ∀ (k : Nat) (P cP : α × α) (s : α), getCell ix P = some cP → Holds ix.grid (cellOf fl ix cP).1 (cellOf fl ix cP).2 k →
        0 ≤ s → s ≤ 1 → ((lerp Q1 Q2 s).1 - P.1) ^ 2 + ((lerp Q1 Q2 s).2 - P.2) ^ 2 ≤ d ^ 2 → k ∈ l := by
  obtain ⟨p1, hp1⟩ := Option.ne_none_iff_exists'.mp h1
  obtain ⟨p2, hp2⟩ := Option.ne_none_iff_exists'.mp h2
  have hdX := hg.2.2.2.1
  have hdY := hg.2.2.2.2.1
  have hmn : 0 < min ix.dX ix.dY := lt_min hdX hdY
  have hz : isZero (min ix.dX ix.dY) = false := (isZero_false_iff _).mpr (ne_of_gt hmn)
  have hgu : groundDistanceToUnits fl ix d = .ok (fl (d / min ix.dX ix.dY + 1)) := by
    simp only [groundDistanceToUnits, pyMin_eq, Int.cast_one, hz, Bool.false_eq_true, if_false]
  have hu1 : 1 ≤ fl (d / min ix.dX ix.dY + 1) := units_pos hf d _ hd hmn
  obtain ⟨l, hl, hall⟩ := neighborhoodSeg_unit_spec fl ix hg Q1 Q2 p1 p2 (fl (d / min ix.dX ix.dY + 1)) (by omega) hp1 hp2
  refine ⟨_, l, hgu, hl, ?_⟩
  intro k P cP s hP hH hs0 hs1 hdist
  have hQ := getCell_lerp ix Q1 Q2 p1 p2 s hs0 hs1 hp1 hp2
  obtain ⟨r1, r2⟩ := getCell_range_of_good ix hg _ _ hQ
  have hcross := cellsCross_complete hf ix.csize ix.lsize p1 p2 s hs0 hs1 r1.2 r2.2
  obtain ⟨hx, hy⟩ := coord_le_of_dist hd hdist
  obtain ⟨u, hgu', hueq, _, _, ⟨u1, u2⟩, u3, u4⟩ := units_sound hf ix hdX hdY P (lerp Q1 Q2 s) cP (lerp p1 p2 s) d hP hQ hx hy
  rw [hgu] at hgu'; cases hgu'
  obtain ⟨⟨hi0, hi1⟩, hj0, hj1⟩ := cellOf_inGrid hf ix hg P cP hP
  refine hall _ hcross ((cellOf fl ix cP).1, (cellOf fl ix cP).2) ?_ k hH
  rw [neighboringCells_square]
  unfold cellOf at u1 u2 u3 u4 hi0 hi1 hj0 hj1 ⊢
  unfold lerp at u1 u2 u3 u4
  dsimp only at u1 u2 u3 u4 hi0 hi1 hj0 hj1 ⊢
  exact ⟨⟨by omega, by omega, hi0, hi1⟩, by omega, by omega, hj0, hj1⟩

/-- `track_neighborhood_complete`: the same for `neighborhood(track, None, unit)`, `unit = groundDistanceToUnits(d)`, every
vertex of the query track inside the closed extent: it returns, and the answer contains every feature listed in the cell
of a point of the extent within Euclidean distance `d` of some point of some segment of the query track. -/
theorem track_neighborhood_complete {fl : α → Int} (hf : IsFloor fl) (ix : Index α) (hg : Good ix) (track : List (α × α))
    (hin : ∀ p ∈ track, getCell ix p ≠ none) (d : α) (hd : 0 ≤ d) :
    ∃ u l, groundDistanceToUnits fl ix d = .ok u ∧ neighborhoodTrack fl ix track u = .ok l ∧
      ∀ (k : Nat) (P cP Q1 Q2 : α × α) (s : α), (Q1, Q2) ∈ Consec track → getCell ix P = some cP →
        Holds ix.grid (cellOf fl ix cP).1 (cellOf fl ix cP).2 k → 0 ≤ s → s ≤ 1 →
        ((lerp Q1 Q2 s).1 - P.1) ^ 2 + ((lerp Q1 Q2 s).2 - P.2) ^ 2 ≤ d ^ 2 → k ∈ l := by
  have hdX := hg.2.2.2.1
  have hdY := hg.2.2.2.2.1
  have hmn : 0 < min ix.dX ix.dY := lt_min hdX hdY
  have hz : isZero (min ix.dX ix.dY) = false := (isZero_false_iff _).mpr (ne_of_gt hmn)
  have hgu : groundDistanceToUnits fl ix d = .ok (fl (d / min ix.dX ix.dY + 1)) := by
    simp only [groundDistanceToUnits, pyMin_eq, Int.cast_one, hz, Bool.false_eq_true, if_false]
  have hu1 : 1 ≤ fl (d / min ix.dX ix.dY + 1) := units_pos hf d _ hd hmn
  obtain ⟨l, hl, _, hall⟩ := neighborhoodTrackLoop_spec fl ix hg (fl (d / min ix.dX ix.dY + 1)) (by omega) track none [] (by simpa using hin)
  refine ⟨_, l, hgu, hl, ?_⟩
  intro k P cP Q1 Q2 s hQ hP hH hs0 hs1 hdist
  obtain ⟨m1, m2⟩ := mem_of_consec track Q1 Q2 hQ
  obtain ⟨p1, hp1⟩ := Option.ne_none_iff_exists'.mp (hin Q1 m1)
  obtain ⟨p2, hp2⟩ := Option.ne_none_iff_exists'.mp (hin Q2 m2)
  have hQc := getCell_lerp ix Q1 Q2 p1 p2 s hs0 hs1 hp1 hp2
  obtain ⟨r1, r2⟩ := getCell_range_of_good ix hg _ _ hQc
  have hcross := cellsCross_complete hf ix.csize ix.lsize p1 p2 s hs0 hs1 r1.2 r2.2
  obtain ⟨hx, hy⟩ := coord_le_of_dist hd hdist
  obtain ⟨u, hgu', hueq, _, _, ⟨u1, u2⟩, u3, u4⟩ := units_sound hf ix hdX hdY P (lerp Q1 Q2 s) cP (lerp p1 p2 s) d hP hQc hx hy
  rw [hgu] at hgu'; cases hgu'
  obtain ⟨⟨hi0, hi1⟩, hj0, hj1⟩ := cellOf_inGrid hf ix hg P cP hP
  refine hall Q1 Q2 (by simpa using hQ) p1 p2 hp1 hp2 _ hcross ((cellOf fl ix cP).1, (cellOf fl ix cP).2) ?_ k hH
  rw [neighboringCells_square]
  unfold cellOf at u1 u2 u3 u4 hi0 hi1 hj0 hj1 ⊢
  unfold lerp at u1 u2 u3 u4
  dsimp only at u1 u2 u3 u4 hi0 hi1 hj0 hj1 ⊢
  exact ⟨⟨by omega, by omega, hi0, hi1⟩, by omega, by omega, hj0, hj1⟩

/-- `late_feature_outside_exact`: `addFeature(track, num)` on an index on which nothing raises, for ANY track — vertices
outside the extent allowed (a later `Network.addEdge` that leaves the extent fixed at construction). The call returns,
keeps extent / dimensions / everything registered before, and
* when the FIRST vertex is outside the extent nothing at all is registered (`ix' = ix`): `coord1` stays on that vertex,
  `p1 is None` at every later vertex and every segment is skipped — also the segments that lie wholly inside the extent;
* when the first vertex is inside, the result is EXACTLY that of `addFeature` on the polyline through the vertices that
  are inside the extent (an outside vertex is skipped and `coord1` keeps the last inside vertex, so a CHORD is registered
  in place of the two legs): every point of every chord between consecutive inside vertices lies in a cell listing `num`;
  in particular every leg of the track with BOTH ends inside the extent is registered completely (it is such a chord).
For a leg with an end outside the extent nothing is guaranteed about its part inside the extent
(`late_feature_outside_leg_not_registered`). -/
theorem late_feature_outside_exact {fl : α → Int} (hf : IsFloor fl) (ix : Index α) (hg : Good ix)
    (v0 : α × α) (rest : List (α × α)) (num : Nat) :
    ∃ ix', addFeature fl ix (v0 :: rest) num = .ok ix' ∧ Good ix' ∧ Same ix ix' ∧
      (∀ i j k, Holds ix.grid i j k → Holds ix'.grid i j k) ∧
      (getCell ix v0 = none → ix' = ix) ∧
      (getCell ix v0 ≠ none →
        addFeature fl ix (v0 :: rest) num = addFeature fl ix ((v0 :: rest).filter (insideB ix)) num ∧
        (∀ A B, (A, B) ∈ Consec ((v0 :: rest).filter (insideB ix)) → ∀ s : α, 0 ≤ s → s ≤ 1 →
          ∃ c, getCell ix' (lerp A B s) = some c ∧ Holds ix'.grid (cellOf fl ix' c).1 (cellOf fl ix' c).2 num) ∧
        (∀ A B, (A, B) ∈ Consec (v0 :: rest) → getCell ix A ≠ none → getCell ix B ≠ none →
          (A, B) ∈ Consec ((v0 :: rest).filter (insideB ix)))) := by
  cases h0 : getCell ix v0 with
  | none =>
    have hrun : addFeature fl ix (v0 :: rest) num = .ok ix := by
      unfold addFeature
      simp only [addFeatureLoop]
      exact addFeatureLoop_stuck fl num ix hg v0 h0 rest
    exact ⟨ix, hrun, hg, ⟨rfl, rfl, rfl, rfl, rfl, rfl, rfl, rfl⟩, fun _ _ _ h => h, fun _ => rfl, fun h => absurd rfl h⟩
  | some c0 =>
    have hin0 : insideB ix v0 = true := by unfold insideB; rw [h0]; rfl
    have hfilt : (v0 :: rest).filter (insideB ix) = v0 :: rest.filter (insideB ix) := by
      rw [List.filter_cons, if_pos hin0]
    have heq : addFeature fl ix (v0 :: rest) num = addFeature fl ix ((v0 :: rest).filter (insideB ix)) num := by
      rw [hfilt]
      unfold addFeature
      simp only [addFeatureLoop]
      exact addFeatureLoop_filter num rest ix hg v0 (by rw [h0]; exact Option.some_ne_none _)
    have hall : ∀ p ∈ (v0 :: rest).filter (insideB ix), getCell ix p ≠ none := by
      intro p hp
      have := (List.mem_filter.mp hp).2
      unfold insideB at this
      intro hc; rw [hc] at this; cases this
    obtain ⟨ix', h, hg', e, hreg⟩ := addFeature_complete hf ix hg _ num hall
    refine ⟨ix', by rw [heq]; exact h, hg', e.1, e.2, (fun hc => by cases hc), fun _ => ⟨heq, hreg, ?_⟩⟩
    intro A B hAB hA hB
    apply consec_filter _ _ _ _ hAB
    · unfold insideB; exact Option.isSome_iff_ne_none.mpr hA
    · unfold insideB; exact Option.isSome_iff_ne_none.mpr hB

/-! ### what the code does not guarantee (refutations with witnesses, replayed on the real code by the corpus) -/

/-- `incremental_search_misses_nearest`: the natural reading of the incremental search — "the nearest feature is among
those returned" — is FALSE, also with square cells and the extra ring the loop adds. Four tracks on a 10 x 10 grid of unit
cells over [0,10]² (margin 0); query point `q = (95/16, 11/2)` in cell (5,5). Track 1 = (33/8,65/16)-(33/8,17/4) is in
cell (4,4) (first non-empty ring: 1), the search reads ring 2 and stops; track 0 = (129/16,11/2)-(65/8,11/2) is in cell
(8,5), ring 3, and is not returned — although its point (129/16, 11/2) is at distance 17/8 of `q`, nearer than EVERY point
of track 1 (all at distance > 11/5). (The rings are Chebyshev rings of cells; a feature in ring `u` can be as far as
`(u + 1)·√2` cells, farther than one in ring `u + 2`.) -/
theorem incremental_search_misses_nearest :
    ∃ (ix : Index ℚ) (l : List Nat),
      build Rat.floor [[((129/16 : ℚ), (11/2 : ℚ)), (65/8, 11/2)], [(33/8, 65/16), (33/8, 17/4)], [(0, 0), (0, 1/2)],
        [(10, 10), (10, 19/2)]] (some (1, 1)) 0 = .ok ix ∧
      neighborhoodPoint Rat.floor ix (95/16, 11/2) (-1) = .ok (some l) ∧ 1 ∈ l ∧ 0 ∉ l ∧
      ((95/16 : ℚ) - 129/16) ^ 2 + ((11/2 : ℚ) - 11/2) ^ 2 = (17/8) ^ 2 ∧
      ∀ s : ℚ, 0 ≤ s → s ≤ 1 →
        (17/8 : ℚ) ^ 2 < ((95/16 : ℚ) - (lerp ((33/8 : ℚ), (65/16 : ℚ)) (33/8, 17/4) s).1) ^ 2
          + ((11/2 : ℚ) - (lerp ((33/8 : ℚ), (65/16 : ℚ)) (33/8, 17/4) s).2) ^ 2 := by
  have hb : (build Rat.floor [[((129/16 : ℚ), (11/2 : ℚ)), (65/8, 11/2)], [(33/8, 65/16), (33/8, 17/4)], [(0, 0), (0, 1/2)],
      [(10, 10), (10, 19/2)]] (some (1, 1)) 0).toBool = true := by decide +kernel
  cases hbuild : build Rat.floor [[((129/16 : ℚ), (11/2 : ℚ)), (65/8, 11/2)], [(33/8, 65/16), (33/8, 17/4)], [(0, 0), (0, 1/2)],
      [(10, 10), (10, 19/2)]] (some (1, 1)) 0 with
  | error e => rw [hbuild] at hb; cases hb
  | ok ix =>
    have hq : (match build Rat.floor [[((129/16 : ℚ), (11/2 : ℚ)), (65/8, 11/2)], [(33/8, 65/16), (33/8, 17/4)], [(0, 0), (0, 1/2)],
        [(10, 10), (10, 19/2)]] (some (1, 1)) 0 with
        | .ok ix => neighborhoodPoint Rat.floor ix (95/16, 11/2) (-1)
        | .error _ => .error .exit) = .ok (some [1]) := by decide +kernel
    rw [hbuild] at hq
    refine ⟨ix, [1], rfl, hq, by simp, by simp, by norm_num, ?_⟩
    intro s hs0 hs1
    unfold lerp
    dsimp only
    nlinarith [mul_nonneg hs0 hs0]

/-- `late_feature_first_vertex_outside_dropped`: witness of the first case of `late_feature_outside_exact`. The network of
the two edges (0,0)-(100,0) and (0,100)-(100,100), cells 10 x 10, margin 1/20 (extent [-5,105]²); the edge
(200,50)-(40,50)-(60,50) added under number 2 has its second segment wholly INSIDE the extent, yet the point (50,50) of
that segment does not find it (the same edge given from its other end, (60,50)-(40,50)-(200,50), is found). -/
theorem late_feature_first_vertex_outside_dropped :
    (match build Rat.floor [[((0 : ℚ), (0 : ℚ)), (100, 0)], [(0, 100), (100, 100)]] (some (10, 10)) (1/20) with
      | .ok ix =>
        (match addFeature Rat.floor ix [(200, 50), (40, 50), (60, 50)] 2, addFeature Rat.floor ix [(60, 50), (40, 50), (200, 50)] 2 with
         | .ok ix1, .ok ix2 => (requestPoint Rat.floor ix1 (50, 50), requestPoint Rat.floor ix2 (50, 50))
         | _, _ => (.error .exit, .error .exit))
      | .error _ => (.error .exit, .error .exit)) = (.ok [], .ok [2]) := by
  decide +kernel

/-- `late_feature_outside_leg_not_registered`: witness of the second case. Same network; the edge (40,50)-(50,200)-(60,50)
added under number 2 leaves the extent at its middle vertex: the chord (40,50)-(60,50) is registered — the point (50,50),
which is on no leg, finds it — and the point (42,80) of the leg (40,50)-(50,200), inside the extent, does not. -/
theorem late_feature_outside_leg_not_registered :
    (match build Rat.floor [[((0 : ℚ), (0 : ℚ)), (100, 0)], [(0, 100), (100, 100)]] (some (10, 10)) (1/20) with
      | .ok ix =>
        (match addFeature Rat.floor ix [(40, 50), (50, 200), (60, 50)] 2 with
         | .ok ix1 => (requestPoint Rat.floor ix1 (50, 50), requestPoint Rat.floor ix1 (42, 80),
                       lerp ((40 : ℚ), (50 : ℚ)) (50, 200) (1/5))
         | .error _ => (.error .exit, .error .exit, (0, 0)))
      | .error _ => (.error .exit, .error .exit, (0, 0))) = (.ok [2], .ok [], (42, 80)) := by
  decide +kernel

/-! ### rounding: what the cell computation keeps under ANY monotone rounded subtraction / division

The theorems above are about exact values. `__getCell` and `request(coord)` compute, in doubles,
`min(floor(min((x − xmin) / dX, csize)), csize − 1)`. The statement one would like at the float level,
`floor((x − xmin) / dX) < csize` for `xmin ≤ x < xmax`, is FALSE in IEEE doubles — `xmin = 0`, `xmax = 0.5`, 7 columns
(`dX = 0.5 / 7`), `x = 0.49999999999999994 < xmax`: `(x − xmin) / dX` is exactly `7.0` (corpus case
`float_index_reaches_csize_below_xmax`) — and it does not follow from monotonicity and exactness at the two ends either
(`rounded_floor_may_reach_csize`: a counter-model). What does hold for every rounding that is monotone, exact on `o − o`
and on `0 / d` — IEEE subtraction and division in any rounding mode — is below: thanks to the two clamps the computed
column is always a column of the grid (no IndexError and, as important in Python, no negative index that would silently
read the LAST column), it is monotone in `x`, and `xmin` is in column 0. How far the computed column can be from the
exact one (at most one column for `csize < 2^51`, since each operation is within one ulp) is NOT proved. -/

section rounded
variable {β : Type} [LinearOrder β]

/-- what is assumed of the rounded operations: `sub a o` is the computed `a − o`, `div a d` the computed `a / d`, `fl` is
`math.floor` on the computed numbers, `ofInt` the conversion of a Python `int` (exact for the grid sizes in question) -/
structure RoundedAxis (sub div : β → β → β) (fl : β → Int) (ofInt : Int → β) (zero : β) : Prop where
  sub_mono : ∀ a b o, a ≤ b → sub a o ≤ sub b o
  sub_self : ∀ o, sub o o = zero
  div_mono : ∀ a b d, zero < d → a ≤ b → div a d ≤ div b d
  zero_div : ∀ d, zero < d → div zero d = zero
  fl_mono : ∀ a b, a ≤ b → fl a ≤ fl b
  fl_ofInt : ∀ n, fl (ofInt n) = n
  ofInt_zero : ofInt 0 = zero
  ofInt_mono : ∀ m n, m ≤ n → ofInt m ≤ ofInt n

/-- the column `request(coord)` / `neighborhood(coord)` compute for abscissa `x`:
`min(floor(min((x − xmin) / dX, csize)), csize − 1)` with the rounded operations -/
def roundedCell (sub div : β → β → β) (fl : β → Int) (ofInt : Int → β) (xmin dX : β) (cs : Int) (x : β) : Int :=
  min (fl (min (div (sub x xmin) dX) (ofInt cs))) (cs - 1)

/-- `rounded_cell_in_grid`: for every `x ≥ xmin`, positive cell side and at least one column, the computed column is a
column of the grid, whatever the rounding does -/
theorem rounded_cell_in_grid {sub div : β → β → β} {fl : β → Int} {ofInt : Int → β} {zero : β}
    (h : RoundedAxis sub div fl ofInt zero) (xmin dX : β) (cs : Int) (hd : zero < dX) (hcs : 1 ≤ cs) (x : β) (hx : xmin ≤ x) :
    0 ≤ roundedCell sub div fl ofInt xmin dX cs x ∧ roundedCell sub div fl ofInt xmin dX cs x ≤ cs - 1 := by
  unfold roundedCell
  refine ⟨?_, min_le_right _ _⟩
  have h1 : zero ≤ div (sub x xmin) dX := by
    have := h.div_mono _ _ dX hd (h.sub_mono xmin x xmin hx)
    rwa [h.sub_self, h.zero_div dX hd] at this
  have h2 : zero ≤ ofInt cs := by
    have := h.ofInt_mono 0 cs (by omega)
    rwa [h.ofInt_zero] at this
  have h3 : 0 ≤ fl (min (div (sub x xmin) dX) (ofInt cs)) := by
    have := h.fl_mono _ _ (le_min h1 h2)
    rwa [← h.ofInt_zero, h.fl_ofInt] at this
  omega

/-- `rounded_cell_mono`: the computed column is monotone in `x` -/
theorem rounded_cell_mono {sub div : β → β → β} {fl : β → Int} {ofInt : Int → β} {zero : β}
    (h : RoundedAxis sub div fl ofInt zero) (xmin dX : β) (cs : Int) (hd : zero < dX) (x x' : β) (hx : x ≤ x') :
    roundedCell sub div fl ofInt xmin dX cs x ≤ roundedCell sub div fl ofInt xmin dX cs x' := by
  unfold roundedCell
  have h1 := h.div_mono _ _ dX hd (h.sub_mono x x' xmin hx)
  have h2 := h.fl_mono _ _ (min_le_min_right (ofInt cs) h1)
  omega

/-- `rounded_cell_at_xmin`: the lower border of the extent is in column 0 -/
theorem rounded_cell_at_xmin {sub div : β → β → β} {fl : β → Int} {ofInt : Int → β} {zero : β}
    (h : RoundedAxis sub div fl ofInt zero) (xmin dX : β) (cs : Int) (hd : zero < dX) (hcs : 1 ≤ cs) :
    roundedCell sub div fl ofInt xmin dX cs xmin = 0 := by
  unfold roundedCell
  have h2 : zero ≤ ofInt cs := by
    have := h.ofInt_mono 0 cs (by omega)
    rwa [h.ofInt_zero] at this
  rw [h.sub_self, h.zero_div dX hd, min_eq_left h2, ← h.ofInt_zero, h.fl_ofInt]
  omega

/-- `rounded_floor_may_reach_csize`: monotone rounding that is exact at both ends of the extent does NOT give
`floor((x − xmin) / dX) < csize` for `xmin ≤ x < xmax`. Counter-model on the integers: `div a d` rounds up, extent
[0, 10], 5 columns of side 2 (the index of `xmax` is exactly 5); `x = 9 < xmax` gets index 5 = csize. Only the clamp
`min(·, csize − 1)` keeps it in the last column — where it belongs. -/
theorem rounded_floor_may_reach_csize :
    ∃ (sub div : Int → Int → Int) (fl : Int → Int) (ofInt : Int → Int) (xmin xmax dX x cs : Int),
      RoundedAxis sub div fl ofInt 0 ∧ 0 < dX ∧ div (sub xmax xmin) dX = ofInt cs ∧ xmin ≤ x ∧ x < xmax ∧
      ¬ fl (div (sub x xmin) dX) < cs ∧ roundedCell sub div fl ofInt xmin dX cs x = cs - 1 := by
  refine ⟨fun a o => a - o, fun a d => (a + d - 1) / d, id, id, 0, 10, 2, 9, 5, ?_, by decide, by decide, by decide, by decide,
    by decide, by decide⟩
  refine ⟨fun a b o hab => by show a - o ≤ b - o; omega, fun o => by show o - o = 0; omega, ?_, ?_, fun a b hab => hab, fun n => rfl, rfl,
    fun m n hmn => hmn⟩
  · intro a b d hd hab
    exact Int.ediv_le_ediv hd (by omega)
  · intro d hd
    simp only [zero_add]
    exact Int.ediv_eq_zero_of_lt (by omega) (by omega)

end rounded

/-! ### non-vacuity of the positive statements -/

/-- the search on the index of the refutation above: from (1/2, 1/2) — cell (0,0), which holds track 2 — the search
reads rings 0 and 1 and returns track 2 only; a given-unit query with 5 units from the same point returns tracks 1 and 2 -/
example : (match build Rat.floor [[((129/16 : ℚ), (11/2 : ℚ)), (65/8, 11/2)], [(33/8, 65/16), (33/8, 17/4)], [(0, 0), (0, 1/2)],
      [(10, 10), (10, 19/2)]] (some (1, 1)) 0 with
    | .ok ix => (neighborhoodPoint Rat.floor ix (1/2, 1/2) (-1), neighborhoodPoint Rat.floor ix (1/2, 1/2) 5,
        neighborhoodSeg Rat.floor ix (5, 5) (7, 5) 1, neighborhoodTrack Rat.floor ix [(5, 5), (7, 5), (7, 9)] 1)
    | .error _ => (.error .exit, .error .exit, .error .exit, .error .exit))
    = (.ok (some [2]), .ok (some [2, 1]), .ok (some [1, 0]), .ok [1, 0]) := by
  decide +kernel

end TV.C08
