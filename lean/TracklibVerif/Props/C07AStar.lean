import TracklibVerif.Model.GraphAStarPath
import TracklibVerif.Lemmas.GraphAStarPath
import TracklibVerif.Lemmas.GraphMetric
import TracklibVerif.Lemmas.GraphPathExt
import Mathlib.Analysis.Real.Sqrt
import Mathlib.Tactic.NormNum
/-! # C07 in A* mode — a returned shortest path is a real, optimal, geometrically continuous route

Property theorems for `Network.shortest_path` after `setRoutingMethod(Network.ROUTING_ALGO_ASTAR)` (model:
`Model/GraphAStar.lean` — the forward pass `forwardH`: label `g`, queue priority `g + heuristic`, as the code is after fix
c78e3ab — and `Model/GraphAStarPath.lean` — `shortest_path` = that forward pass followed by `run_routing_backward`, alone
and as a call of a session on one `Network` object with its routing settings).

* ANY heuristic (consistent or not, any `astar_wgt`, any node coordinates), any cut-off — `astar_forward_state_good`,
  `astar_path_is_walk`, `astar_geometry_chained`, `astar_unreachable_none`, `astar_reachable_path`, `astar_never_diverges`:
  a returned path is REAL (a walk of permitted edges from `s` to `t`), CONTINUOUS (the used edges' polylines chained along
  the travel, junction vertices once, from the position of `s` to that of `t`) and its weights sum to the value reported
  for the target; no walk ⇒ `None`; without a cut-off a reachable target always gets a path. Weights: any `WalkAdd`
  addition (also a non-associative one, see `Props/C07.lean`).
* a CONSISTENT heuristic (`h u ≤ w + h v` along every permitted arc) — `astar_path_optimal`, `astar_path_optimal_cut`: the
  weights sum to the true shortest distance (with a cut-off: whenever the distance is within it). Exact arithmetic
  (linearly ordered cancellative commutative monoid: `ℕ ℤ ℚ ℝ`): the comparison `g + h < g' + h'` is cancelled.
* the heuristic the code computes — `astar_metric_path_optimal`: `astar_wgt × Node.distanceTo(target)` is consistent as
  soon as `0 ≤ astar_wgt` and every permitted arc weighs at least `astar_wgt ×` the straight-line distance of its ends
  (the harness' predicate `heuristic_consistent`); ordered field, `sqrt` any square root on the non-negative elements.
* `astar_track_operators_agree`, `astar_session_path_fresh`, `astar_session_dist_fresh`, `dijkstra_mode_is_session`: the
  same through the track operators of the C04 model; a call at any point of a session on one object answers as on a fresh
  network with the object's settings of that moment; with `routing_mode ≠ 1` the session is the Dijkstra session of
  `Props/C07.lean`.

OPEN (see `P.open_statements`): with float weights the `g + h` comparisons are subject to rounding (the float stream runs
the model at `Float` bit for bit); for a heuristic that is NOT consistent optimality is not claimed (the docstring of
`setRoutingMethod` says approximate). -/
namespace TV.C07
open TV.Graph TV.GraphExt

section any
variable {W : Type} [LinearOrder W] [Add W] [Zero W] [WalkAdd W] {P : Type}

/-- the flags left by the forward pass of `shortest_path(s, t, cut)` in A* mode satisfy the predecessor invariant
(`antecedent` settled, joined by `antecedent_edge` in a permitted direction, tight, ranked) WHATEVER the heuristic -/
theorem astar_forward_state_good (net : Net W) (hnet : WFNet net) (h : Nat → W) (s t : Nat) (hs : s < net.n)
    (cut : Option W) : GoodH net s (runForwardH net h s (some t) cut).1 :=
  forwardH_goodH net hnet h s hs (some t) cut

/-- REAL, any heuristic, any cut-off: whatever `shortest_path(s, t, cut)` returns as a path in A* mode is a route: its node
list starts at `s`, ends at `t`, consecutive nodes are joined by the recorded edge in a permitted direction; its geometry is
the chain of those edges' polylines along the travel, junction vertices once, closed by the position of `t`; and the
recorded weights sum to the label of `t` — the value `shortest_distance(s, t, cut)` reports in the same mode. -/
theorem astar_path_is_walk (net : Net W) (hnet : WFNet net) (hu : UniqueIds net) (geo : Geo P) (h : Nat → W) (s t : Nat)
    (hs : s < net.n) (cut : Option W) (nodes : List Nat) (geom : List P)
    (hp : shortestPathH net geo h s t cut = .path nodes geom) :
    ∃ l g g' y, nodes = l ++ [t] ∧ geom = g ++ [geo.pos t] ∧ nodes.head? = some s ∧ Route net geo s l g g' t y ∧
      Walk net s t y ∧ shortestDistanceH net h s t cut = some y := by
  have hg := astar_forward_state_good net hnet h s t hs cut
  obtain ⟨h1, h2⟩ := runBackward_spec_any net hu geo s _ hg t
  unfold shortestPathH at hp
  cases hpt : (runForwardH net h s (some t) cut).1.pred t with
  | none => rw [h1 hpt] at hp; cases hp
  | some p =>
    obtain ⟨l, g, g', y, hd, hr, hb⟩ := h2 p hpt
    rw [hb] at hp
    simp only [Back.path.injEq] at hp
    obtain ⟨rfl, rfl⟩ := hp
    exact ⟨l, g, g', y, rfl, rfl, hr.nodes_head, hr, hr.walk, hd⟩

/-- CONTINUOUS, any heuristic: when every edge polyline starts at its source's position and ends at its target's, the
geometry returned in A* mode is the position of `s` followed by the polylines of the edges used, each oriented along the
direction of travel and each without its first vertex; it starts at the position of `s` and ends at that of `t`. -/
theorem astar_geometry_chained (net : Net W) (hnet : WFNet net) (hu : UniqueIds net) (geo : Geo P) (hgeo : GeoOK net geo)
    (h : Nat → W) (s t : Nat) (hs : s < net.n) (cut : Option W) (nodes : List Nat) (geom : List P)
    (hp : shortestPathH net geo h s t cut = .path nodes geom) :
    ∃ l g g' y, nodes = l ++ [t] ∧ Route net geo s l g g' t y ∧ geom = geo.pos s :: g' ∧
      geom.head? = some (geo.pos s) ∧ geom.getLast? = some (geo.pos t) := by
  obtain ⟨l, g, g', y, a, b, _, c, _, _⟩ := astar_path_is_walk net hnet hu geo h s t hs cut nodes geom hp
  refine ⟨l, g, g', y, a, c, by rw [b]; exact c.geom_eq hgeo, ?_, by rw [b]; simp⟩
  rw [b]; exact c.geom_head hgeo

/-- any heuristic, any cut-off: no permitted walk ⇒ `None`; and `t = s` ⇒ `None` (as coded) -/
theorem astar_unreachable_none (net : Net W) (hnet : WFNet net) (hu : UniqueIds net) (geo : Geo P) (h : Nat → W)
    (s t : Nat) (hs : s < net.n) (cut : Option W) (hn : ¬ Reachable net s t ∨ t = s) :
    shortestPathH net geo h s t cut = .none := by
  have hg := astar_forward_state_good net hnet h s t hs cut
  obtain ⟨hb, ha, rk, K, hp⟩ := hg
  unfold shortestPathH
  apply (runBackward_spec_any net hu geo s _ ⟨hb, ha, rk, K, hp⟩ t).1
  rcases hn with hn | hn
  · cases hpt : (runForwardH net h s (some t) cut).1.pred t with
    | none => rfl
    | some p =>
      obtain ⟨a, i⟩ := p
      obtain ⟨_, _, e, _, _, _, x, _, hd⟩ := hp.p2 t a i hpt
      exact absurd ⟨_, ha.a3 t _ hd⟩ hn
  · subst hn; exact hp.p1

/-- any heuristic, no cut-off: a reachable target other than the source always gets a path -/
theorem astar_reachable_path (net : Net W) (hnet : WFNet net) (hu : UniqueIds net) (geo : Geo P) (h : Nat → W) (s t : Nat)
    (hs : s < net.n) (hr : Reachable net s t) (hts : t ≠ s) :
    ∃ nodes geom, shortestPathH net geo h s t none = .path nodes geom := by
  have hg := astar_forward_state_good net hnet h s t hs none
  have hany := (shortestDistanceH_any net hnet h s t hs).2
  cases hd : shortestDistanceH net h s t none with
  | none => exact absurd hr (hany.1 hd)
  | some y =>
    obtain ⟨_, _, rk, K, hp⟩ := hg
    have hsome := hp.p3 t y hts hd
    cases hpt : (runForwardH net h s (some t) none).1.pred t with
    | none => rw [hpt] at hsome; cases hsome
    | some p =>
      obtain ⟨l, g, g', y', _, _, hb⟩ :=
        (runBackward_spec_any net hu geo s _ (astar_forward_state_good net hnet h s t hs none) t).2 p hpt
      exact ⟨_, _, hb⟩

/-- the backward loop always terminates on the flags left by an A* forward pass, whatever the heuristic -/
theorem astar_never_diverges (net : Net W) (hnet : WFNet net) (hu : UniqueIds net) (geo : Geo P) (h : Nat → W) (s t : Nat)
    (hs : s < net.n) (cut : Option W) : shortestPathH net geo h s t cut ≠ .diverge := by
  have hg := astar_forward_state_good net hnet h s t hs cut
  obtain ⟨h1, h2⟩ := runBackward_spec_any net hu geo s _ hg t
  unfold shortestPathH
  cases hpt : (runForwardH net h s (some t) cut).1.pred t with
  | none => rw [h1 hpt]; intro hc; cases hc
  | some p =>
    obtain ⟨l, g, g', y, _, _, hb⟩ := h2 p hpt
    rw [hb]; intro hc; cases hc

omit [WalkAdd W] in
/-- `shortest_path` in A* mode with `run_routing_backward` written on TRACKS with the operators of the C04 model returns
`None` / a path exactly when the list-level model does, with the same node list, the same points and no analytical
feature (`run_routing_backward` is the same code in both modes) -/
theorem astar_track_operators_agree (net : Net W) (geo : GeoT) (h : Nat → W) (s t : Nat) (cut : Option W) :
    shortestPathHT net geo h s t cut = liftBack (shortestPathH net geo.toGeo h s t cut) :=
  runBackwardT_eq net geo _ t
end any

section consistent
variable {W : Type} [AddCommMonoid W] [LinearOrder W] [IsOrderedCancelAddMonoid W] {P : Type}

/-- OPTIMAL: with a consistent heuristic the weights of the edges used by the path that `shortest_path(s, t)` returns in A*
mode sum to the true shortest distance; `None` exactly when `t` is unreachable or `t = s`. -/
theorem astar_path_optimal (net : Net W) (hnet : WFNet net) (hu : UniqueIds net) (geo : Geo P) (h : Nat → W)
    (hc : Consistent net h) (s t : Nat) (hs : s < net.n) :
    (shortestPathH net geo h s t none = .none ↔ (¬ Reachable net s t ∨ t = s)) ∧
    (∀ nodes geom, shortestPathH net geo h s t none = .path nodes geom →
      ∃ l g g' y, nodes = l ++ [t] ∧ geom = g ++ [geo.pos t] ∧ Route net geo s l g g' t y ∧ IsDist net s t y) := by
  constructor
  · constructor
    · intro hn
      by_contra hcon
      have hr : Reachable net s t := by by_contra h'; exact hcon (Or.inl h')
      have hts : t ≠ s := fun h' => hcon (Or.inr h')
      obtain ⟨nodes, geom, hp⟩ := astar_reachable_path net hnet hu geo h s t hs hr hts
      rw [hn] at hp; cases hp
    · exact astar_unreachable_none net hnet hu geo h s t hs none
  · intro nodes geom hp
    obtain ⟨l, g, g', y, a, b, _, c, _, d⟩ := astar_path_is_walk net hnet hu geo h s t hs none nodes geom hp
    exact ⟨l, g, g', y, a, b, c, ((shortestDistanceH_spec net hnet h hc s t hs).1 y).1 d⟩

/-- OPTIMAL with a cut-off: consistent heuristic, smallest at the target (`h t = 0` for the code's heuristic); if the true
distance does not exceed the cut-off, the returned path realises it. -/
theorem astar_path_optimal_cut (net : Net W) (hnet : WFNet net) (hu : UniqueIds net) (geo : Geo P) (h : Nat → W)
    (hc : Consistent net h) (s t : Nat) (hs : s < net.n) (hmin : ∀ v, h t ≤ h v) (cut : Option W) (d : W)
    (hd : IsDist net s t d) (hw : Within cut d) (nodes : List Nat) (geom : List P)
    (hp : shortestPathH net geo h s t cut = .path nodes geom) :
    ∃ l g g', nodes = l ++ [t] ∧ geom = g ++ [geo.pos t] ∧ Route net geo s l g g' t d := by
  obtain ⟨l, g, g', y, a, b, _, c, _, e⟩ := astar_path_is_walk net hnet hu geo h s t hs cut nodes geom hp
  rw [(shortestDistanceH_cut net hnet h hc s t hs hmin cut).1 d hd hw] at e
  cases e
  exact ⟨l, g, g', a, b, c⟩

/-- consistent heuristic smallest at the target, ANY cut-off (also one below the true distance): a returned path is a real
route with its geometry chained, the weights of its edges sum to the value `y` that `shortest_distance(s, t, cut)` reports in
A* mode, `y` is at least the true distance `d`, and if `y` does not exceed the cut-off then `y = d`. -/
theorem astar_path_cut_sound (net : Net W) (hnet : WFNet net) (hu : UniqueIds net) (geo : Geo P) (h : Nat → W)
    (hc : Consistent net h) (s t : Nat) (hs : s < net.n) (hmin : ∀ v, h t ≤ h v) (cut : Option W) (nodes : List Nat)
    (geom : List P) (hp : shortestPathH net geo h s t cut = .path nodes geom) :
    ∃ l g g' y d, nodes = l ++ [t] ∧ geom = g ++ [geo.pos t] ∧ Route net geo s l g g' t y ∧
      shortestDistanceH net h s t cut = some y ∧ IsDist net s t d ∧ d ≤ y ∧ (Within cut y → y = d) := by
  obtain ⟨l, g, g', y, a, b, _, c, hw, e⟩ := astar_path_is_walk net hnet hu geo h s t hs cut nodes geom hp
  have hsp := shortestDistanceH_spec net hnet h hc s t hs
  cases hd0 : shortestDistanceH net h s t none with
  | none => exact absurd ⟨y, hw⟩ (hsp.2.1 hd0)
  | some d =>
    have hd : IsDist net s t d := (hsp.1 d).1 hd0
    have hle : d ≤ y := hd.2 y hw
    refine ⟨l, g, g', y, d, a, b, c, e, hd, hle, fun hwi => ?_⟩
    have hwd : Within cut d := fun c' hc' => le_trans hle (hwi c' hc')
    rw [(shortestDistanceH_cut net hnet h hc s t hs hmin cut).1 d hd hwd] at e
    exact (Option.some.inj e).symm

/-- paths requested after an A* search that was STOPPED (at its target `t0`, or by a cut-off), consistent heuristic: for every
node `t ≠ s` that the search had settled (`visite`) before it stopped, `run_routing_backward(t)` returns a route from `s` to
`t` whose weights sum to the true distance. (Nodes labelled but not settled may get a tentative route: `astar_path_is_walk`.) -/
theorem astar_backward_settled_optimal (net : Net W) (hnet : WFNet net) (hu : UniqueIds net) (geo : Geo P) (h : Nat → W)
    (hc : Consistent net h) (s : Nat) (hs : s < net.n) (t0 : Option Nat) (cut : Option W) (t : Nat)
    (hv : (runForwardH net h s t0 cut).1.vis t = true) (hts : t ≠ s) :
    ∃ l g g' y, runBackward net geo (runForwardH net h s t0 cut).1 t = .path (l ++ [t]) (g ++ [geo.pos t]) ∧
      Route net geo s l g g' t y ∧ IsDist net s t y := by
  have hg := forwardH_goodH net hnet h s hs t0 cut
  obtain ⟨_, h2⟩ := runBackward_spec_any net hu geo s _ hg t
  obtain ⟨hb, _, rk, K, hp⟩ := hg
  obtain ⟨x, hx⟩ := hb.b5 t hv
  have hsome := hp.p3 t x hts hx
  cases hpt : (runForwardH net h s t0 cut).1.pred t with
  | none => rw [hpt] at hsome; cases hsome
  | some p =>
    obtain ⟨l, g, g', y, hd, hr, hbk⟩ := h2 p hpt
    exact ⟨l, g, g', y, hbk, hr, (runForwardH_entries net hnet h hc s hs t0 cut).2.2 t y hv hd⟩

/-- with `routing_mode ≠ 1` (the default) the value of `heuristic` is its initial `0` in every call: the object answers
every call, and is left in the state, of the Dijkstra session of `Model/GraphPathExt.lean` (`Props/C07.lean`: `session_*`),
whatever `astar_wgt` and the node coordinates -/
theorem dijkstra_mode_is_session [Sub W] [Mul W] (sqrt : W → W) (net : Net W) (geo : GeoT) (pos : Nat → Pos W)
    (order : List Nat) (sa : SessA W) (hm : sa.mode ≠ 1) (op : GraphExt.Op W) :
    (stepOpA sqrt net geo pos order sa (.call op)).2 = (GraphExt.stepOp net geo order sa.sess op).2 ∧
    (stepOpA sqrt net geo pos order sa (.call op)).1 = { sa with sess := (GraphExt.stepOp net geo order sa.sess op).1 } := by
  have hz : ∀ tg v, sa.h sqrt pos tg v = 0 := by
    intro tg v
    unfold SessA.h heuristicOf
    cases tg with
    | none => rfl
    | some t => simp [hm]
  have hf : ∀ tg s t cut ud, sa.sess.forwardH net (sa.h sqrt pos tg) s t cut ud = sa.sess.forward net s t cut ud := by
    intro tg s t cut ud
    unfold Sess.forwardH Sess.forward runForwardOnH runForwardOn
    rw [forwardH_zero (fun a => add_zero a) net _ (hz tg)]
  cases op with
  | path s t cut ud => refine ⟨?_, ?_⟩ <;> simp only [stepOpA, stepOpH, GraphExt.stepOp, hf] <;> (try rfl)
  | dist s t cut ud => refine ⟨?_, ?_⟩ <;> simp only [stepOpA, stepOpH, GraphExt.stepOp, hf] <;> (try rfl)
  | fwd s t cut ud => refine ⟨?_, ?_⟩ <;> simp only [stepOpA, stepOpH, GraphExt.stepOp, hf]
  | back t => exact ⟨rfl, rfl⟩
end consistent

section metric
variable {F : Type} [Field F] [LinearOrder F] [IsStrictOrderedRing F] {P : Type}

/-- **the property in A\* mode at full strength**, hypotheses on the configuration only. `Node.distanceTo` is the Euclidean
distance of the node coordinates (`sqrt`: any square root on the non-negative elements). If `0 ≤ astar_wgt` and every
permitted arc weighs at least `astar_wgt ×` the straight-line distance between its ends (the harness' predicate
`heuristic_consistent`), then `shortest_path(s, t[, cut])` with `routing_mode = 1`: returns `None` iff `t` is unreachable or
`t = s` (no cut-off); a returned path is a real route whose polylines are chained along the travel; without a cut-off its
weights sum to the true shortest distance; with a cut-off they do whenever that distance is within it. -/
theorem astar_metric_path_optimal {sqrt : F → F} (hsq : IsSqrt sqrt) (net : Net F) (hnet : WFNet net) (hu : UniqueIds net)
    (geo : Geo P) (pos : Nat → Pos F) (wgt : F) (hw : 0 ≤ wgt)
    (hedge : ∀ u v w, Arc net u v w → wgt * distanceTo sqrt (pos u) (pos v) ≤ w) (s t : Nat) (hs : s < net.n) :
    (shortestPathH net geo (heuristicOf sqrt pos 1 wgt (some t)) s t none = .none ↔ (¬ Reachable net s t ∨ t = s)) ∧
    (∀ cut nodes geom, shortestPathH net geo (heuristicOf sqrt pos 1 wgt (some t)) s t cut = .path nodes geom →
      ∃ l g g' y, nodes = l ++ [t] ∧ geom = g ++ [geo.pos t] ∧ Route net geo s l g g' t y ∧
        shortestDistanceH net (heuristicOf sqrt pos 1 wgt (some t)) s t cut = some y ∧
        (cut = none → IsDist net s t y) ∧ (∀ d, IsDist net s t d → Within cut d → y = d)) := by
  obtain ⟨hc, hmin⟩ := heuristicOf_consistent hsq net pos wgt hw t hedge
  refine ⟨(astar_path_optimal net hnet hu geo _ hc s t hs).1, ?_⟩
  intro cut nodes geom hp
  obtain ⟨l, g, g', y, a, b, _, c, _, e⟩ := astar_path_is_walk net hnet hu geo _ s t hs cut nodes geom hp
  refine ⟨l, g, g', y, a, b, c, e, ?_, ?_⟩
  · intro hcut; subst hcut
    exact ((shortestDistanceH_spec net hnet _ hc s t hs).1 y).1 e
  · intro d hd hwd
    rw [(shortestDistanceH_cut net hnet _ hc s t hs hmin cut).1 d hd hwd] at e
    exact (Option.some.inj e).symm
end metric

section session
variable {W : Type} [LT W] [DecidableLT W] [Add W] [OfNat W 0] [Sub W] [Mul W]

/-- `shortest_path(source, target, cut[, output_dict])` called at any point of a session on an object with routing settings
returns what it returns on a fresh network searched with the object's settings OF THAT MOMENT: it does not depend on the
flags left by earlier searches (in either mode), on how the nodes are designated, nor on an `output_dict` being passed; the
label left on the target is what `shortest_distance` reports with the same settings. -/
theorem astar_session_path_fresh (sqrt : W → W) (net : Net W) (geo : GeoT) (pos : Nat → Pos W) (order : List Nat)
    (sa : SessA W) (s t : NodeArg) (cut : Option W) (ud : Bool) :
    (stepOpA sqrt net geo pos order sa (.call (.path s t cut ud))).2 =
      .path (shortestPathHT net geo (sa.h sqrt pos (some (correctInputNode t))) (correctInputNode s) (correctInputNode t) cut)
            (shortestDistanceH net (sa.h sqrt pos (some (correctInputNode t))) (correctInputNode s) (correctInputNode t) cut) := rfl

/-- `shortest_distance(source, target, cut[, output_dict])` at any point of such a session = on a fresh network with the
settings of that moment -/
theorem astar_session_dist_fresh (sqrt : W → W) (net : Net W) (geo : GeoT) (pos : Nat → Pos W) (order : List Nat)
    (sa : SessA W) (s t : NodeArg) (cut : Option W) (ud : Bool) :
    (stepOpA sqrt net geo pos order sa (.call (.dist s (some t) cut ud))).2 =
      .dist (shortestDistanceH net (sa.h sqrt pos (some (correctInputNode t))) (correctInputNode s) (correctInputNode t) cut) := rfl

/-- the setters change their own attribute only: neither the flags nor the `output_dict` -/
theorem setters_touch_settings_only (sqrt : W → W) (net : Net W) (geo : GeoT) (pos : Nat → Pos W) (order : List Nat)
    (sa : SessA W) (m : Nat) (w : W) :
    (stepOpA sqrt net geo pos order sa (.setMethod m)).1 = { sa with mode := m } ∧
    (stepOpA sqrt net geo pos order sa (.setWeight w)).1 = { sa with wgt := w } := ⟨rfl, rfl⟩
end session

/-! ### the property in a session, from the configuration -/
section sessionMetric
variable {F : Type} [Field F] [LinearOrder F] [IsStrictOrderedRing F]

/-- **at any point of a session** on an object whose `routing_mode` is 1 at that moment, with `0 ≤ astar_wgt` and every permitted
arc weighing at least `astar_wgt ×` the straight-line distance of its ends: whatever searches were made before (in either mode),
however the nodes are designated, with or without `output_dict` — `shortest_path(s, t)` never diverges, returns `None` iff `t`
is unreachable or `t = s`, and otherwise a track without analytical feature that is the chain of a real route whose weights sum
to the true shortest distance, which is also the label left on the target. -/
theorem astar_session_metric_optimal {sqrt : F → F} (hsq : IsSqrt sqrt) (net : Net F) (hnet : WFNet net) (hu : UniqueIds net)
    (geo : GeoT) (pos : Nat → Pos F) (order : List Nat) (sa : SessA F) (hm : sa.mode = 1) (hw : 0 ≤ sa.wgt)
    (hedge : ∀ u v w, Arc net u v w → sa.wgt * distanceTo sqrt (pos u) (pos v) ≤ w)
    (s t : NodeArg) (ud : Bool) (hs : correctInputNode s < net.n) :
    ∃ b lab, (stepOpA sqrt net geo pos order sa (.call (.path s t none ud))).2 = .path b lab ∧ b ≠ .diverge ∧
      (b = .none ↔ (¬ Reachable net (correctInputNode s) (correctInputNode t) ∨ correctInputNode t = correctInputNode s)) ∧
      (∀ nodes trk, b = .path nodes trk → ∃ l g g' y, nodes = l ++ [correctInputNode t] ∧
        trk = ⟨g ++ [geo.pos (correctInputNode t)], []⟩ ∧
        Route net geo.toGeo (correctInputNode s) l g g' (correctInputNode t) y ∧
        IsDist net (correctInputNode s) (correctInputNode t) y ∧ lab = some y) := by
  refine ⟨_, _, astar_session_path_fresh sqrt net geo pos order sa s t none ud, ?_, ?_, ?_⟩
  all_goals
    have hh : sa.h sqrt pos (some (correctInputNode t)) = heuristicOf sqrt pos 1 sa.wgt (some (correctInputNode t)) := by
      unfold SessA.h; rw [hm]
    rw [hh, astar_track_operators_agree]
    obtain ⟨m1, m2⟩ := astar_metric_path_optimal hsq net hnet hu geo.toGeo pos sa.wgt hw hedge
      (correctInputNode s) (correctInputNode t) hs
  · intro hd
    exact astar_never_diverges net hnet hu geo.toGeo _ _ _ hs none (liftBack_diverge.1 hd)
  · rw [liftBack_none]; exact m1
  · intro nodes trk hb
    obtain ⟨h1, h2⟩ := liftBack_path hb
    obtain ⟨l, g, g', y, a, b, c, e, f, _⟩ := m2 none nodes trk.pts h1
    refine ⟨l, g, g', y, a, ?_, c, f rfl, e⟩
    cases trk with
    | mk p tb => simp only at b h2; rw [b, h2]; rfl
end sessionMetric

/-! ### sequences of calls on one object with routing settings -/
section machine
set_option linter.unusedSectionVars false
variable {W : Type} [LinearOrder W] [Add W] [Zero W] [WalkAdd W] [Sub W] [Mul W]

/-- the flags a session leaves on the nodes are those of a forward pass (in either mode) from some source of the network -/
def SessGoodH (net : Net W) (se : GraphExt.Sess W) : Prop := ∀ st, se.flags = some st → ∃ s, s < net.n ∧ GoodH net s st

/-- the source of a routing call is a node of the network -/
def OpOkA (net : Net W) : OpA W → Prop
  | .call op => OpOk net op
  | _ => True

theorem backward_out_okH (net : Net W) (hu : UniqueIds net) (geo : GeoT) (s : Nat) (st : St W) (hg : GoodH net s st)
    (t : Nat) : OutOk net geo (.path (runBackwardT net geo st t) (st.d t)) := by
  obtain ⟨h1, h2⟩ := runBackward_spec_any net hu geo.toGeo s st hg t
  rw [runBackwardT_eq]
  cases hp : st.pred t with
  | none => rw [h1 hp]; exact ⟨fun h => (by cases h), fun _ _ h => by cases h⟩
  | some p =>
    obtain ⟨l, g, g', y, hd, hr, hb⟩ := h2 p hp
    rw [hb]
    refine ⟨fun h => (by cases h), fun nodes trk h => ?_⟩
    simp only [liftBack, BackT.path.injEq] at h
    obtain ⟨rfl, rfl⟩ := h
    exact ⟨s, t, l, g, g', y, rfl, rfl, hr, hd⟩

theorem sess_forwardH_good (net : Net W) (hnet : WFNet net) (h : Nat → W) (se : GraphExt.Sess W) (s : NodeArg) (t : Option NodeArg)
    (cut : Option W) (ud : Bool) (hs : correctInputNode s < net.n) : SessGoodH net (se.forwardH net h s t cut ud) := by
  intro st hst
  simp only [GraphExt.Sess.forwardH, Option.some.injEq] at hst
  subst hst
  exact ⟨correctInputNode s, hs, forwardH_goodH net hnet h _ hs (t.map correctInputNode) cut⟩

/-- STATE MACHINE in A* mode: in ANY sequence of `setRoutingMethod` / `setAStarWeight` / `shortest_path` /
`shortest_distance` / `run_routing_forward` / `run_routing_backward` calls on one network — any settings (any `astar_wgt`,
any coordinates: the heuristic need not be consistent), switched at any moment, any targets and cut-offs,
`run_routing_backward` for any node after any search — the backward loop always terminates and every track returned is the
chain of a real route whose edge weights sum to the label of its last node. -/
theorem astar_session_outputs_ok (sqrt : W → W) (net : Net W) (hnet : WFNet net) (hu : UniqueIds net) (geo : GeoT)
    (pos : Nat → Pos W) (order : List Nat) :
    ∀ (ops : List (OpA W)) (sa : SessA W), (∀ op ∈ ops, OpOkA net op) → SessGoodH net sa.sess →
      (∀ o ∈ (runSessionA sqrt net geo pos order sa ops).1, OutOk net geo o) ∧
      SessGoodH net (runSessionA sqrt net geo pos order sa ops).2.sess := by
  intro ops
  induction ops with
  | nil => intro sa _ hse; exact ⟨fun o ho => (by cases ho), hse⟩
  | cons op ops ih =>
    intro sa hok hse
    have hop := hok op (List.mem_cons_self)
    have hstep : OutOk net geo (stepOpA sqrt net geo pos order sa op).2 ∧
        SessGoodH net (stepOpA sqrt net geo pos order sa op).1.sess := by
      cases op with
      | setMethod m => exact ⟨trivial, hse⟩
      | setWeight w => exact ⟨trivial, hse⟩
      | call op =>
        cases op with
        | path s t cut ud =>
          have hg := sess_forwardH_good net hnet (sa.h sqrt pos (some (correctInputNode t))) sa.sess s (some t) cut ud hop
          simp only [stepOpA, stepOpH]
          split
          · rename_i st hst
            obtain ⟨s0, _, hgood⟩ := hg st hst
            exact ⟨backward_out_okH net hu geo s0 st hgood _, hg⟩
          · exact ⟨trivial, hg⟩
        | dist s t cut ud =>
          have hg := sess_forwardH_good net hnet (sa.h sqrt pos (t.map correctInputNode)) sa.sess s t cut ud hop
          simp only [stepOpA, stepOpH]
          split <;> exact ⟨trivial, hg⟩
        | fwd s t cut ud =>
          exact ⟨trivial, sess_forwardH_good net hnet (sa.h sqrt pos (t.map correctInputNode)) sa.sess s t cut ud hop⟩
        | back t =>
          simp only [stepOpA, stepOpH]
          split
          · exact ⟨trivial, hse⟩
          · rename_i st hst
            obtain ⟨s0, _, hgood⟩ := hse st hst
            exact ⟨backward_out_okH net hu geo s0 st hgood _, hse⟩
    obtain ⟨ih1, ih2⟩ := ih (stepOpA sqrt net geo pos order sa op).1 (fun o ho => hok o (List.mem_cons_of_mem _ ho)) hstep.2
    refine ⟨?_, ih2⟩
    intro o ho
    simp only [runSessionA, List.mem_cons] at ho
    rcases ho with rfl | ho
    · exact hstep.1
    · exact ih1 o ho
end machine

/-! ### the hypotheses are satisfiable, and the model computes -/

/-- the straight road 0 –10– 1 –10– 2 with nodes at x = 0, 10, 20 plus a detour 0 –13– 3 –13– 2 over a node at (10, 5)…
squared: the positions keep every distance rational only along the road; the heuristic below is the distance to node 2
along the x axis, which is consistent for these weights -/
def aroad : Net Int := { n := 4, edges := [⟨0, 0, 1, 10, 0⟩, ⟨1, 2, 1, 10, -1⟩, ⟨2, 0, 3, 13, 1⟩, ⟨3, 3, 2, 13, 1⟩] }
def aroadH : Nat → Int := fun v => if v = 0 then 20 else if v = 1 then 10 else if v = 3 then 10 else 0
def aroadGeo : Geo (Int × Int) :=
  { pos := fun v => if v = 0 then (0, 0) else if v = 1 then (10, 0) else if v = 2 then (20, 0) else (10, 5),
    line := fun i => if i = 0 then [(0, 0), (10, 0)] else if i = 1 then [(20, 0), (15, 1), (10, 0)]
                     else if i = 2 then [(0, 0), (10, 5)] else [(10, 5), (20, 0)] }

example : WFNet aroad := by
  intro e he
  simp only [aroad, List.mem_cons, List.not_mem_nil, or_false] at he
  rcases he with rfl | rfl | rfl | rfl <;> simp [aroad]
example : UniqueIds aroad := by
  intro e he e' he' h
  simp only [aroad, List.mem_cons, List.not_mem_nil, or_false] at he he'
  rcases he with rfl | rfl | rfl | rfl <;> rcases he' with rfl | rfl | rfl | rfl <;> simp_all
example : GeoOK aroad aroadGeo := by
  intro e he
  simp only [aroad, List.mem_cons, List.not_mem_nil, or_false] at he
  rcases he with rfl | rfl | rfl | rfl <;> simp [aroadGeo]
example : Consistent aroad aroadH := by
  intro u v w ha
  obtain ⟨e, he, hw, hdir⟩ := ha
  simp only [aroad, List.mem_cons, List.not_mem_nil, or_false] at he
  rcases he with rfl | rfl | rfl | rfl <;> rcases hdir with ⟨_, rfl, rfl⟩ | ⟨_, rfl, rfl⟩ <;> simp_all [aroadH] <;> omega
/-- edge 1 is stored 2→1 and travelled 1→2: its polyline comes out reversed -/
example : shortestPathH aroad aroadGeo aroadH 0 2 none = .path [0, 1, 2] [(0, 0), (10, 0), (15, 1), (20, 0)] := by decide +kernel
example : shortestPathH aroad aroadGeo aroadH 2 0 none = .none := by decide +kernel
example : shortestDistanceH aroad aroadH 0 2 none = some 20 := by decide +kernel
/-- a heuristic that is NOT consistent (node 1 looks far from the target): the route over node 3 is returned — real,
continuous, weighing the reported 26 — and is not optimal; `astar_path_is_walk` still applies, `astar_path_optimal` does not -/
def aroadBad : Nat → Int := fun v => if v = 1 then 100 else 0
example : shortestPathH aroad aroadGeo aroadBad 0 2 none = .path [0, 3, 2] [(0, 0), (10, 5), (20, 0)] ∧
    shortestDistanceH aroad aroadBad 0 2 none = some 26 := by decide +kernel

/-! ### the hypotheses of the metric form are satisfiable: the reals with `Real.sqrt` -/
example : IsSqrt Real.sqrt := fun x hx => ⟨Real.sqrt_nonneg x, Real.mul_self_sqrt hx⟩
/-- one two-way edge of weight 5 between nodes at (0, 0, 0) and (3, 4, 0): it weighs `astar_wgt = 1` × its straight length -/
noncomputable def rnet : Net ℝ := { n := 2, edges := [⟨0, 0, 1, 5, 0⟩] }
noncomputable def rpos : Nat → Pos ℝ := fun v => if v = 0 then ⟨0, 0, 0⟩ else ⟨3, 4, 0⟩
example : ∀ u v w, Arc rnet u v w → (1 : ℝ) * distanceTo Real.sqrt (rpos u) (rpos v) ≤ w := by
  intro u v w ha
  obtain ⟨e, he, hw, hdir⟩ := ha
  simp only [rnet, List.mem_singleton] at he
  subst he
  have h25 : Real.sqrt 25 = 5 := by
    rw [show (25 : ℝ) = 5 * 5 by norm_num]; exact Real.sqrt_mul_self (by norm_num)
  rcases hdir with ⟨_, hu, hv⟩ | ⟨_, hu, hv⟩
  · simp only at hu hv hw
    subst hu hv hw
    simp only [rpos, distanceTo]
    norm_num
    rw [h25]
  · simp only at hu hv hw
    subst hu hv hw
    simp only [rpos, distanceTo]
    norm_num
    rw [h25]
end TV.C07
