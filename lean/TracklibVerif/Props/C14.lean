import TracklibVerif.Lemmas.Geo
import TracklibVerif.Lemmas.GeoTrack
import TracklibVerif.Lemmas.GeoLambert
import TracklibVerif.Lemmas.GeoLambertConv
import TracklibVerif.Lemmas.GeoHeap
import TracklibVerif.Lemmas.GeoTrackRec
import TracklibVerif.Lemmas.GeoHeapRec
/-! # C14 — coordinate conversions round-trip and agree with the WGS84 ellipsoid

Property theorems only (helpers: `Lemmas/Geo.lean`, `Lemmas/GeoTrack.lean`, `Lemmas/GeoLambert.lean`, `Lemmas/GeoLambertConv.lean`,
`Lemmas/GeoHeap.lean`, `Lemmas/GeoTrackRec.lean`, `Lemmas/GeoHeapRec.lean`). They are about the model `Model/Geo.lean` (the operations of `tracklib/core/obs_coords.py` and of
`Track.to*Coords`, in the same order) and, from T12 on, about `Model/GeoHeap.lean` (the same methods called on shared,
mutable objects: identity, aliasing, in-place updates, `Track` holding references), instantiated at `ℝ` with Mathlib's functions: `realTrig` = `Real.sin, Real.cos, Real.tan, Real.arctan, Real.sqrt, Real.log,
Real.exp`, `pow = Real.rpow`, `atan2 y x = Complex.arg (x + i y)`, `pi = Real.pi`. Angles of `V3` values are in degrees,
as in the Python. Everything about the local frame holds for *any* `Trig ℝ` whose `sin`/`cos` satisfy `sin² + cos² = 1`
(`Pyth T`), and is stated that way. IEEE rounding is outside these statements (sampled by the transfer check).

What has no exact identity and is therefore not a theorem: `ECEFCoords.toGeoCoords` for `h ≠ 0` (Bowring's one-step formula
is an approximation, about 1.3 µm at 10 km); see the `_partial` theorems and `geo_ecef_geo_residual` (T5'), which reduces the
round trip at every height, longitude and base to two explicit functions of (latitude, height) that the harness bounds on a grid. -/
namespace TV.C14
open TV.Geo Real

/-- `Real.sin`/`Real.cos` satisfy the hypothesis under which the frame theorems are stated. -/
theorem pyth_realTrig : Pyth realTrig := pyth_real

/-- T1 `ECEFCoords.toENUCoords(base)` and `ENUCoords.toECEFCoords(base)` are inverse to each other, in both orders, for
every base (given as `GeoCoords` or as `ECEFCoords`) and every position: the matrix built from the base's longitude and
latitude is orthogonal whatever these angles are. -/
theorem enu_ecef_inverse (T : Trig ℝ) (hT : Pyth T) (p : V3 ℝ) (b : Base ℝ) :
    enuToEcef T (ecefToEnu T p b) b = p ∧ ecefToEnu T (enuToEcef T p b) b = p :=
  ⟨enuToEcef_ecefToEnu' T hT p b, ecefToEnu_enuToEcef' T hT p b⟩

/-- T2 The local coordinates of the base itself are (0,0,0): for a base of either class converted as an ECEF position,
and for a `GeoCoords` position converted with itself as base (`GeoCoords.toENUCoords`). No hypothesis on `T`. -/
theorem base_is_origin (T : Trig ℝ) (b : Base ℝ) (g : V3 ℝ) :
    ecefToEnu T (b.toEcef T) b = ⟨0, 0, 0⟩ ∧ geoToEnu T g (.geo g) = ⟨0, 0, 0⟩ :=
  ⟨ecefToEnu_base' T b, geoToEnu_self' T g⟩

/-- T3a `GeoCoords.toECEFCoords` is the closed-form WGS84 formula: with `φ, λ` the latitude and longitude in radians,
`e² = f (2 − f)`, `f = 1/298.257223563` and `N = a / √(1 − e² sin² φ)`, `a = 6378137`,
`(X, Y, Z) = ((N + h) cos φ cos λ, (N + h) cos φ sin λ, ((1 − e²) N + h) sin φ)`. -/
theorem ecef_closed_form (g : V3 ℝ) :
    geoToEcef realTrig g =
      ⟨(primeVertical (g.y * π / 180) + g.z) * Real.cos (g.y * π / 180) * Real.cos (g.x * π / 180),
       (primeVertical (g.y * π / 180) + g.z) * Real.cos (g.y * π / 180) * Real.sin (g.x * π / 180),
       ((1 - e2) * primeVertical (g.y * π / 180) + g.z) * Real.sin (g.y * π / 180)⟩
    ∧ e2 = 1 / 298.257223563 * (2 - 1 / 298.257223563)
    ∧ ∀ φ, primeVertical φ = 6378137 / Real.sqrt (1 - e2 * Real.sin φ ^ 2) :=
  ⟨geoToEcef_closed_form g, by unfold e2; rw [Fe_val], fun _ => rfl⟩

/-- T3b With `h = 0` the ECEF position lies on the WGS84 ellipsoid: `X²/a² + Y²/a² + Z²/b² = 1` with `a = 6378137`,
`b = a (1 − f)` — for every longitude and latitude. -/
theorem on_ellipsoid (g : V3 ℝ) (h0 : g.z = 0) :
    (geoToEcef realTrig g).x ^ 2 / 6378137 ^ 2 + (geoToEcef realTrig g).y ^ 2 / 6378137 ^ 2
      + (geoToEcef realTrig g).z ^ 2 / (6378137 * (1 - 1 / 298.257223563)) ^ 2 = 1 :=
  on_ellipsoid' g h0

/-- T3c The height is measured along the ellipsoid normal: the ECEF position is the foot point (same longitude and
latitude, `h = 0`) plus `h` times the unit vector `n = (cos φ cos λ, cos φ sin λ, sin φ)`, and `n` is normal to the ellipsoid
at the foot point (the gradient `(X₀/a², Y₀/a², Z₀/b²)` of the quadric there is `N/a²` times `n`). Together with T3b this
says `(lon, lat, h)` are the geodetic coordinates of `(X, Y, Z)`. -/
theorem height_along_normal (g : V3 ℝ) :
    let φ := g.y * π / 180
    let lam := g.x * π / 180
    let nx := Real.cos φ * Real.cos lam
    let ny := Real.cos φ * Real.sin lam
    let nz := Real.sin φ
    let P0 := geoToEcef realTrig ⟨g.x, g.y, 0⟩
    geoToEcef realTrig g = ⟨P0.x + g.z * nx, P0.y + g.z * ny, P0.z + g.z * nz⟩
    ∧ nx ^ 2 + ny ^ 2 + nz ^ 2 = 1
    ∧ P0.x / 6378137 ^ 2 = primeVertical φ / 6378137 ^ 2 * nx
    ∧ P0.y / 6378137 ^ 2 = primeVertical φ / 6378137 ^ 2 * ny
    ∧ P0.z / (6378137 * (1 - 1 / 298.257223563)) ^ 2 = primeVertical φ / 6378137 ^ 2 * nz :=
  height_along_normal' g

/-- T4 Geo → ECEF → Geo returns the longitude exactly, for longitudes in (−180°, 180°], latitudes in (−90°, 90°) and any
height above −6378137 m (antimeridian +180° included; −180° comes back as +180°, the same meridian). -/
theorem lon_recovered (g : V3 ℝ) (hlon1 : -180 < g.x) (hlon2 : g.x ≤ 180) (hlat1 : -90 < g.y) (hlat2 : g.y < 90)
    (hh : -6378137 < g.z) : (ecefToGeo realTrig (geoToEcef realTrig g)).x = g.x :=
  lon_recovered' g hlon1 hlon2 hlat1 hlat2 hh

/-- T5 (partial) On the ellipsoid (`h = 0`) the closed-form inverse `ECEFCoords.toGeoCoords` is exact: longitude,
latitude and height all come back. Together with T4 this is the exact part of Geo → ECEF → Geo.
MISSING: latitude and height for `h ≠ 0`. There Bowring's one-step formula is an approximation (no identity to prove):
T5' (`geo_ecef_geo_residual`) states what does hold exactly; the bound 1e-9° / 1 mm for −1 km ≤ h ≤ 10 km rests on the
numerical evaluation of the residual functions of T5' (stream `resid`) and on the correspondence and transfer checks. -/
theorem geo_ecef_geo_partial (g : V3 ℝ) (hlon1 : -180 < g.x) (hlon2 : g.x ≤ 180) (hlat1 : -90 < g.y) (hlat2 : g.y < 90)
    (h0 : g.z = 0) : ecefToGeo realTrig (geoToEcef realTrig g) = g :=
  ecefToGeo_geoToEcef_h0' g hlon1 hlon2 hlat1 hlat2 h0

/-- T6 The local frame adds no error of its own: Geo → ENU → Geo with the same base equals Geo → ECEF → Geo, for every base
of either class; Geo → ENU → ECEF equals Geo → ECEF. So the round trip through a local frame is exactly as good as the
Geo/ECEF pair (T4, T5). -/
theorem geo_enu_geo_reduces (T : Trig ℝ) (hT : Pyth T) (g : V3 ℝ) (b : Base ℝ) :
    enuToGeo T (geoToEnu T g b) b = ecefToGeo T (geoToEcef T g)
    ∧ enuToEcef T (geoToEnu T g b) (.ecef (b.toEcef T)) = geoToEcef T g :=
  ⟨enuToGeo_geoToEnu' T hT g b, enuToEcef_geoToEnu' T hT g b⟩

/-- T6' hence on the ellipsoid Geo → ENU → Geo is the identity, for every base. -/
theorem geo_enu_geo_partial (g : V3 ℝ) (b : Base ℝ) (hlon1 : -180 < g.x) (hlon2 : g.x ≤ 180) (hlat1 : -90 < g.y)
    (hlat2 : g.y < 90) (h0 : g.z = 0) : enuToGeo realTrig (geoToEnu realTrig g b) b = g := by
  rw [enuToGeo_geoToEnu' realTrig pyth_real g b]
  exact ecefToGeo_geoToEcef_h0' g hlon1 hlon2 hlat1 hlat2 h0

/-- T7 `ENUCoords.toENUCoords(base1, base2)`: changing the base and changing back is the identity, changing to the same
base is the identity, and ENU(base1) → ENU(base2) → Geo(base2) is ENU(base1) → Geo(base1). -/
theorem enu_rebase (T : Trig ℝ) (hT : Pyth T) (q : V3 ℝ) (b1 b2 : Base ℝ) :
    enuToEnu T (enuToEnu T q b1 b2) b2 b1 = q ∧ enuToEnu T q b1 b1 = q
    ∧ enuToGeo T (enuToEnu T q b1 b2) b2 = enuToGeo T q b1 :=
  ⟨enuToEnu_enuToEnu' T hT q b1 b2, enuToEnu_self' T hT q b1, enuToGeo_enuToEnu' T hT q b1 b2⟩

/-- T8 `Track.toENUCoords` records the base it used: on a non-empty Geo (resp. ECEF) track with a point base every
position goes through `GeoCoords.toENUCoords(base)` (resp. `ECEFCoords.toENUCoords(base)`) and `Track.base` becomes
`base.toGeoCoords()`; without argument the base is the position of the first observation. -/
theorem track_records_base (T : Trig ℝ) (t : Track ℝ) (p : V3 ℝ) (ps : List (V3 ℝ)) (hp : t.pts = p :: ps) (b : Base ℝ) :
    (t.kind = .geo →
      t.toENU T (some (.pt b)) = .ok ⟨.enu, t.pts.map (fun g => geoToEnu T g b), some (.pt (.geo (b.toGeo T)))⟩
      ∧ t.toENU T none = t.toENU T (some (.pt (.geo p))))
    ∧ (t.kind = .ecef →
      t.toENU T (some (.pt b)) = .ok ⟨.enu, t.pts.map (fun q => ecefToEnu T q b), some (.pt (.geo (b.toGeo T)))⟩
      ∧ t.toENU T none = t.toENU T (some (.pt (.ecef p)))) := by
  have hne : t.pts ≠ [] := by rw [hp]; exact List.cons_ne_nil _ _
  exact ⟨fun hk => ⟨toENU_geo_pt T t hk hne b, toENU_geo_none T t hk p ps hp⟩,
         fun hk => ⟨toENU_ecef_pt T t hk hne b, toENU_ecef_none T t hk p ps hp⟩⟩

/-- T9 Whole-track round trips (non-empty tracks, any number of observations):
* ECEF track → ENU(b) → ECEF(b): the positions come back exactly, the base used is on record;
* Geo track → ENU with a `GeoCoords` base → ECEF() through the *recorded* base: exactly the direct Geo → ECEF conversion;
* Geo track → ENU(b) → Geo, with `b` passed again, or through the recorded base when `b` is a `GeoCoords`: every position
  is its own Geo → ECEF → Geo image (T4, T5 then apply point by point).
The case left out here — an `ECEFCoords` base and the return through the recorded base — is where the recorded base is
`ECEFCoords.toGeoCoords()` of the base used: T9' (`track_round_trip_recorded_base`) covers it whenever that record denotes
the same point, and states what the code computes otherwise (the known finding of this property). -/
theorem track_round_trip (T : Trig ℝ) (hT : Pyth T) (t : Track ℝ) (hne : t.pts ≠ []) (b : Base ℝ) (c : V3 ℝ) :
    (t.kind = .ecef →
      (t.toENU T (some (.pt b))).bind (fun u => u.toECEF T (some (.pt b)))
        = .ok ⟨.ecef, t.pts, some (.pt (.geo (b.toGeo T)))⟩)
    ∧ (t.kind = .geo →
      (t.toENU T (some (.pt (.geo c)))).bind (fun u => u.toECEF T none)
        = .ok ⟨.ecef, t.pts.map (geoToEcef T), some (.pt (.geo c))⟩)
    ∧ (t.kind = .geo →
      (t.toENU T (some (.pt b))).bind (fun u => u.toGeo T (some (.pt b)))
        = .ok ⟨.geo, t.pts.map (fun g => ecefToGeo T (geoToEcef T g)), some (.pt (.geo (b.toGeo T)))⟩)
    ∧ (t.kind = .geo →
      (t.toENU T (some (.pt (.geo c)))).bind (fun u => u.toGeo T none)
        = .ok ⟨.geo, t.pts.map (fun g => ecefToGeo T (geoToEcef T g)), some (.pt (.geo c))⟩) :=
  ⟨fun hk => track_ecef_enu_ecef T hT t hk hne b,
   fun hk => track_geo_enu_ecef T hT t hk hne c,
   fun hk => track_geo_enu_geo T hT t hk hne b _ (Or.inl rfl),
   fun hk => track_geo_enu_geo T hT t hk hne (.geo c) none (Or.inr ⟨rfl, c, rfl⟩)⟩

/-- T10 Lambert-93, structure of `_projToLambert93` followed by `__projFromLambert93`:
* the longitude comes back exactly (for longitudes in (−90°, 90°), any latitude), the third coordinate is untouched;
* the inverse recovers the isometric latitude `L` of the input exactly, so that the latitude it returns is the 10-fold
  iterate of the loop body for that `L`, started at `2 atan(exp L) − π/2`;
* the original latitude is a fixed point of that loop body (for |φ| < 90°), hence of any number of passes;
* the loop body is a contraction with factor `E²/(1 − E²) ≤ 0.007`, for every `L`. -/
theorem lambert_loop_structure (g : V3 ℝ) :
    (-90 < g.x → g.x < 90 → (fromLambert93 realTrig (toLambert93 realTrig g)).x = g.x)
    ∧ (fromLambert93 realTrig (toLambert93 realTrig g)).y =
        iter (lambStep realTrig (lambLatIso (g.y * π / 180))) 10
          (2 * Real.arctan (Real.exp (lambLatIso (g.y * π / 180))) - π / 2) * 180 / π
    ∧ (fromLambert93 realTrig (toLambert93 realTrig g)).z = g.z
    ∧ (-90 < g.y → g.y < 90 → ∀ k, iter (lambStep realTrig (lambLatIso (g.y * π / 180))) k (g.y * π / 180) = g.y * π / 180)
    ∧ (∀ L x y, |lambStep realTrig L y - lambStep realTrig L x| ≤ lambK * |y - x|) ∧ lambK ≤ 7 / 1000 :=
  ⟨lambert_lon' g, lambert_lat_loop' g, rfl,
   fun h1 h2 k => lambert_iter_fixed' _ (by nlinarith [Real.pi_pos]) (by nlinarith [Real.pi_pos]) k,
   lambStep_contraction, lambK_le⟩

/-- T11 Lambert-93 round trip (over ℝ): for longitudes and latitudes in (−90°, 90°) — France is inside — forward then
inverse returns the longitude and the third coordinate exactly and the latitude within `(E²/(1−E²))¹¹ · |lat|`, which is
below 1e-20 degree: the 10 passes of the fixed-point loop converge. -/
theorem lambert_round_trip (g : V3 ℝ) (hx1 : -90 < g.x) (hx2 : g.x < 90) (hy1 : -90 < g.y) (hy2 : g.y < 90) :
    (fromLambert93 realTrig (toLambert93 realTrig g)).x = g.x
    ∧ |(fromLambert93 realTrig (toLambert93 realTrig g)).y - g.y| ≤ lambK ^ 11 * |g.y|
    ∧ |(fromLambert93 realTrig (toLambert93 realTrig g)).y - g.y| ≤ 1 / 10 ^ 20
    ∧ (fromLambert93 realTrig (toLambert93 realTrig g)).z = g.z :=
  ⟨lambert_lon' g hx1 hx2, lambert_lat_converges' g hy1 hy2, lambert_lat_bound' g hy1 hy2, rfl⟩


/-! ### every height: the exact part of Geo → ECEF → Geo, and what is left to bound -/

/-- T5' Geo → ECEF → Geo for *every* height above −6378137 m (longitudes in (−180°, 180°], latitudes in (−90°, 90°)):
* the longitude comes back exactly, and the latitude (radians) and height that come back are the explicit functions
  `bowringLat`, `bowringHgt` (`Lemmas/Geo.lean`: Bowring's one-step formula as coded) of the meridian-plane coordinates
  `p = (N + h) cos φ`, `z = ((1 − e²) N + h) sin φ` of the point: they do not depend on the longitude;
* hence they are the values `meridianRoundTrip` computes at longitude 0 — the function the driver evaluates on a dense
  (latitude, height) grid (stream `resid` of the harness), which bounds the residual numerically for all longitudes at once;
* if the latitude comes back exactly, so does the height;
* on the ellipsoid the latitude residual is zero (T5).
MISSING (why the property's bound is still `_partial`): an analytic bound on `|bowringLat (p, z) − φ|` for `h ≠ 0`. It
is about 2e-13 rad at 10 km (third order in `e² h / a`); proving it needs second-order control of `atan2` compositions. -/
theorem geo_ecef_geo_residual (g : V3 ℝ) (hlon1 : -180 < g.x) (hlon2 : g.x ≤ 180) (hlat1 : -90 < g.y) (hlat2 : g.y < 90)
    (hh : -6378137 < g.z) :
    ecefToGeo realTrig (geoToEcef realTrig g) =
        ⟨g.x, bowringLat (merP (g.y * π / 180) g.z) (merZ (g.y * π / 180) g.z) * (180 / π),
          bowringHgt (merP (g.y * π / 180) g.z) (merZ (g.y * π / 180) g.z)⟩
    ∧ ((ecefToGeo realTrig (geoToEcef realTrig g)).y, (ecefToGeo realTrig (geoToEcef realTrig g)).z)
        = meridianRoundTrip realTrig g.y g.z
    ∧ (bowringLat (merP (g.y * π / 180) g.z) (merZ (g.y * π / 180) g.z) = g.y * π / 180 →
        bowringHgt (merP (g.y * π / 180) g.z) (merZ (g.y * π / 180) g.z) = g.z)
    ∧ bowringLat (merP (g.y * π / 180) 0) (merZ (g.y * π / 180) 0) = g.y * π / 180 :=
  ⟨geo_ecef_geo_residual' g hlon1 hlon2 hlat1 hlat2 hh, meridianRoundTrip_eq g hlon1 hlon2 hlat1 hlat2 hh,
   bowringHgt_of_lat _ _ (by nlinarith [Real.pi_pos]) (by nlinarith [Real.pi_pos]),
   bowringLat_h0 _ (by nlinarith [Real.pi_pos]) (by nlinarith [Real.pi_pos])⟩

/-- T6'' the same through a local frame, for every base of either class and every height: Geo → ENU → Geo returns the
longitude exactly and the same two residual functions of (latitude, height) as Geo → ECEF → Geo — the base does not
enter the result at all. -/
theorem geo_enu_geo_residual (g : V3 ℝ) (b : Base ℝ) (hlon1 : -180 < g.x) (hlon2 : g.x ≤ 180) (hlat1 : -90 < g.y)
    (hlat2 : g.y < 90) (hh : -6378137 < g.z) :
    enuToGeo realTrig (geoToEnu realTrig g b) b =
      ⟨g.x, bowringLat (merP (g.y * π / 180) g.z) (merZ (g.y * π / 180) g.z) * (180 / π),
        bowringHgt (merP (g.y * π / 180) g.z) (merZ (g.y * π / 180) g.z)⟩ := by
  rw [enuToGeo_geoToEnu' realTrig pyth_real g b]
  exact geo_ecef_geo_residual' g hlon1 hlon2 hlat1 hlat2 hh

/-! ### histories: shared, mutable coordinate objects (`Model/GeoHeap.lean`) -/

/-- T12 Conversions do not modify their argument, their base or anything else: every step of a history other than an
in-place update (`setX/setY/setZ`, attribute assignment) leaves all existing objects as they are — the heap only grows —
and an in-place update changes the one coordinate of the one object, and no track. -/
theorem history_frame (T : Trig ℝ) (w w' : World ℝ) (op : Op ℝ) (h : w.step T op = .ok w') :
    ((∀ i c x, op ≠ .set i c x) → ∃ l, w'.heap = w.heap ++ l)
    ∧ (∀ i c x, op = .set i c x →
        ∃ o, w.heap[i]? = some o ∧ w'.heap = w.heap.set i ⟨o.kind, o.v.set c x⟩ ∧ w'.tracks = w.tracks) := by
  refine ⟨step_frame T w w' op h, ?_⟩
  intro i c x hop
  subst hop
  exact set_spec w w' i c x h

/-- T13 A conversion called on an object of the heap, with bases passed as references (or SRID numbers), allocates the
result of the pure conversion of `Model/Geo.lean` applied to the values the point and the base(s) hold *in the world the
call is made in* (`valArg w.heap` reads the base through the heap): nothing is remembered from earlier calls. Conversions to
the class the object already has return a copy. -/
theorem call_current_values (T : Trig ℝ) (w : World ℝ) (i : Nat) (o : Obj ℝ) (ho : w.heap[i]? = some o)
    (b : Val) (a : BaseArg ℝ) (hb : valArg w.heap b = some (some a)) :
    (o.kind = .geo →
      w.call T i .enu [b] = (geoToEnuArg T o.v a).map (fun v => { w with heap := w.heap ++ [⟨.enu, v⟩] })
      ∧ w.call T i .ecef [] = .ok { w with heap := w.heap ++ [⟨.ecef, geoToEcef T o.v⟩] }
      ∧ w.call T i .geo [] = .ok { w with heap := w.heap ++ [⟨.geo, o.v⟩] })
    ∧ (o.kind = .ecef →
      w.call T i .enu [b] = (ecefToEnuArg T o.v a).map (fun v => { w with heap := w.heap ++ [⟨.enu, v⟩] })
      ∧ w.call T i .geo [] = .ok { w with heap := w.heap ++ [⟨.geo, ecefToGeo T o.v⟩] }
      ∧ w.call T i .ecef [] = .ok { w with heap := w.heap ++ [⟨.ecef, o.v⟩] })
    ∧ (o.kind = .enu →
      w.call T i .ecef [b] = (enuToEcefArg T o.v a).map (fun v => { w with heap := w.heap ++ [⟨.ecef, v⟩] })
      ∧ w.call T i .geo [b] = (enuToGeoArg T o.v a).map (fun v => { w with heap := w.heap ++ [⟨.geo, v⟩] })
      ∧ ∀ b2 a2, valArg w.heap b2 = some (some a2) →
          w.call T i .enu [b, b2] = (enuToEnuArg T o.v a a2).map (fun v => { w with heap := w.heap ++ [⟨.enu, v⟩] })) := by
  have mm : ∀ {β γ δ : Type} (x : Except Err β) (f : β → γ) (g : γ → δ), (x.map f).map g = x.map (fun v => g (f v)) := by
    intro β γ δ x f g; cases x <;> rfl
  refine ⟨fun hk => ⟨?_, ?_, ?_⟩, fun hk => ⟨?_, ?_, ?_⟩, fun hk => ⟨?_, ?_, ?_⟩⟩
  · rw [call_eq T w i o ho, callConv_geo_enu T _ o hk b a hb, mm]
  · rw [call_eq T w i o ho, callConv_geo_ecef T _ o hk]; rfl
  · rw [call_eq T w i o ho]; simp only [callConv, hk]; rfl
  · rw [call_eq T w i o ho, callConv_ecef_enu T _ o hk b a hb, mm]
  · rw [call_eq T w i o ho, callConv_ecef_geo T _ o hk]; rfl
  · rw [call_eq T w i o ho]; simp only [callConv, hk]; rfl
  · rw [call_eq T w i o ho, callConv_enu_ecef T _ o hk b a hb, mm]
  · rw [call_eq T w i o ho, callConv_enu_geo T _ o hk b a hb, mm]
  · intro b2 a2 hb2
    rw [call_eq T w i o ho, callConv_enu_enu T _ o hk b b2 a a2 hb hb2, mm]

/-- T13' in particular: the caller updates his base object in place, then converts with it — the conversion is the one
about the *updated* base. -/
theorem update_then_convert (T : Trig ℝ) (w : World ℝ) (p b : Nat) (hpb : p ≠ b) (g c : V3 ℝ)
    (hp : w.heap[p]? = some ⟨.geo, g⟩) (hb : w.heap[b]? = some ⟨.geo, c⟩) (k : Nat) (x : ℝ) :
    (w.set b k x).bind (fun w2 => w2.call T p .enu [.ref b])
      = .ok ⟨w.heap.set b ⟨.geo, c.set k x⟩ ++ [⟨.enu, geoToEnu T g (.geo (c.set k x))⟩], w.tracks⟩ := by
  have hbl : b < w.heap.length := (List.getElem?_eq_some_iff.mp hb).1
  simp only [World.set, hb, Except.bind]
  have hp2 : (w.heap.set b ⟨.geo, c.set k x⟩)[p]? = some ⟨.geo, g⟩ := by
    rw [getElem?_set_old _ _ _ _ hpb]; exact hp
  have hb2 : valArg (w.heap.set b ⟨.geo, c.set k x⟩) (.ref b) = some (some (.pt (.geo (c.set k x)))) := by
    simp [valArg, List.getElem?_set_self hbl, objBase]
  rw [call_eq T _ p _ hp2, callConv_geo_enu T _ _ rfl _ _ hb2]
  rfl

/-- T14 The local coordinates of the base itself are (0,0,0) also when point and base are *the same object*
(`b.toENUCoords(b)`), for a `GeoCoords` and for an `ECEFCoords`. -/
theorem alias_base_is_origin (T : Trig ℝ) (w : World ℝ) (i : Nat) (o : Obj ℝ) (ho : w.heap[i]? = some o)
    (hk : o.kind ≠ .enu) :
    w.call T i .enu [.ref i] = .ok { w with heap := w.heap ++ [⟨.enu, ⟨0, 0, 0⟩⟩] } := by
  rw [call_eq T w i o ho, callConv_self T w.heap i o ho hk]
  rfl

/-- T15 The whole-track conversions on the heap (`Track.toECEFCoords/toENUCoords/toGeoCoords/toProjCoords/toENUCoordsIfNeeded` with
`getSRID()`, the default base, `Track.base`, the per-position dispatch and the rebinding of positions and base) simulate
the pure `Track` model of `Model/Geo.lean` that T8/T9 are about: for a track whose positions all have the class of the
first one (`Abs`: the pure track is what the heap-level track holds *now*, bases read by value), the heap-level
conversion and the pure one fail with the same error, or both succeed and the new heap-level track holds the new pure
track. (`arg'` is `arg` read through the heap: `None`, an SRID, or the current value of a `GeoCoords`/`ECEFCoords`.) -/
theorem track_heap_simulation (T : Trig ℝ) (w : World ℝ) (ti : Nat) (t : HTrack) (ht : w.tracks[ti]? = some t)
    (a : Track ℝ) (hA : Abs w.heap t a) (arg : Val) (arg' : Option (BaseArg ℝ)) (harg : valArg w.heap arg = some arg')
    (srid : Nat) :
    SimRes ti (w.trackToENU T ti arg) (a.toENU T arg')
    ∧ SimRes ti (w.trackToGeo T ti arg) (a.toGeo T arg')
    ∧ SimRes ti (w.trackToECEF T ti arg) (a.toECEF T arg')
    ∧ SimRes ti (w.trackToProj T ti srid) (a.toProj T srid)
    ∧ SimRes ti (w.trackToENUIfNeeded T ti) (a.toENUIfNeeded T) :=
  ⟨trackToENU_sim T w ti t ht a hA arg arg' harg, trackToGeo_sim T w ti t ht a hA arg arg' harg,
   trackToECEF_sim T w ti t ht a hA arg arg' harg, trackToProj_sim T w ti t ht a hA srid,
   trackToENUIfNeeded_sim T w ti t ht a hA⟩

/-- T15' `Track.toENUCoordsIfNeeded()` on a Geo track is `Track.toENUCoords()` without argument (base = the first
observation, T8), on any other non-empty track it does nothing. -/
theorem track_enu_if_needed (T : Trig ℝ) (t : Track ℝ) (p : V3 ℝ) (ps : List (V3 ℝ)) (hp : t.pts = p :: ps) :
    (t.kind = .geo → t.toENUIfNeeded T = t.toENU T none) ∧ (t.kind ≠ .geo → t.toENUIfNeeded T = .ok t) := by
  obtain ⟨k, pts, base⟩ := t
  simp only at hp
  subst hp
  constructor
  · intro hk; simp only at hk; subst hk; rfl
  · intro hk; simp only at hk; cases k <;> first | exact absurd rfl hk | rfl

/-- T16 What `Track.toENUCoords` leaves in the track is new: the positions and `Track.base` are objects that did not
exist before the call (or `Track.base` is the SRID number) — the recorded base is a copy (`base.toGeoCoords()`), never the
caller's object — and no older object was touched. -/
theorem track_enu_rebinds_fresh (T : Trig ℝ) (w w' : World ℝ) (ti : Nat) (arg : Val)
    (h : w.trackToENU T ti arg = .ok w') :
    (∃ t', w'.tracks[ti]? = some t' ∧ FreshFrom w.heap.length t') ∧ ∃ l, w'.heap = w.heap ++ l :=
  ⟨trackToENU_fresh T w w' ti arg h, trackToENU_frame T w w' ti arg h⟩

/-- T17 The record survives the caller: a Geo track goes to ENU about the caller's `GeoCoords` object `b`; the caller
then updates in place *any* object that existed before that conversion (his base object `b` in particular); the track
comes back with `toGeoCoords()` and no argument. All three calls succeed and every position is its own Geo → ECEF → Geo
image (T4, T5, T5'), `Track.base` still being the base as it was when it was used. -/
theorem track_round_trip_survives_update (T : Trig ℝ) (hT : Pyth T) (w : World ℝ) (ti : Nat) (t : HTrack)
    (ht : w.tracks[ti]? = some t) (pts : List (V3 ℝ)) (hne : pts ≠ []) (ab : Option (BaseArg ℝ))
    (hA : Abs w.heap t ⟨.geo, pts, ab⟩) (b : Nat) (c : V3 ℝ) (hb : w.heap[b]? = some ⟨.geo, c⟩)
    (j k : Nat) (x : ℝ) (hj : j < w.heap.length) :
    ∃ w1 w2 w3 t3, w.trackToENU T ti (.ref b) = .ok w1 ∧ w1.set j k x = .ok w2 ∧ w2.trackToGeo T ti .none = .ok w3 ∧
      w3.tracks[ti]? = some t3 ∧
      Abs w3.heap t3 ⟨.geo, pts.map (fun g => ecefToGeo T (geoToEcef T g)), some (.pt (.geo c))⟩ :=
  track_round_trip_survives_update' T hT w ti t ht pts hne ab hA b c hb j k x hj

/-! ### round trips through the base the track recorded, for a base of either class; the base the library chooses -/

/-- T9' Whole-track round trips whose return leg passes *no argument* (the code reads `Track.base`, the record), for a base
of either class (T9 has this only for a `GeoCoords` base). `Track.toENUCoords(b)` converts with `b` and records
`b.toGeoCoords()`; the point conversions read a base only through `base.toECEFCoords()`. Hence
* (no hypothesis) ECEF track → ENU(b) → ECEF(): every position goes forth with `b` and back with the record,
  `enuToEcef (ecefToEnu p b) (b.toGeoCoords())` — this is exactly what the code computes in the known finding;
* if the record denotes the point that was used — `geoToEcef (b.toGeo) = b.toEcef`: every `GeoCoords` base, and an
  `ECEFCoords` base at which the closed-form inverse is exact (`recorded_base_denotes_base_used`) — then the returns
  through the record are exact: ECEF track → ENU(b) → ECEF() gives the positions back, → Geo() gives their direct
  ECEF → Geo images; Geo track → ENU(b) → ECEF() / Geo() gives the direct Geo → ECEF conversion / the Geo → ECEF → Geo
  images (T4, T5, T5' then apply point by point); and the recorded base has local coordinates (0,0,0) in the frame used.
The hypothesis fails for an `ECEFCoords` base off the ellipsoid by Bowring's residual (about a micrometre up to 10 km):
the listed finding of this property, and nothing else, is what is left out. -/
theorem track_round_trip_recorded_base (T : Trig ℝ) (hT : Pyth T) (t : Track ℝ) (hne : t.pts ≠ []) (b : Base ℝ) :
    (t.kind = .ecef →
      (t.toENU T (some (.pt b))).bind (fun u => u.toECEF T none)
        = .ok ⟨.ecef, t.pts.map (fun p => enuToEcef T (ecefToEnu T p b) (.geo (b.toGeo T))), some (.pt (.geo (b.toGeo T)))⟩)
    ∧ (geoToEcef T (b.toGeo T) = b.toEcef T →
        (t.kind = .ecef →
          (t.toENU T (some (.pt b))).bind (fun u => u.toECEF T none) = .ok ⟨.ecef, t.pts, some (.pt (.geo (b.toGeo T)))⟩
          ∧ (t.toENU T (some (.pt b))).bind (fun u => u.toGeo T none)
              = .ok ⟨.geo, t.pts.map (ecefToGeo T), some (.pt (.geo (b.toGeo T)))⟩)
        ∧ (t.kind = .geo →
          (t.toENU T (some (.pt b))).bind (fun u => u.toECEF T none)
              = .ok ⟨.ecef, t.pts.map (geoToEcef T), some (.pt (.geo (b.toGeo T)))⟩
          ∧ (t.toENU T (some (.pt b))).bind (fun u => u.toGeo T none)
              = .ok ⟨.geo, t.pts.map (fun g => ecefToGeo T (geoToEcef T g)), some (.pt (.geo (b.toGeo T)))⟩)
        ∧ geoToEnu T (b.toGeo T) b = ⟨0, 0, 0⟩) :=
  ⟨fun hk => track_ecef_enu_ecef_rec T t hk hne b,
   fun hb => ⟨fun hk => ⟨track_ecef_enu_ecef_none T hT t hk hne b hb, track_ecef_enu_geo_none T hT t hk hne b hb⟩,
              fun hk => ⟨track_geo_enu_ecef_none T hT t hk hne b hb, track_geo_enu_geo_none T hT t hk hne b hb⟩,
              recorded_is_origin T b hb⟩⟩

/-- T9'' When the hypothesis of T9' holds: for every `GeoCoords` base (any trig functions: the record is a copy), and — over
the reals — for an `ECEFCoords` base that lies on the ellipsoid (the ECEF position of any `(lon, lat, 0)` with
lon in (−180°, 180°], |lat| < 90°), where the closed-form inverse is exact (T5). -/
theorem recorded_base_denotes_base_used :
    (∀ (T : Trig ℝ) (c : V3 ℝ), geoToEcef T ((Base.geo c).toGeo T) = (Base.geo c).toEcef T)
    ∧ (∀ c : V3 ℝ, -180 < c.x → c.x ≤ 180 → -90 < c.y → c.y < 90 → c.z = 0 →
        geoToEcef realTrig ((Base.ecef (geoToEcef realTrig c)).toGeo realTrig)
          = (Base.ecef (geoToEcef realTrig c)).toEcef realTrig) :=
  ⟨fun _ _ => rfl, fun c h1 h2 h3 h4 h0 => recorded_on_ellipsoid c h1 h2 h3 h4 h0⟩

/-- T8' The base the library chooses. `Track.toENUCoords()` without argument, as coded (the statement of the property does
not fix this choice; the harness's oracle judges such a call against the recorded base only): on a non-empty Geo track the
first observation lands on (0,0,0), the record is its position, and the returns without argument are exact in the sense
of T9' (no hypothesis: the base is a `GeoCoords`); on a non-empty ECEF track the first observation lands on (0,0,0), the
record is the closed-form inverse of its position, and the returns without argument are exact when that inverse is exact
at the first position (on the ellipsoid: T9''). -/
theorem track_default_base (T : Trig ℝ) (hT : Pyth T) (t : Track ℝ) (p : V3 ℝ) (ps : List (V3 ℝ)) (hp : t.pts = p :: ps) :
    (t.kind = .geo →
      (∃ qs, t.toENU T none = .ok ⟨.enu, ⟨0, 0, 0⟩ :: qs, some (.pt (.geo p))⟩)
      ∧ (t.toENU T none).bind (fun u => u.toGeo T none)
          = .ok ⟨.geo, t.pts.map (fun g => ecefToGeo T (geoToEcef T g)), some (.pt (.geo p))⟩
      ∧ (t.toENU T none).bind (fun u => u.toECEF T none)
          = .ok ⟨.ecef, t.pts.map (geoToEcef T), some (.pt (.geo p))⟩)
    ∧ (t.kind = .ecef →
      (∃ qs, t.toENU T none = .ok ⟨.enu, ⟨0, 0, 0⟩ :: qs, some (.pt (.geo (ecefToGeo T p)))⟩)
      ∧ (geoToEcef T (ecefToGeo T p) = p →
          (t.toENU T none).bind (fun u => u.toECEF T none) = .ok ⟨.ecef, t.pts, some (.pt (.geo (ecefToGeo T p)))⟩
          ∧ (t.toENU T none).bind (fun u => u.toGeo T none)
              = .ok ⟨.geo, t.pts.map (ecefToGeo T), some (.pt (.geo (ecefToGeo T p)))⟩)) := by
  have hne : t.pts ≠ [] := by rw [hp]; exact List.cons_ne_nil _ _
  refine ⟨fun hk => ?_, fun hk => ?_⟩
  · rw [toENU_geo_none T t hk p ps hp]
    refine ⟨⟨ps.map (fun g => geoToEnu T g (.geo p)), ?_⟩, ?_, ?_⟩
    · rw [toENU_geo_pt T t hk hne (.geo p), hp, List.map_cons, geoToEnu_self' T p]; rfl
    · exact track_geo_enu_geo_none T hT t hk hne (.geo p) (recorded_geo T p)
    · exact track_geo_enu_ecef_none T hT t hk hne (.geo p) (recorded_geo T p)
  · rw [toENU_ecef_none T t hk p ps hp]
    refine ⟨⟨ps.map (fun q => ecefToEnu T q (.ecef p)), ?_⟩, fun hb => ⟨?_, ?_⟩⟩
    · rw [toENU_ecef_pt T t hk hne (.ecef p), hp, List.map_cons]
      have : ecefToEnu T p (.ecef p) = ⟨0, 0, 0⟩ := ecefToEnu_base' T (.ecef p)
      rw [this]; rfl
    · exact track_ecef_enu_ecef_none T hT t hk hne (.ecef p) hb
    · exact track_ecef_enu_geo_none T hT t hk hne (.ecef p) hb

/-- T17' The record of a base chosen by the library survives the caller too: a Geo track goes to ENU *without argument*
(the base is the position object of the first observation); the caller then updates in place any object that existed
before that conversion — that first position object in particular; the track comes back with `toGeoCoords()` and no
argument. All three calls succeed, every position is its own Geo → ECEF → Geo image, and `Track.base` is the first position
as it was when it was used (the record is a copy, the new positions are new objects). -/
theorem track_default_round_trip_survives_update (T : Trig ℝ) (hT : Pyth T) (w : World ℝ) (ti : Nat) (t : HTrack)
    (ht : w.tracks[ti]? = some t) (p : V3 ℝ) (ps : List (V3 ℝ)) (ab : Option (BaseArg ℝ))
    (hA : Abs w.heap t ⟨.geo, p :: ps, ab⟩) (j k : Nat) (x : ℝ) (hj : j < w.heap.length) :
    ∃ w1 w2 w3 t3, w.trackToENU T ti .none = .ok w1 ∧ w1.set j k x = .ok w2 ∧ w2.trackToGeo T ti .none = .ok w3 ∧
      w3.tracks[ti]? = some t3 ∧
      Abs w3.heap t3 ⟨.geo, (p :: ps).map (fun g => ecefToGeo T (geoToEcef T g)), some (.pt (.geo p))⟩ :=
  track_default_round_trip_survives_update' T hT w ti t ht p ps ab hA j k x hj

/-! ### the hypotheses are satisfiable by ordinary inputs -/

/-- Notre-Dame de Paris on the ellipsoid comes back exactly through ECEF, and through the local frame of a base in Lyon
given as `GeoCoords`. -/
example : ecefToGeo realTrig (geoToEcef realTrig ⟨2.35, 48.853, 0⟩) = ⟨2.35, 48.853, 0⟩ :=
  geo_ecef_geo_partial _ (by norm_num) (by norm_num) (by norm_num) (by norm_num) rfl
example : enuToGeo realTrig (geoToEnu realTrig ⟨2.35, 48.853, 0⟩ (.geo ⟨4.85, 45.75, 170⟩)) (.geo ⟨4.85, 45.75, 170⟩)
    = ⟨2.35, 48.853, 0⟩ :=
  geo_enu_geo_partial _ _ (by norm_num) (by norm_num) (by norm_num) (by norm_num) rfl
/-- the antimeridian and a near-pole latitude at 10 km satisfy the hypotheses of T4 -/
example : (ecefToGeo realTrig (geoToEcef realTrig ⟨180, -89.8999, 10000⟩)).x = 180 :=
  lon_recovered _ (by norm_num) (by norm_num) (by norm_num) (by norm_num) (by norm_num)
/-- a two-point ECEF track round-trips through the frame of its own first observation passed as base -/
example : ((⟨.ecef, [⟨4201000, 168000, 4780000⟩, ⟨4201010, 168020, 4780005⟩], none⟩ : Track ℝ).toENU realTrig
      (some (.pt (.ecef ⟨4201000, 168000, 4780000⟩)))).bind (fun u => u.toECEF realTrig (some (.pt (.ecef ⟨4201000, 168000, 4780000⟩))))
    = .ok ⟨.ecef, [⟨4201000, 168000, 4780000⟩, ⟨4201010, 168020, 4780005⟩],
        some (.pt (.geo (ecefToGeo realTrig ⟨4201000, 168000, 4780000⟩)))⟩ :=
  (track_round_trip realTrig pyth_realTrig _ (by simp) (.ecef ⟨4201000, 168000, 4780000⟩) ⟨0, 0, 0⟩).1 rfl

/-- a point of the Lambert-93 domain satisfies the hypotheses of T11 -/
example : (fromLambert93 realTrig (toLambert93 realTrig ⟨2.35, 48.853, 35⟩)).x = 2.35 :=
  (lambert_round_trip _ (by norm_num) (by norm_num) (by norm_num) (by norm_num)).1

/-- a point at 8848 m satisfies the hypotheses of T5' -/
example : (ecefToGeo realTrig (geoToEcef realTrig ⟨86.925, 27.988, 8848⟩)).x = 86.925 := by
  rw [(geo_ecef_geo_residual ⟨86.925, 27.988, 8848⟩ (by norm_num) (by norm_num) (by norm_num) (by norm_num) (by norm_num)).1]

/-- a world with one Geo position (object 0), the caller's base (object 1) and a track holding object 0: the track goes to
ENU about object 1, the caller moves object 1 up by 1588 m, the track comes back (hypotheses of T17 with `j = b = 1`) -/
example : ∃ w1 w2 w3 t3,
    (⟨[⟨.geo, ⟨5.7245, 45.1885, 212⟩⟩, ⟨.geo, ⟨5.72, 45.19, 212⟩⟩], [⟨[0], .none⟩]⟩ : World ℝ).trackToENU realTrig 0 (.ref 1) = .ok w1
    ∧ w1.set 1 2 1800 = .ok w2 ∧ w2.trackToGeo realTrig 0 .none = .ok w3 ∧ w3.tracks[0]? = some t3
    ∧ Abs w3.heap t3 ⟨.geo, [ecefToGeo realTrig (geoToEcef realTrig ⟨5.7245, 45.1885, 212⟩)], some (.pt (.geo ⟨5.72, 45.19, 212⟩))⟩ :=
  track_round_trip_survives_update realTrig pyth_realTrig _ 0 ⟨[0], .none⟩ rfl [⟨5.7245, 45.1885, 212⟩] (by simp) none
    ⟨⟨[⟨.geo, ⟨5.7245, 45.1885, 212⟩⟩], rfl, by simp, rfl⟩, rfl⟩ 1 ⟨5.72, 45.19, 212⟩ rfl 1 2 1800 (by simp)

/-- the same object as point and base (hypotheses of T14) -/
example : (⟨[⟨.geo, ⟨2.35, 48.853, 35⟩⟩], []⟩ : World ℝ).call realTrig 0 .enu [.ref 0]
    = .ok ⟨[⟨.geo, ⟨2.35, 48.853, 35⟩⟩, ⟨.enu, ⟨0, 0, 0⟩⟩], []⟩ :=
  alias_base_is_origin realTrig _ 0 _ rfl (by simp)

/-- an ECEF track whose first observation lies on the ellipsoid goes to ENU without argument and comes back without
argument, exactly (hypotheses of T8' / T9'' for the base the library chooses) -/
example : ((⟨.ecef, [geoToEcef realTrig ⟨2.35, 48.853, 0⟩, ⟨4201010, 168020, 4780005⟩], none⟩ : Track ℝ).toENU realTrig none).bind
      (fun u => u.toECEF realTrig none)
    = .ok ⟨.ecef, [geoToEcef realTrig ⟨2.35, 48.853, 0⟩, ⟨4201010, 168020, 4780005⟩],
        some (.pt (.geo (ecefToGeo realTrig (geoToEcef realTrig ⟨2.35, 48.853, 0⟩))))⟩ :=
  (((track_default_base realTrig pyth_realTrig _ _ _ rfl).2 rfl).2
    (recorded_base_denotes_base_used.2 ⟨2.35, 48.853, 0⟩ (by norm_num) (by norm_num) (by norm_num) (by norm_num) rfl)).1

/-- a Geo track of two positions (objects 0, 1) goes to ENU without argument, the caller moves the first position object
up to 1800 m, the track comes back (hypotheses of T17' with `j = 0`, the object the library took as base) -/
example : ∃ w1 w2 w3 t3,
    (⟨[⟨.geo, ⟨5.7245, 45.1885, 212⟩⟩, ⟨.geo, ⟨5.72, 45.19, 212⟩⟩], [⟨[0, 1], .none⟩]⟩ : World ℝ).trackToENU realTrig 0 .none = .ok w1
    ∧ w1.set 0 2 1800 = .ok w2 ∧ w2.trackToGeo realTrig 0 .none = .ok w3 ∧ w3.tracks[0]? = some t3
    ∧ Abs w3.heap t3 ⟨.geo, [⟨5.7245, 45.1885, 212⟩, ⟨5.72, 45.19, 212⟩].map (fun g => ecefToGeo realTrig (geoToEcef realTrig g)),
        some (.pt (.geo ⟨5.7245, 45.1885, 212⟩))⟩ :=
  track_default_round_trip_survives_update realTrig pyth_realTrig _ 0 ⟨[0, 1], .none⟩ rfl ⟨5.7245, 45.1885, 212⟩
    [⟨5.72, 45.19, 212⟩] none ⟨⟨[⟨.geo, ⟨5.7245, 45.1885, 212⟩⟩, ⟨.geo, ⟨5.72, 45.19, 212⟩⟩], rfl, by simp, rfl⟩, rfl⟩ 0 2 1800 (by simp)

end TV.C14
