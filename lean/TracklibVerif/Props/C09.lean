import TracklibVerif.Lemmas.ViterbiTable
import TracklibVerif.Lemmas.ViterbiLik
import Mathlib.Algebra.Order.Monoid.Defs
import Mathlib.Algebra.Order.Group.Nat
/-! # C09 — hidden-Markov decoding returns a maximum-likelihood state sequence

Property theorems only (helpers: `Lemmas/Viterbi.lean`, `Lemmas/ViterbiTable.lean`, `Lemmas/ViterbiLik.lean`).
All statements are about `TV.Viterbi.decode`, the table-building executable model of `HMM.estimate`
that the native driver runs against the real code (`Model/Viterbi.lean`), for a track of `N+1` epochs,
any numbers of candidate states `t.n k ≥ 1` (they may differ per epoch) and any cost tables.

Reading of the model: `t.obs k l` is `-Plog(STATES[k][l], OBS[k], k)`, `t.trans k m l` is
`-Qlog(STATES[k][m], STATES[k+1][l], k)`, `t.add` is Python's `+`, `t.big` the `1e300` sentinel; the
result `r` lists per epoch `(idk, TAB_VAL[k][idk])`, i.e. the index of `hmm_inference` among that epoch's
candidates (`seqOf r k`) and `hmm_cost` (`costAt r k`). `cost t σ k` is the cost of the sequence `σ` up to
epoch `k`, accumulated exactly as the code does: `(q + previous) + p`.

Hypotheses: `Mono t` — the accumulation is monotone in each argument (true of `+` in every ordered
additive monoid, and of IEEE addition on finite values; the latter is not proved); `PathsBelow t` —
the running cost of every candidate sequence stays below the sentinel. -/
namespace TV.C09
open TV.Viterbi
variable {α : Type} [LinearOrder α]

/-- **T0 (no failure).** When each of the `N+1` epochs has at least one candidate state, decoding does
not raise and records exactly one entry per epoch. -/
theorem decode_succeeds (t : Tables α) (N : Nat) (hpos : ∀ k, k ≤ N → 0 < t.n k) :
    ∃ r, decode t (N+1) = .ok r ∧ r.length = N + 1 := by
  obtain ⟨idk, _, _, h⟩ := decode_eq t N hpos
  exact ⟨_, h, by simp⟩

/-- **T1 `decoded_valid`.** The inferred sequence has one entry per epoch and the entry of epoch `k` is an
index `< n_k`: the state written to `hmm_inference` at epoch `k` is one of THAT epoch's candidates
(`STATES[k][idk]`). Needs no hypothesis on the costs (in particular none on the sentinel). -/
theorem decoded_valid (t : Tables α) (N : Nat) (hpos : ∀ k, k ≤ N → 0 < t.n k) (r : List (Nat × α))
    (h : decode t (N+1) = .ok r) : r.length = N + 1 ∧ ∀ k, k ≤ N → seqOf r k < t.n k := by
  obtain ⟨idk, h1, _, hlen, hseq, _⟩ := decode_ok t N hpos r h
  refine ⟨hlen, fun k hk => ?_⟩
  rw [hseq k hk]
  exact back_lt_n t N idk hpos h1 k hk

/-- **T2 `decoded_cost`.** The `hmm_cost` recorded at epoch `k` is the accumulated (left-fold) cost of the
decoded sequence up to epoch `k`; at the last epoch it is `TAB_VAL[N][idk]`, the smallest entry of the last
column. -/
theorem decoded_cost (t : Tables α) (N : Nat) (hpos : ∀ k, k ≤ N → 0 < t.n k) (hbig : PathsBelow t N)
    (r : List (Nat × α)) (h : decode t (N+1) = .ok r) :
    (∀ k, k ≤ N → costAt r k = some (cost t (seqOf r) k)) ∧
    costAt r N = some (val t N (seqOf r N)) ∧
    ∀ l, l < t.n N → val t N (seqOf r N) ≤ val t N l := by
  have hs := sentinel_of_paths t N hpos hbig
  obtain ⟨idk, h1, hmin, _, hseq, hcost⟩ := decode_ok t N hpos r h
  refine ⟨fun k hk => ?_, ?_, ?_⟩
  · rw [hcost k hk, val_back' t N hpos hs idk k h1 hk]
    congr 1
    exact cost_congr t _ _ k (fun j hj => (hseq j (by omega)).symm)
  · rw [hcost N (Nat.le_refl _), hseq N (Nat.le_refl _)]
  · rw [hseq N (Nat.le_refl _), back_self]; exact hmin

/-- **T3 `decoded_optimal`.** The decoded sequence costs no more than ANY sequence that picks one candidate
per epoch, and the cost recorded at the last epoch is that minimum. Together with T1 (the decoded sequence
is itself such a sequence) the recorded cost is the optimum over all `Π n_k` candidate sequences. -/
theorem decoded_optimal (t : Tables α) (hm : Mono t) (N : Nat) (hpos : ∀ k, k ≤ N → 0 < t.n k)
    (hbig : PathsBelow t N) (r : List (Nat × α)) (h : decode t (N+1) = .ok r)
    (σ : Nat → Nat) (hσ : ∀ k, k ≤ N → σ k < t.n k) :
    cost t (seqOf r) N ≤ cost t σ N ∧ costAt r N = some (cost t (seqOf r) N) := by
  have hs := sentinel_of_paths t N hpos hbig
  have hc := (decoded_cost t N hpos hbig r h).1 N (Nat.le_refl _)
  refine ⟨?_, hc⟩
  obtain ⟨idk, h1, hmin, _, hseq, _⟩ := decode_ok t N hpos r h
  have e : cost t (seqOf r) N = val t N idk := by
    rw [cost_congr t (seqOf r) (back t N idk) N (fun j hj => hseq j hj)]
    exact cost_back' t N hpos hs N idk (Nat.le_refl _) h1
  rw [e]
  exact le_trans (hmin _ (hσ N (Nat.le_refl _))) (val_le_cost' t hm N hpos hs σ hσ N (Nat.le_refl _))

/-- `+` of an ordered additive commutative monoid (ℕ, ℤ, ℚ, ℝ, …) is a monotone accumulation. -/
theorem mono_add [AddCommMonoid α] [IsOrderedAddMonoid α] (t : Tables α) (hadd : t.add = (· + ·)) :
    Mono t := by
  constructor
  · intro a b c hab; rw [hadd]; exact add_le_add_left hab c
  · intro a b c hab; rw [hadd]; exact add_le_add_right hab c

/-- T3 for the code's accumulation `+` over any ordered additive commutative monoid. -/
theorem decoded_optimal_add [AddCommMonoid α] [IsOrderedAddMonoid α] (t : Tables α)
    (hadd : t.add = (· + ·)) (N : Nat) (hpos : ∀ k, k ≤ N → 0 < t.n k) (hbig : PathsBelow t N)
    (r : List (Nat × α)) (h : decode t (N+1) = .ok r)
    (σ : Nat → Nat) (hσ : ∀ k, k ≤ N → σ k < t.n k) :
    cost t (seqOf r) N ≤ cost t σ N ∧ costAt r N = some (cost t (seqOf r) N) :=
  decoded_optimal t (mono_add t hadd) N hpos hbig r h σ hσ

/-- **T4 `likelihood_form`** (ℝ). Let the user's `P`, `Q` return likelihoods `p k l`, `q k m l` that are
strictly positive once the guard `eps ≥ 0` is added (the code's `eps` is `1e-300`; with `eps = 0` and strictly
positive likelihoods `lik` is the plain joint likelihood `P₀ · Π Q_k P_{k+1}`). Then the decoded sequence is
a candidate sequence of MAXIMAL joint likelihood and the cost recorded at the last epoch is `-log` of that
maximum. -/
theorem likelihood_form (n : Nat → Nat) (p : Nat → Nat → ℝ) (q : Nat → Nat → Nat → ℝ) (eps big : ℝ) (N : Nat)
    (hpos : ∀ k, k ≤ N → 0 < n k)
    (hp : ∀ k l, k ≤ N → l < n k → 0 < p k l + eps)
    (hq : ∀ k m l, k < N → m < n k → l < n (k+1) → 0 < q k m l + eps)
    (hbig : PathsBelow (likTables n p q eps big false) N)
    (r : List (Nat × ℝ)) (h : decode (likTables n p q eps big false) (N+1) = .ok r) :
    (∀ k, k ≤ N → seqOf r k < n k) ∧
    (∀ σ : Nat → Nat, (∀ k, k ≤ N → σ k < n k) → lik p q eps σ N ≤ lik p q eps (seqOf r) N) ∧
    costAt r N = some (- Real.log (lik p q eps (seqOf r) N)) := by
  have hv := (decoded_valid (likTables n p q eps big false) N hpos r h).2
  refine ⟨hv, fun σ hσ => ?_, ?_⟩
  · have ho := (decoded_optimal_add (likTables n p q eps big false) rfl N hpos hbig r h σ hσ).1
    exact (cost_le_iff_lik_ge n p q eps big N hp hq (seqOf r) σ hv hσ).mp ho
  · have hc := (decoded_cost (likTables n p q eps big false) N hpos hbig r h).1 N (Nat.le_refl _)
    rw [hc, cost_eq_neg_log n p q eps big N hp hq (seqOf r) hv N (Nat.le_refl _)]

/-- **T4b `logs_supplied_same`.** A user who passes the logarithms `log (v + eps)` of the same likelihoods
and declares the model with `log=True` makes `estimate` work on exactly the same cost tables: same decoded
sequence, same recorded costs (so T1–T4 hold for it, with the same optimum). -/
theorem logs_supplied_same (n : Nat → Nat) (p : Nat → Nat → ℝ) (q : Nat → Nat → Nat → ℝ)
    (eps eps' big : ℝ) (N : Nat) :
    decode (likTables n (fun k l => Real.log (p k l + eps)) (fun k m l => Real.log (q k m l + eps))
        eps' big true) N
      = decode (likTables n p q eps big false) N := by
  rw [likTables_log]

/-! Non-vacuity: a 3-epoch model over ℕ with 2, 1 and 2 candidate states (they differ per epoch; no state
beyond the track, as in the driver), in which the cheapest state of epoch 0 is not on the optimal path. -/
section example_
private def exT : Tables Nat :=
  { n := fun k => if k = 0 then 2 else if k = 1 then 1 else if k = 2 then 2 else 0
    obs := fun k l => if k = 0 then (if l = 0 then 0 else 1) else if k = 2 then (if l = 0 then 2 else 0) else 0
    trans := fun k m l => if k = 0 then (if m = 0 then 5 else 1) else if l = 0 then 0 else 1
    add := (· + ·)
    big := 1000 }

example : decode exT 3 = .ok [(1, 1), (0, 2), (1, 3)] := by decide +kernel
example : ∀ k, k ≤ 2 → 0 < exT.n k := by
  intro k hk
  have : k = 0 ∨ k = 1 ∨ k = 2 := by omega
  rcases this with rfl | rfl | rfl <;> decide
example : Mono exT := mono_add exT rfl
example : PathsBelow exT 2 := by
  intro σ _ k hk
  have : k = 0 ∨ k = 1 := by omega
  rcases this with rfl | rfl
  · simp only [exT, cost]; split <;> split <;> simp
  · simp only [exT, cost]; repeat' split
    all_goals simp
/-- the hypotheses of T4 are satisfiable: two epochs of two states, all likelihoods 1, no guard -/
example : PathsBelow (likTables (fun _ => 2) (fun _ _ => 1) (fun _ _ _ => 1) 0 1000 false) 1 := by
  intro σ _ k hk
  have : k = 0 := by omega
  subst this
  simp [likTables, costOf, cost]
end example_
end TV.C09
