import TracklibVerif.Lemmas.ViterbiTable
import TracklibVerif.Lemmas.ViterbiLik
import TracklibVerif.Lemmas.ViterbiZero
import TracklibVerif.Lemmas.Hmm
import TracklibVerif.Lemmas.HmmPos
import TracklibVerif.Lemmas.HmmCall
import TracklibVerif.Lemmas.ViterbiBound
import TracklibVerif.Lemmas.ViterbiSentinel
import TracklibVerif.Lemmas.ViterbiTop
import Mathlib.Algebra.Order.Monoid.Defs
import Mathlib.Algebra.Order.Group.Nat
/-! # C09 — hidden-Markov decoding returns a maximum-likelihood state sequence

Property theorems only (helpers: `Lemmas/Viterbi.lean`, `Lemmas/ViterbiTable.lean`, `Lemmas/ViterbiLik.lean`,
`Lemmas/ViterbiZero.lean`, `Lemmas/Hmm.lean`, `Lemmas/HmmPos.lean`, `Lemmas/HmmCall.lean`).
T0–T4c are about `TV.Viterbi.decode`, the table-building executable model of the decoder inside `HMM.estimate`
that the native driver runs against the real code (`Model/Viterbi.lean`), for a track of `N+1` epochs,
any numbers of candidate states `t.n k ≥ 1` (they may differ per epoch) and any cost tables.
T5–T7 are about `TV.Hmm.estimate` (`Model/Hmm.lean`), the call as a whole: the HMM object and its `log` flag
(`estimate` honours its `log` argument since fix d19cf43: `self.log = self.log or log`), the compilation of the
candidate states and of the observations from the track, the cost tables of THAT call, and the writing of
`hmm_inference` (the state object) / `hmm_cost` — for histories of calls on tracks that already carry results.
T8–T9 are about the POSITIONS: the modes 3, 4, 5 rebind the position of every epoch to the decoded state object and
write no coordinate of any object; `x`, `y`, `z` as observation names read the coordinates of whatever object the
position is when the call is made. T10–T11 are about what `S` may return (`TV.Hmm.estimateS`): anything with a length
and integer indexing is a candidate list; anything else is a `TypeError` before the track is touched.
T13 is about user functions that READ THE TRACK they are handed: the call depends on them only through their values on the
call-time track (nothing is re-evaluated on a half-written one). T14 is about user functions that RAISE
(`TV.Hmm.estimateX`, what the driver runs): the exception propagates and nothing of the track is written.

Reading of the model: `t.obs k l` is `-Plog(STATES[k][l], OBS[k], k)`, `t.trans k m l` is
`-Qlog(STATES[k][m], STATES[k+1][l], k)`, `t.add` is Python's `+`, `t.big` the `1e300` sentinel; the
result `r` lists per epoch `(idk, TAB_VAL[k][idk])`, i.e. the index of `hmm_inference` among that epoch's
candidates (`seqOf r k`) and `hmm_cost` (`costAt r k`). `cost t σ k` is the cost of the sequence `σ` up to
epoch `k`, accumulated exactly as the code does: `(q + previous) + p`.

Hypotheses: `Mono t` — the accumulation is monotone in each argument (true of `+` in every ordered
additive monoid, and of IEEE addition on finite values; the latter is not proved); `PathsBelow t` —
the running cost of every candidate sequence stays below the sentinel. -/
namespace TV.C09
open TV.Viterbi
variable {α : Type} [LinearOrder α]

/-- **T0 (no failure).** When each of the `N+1` epochs has at least one candidate state, decoding does
not raise and records exactly one entry per epoch. -/
theorem decode_succeeds (t : Tables α) (N : Nat) (hpos : ∀ k, k ≤ N → 0 < t.n k) :
    ∃ r, decode t (N+1) = .ok r ∧ r.length = N + 1 := by
  obtain ⟨idk, _, _, h⟩ := decode_eq t N hpos
  exact ⟨_, h, by simp⟩

/-- **T1 `decoded_valid`.** The inferred sequence has one entry per epoch and the entry of epoch `k` is an
index `< n_k`: the state written to `hmm_inference` at epoch `k` is one of THAT epoch's candidates
(`STATES[k][idk]`). Needs no hypothesis on the costs (in particular none on the sentinel). -/
theorem decoded_valid (t : Tables α) (N : Nat) (hpos : ∀ k, k ≤ N → 0 < t.n k) (r : List (Nat × α))
    (h : decode t (N+1) = .ok r) : r.length = N + 1 ∧ ∀ k, k ≤ N → seqOf r k < t.n k := by
  obtain ⟨idk, h1, _, hlen, hseq, _⟩ := decode_ok t N hpos r h
  refine ⟨hlen, fun k hk => ?_⟩
  rw [hseq k hk]
  exact back_lt_n t N idk hpos h1 k hk

/-- **T2 `decoded_cost`.** The `hmm_cost` recorded at epoch `k` is the accumulated (left-fold) cost of the
decoded sequence up to epoch `k`; at the last epoch it is `TAB_VAL[N][idk]`, the smallest entry of the last
column. -/
theorem decoded_cost (t : Tables α) (N : Nat) (hpos : ∀ k, k ≤ N → 0 < t.n k) (hbig : PathsBelow t N)
    (r : List (Nat × α)) (h : decode t (N+1) = .ok r) :
    (∀ k, k ≤ N → costAt r k = some (cost t (seqOf r) k)) ∧
    costAt r N = some (val t N (seqOf r N)) ∧
    ∀ l, l < t.n N → val t N (seqOf r N) ≤ val t N l := by
  have hs := sentinel_of_paths t N hpos hbig
  obtain ⟨idk, h1, hmin, _, hseq, hcost⟩ := decode_ok t N hpos r h
  refine ⟨fun k hk => ?_, ?_, ?_⟩
  · rw [hcost k hk, val_back' t N hpos hs idk k h1 hk]
    congr 1
    exact cost_congr t _ _ k (fun j hj => (hseq j (by omega)).symm)
  · rw [hcost N (Nat.le_refl _), hseq N (Nat.le_refl _)]
  · rw [hseq N (Nat.le_refl _), back_self]; exact hmin

/-- **T3 `decoded_optimal`.** The decoded sequence costs no more than ANY sequence that picks one candidate
per epoch, and the cost recorded at the last epoch is that minimum. Together with T1 (the decoded sequence
is itself such a sequence) the recorded cost is the optimum over all `Π n_k` candidate sequences. -/
theorem decoded_optimal (t : Tables α) (hm : Mono t) (N : Nat) (hpos : ∀ k, k ≤ N → 0 < t.n k)
    (hbig : PathsBelow t N) (r : List (Nat × α)) (h : decode t (N+1) = .ok r)
    (σ : Nat → Nat) (hσ : ∀ k, k ≤ N → σ k < t.n k) :
    cost t (seqOf r) N ≤ cost t σ N ∧ costAt r N = some (cost t (seqOf r) N) := by
  have hs := sentinel_of_paths t N hpos hbig
  have hc := (decoded_cost t N hpos hbig r h).1 N (Nat.le_refl _)
  refine ⟨?_, hc⟩
  obtain ⟨idk, h1, hmin, _, hseq, _⟩ := decode_ok t N hpos r h
  have e : cost t (seqOf r) N = val t N idk := by
    rw [cost_congr t (seqOf r) (back t N idk) N (fun j hj => hseq j hj)]
    exact cost_back' t N hpos hs N idk (Nat.le_refl _) h1
  rw [e]
  exact le_trans (hmin _ (hσ N (Nat.le_refl _))) (val_le_cost' t hm N hpos hs σ hσ N (Nat.le_refl _))

/-- `+` of an ordered additive commutative monoid (ℕ, ℤ, ℚ, ℝ, …) is a monotone accumulation. -/
theorem mono_add [AddCommMonoid α] [IsOrderedAddMonoid α] (t : Tables α) (hadd : t.add = (· + ·)) :
    Mono t := by
  constructor
  · intro a b c hab; rw [hadd]; exact add_le_add_left hab c
  · intro a b c hab; rw [hadd]; exact add_le_add_right hab c

/-- T3 for the code's accumulation `+` over any ordered additive commutative monoid. -/
theorem decoded_optimal_add [AddCommMonoid α] [IsOrderedAddMonoid α] (t : Tables α)
    (hadd : t.add = (· + ·)) (N : Nat) (hpos : ∀ k, k ≤ N → 0 < t.n k) (hbig : PathsBelow t N)
    (r : List (Nat × α)) (h : decode t (N+1) = .ok r)
    (σ : Nat → Nat) (hσ : ∀ k, k ≤ N → σ k < t.n k) :
    cost t (seqOf r) N ≤ cost t σ N ∧ costAt r N = some (cost t (seqOf r) N) :=
  decoded_optimal t (mono_add t hadd) N hpos hbig r h σ hσ

/-- **T4 `likelihood_form`** (ℝ). Let the user's `P`, `Q` return likelihoods `p k l`, `q k m l` that are
strictly positive once the guard `eps ≥ 0` is added (the code's `eps` is `1e-300`; with `eps = 0` and strictly
positive likelihoods `lik` is the plain joint likelihood `P₀ · Π Q_k P_{k+1}`). Then the decoded sequence is
a candidate sequence of MAXIMAL joint likelihood and the cost recorded at the last epoch is `-log` of that
maximum. -/
theorem likelihood_form (n : Nat → Nat) (p : Nat → Nat → ℝ) (q : Nat → Nat → Nat → ℝ) (eps big : ℝ) (N : Nat)
    (hpos : ∀ k, k ≤ N → 0 < n k)
    (hp : ∀ k l, k ≤ N → l < n k → 0 < p k l + eps)
    (hq : ∀ k m l, k < N → m < n k → l < n (k+1) → 0 < q k m l + eps)
    (hbig : PathsBelow (likTables n p q eps big false) N)
    (r : List (Nat × ℝ)) (h : decode (likTables n p q eps big false) (N+1) = .ok r) :
    (∀ k, k ≤ N → seqOf r k < n k) ∧
    (∀ σ : Nat → Nat, (∀ k, k ≤ N → σ k < n k) → lik p q eps σ N ≤ lik p q eps (seqOf r) N) ∧
    costAt r N = some (- Real.log (lik p q eps (seqOf r) N)) := by
  have hv := (decoded_valid (likTables n p q eps big false) N hpos r h).2
  refine ⟨hv, fun σ hσ => ?_, ?_⟩
  · have ho := (decoded_optimal_add (likTables n p q eps big false) rfl N hpos hbig r h σ hσ).1
    exact (cost_le_iff_lik_ge n p q eps big N hp hq (seqOf r) σ hv hσ).mp ho
  · have hc := (decoded_cost (likTables n p q eps big false) N hpos hbig r h).1 N (Nat.le_refl _)
    rw [hc, cost_eq_neg_log n p q eps big N hp hq (seqOf r) hv N (Nat.le_refl _)]

/-- **`paths_below_of_bounded`** (the sentinel hypothesis made checkable). If no entry of the cost tables exceeds
`B ≥ 0` and `2N·B` is below the sentinel, then `PathsBelow` holds: the `1e300` start value of `best_val` is never the
minimum. (Over an ordered additive commutative monoid; `n • B` is `B + … + B`.) -/
theorem paths_below_of_bounded [AddCommMonoid α] [IsOrderedAddMonoid α] (t : Tables α) (hadd : t.add = (· + ·))
    (B : α) (hB : 0 ≤ B) (N : Nat)
    (hobs : ∀ k l, k ≤ N → l < t.n k → t.obs k l ≤ B)
    (htr : ∀ k m l, k < N → m < t.n k → l < t.n (k+1) → t.trans k m l ≤ B)
    (hbig : (2 * N) • B < t.big) : PathsBelow t N :=
  pathsBelow_of_bounded t hadd B hB N hobs htr hbig

/-- **T4' `likelihood_form_nonneg`** (ℝ; T4 without a hypothesis on running costs). For NON-NEGATIVE likelihoods — zeros
included, values above 1 included (unnormalised) — and a guard `0 < eps ≤ 1`, every cost is at most `-log eps`
(690.78 for the code's `1e-300`), so it is enough that `2N·(-log eps)` is below the sentinel (for the code's constants:
any track of fewer than `10^296` epochs, see the example below): the decoded sequence is a candidate sequence of maximal
guarded joint likelihood and the cost recorded at the last epoch is `-log` of that maximum. -/
theorem likelihood_form_nonneg (n : Nat → Nat) (p : Nat → Nat → ℝ) (q : Nat → Nat → Nat → ℝ) (eps big : ℝ) (N : Nat)
    (hpos : ∀ k, k ≤ N → 0 < n k) (he : 0 < eps) (he1 : eps ≤ 1)
    (hp : ∀ k l, k ≤ N → l < n k → 0 ≤ p k l)
    (hq : ∀ k m l, k < N → m < n k → l < n (k+1) → 0 ≤ q k m l)
    (hbig : (2 * N : ℝ) * (- Real.log eps) < big)
    (r : List (Nat × ℝ)) (h : decode (likTables n p q eps big false) (N+1) = .ok r) :
    (∀ k, k ≤ N → seqOf r k < n k) ∧
    (∀ σ : Nat → Nat, (∀ k, k ≤ N → σ k < n k) → lik p q eps σ N ≤ lik p q eps (seqOf r) N) ∧
    costAt r N = some (- Real.log (lik p q eps (seqOf r) N)) :=
  likelihood_form n p q eps big N hpos
    (fun k l hk hl => by have := hp k l hk hl; linarith)
    (fun k m l hk hm hl => by have := hq k m l hk hm hl; linarith)
    (likTables_pathsBelow n p q eps big N he he1 hp hq hbig) r h

/-- **T4b `logs_supplied_same`.** A user who passes the logarithms `log (v + eps)` of the same likelihoods
and declares the model with `log=True` makes `estimate` work on exactly the same cost tables: same decoded
sequence, same recorded costs (so T1–T4 hold for it, with the same optimum). -/
theorem logs_supplied_same (n : Nat → Nat) (p : Nat → Nat → ℝ) (q : Nat → Nat → Nat → ℝ)
    (eps eps' big : ℝ) (N : Nat) :
    decode (likTables n (fun k l => Real.log (p k l + eps)) (fun k m l => Real.log (q k m l + eps))
        eps' big true) N
      = decode (likTables n p q eps big false) N := by
  rw [likTables_log]

/-- **T4c `zero_factors_minimised`** (ℝ; likelihood 0 and the `1e-300` guard). Let the likelihoods returned by `P`
and `Q` be `0` or in `[a, b]` with `0 < eps ≤ a ≤ b`, and let the guard be small against them:
`eps · (b + eps)^(2N) < a^(2N+1)` (for the code's `eps = 1e-300`: e.g. `a = 1e-10`, `b = 1`, up to 11 epochs —
see the example below). Then the decoded sequence has the SMALLEST NUMBER OF ZERO FACTORS among all candidate
sequences (`nzero` counts the zeros among the `2N+1` likelihoods of a sequence); by T4 it moreover maximises the
guarded product `Π (v + eps)`, i.e. among the sequences with that number of zeros it maximises — up to the
guard — the product of the non-zero likelihoods. A zero likelihood is therefore never "impossible" for the
decoder: it costs `-log eps` = 690.78, and a sequence through zeros is returned exactly when every candidate
sequence has at least as many. -/
theorem zero_factors_minimised (n : Nat → Nat) (p : Nat → Nat → ℝ) (q : Nat → Nat → Nat → ℝ) (eps a b big : ℝ)
    (N : Nat) (hpos : ∀ k, k ≤ N → 0 < n k)
    (he : 0 < eps) (hea : eps ≤ a) (hab : a ≤ b) (hsep : eps * (b + eps) ^ (2 * N) < a ^ (2 * N + 1))
    (hp : ∀ k l, k ≤ N → l < n k → p k l = 0 ∨ (a ≤ p k l ∧ p k l ≤ b))
    (hq : ∀ k m l, k < N → m < n k → l < n (k+1) → q k m l = 0 ∨ (a ≤ q k m l ∧ q k m l ≤ b))
    (hbig : PathsBelow (likTables n p q eps big false) N)
    (r : List (Nat × ℝ)) (h : decode (likTables n p q eps big false) (N+1) = .ok r)
    (σ : Nat → Nat) (hσ : ∀ k, k ≤ N → σ k < n k) :
    nzero p q (seqOf r) N ≤ nzero p q σ N := by
  have ha : 0 < a := lt_of_lt_of_le he hea
  have hp' : ∀ k l, k ≤ N → l < n k → 0 < p k l + eps := by
    intro k l hk hl
    rcases hp k l hk hl with h0 | ⟨h1, _⟩
    · rw [h0]; simpa using he
    · linarith
  have hq' : ∀ k m l, k < N → m < n k → l < n (k+1) → 0 < q k m l + eps := by
    intro k m l hk hm hl
    rcases hq k m l hk hm hl with h0 | ⟨h1, _⟩
    · rw [h0]; simpa using he
    · linarith
  obtain ⟨hv, hmax, _⟩ := likelihood_form n p q eps big N hpos hp' hq' hbig r h
  by_contra hc
  have hlt := lik_lt_of_nzero_lt p q n eps a b N he ha hea hab hsep hp hq σ (seqOf r) hσ hv (by omega)
  exact absurd (hmax σ hσ) (not_le.mpr hlt)

/-- corollary: when some candidate sequence avoids every zero likelihood, so does the decoded one -/
theorem zero_avoided (n : Nat → Nat) (p : Nat → Nat → ℝ) (q : Nat → Nat → Nat → ℝ) (eps a b big : ℝ)
    (N : Nat) (hpos : ∀ k, k ≤ N → 0 < n k)
    (he : 0 < eps) (hea : eps ≤ a) (hab : a ≤ b) (hsep : eps * (b + eps) ^ (2 * N) < a ^ (2 * N + 1))
    (hp : ∀ k l, k ≤ N → l < n k → p k l = 0 ∨ (a ≤ p k l ∧ p k l ≤ b))
    (hq : ∀ k m l, k < N → m < n k → l < n (k+1) → q k m l = 0 ∨ (a ≤ q k m l ∧ q k m l ≤ b))
    (hbig : PathsBelow (likTables n p q eps big false) N)
    (r : List (Nat × ℝ)) (h : decode (likTables n p q eps big false) (N+1) = .ok r)
    (σ : Nat → Nat) (hσ : ∀ k, k ≤ N → σ k < n k) (h0 : nzero p q σ N = 0) :
    nzero p q (seqOf r) N = 0 := by
  have := zero_factors_minimised n p q eps a b big N hpos he hea hab hsep hp hq hbig r h σ hσ
  omega

/-! ## Without the sentinel hypothesis: impossible transitions, infinite costs, the `1e300` start value reached

T3 assumes `PathsBelow` (every running cost of every candidate sequence below `1e300`). In map-matching most transitions
are IMPOSSIBLE: a user who supplies logarithms returns `-inf` for them (cost `+inf`), and `inf < 1e300` is false, so the
scan over the predecessors may end with its start values `best_val = 1e300`, `best_ant = 0`. T15–T18 say what the decoder
does then, for costs that never decrease a running value (`Infl`: non-negative, possibly infinite costs — log-likelihoods
of probabilities; a probability DENSITY above 1 has a negative cost and is covered by T3 only). They hold in every linear
order with a monotone accumulation, in particular for `+` on `WithTop β` (`⊤` = impossible) and on `ℝ≥0∞`. -/

/-- `+` with non-negative costs never decreases a running value (ordered additive commutative monoid; in `WithTop β`,
`ℝ≥0∞`, … `⊤` is a non-negative cost). -/
theorem infl_add [AddCommMonoid α] [IsOrderedAddMonoid α] (t : Tables α) (hadd : t.add = (· + ·)) (N : Nat)
    (hobs : ∀ k l, k ≤ N → l < t.n k → 0 ≤ t.obs k l)
    (htr : ∀ k m l, k < N → m < t.n k → l < t.n (k+1) → 0 ≤ t.trans k m l) : Infl t N := by
  constructor
  · intro k m l a hk hm hl; rw [hadd]; exact le_add_of_nonneg_left (htr k m l hk hm hl)
  · intro k l a hk hl; rw [hadd]; exact le_add_of_nonneg_right (hobs k l hk hl)

/-- **T15 `decoded_optimal_feasible`** (T1–T3 with NO hypothesis on running costs). Costs that never decrease a value,
at least one candidate per epoch, and SOME candidate sequence `σ₀` whose cost is below the sentinel (with infinite costs
for impossible transitions / emissions: some sequence is possible and its cost is below `1e300`). Then the decoded
sequence is a candidate sequence, the `hmm_cost` recorded at EVERY epoch is the cost of the decoded prefix, the decoded
sequence costs no more than ANY candidate sequence — the impossible ones and those above the sentinel included — and its
cost is below the sentinel. Cells that the scan left at `1e300 + p` (T17) are never on the decoded path. -/
theorem decoded_optimal_feasible (t : Tables α) (hm : Mono t) (N : Nat) (hpos : ∀ k, k ≤ N → 0 < t.n k)
    (hi : Infl t N) (r : List (Nat × α)) (h : decode t (N+1) = .ok r)
    (σ₀ : Nat → Nat) (hσ₀ : ∀ k, k ≤ N → σ₀ k < t.n k) (hc₀ : cost t σ₀ N < t.big) :
    (∀ k, k ≤ N → seqOf r k < t.n k) ∧
    (∀ k, k ≤ N → costAt r k = some (cost t (seqOf r) k)) ∧
    (∀ σ : Nat → Nat, (∀ k, k ≤ N → σ k < t.n k) → cost t (seqOf r) N ≤ cost t σ N) ∧
    cost t (seqOf r) N < t.big := by
  have hv := (decoded_valid t N hpos r h).2
  obtain ⟨idk, h1, hmin, _, hseq, hcost⟩ := decode_ok t N hpos r h
  obtain ⟨ha, hb, _⟩ := decoded_no_sentinel_hyp t hm N hpos hi idk h1 hmin
  have hbelow := ha ⟨σ₀, hσ₀, hc₀⟩
  obtain ⟨hpre, hopt⟩ := hb hbelow
  have e : ∀ k, k ≤ N → cost t (seqOf r) k = cost t (back t N idk) k :=
    fun k hk => cost_congr t _ _ k (fun j hj => hseq j (by omega))
  refine ⟨hv, fun k hk => ?_, fun σ hσ => ?_, ?_⟩
  · rw [hcost k hk, hpre k hk, e k hk]
  · rw [e N (Nat.le_refl _)]; exact hopt σ hσ
  · rw [e N (Nat.le_refl _), ← hpre N (Nat.le_refl _), back_self]; exact hbelow

/-- **T16 `decoded_infeasible`** (what is returned when NO candidate sequence is possible). Costs that never decrease a
value; every candidate sequence costs at least the sentinel (e.g. every one goes through an impossible transition: cost
`+inf`). The call still succeeds (T0) and assigns every epoch one of its candidates (T1) — every sequence being as bad
as any other, the assigned one is trivially optimal — but the `hmm_cost` recorded at the last epoch is only known to be
at least the sentinel: the code records `1e300 + p` (T17), NOT `+inf`, for a sequence that is impossible. A user tells
"no possible sequence" from `hmm_cost[-1] >= 1e300`. -/
theorem decoded_infeasible (t : Tables α) (hm : Mono t) (N : Nat) (hpos : ∀ k, k ≤ N → 0 < t.n k)
    (hi : Infl t N) (r : List (Nat × α)) (h : decode t (N+1) = .ok r)
    (hall : ∀ σ : Nat → Nat, (∀ k, k ≤ N → σ k < t.n k) → t.big ≤ cost t σ N) :
    (∀ k, k ≤ N → seqOf r k < t.n k) ∧ ∃ v, costAt r N = some v ∧ t.big ≤ v := by
  have hv := (decoded_valid t N hpos r h).2
  obtain ⟨idk, h1, hmin, _, _, hcost⟩ := decode_ok t N hpos r h
  obtain ⟨_, _, hc⟩ := decoded_no_sentinel_hyp t hm N hpos hi idk h1 hmin
  refine ⟨hv, _, hcost N (Nat.le_refl _), ?_⟩
  rw [back_self]
  exact hc hall

/-- **T17 `sentinel_cell`** (the `1e300` start value reached). A candidate `l` of epoch `k+1` none of whose predecessors
offers a value below the sentinel (`q + TAB_VAL[k][m] < 1e300` is false for every `m`: impossible transitions, or
predecessors that are themselves such cells): `TAB_MRK[k+1][l] = 0`, the initial `best_ant`, and
`TAB_VAL[k+1][l] = 1e300 + p`. No hypothesis on the tables. -/
theorem sentinel_cell (t : Tables α) (k l : Nat)
    (h : ∀ m, m < t.n k → ¬ t.add (t.trans k m l) (val t k m) < t.big) :
    mrk t k l = 0 ∧ val t (k+1) l = t.add t.big (t.obs (k+1) l) :=
  TV.Viterbi.sentinel_cell t k l h

/-- T15 for `+` and non-negative costs over any ordered additive commutative monoid (ℕ, ℚ≥0, `WithTop ℚ`, `ℝ≥0∞`, …). -/
theorem decoded_optimal_feasible_add [AddCommMonoid α] [IsOrderedAddMonoid α] (t : Tables α) (hadd : t.add = (· + ·))
    (N : Nat) (hpos : ∀ k, k ≤ N → 0 < t.n k)
    (hobs : ∀ k l, k ≤ N → l < t.n k → 0 ≤ t.obs k l)
    (htr : ∀ k m l, k < N → m < t.n k → l < t.n (k+1) → 0 ≤ t.trans k m l)
    (r : List (Nat × α)) (h : decode t (N+1) = .ok r)
    (σ₀ : Nat → Nat) (hσ₀ : ∀ k, k ≤ N → σ₀ k < t.n k) (hc₀ : cost t σ₀ N < t.big) :
    (∀ k, k ≤ N → seqOf r k < t.n k) ∧
    (∀ k, k ≤ N → costAt r k = some (cost t (seqOf r) k)) ∧
    (∀ σ : Nat → Nat, (∀ k, k ≤ N → σ k < t.n k) → cost t (seqOf r) N ≤ cost t σ N) ∧
    cost t (seqOf r) N < t.big :=
  decoded_optimal_feasible t (mono_add t hadd) N hpos (infl_add t hadd N hobs htr) r h σ₀ hσ₀ hc₀

/-- **T18 `impossible_avoided`** (zero-probability transitions / emissions supplied as `-inf` logarithms: `⊤` in
`WithTop β`). Non-negative costs, `⊤` allowed anywhere; if some candidate sequence has a cost below the sentinel then
the decoded sequence goes through NO impossible emission and NO impossible transition, and (T15) it is the cheapest of
the possible sequences. -/
theorem impossible_avoided {β : Type} [AddCommMonoid β] [LinearOrder β] [IsOrderedAddMonoid β]
    (t : Tables (WithTop β)) (hadd : t.add = (· + ·)) (N : Nat) (hpos : ∀ k, k ≤ N → 0 < t.n k)
    (hobs : ∀ k l, k ≤ N → l < t.n k → 0 ≤ t.obs k l)
    (htr : ∀ k m l, k < N → m < t.n k → l < t.n (k+1) → 0 ≤ t.trans k m l)
    (r : List (Nat × WithTop β)) (h : decode t (N+1) = .ok r)
    (σ₀ : Nat → Nat) (hσ₀ : ∀ k, k ≤ N → σ₀ k < t.n k) (hc₀ : cost t σ₀ N < t.big) :
    (∀ k, k ≤ N → t.obs k (seqOf r k) ≠ ⊤) ∧ (∀ k, k < N → t.trans k (seqOf r k) (seqOf r (k+1)) ≠ ⊤) ∧
    (∀ σ : Nat → Nat, (∀ k, k ≤ N → σ k < t.n k) → cost t (seqOf r) N ≤ cost t σ N) := by
  obtain ⟨_, _, hopt, hlt⟩ := decoded_optimal_feasible_add t hadd N hpos hobs htr r h σ₀ hσ₀ hc₀
  obtain ⟨h1, h2⟩ := cost_ne_top t hadd (seqOf r) N (ne_top_of_lt hlt)
  exact ⟨h1, h2, hopt⟩

/-- **T19 `argmin_first_nan`** (`numpy.argmin` on NaN; any type with `<` and `==`, e.g. IEEE doubles). When the last
column `TAB_VAL[N]` holds a NaN — a NaN returned by `P` / `Q`, `inf - inf` — `numpy.argmin` returns the index of the
FIRST NaN, whatever the other entries are: the state inferred at the last epoch is that candidate (and `hmm_cost` there is
NaN). In the forward scan a NaN is never taken (`nan < best_val` is false). In a linear order nothing is a NaN and
`argmin?` is the first minimum (`TV.Viterbi.argmin?_spec`), which is what T0–T18 use. -/
theorem argmin_first_nan {β : Type} [LT β] [DecidableLT β] [BEq β] (xs : List β) (j : Nat) (x : β)
    (h : xs[j]? = some x) (hx : isNaN x = true)
    (hb : ∀ j' y, j' < j → xs[j']? = some y → isNaN y = false) : argmin? xs = some j :=
  argmin?_first_nan xs j x h hx hb

/-! ## The call as a whole: what `estimate` reads from and writes to the track (histories of calls)

`TV.Hmm.estimate` (`Model/Hmm.lean`) is `HMM.estimate` with its front end: the flag of the object, the
compilation of `STATES` and `OBS` from the track as it is when the call is made, the cost tables, the decoder
above, and the writing of the two result features. -/
section calls
open TV.Hmm
variable {β : Type}

/-- **T5 `estimate_spec`.** One call on a track of `N+1` epochs (well-formed feature table, the observation
features readable, at least one candidate per epoch) — whatever the track carried before, in particular
`hmm_inference` / `hmm_cost` of an earlier decoding or of the user: no exception; the object's flag becomes
`self.log or log`; afterwards `hmm_inference[k]` is the STATE object `S(track, k)[i_k]` and `hmm_cost[k]` the
recorded cost, where `(i_k, cost_k)` is what the decoder returns on the cost tables of THIS call; every other
feature is unchanged. So T1–T4 hold for what is read from the track after every call of a history. -/
theorem estimate_spec [LinearOrder β] [Add β] [Neg β] (nm : Num β) (h : Obj β) (tr : Trk β) (obs : List String)
    (log : Bool) (mode N : Nat) (hwf : tr.WF) (hsize : tr.size = N + 1) (OBS : List (List (ObsItem β)))
    (hobs : (List.range tr.size).mapM (fun k => getObsK nm tr obs k mode) = .ok OBS)
    (hS : ∀ k, k ≤ N → h.S tr k ≠ []) :
    ∃ r tr', decode (tablesOf nm { h with log := h.log || log } tr ((List.range tr.size).map (h.S tr)) OBS) (N+1) = .ok r ∧
      estimate nm h tr obs log mode = ({ h with log := h.log || log }, tr', none) ∧
      tr'.WF ∧ tr'.size = tr.size ∧ (∀ n, tr.has n = true → tr'.has n = true) ∧
      (∀ k, k ≤ N → tr'.get? "hmm_inference" k = some (.st ((h.S tr k).getD (seqOf r k) 0)) ∧
        ∃ v, costAt r k = some v ∧ tr'.get? "hmm_cost" k = some (.num v)) ∧
      (∀ n j, n ≠ "hmm_inference" → n ≠ "hmm_cost" → tr'.get? n j = tr.get? n j) :=
  estimate_ok nm h tr obs log mode N hwf hsize OBS hobs hS

/-- **T6 `estimate_optimal`** (end to end, `+` of an ordered additive commutative group). After the call the states
read from `hmm_inference` are candidates of their epochs, they form a sequence of minimal cost among ALL candidate
sequences for the cost tables of this call, and `hmm_cost` at the last epoch is that minimal cost. -/
theorem estimate_optimal [AddCommGroup β] [LinearOrder β] [IsOrderedAddMonoid β] (nm : Num β) (h : Obj β)
    (tr : Trk β) (obs : List String) (log : Bool) (mode N : Nat) (hwf : tr.WF) (hsize : tr.size = N + 1)
    (OBS : List (List (ObsItem β)))
    (hobs : (List.range tr.size).mapM (fun k => getObsK nm tr obs k mode) = .ok OBS)
    (hS : ∀ k, k ≤ N → h.S tr k ≠ [])
    (hbig : PathsBelow (tablesOf nm { h with log := h.log || log } tr ((List.range tr.size).map (h.S tr)) OBS) N) :
    ∃ (i : Nat → Nat) (tr' : Trk β),
      estimate nm h tr obs log mode = ({ h with log := h.log || log }, tr', none) ∧
      (∀ k, k ≤ N → i k < (h.S tr k).length ∧ tr'.get? "hmm_inference" k = some (.st ((h.S tr k).getD (i k) 0))) ∧
      tr'.get? "hmm_cost" N = some (.num
        (cost (tablesOf nm { h with log := h.log || log } tr ((List.range tr.size).map (h.S tr)) OBS) i N)) ∧
      ∀ σ : Nat → Nat, (∀ k, k ≤ N → σ k < (h.S tr k).length) →
        cost (tablesOf nm { h with log := h.log || log } tr ((List.range tr.size).map (h.S tr)) OBS) i N
          ≤ cost (tablesOf nm { h with log := h.log || log } tr ((List.range tr.size).map (h.S tr)) OBS) σ N := by
  obtain ⟨r, tr', hd, he, _, _, _, hres, _⟩ := estimate_ok nm h tr obs log mode N hwf hsize OBS hobs hS
  generalize ht : tablesOf nm { h with log := h.log || log } tr ((List.range tr.size).map (h.S tr)) OBS = t at *
  have hn : ∀ k, k ≤ N → t.n k = (h.S tr k).length := by
    intro k hk
    subst ht
    show (((List.range tr.size).map (h.S tr)).getD k []).length = _
    rw [states_getD _ _ _ (by omega)]
  have hpos : ∀ k, k ≤ N → 0 < t.n k := by
    intro k hk
    rw [hn k hk]
    exact List.length_pos_iff.mpr (hS k hk)
  have hadd : t.add = (· + ·) := by subst ht; rfl
  have hv := (decoded_valid t N hpos r hd).2
  refine ⟨seqOf r, tr', he, fun k hk => ⟨by rw [← hn k hk]; exact hv k hk, (hres k hk).1⟩, ?_, ?_⟩
  · obtain ⟨v, hv1, hv2⟩ := (hres N (Nat.le_refl _)).2
    have hc := (decoded_cost t N hpos hbig r hd).1 N (Nat.le_refl _)
    rw [hv1] at hc
    injection hc with hc
    rw [hv2, hc]
  · intro σ hσ
    exact (decoded_optimal_add t hadd N hpos hbig r hd σ (fun k hk => by rw [hn k hk]; exact hσ k hk)).1

/-- **T6b `estimate_optimal_feasible`** (end to end WITHOUT the hypothesis on running costs; `+` of an ordered additive
commutative monoid with a negation — e.g. the extended reals, where the logarithm `⊥` of a zero probability has the cost
`⊤`). The cost tables of this call are non-negative (`⊤` = impossible allowed) and some candidate sequence costs less
than the sentinel. After the call the states read from `hmm_inference` are candidates of their epochs, `hmm_cost` holds at
EVERY epoch the cost of the decoded prefix, and the decoded sequence costs no more than ANY candidate sequence. -/
theorem estimate_optimal_feasible [AddCommMonoid β] [Neg β] [LinearOrder β] [IsOrderedAddMonoid β] (nm : Num β) (h : Obj β)
    (tr : Trk β) (obs : List String) (log : Bool) (mode N : Nat) (hwf : tr.WF) (hsize : tr.size = N + 1)
    (OBS : List (List (ObsItem β)))
    (hobs : (List.range tr.size).mapM (fun k => getObsK nm tr obs k mode) = .ok OBS)
    (hS : ∀ k, k ≤ N → h.S tr k ≠ [])
    (hp : ∀ k l, 0 ≤ (tablesOf nm { h with log := h.log || log } tr ((List.range tr.size).map (h.S tr)) OBS).obs k l)
    (hq : ∀ k m l, 0 ≤ (tablesOf nm { h with log := h.log || log } tr ((List.range tr.size).map (h.S tr)) OBS).trans k m l)
    (σ₀ : Nat → Nat) (hσ₀ : ∀ k, k ≤ N → σ₀ k < (h.S tr k).length)
    (hc₀ : cost (tablesOf nm { h with log := h.log || log } tr ((List.range tr.size).map (h.S tr)) OBS) σ₀ N < nm.big) :
    ∃ (i : Nat → Nat) (tr' : Trk β),
      estimate nm h tr obs log mode = ({ h with log := h.log || log }, tr', none) ∧
      (∀ k, k ≤ N → i k < (h.S tr k).length ∧ tr'.get? "hmm_inference" k = some (.st ((h.S tr k).getD (i k) 0))) ∧
      (∀ k, k ≤ N → tr'.get? "hmm_cost" k = some (.num
        (cost (tablesOf nm { h with log := h.log || log } tr ((List.range tr.size).map (h.S tr)) OBS) i k))) ∧
      ∀ σ : Nat → Nat, (∀ k, k ≤ N → σ k < (h.S tr k).length) →
        cost (tablesOf nm { h with log := h.log || log } tr ((List.range tr.size).map (h.S tr)) OBS) i N
          ≤ cost (tablesOf nm { h with log := h.log || log } tr ((List.range tr.size).map (h.S tr)) OBS) σ N := by
  obtain ⟨r, tr', hd, he, _, _, _, hres, _⟩ := estimate_ok nm h tr obs log mode N hwf hsize OBS hobs hS
  have hb : (tablesOf nm { h with log := h.log || log } tr ((List.range tr.size).map (h.S tr)) OBS).big = nm.big := rfl
  rw [← hb] at hc₀
  generalize ht : tablesOf nm { h with log := h.log || log } tr ((List.range tr.size).map (h.S tr)) OBS = t at *
  have hn : ∀ k, k ≤ N → t.n k = (h.S tr k).length := by
    intro k hk
    subst ht
    show (((List.range tr.size).map (h.S tr)).getD k []).length = _
    rw [states_getD _ _ _ (by omega)]
  have hpos : ∀ k, k ≤ N → 0 < t.n k := by
    intro k hk
    rw [hn k hk]
    exact List.length_pos_iff.mpr (hS k hk)
  have hadd : t.add = (· + ·) := by subst ht; rfl
  obtain ⟨hv, hpre, hopt, _⟩ := decoded_optimal_feasible_add t hadd N hpos (fun k l _ _ => hp k l)
    (fun k m l _ _ _ => hq k m l) r hd σ₀ (fun k hk => by rw [hn k hk]; exact hσ₀ k hk) hc₀
  refine ⟨seqOf r, tr', he, fun k hk => ⟨by rw [← hn k hk]; exact hv k hk, (hres k hk).1⟩, fun k hk => ?_, ?_⟩
  · obtain ⟨v, hv1, hv2⟩ := (hres k hk).2
    have hc := hpre k hk
    rw [hv1] at hc
    injection hc with hc
    rw [hv2, hc]
  · intro σ hσ
    exact hopt σ (fun k hk => by rw [hn k hk]; exact hσ k hk)

/-- **T7 `estimate_twice`** (histories). Two calls one after the other on the same track — other object, other
model, other observation features, other flag, other mode: after the second call the two result features hold the
decoding of the SECOND call (its tables are compiled from the track as the first call left it, so observations
edited in between, or `hmm_inference` of the first call used as an observation, are what the second call reads);
nothing of the first result is left in them. -/
theorem estimate_twice [LinearOrder β] [Add β] [Neg β] (nm : Num β) (h1 h2 : Obj β) (tr : Trk β)
    (obs1 obs2 : List String) (log1 log2 : Bool) (mode1 mode2 N : Nat) (hwf : tr.WF) (hsize : tr.size = N + 1)
    (OBS1 : List (List (ObsItem β)))
    (hobs1 : (List.range tr.size).mapM (fun k => getObsK nm tr obs1 k mode1) = .ok OBS1)
    (hS1 : ∀ k, k ≤ N → h1.S tr k ≠ []) :
    ∃ tr1, estimate nm h1 tr obs1 log1 mode1 = ({ h1 with log := h1.log || log1 }, tr1, none) ∧
      tr1.has "hmm_inference" = true ∧ tr1.has "hmm_cost" = true ∧
      ∀ (OBS2 : List (List (ObsItem β))),
        (List.range tr1.size).mapM (fun k => getObsK nm tr1 obs2 k mode2) = .ok OBS2 →
        (∀ k, k ≤ N → h2.S tr1 k ≠ []) →
        ∃ r2 tr2,
          decode (tablesOf nm { h2 with log := h2.log || log2 } tr1 ((List.range tr1.size).map (h2.S tr1)) OBS2) (N+1) = .ok r2 ∧
          estimate nm h2 tr1 obs2 log2 mode2 = ({ h2 with log := h2.log || log2 }, tr2, none) ∧
          ∀ k, k ≤ N → tr2.get? "hmm_inference" k = some (.st ((h2.S tr1 k).getD (seqOf r2 k) 0)) ∧
            ∃ v, costAt r2 k = some v ∧ tr2.get? "hmm_cost" k = some (.num v) := by
  obtain ⟨r, tr1, _, he, w1, s1, _, hres, _⟩ := estimate_ok nm h1 tr obs1 log1 mode1 N hwf hsize OBS1 hobs1 hS1
  have hhas : ∀ name, (tr1.get? name 0).isSome = true → tr1.has name = true := by
    intro name hg
    rw [has_iff_col?]
    unfold Trk.get? at hg
    cases hc : tr1.col? name with
    | none => simp [hc] at hg
    | some c => rfl
  refine ⟨tr1, he, hhas _ (by rw [(hres 0 (Nat.zero_le _)).1]; rfl), ?_, ?_⟩
  · obtain ⟨v, _, hv⟩ := (hres 0 (Nat.zero_le _)).2
    exact hhas _ (by rw [hv]; rfl)
  · intro OBS2 hobs2 hS2
    obtain ⟨r2, tr2, hd2, he2, _, _, _, hres2, _⟩ :=
      estimate_ok nm h2 tr1 obs2 log2 mode2 N w1 (by omega) OBS2 hobs2 hS2
    exact ⟨r2, tr2, hd2, he2, hres2⟩

/-- **T8 `estimate_positions`** (modes 3, 4, 5: positions written from states). Hypotheses of T5 and one position per
epoch. The call writes NO coordinate: the coordinates of the track's own position objects (`xyz`) are what they were
(those of the state objects, `nm.stXYZ`, are a constant of the model: a state — also one that is the position object of
another epoch of the same track, or shared by several epochs — is never modified). In the modes 3, 4, 5 the position
of EVERY epoch is rebound to the state object recorded in `hmm_inference` for that epoch (`r` is the decoding of T5),
so its coordinates are that state's; in every other mode every position is the object it was. -/
theorem estimate_positions [LinearOrder β] [Add β] [Neg β] (nm : Num β) (h : Obj β) (tr : Trk β) (obs : List String)
    (log : Bool) (mode N : Nat) (hwf : tr.WF) (hsize : tr.size = N + 1) (hplen : tr.pos.length = tr.size)
    (OBS : List (List (ObsItem β)))
    (hobs : (List.range tr.size).mapM (fun k => getObsK nm tr obs k mode) = .ok OBS)
    (hS : ∀ k, k ≤ N → h.S tr k ≠ []) :
    ∃ r tr', decode (tablesOf nm { h with log := h.log || log } tr ((List.range tr.size).map (h.S tr)) OBS) (N+1) = .ok r ∧
      estimate nm h tr obs log mode = ({ h with log := h.log || log }, tr', none) ∧
      tr'.xyz = tr.xyz ∧
      (PosMode mode → ∀ k, k ≤ N → tr'.pos[k]? = some (some ((h.S tr k).getD (seqOf r k) 0)) ∧
        tr'.posXYZ nm k = some (nm.stXYZ ((h.S tr k).getD (seqOf r k) 0))) ∧
      (¬ PosMode mode → tr'.pos = tr.pos ∧ ∀ k, tr'.posXYZ nm k = tr.posXYZ nm k) := by
  obtain ⟨r, tr', hd, he, hx, _, hp, hn⟩ := estimate_pos nm h tr obs log mode N hwf hsize hplen OBS hobs hS
  refine ⟨r, tr', hd, he, hx, fun hm k hk => ?_, fun hm => ?_⟩
  · have := hp hm k hk
    exact ⟨this, by simp [Trk.posXYZ, this]⟩
  · have := hn hm
    exact ⟨this, fun k => by simp [Trk.posXYZ, this, hx]⟩

/-- **T9 `positions_as_observations`** (the names `x`, `y`, `z`; `MarkovRegularization` decodes with
`obs=["x","y","z"]` in mode 4). Reading `x` / `y` / `z` at epoch `k` yields the coordinates of the object the position
of epoch `k` is at that moment. Hence after a decoding in mode 3, 4, 5 (T8) a further call — or the user — reads the
coordinates of the decoded STATE of every epoch; after a decoding in any other mode, what was read before. -/
theorem positions_as_observations (nm : Num β) (tr : Trk β) (k : Nat) (p : β × β × β)
    (hp : tr.posXYZ nm k = some p) :
    tr.getObs nm "x" k = .ok (.num p.1) ∧ tr.getObs nm "y" k = .ok (.num p.2.1) ∧
      tr.getObs nm "z" k = .ok (.num p.2.2) := by
  refine ⟨?_, ?_, ?_⟩ <;> simp [Trk.getObs, hp]

/-- T8 + T9: what `x`, `y`, `z` read after a decoding in mode 3, 4, 5 -/
theorem estimate_then_xyz [LinearOrder β] [Add β] [Neg β] (nm : Num β) (h : Obj β) (tr : Trk β) (obs : List String)
    (log : Bool) (mode N : Nat) (hwf : tr.WF) (hsize : tr.size = N + 1) (hplen : tr.pos.length = tr.size)
    (OBS : List (List (ObsItem β)))
    (hobs : (List.range tr.size).mapM (fun k => getObsK nm tr obs k mode) = .ok OBS)
    (hS : ∀ k, k ≤ N → h.S tr k ≠ []) (hm : PosMode mode) :
    ∃ r tr', decode (tablesOf nm { h with log := h.log || log } tr ((List.range tr.size).map (h.S tr)) OBS) (N+1) = .ok r ∧
      estimate nm h tr obs log mode = ({ h with log := h.log || log }, tr', none) ∧
      ∀ k, k ≤ N →
        tr'.getObs nm "x" k = .ok (.num (nm.stXYZ ((h.S tr k).getD (seqOf r k) 0)).1) ∧
        tr'.getObs nm "y" k = .ok (.num (nm.stXYZ ((h.S tr k).getD (seqOf r k) 0)).2.1) ∧
        tr'.getObs nm "z" k = .ok (.num (nm.stXYZ ((h.S tr k).getD (seqOf r k) 0)).2.2) := by
  obtain ⟨r, tr', hd, he, _, hp, _⟩ := estimate_positions nm h tr obs log mode N hwf hsize hplen OBS hobs hS
  exact ⟨r, tr', hd, he, fun k hk => positions_as_observations nm tr' k _ (hp hm k hk).2⟩

/-- **T10 `any_sequence_of_candidates`** (what `S` returns). `estimate` uses `S(track, k)` through `len` and `[i]` only.
When every epoch's return value has a length — list, tuple, numpy array, `range`, `deque`, a user class — the call is
exactly `estimate` on the items in index order (`ObjS.toObj`): same flag, same track, same exception if any. So T5–T9
hold with "candidates of epoch `k`" = the items of whatever `S` returned. (`NoDomainError`: no value that is converted
lies outside the domain of `math.log` — true when the flag is set and for likelihoods `v` with `v + 1e-300 > 0`; T12
is the other case.) -/
theorem any_sequence_of_candidates [LinearOrder β] [Add β] [Neg β] (nm : Num β) (h : ObjS β) (tr : Trk β)
    (obs : List String) (log : Bool) (mode : Nat) (hs : ∀ k, k < tr.size → (h.S tr k).isSized = true)
    (hd : NoDomainError nm h tr obs log mode) :
    (estimateS nm h tr obs log mode).1.log = (estimate nm h.toObj tr obs log mode).1.log ∧
    (estimateS nm h tr obs log mode).2 = (estimate nm h.toObj tr obs log mode).2 := by
  rw [estimateS_sized nm h tr obs log mode hs hd]
  exact ⟨rfl, rfl⟩

/-- the flag is set (constructor, `setLog`, or the argument of this call): nothing is converted, `math.log` is not called -/
theorem no_domain_error_of_log [Add β] (nm : Num β) (h : ObjS β) (tr : Trk β) (obs : List String) (log : Bool) (mode : Nat)
    (hl : (h.log || log) = true) : NoDomainError nm h tr obs log mode := by
  intro OBS _
  simp only [domainError, ObjS.toObj, hl]
  rfl

/-- **T12 `negative_likelihood_raises`.** The flag is not set and, among the values `P` / `Q` return for the candidates of
the track (every candidate of every epoch, every pair of candidates of consecutive epochs), one is outside the domain of
`math.log` once the guard is added (`v + 1e-300 ≤ 0`: a negative "likelihood"): `ValueError` — raised in the first
column or the forward pass, so NOTHING of the track is written; the flag is or-ed (i.e. stays unset). -/
theorem negative_likelihood_raises [LinearOrder β] [Add β] [Neg β] (nm : Num β) (h : ObjS β) (tr : Trk β)
    (obs : List String) (log : Bool) (mode : Nat) (hs : ∀ k, k < tr.size → (h.S tr k).isSized = true)
    (hne : tr.size ≠ 0) (OBS : List (List (ObsItem β)))
    (hobs : (List.range tr.size).mapM (fun k => getObsK nm tr obs k mode) = .ok OBS)
    (hd : domainError nm { h.toObj with log := h.log || log } tr ((List.range tr.size).map (h.toObj.S tr)) OBS = true) :
    estimateS nm h tr obs log mode = ({ h with log := h.log || log }, tr, some .value) :=
  estimateS_domain nm h tr obs log mode hs hne OBS hobs hd

/-- **T11 `candidates_without_length`.** When `S` returns at some epoch something without a length (a generator, `None`,
a bare state object): `TypeError`; the flag has been or-ed into the object; NOTHING of the track is written (no feature
created, no position rebound) — whatever the other epochs, the observations and the mode are. -/
theorem candidates_without_length [LinearOrder β] [Add β] [Neg β] (nm : Num β) (h : ObjS β) (tr : Trk β)
    (obs : List String) (log : Bool) (mode : Nat) (k : Nat) (hk : k < tr.size) (hu : (h.S tr k).isSized = false) :
    estimateS nm h tr obs log mode = ({ h with log := h.log || log }, tr, some .type) :=
  estimateS_unsized nm h tr obs log mode k hk hu

/-- **T13 `estimate_reads_call_time_track`** (user functions that look at the track). `S(track, k)`, `Q(s1, s2, k, track)`,
`P(s, y, k, track)` all receive the track and may read it (a window of positions, a heading towards the next fix, a feature
of an earlier decoding). `estimate` depends on them ONLY through their values on the track it is handed, as that track is
when the call is made: two triples of functions that agree there — and differ arbitrarily on every other track, in
particular on the half-written tracks the call itself goes through (result features created, `hmm_inference` /
`hmm_cost` of later epochs already written, positions of later epochs already rebound in the modes 3, 4, 5) — yield the
same track, the same exception and the same flag. So the model the statement speaks about ("candidate lists and
likelihoods given by the user") is the one the functions define on the call-time track: T1–T12 are stated for `h.S tr`,
`h.Q · · · tr`, `h.P · · · tr` with that `tr`, and no function is evaluated a second time on a modified track. -/
theorem estimate_reads_call_time_track [Add β] [Neg β] [LT β] [DecidableLT β] [BEq β] (nm : Num β) (h1 h2 : Obj β) (tr : Trk β)
    (obs : List String) (log : Bool) (mode : Nat)
    (hS : ∀ k, h1.S tr k = h2.S tr k) (hQ : ∀ a b k, h1.Q a b k tr = h2.Q a b k tr)
    (hP : ∀ s y k, h1.P s y k tr = h2.P s y k tr) (hl : h1.log = h2.log) :
    (estimate nm h1 tr obs log mode).2 = (estimate nm h2 tr obs log mode).2 ∧
    (estimate nm h1 tr obs log mode).1.log = (estimate nm h2 tr obs log mode).1.log :=
  estimate_congr nm h1 h2 tr obs log mode ⟨hS, hQ, hP, hl⟩

/-- T13, the form an oracle uses: decoding with track-reading user functions IS decoding with the candidate lists and
likelihood tables frozen when the call is made (`Obj.frozen`: functions that ignore the track they are handed). -/
theorem estimate_is_frozen_model [Add β] [Neg β] [LT β] [DecidableLT β] [BEq β] (nm : Num β) (h : Obj β) (tr : Trk β)
    (obs : List String) (log : Bool) (mode : Nat) :
    (estimate nm h tr obs log mode).2 = (estimate nm (h.frozen tr) tr obs log mode).2 ∧
    (estimate nm h tr obs log mode).1.log = (estimate nm (h.frozen tr) tr obs log mode).1.log :=
  estimate_congr nm h (h.frozen tr) tr obs log mode (agreeOn_frozen h tr)

/-- T13 for any return type of `S` and any numbers (`estimateS`: TypeError / ValueError of `math.log` included) -/
theorem estimateS_reads_call_time_track [Add β] [Neg β] [LT β] [DecidableLT β] [BEq β] (nm : Num β) (h1 h2 : ObjS β) (tr : Trk β)
    (obs : List String) (log : Bool) (mode : Nat)
    (hS : ∀ k, h1.S tr k = h2.S tr k) (hQ : ∀ a b k, h1.Q a b k tr = h2.Q a b k tr)
    (hP : ∀ s y k, h1.P s y k tr = h2.P s y k tr) (hl : h1.log = h2.log) :
    (estimateS nm h1 tr obs log mode).2 = (estimateS nm h2 tr obs log mode).2 ∧
    (estimateS nm h1 tr obs log mode).1.log = (estimateS nm h2 tr obs log mode).1.log :=
  estimateS_congr nm h1 h2 tr obs log mode ⟨hS, hQ, hP, hl⟩

/-- **T14 `user_exception_nothing_written`** (user functions that raise; `TV.Hmm.estimateX`). `estimate` catches nothing
and calls every user function before the backward step, the only place where the track is written. Whenever the call
ends with the exception of a user function, the track is exactly what it was — no feature created, no cell written, no
position rebound — and the flag has been or-ed into the object. -/
theorem user_exception_nothing_written [Add β] [Neg β] [LT β] [DecidableLT β] [BEq β] (nm : Num β) (h : ObjX β) (tr : Trk β)
    (obs : List String) (log : Bool) (mode : Nat) (hu : (estimateX nm h tr obs log mode).2.2 = some .user) :
    estimateX nm h tr obs log mode = (h.log || log, tr, some .user) :=
  estimateX_user_unchanged nm h tr obs log mode hu

/-- T14a: `S(track, k)` raising at some epoch — whatever the other epochs return (a list, a generator, …), whatever the
observation names are: that exception (every `S(track, k)` is called before the first `len`). -/
theorem user_exception_from_S [Add β] [Neg β] [LT β] [DecidableLT β] [BEq β] (nm : Num β) (h : ObjX β) (tr : Trk β)
    (obs : List String) (log : Bool) (mode : Nat) (k : Nat) (hk : k < tr.size) (hn : h.S tr k = none) :
    estimateX nm h tr obs log mode = (h.log || log, tr, some .user) :=
  estimateX_S_raises nm h tr obs log mode k hk hn

/-- T14b: every `S(track, k)` has a length, the observations compile, the track is not empty, and among the `Plog` /
`Qlog` calls in the order of the code (first column; then per epoch, per candidate, the transitions from every candidate
of the previous epoch and then the observation) the first one that fails fails with the user function's exception (not
with `math.log`'s ValueError): that exception, nothing written. -/
theorem user_exception_from_call [Add β] [Neg β] [LT β] [DecidableLT β] [BEq β] (nm : Num β) (h : ObjX β) (tr : Trk β)
    (obs : List String) (log : Bool) (mode : Nat)
    (hS : ∀ k, k < tr.size → ∃ l, h.S tr k = some (.sized l)) (hne : tr.size ≠ 0) (OBS : List (List (ObsItem β)))
    (hobs : (List.range tr.size).mapM (fun k => getObsK nm tr obs k mode) = .ok OBS)
    (hf : firstErr (callsOf nm (h.log || log) h tr
      ((List.range tr.size).map (fun k => ((h.toObjS nm.zero).S tr k).items)) OBS) = some .user) :
    estimateX nm h tr obs log mode = (h.log || log, tr, some .user) :=
  estimateX_call_raises nm h tr obs log mode hS hne OBS hobs hf

/-- T14c: no user function raises on the track of the call: the call is `estimateS` on the functions' values (T10–T12,
hence T5–T9). What the functions do on other tracks is irrelevant (T13). -/
theorem no_user_exception [Add β] [Neg β] [LT β] [DecidableLT β] [BEq β] (nm : Num β) (h : ObjX β) (tr : Trk β)
    (obs : List String) (log : Bool) (mode : Nat)
    (hS : ∀ k, k < tr.size → (h.S tr k).isSome) (hQ : ∀ a b k, (h.Q a b k tr).isSome)
    (hP : ∀ s y k, (h.P s y k tr).isSome) :
    estimateX nm h tr obs log mode =
      ((estimateS nm (h.toObjS nm.zero) tr obs log mode).1.log, (estimateS nm (h.toObjS nm.zero) tr obs log mode).2.1,
       (estimateS nm (h.toObjS nm.zero) tr obs log mode).2.2) :=
  estimateX_total nm h tr obs log mode hS hQ hP
end calls

/-! Non-vacuity: a 3-epoch model over ℕ with 2, 1 and 2 candidate states (they differ per epoch; no state
beyond the track, as in the driver), in which the cheapest state of epoch 0 is not on the optimal path. -/
section example_
private def exT : Tables Nat :=
  { n := fun k => if k = 0 then 2 else if k = 1 then 1 else if k = 2 then 2 else 0
    obs := fun k l => if k = 0 then (if l = 0 then 0 else 1) else if k = 2 then (if l = 0 then 2 else 0) else 0
    trans := fun k m l => if k = 0 then (if m = 0 then 5 else 1) else if l = 0 then 0 else 1
    add := (· + ·)
    big := 1000 }

example : decode exT 3 = .ok [(1, 1), (0, 2), (1, 3)] := by decide +kernel
example : ∀ k, k ≤ 2 → 0 < exT.n k := by
  intro k hk
  have : k = 0 ∨ k = 1 ∨ k = 2 := by omega
  rcases this with rfl | rfl | rfl <;> decide
example : Mono exT := mono_add exT rfl
example : PathsBelow exT 2 := by
  intro σ _ k hk
  have : k = 0 ∨ k = 1 := by omega
  rcases this with rfl | rfl
  · simp only [exT, cost]; split <;> split <;> simp
  · simp only [exT, cost]; repeat' split
    all_goals simp
set_option exponentiation.threshold 400 in
/-- the bound of T4' for the code's constants (`eps = 1e-300`, sentinel `1e300`) and a track of a million epochs:
`-log eps = 300 log 10 ≤ 2700` -/
example : (2 * (10 ^ 6 : ℕ) : ℝ) * (- Real.log (1 / 10 ^ 300)) < 10 ^ 300 := by
  have h10 : Real.log 10 ≤ 9 := by
    have := Real.log_le_sub_one_of_pos (show (0 : ℝ) < 10 by norm_num)
    linarith
  have e : Real.log (1 / 10 ^ 300) = -(300 * Real.log 10) := by
    rw [one_div, Real.log_inv, Real.log_pow]; push_cast; ring
  rw [e]
  have : (2 * (10 ^ 6 : ℕ) : ℝ) * (- -(300 * Real.log 10)) ≤ 2 * 10 ^ 6 * (300 * 9) := by
    push_cast
    nlinarith
  refine lt_of_le_of_lt this ?_
  norm_num
/-- the hypotheses of T4 are satisfiable: two epochs of two states, all likelihoods 1, no guard -/
example : PathsBelow (likTables (fun _ => 2) (fun _ _ => 1) (fun _ _ _ => 1) 0 1000 false) 1 := by
  intro σ _ k hk
  have : k = 0 := by omega
  subst this
  simp [likTables, costOf, cost]

/-- Non-vacuity of T15–T18: costs in `WithTop ℕ`, sentinel 1000. Epoch 0 has two candidates, epoch 1 two; every
transition into candidate 0 of epoch 1 is impossible (`⊤`), as is the one from candidate 0 to candidate 1: the only
possible sequence is (1, 1), of cost 1 + 2 + 0 = 3 — although candidate 0 of epoch 0 is the cheaper start. The cell
(1, 0) is a sentinel cell: value 1000 + 0, back-pointer 0. -/
private def exTop : Tables (WithTop Nat) :=
  { n := fun k => if k ≤ 1 then 2 else 0
    obs := fun k l => if k = 0 then (if l = 0 then 0 else 1) else 0
    trans := fun _ m l => if l = 0 then ⊤ else if m = 0 then ⊤ else 2
    add := (· + ·)
    big := 1000 }
example : decode exTop 2 = .ok [(1, 1), (1, 3)] := by decide +kernel
example : mrk exTop 0 0 = 0 ∧ val exTop 1 0 = 1000 := by decide +kernel
example : cost exTop (fun _ => 1) 1 < exTop.big := by decide +kernel
example : Infl exTop 1 := infl_add exTop rfl 1 (fun _ _ _ _ => bot_le) (fun _ _ _ _ _ _ => bot_le)
/-- no possible sequence at all (every transition impossible): the decoder answers the candidates 0, 0 and records
`1000`, not `⊤` (T16, T17) -/
private def exNone : Tables (WithTop Nat) := { exTop with trans := fun _ _ _ => ⊤ }
example : decode exNone 2 = .ok [(0, 0), (0, 1000)] := by decide +kernel
end example_

/-! Non-vacuity of T4c and of the theorems about calls: the separation hypothesis for the code's guard, and a
history of two calls on a track that already carries a feature called `hmm_inference` (evaluated by the kernel). -/
section example_calls
open TV.Hmm

set_option exponentiation.threshold 400 in
/-- the separation hypothesis of T4c holds for the code's guard `1e-300`, likelihoods in `[1e-10, 1]` and tracks of
up to 11 epochs -/
example : (1 / 10 ^ 300 : ℝ) * (1 + 1 / 10 ^ 300) ^ (2 * 10) < (1 / 10 ^ 10) ^ (2 * 10 + 1) := by norm_num

private def nmZ : Num Int := { logf := fun x => x, eps := 0, big := 1000, zero := 0, idx := fun i => i }
/-- a track of 2 epochs with an observation feature and a user feature called hmm_inference -/
private def tr0 : Trk Int :=
  { size := 2, cols := [("ya", [.num 0, .num 1]), ("hmm_inference", [.num 7, .num 7])], pos := [none, none] }
/-- the observed value as a number -/
private def yv : List (ObsItem Int) → Int
  | [.cell (.num v)] => v
  | _ => 0
/-- model A prefers state `y`, model B prefers state `1 - y` (logs are given: cost = -value); two candidates 0, 1 -/
private def hA : Obj Int :=
  { S := fun _ _ => [0, 1], Q := fun _ _ _ _ => 0, P := fun s y _ _ => if (s : Int) = yv y then 0 else -1, log := true }
private def hB : Obj Int :=
  { S := fun _ _ => [0, 1], Q := fun _ _ _ _ => 0, P := fun s y _ _ => if (s : Int) = yv y then -1 else 0, log := false }

example : tr0.WF := by intro c hc; simp [tr0] at hc; rcases hc with rfl | rfl <;> rfl
example : ((estimate nmZ hA tr0 ["ya"] false 0).2.1.get? "hmm_inference" 0,
           (estimate nmZ hA tr0 ["ya"] false 0).2.1.get? "hmm_inference" 1) = (some (.st 0), some (.st 1)) := by
  decide +kernel
/-- second decoding of the same track with another model, the flag given to `estimate`: the first result is replaced -/
example : let tr1 := (estimate nmZ hA tr0 ["ya"] false 0).2.1
          let r := estimate nmZ hB tr1 ["ya"] true 0
          (r.1.log, r.2.2, r.2.1.get? "hmm_inference" 0, r.2.1.get? "hmm_inference" 1, r.2.1.get? "hmm_cost" 1)
            = (true, none, some (.st 1), some (.st 0), some (.num 0)) := by
  decide +kernel

/-- states that are positions: state `s` is at `(10 s, 0, 0)`; a decoding in mode 5 rebinds the positions, `x` then
reads the decoded states' abscissae; the own coordinates of the track are untouched -/
private def nmP : Num Int := { nmZ with stXYZ := fun s => (10 * (s : Int), 0, 0) }
private def trP : Trk Int := { tr0 with xyz := [(3, 4, 5), (6, 7, 8)] }
example : let r := estimate nmP hA trP ["ya"] false 5
          (r.2.1.pos, r.2.1.xyz) = ([some 0, some 1], [(3, 4, 5), (6, 7, 8)]) ∧
          ((r.2.1.getObs nmP "x" 0).toOption, (r.2.1.getObs nmP "x" 1).toOption) = (some (.num 0), some (.num 10)) ∧
          ((trP.getObs nmP "x" 1).toOption, (trP.getObs nmP "z" 1).toOption) = (some (.num 6), some (.num 8)) := by
  decide +kernel
example : PosMode 5 ∧ ¬ PosMode 0 := by unfold PosMode; decide
/-- `S` returning a tuple at epoch 0 and a numpy array at epoch 1 is `S` returning their items; a generator at epoch 1
is a TypeError that leaves the track as it was -/
private def hS1 : ObjS Int := { S := fun _ _ => .sized [0, 1], Q := hA.Q, P := hA.P, log := true }
private def hS2 : ObjS Int := { S := fun _ k => if k = 1 then .unsized else .sized [0, 1], Q := hA.Q, P := hA.P, log := false }
example : let a := estimateS nmZ hS1 tr0 ["ya"] false 0
          let b := estimate nmZ hA tr0 ["ya"] false 0
          (a.2.1.cols, a.2.1.pos, a.2.2) = (b.2.1.cols, b.2.1.pos, b.2.2) ∧ a.2.1.get? "hmm_inference" 1 = some (.st 1) := by
  decide +kernel
/-- `math.log` defined on the positive numbers only; model A's `P` returns `-1` for the wrong state: declared as
likelihoods (flag unset) the call raises ValueError and writes nothing; with the flag given to the call it decodes -/
private def nmD : Num Int := { nmZ with logDom := fun x => decide (0 < x) }
private def hS3 : ObjS Int := { hS1 with log := false, Q := fun _ _ _ _ => 1 }
example : let a := estimateS nmD hS3 tr0 ["ya"] false 0
          (a.2.1.cols, a.2.1.pos, a.2.2, a.1.log) = (tr0.cols, tr0.pos, some .value, false) := by
  decide +kernel
example : let a := estimateS nmD hS3 tr0 ["ya"] true 0
          (a.2.2, a.1.log, a.2.1.get? "hmm_inference" 1) = (none, true, some (.st 1)) := by
  decide +kernel
example : let a := estimateS nmZ hS2 tr0 ["ya"] true 3
          (a.2.1.cols, a.2.1.pos, a.2.2, a.1.log) = (tr0.cols, tr0.pos, some .type, true) := by
  decide +kernel

/-- T13: an `S` that looks at the NEXT fix (candidates 0, 1 while the abscissa of epoch 1 is 6, otherwise 2, 3). Decoded in
mode 5 the position of epoch 1 is rebound to its state before epoch 0 is written, so `S` evaluated on the track after the
call proposes other candidates for epoch 0 — the decoded state is one of those of the call-time track. -/
private def hT : Obj Int :=
  { hA with S := fun tr k => if k = 0 then (match tr.posXYZ nmP 1 with
                                            | some p => if p.1 = 6 then [0, 1] else [2, 3]
                                            | none => [4]) else [0, 1] }
example : let r := estimate nmP hT trP ["ya"] false 5
          (r.2.1.get? "hmm_inference" 0, r.2.1.get? "hmm_inference" 1, hT.S trP 0, hT.S r.2.1 0, r.2.2)
            = (some (.st 0), some (.st 1), [0, 1], [2, 3], none) := by
  decide +kernel
/-- T14: `P` raises for state 1 at epoch 1 (reached in the forward pass): the exception leaves the call, the track is
untouched, the flag given to the call is in the object; with an `S` that raises at epoch 1 likewise; when the raising
argument is not a candidate the call decodes -/
private def hX (raiseS : Bool) (badState : Nat) : ObjX Int :=
  { S := fun _ k => if raiseS && k = 1 then none else some (.sized [0, 1])
    Q := fun a b k tr => some (hA.Q a b k tr)
    P := fun s y k tr => if k = 1 ∧ s = badState then none else some (hA.P s y k tr)
    log := false }
example : let r := estimateX nmZ (hX false 1) tr0 ["ya"] true 0
          (r.1, r.2.1.cols, r.2.1.pos, r.2.2) = (true, tr0.cols, tr0.pos, some .user) := by decide +kernel
example : let r := estimateX nmZ (hX true 7) tr0 ["ya"] true 3
          (r.1, r.2.1.cols, r.2.1.pos, r.2.2) = (true, tr0.cols, tr0.pos, some .user) := by decide +kernel
example : let r := estimateX nmZ (hX false 7) tr0 ["ya"] true 0
          (r.1, r.2.2, r.2.1.get? "hmm_inference" 1) = (true, none, some (.st 1)) := by decide +kernel
end example_calls
end TV.C09
