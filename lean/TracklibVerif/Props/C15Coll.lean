import TracklibVerif.Model.FilterColl
import TracklibVerif.Props.C15
/-! # C15 — `TrackCollection.smooth`: the loop over the tracks of a collection

`collectionSmooth` (Model/FilterColl.lean) is `for track in self: track.smooth(constraint)`. The theorems say that the front end adds
nothing to `Track.smooth` but the order of the calls and the in-place semantics: every track is smoothed by itself (`smooth`, about which
`smooth_is_mean`, `smooth_gaussian`, `smooth_short_track`, `smooth_too_short_fails` speak), the first failure stops the loop with the earlier
tracks smoothed and the later ones untouched. -/
set_option linter.unusedSectionVars false
namespace TV.C15
open TV.Filter

section coll
variable {α : Type} [Field α] [LinearOrder α] [IsStrictOrderedRing α]

/-- `Track.smooth` writes nothing to the module-level state -/
theorem smooth_globals (g g' : Globals) (t : Sigs α) (f : α → α) (support : α) (S : Nat) (r : Except Err (Sigs α))
    (h : smooth g t f support S = some (r, g')) : g' = g := by
  unfold smooth filterSeqCall at h
  cases hd : dimNames g .default with
  | none => rw [hd] at h; cases h
  | some names => rw [hd] at h; simp only [Option.some.injEq, Prod.mk.injEq] at h; exact h.2.symm

/-- **Every track smoothed by itself, in place, in order.** If `Track.smooth` succeeds on every track (`ts'` are the results), the call
returns nothing, every track of the collection has become its own smoothed track and the module-level state is what it was. -/
theorem collection_smooth_all (g : Globals) (f : α → α) (support : α) (S : Nat) (ts ts' : List (Sigs α))
    (h : List.Forall₂ (fun t t' => smooth g t f support S = some (.ok t', g)) ts ts') :
    collectionSmooth f support S g ts = some (ts', none, g) := by
  induction h with
  | nil => rfl
  | cons h1 _ ih =>
    unfold collectionSmooth
    rw [h1]
    simp only [ih, Option.map_none]

/-- **The first failure stops the loop.** Tracks before the failing one are smoothed (in place: they stay so), the call raises the
failing track's own exception, the tracks after it are not touched. -/
theorem collection_smooth_first_failure (g : Globals) (f : α → α) (support : α) (S : Nat) (pre pre' post : List (Sigs α))
    (t : Sigs α) (e : Err)
    (hpre : List.Forall₂ (fun t t' => smooth g t f support S = some (.ok t', g)) pre pre')
    (ht : smooth g t f support S = some (.error e, g)) :
    collectionSmooth f support S g (pre ++ t :: post) = some (pre' ++ t :: post, some (pre.length, e), g) := by
  induction hpre with
  | nil =>
    simp only [List.nil_append, List.length_nil]
    unfold collectionSmooth
    rw [ht]
  | cons h1 _ ih =>
    simp only [List.cons_append, List.length_cons]
    unfold collectionSmooth
    rw [h1]
    simp only [ih, Option.map_some]

/-- **T1 for `TrackCollection.smooth(width)`**: every track has at least one observation and x, y, z in the domain of the Gaussian window
`w` (boundaries copied): the call succeeds, and in every track each coordinate has become the signal of renormalised weighted means of its
former values, the features (other than the scratch feature `temp`) being untouched; module-level state unchanged. -/
theorem collection_smooth_is_mean (f : α → α) (support : α) (S : Nat) (w : List α) (hw : slidingWindow f support S = .ok w)
    (ts : List (Sigs α))
    (hall : ∀ t ∈ ts, trackSize t ≠ 0 ∧ ∀ d ∈ ["x", "y", "z"], ∃ v, getSig t d = some v ∧ InDomain v w false) :
    ∃ ts', collectionSmooth f support S Globals.initial ts = some (ts', none, Globals.initial) ∧
      List.Forall₂ (fun t t' =>
        (∀ d ∈ ["x", "y", "z"], ∃ v, getSig t d = some v ∧ getSig t' d = some (meanSignal v w false)) ∧
        (∀ nm, nm ∉ ["x", "y", "z"] → nm ≠ "temp" → getSig t' nm = getSig t nm)) ts ts' := by
  induction ts with
  | nil => exact ⟨[], rfl, List.Forall₂.nil⟩
  | cons t ts ih =>
    obtain ⟨t', h1, h2, h3⟩ := smooth_is_mean t f support S w hw (hall t (List.mem_cons_self ..)).1 (hall t (List.mem_cons_self ..)).2
    obtain ⟨ts', h4, h5⟩ := ih (fun u hu => hall u (List.mem_cons_of_mem _ hu))
    refine ⟨t' :: ts', ?_, List.Forall₂.cons ⟨h2, h3⟩ h5⟩
    unfold collectionSmooth
    rw [h1]
    simp only [h4, Option.map_none]

/-- **`TrackCollection.smooth()` with the default `constraint = 1e3`** (or any width whose half window `D = int(3·width)` exceeds the size of
the first track): the first track raises `IndexError` in the boundary copy of its first coordinate; no track is smoothed. -/
theorem collection_smooth_too_short_fails (f : α → α) (support : α) (S : Nat) (w : List α)
    (hw : slidingWindow f support S = .ok w) (hodd : w.length % 2 = 1) (t : Sigs α) (ts : List (Sigs α))
    (v : List (Option α)) (hv : getSig t "x" = some v) (hne : v.length ≠ 0)
    (hden : ∀ i, i < v.length → wtot (window v w (w.length / 2) i) ≠ 0) (hlen : v.length < w.length / 2) :
    collectionSmooth f support S Globals.initial (t :: ts) = some (t :: ts, some (0, .index), Globals.initial) := by
  unfold collectionSmooth
  rw [smooth_too_short_fails t f support S w hw hodd v hv hne hden hlen]

/-- an empty collection: nothing happens -/
example (f : α → α) (support : α) (S : Nat) : collectionSmooth f support S Globals.initial ([] : List (Sigs α)) = some ([], none, Globals.initial) := rfl
end coll
end TV.C15
