import TracklibVerif.Lemmas.Seq
import TracklibVerif.Lemmas.SeqSearch
/-! # C04 — sequence operations on a track select exactly the designated observations

Property theorems only (helper lemmas: `Lemmas/Seq.lean`, `Lemmas/SeqSearch.lean`). The model is
`Model/Seq.lean`; observations are opaque records `(tag, time, feature values)`, so "the same
observation with its own position, timestamp and feature values" is equality of records, and every
statement below is for lists of any length. The model is purely functional: the source track of an
operator is an argument that the result does not replace, so "without modifying the source track"
is checked on the real code by the harness (output `src`). -/
namespace TV.C04
open TV.Seq
variable {α : Type}

/-- the sub-sequence of `l` at the positions satisfying `p`, in the original order -/
def atIdx (p : Nat → Bool) (l : List α) : List α := (l.zipIdx.filter (fun q => p q.2)).map (·.1)

/-! ## T5 — slicing operators -/

/-- `extract(a, b)` with `b` a valid index returns exactly the observations `a, a+1, …, b`
(both ends included; none when `a > b`), with the feature-name table of the source. -/
theorem extract_spec (tr : Track) (a b : Nat) (hb : b < tr.pts.length) :
    extract tr a b = some ⟨(tr.pts.drop a).take (b + 1 - a), tr.table⟩ := by
  unfold extract transmitAF
  have e : ((b : Int) + 1 - (a : Int)).toNat = b + 1 - a := by omega
  rw [e]
  by_cases h : a ≤ b
  · rw [extractLoop_eq _ a (b + 1 - a) (by omega)]; rfl
  · have : b + 1 - a = 0 := by omega
    rw [this]; simp [extractLoop]

/-- `extractSpanTime(t1, t2)` returns exactly the observations whose timestamp lies in the closed
interval between the two bounds, whichever order the bounds are given in. -/
theorem extractSpanTime_spec (tr : Track) (t1 t2 : Int) :
    extractSpanTime tr t1 t2 =
      ⟨tr.pts.filter (fun o => decide (min t1 t2 ≤ o.time ∧ o.time ≤ max t1 t2)), tr.table⟩ := by
  unfold extractSpanTime transmitAF
  show Track.mk _ _ = Track.mk _ _
  congr 1
  apply List.filter_congr
  intro o _
  by_cases h : t1 > t2
  · simp only [h, if_true]
    rw [Bool.eq_iff_iff]; simp only [Bool.and_eq_true, Bool.not_eq_true', decide_eq_false_iff_not, decide_eq_true_eq]
    omega
  · simp only [h, if_false]
    rw [Bool.eq_iff_iff]; simp only [Bool.and_eq_true, Bool.not_eq_true', decide_eq_false_iff_not, decide_eq_true_eq]
    omega

/-- `t1 + t2` is the observations of `t1` followed by those of `t2`; when both carry the same
feature-name table the sum carries it too. -/
theorem concat_spec (t1 t2 : Track) :
    (concat t1 t2).pts = t1.pts ++ t2.pts ∧ (t1.names = t2.names → (concat t1 t2).table = t1.table) := by
  refine ⟨rfl, ?_⟩
  intro h
  have : ∀ (a : List String), sameNames a a = true := by
    intro a; induction a with
    | nil => rfl
    | cons x xs ih => simp [sameNames, ih]
  simp [concat, ← h, this]

/-- `track % n` (`n ≥ 1`) keeps exactly the observations at positions `0, n, 2n, …`: it is the
sub-sequence at the positions `≡ 0 (mod n)`, and its `i`-th observation is the source's `(i·n)`-th. -/
theorem decimateStep_spec (tr : Track) (n : Nat) (hn : 1 ≤ n) :
    ∃ r, decimateStep tr n = some r ∧ r.table = tr.table ∧
      r.pts = atIdx (fun j => j % n == 0) tr.pts ∧ ∀ i, r.pts[i]? = tr.pts[i * n]? := by
  have h0 : ¬ ((n : Int) = 0) := by omega
  have h1 : (n : Int) > 0 := by omega
  refine ⟨⟨stepAux n 0 tr.pts, tr.table⟩, ?_, rfl, ?_, ?_⟩
  · simp only [decimateStep, pyStep, if_neg h0, if_pos h1, Int.toNat_natCast, transmitAF, Option.map_some]
  · show stepAux n 0 tr.pts = _
    rw [stepAux_eq_keepIdx n hn 0 0 tr.pts (by omega) (by simp), keepIdx_eq_zipIdx]; rfl
  · intro i
    show (stepAux n 0 tr.pts)[i]? = _
    rw [stepAux_getElem? n hn]; simp

/-- `track % pattern` keeps exactly the observations whose position `j` has `pattern[j mod len]` true. -/
theorem decimatePattern_spec (tr : Track) (pat : List Bool) (hp : pat ≠ []) :
    decimatePattern tr pat =
      some ⟨atIdx (fun j => pat[j % pat.length]?.getD false) tr.pts, tr.table⟩ := by
  have : pat.isEmpty = false := by cases pat <;> simp_all
  simp only [decimatePattern, this, Bool.false_and, Bool.false_eq_true, if_false, transmitAF]
  rw [patLoop_eq_keepIdx, keepIdx_eq_zipIdx]; rfl

/-- `track > n` drops exactly the first `n` observations (all of them when `n ≥ size`). -/
theorem dropFirst_spec (tr : Track) (n : Nat) : dropFirst tr n = ⟨tr.pts.drop n, tr.table⟩ := by
  simp [dropFirst, pySliceFrom, transmitAF]

/-- `track < n` drops exactly the last `n` observations (all of them when `n ≥ size`; this is the
behaviour after fix 8550bff). -/
theorem dropLast_spec (tr : Track) (n : Nat) :
    dropLast tr n = ⟨tr.pts.take (tr.pts.length - n), tr.table⟩ := by
  unfold dropLast transmitAF
  congr 2
  omega

/-- `removeObsList(tab)` with distinct valid indices (in any order) leaves exactly the observations
whose position is not in `tab`, in order, and returns the number removed. -/
theorem removeByIdx_spec (l : List α) (tab : List Int)
    (hr : ∀ x ∈ tab, 0 ≤ x ∧ x < l.length) (hn : tab.Nodup) :
    removeByIdx l tab = (atIdx (fun j => !tab.contains (j : Int)) l, some tab.length) := by
  rw [removeByIdx_nodup l tab hr hn, keepIdx_eq_zipIdx]; rfl

/-- an index list with a repeated index is refused: nothing is removed and 0 is returned. -/
theorem removeByIdx_refuses_duplicates (l : List α) (tab : List Int) (hn : ¬ tab.Nodup) :
    removeByIdx l tab = (l, some 0) := removeByIdx_dup l tab hn


/-! ## T1 — the dichotomy stays in range and terminates -/

/-- T1. For ANY timestamps (sorted or not), any size `N` and any first step `2^j` with `2·2^j ≤ N`, the
search loop of `__getInsertionIndex`, run with an element access that raises on EVERY index outside
`0..N-1` (`strictGet`: no negative wrap-around), terminates within the fuel `j + N + 3` without any
error, at an index `0 ≤ r ≤ N-1`. So every index the loop reads is in `0..N-1`. -/
theorem dichotomy_in_range (T : List Int) (ts : Int) (j : Nat) (hj : 2 * 2 ^ j ≤ T.length) :
    ∃ r : Nat, searchLoop (strictGet T) T.length ts (j + T.length + 3) 0 ((2 : Int) ^ j) = .ok (r : Int)
      ∧ r + 1 ≤ T.length := by
  have hj' : (0 : Int) + 2 * (2 : Int) ^ j ≤ (T.length : Int) := by
    have : ((2 * 2 ^ j : Nat) : Int) ≤ (T.length : Int) := by exact_mod_cast hj
    simpa using this
  exact (searchLoop_halving (strictGet_readsOn T) j 0 (j + T.length + 3) (by omega)).1 ⟨by omega, hj'⟩

/-- T1 for the whole function, as the code computes its first step (`2^(⌊log₂ N⌋-1)`): on every list
of timestamps the three loops, run with the strict element access, return an index `0 ≤ r ≤ N`
(no `IndexError`, no read outside `0..N-1`, fuel sufficient), and the model as run (Python's
wrapping `L[i]`) returns the same index. -/
theorem insertionIndex_no_index_error (T : List Int) (ts : Int) :
    ∃ r : Nat, r ≤ T.length ∧
      insertionIndexWith (strictGet T) (ilog2 T.length - 1) T ts = .ok (r : Int) ∧
      insertionIndex T ts = .ok (r : Int) := by
  have key : ∃ r : Nat, r ≤ T.length ∧
      insertionIndexWith (strictGet T) (ilog2 T.length - 1) T ts = .ok (r : Int) := by
    match T with
    | [] => exact ⟨0, by simp, rfl⟩
    | [t0] =>
      by_cases h : t0 < ts
      · exact ⟨1, by simp, by simp [insertionIndexWith, h]⟩
      · exact ⟨0, by simp, by simp [insertionIndexWith, h]⟩
    | a :: b :: rest =>
      have hN : 2 ≤ (a :: b :: rest).length := by simp
      obtain ⟨_, r2, h, _, _, hr2, _⟩ := insertionIndexWith_run (ts := ts)
        (strictGet_readsOn (a :: b :: rest)) _ hN (ilog2_first_step _ hN)
      exact ⟨r2, hr2, h⟩
  obtain ⟨r, hr, h⟩ := key
  exact ⟨r, hr, h, insertionIndexWith_mono (strictGet_sub_pyGet T) _ T ts _ h⟩

/-! ## T2 — the insertion index on a time-sorted track -/

/-- T2. On time-sorted timestamps (`N ≥ 2`), for any first step `2^j` with `2·2^j ≤ N` (so also for an
under-estimate of `⌊log₂ N⌋`), the result is the upper-bound insertion point: the number of timestamps
`≤ ts`. -/
theorem insertionIndexFrom_spec (T : List Int) (ts : Int) (j : Nat) (hN : 2 ≤ T.length)
    (hj : 2 * 2 ^ j ≤ T.length) (hs : T.Pairwise (· ≤ ·)) :
    insertionIndexFrom j T ts = .ok ((T.countP (fun t => decide (t ≤ ts)) : Nat) : Int) := by
  obtain ⟨r, h, hr, h1, h2⟩ := insertionIndexWith_bounds (ts := ts) (pyGet_readsOn T) j hN hj hs
  have : T.countP (fun t => decide (t ≤ ts)) = r := by
    apply countP_of_split T _ r hr
    · intro k t hk hkt; simpa using h1 k t hk hkt
    · intro k t hk hkt; have := h2 k t hk hkt; simp; omega
  rw [this]; exact h

/-- T2 with the first step the code computes; a single observation is the one special case of the
code: there the new observation goes BEFORE an equal timestamp (`countP (· < ts)`). -/
theorem insertionIndex_spec (T : List Int) (ts : Int) (hs : T.Pairwise (· ≤ ·)) :
    insertionIndex T ts = .ok ((if T.length = 1 then T.countP (fun t => decide (t < ts))
      else T.countP (fun t => decide (t ≤ ts)) : Nat) : Int) := by
  match T, hs with
  | [], _ => rfl
  | [t0], _ =>
    by_cases h : t0 < ts <;> simp [insertionIndex, insertionIndexFrom, insertionIndexWith, h]
  | a :: b :: rest, hs =>
    have hN : 2 ≤ (a :: b :: rest).length := by simp
    have hne : ¬ ((a :: b :: rest).length = 1) := by simp
    rw [if_neg hne]
    exact insertionIndexFrom_spec _ ts _ hN (ilog2_first_step _ hN) hs

/-! ## T3 — chronological insertion -/

/-- on EVERY track (sorted or not) `insertObs(obs)` succeeds and yields the old observations in their
order with the new one inserted at some position `r ≤ N`; the feature-name table is unchanged. -/
theorem insert_total (tr : Track) (o : Obs) :
    ∃ r : Nat, r ≤ tr.pts.length ∧
      insertChrono tr o = some ⟨tr.pts.take r ++ o :: tr.pts.drop r, tr.table⟩ := by
  obtain ⟨r, hr, _, h⟩ := insertionIndex_no_index_error (tr.pts.map (·.time)) o.time
  rw [List.length_map] at hr
  exact ⟨r, hr, insertChrono_of_index tr o r hr h⟩

/-- T3. Inserting an observation without an index into a time-sorted track leaves it sorted: the
result is the old observations in their order with the new one at a position `r`, it is a permutation
of `new :: old` (every record intact), and it is non-decreasing in time. -/
theorem insert_sorted (tr : Track) (o : Obs) (hs : tr.pts.Pairwise (fun a b => a.time ≤ b.time)) :
    ∃ r : Nat, r ≤ tr.pts.length ∧
      insertChrono tr o = some ⟨tr.pts.take r ++ o :: tr.pts.drop r, tr.table⟩ ∧
      (tr.pts.take r ++ o :: tr.pts.drop r).Perm (o :: tr.pts) ∧
      (tr.pts.take r ++ o :: tr.pts.drop r).Pairwise (fun a b => a.time ≤ b.time) := by
  have hT : (tr.pts.map (·.time)).Pairwise (· ≤ ·) := List.pairwise_map.mpr hs
  obtain ⟨r, hr, h, h1, h2⟩ := insertionIndex_split (tr.pts.map (·.time)) o.time hT
  rw [List.length_map] at hr
  refine ⟨r, hr, insertChrono_of_index tr o r hr h, ?_, ?_⟩
  · rw [← insertIdx_eq_take_drop tr.pts r o hr]; exact List.perm_insertIdx o tr.pts hr
  · have hsplit : (tr.pts.take r ++ tr.pts.drop r).Pairwise (fun a b => a.time ≤ b.time) := by
      rw [List.take_append_drop]; exact hs
    obtain ⟨hA, hB, hAB⟩ := List.pairwise_append.mp hsplit
    have hbefore : ∀ a ∈ tr.pts.take r, a.time ≤ o.time := by
      intro a ha
      obtain ⟨k, hk⟩ := List.mem_iff_getElem?.mp ha
      rw [List.getElem?_take] at hk
      by_cases hkr : k < r
      · rw [if_pos hkr] at hk
        exact h1 k a.time hkr (by rw [List.getElem?_map, hk]; rfl)
      · rw [if_neg hkr] at hk; cases hk
    have hafter : ∀ b ∈ tr.pts.drop r, o.time ≤ b.time := by
      intro b hb
      obtain ⟨k, hk⟩ := List.mem_iff_getElem?.mp hb
      rw [List.getElem?_drop] at hk
      exact h2 (r + k) b.time (by omega) (by rw [List.getElem?_map, hk]; rfl)
    refine List.pairwise_append.mpr ⟨hA, List.pairwise_cons.mpr ⟨hafter, hB⟩, ?_⟩
    intro a ha b hb
    rcases List.mem_cons.mp hb with rfl | hb
    · exact hbefore a ha
    · exact hAB a ha b hb

/-! ## T4 — sort -/

/-- contract assumed of `np.argsort(timestamps)`: a permutation of the positions `0..N-1` along
which the timestamps are non-decreasing (nothing is assumed about the order of equal timestamps). -/
def IsArgsort (T : List Int) (perm : List Nat) : Prop :=
  perm.Perm (List.range T.length) ∧
    perm.Pairwise (fun i j => ∀ a b, T[i]? = some a → T[j]? = some b → a ≤ b)

/-- `sort()` with ANY sorting permutation returned by `argsort`: the result consists of the same
observations (each record unchanged: it is a permutation of the list of records), in
non-decreasing time order, and the feature-name table is unchanged. -/
theorem sort_spec (tr : Track) (perm : List Nat) (h : IsArgsort (tr.pts.map (·.time)) perm) :
    ∃ r, sortWith perm tr = some r ∧ r.table = tr.table ∧ r.pts.Perm tr.pts ∧
      r.pts.Pairwise (fun a b => a.time ≤ b.time) := by
  obtain ⟨hperm, hsorted⟩ := h
  rw [List.length_map] at hperm
  have hin : ∀ i ∈ perm, i < tr.pts.length := by
    intro i hi; exact List.mem_range.mp (hperm.mem_iff.mp hi)
  refine ⟨⟨perm.filterMap (fun i => tr.pts[i]?), tr.table⟩, ?_, rfl, ?_, ?_⟩
  · simp [sortWith, gather_eq tr.pts perm hin]
  · have := hperm.filterMap (fun i => tr.pts[i]?)
    rw [filterMap_range_getElem?] at this
    exact this
  · refine List.Pairwise.filterMap _ ?_ hsorted
    intro i j hij a ha b hb
    apply hij a.time b.time <;> simp [ha, hb]

/-- the model's `argsort` (stable merge sort of the positions) satisfies the contract. -/
theorem argsort_isArgsort (T : List Int) : IsArgsort T (argsort T) :=
  ⟨argsort_perm T, argsort_sorted T⟩

/-- `sort()` as run by the driver. -/
theorem sortByTime_spec (tr : Track) :
    ∃ r, sortByTime tr = some r ∧ r.table = tr.table ∧ r.pts.Perm tr.pts ∧
      r.pts.Pairwise (fun a b => a.time ≤ b.time) :=
  sort_spec tr _ (argsort_isArgsort _)


/-! ## non-vacuity: the hypotheses are satisfiable by non-trivial inputs, and witnesses -/

/-- a time-sorted track with a tie, of power-of-two size, satisfies the hypotheses of T1–T3 -/
example : ([1, 3, 3, 7, 9, 9, 13, 15] : List Int).Pairwise (· ≤ ·) := by decide
example : 2 * 2 ^ 2 ≤ ([1, 3, 3, 7, 9, 9, 13, 15] : List Int).length := by decide
example : insertionIndex [1, 3, 3, 7, 9, 9, 13, 15] 3 = .ok 3 := by decide +kernel
example : insertionIndex [1, 3, 3, 7, 9, 9, 13, 15] 0 = .ok 0 := by decide +kernel
example : insertionIndex [1, 3, 3, 7, 9, 9, 13, 15] 16 = .ok 8 := by decide +kernel
/-- the negative unit step does not vanish (`-1 >> 1 = -1`): insertion before four equal timestamps
reaches index 0 through the leftward walk (2 → 1 → 0 with step -1, then `break`) -/
example : searchLoop (strictGet [1, 1, 1, 1]) 4 0 8 0 2 = .ok 0 := by decide +kernel
/-- the one-observation special case puts the new observation before an equal timestamp -/
example : insertionIndex [5] 5 = .ok 0 := by decide +kernel
/-- distinct valid indices in any order -/
example : (∀ x ∈ ([2, 0] : List Int), 0 ≤ x ∧ x < ([10, 11, 12, 13] : List Nat).length) ∧ ([2, 0] : List Int).Nodup := by
  decide
example : atIdx (fun j => !([2, 0] : List Int).contains (j : Int)) [10, 11, 12, 13] = [11, 13] := by decide
/-- regression witness of fix 8550bff: `track < n` with `n > size` is empty -/
example : dropLast ⟨[⟨0, 1, [0]⟩, ⟨1, 3, [10]⟩], [("f", 0)]⟩ 3 = ⟨[], [("f", 0)]⟩ := by decide +kernel
/-- a sorting permutation that is NOT the stable one also satisfies the contract of `sort_spec` -/
example : IsArgsort [3, 1, 3] [1, 2, 0] := by
  refine ⟨by decide, ?_⟩
  simp

end TV.C04
