import TracklibVerif.Lemmas.Seq
import TracklibVerif.Lemmas.SeqSearch
import TracklibVerif.Lemmas.SeqFeat
import TracklibVerif.Lemmas.SeqRadix
import TracklibVerif.Lemmas.SeqSession
import TracklibVerif.Lemmas.SeqSlice
import TracklibVerif.Lemmas.ObsTime
/-! # C04 — sequence operations on a track select exactly the designated observations

Property theorems only (helper lemmas: `Lemmas/Seq*.lean`); continued in `Props/C04Slice.lean` (slices with a negative
step, what the code does where the arguments designate no observation) and `Props/C04More.lean` (`reverse`, `makeOdd`,
`makeEven`, `setObs`, `getFirstObs`, `getLastObs`, `track / n`, `removeObsList` with timestamps; model `Model/SeqMore.lean`).
The model is `Model/Seq.lean` (the operators) and `Model/SeqOps.lean` (reads by name, the remaining entry points, `sortRadix`, operators in sequence);
observations are opaque records `(tag, time, feature values)`, so "the same observation with its own
position and timestamp" is equality of records; a track carries its feature TABLE, the pairs (name, column),
and "its own feature values" is what the observation reads by name through the table of the track it is in
(`readAF`, section "the feature table is carried over"). Every statement below is for lists of any length.
The model is purely functional: the source track of an operator is an argument that the result does not
replace, so "without modifying the source track" is checked on the real code by the harness (every track of
the pool is dumped after every operation). -/
namespace TV.C04
open TV.Seq
variable {α : Type}

/-- the sub-sequence of `l` at the positions satisfying `p`, in the original order -/
def atIdx (p : Nat → Bool) (l : List α) : List α := (l.zipIdx.filter (fun q => p q.2)).map (·.1)

/-! ## T5 — slicing operators -/

/-- `extract(a, b)` with `b` a valid index returns exactly the observations `a, a+1, …, b`
(both ends included; none when `a > b`), with the feature table (names and columns) of the source. -/
theorem extract_spec (tr : Track) (a b : Nat) (hb : b < tr.pts.length) :
    extract tr a b = some ⟨(tr.pts.drop a).take (b + 1 - a), tr.table⟩ := by
  unfold extract transmitAF
  have e : ((b : Int) + 1 - (a : Int)).toNat = b + 1 - a := by omega
  rw [e]
  by_cases h : a ≤ b
  · rw [extractLoop_eq _ a (b + 1 - a) (by omega)]; rfl
  · have : b + 1 - a = 0 := by omega
    rw [this]; simp [extractLoop]

/-- `extractSpanTime(t1, t2)` returns exactly the observations whose timestamp lies in the closed
interval between the two bounds, whichever order the bounds are given in. -/
theorem extractSpanTime_spec (tr : Track) (t1 t2 : Int) :
    extractSpanTime tr t1 t2 =
      ⟨tr.pts.filter (fun o => decide (min t1 t2 ≤ o.time ∧ o.time ≤ max t1 t2)), tr.table⟩ := by
  unfold extractSpanTime transmitAF
  show Track.mk _ _ = Track.mk _ _
  congr 1
  apply List.filter_congr
  intro o _
  by_cases h : t1 > t2
  · simp only [h, if_true]
    rw [Bool.eq_iff_iff]; simp only [Bool.and_eq_true, Bool.not_eq_true', decide_eq_false_iff_not, decide_eq_true_eq]
    omega
  · simp only [h, if_false]
    rw [Bool.eq_iff_iff]; simp only [Bool.and_eq_true, Bool.not_eq_true', decide_eq_false_iff_not, decide_eq_true_eq]
    omega

/-- `t1 + t2` is the observations of `t1` followed by those of `t2`. Its table is decided by the two lists of
NAMES only: the table of `t1` when they are equal position by position, the empty table otherwise
(different sets, the same names in another order, one side without features). -/
theorem concat_spec (t1 t2 : Track) :
    (concat t1 t2).pts = t1.pts ++ t2.pts ∧
      (concat t1 t2).table = if t1.names = t2.names then t1.table else [] := by
  refine ⟨rfl, ?_⟩
  unfold concat
  by_cases h : t1.names = t2.names
  · simp [h, (sameNames_iff t2.names t2.names).mpr rfl]
  · have : sameNames t1.names t2.names = false := by
      cases hs : sameNames t1.names t2.names with
      | false => rfl
      | true => exact absurd ((sameNames_iff _ _).mp hs) h
    simp [h, this]

/-- `track % n` (`n ≥ 1`) keeps exactly the observations at positions `0, n, 2n, …`: it is the
sub-sequence at the positions `≡ 0 (mod n)`, and its `i`-th observation is the source's `(i·n)`-th. -/
theorem decimateStep_spec (tr : Track) (n : Nat) (hn : 1 ≤ n) :
    ∃ r, decimateStep tr n = some r ∧ r.table = tr.table ∧
      r.pts = atIdx (fun j => j % n == 0) tr.pts ∧ ∀ i, r.pts[i]? = tr.pts[i * n]? := by
  have h0 : ¬ ((n : Int) = 0) := by omega
  have h1 : (n : Int) > 0 := by omega
  refine ⟨⟨stepAux n 0 tr.pts, tr.table⟩, ?_, rfl, ?_, ?_⟩
  · simp only [decimateStep, pyStep, if_neg h0, if_pos h1, Int.toNat_natCast, transmitAF, Option.map_some]
  · show stepAux n 0 tr.pts = _
    rw [stepAux_eq_keepIdx n hn 0 0 tr.pts (by omega) (by simp), keepIdx_eq_zipIdx]; rfl
  · intro i
    show (stepAux n 0 tr.pts)[i]? = _
    rw [stepAux_getElem? n hn]; simp

/-- `track % pattern` keeps exactly the observations whose position `j` has `pattern[j mod len]` true. -/
theorem decimatePattern_spec (tr : Track) (pat : List Bool) (hp : pat ≠ []) :
    decimatePattern tr pat =
      some ⟨atIdx (fun j => pat[j % pat.length]?.getD false) tr.pts, tr.table⟩ := by
  have : pat.isEmpty = false := by cases pat <;> simp_all
  simp only [decimatePattern, this, Bool.false_and, Bool.false_eq_true, if_false, transmitAF]
  rw [patLoop_eq_keepIdx, keepIdx_eq_zipIdx]; rfl

/-- `track > n` drops exactly the first `n` observations (all of them when `n ≥ size`). -/
theorem dropFirst_spec (tr : Track) (n : Nat) : dropFirst tr n = ⟨tr.pts.drop n, tr.table⟩ := by
  simp [dropFirst, pySliceFrom, transmitAF]

/-- `track < n` drops exactly the last `n` observations (all of them when `n ≥ size`; this is the
behaviour after fix 8550bff). -/
theorem dropLast_spec (tr : Track) (n : Nat) :
    dropLast tr n = ⟨tr.pts.take (tr.pts.length - n), tr.table⟩ := by
  unfold dropLast transmitAF
  congr 2
  omega

/-- `removeObsList(tab)` with distinct valid indices (in any order) leaves exactly the observations
whose position is not in `tab`, in order, and returns the number removed. -/
theorem removeByIdx_spec (l : List α) (tab : List Int)
    (hr : ∀ x ∈ tab, 0 ≤ x ∧ x < l.length) (hn : tab.Nodup) :
    removeByIdx l tab = (atIdx (fun j => !tab.contains (j : Int)) l, some tab.length) := by
  rw [removeByIdx_nodup l tab hr hn, keepIdx_eq_zipIdx]; rfl

/-- an index list with a repeated index is refused: nothing is removed and 0 is returned. -/
theorem removeByIdx_refuses_duplicates (l : List α) (tab : List Int) (hn : ¬ tab.Nodup) :
    removeByIdx l tab = (l, some 0) := removeByIdx_dup l tab hn


/-! ## the feature table is carried over: what every observation of a result reads by name

A track's table maps a feature name to a COLUMN of the observations' value lists (`readAF` =
`getObsAnalyticalFeature(name, i)` = `track[name, i]`). `Carries r s` says: `r` has the table of `s` (same names,
same columns), every observation of `r` is an observation of `s`, and it reads under every name exactly what it
read in `s`. It holds for EVERY argument of the operator (also those that designate nothing). Which
observations the result holds is the subject of the `_spec` theorems above. -/

def Carries (r s : Track) : Prop :=
  r.table = s.table ∧ ∀ (i : Nat) (o : Obs), r.pts[i]? = some o →
    ∃ j : Nat, s.pts[j]? = some o ∧ ∀ nm, readAF r nm (i : Int) = readAF s nm (j : Int)

theorem carries_intro {r s : Track} (ht : r.table = s.table) (hm : ∀ o ∈ r.pts, o ∈ s.pts) : Carries r s :=
  ⟨ht, carries_of_mem r s ht hm⟩

/-- `extract(a, b)` (any integers for which the code does not raise) -/
theorem extract_carries (tr : Track) (a b : Int) (r : Track) (h : extract tr a b = some r) : Carries r tr := by
  unfold extract at h
  cases hl : extractLoop tr.pts a (b + 1 - a).toNat with
  | none => simp [hl] at h
  | some p =>
    simp only [hl, Option.map_some, Option.some.injEq] at h
    subst h
    exact carries_intro rfl (extractLoop_subset tr.pts _ a p hl)

/-- `extractSpanTime(t1, t2)` -/
theorem extractSpanTime_carries (tr : Track) (t1 t2 : Int) : Carries (extractSpanTime tr t1 t2) tr :=
  carries_intro rfl (fun _ ho => (List.mem_filter.mp ho).1)

/-- `extractSpanTime(track)`: the span of the other track's first and last observation -/
theorem extractSpanTrack_spec (tr other : Track) (a b : Obs) (ha : other.pts.head? = some a)
    (hb : other.pts.getLast? = some b) :
    extractSpanTrack tr other = some (extractSpanTime tr a.time b.time) := by
  cases hp : other.pts with
  | nil => simp [hp] at ha
  | cons x xs =>
    have hlast : pyGet other.pts (-1) = some b := by
      have hlen : 0 < other.pts.length := by rw [hp]; simp
      have e : ((other.pts.length : Int) + -1).toNat = other.pts.length - 1 := by omega
      have h2 : (0 : Int) ≤ (other.pts.length : Int) + -1 := by omega
      simp only [pyGet, show ¬ ((0 : Int) ≤ -1) by omega, if_false, h2, if_true, e]
      rw [← hb, List.getLast?_eq_getElem?]
    have hfirst : pyGet other.pts 0 = some a := by
      rw [← ha]; simp [pyGet, List.head?_eq_getElem?]
    simp only [extractSpanTrack, hfirst, hlast]

theorem extractSpanTrack_carries (tr other r : Track) (h : extractSpanTrack tr other = some r) : Carries r tr := by
  unfold extractSpanTrack at h
  split at h
  · cases h; exact extractSpanTime_carries tr _ _
  · cases h

/-- `track % n` -/
theorem decimateStep_carries (tr : Track) (n : Int) (r : Track) (h : decimateStep tr n = some r) : Carries r tr := by
  unfold decimateStep pyStep at h
  split at h
  · cases h
  · split at h
    · cases h
      exact carries_intro rfl (stepAux_subset _ 0 tr.pts)
    · cases h
      exact carries_intro rfl (fun o ho => List.mem_reverse.mp (stepAux_subset _ 0 tr.pts.reverse o ho))

/-- `track % pattern` -/
theorem decimatePattern_carries (tr : Track) (pat : List Bool) (r : Track) (h : decimatePattern tr pat = some r) :
    Carries r tr := by
  unfold decimatePattern at h
  split at h
  · cases h
  · cases h; exact carries_intro rfl (patLoop_subset pat 0 tr.pts)

/-- `track > n` -/
theorem dropFirst_carries (tr : Track) (n : Int) : Carries (dropFirst tr n) tr :=
  carries_intro rfl (pySliceFrom_subset tr.pts n)

/-- `track < n` -/
theorem dropLast_carries (tr : Track) (n : Int) : Carries (dropLast tr n) tr :=
  carries_intro rfl (fun _ ho => List.mem_of_mem_take ho)

/-- `track[a:b:c]` -/
theorem getitemSlice_carries (tr : Track) (a b c : Option Int) (r : Track) (h : getitemSlice tr a b c = some r) :
    Carries r tr := by
  unfold getitemSlice at h
  cases hp : pySlice tr.pts a b c with
  | none => simp [hp] at h
  | some p =>
    simp only [hp, Option.map_some, Option.some.injEq] at h
    subst h
    exact carries_intro rfl (pySlice_subset tr.pts a b c p hp)

/-- `sort()` (any permutation `argsort` returns) -/
theorem sort_carries (tr : Track) (perm : List Nat) (r : Track) (h : sortWith perm tr = some r) : Carries r tr := by
  unfold sortWith at h
  cases hp : gather tr.pts perm with
  | none => simp [hp] at h
  | some p =>
    simp only [hp, Option.map_some, Option.some.injEq] at h
    subst h
    exact carries_intro rfl (gather_subset tr.pts perm p hp)

/-- `removeObsList(tab)` (hence `removeObs`, `removeFirstObs`, `removeLastObs`, `popObs`), any index list -/
theorem removeObsList_carries (tr : Track) (tab : List Int) :
    Carries ⟨(removeByIdx tr.pts tab).1, tr.table⟩ tr :=
  carries_intro rfl (removeByIdx_subset tr.pts tab)

/-- `insertObs(obs)`, `insertObs(obs, i)`, `addObs(obs)`: the table is unchanged, the old observations read as
before, the new one reads its own value list through the track's table -/
theorem insert_carries (tr : Track) (o : Obs) (r : Track)
    (h : insertChrono tr o = some r ∨ (∃ i, r = insertAt tr o i) ∨ r = addObs tr o) :
    r.table = tr.table ∧ ∀ (i : Nat) (x : Obs), r.pts[i]? = some x →
      (x = o ∧ ∀ nm, readAF r nm (i : Int) = o.read tr.table nm) ∨
      (∃ j : Nat, tr.pts[j]? = some x ∧ ∀ nm, readAF r nm (i : Int) = readAF tr nm (j : Int)) := by
  have key : r.table = tr.table ∧ ∀ x ∈ r.pts, x = o ∨ x ∈ tr.pts := by
    rcases h with h | ⟨i, h⟩ | h
    · unfold insertChrono at h
      split at h
      · cases h; exact ⟨rfl, fun x hx => pyInsert_mem tr.pts _ o x hx⟩
      · cases h
    · subst h; exact ⟨rfl, fun x hx => pyInsert_mem tr.pts i o x hx⟩
    · subst h
      refine ⟨rfl, fun x hx => ?_⟩
      rcases List.mem_append.mp hx with hx | hx
      · exact Or.inr hx
      · exact Or.inl (by simpa using hx)
  refine ⟨key.1, ?_⟩
  intro i x hi
  rcases key.2 x (List.mem_of_getElem? hi) with e | hm
  · left
    refine ⟨e, fun nm => ?_⟩
    rw [readAF_of_get hi nm, key.1, e]
  · right
    obtain ⟨j, hj⟩ := List.mem_iff_getElem?.mp hm
    exact ⟨j, hj, fun nm => readAF_congr key.1 (hi.trans hj.symm) nm⟩

/-- every table the public interface builds is well-formed (distinct names, the column of a name is its rank): the
empty table is, `createAnalyticalFeature` and `removeAnalyticalFeature` keep it so, and every operator of this
file copies the table of its source. This is the hypothesis of `concat_carries` and of `Good`. -/
theorem table_wellformed (tr : Track) (h : WF tr.table) (nm : String) :
    WF ([] : Table) ∧ (∀ vals r, createAF tr nm vals = some r → WF r.table) ∧
      (∀ r, removeAF tr nm = some r → WF r.table) :=
  ⟨wf_nil, fun vals r hc => createAF_wf tr nm vals r h hc, fun r hr => removeAF_wf tr nm r h hr⟩

/-- `t1 + t2` when the two tracks list the same names, both tables being well-formed (distinct names, the column
of a name is its rank: what `createAnalyticalFeature` / `removeAnalyticalFeature` build, `createAF_wf`,
`removeAF_wf`): the sum has that table and EVERY observation — those of `t2` too — reads under every name what
it read in its own track. -/
theorem concat_carries (t1 t2 : Track) (h1 : WF t1.table) (h2 : WF t2.table) (hn : t1.names = t2.names) :
    (concat t1 t2).table = t1.table ∧
    (∀ i : Nat, i < t1.pts.length → (concat t1 t2).pts[i]? = t1.pts[i]? ∧
      ∀ nm, readAF (concat t1 t2) nm (i : Int) = readAF t1 nm (i : Int)) ∧
    (∀ k : Nat, (concat t1 t2).pts[t1.pts.length + k]? = t2.pts[k]? ∧
      ∀ nm, readAF (concat t1 t2) nm ((t1.pts.length + k : Nat) : Int) = readAF t2 nm (k : Int)) := by
  have ht : (concat t1 t2).table = t1.table := by rw [(concat_spec t1 t2).2, if_pos hn]
  have h12 : t1.table = t2.table := wf_eq_of_names h1 h2 hn
  refine ⟨ht, ?_, ?_⟩
  · intro i hi
    have hp : (concat t1 t2).pts[i]? = t1.pts[i]? := by
      show (t1.pts ++ t2.pts)[i]? = _
      rw [List.getElem?_append_left hi]
    exact ⟨hp, fun nm => readAF_congr ht hp nm⟩
  · intro k
    have hp : (concat t1 t2).pts[t1.pts.length + k]? = t2.pts[k]? := by
      show (t1.pts ++ t2.pts)[t1.pts.length + k]? = _
      rw [List.getElem?_append_right (by omega)]
      congr 1; omega
    exact ⟨hp, fun nm => readAF_congr (ht.trans h12) hp nm⟩

/-- `t1 + t2` when the lists of names differ (different sets, another order, one side without features): the sum
lists NO feature; every read by name raises `AnalyticalFeatureError` (the value lists stay in the observations,
out of reach). So "under every name the result lists" holds vacuously, and no observation can read another's value. -/
theorem concat_names_differ (t1 t2 : Track) (hn : t1.names ≠ t2.names) :
    (concat t1 t2).names = [] ∧ ∀ nm (i : Int), readAF (concat t1 t2) nm i = .noFeature := by
  have ht : (concat t1 t2).table = [] := by rw [(concat_spec t1 t2).2, if_neg hn]
  refine ⟨by simp [Track.names, ht], ?_⟩
  intro nm i
  simp [readAF, ht, colOf]

/-! ## operators applied in sequence

`Good own tr`: the table of `tr` is well-formed and every observation of `tr` reads, under every name `tr`
lists, ITS OWN value (`own tag name`). Every operation of the statement keeps every track of the pool good —
the result of an operator as well as its operands — so the property "each observation reads its own feature
values" holds after any sequence of operators, the result of one being an operand of the next. -/

theorem good_of_carries {own : Nat → String → Int} {r s : Track} (hs : Good own s) (hc : Carries r s) :
    Good own r :=
  good_of_sub hs hc.1 (fun o ho => by
    obtain ⟨i, hi⟩ := List.mem_iff_getElem?.mp ho
    obtain ⟨j, hj, _⟩ := hc.2 i o hi
    exact List.mem_of_getElem? hj)

/-- the operations the invariant speaks of: a new observation must hold its own values (laid out by `mkObs` as
the track's table says); the creation / removal of a feature changes what "own value" means and is excluded. -/
def OpOk (own : Nat → String → Int) : Op → Prop
  | .insert _ tag _ vals => ∀ nm v, lookVal vals nm = some v → v = own tag nm
  | .insertAt _ _ tag _ vals => ∀ nm v, lookVal vals nm = some v → v = own tag nm
  | .addObs _ tag _ vals => ∀ nm v, lookVal vals nm = some v → v = own tag nm
  | .create .. => False
  | .delete .. => False
  | _ => True

theorem newTrack_good (G : Track → Prop) (pool : List Track) (r : Option Track) (err : String)
    (hg : ∀ t ∈ pool, G t) (hr : ∀ r', r = some r' → G r') : ∀ t ∈ (newTrack pool r err).1, G t := by
  intro t ht
  unfold newTrack at ht
  split at ht
  · rename_i r'
    rcases List.mem_append.mp ht with h | h
    · exact hg t h
    · have : t = r' := by simpa using h
      subst this; exact hr t rfl
  · exact hg t ht

theorem inPlace_good (G : Track → Prop) (pool : List Track) (k : Nat) (r : Track) (out : Out)
    (hg : ∀ t ∈ pool, G t) (hr : G r) : ∀ t ∈ (inPlace pool k r out).1, G t := by
  intro t ht
  rcases List.mem_or_eq_of_mem_set (show t ∈ pool.set k r from ht) with h | h
  · exact hg t h
  · subst h; exact hr

theorem applyOp_good (own : Nat → String → Int) (pool : List Track) (op : Op) (hok : OpOk own op)
    (hg : ∀ t ∈ pool, Good own t) : ∀ t ∈ (applyOp pool op).1, Good own t := by
  have hat : ∀ (k : Nat) (tr : Track), pool[k]? = some tr → Good own tr :=
    fun k tr h => hg tr (List.mem_of_getElem? h)
  have hrm : ∀ (tr : Track) (p : List Obs), Good own tr → (∀ o ∈ p, o ∈ tr.pts) → Good own ⟨p, tr.table⟩ :=
    fun tr p h hm => good_of_sub h rfl hm
  cases op with
  | extract k a b =>
    simp only [applyOp]; split
    · exact hg
    · rename_i tr htr
      exact newTrack_good _ _ _ _ hg (fun r' h => good_of_carries (hat k tr htr) (extract_carries tr a b r' h))
  | span k t1 t2 =>
    simp only [applyOp]; split
    · exact hg
    · rename_i tr htr
      exact newTrack_good _ _ _ _ hg (fun r' h => by
        cases h; exact good_of_carries (hat k tr htr) (extractSpanTime_carries tr t1 t2))
  | spanTrack k m =>
    simp only [applyOp]; split
    · rename_i tr other htr _
      exact newTrack_good _ _ _ _ hg (fun r' h => good_of_carries (hat k tr htr) (extractSpanTrack_carries tr other r' h))
    · exact hg
  | add k m =>
    simp only [applyOp]; split
    · rename_i t1 t2 h1 h2
      exact newTrack_good _ _ _ _ hg (fun r' h => by cases h; exact good_concat (hat k t1 h1) (hat m t2 h2))
    · exact hg
  | step k n =>
    simp only [applyOp]; split
    · exact hg
    · rename_i tr htr
      exact newTrack_good _ _ _ _ hg (fun r' h => good_of_carries (hat k tr htr) (decimateStep_carries tr n r' h))
  | pattern k pat =>
    simp only [applyOp]; split
    · exact hg
    · rename_i tr htr
      exact newTrack_good _ _ _ _ hg (fun r' h => good_of_carries (hat k tr htr) (decimatePattern_carries tr pat r' h))
  | gt k n =>
    simp only [applyOp]; split
    · exact hg
    · rename_i tr htr
      exact newTrack_good _ _ _ _ hg (fun r' h => by cases h; exact good_of_carries (hat k tr htr) (dropFirst_carries tr n))
  | lt k n =>
    simp only [applyOp]; split
    · exact hg
    · rename_i tr htr
      exact newTrack_good _ _ _ _ hg (fun r' h => by cases h; exact good_of_carries (hat k tr htr) (dropLast_carries tr n))
  | slice k a b c =>
    simp only [applyOp]; split
    · exact hg
    · rename_i tr htr
      exact newTrack_good _ _ _ _ hg (fun r' h => good_of_carries (hat k tr htr) (getitemSlice_carries tr a b c r' h))
  | sort k =>
    simp only [applyOp]; split
    · exact hg
    · rename_i tr htr
      split
      · rename_i r hr
        exact inPlace_good _ _ _ _ _ hg (good_of_carries (hat k tr htr) (sort_carries tr _ r hr))
      · exact hg
  | insert k tag time vals =>
    simp only [applyOp]; split
    · exact hg
    · rename_i tr htr
      split
      · exact hg
      · rename_i o ho
        have hro := mkObs_reads (own := own) tr (hat k tr htr).1 tag time vals o ho hok
        split
        · rename_i r hr
          have hc := insert_carries tr o r (Or.inl hr)
          unfold insertChrono at hr
          split at hr
          · cases hr
            exact inPlace_good _ _ _ _ _ hg (good_insert (hat k tr htr) hro.2 rfl (fun x hx => pyInsert_mem tr.pts _ o x hx))
          · cases hr
        · exact hg
  | insertAt k i tag time vals =>
    simp only [applyOp]; split
    · exact hg
    · rename_i tr htr
      split
      · exact hg
      · rename_i o ho
        have hro := mkObs_reads (own := own) tr (hat k tr htr).1 tag time vals o ho hok
        exact inPlace_good _ _ _ _ _ hg (good_insert (hat k tr htr) hro.2 rfl (fun x hx => pyInsert_mem tr.pts i o x hx))
  | addObs k tag time vals =>
    simp only [applyOp]; split
    · exact hg
    · rename_i tr htr
      split
      · exact hg
      · rename_i o ho
        have hro := mkObs_reads (own := own) tr (hat k tr htr).1 tag time vals o ho hok
        refine inPlace_good _ _ _ _ _ hg (good_insert (hat k tr htr) hro.2 rfl (fun x hx => ?_))
        rcases List.mem_append.mp hx with hx | hx
        · exact Or.inr hx
        · exact Or.inl (by simpa using hx)
  | remove k idx =>
    simp only [applyOp]; split
    · exact hg
    · rename_i tr htr
      exact inPlace_good _ _ _ _ _ hg (hrm tr _ (hat k tr htr) (removeByIdx_subset tr.pts idx))
  | removeObs k i =>
    simp only [applyOp]; split
    · exact hg
    · rename_i tr htr
      exact inPlace_good _ _ _ _ _ hg (hrm tr _ (hat k tr htr) (removeByIdx_subset tr.pts [i]))
  | removeFirst k =>
    simp only [applyOp]; split
    · exact hg
    · rename_i tr htr
      exact inPlace_good _ _ _ _ _ hg (hrm tr _ (hat k tr htr) (removeByIdx_subset tr.pts [0]))
  | removeLast k =>
    simp only [applyOp]; split
    · exact hg
    · rename_i tr htr
      exact inPlace_good _ _ _ _ _ hg (hrm tr _ (hat k tr htr) (removeByIdx_subset tr.pts [_]))
  | pop k i =>
    simp only [applyOp]; split
    · exact hg
    · rename_i tr htr
      refine inPlace_good _ _ _ _ _ hg (hrm tr _ (hat k tr htr) ?_)
      intro o ho
      unfold popObs at ho
      split at ho
      · exact ho
      · exact removeByIdx_subset tr.pts [i] o ho
  | get k i => simp only [applyOp]; split <;> exact hg
  | read k nm i => simp only [applyOp]; split <;> exact hg
  | column k nm => simp only [applyOp]; split <;> exact hg
  | create k nm vals => exact absurd hok id
  | delete k nm => exact absurd hok id

/-- operators applied in sequence: if every track of the pool is good at the start, every track of the pool —
operands and results — is good after the whole sequence. -/
theorem finalPool_good (own : Nat → String → Int) : ∀ (ops : List Op) (pool : List Track),
    (∀ op ∈ ops, OpOk own op) → (∀ t ∈ pool, Good own t) → ∀ t ∈ finalPool pool ops, Good own t
  | [], pool, _, hg => by simpa [finalPool] using hg
  | op :: rest, pool, hok, hg => by
    have h1 := applyOp_good own pool op (hok op (by simp)) hg
    have := finalPool_good own rest (applyOp pool op).1 (fun o ho => hok o (List.mem_cons_of_mem _ ho)) h1
    simpa [finalPool] using this

/-- a good track read through `readAF` (`track[name, i]`): the value is the observation's own -/
theorem good_readAF (own : Nat → String → Int) (tr : Track) (h : Good own tr) (i : Nat) (o : Obs)
    (hi : tr.pts[i]? = some o) (nm : String) (hnm : nm ∈ tr.names) :
    readAF tr nm (i : Int) = .val (own o.tag nm) := by
  rw [readAF_of_get hi nm]
  exact h.2 o (List.mem_of_getElem? hi) nm hnm

/-! ## the other entry points of the statement -/

/-- `addObs(obs)` -/
theorem addObs_spec (tr : Track) (o : Obs) : addObs tr o = ⟨tr.pts ++ [o], tr.table⟩ := rfl

/-- `insertObs(obs, i)` with `0 ≤ i ≤ size` puts the observation at position `i` -/
theorem insertAt_spec (tr : Track) (o : Obs) (i : Nat) (hi : i ≤ tr.pts.length) :
    insertAt tr o i = ⟨tr.pts.take i ++ o :: tr.pts.drop i, tr.table⟩ := by
  unfold insertAt pyInsert
  have h1 : ¬ ((i : Int) < 0) := by omega
  have h2 : ¬ ((i : Int) > (tr.pts.length : Int)) := by omega
  simp only [h1, h2, if_false, Int.toNat_natCast, insertIdx_eq_take_drop tr.pts i o hi]

/-- `removeObs(i)` with a valid index removes exactly that observation and returns 1 -/
theorem removeObs_spec (l : List α) (i : Nat) (hi : i < l.length) :
    removeObs l (i : Int) = (l.eraseIdx i, some 1) := by
  have hlen : (l.eraseIdx i).length = l.length - 1 := by rw [List.length_eraseIdx, if_pos hi]
  have hd : pyDel l (i : Int) = some (l.eraseIdx i) := by
    rw [pyDel_nat l (i : Int) (by omega) (by omega)]; simp
  simp only [removeObs, removeByIdx, List.isEmpty_cons, Bool.false_eq_true, if_false, List.mergeSort_singleton,
    hasAdjDup, List.reverse_cons, List.reverse_nil, List.nil_append, delLoop, hd, hlen]
  congr 2
  omega

/-- `removeFirstObs()` on a non-empty track -/
theorem removeFirst_spec (l : List α) (h : l ≠ []) : removeFirst l = (l.tail, some 1) := by
  have hl : 0 < l.length := List.length_pos_iff.mpr h
  have := removeObs_spec l 0 hl
  rw [List.eraseIdx_zero] at this
  exact this

/-- `removeLastObs()` on a non-empty track -/
theorem removeLast_spec (l : List α) (h : l ≠ []) : removeLast l = (l.dropLast, some 1) := by
  have hl : 0 < l.length := List.length_pos_iff.mpr h
  have e : ((l.length : Int) - 1) = ((l.length - 1 : Nat) : Int) := by omega
  unfold removeLast
  rw [e, removeObs_spec l (l.length - 1) (by omega)]
  congr 1
  rw [List.dropLast_eq_take, List.eraseIdx_eq_take_drop_succ]
  have : List.drop (l.length - 1 + 1) l = [] := List.drop_eq_nil_of_le (by omega)
  rw [this, List.append_nil]

/-- `popObs(i)` with a valid index returns that observation and removes it -/
theorem popObs_spec (l : List α) (i : Nat) (hi : i < l.length) :
    popObs l (i : Int) = (l.eraseIdx i, some l[i]) := by
  simp only [popObs, pyGet_nat, List.getElem?_eq_getElem hi, removeObs_spec l i hi]

/-- `track[i]`: the observation at `i`; a negative `i ≥ -size` counts from the end -/
theorem getitemInt_spec (tr : Track) (i : Nat) (hi : i < tr.pts.length) :
    getitemInt tr (i : Int) = some tr.pts[i] ∧
    getitemInt tr (-((i : Int) + 1)) = some (tr.pts[tr.pts.length - 1 - i]'(by omega)) := by
  constructor
  · simp only [getitemInt, pyGet_nat, List.getElem?_eq_getElem hi]
  · have h1 : ¬ ((0 : Int) ≤ -((i : Int) + 1)) := by omega
    have h2 : (0 : Int) ≤ (tr.pts.length : Int) + -((i : Int) + 1) := by omega
    have e : ((tr.pts.length : Int) + -((i : Int) + 1)).toNat = tr.pts.length - 1 - i := by omega
    simp only [getitemInt, pyGet, h1, if_false, h2, if_true, e]
    exact List.getElem?_eq_getElem (by omega)

/-- `track[a:b:c]` with a step `c ≥ 1`: with `s`, `e` the bounds `a`, `b` brought into `0..size` as Python does
(a negative bound counts from the end, an absent one is `0` / `size`, everything is clamped), the result holds
exactly the observations at the positions `s, s+c, s+2c, … < e`, in order — it is `(track[a:b]) % c` — with the
feature table of the source. (A negative step: `getitemSlice_neg_spec` in `Props/C04Slice.lean`.) -/
theorem getitemSlice_spec (tr : Track) (a b : Option Int) (c : Nat) (hc : 1 ≤ c) :
    ∃ s e : Nat, s ≤ tr.pts.length ∧ e ≤ tr.pts.length ∧
      sliceBounds tr.pts.length a b (c : Int) = ((s : Int), (e : Int)) ∧
      (∀ x : Nat, a = some (x : Int) → s = min x tr.pts.length) ∧ (a = none → s = 0) ∧
      (∀ x : Nat, b = some (x : Int) → e = min x tr.pts.length) ∧ (b = none → e = tr.pts.length) ∧
      getitemSlice tr a b (some (c : Int)) = some ⟨stepAux c 0 ((tr.pts.take e).drop s), tr.table⟩ ∧
      ∀ i : Nat, (stepAux c 0 ((tr.pts.take e).drop s))[i]? = if s + i * c < e then tr.pts[s + i * c]? else none := by
  obtain ⟨s, e, hb, hs, he, h1, h2, h3, h4⟩ := sliceBounds_pos tr.pts.length a b (c : Int) (by omega)
  obtain ⟨s', e', hb', _, _, hp⟩ := pySlice_pos tr.pts a b c hc
  have hse : s' = s ∧ e' = e := by
    rw [hb] at hb'
    simp only [Prod.mk.injEq] at hb'
    omega
  rw [hse.1, hse.2] at hp
  refine ⟨s, e, hs, he, hb, h1, h2, h3, h4, ?_, ?_⟩
  · simp only [getitemSlice, hp, Option.map_some, transmitAF]
  · intro i
    rw [stepAux_getElem? c hc, List.getElem?_drop, List.getElem?_take, Nat.zero_add]

/-- `track[a:b]` with `0 ≤ a`, `0 ≤ b` (no step): the observations at the positions `a ≤ j < b` -/
theorem getitemSlice_simple (tr : Track) (a b : Nat) :
    getitemSlice tr (some (a : Int)) (some (b : Int)) none = some ⟨(tr.pts.take b).drop a, tr.table⟩ := by
  obtain ⟨s, e, _, _, _, h1, _, h3, _, h, hi⟩ := getitemSlice_spec tr (some (a : Int)) (some (b : Int)) 1 (by omega)
  have hs := h1 a rfl
  have he := h3 b rfl
  have : getitemSlice tr (some (a : Int)) (some (b : Int)) none =
      getitemSlice tr (some (a : Int)) (some (b : Int)) (some ((1 : Nat) : Int)) := rfl
  rw [this, h]
  congr 2
  apply List.ext_getElem?
  intro i
  rw [hi i, List.getElem?_drop, List.getElem?_take, Nat.mul_one]
  by_cases hlt : a + i < tr.pts.length
  · have e1 : s + i = a + i := by omega
    by_cases hb : a + i < b
    · rw [if_pos (by omega), if_pos hb, e1]
    · rw [if_neg (by omega), if_neg hb]
  · have hn : tr.pts[a + i]? = none := List.getElem?_eq_none (by omega)
    by_cases hb : a + i < b
    · rw [if_pos hb, hn, if_neg (by omega)]
    · rw [if_neg hb, if_neg (by omega)]

/-! ## `sortRadix` (after fix b323645: the year buckets span the earliest to the latest year of the track) -/

/-- the six key functions of `sortRadix`, most significant first: `year`, `month-1`, `day-1`, `hour`, `min`,
`sec*1000+ms` of the observation at a position -/
def radixKeys (digits : Nat → List Int) : List (Nat → Int) :=
  [5, 4, 3, 2, 1, 0].map (fun k => fun id => (digits id).getD k 0)

/-- `sortRadix()` when the five lower digits are inside their buckets (`0 ≤ sec*1000+ms < 60000`, `min < 60`,
`hour < 24`, `1 ≤ day ≤ 31`, `1 ≤ month ≤ 12`) — the YEARS ARE ARBITRARY integers (before 1970, after 2069, both in
one track): no `IndexError`; the result is the same observations (a permutation), ordered lexicographically by
(year, month, day, hour, min, sec·1000+ms), and observations with equal keys keep their order (`i < j`): a
stable sort. The empty track is included (no year bucket at all). -/
theorem sortRadix_spec (l : List α) (digits : Nat → List Int)
    (hd : ∀ i, i < l.length → ∀ k, k < 5 → 0 ≤ (digits i).getD k 0 ∧ (digits i).getD k 0 < (radixBuckets.getD k 0 : Nat)) :
    ∃ ids r, sortRadixIds digits l.length = some ids ∧ sortRadix l digits = some r ∧
      ids.Perm (List.range l.length) ∧ r = ids.filterMap (fun i => l[i]?) ∧ r.Perm l ∧
      ids.Pairwise (LexLe (· < ·) (radixKeys digits)) := by
  have hk : ∀ p ∈ (radixBuckets.zipIdx.map (fun p => ((p.1, fun id => (digits id).getD p.2 0) : Nat × (Nat → Int))) ++
        [yearPass digits l.length]),
      ∀ i ∈ List.range l.length, 0 ≤ p.2 i ∧ p.2 i < (p.1 : Int) := by
    intro p hp i hi
    have hi' := List.mem_range.mp hi
    rcases List.mem_append.mp hp with hp | hp
    · simp only [radixBuckets, List.zipIdx_cons, List.zipIdx_nil, List.map_cons, List.map_nil, List.mem_cons,
        List.not_mem_nil, or_false] at hp
      rcases hp with rfl | rfl | rfl | rfl | rfl
      · exact hd i hi' 0 (by omega)
      · exact hd i hi' 1 (by omega)
      · exact hd i hi' 2 (by omega)
      · exact hd i hi' 3 (by omega)
      · exact hd i hi' 4 (by omega)
    · have : p = yearPass digits l.length := by simpa using hp
      subst this
      exact yearPass_inRange digits l.length i hi'
  obtain ⟨ids, e, hp, hs⟩ := runPasses_spec (· < ·) _ [] (List.range l.length) hk
    (by simpa [LexLe] using List.pairwise_lt_range (n := l.length))
  have hin : ∀ i ∈ ids, i < l.length := fun i hi => List.mem_range.mp (hp.mem_iff.mp hi)
  refine ⟨ids, ids.filterMap (fun i => l[i]?), e, ?_, hp, rfl, ?_, ?_⟩
  · unfold sortRadix
    have e' : sortRadixIds digits l.length = some ids := e
    simp only [e']
    exact gather_eq l ids hin
  · have := hp.filterMap (fun i => l[i]?)
    rw [filterMap_range_getElem?] at this
    exact this
  · have hs' : ids.Pairwise (LexLe (· < ·)
        ((fun id => yearDigit digits id - minD ((List.range l.length).map (yearDigit digits)) 0) ::
          [4, 3, 2, 1, 0].map (fun k => fun id => (digits id).getD k 0))) := by
      simpa [radixBuckets, yearPass] using hs
    refine hs'.imp ?_
    intro i j h
    exact (lexLe_shift (· < ·) (yearDigit digits) _ _ i j).mp h

/-- `sortRadix()` sorts by time: if the lexicographic order of the digits implies the order of the timestamps
(C03: the field-wise order of `ObsTime` is the order of the epoch instants), the result is non-decreasing in time. -/
theorem sortRadix_sorted (l : List Obs) (digits : Nat → List Int)
    (hd : ∀ i, i < l.length → ∀ k, k < 5 → 0 ≤ (digits i).getD k 0 ∧ (digits i).getD k 0 < (radixBuckets.getD k 0 : Nat))
    (hkey : ∀ i j (a b : Obs), l[i]? = some a → l[j]? = some b → LexLe (· < ·) (radixKeys digits) i j → a.time ≤ b.time) :
    ∃ r, sortRadix l digits = some r ∧ r.Perm l ∧ r.Pairwise (fun a b => a.time ≤ b.time) := by
  obtain ⟨ids, r, _, h, _, hr, hperm, hs⟩ := sortRadix_spec l digits hd
  refine ⟨r, h, hperm, ?_⟩
  rw [hr]
  refine List.Pairwise.filterMap _ ?_ hs
  intro i j hij a ha b hb
  exact hkey i j a b ha hb hij

/-- the digits `sortRadix` reads from an `ObsTime` (C03's `Stamp`), least significant first -/
def stampDigits (t : TV.ObsTime.Stamp) : List Int :=
  [(t.d.sec : Int) * 1000 + t.ms, t.d.min, t.d.hour, (t.d.day : Int) - 1, (t.d.month : Int) - 1, t.d.year]

/-- the lexicographic order of the digits of two well-formed timestamps is the order of their epoch instants -/
theorem lex_stamps (a b : TV.ObsTime.Stamp) (ha : TV.ObsTime.WFs a) (hb : TV.ObsTime.WFs b) (i j : Nat)
    (keys : Nat → List Int) (hi : keys i = stampDigits a) (hj : keys j = stampDigits b)
    (h : LexLe (· < ·) (radixKeys keys) i j) :
    TV.ObsTime.toAbsMs a < TV.ObsTime.toAbsMs b ∨ (TV.ObsTime.toAbsMs a = TV.ObsTime.toAbsMs b ∧ i < j) := by
  have ha2 := ha.2
  have hb2 := hb.2
  simp only [radixKeys, List.map_cons, List.map_nil, LexLe, hi, hj, stampDigits, List.getD_cons_succ,
    List.getD_cons_zero] at h
  have hlt : TV.ObsTime.ltS a b = true → TV.ObsTime.toAbsMs a < TV.ObsTime.toAbsMs b :=
    (TV.ObsTime.ltS_iff a b ha hb).mp
  rcases h with h | ⟨e1, h⟩
  · left; apply hlt
    have : a.d.year ≠ b.d.year := by omega
    have h' : a.d.year < b.d.year := by omega
    simp [TV.ObsTime.ltS, this, h']
  have e1' : a.d.year = b.d.year := by omega
  rcases h with h | ⟨e2, h⟩
  · left; apply hlt
    have : a.d.month ≠ b.d.month := by omega
    have h' : a.d.month < b.d.month := by omega
    simp [TV.ObsTime.ltS, e1', this, h']
  have e2' : a.d.month = b.d.month := by omega
  rcases h with h | ⟨e3, h⟩
  · left; apply hlt
    have : a.d.day ≠ b.d.day := by omega
    have h' : a.d.day < b.d.day := by omega
    simp [TV.ObsTime.ltS, e1', e2', this, h']
  have e3' : a.d.day = b.d.day := by omega
  rcases h with h | ⟨e4, h⟩
  · left; apply hlt
    have : a.d.hour ≠ b.d.hour := by omega
    have h' : a.d.hour < b.d.hour := by omega
    simp [TV.ObsTime.ltS, e1', e2', e3', this, h']
  have e4' : a.d.hour = b.d.hour := by omega
  rcases h with h | ⟨e5, h⟩
  · left; apply hlt
    have : a.d.min ≠ b.d.min := by omega
    have h' : a.d.min < b.d.min := by omega
    simp [TV.ObsTime.ltS, e1', e2', e3', e4', this, h']
  have e5' : a.d.min = b.d.min := by omega
  rcases h with h | ⟨e6, h⟩
  · left; apply hlt
    by_cases hs : a.d.sec = b.d.sec
    · have h' : a.ms < b.ms := by omega
      simp [TV.ObsTime.ltS, e1', e2', e3', e4', e5', hs, h']
    · have h' : a.d.sec < b.d.sec := by omega
      simp [TV.ObsTime.ltS, e1', e2', e3', e4', e5', hs, h']
  · right
    have e6' : a.d.sec = b.d.sec := by omega
    have e7' : a.ms = b.ms := by omega
    refine ⟨?_, h⟩
    simp [TV.ObsTime.toAbsMs, TV.ObsTime.toAbsSec, e1', e2', e3', e4', e5', e6', e7']

/-- For EVERY track of well-formed timestamps (C03's `WFs`: a calendar date from 1970 on, no upper bound on the
year) `sortRadix` is a stable sort by time: no exception, the same observations, non-decreasing epoch instants, and
observations with the same instant keep their order. -/
theorem sortRadix_stamps (l : List α) (stamp : α → TV.ObsTime.Stamp) (hwf : ∀ x ∈ l, TV.ObsTime.WFs (stamp x)) :
    ∃ (ids : List Nat) (r : List α), sortRadix l (fun i => (l[i]?.map (fun x => stampDigits (stamp x))).getD []) = some r ∧
      ids.Perm (List.range l.length) ∧ r = ids.filterMap (fun i => l[i]?) ∧ r.Perm l ∧
      r.Pairwise (fun a b => TV.ObsTime.toAbsMs (stamp a) ≤ TV.ObsTime.toAbsMs (stamp b)) ∧
      ids.Pairwise (fun i j => ∀ a b, l[i]? = some a → l[j]? = some b →
        TV.ObsTime.toAbsMs (stamp a) < TV.ObsTime.toAbsMs (stamp b) ∨
          (TV.ObsTime.toAbsMs (stamp a) = TV.ObsTime.toAbsMs (stamp b) ∧ i < j)) := by
  have hdig : ∀ (i : Nat) (x : α), l[i]? = some x →
      (l[i]?.map (fun x => stampDigits (stamp x))).getD [] = stampDigits (stamp x) := by
    intro i x h; simp [h]
  have hd : ∀ i : Nat, i < l.length → ∀ k, k < 5 →
      0 ≤ ((l[i]?.map (fun x => stampDigits (stamp x))).getD []).getD k 0 ∧
      ((l[i]?.map (fun x => stampDigits (stamp x))).getD []).getD k 0 < (radixBuckets.getD k 0 : Nat) := by
    intro i hi k hk
    have hx : l[i]? = some l[i] := List.getElem?_eq_getElem hi
    rw [hdig i l[i] hx]
    obtain ⟨⟨_, hm1, hm2, hd1, hd2, hh, hmi, hs⟩, hms⟩ := hwf l[i] (List.getElem_mem hi)
    have hmd := TV.ObsTime.monthDays_le (stamp l[i]).d.year ((stamp l[i]).d.month - 1)
    have : k = 0 ∨ k = 1 ∨ k = 2 ∨ k = 3 ∨ k = 4 := by omega
    rcases this with rfl | rfl | rfl | rfl | rfl <;>
      simp only [stampDigits, radixBuckets, List.getD_cons_succ, List.getD_cons_zero] <;> omega
  obtain ⟨ids, r, _, h, hp, hr, hperm, hs⟩ := sortRadix_spec l _ hd
  have hstab : ids.Pairwise (fun i j => ∀ a b, l[i]? = some a → l[j]? = some b →
      TV.ObsTime.toAbsMs (stamp a) < TV.ObsTime.toAbsMs (stamp b) ∨
        (TV.ObsTime.toAbsMs (stamp a) = TV.ObsTime.toAbsMs (stamp b) ∧ i < j)) := by
    refine hs.imp ?_
    intro i j hij a b hia hjb
    exact lex_stamps (stamp a) (stamp b) (hwf a (List.mem_of_getElem? hia)) (hwf b (List.mem_of_getElem? hjb)) i j _
      (hdig i a hia) (hdig j b hjb) hij
  refine ⟨ids, r, h, hp, hr, hperm, ?_, hstab⟩
  rw [hr]
  refine List.Pairwise.filterMap _ ?_ hstab
  intro i j hij a ha b hb
  have := hij a b ha hb
  omega

/-! ## T1 — the dichotomy stays in range and terminates -/

/-- T1. For ANY timestamps (sorted or not), any size `N` and any first step `2^j` with `2·2^j ≤ N`, the
search loop of `__getInsertionIndex`, run with an element access that raises on EVERY index outside
`0..N-1` (`strictGet`: no negative wrap-around), terminates within the fuel `j + N + 3` without any
error, at an index `0 ≤ r ≤ N-1`. So every index the loop reads is in `0..N-1`. -/
theorem dichotomy_in_range (T : List Int) (ts : Int) (j : Nat) (hj : 2 * 2 ^ j ≤ T.length) :
    ∃ r : Nat, searchLoop (strictGet T) T.length ts (j + T.length + 3) 0 ((2 : Int) ^ j) = .ok (r : Int)
      ∧ r + 1 ≤ T.length := by
  have hj' : (0 : Int) + 2 * (2 : Int) ^ j ≤ (T.length : Int) := by
    have : ((2 * 2 ^ j : Nat) : Int) ≤ (T.length : Int) := by exact_mod_cast hj
    simpa using this
  exact (searchLoop_halving (strictGet_readsOn T) j 0 (j + T.length + 3) (by omega)).1 ⟨by omega, hj'⟩

/-- T1 for the whole function, as the code computes its first step (`2^(⌊log₂ N⌋-1)`): on every list
of timestamps the three loops, run with the strict element access, return an index `0 ≤ r ≤ N`
(no `IndexError`, no read outside `0..N-1`, fuel sufficient), and the model as run (Python's
wrapping `L[i]`) returns the same index. -/
theorem insertionIndex_no_index_error (T : List Int) (ts : Int) :
    ∃ r : Nat, r ≤ T.length ∧
      insertionIndexWith (strictGet T) (ilog2 T.length - 1) T ts = .ok (r : Int) ∧
      insertionIndex T ts = .ok (r : Int) := by
  have key : ∃ r : Nat, r ≤ T.length ∧
      insertionIndexWith (strictGet T) (ilog2 T.length - 1) T ts = .ok (r : Int) := by
    match T with
    | [] => exact ⟨0, by simp, rfl⟩
    | [t0] =>
      by_cases h : t0 < ts
      · exact ⟨1, by simp, by simp [insertionIndexWith, h]⟩
      · exact ⟨0, by simp, by simp [insertionIndexWith, h]⟩
    | a :: b :: rest =>
      have hN : 2 ≤ (a :: b :: rest).length := by simp
      obtain ⟨_, r2, h, _, _, hr2, _⟩ := insertionIndexWith_run (ts := ts)
        (strictGet_readsOn (a :: b :: rest)) _ hN (ilog2_first_step _ hN)
      exact ⟨r2, hr2, h⟩
  obtain ⟨r, hr, h⟩ := key
  exact ⟨r, hr, h, insertionIndexWith_mono (strictGet_sub_pyGet T) _ T ts _ h⟩

/-! ## T2 — the insertion index on a time-sorted track -/

/-- T2. On time-sorted timestamps (`N ≥ 2`), for any first step `2^j` with `2·2^j ≤ N` (so also for an
under-estimate of `⌊log₂ N⌋`), the result is the upper-bound insertion point: the number of timestamps
`≤ ts`. -/
theorem insertionIndexFrom_spec (T : List Int) (ts : Int) (j : Nat) (hN : 2 ≤ T.length)
    (hj : 2 * 2 ^ j ≤ T.length) (hs : T.Pairwise (· ≤ ·)) :
    insertionIndexFrom j T ts = .ok ((T.countP (fun t => decide (t ≤ ts)) : Nat) : Int) := by
  obtain ⟨r, h, hr, h1, h2⟩ := insertionIndexWith_bounds (ts := ts) (pyGet_readsOn T) j hN hj hs
  have : T.countP (fun t => decide (t ≤ ts)) = r := by
    apply countP_of_split T _ r hr
    · intro k t hk hkt; simpa using h1 k t hk hkt
    · intro k t hk hkt; have := h2 k t hk hkt; simp; omega
  rw [this]; exact h

/-- T2 with the first step the code computes; a single observation is the one special case of the
code: there the new observation goes BEFORE an equal timestamp (`countP (· < ts)`). -/
theorem insertionIndex_spec (T : List Int) (ts : Int) (hs : T.Pairwise (· ≤ ·)) :
    insertionIndex T ts = .ok ((if T.length = 1 then T.countP (fun t => decide (t < ts))
      else T.countP (fun t => decide (t ≤ ts)) : Nat) : Int) := by
  match T, hs with
  | [], _ => rfl
  | [t0], _ =>
    by_cases h : t0 < ts <;> simp [insertionIndex, insertionIndexFrom, insertionIndexWith, h]
  | a :: b :: rest, hs =>
    have hN : 2 ≤ (a :: b :: rest).length := by simp
    have hne : ¬ ((a :: b :: rest).length = 1) := by simp
    rw [if_neg hne]
    exact insertionIndexFrom_spec _ ts _ hN (ilog2_first_step _ hN) hs

/-! ## T3 — chronological insertion -/

/-- on EVERY track (sorted or not) `insertObs(obs)` succeeds and yields the old observations in their
order with the new one inserted at some position `r ≤ N`; the feature table is unchanged. -/
theorem insert_total (tr : Track) (o : Obs) :
    ∃ r : Nat, r ≤ tr.pts.length ∧
      insertChrono tr o = some ⟨tr.pts.take r ++ o :: tr.pts.drop r, tr.table⟩ := by
  obtain ⟨r, hr, _, h⟩ := insertionIndex_no_index_error (tr.pts.map (·.time)) o.time
  rw [List.length_map] at hr
  exact ⟨r, hr, insertChrono_of_index tr o r hr h⟩

/-- T3. Inserting an observation without an index into a time-sorted track leaves it sorted: the
result is the old observations in their order with the new one at a position `r`, it is a permutation
of `new :: old` (every record intact), and it is non-decreasing in time. -/
theorem insert_sorted (tr : Track) (o : Obs) (hs : tr.pts.Pairwise (fun a b => a.time ≤ b.time)) :
    ∃ r : Nat, r ≤ tr.pts.length ∧
      insertChrono tr o = some ⟨tr.pts.take r ++ o :: tr.pts.drop r, tr.table⟩ ∧
      (tr.pts.take r ++ o :: tr.pts.drop r).Perm (o :: tr.pts) ∧
      (tr.pts.take r ++ o :: tr.pts.drop r).Pairwise (fun a b => a.time ≤ b.time) := by
  have hT : (tr.pts.map (·.time)).Pairwise (· ≤ ·) := List.pairwise_map.mpr hs
  obtain ⟨r, hr, h, h1, h2⟩ := insertionIndex_split (tr.pts.map (·.time)) o.time hT
  rw [List.length_map] at hr
  refine ⟨r, hr, insertChrono_of_index tr o r hr h, ?_, ?_⟩
  · rw [← insertIdx_eq_take_drop tr.pts r o hr]; exact List.perm_insertIdx o tr.pts hr
  · have hsplit : (tr.pts.take r ++ tr.pts.drop r).Pairwise (fun a b => a.time ≤ b.time) := by
      rw [List.take_append_drop]; exact hs
    obtain ⟨hA, hB, hAB⟩ := List.pairwise_append.mp hsplit
    have hbefore : ∀ a ∈ tr.pts.take r, a.time ≤ o.time := by
      intro a ha
      obtain ⟨k, hk⟩ := List.mem_iff_getElem?.mp ha
      rw [List.getElem?_take] at hk
      by_cases hkr : k < r
      · rw [if_pos hkr] at hk
        exact h1 k a.time hkr (by rw [List.getElem?_map, hk]; rfl)
      · rw [if_neg hkr] at hk; cases hk
    have hafter : ∀ b ∈ tr.pts.drop r, o.time ≤ b.time := by
      intro b hb
      obtain ⟨k, hk⟩ := List.mem_iff_getElem?.mp hb
      rw [List.getElem?_drop] at hk
      exact h2 (r + k) b.time (by omega) (by rw [List.getElem?_map, hk]; rfl)
    refine List.pairwise_append.mpr ⟨hA, List.pairwise_cons.mpr ⟨hafter, hB⟩, ?_⟩
    intro a ha b hb
    rcases List.mem_cons.mp hb with rfl | hb
    · exact hbefore a ha
    · exact hAB a ha b hb

/-! ## T4 — sort -/

/-- contract assumed of `np.argsort(timestamps)`: a permutation of the positions `0..N-1` along
which the timestamps are non-decreasing (nothing is assumed about the order of equal timestamps). -/
def IsArgsort (T : List Int) (perm : List Nat) : Prop :=
  perm.Perm (List.range T.length) ∧
    perm.Pairwise (fun i j => ∀ a b, T[i]? = some a → T[j]? = some b → a ≤ b)

/-- `sort()` with ANY sorting permutation returned by `argsort`: the result consists of the same
observations (each record unchanged: it is a permutation of the list of records), in
non-decreasing time order, and the feature table is unchanged. -/
theorem sort_spec (tr : Track) (perm : List Nat) (h : IsArgsort (tr.pts.map (·.time)) perm) :
    ∃ r, sortWith perm tr = some r ∧ r.table = tr.table ∧ r.pts.Perm tr.pts ∧
      r.pts.Pairwise (fun a b => a.time ≤ b.time) := by
  obtain ⟨hperm, hsorted⟩ := h
  rw [List.length_map] at hperm
  have hin : ∀ i ∈ perm, i < tr.pts.length := by
    intro i hi; exact List.mem_range.mp (hperm.mem_iff.mp hi)
  refine ⟨⟨perm.filterMap (fun i => tr.pts[i]?), tr.table⟩, ?_, rfl, ?_, ?_⟩
  · simp [sortWith, gather_eq tr.pts perm hin]
  · have := hperm.filterMap (fun i => tr.pts[i]?)
    rw [filterMap_range_getElem?] at this
    exact this
  · refine List.Pairwise.filterMap _ ?_ hsorted
    intro i j hij a ha b hb
    apply hij a.time b.time <;> simp [ha, hb]

/-- the model's `argsort` (stable merge sort of the positions) satisfies the contract. -/
theorem argsort_isArgsort (T : List Int) : IsArgsort T (argsort T) :=
  ⟨argsort_perm T, argsort_sorted T⟩

/-- `sort()` as run by the driver. -/
theorem sortByTime_spec (tr : Track) :
    ∃ r, sortByTime tr = some r ∧ r.table = tr.table ∧ r.pts.Perm tr.pts ∧
      r.pts.Pairwise (fun a b => a.time ≤ b.time) :=
  sort_spec tr _ (argsort_isArgsort _)


/-! ## non-vacuity: the hypotheses are satisfiable by non-trivial inputs, and witnesses -/

/-- a time-sorted track with a tie, of power-of-two size, satisfies the hypotheses of T1–T3 -/
example : ([1, 3, 3, 7, 9, 9, 13, 15] : List Int).Pairwise (· ≤ ·) := by decide
example : 2 * 2 ^ 2 ≤ ([1, 3, 3, 7, 9, 9, 13, 15] : List Int).length := by decide
example : insertionIndex [1, 3, 3, 7, 9, 9, 13, 15] 3 = .ok 3 := by decide +kernel
example : insertionIndex [1, 3, 3, 7, 9, 9, 13, 15] 0 = .ok 0 := by decide +kernel
example : insertionIndex [1, 3, 3, 7, 9, 9, 13, 15] 16 = .ok 8 := by decide +kernel
/-- the negative unit step does not vanish (`-1 >> 1 = -1`): insertion before four equal timestamps
reaches index 0 through the leftward walk (2 → 1 → 0 with step -1, then `break`) -/
example : searchLoop (strictGet [1, 1, 1, 1]) 4 0 8 0 2 = .ok 0 := by decide +kernel
/-- the one-observation special case puts the new observation before an equal timestamp -/
example : insertionIndex [5] 5 = .ok 0 := by decide +kernel
/-- distinct valid indices in any order -/
example : (∀ x ∈ ([2, 0] : List Int), 0 ≤ x ∧ x < ([10, 11, 12, 13] : List Nat).length) ∧ ([2, 0] : List Int).Nodup := by
  decide
example : atIdx (fun j => !([2, 0] : List Int).contains (j : Int)) [10, 11, 12, 13] = [11, 13] := by decide
/-- regression witness of fix 8550bff: `track < n` with `n > size` is empty -/
example : dropLast ⟨[⟨0, 1, [0]⟩, ⟨1, 3, [10]⟩], [("f", 0)]⟩ 3 = ⟨[], [("f", 0)]⟩ := by decide +kernel
/-- a sorting permutation that is NOT the stable one also satisfies the contract of `sort_spec` -/
example : IsArgsort [3, 1, 3] [1, 2, 0] := by
  refine ⟨by decide, ?_⟩
  simp

/-! ### the feature table: layouts reached through the public interface, and what `+` does with them -/

/-- two observations with the features `f` then `g` created in this order -/
def exT1 : Track := ⟨[⟨0, 1, [10, 20]⟩, ⟨1, 3, [11, 21]⟩], [("f", 0), ("g", 1)]⟩
/-- the same names, `f` removed and re-created: the columns are `g`, `f` -/
def exT2 : Track := ⟨[⟨50, 5, [70, 60]⟩], [("g", 0), ("f", 1)]⟩

/-- the layouts are what `createAnalyticalFeature` / `removeAnalyticalFeature` produce -/
example : ((createAF ⟨[⟨50, 5, []⟩], []⟩ "f" [0]).bind (fun t => (createAF t "g" [70]).bind (fun t =>
    (removeAF t "f").bind (fun t => createAF t "f" [60])))) = some exT2 := by decide +kernel
example : WF exT1.table ∧ WF exT2.table := by
  refine ⟨⟨by decide, by decide⟩, ⟨by decide, by decide⟩⟩
/-- every observation reads its own values by name, whatever the column order -/
example : readAF exT1 "f" 1 = .val 11 ∧ readAF exT2 "f" 0 = .val 60 ∧ readAF exT2 "g" 0 = .val 70 := by decide +kernel
/-- same SET of names in another order: the sum lists no feature (hypothesis of `concat_names_differ`) -/
example : exT1.names ≠ exT2.names ∧ (concat exT1 exT2).table = [] := by decide +kernel
/-- same names in the same order (hypotheses of `concat_carries`): the observations of the right operand read
their own values in the sum -/
example : exT1.names = (dropFirst exT1 1).names ∧ readAF (concat exT1 (dropFirst exT1 1)) "g" 2 = .val 21 := by
  decide +kernel
/-- why `concat_carries` needs well-formed tables: `__add__` compares the NAMES only; with the same names on other
columns (a table no sequence of creations / removals produces) an observation of the right operand would read
another feature's value -/
example : let t2 : Track := ⟨[⟨50, 5, [70, 60]⟩], [("f", 1), ("g", 0)]⟩
    exT1.names = t2.names ∧ readAF t2 "f" 0 = .val 60 ∧ readAF (concat exT1 t2) "f" 2 = .val 70 := by decide +kernel
/-- a slice with bounds from the end and a step: positions 1, 3 of 5 -/
example : (getitemSlice ⟨[⟨0, 1, []⟩, ⟨1, 2, []⟩, ⟨2, 3, []⟩, ⟨3, 4, []⟩, ⟨4, 5, []⟩], []⟩ (some (-4)) none (some 2)).map
    (fun t => t.pts.map (·.tag)) = some [1, 3] := by decide +kernel
/-- the hypotheses of `finalPool_good` are satisfiable: a good pool, a sequence with an insertion -/
example : let own : Nat → String → Int := fun tag nm => if nm = "f" then 10 + tag else 20 + tag
    Good own exT1 ∧ OpOk own (.insert 0 7 2 [("f", 17), ("g", 27)]) ∧ OpOk own (.add 0 0) := by
  refine ⟨⟨⟨by decide, by decide⟩, ?_⟩, ?_, trivial⟩
  · intro o ho nm hnm
    simp only [exT1, List.mem_cons, List.not_mem_nil, or_false] at ho
    simp only [Track.names, exT1, List.map_cons, List.map_nil, List.mem_cons, List.not_mem_nil, or_false] at hnm
    rcases ho with rfl | rfl <;> rcases hnm with rfl | rfl <;> decide
  · intro nm v h
    simp only [lookVal, List.find?_cons, List.find?_nil] at h
    by_cases h1 : nm = "f"
    · subst h1; simp at h; simp [← h]
    · by_cases h2 : nm = "g"
      · subst h2; simp at h; simp [← h]
      · have e1 : ("f" == nm) = false := by simp [Ne.symm h1]
        have e2 : ("g" == nm) = false := by simp [Ne.symm h2]
        simp [e1, e2] at h
/-- `sortRadix`: the digits of 2000-01-01 00:00:00.500 are inside their buckets (hypothesis of `sortRadix_spec`) -/
example : ∀ k, k < 5 → 0 ≤ ([500, 0, 0, 0, 0, 2000] : List Int).getD k 0 ∧
    ([500, 0, 0, 0, 0, 2000] : List Int).getD k 0 < (radixBuckets.getD k 0 : Nat) := by decide
/-- the year pass of the two regression witnesses of fix b323645: 2070 and 2000 get the buckets 70 and 0 of 71;
1969, 2000, 1971 get 0, 31, 2 of 32; the empty track has no year bucket -/
example : (yearPass (fun i => [[0, 0, 0, 0, 0, 2070], [0, 0, 0, 0, 0, 2000]].getD i []) 2).1 = 71 ∧
    (yearPass (fun i => [[0, 0, 0, 0, 0, 1969], [0, 0, 0, 0, 0, 2000], [0, 0, 0, 0, 0, 1971]].getD i []) 3).1 = 32 ∧
    (yearPass (fun _ => []) 0).1 = 0 := by decide +kernel
/-- 2000-02-29 12:00:00.500 is a well-formed timestamp (hypothesis of `sortRadix_stamps`) -/
example : TV.ObsTime.WFs ⟨⟨2000, 2, 29, 12, 0, 0⟩, 500⟩ := by
  refine ⟨⟨by decide, by decide, by decide, by decide, by decide, by decide, by decide, by decide⟩, by decide⟩
/-- two passes on small buckets (least significant first): the second key decides, the first breaks its ties,
equal pairs keep their order -/
example : runPasses [(3, fun i => [2, 0, 2, 1].getD i 0), (2, fun i => [1, 1, 0, 1].getD i 0)] [0, 1, 2, 3] = some [2, 1, 3, 0] := by
  decide +kernel
/-- a key outside the buckets (a month 13): `IndexError`, as in the code -/
example : bucketPass 12 (fun _ => 12) [0] = none := by decide +kernel

end TV.C04
