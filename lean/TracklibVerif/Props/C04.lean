import TracklibVerif.Lemmas.Seq
import TracklibVerif.Lemmas.SeqSearch
import TracklibVerif.Lemmas.SeqFeat
import TracklibVerif.Lemmas.SeqRadix
/-! # C04 — sequence operations on a track select exactly the designated observations

Property theorems only (helper lemmas: `Lemmas/Seq.lean`, `Lemmas/SeqSearch.lean`). The model is
`Model/Seq.lean`; observations are opaque records `(tag, time, feature values)`, so "the same
observation with its own position, timestamp and feature values" is equality of records, and every
statement below is for lists of any length. The model is purely functional: the source track of an
operator is an argument that the result does not replace, so "without modifying the source track"
is checked on the real code by the harness (output `src`). -/
namespace TV.C04
open TV.Seq
variable {α : Type}

/-- the sub-sequence of `l` at the positions satisfying `p`, in the original order -/
def atIdx (p : Nat → Bool) (l : List α) : List α := (l.zipIdx.filter (fun q => p q.2)).map (·.1)

/-! ## T5 — slicing operators -/

/-- `extract(a, b)` with `b` a valid index returns exactly the observations `a, a+1, …, b`
(both ends included; none when `a > b`), with the feature-name table of the source. -/
theorem extract_spec (tr : Track) (a b : Nat) (hb : b < tr.pts.length) :
    extract tr a b = some ⟨(tr.pts.drop a).take (b + 1 - a), tr.table⟩ := by
  unfold extract transmitAF
  have e : ((b : Int) + 1 - (a : Int)).toNat = b + 1 - a := by omega
  rw [e]
  by_cases h : a ≤ b
  · rw [extractLoop_eq _ a (b + 1 - a) (by omega)]; rfl
  · have : b + 1 - a = 0 := by omega
    rw [this]; simp [extractLoop]

/-- `extractSpanTime(t1, t2)` returns exactly the observations whose timestamp lies in the closed
interval between the two bounds, whichever order the bounds are given in. -/
theorem extractSpanTime_spec (tr : Track) (t1 t2 : Int) :
    extractSpanTime tr t1 t2 =
      ⟨tr.pts.filter (fun o => decide (min t1 t2 ≤ o.time ∧ o.time ≤ max t1 t2)), tr.table⟩ := by
  unfold extractSpanTime transmitAF
  show Track.mk _ _ = Track.mk _ _
  congr 1
  apply List.filter_congr
  intro o _
  by_cases h : t1 > t2
  · simp only [h, if_true]
    rw [Bool.eq_iff_iff]; simp only [Bool.and_eq_true, Bool.not_eq_true', decide_eq_false_iff_not, decide_eq_true_eq]
    omega
  · simp only [h, if_false]
    rw [Bool.eq_iff_iff]; simp only [Bool.and_eq_true, Bool.not_eq_true', decide_eq_false_iff_not, decide_eq_true_eq]
    omega

/-- `t1 + t2` is the observations of `t1` followed by those of `t2`. Its table is decided by the two lists of
NAMES only: the table of `t1` when they are equal position by position, the empty table otherwise
(different sets, the same names in another order, one side without features). -/
theorem concat_spec (t1 t2 : Track) :
    (concat t1 t2).pts = t1.pts ++ t2.pts ∧
      (concat t1 t2).table = if t1.names = t2.names then t1.table else [] := by
  refine ⟨rfl, ?_⟩
  unfold concat
  by_cases h : t1.names = t2.names
  · simp [h, (sameNames_iff t2.names t2.names).mpr rfl]
  · have : sameNames t1.names t2.names = false := by
      cases hs : sameNames t1.names t2.names with
      | false => rfl
      | true => exact absurd ((sameNames_iff _ _).mp hs) h
    simp [h, this]

/-- `track % n` (`n ≥ 1`) keeps exactly the observations at positions `0, n, 2n, …`: it is the
sub-sequence at the positions `≡ 0 (mod n)`, and its `i`-th observation is the source's `(i·n)`-th. -/
theorem decimateStep_spec (tr : Track) (n : Nat) (hn : 1 ≤ n) :
    ∃ r, decimateStep tr n = some r ∧ r.table = tr.table ∧
      r.pts = atIdx (fun j => j % n == 0) tr.pts ∧ ∀ i, r.pts[i]? = tr.pts[i * n]? := by
  have h0 : ¬ ((n : Int) = 0) := by omega
  have h1 : (n : Int) > 0 := by omega
  refine ⟨⟨stepAux n 0 tr.pts, tr.table⟩, ?_, rfl, ?_, ?_⟩
  · simp only [decimateStep, pyStep, if_neg h0, if_pos h1, Int.toNat_natCast, transmitAF, Option.map_some]
  · show stepAux n 0 tr.pts = _
    rw [stepAux_eq_keepIdx n hn 0 0 tr.pts (by omega) (by simp), keepIdx_eq_zipIdx]; rfl
  · intro i
    show (stepAux n 0 tr.pts)[i]? = _
    rw [stepAux_getElem? n hn]; simp

/-- `track % pattern` keeps exactly the observations whose position `j` has `pattern[j mod len]` true. -/
theorem decimatePattern_spec (tr : Track) (pat : List Bool) (hp : pat ≠ []) :
    decimatePattern tr pat =
      some ⟨atIdx (fun j => pat[j % pat.length]?.getD false) tr.pts, tr.table⟩ := by
  have : pat.isEmpty = false := by cases pat <;> simp_all
  simp only [decimatePattern, this, Bool.false_and, Bool.false_eq_true, if_false, transmitAF]
  rw [patLoop_eq_keepIdx, keepIdx_eq_zipIdx]; rfl

/-- `track > n` drops exactly the first `n` observations (all of them when `n ≥ size`). -/
theorem dropFirst_spec (tr : Track) (n : Nat) : dropFirst tr n = ⟨tr.pts.drop n, tr.table⟩ := by
  simp [dropFirst, pySliceFrom, transmitAF]

/-- `track < n` drops exactly the last `n` observations (all of them when `n ≥ size`; this is the
behaviour after fix 8550bff). -/
theorem dropLast_spec (tr : Track) (n : Nat) :
    dropLast tr n = ⟨tr.pts.take (tr.pts.length - n), tr.table⟩ := by
  unfold dropLast transmitAF
  congr 2
  omega

/-- `removeObsList(tab)` with distinct valid indices (in any order) leaves exactly the observations
whose position is not in `tab`, in order, and returns the number removed. -/
theorem removeByIdx_spec (l : List α) (tab : List Int)
    (hr : ∀ x ∈ tab, 0 ≤ x ∧ x < l.length) (hn : tab.Nodup) :
    removeByIdx l tab = (atIdx (fun j => !tab.contains (j : Int)) l, some tab.length) := by
  rw [removeByIdx_nodup l tab hr hn, keepIdx_eq_zipIdx]; rfl

/-- an index list with a repeated index is refused: nothing is removed and 0 is returned. -/
theorem removeByIdx_refuses_duplicates (l : List α) (tab : List Int) (hn : ¬ tab.Nodup) :
    removeByIdx l tab = (l, some 0) := removeByIdx_dup l tab hn


/-! ## the feature table is carried over: what every observation of a result reads by name

A track's table maps a feature name to a COLUMN of the observations' value lists (`readAF` =
`getObsAnalyticalFeature(name, i)` = `track[name, i]`). `Carries r s` says: `r` has the table of `s` (same names,
same columns), every observation of `r` is an observation of `s`, and it reads under every name exactly what it
read in `s`. It holds for EVERY argument of the operator (also those that designate nothing). Which
observations the result holds is the subject of the `_spec` theorems above. -/

def Carries (r s : Track) : Prop :=
  r.table = s.table ∧ ∀ (i : Nat) (o : Obs), r.pts[i]? = some o →
    ∃ j : Nat, s.pts[j]? = some o ∧ ∀ nm, readAF r nm (i : Int) = readAF s nm (j : Int)

theorem carries_intro {r s : Track} (ht : r.table = s.table) (hm : ∀ o ∈ r.pts, o ∈ s.pts) : Carries r s :=
  ⟨ht, carries_of_mem r s ht hm⟩

/-- `extract(a, b)` (any integers for which the code does not raise) -/
theorem extract_carries (tr : Track) (a b : Int) (r : Track) (h : extract tr a b = some r) : Carries r tr := by
  unfold extract at h
  cases hl : extractLoop tr.pts a (b + 1 - a).toNat with
  | none => simp [hl] at h
  | some p =>
    simp only [hl, Option.map_some, Option.some.injEq] at h
    subst h
    exact carries_intro rfl (extractLoop_subset tr.pts _ a p hl)

/-- `extractSpanTime(t1, t2)` -/
theorem extractSpanTime_carries (tr : Track) (t1 t2 : Int) : Carries (extractSpanTime tr t1 t2) tr :=
  carries_intro rfl (fun _ ho => (List.mem_filter.mp ho).1)

/-- `extractSpanTime(track)`: the span of the other track's first and last observation -/
theorem extractSpanTrack_spec (tr other : Track) (a b : Obs) (ha : other.pts.head? = some a)
    (hb : other.pts.getLast? = some b) :
    extractSpanTrack tr other = some (extractSpanTime tr a.time b.time) := by
  cases hp : other.pts with
  | nil => simp [hp] at ha
  | cons x xs =>
    have hlast : pyGet other.pts (-1) = some b := by
      have hlen : 0 < other.pts.length := by rw [hp]; simp
      have e : ((other.pts.length : Int) + -1).toNat = other.pts.length - 1 := by omega
      have h2 : (0 : Int) ≤ (other.pts.length : Int) + -1 := by omega
      simp only [pyGet, show ¬ ((0 : Int) ≤ -1) by omega, if_false, h2, if_true, e]
      rw [← hb, List.getLast?_eq_getElem?]
    have hfirst : pyGet other.pts 0 = some a := by
      rw [← ha]; simp [pyGet, List.head?_eq_getElem?]
    simp only [extractSpanTrack, hfirst, hlast]

theorem extractSpanTrack_carries (tr other r : Track) (h : extractSpanTrack tr other = some r) : Carries r tr := by
  unfold extractSpanTrack at h
  split at h
  · cases h; exact extractSpanTime_carries tr _ _
  · cases h

/-- `track % n` -/
theorem decimateStep_carries (tr : Track) (n : Int) (r : Track) (h : decimateStep tr n = some r) : Carries r tr := by
  unfold decimateStep pyStep at h
  split at h
  · cases h
  · split at h
    · cases h
      exact carries_intro rfl (stepAux_subset _ 0 tr.pts)
    · cases h
      exact carries_intro rfl (fun o ho => List.mem_reverse.mp (stepAux_subset _ 0 tr.pts.reverse o ho))

/-- `track % pattern` -/
theorem decimatePattern_carries (tr : Track) (pat : List Bool) (r : Track) (h : decimatePattern tr pat = some r) :
    Carries r tr := by
  unfold decimatePattern at h
  split at h
  · cases h
  · cases h; exact carries_intro rfl (patLoop_subset pat 0 tr.pts)

/-- `track > n` -/
theorem dropFirst_carries (tr : Track) (n : Int) : Carries (dropFirst tr n) tr :=
  carries_intro rfl (pySliceFrom_subset tr.pts n)

/-- `track < n` -/
theorem dropLast_carries (tr : Track) (n : Int) : Carries (dropLast tr n) tr :=
  carries_intro rfl (fun _ ho => List.mem_of_mem_take ho)

/-- `track[a:b:c]` -/
theorem getitemSlice_carries (tr : Track) (a b c : Option Int) (r : Track) (h : getitemSlice tr a b c = some r) :
    Carries r tr := by
  unfold getitemSlice at h
  cases hp : pySlice tr.pts a b c with
  | none => simp [hp] at h
  | some p =>
    simp only [hp, Option.map_some, Option.some.injEq] at h
    subst h
    exact carries_intro rfl (pySlice_subset tr.pts a b c p hp)

/-- `sort()` (any permutation `argsort` returns) -/
theorem sort_carries (tr : Track) (perm : List Nat) (r : Track) (h : sortWith perm tr = some r) : Carries r tr := by
  unfold sortWith at h
  cases hp : gather tr.pts perm with
  | none => simp [hp] at h
  | some p =>
    simp only [hp, Option.map_some, Option.some.injEq] at h
    subst h
    exact carries_intro rfl (gather_subset tr.pts perm p hp)

/-- `removeObsList(tab)` (hence `removeObs`, `removeFirstObs`, `removeLastObs`, `popObs`), any index list -/
theorem removeObsList_carries (tr : Track) (tab : List Int) :
    Carries ⟨(removeByIdx tr.pts tab).1, tr.table⟩ tr :=
  carries_intro rfl (removeByIdx_subset tr.pts tab)

/-- `insertObs(obs)`, `insertObs(obs, i)`, `addObs(obs)`: the table is unchanged, the old observations read as
before, the new one reads its own value list through the track's table -/
theorem insert_carries (tr : Track) (o : Obs) (r : Track)
    (h : insertChrono tr o = some r ∨ (∃ i, r = insertAt tr o i) ∨ r = addObs tr o) :
    r.table = tr.table ∧ ∀ (i : Nat) (x : Obs), r.pts[i]? = some x →
      (x = o ∧ ∀ nm, readAF r nm (i : Int) = o.read tr.table nm) ∨
      (∃ j : Nat, tr.pts[j]? = some x ∧ ∀ nm, readAF r nm (i : Int) = readAF tr nm (j : Int)) := by
  have key : r.table = tr.table ∧ ∀ x ∈ r.pts, x = o ∨ x ∈ tr.pts := by
    rcases h with h | ⟨i, h⟩ | h
    · unfold insertChrono at h
      split at h
      · cases h; exact ⟨rfl, fun x hx => pyInsert_mem tr.pts _ o x hx⟩
      · cases h
    · subst h; exact ⟨rfl, fun x hx => pyInsert_mem tr.pts i o x hx⟩
    · subst h
      refine ⟨rfl, fun x hx => ?_⟩
      rcases List.mem_append.mp hx with hx | hx
      · exact Or.inr hx
      · exact Or.inl (by simpa using hx)
  refine ⟨key.1, ?_⟩
  intro i x hi
  rcases key.2 x (List.mem_of_getElem? hi) with e | hm
  · left
    refine ⟨e, fun nm => ?_⟩
    rw [readAF_of_get hi nm, key.1, e]
  · right
    obtain ⟨j, hj⟩ := List.mem_iff_getElem?.mp hm
    exact ⟨j, hj, fun nm => readAF_congr key.1 (hi.trans hj.symm) nm⟩

/-- `t1 + t2` when the two tracks list the same names, both tables being well-formed (distinct names, the column
of a name is its rank: what `createAnalyticalFeature` / `removeAnalyticalFeature` build, `createAF_wf`,
`removeAF_wf`): the sum has that table and EVERY observation — those of `t2` too — reads under every name what
it read in its own track. -/
theorem concat_carries (t1 t2 : Track) (h1 : WF t1.table) (h2 : WF t2.table) (hn : t1.names = t2.names) :
    (concat t1 t2).table = t1.table ∧
    (∀ i : Nat, i < t1.pts.length → (concat t1 t2).pts[i]? = t1.pts[i]? ∧
      ∀ nm, readAF (concat t1 t2) nm (i : Int) = readAF t1 nm (i : Int)) ∧
    (∀ k : Nat, (concat t1 t2).pts[t1.pts.length + k]? = t2.pts[k]? ∧
      ∀ nm, readAF (concat t1 t2) nm ((t1.pts.length + k : Nat) : Int) = readAF t2 nm (k : Int)) := by
  have ht : (concat t1 t2).table = t1.table := by rw [(concat_spec t1 t2).2, if_pos hn]
  have h12 : t1.table = t2.table := wf_eq_of_names h1 h2 hn
  refine ⟨ht, ?_, ?_⟩
  · intro i hi
    have hp : (concat t1 t2).pts[i]? = t1.pts[i]? := by
      show (t1.pts ++ t2.pts)[i]? = _
      rw [List.getElem?_append_left hi]
    exact ⟨hp, fun nm => readAF_congr ht hp nm⟩
  · intro k
    have hp : (concat t1 t2).pts[t1.pts.length + k]? = t2.pts[k]? := by
      show (t1.pts ++ t2.pts)[t1.pts.length + k]? = _
      rw [List.getElem?_append_right (by omega)]
      congr 1; omega
    exact ⟨hp, fun nm => readAF_congr (ht.trans h12) hp nm⟩

/-- `t1 + t2` when the lists of names differ (different sets, another order, one side without features): the sum
lists NO feature; every read by name raises `AnalyticalFeatureError` (the value lists stay in the observations,
out of reach). So "under every name the result lists" holds vacuously, and no observation can read another's value. -/
theorem concat_names_differ (t1 t2 : Track) (hn : t1.names ≠ t2.names) :
    (concat t1 t2).names = [] ∧ ∀ nm (i : Int), readAF (concat t1 t2) nm i = .noFeature := by
  have ht : (concat t1 t2).table = [] := by rw [(concat_spec t1 t2).2, if_neg hn]
  refine ⟨by simp [Track.names, ht], ?_⟩
  intro nm i
  simp [readAF, ht, colOf]

/-! ## the other entry points of the statement -/

/-- `addObs(obs)` -/
theorem addObs_spec (tr : Track) (o : Obs) : addObs tr o = ⟨tr.pts ++ [o], tr.table⟩ := rfl

/-- `insertObs(obs, i)` with `0 ≤ i ≤ size` puts the observation at position `i` -/
theorem insertAt_spec (tr : Track) (o : Obs) (i : Nat) (hi : i ≤ tr.pts.length) :
    insertAt tr o i = ⟨tr.pts.take i ++ o :: tr.pts.drop i, tr.table⟩ := by
  unfold insertAt pyInsert
  have h1 : ¬ ((i : Int) < 0) := by omega
  have h2 : ¬ ((i : Int) > (tr.pts.length : Int)) := by omega
  simp only [h1, h2, if_false, Int.toNat_natCast, insertIdx_eq_take_drop tr.pts i o hi]

/-- `removeObs(i)` with a valid index removes exactly that observation and returns 1 -/
theorem removeObs_spec (l : List α) (i : Nat) (hi : i < l.length) :
    removeObs l (i : Int) = (l.eraseIdx i, some 1) := by
  have hlen : (l.eraseIdx i).length = l.length - 1 := by rw [List.length_eraseIdx, if_pos hi]
  have hd : pyDel l (i : Int) = some (l.eraseIdx i) := by
    rw [pyDel_nat l (i : Int) (by omega) (by omega)]; simp
  simp only [removeObs, removeByIdx, List.isEmpty_cons, Bool.false_eq_true, if_false, List.mergeSort_singleton,
    hasAdjDup, List.reverse_cons, List.reverse_nil, List.nil_append, delLoop, hd, hlen]
  congr 2
  omega

/-- `removeFirstObs()` on a non-empty track -/
theorem removeFirst_spec (l : List α) (h : l ≠ []) : removeFirst l = (l.tail, some 1) := by
  have hl : 0 < l.length := List.length_pos_iff.mpr h
  have := removeObs_spec l 0 hl
  rw [List.eraseIdx_zero] at this
  exact this

/-- `removeLastObs()` on a non-empty track -/
theorem removeLast_spec (l : List α) (h : l ≠ []) : removeLast l = (l.dropLast, some 1) := by
  have hl : 0 < l.length := List.length_pos_iff.mpr h
  have e : ((l.length : Int) - 1) = ((l.length - 1 : Nat) : Int) := by omega
  unfold removeLast
  rw [e, removeObs_spec l (l.length - 1) (by omega)]
  congr 1
  rw [List.dropLast_eq_take, List.eraseIdx_eq_take_drop_succ]
  have : List.drop (l.length - 1 + 1) l = [] := List.drop_eq_nil_of_le (by omega)
  rw [this, List.append_nil]

/-- `popObs(i)` with a valid index returns that observation and removes it -/
theorem popObs_spec (l : List α) (i : Nat) (hi : i < l.length) :
    popObs l (i : Int) = (l.eraseIdx i, some l[i]) := by
  simp only [popObs, pyGet_nat, List.getElem?_eq_getElem hi, removeObs_spec l i hi]

/-- `track[i]`: the observation at `i`; a negative `i ≥ -size` counts from the end -/
theorem getitemInt_spec (tr : Track) (i : Nat) (hi : i < tr.pts.length) :
    getitemInt tr (i : Int) = some tr.pts[i] ∧
    getitemInt tr (-((i : Int) + 1)) = some (tr.pts[tr.pts.length - 1 - i]'(by omega)) := by
  constructor
  · simp only [getitemInt, pyGet_nat, List.getElem?_eq_getElem hi]
  · have h1 : ¬ ((0 : Int) ≤ -((i : Int) + 1)) := by omega
    have h2 : (0 : Int) ≤ (tr.pts.length : Int) + -((i : Int) + 1) := by omega
    have e : ((tr.pts.length : Int) + -((i : Int) + 1)).toNat = tr.pts.length - 1 - i := by omega
    simp only [getitemInt, pyGet, h1, if_false, h2, if_true, e]
    exact List.getElem?_eq_getElem (by omega)

/-! ## `sortRadix` -/

/-- the six key functions of `sortRadix`, most significant first: `year-1970`, `month-1`, `day-1`, `hour`, `min`,
`sec*1000+ms` of the observation at a position -/
def radixKeys (digits : Nat → List Int) : List (Nat → Int) :=
  [5, 4, 3, 2, 1, 0].map (fun k => fun id => (digits id).getD k 0)

/-- `sortRadix()` when every digit is inside its buckets (`0 ≤ sec*1000+ms < 60000`, `min < 60`, `hour < 24`,
`1 ≤ day ≤ 31`, `1 ≤ month ≤ 12`, `1970 ≤ year ≤ 2069`): no `IndexError`; the result is the same observations
(a permutation), ordered lexicographically by (year, month, day, hour, min, sec·1000+ms) — which is the order
of the instants, C03 — and observations with equal timestamps keep their order (`i < j`): a stable sort. -/
theorem sortRadix_spec (l : List α) (digits : Nat → List Int)
    (hd : ∀ i, i < l.length → ∀ k, k < 6 → 0 ≤ (digits i).getD k 0 ∧ (digits i).getD k 0 < (radixBuckets.getD k 0 : Nat)) :
    ∃ ids r, sortRadixIds digits l.length = some ids ∧ sortRadix l digits = some r ∧
      ids.Perm (List.range l.length) ∧ r = ids.filterMap (fun i => l[i]?) ∧ r.Perm l ∧
      ids.Pairwise (LexLe (· < ·) (radixKeys digits)) := by
  have hk : ∀ p ∈ (radixBuckets.zipIdx.map (fun p => ((p.1, fun id => (digits id).getD p.2 0) : Nat × (Nat → Int)))),
      ∀ i ∈ List.range l.length, 0 ≤ p.2 i ∧ p.2 i < (p.1 : Int) := by
    intro p hp i hi
    have hi' := List.mem_range.mp hi
    simp only [radixBuckets, List.zipIdx_cons, List.zipIdx_nil, List.map_cons, List.map_nil, List.mem_cons,
      List.not_mem_nil, or_false] at hp
    rcases hp with rfl | rfl | rfl | rfl | rfl | rfl
    · exact hd i hi' 0 (by omega)
    · exact hd i hi' 1 (by omega)
    · exact hd i hi' 2 (by omega)
    · exact hd i hi' 3 (by omega)
    · exact hd i hi' 4 (by omega)
    · exact hd i hi' 5 (by omega)
  obtain ⟨ids, e, hp, hs⟩ := runPasses_spec (· < ·) _ [] (List.range l.length) hk
    (by simpa [LexLe] using List.pairwise_lt_range (n := l.length))
  have hin : ∀ i ∈ ids, i < l.length := fun i hi => List.mem_range.mp (hp.mem_iff.mp hi)
  refine ⟨ids, ids.filterMap (fun i => l[i]?), e, ?_, hp, rfl, ?_, ?_⟩
  · unfold sortRadix
    have e' : sortRadixIds digits l.length = some ids := e
    simp only [e']
    exact gather_eq l ids hin
  · have := hp.filterMap (fun i => l[i]?)
    rw [filterMap_range_getElem?] at this
    exact this
  · simpa [radixKeys, radixBuckets] using hs

/-- `sortRadix()` sorts by time: if the lexicographic order of the digits implies the order of the timestamps
(C03: the field-wise order of `ObsTime` is the order of the epoch instants), the result is non-decreasing in time. -/
theorem sortRadix_sorted (l : List Obs) (digits : Nat → List Int)
    (hd : ∀ i, i < l.length → ∀ k, k < 6 → 0 ≤ (digits i).getD k 0 ∧ (digits i).getD k 0 < (radixBuckets.getD k 0 : Nat))
    (hkey : ∀ i j (a b : Obs), l[i]? = some a → l[j]? = some b → LexLe (· < ·) (radixKeys digits) i j → a.time ≤ b.time) :
    ∃ r, sortRadix l digits = some r ∧ r.Perm l ∧ r.Pairwise (fun a b => a.time ≤ b.time) := by
  obtain ⟨ids, r, _, h, _, hr, hperm, hs⟩ := sortRadix_spec l digits hd
  refine ⟨r, h, hperm, ?_⟩
  rw [hr]
  refine List.Pairwise.filterMap _ ?_ hs
  intro i j hij a ha b hb
  exact hkey i j a b ha hb hij

/-! ## T1 — the dichotomy stays in range and terminates -/

/-- T1. For ANY timestamps (sorted or not), any size `N` and any first step `2^j` with `2·2^j ≤ N`, the
search loop of `__getInsertionIndex`, run with an element access that raises on EVERY index outside
`0..N-1` (`strictGet`: no negative wrap-around), terminates within the fuel `j + N + 3` without any
error, at an index `0 ≤ r ≤ N-1`. So every index the loop reads is in `0..N-1`. -/
theorem dichotomy_in_range (T : List Int) (ts : Int) (j : Nat) (hj : 2 * 2 ^ j ≤ T.length) :
    ∃ r : Nat, searchLoop (strictGet T) T.length ts (j + T.length + 3) 0 ((2 : Int) ^ j) = .ok (r : Int)
      ∧ r + 1 ≤ T.length := by
  have hj' : (0 : Int) + 2 * (2 : Int) ^ j ≤ (T.length : Int) := by
    have : ((2 * 2 ^ j : Nat) : Int) ≤ (T.length : Int) := by exact_mod_cast hj
    simpa using this
  exact (searchLoop_halving (strictGet_readsOn T) j 0 (j + T.length + 3) (by omega)).1 ⟨by omega, hj'⟩

/-- T1 for the whole function, as the code computes its first step (`2^(⌊log₂ N⌋-1)`): on every list
of timestamps the three loops, run with the strict element access, return an index `0 ≤ r ≤ N`
(no `IndexError`, no read outside `0..N-1`, fuel sufficient), and the model as run (Python's
wrapping `L[i]`) returns the same index. -/
theorem insertionIndex_no_index_error (T : List Int) (ts : Int) :
    ∃ r : Nat, r ≤ T.length ∧
      insertionIndexWith (strictGet T) (ilog2 T.length - 1) T ts = .ok (r : Int) ∧
      insertionIndex T ts = .ok (r : Int) := by
  have key : ∃ r : Nat, r ≤ T.length ∧
      insertionIndexWith (strictGet T) (ilog2 T.length - 1) T ts = .ok (r : Int) := by
    match T with
    | [] => exact ⟨0, by simp, rfl⟩
    | [t0] =>
      by_cases h : t0 < ts
      · exact ⟨1, by simp, by simp [insertionIndexWith, h]⟩
      · exact ⟨0, by simp, by simp [insertionIndexWith, h]⟩
    | a :: b :: rest =>
      have hN : 2 ≤ (a :: b :: rest).length := by simp
      obtain ⟨_, r2, h, _, _, hr2, _⟩ := insertionIndexWith_run (ts := ts)
        (strictGet_readsOn (a :: b :: rest)) _ hN (ilog2_first_step _ hN)
      exact ⟨r2, hr2, h⟩
  obtain ⟨r, hr, h⟩ := key
  exact ⟨r, hr, h, insertionIndexWith_mono (strictGet_sub_pyGet T) _ T ts _ h⟩

/-! ## T2 — the insertion index on a time-sorted track -/

/-- T2. On time-sorted timestamps (`N ≥ 2`), for any first step `2^j` with `2·2^j ≤ N` (so also for an
under-estimate of `⌊log₂ N⌋`), the result is the upper-bound insertion point: the number of timestamps
`≤ ts`. -/
theorem insertionIndexFrom_spec (T : List Int) (ts : Int) (j : Nat) (hN : 2 ≤ T.length)
    (hj : 2 * 2 ^ j ≤ T.length) (hs : T.Pairwise (· ≤ ·)) :
    insertionIndexFrom j T ts = .ok ((T.countP (fun t => decide (t ≤ ts)) : Nat) : Int) := by
  obtain ⟨r, h, hr, h1, h2⟩ := insertionIndexWith_bounds (ts := ts) (pyGet_readsOn T) j hN hj hs
  have : T.countP (fun t => decide (t ≤ ts)) = r := by
    apply countP_of_split T _ r hr
    · intro k t hk hkt; simpa using h1 k t hk hkt
    · intro k t hk hkt; have := h2 k t hk hkt; simp; omega
  rw [this]; exact h

/-- T2 with the first step the code computes; a single observation is the one special case of the
code: there the new observation goes BEFORE an equal timestamp (`countP (· < ts)`). -/
theorem insertionIndex_spec (T : List Int) (ts : Int) (hs : T.Pairwise (· ≤ ·)) :
    insertionIndex T ts = .ok ((if T.length = 1 then T.countP (fun t => decide (t < ts))
      else T.countP (fun t => decide (t ≤ ts)) : Nat) : Int) := by
  match T, hs with
  | [], _ => rfl
  | [t0], _ =>
    by_cases h : t0 < ts <;> simp [insertionIndex, insertionIndexFrom, insertionIndexWith, h]
  | a :: b :: rest, hs =>
    have hN : 2 ≤ (a :: b :: rest).length := by simp
    have hne : ¬ ((a :: b :: rest).length = 1) := by simp
    rw [if_neg hne]
    exact insertionIndexFrom_spec _ ts _ hN (ilog2_first_step _ hN) hs

/-! ## T3 — chronological insertion -/

/-- on EVERY track (sorted or not) `insertObs(obs)` succeeds and yields the old observations in their
order with the new one inserted at some position `r ≤ N`; the feature-name table is unchanged. -/
theorem insert_total (tr : Track) (o : Obs) :
    ∃ r : Nat, r ≤ tr.pts.length ∧
      insertChrono tr o = some ⟨tr.pts.take r ++ o :: tr.pts.drop r, tr.table⟩ := by
  obtain ⟨r, hr, _, h⟩ := insertionIndex_no_index_error (tr.pts.map (·.time)) o.time
  rw [List.length_map] at hr
  exact ⟨r, hr, insertChrono_of_index tr o r hr h⟩

/-- T3. Inserting an observation without an index into a time-sorted track leaves it sorted: the
result is the old observations in their order with the new one at a position `r`, it is a permutation
of `new :: old` (every record intact), and it is non-decreasing in time. -/
theorem insert_sorted (tr : Track) (o : Obs) (hs : tr.pts.Pairwise (fun a b => a.time ≤ b.time)) :
    ∃ r : Nat, r ≤ tr.pts.length ∧
      insertChrono tr o = some ⟨tr.pts.take r ++ o :: tr.pts.drop r, tr.table⟩ ∧
      (tr.pts.take r ++ o :: tr.pts.drop r).Perm (o :: tr.pts) ∧
      (tr.pts.take r ++ o :: tr.pts.drop r).Pairwise (fun a b => a.time ≤ b.time) := by
  have hT : (tr.pts.map (·.time)).Pairwise (· ≤ ·) := List.pairwise_map.mpr hs
  obtain ⟨r, hr, h, h1, h2⟩ := insertionIndex_split (tr.pts.map (·.time)) o.time hT
  rw [List.length_map] at hr
  refine ⟨r, hr, insertChrono_of_index tr o r hr h, ?_, ?_⟩
  · rw [← insertIdx_eq_take_drop tr.pts r o hr]; exact List.perm_insertIdx o tr.pts hr
  · have hsplit : (tr.pts.take r ++ tr.pts.drop r).Pairwise (fun a b => a.time ≤ b.time) := by
      rw [List.take_append_drop]; exact hs
    obtain ⟨hA, hB, hAB⟩ := List.pairwise_append.mp hsplit
    have hbefore : ∀ a ∈ tr.pts.take r, a.time ≤ o.time := by
      intro a ha
      obtain ⟨k, hk⟩ := List.mem_iff_getElem?.mp ha
      rw [List.getElem?_take] at hk
      by_cases hkr : k < r
      · rw [if_pos hkr] at hk
        exact h1 k a.time hkr (by rw [List.getElem?_map, hk]; rfl)
      · rw [if_neg hkr] at hk; cases hk
    have hafter : ∀ b ∈ tr.pts.drop r, o.time ≤ b.time := by
      intro b hb
      obtain ⟨k, hk⟩ := List.mem_iff_getElem?.mp hb
      rw [List.getElem?_drop] at hk
      exact h2 (r + k) b.time (by omega) (by rw [List.getElem?_map, hk]; rfl)
    refine List.pairwise_append.mpr ⟨hA, List.pairwise_cons.mpr ⟨hafter, hB⟩, ?_⟩
    intro a ha b hb
    rcases List.mem_cons.mp hb with rfl | hb
    · exact hbefore a ha
    · exact hAB a ha b hb

/-! ## T4 — sort -/

/-- contract assumed of `np.argsort(timestamps)`: a permutation of the positions `0..N-1` along
which the timestamps are non-decreasing (nothing is assumed about the order of equal timestamps). -/
def IsArgsort (T : List Int) (perm : List Nat) : Prop :=
  perm.Perm (List.range T.length) ∧
    perm.Pairwise (fun i j => ∀ a b, T[i]? = some a → T[j]? = some b → a ≤ b)

/-- `sort()` with ANY sorting permutation returned by `argsort`: the result consists of the same
observations (each record unchanged: it is a permutation of the list of records), in
non-decreasing time order, and the feature-name table is unchanged. -/
theorem sort_spec (tr : Track) (perm : List Nat) (h : IsArgsort (tr.pts.map (·.time)) perm) :
    ∃ r, sortWith perm tr = some r ∧ r.table = tr.table ∧ r.pts.Perm tr.pts ∧
      r.pts.Pairwise (fun a b => a.time ≤ b.time) := by
  obtain ⟨hperm, hsorted⟩ := h
  rw [List.length_map] at hperm
  have hin : ∀ i ∈ perm, i < tr.pts.length := by
    intro i hi; exact List.mem_range.mp (hperm.mem_iff.mp hi)
  refine ⟨⟨perm.filterMap (fun i => tr.pts[i]?), tr.table⟩, ?_, rfl, ?_, ?_⟩
  · simp [sortWith, gather_eq tr.pts perm hin]
  · have := hperm.filterMap (fun i => tr.pts[i]?)
    rw [filterMap_range_getElem?] at this
    exact this
  · refine List.Pairwise.filterMap _ ?_ hsorted
    intro i j hij a ha b hb
    apply hij a.time b.time <;> simp [ha, hb]

/-- the model's `argsort` (stable merge sort of the positions) satisfies the contract. -/
theorem argsort_isArgsort (T : List Int) : IsArgsort T (argsort T) :=
  ⟨argsort_perm T, argsort_sorted T⟩

/-- `sort()` as run by the driver. -/
theorem sortByTime_spec (tr : Track) :
    ∃ r, sortByTime tr = some r ∧ r.table = tr.table ∧ r.pts.Perm tr.pts ∧
      r.pts.Pairwise (fun a b => a.time ≤ b.time) :=
  sort_spec tr _ (argsort_isArgsort _)


/-! ## non-vacuity: the hypotheses are satisfiable by non-trivial inputs, and witnesses -/

/-- a time-sorted track with a tie, of power-of-two size, satisfies the hypotheses of T1–T3 -/
example : ([1, 3, 3, 7, 9, 9, 13, 15] : List Int).Pairwise (· ≤ ·) := by decide
example : 2 * 2 ^ 2 ≤ ([1, 3, 3, 7, 9, 9, 13, 15] : List Int).length := by decide
example : insertionIndex [1, 3, 3, 7, 9, 9, 13, 15] 3 = .ok 3 := by decide +kernel
example : insertionIndex [1, 3, 3, 7, 9, 9, 13, 15] 0 = .ok 0 := by decide +kernel
example : insertionIndex [1, 3, 3, 7, 9, 9, 13, 15] 16 = .ok 8 := by decide +kernel
/-- the negative unit step does not vanish (`-1 >> 1 = -1`): insertion before four equal timestamps
reaches index 0 through the leftward walk (2 → 1 → 0 with step -1, then `break`) -/
example : searchLoop (strictGet [1, 1, 1, 1]) 4 0 8 0 2 = .ok 0 := by decide +kernel
/-- the one-observation special case puts the new observation before an equal timestamp -/
example : insertionIndex [5] 5 = .ok 0 := by decide +kernel
/-- distinct valid indices in any order -/
example : (∀ x ∈ ([2, 0] : List Int), 0 ≤ x ∧ x < ([10, 11, 12, 13] : List Nat).length) ∧ ([2, 0] : List Int).Nodup := by
  decide
example : atIdx (fun j => !([2, 0] : List Int).contains (j : Int)) [10, 11, 12, 13] = [11, 13] := by decide
/-- regression witness of fix 8550bff: `track < n` with `n > size` is empty -/
example : dropLast ⟨[⟨0, 1, [0]⟩, ⟨1, 3, [10]⟩], [("f", 0)]⟩ 3 = ⟨[], [("f", 0)]⟩ := by decide +kernel
/-- a sorting permutation that is NOT the stable one also satisfies the contract of `sort_spec` -/
example : IsArgsort [3, 1, 3] [1, 2, 0] := by
  refine ⟨by decide, ?_⟩
  simp

end TV.C04
