import TracklibVerif.Lemmas.Seq
/-! # C04 — sequence operations on a track select exactly the designated observations

Property theorems only (helper lemmas: `Lemmas/Seq.lean`, `Lemmas/SeqSearch.lean`). The model is
`Model/Seq.lean`; observations are opaque records `(tag, time, feature values)`, so "the same
observation with its own position, timestamp and feature values" is equality of records, and every
statement below is for lists of any length. The model is purely functional: the source track of an
operator is an argument that the result does not replace, so "without modifying the source track"
is checked on the real code by the harness (output `src`). -/
namespace TV.C04
open TV.Seq
variable {α : Type}

/-- the sub-sequence of `l` at the positions satisfying `p`, in the original order -/
def atIdx (p : Nat → Bool) (l : List α) : List α := (l.zipIdx.filter (fun q => p q.2)).map (·.1)

/-! ## T5 — slicing operators -/

/-- `extract(a, b)` with `b` a valid index returns exactly the observations `a, a+1, …, b`
(both ends included; none when `a > b`), with the feature-name table of the source. -/
theorem extract_spec (tr : Track) (a b : Nat) (hb : b < tr.pts.length) :
    extract tr a b = some ⟨(tr.pts.drop a).take (b + 1 - a), tr.names⟩ := by
  unfold extract transmitAF
  have e : ((b : Int) + 1 - (a : Int)).toNat = b + 1 - a := by omega
  rw [e]
  by_cases h : a ≤ b
  · rw [extractLoop_eq _ a (b + 1 - a) (by omega)]; rfl
  · have : b + 1 - a = 0 := by omega
    rw [this]; simp [extractLoop]

/-- `extractSpanTime(t1, t2)` returns exactly the observations whose timestamp lies in the closed
interval between the two bounds, whichever order the bounds are given in. -/
theorem extractSpanTime_spec (tr : Track) (t1 t2 : Int) :
    extractSpanTime tr t1 t2 =
      ⟨tr.pts.filter (fun o => decide (min t1 t2 ≤ o.time ∧ o.time ≤ max t1 t2)), tr.names⟩ := by
  unfold extractSpanTime transmitAF
  show Track.mk _ _ = Track.mk _ _
  congr 1
  apply List.filter_congr
  intro o _
  by_cases h : t1 > t2
  · simp only [h, if_true]
    rw [Bool.eq_iff_iff]; simp only [Bool.and_eq_true, Bool.not_eq_true', decide_eq_false_iff_not, decide_eq_true_eq]
    omega
  · simp only [h, if_false]
    rw [Bool.eq_iff_iff]; simp only [Bool.and_eq_true, Bool.not_eq_true', decide_eq_false_iff_not, decide_eq_true_eq]
    omega

/-- `t1 + t2` is the observations of `t1` followed by those of `t2`; when both carry the same
feature-name table the sum carries it too. -/
theorem concat_spec (t1 t2 : Track) :
    (concat t1 t2).pts = t1.pts ++ t2.pts ∧ (t1.names = t2.names → (concat t1 t2).names = t1.names) := by
  refine ⟨rfl, ?_⟩
  intro h
  have : ∀ (a : List String), sameNames a a = true := by
    intro a; induction a with
    | nil => rfl
    | cons x xs ih => simp [sameNames, ih]
  simp [concat, ← h, this]

/-- `track % n` (`n ≥ 1`) keeps exactly the observations at positions `0, n, 2n, …`: it is the
sub-sequence at the positions `≡ 0 (mod n)`, and its `i`-th observation is the source's `(i·n)`-th. -/
theorem decimateStep_spec (tr : Track) (n : Nat) (hn : 1 ≤ n) :
    ∃ r, decimateStep tr n = some r ∧ r.names = tr.names ∧
      r.pts = atIdx (fun j => j % n == 0) tr.pts ∧ ∀ i, r.pts[i]? = tr.pts[i * n]? := by
  have h0 : ¬ ((n : Int) = 0) := by omega
  have h1 : (n : Int) > 0 := by omega
  refine ⟨⟨stepAux n 0 tr.pts, tr.names⟩, ?_, rfl, ?_, ?_⟩
  · simp only [decimateStep, pyStep, if_neg h0, if_pos h1, Int.toNat_natCast, transmitAF, Option.map_some]
  · show stepAux n 0 tr.pts = _
    rw [stepAux_eq_keepIdx n hn 0 0 tr.pts (by omega) (by simp), keepIdx_eq_zipIdx]; rfl
  · intro i
    show (stepAux n 0 tr.pts)[i]? = _
    rw [stepAux_getElem? n hn]; simp

/-- `track % pattern` keeps exactly the observations whose position `j` has `pattern[j mod len]` true. -/
theorem decimatePattern_spec (tr : Track) (pat : List Bool) (hp : pat ≠ []) :
    decimatePattern tr pat =
      some ⟨atIdx (fun j => pat[j % pat.length]?.getD false) tr.pts, tr.names⟩ := by
  have : pat.isEmpty = false := by cases pat <;> simp_all
  simp only [decimatePattern, this, Bool.false_and, Bool.false_eq_true, if_false, transmitAF]
  rw [patLoop_eq_keepIdx, keepIdx_eq_zipIdx]; rfl

/-- `track > n` drops exactly the first `n` observations (all of them when `n ≥ size`). -/
theorem dropFirst_spec (tr : Track) (n : Nat) : dropFirst tr n = ⟨tr.pts.drop n, tr.names⟩ := by
  simp [dropFirst, pySliceFrom, transmitAF]

/-- `track < n` drops exactly the last `n` observations (all of them when `n ≥ size`; this is the
behaviour after fix 8550bff). -/
theorem dropLast_spec (tr : Track) (n : Nat) :
    dropLast tr n = ⟨tr.pts.take (tr.pts.length - n), tr.names⟩ := by
  unfold dropLast transmitAF
  congr 2
  omega

/-- `removeObsList(tab)` with distinct valid indices (in any order) leaves exactly the observations
whose position is not in `tab`, in order, and returns the number removed. -/
theorem removeByIdx_spec (l : List α) (tab : List Int)
    (hr : ∀ x ∈ tab, 0 ≤ x ∧ x < l.length) (hn : tab.Nodup) :
    removeByIdx l tab = (atIdx (fun j => !tab.contains (j : Int)) l, some tab.length) := by
  rw [removeByIdx_nodup l tab hr hn, keepIdx_eq_zipIdx]; rfl

/-- an index list with a repeated index is refused: nothing is removed and 0 is returned. -/
theorem removeByIdx_refuses_duplicates (l : List α) (tab : List Int) (hn : ¬ tab.Nodup) :
    removeByIdx l tab = (l, some 0) := removeByIdx_dup l tab hn

/-! ## T4 — sort -/

/-- contract assumed of `np.argsort(timestamps)`: a permutation of the positions `0..N-1` along
which the timestamps are non-decreasing (nothing is assumed about the order of equal timestamps). -/
def IsArgsort (T : List Int) (perm : List Nat) : Prop :=
  perm.Perm (List.range T.length) ∧
    perm.Pairwise (fun i j => ∀ a b, T[i]? = some a → T[j]? = some b → a ≤ b)

/-- `sort()` with ANY sorting permutation returned by `argsort`: the result consists of the same
observations (each record unchanged: it is a permutation of the list of records), in
non-decreasing time order, and the feature-name table is unchanged. -/
theorem sort_spec (tr : Track) (perm : List Nat) (h : IsArgsort (tr.pts.map (·.time)) perm) :
    ∃ r, sortWith perm tr = some r ∧ r.names = tr.names ∧ r.pts.Perm tr.pts ∧
      r.pts.Pairwise (fun a b => a.time ≤ b.time) := by
  obtain ⟨hperm, hsorted⟩ := h
  rw [List.length_map] at hperm
  have hin : ∀ i ∈ perm, i < tr.pts.length := by
    intro i hi; exact List.mem_range.mp (hperm.mem_iff.mp hi)
  refine ⟨⟨perm.filterMap (fun i => tr.pts[i]?), tr.names⟩, ?_, rfl, ?_, ?_⟩
  · simp [sortWith, gather_eq tr.pts perm hin]
  · have := hperm.filterMap (fun i => tr.pts[i]?)
    rw [filterMap_range_getElem?] at this
    exact this
  · refine List.Pairwise.filterMap _ ?_ hsorted
    intro i j hij a ha b hb
    apply hij a.time b.time <;> simp [ha, hb]

/-- the model's `argsort` (stable merge sort of the positions) satisfies the contract. -/
theorem argsort_isArgsort (T : List Int) : IsArgsort T (argsort T) :=
  ⟨argsort_perm T, argsort_sorted T⟩

/-- `sort()` as run by the driver. -/
theorem sortByTime_spec (tr : Track) :
    ∃ r, sortByTime tr = some r ∧ r.names = tr.names ∧ r.pts.Perm tr.pts ∧
      r.pts.Pairwise (fun a b => a.time ≤ b.time) :=
  sort_spec tr _ (argsort_isArgsort _)

end TV.C04
