import TracklibVerif.Props.C15Ext
namespace TV.C15
open TV.Filter
set_option linter.unusedSectionVars false

section ordered
variable {α : Type} [Field α] [LinearOrder α] [IsStrictOrderedRing α]

/-- the output at a filtered index is the cell `temp[i] / norm` -/
theorem filterWindowX_ok_of_cell (v k : List (Ext α)) (boundary np : Bool) (out : List (Ext α))
    (h : filterWindowX v k boundary np = .ok out) (i : Nat) (hi : i < v.length)
    (hfilt : boundary = true ∨ (k.length / 2 ≤ i ∧ i < v.length - k.length / 2)) (x : Ext α)
    (hcell : ((cells (toSamples v) k (k.length / 2)).map (fun c => c.1 / c.2))[i]? = some x) :
    out[i]? = some x := by
  rw [filterWindowX_eq] at h
  split at h
  · cases h
  split at h
  · cases h
  cases boundary with
  | true =>
    simp only [if_true, Except.ok.injEq] at h
    rw [← h]; exact hcell
  | false =>
    simp only [Bool.false_eq_true, if_false] at h
    split at h
    · cases h
    · simp only [Except.ok.injEq] at h
      rw [← h]
      rcases hfilt with hf | hf
      · simp at hf
      · rw [List.getElem?_map, List.getElem?_range hi]
        simp only [Option.map_some]
        rw [if_neg (by omega), hcell]; rfl

/-- a NaN sum of products stays NaN, whatever the weights -/
theorem inner_nan_stays (s : List (Option (Ext α))) (D i : Nat) (k : List (Ext α)) :
    ∀ (j : Nat) (n : Ext α), (inner s D i k j (Ext.nan, n)).1 = Ext.nan := by
  induction k with
  | nil => intro j n; rfl
  | cons kj ks ih =>
    intro j n
    cases hs : sample s D i j with
    | none => simp only [inner, hs]; exact ih _ _
    | some val => simp only [inner, hs, Ext.nan_add]; exact ih _ _

theorem Ext.inf_mul_zero (val : Ext α) (hv : val = .pinf ∨ val = .ninf) : val * Ext.fin (0 : α) = .nan := by
  rcases hv with h | h <;> subst h <;> simp [Ext.mul_def, Ext.mul, Ext.mulInf]

/-- a zero weight met on an infinite sample makes the sum of products NaN, whatever the other weights -/
theorem inner_zero_weight_nan (s : List (Option (Ext α))) (D i : Nat) (ws : List α) :
    ∀ (j : Nat) (t n : Ext α),
      (∃ m, m < ws.length ∧ ws[m]? = some 0 ∧
        (sample s D i (j + m) = some .pinf ∨ sample s D i (j + m) = some .ninf)) →
      (inner s D i (ws.map Ext.fin) j (t, n)).1 = .nan := by
  induction ws with
  | nil => rintro j t n ⟨m, hm, _⟩; simp at hm
  | cons w ws' ih =>
    rintro j t n ⟨m, hm, hw, hsm⟩
    rcases m with _ | m'
    · simp only [List.getElem?_cons_zero, Option.some.injEq] at hw
      simp only [Nat.add_zero] at hsm
      subst hw
      cases hs : sample s D i j with
      | none => rw [hs] at hsm; simp at hsm
      | some val =>
        rw [hs] at hsm
        simp only [Option.some.injEq] at hsm
        simp only [List.map_cons, inner, hs]
        rw [Ext.inf_mul_zero val hsm, Ext.add_nan]
        exact inner_nan_stays _ _ _ _ _ _
    · have hshift : j + 1 + m' = j + (m' + 1) := by omega
      have hex : ∃ m, m < ws'.length ∧ ws'[m]? = some 0 ∧
          (sample s D i (j + 1 + m) = some .pinf ∨ sample s D i (j + 1 + m) = some .ninf) := by
        refine ⟨m', ?_, ?_, ?_⟩
        · simp only [List.length_cons] at hm; omega
        · simpa using hw
        · rw [hshift]; exact hsm
      cases hs : sample s D i j with
      | none => simp only [List.map_cons, inner, hs]; exact ih _ _ _ hex
      | some val => simp only [List.map_cons, inner, hs]; exact ih _ _ _ hex

/-- **A zero weight on an infinite sample** (the edge of a Uniform / Triangular window over a `±inf` sample), all weights non-negative: `0 * inf` is NaN and
the output is NaN — not the mean of the samples that carry weight. -/
theorem inf_sample_zero_weight_nan (v : List (Ext α)) (ws : List α) (boundary np : Bool) (out : List (Ext α))
    (h : filterWindowX v (ws.map .fin) boundary np = .ok out) (i : Nat) (hi : i < v.length)
    (hfilt : boundary = true ∨ (ws.length / 2 ≤ i ∧ i < v.length - ws.length / 2))
    (hz : ∃ j, j < ws.length ∧ ws[j]? = some 0 ∧ (sample (toSamples v) (ws.length / 2) i j = some .pinf ∨ sample (toSamples v) (ws.length / 2) i j = some .ninf)) :
    out[i]? = some .nan := by
  obtain ⟨jz, hz1, hz2, hz3⟩ := hz
  apply filterWindowX_ok_of_cell v (ws.map Ext.fin) boundary np out h i hi (by rw [List.length_map]; exact hfilt)
  rw [List.length_map, List.getElem?_map, cells_getElem?, toSamples_length, if_pos hi]
  simp only [Option.map_some]
  have hB := inner_zero_weight_nan (toSamples v) (ws.length / 2) i ws 0 0 0
    ⟨jz, hz1, hz2, by rw [Nat.zero_add]; exact hz3⟩
  rw [hB]
  rfl

theorem Ext.ok_mul_nonneg (x : Ext α) (w : α) (hx1 : x ≠ .ninf) (hx2 : x ≠ .nan) (hxw : x = .pinf → 0 < w) :
    x * Ext.fin w ≠ .ninf ∧ x * Ext.fin w ≠ .nan ∧ (x = .pinf → x * Ext.fin w = .pinf) := by
  cases x with
  | fin a => simp [Ext.mul_def, Ext.mul]
  | pinf => exact Ext.ok_mul_pos _ w (hxw rfl) hx1 hx2
  | ninf => exact absurd rfl hx1
  | nan => exact absurd rfl hx2

/-- non-negative finite weights: the collected norm stays finite, does not decrease, and increases once a sample is read under a positive weight -/
theorem inner_norm_nonneg (s : List (Option (Ext α))) (D i : Nat) (ws : List α) (hnn : ∀ w ∈ ws, 0 ≤ w) :
    ∀ (j : Nat) (t : Ext α) (n : α), ∃ n', (inner s D i (ws.map Ext.fin) j (t, Ext.fin n)).2 = Ext.fin n' ∧ n ≤ n' ∧
      ((∃ m, m < ws.length ∧ (sample s D i (j + m)).isSome ∧ ∃ w, ws[m]? = some w ∧ 0 < w) → n < n') := by
  induction ws with
  | nil =>
    intro j t n
    refine ⟨n, rfl, le_refl _, ?_⟩
    rintro ⟨m, hm, _⟩
    simp at hm
  | cons w ws' ih =>
    intro j t n
    have hw : 0 ≤ w := hnn w (List.mem_cons_self ..)
    have ih' := ih (fun x hx => hnn x (List.mem_cons_of_mem _ hx))
    cases hs : sample s D i j with
    | none =>
      simp only [List.map_cons, inner, hs]
      obtain ⟨n', h1, h2, h3⟩ := ih' (j + 1) t n
      refine ⟨n', h1, h2, ?_⟩
      rintro ⟨m, hm, hsome, w0, hw0, hpos⟩
      rcases m with _ | m'
      · simp only [Nat.add_zero] at hsome; rw [hs] at hsome; simp at hsome
      · apply h3
        have hshift : j + 1 + m' = j + (m' + 1) := by omega
        refine ⟨m', ?_, by rw [hshift]; exact hsome, w0, by simpa using hw0, hpos⟩
        simp only [List.length_cons] at hm; omega
    | some val =>
      simp only [List.map_cons, inner, hs]
      obtain ⟨n', h1, h2, h3⟩ := ih' (j + 1) (t + val * Ext.fin w) (n + w)
      have hle : n ≤ n + w := le_add_of_nonneg_right hw
      refine ⟨n', h1, le_trans hle h2, ?_⟩
      rintro ⟨m, hm, hsome, w0, hw0, hpos⟩
      rcases m with _ | m'
      · simp only [List.getElem?_cons_zero, Option.some.injEq] at hw0
        subst hw0
        exact lt_of_lt_of_le (lt_add_of_pos_right n hpos) h2
      · apply lt_of_le_of_lt hle
        apply h3
        have hshift : j + 1 + m' = j + (m' + 1) := by omega
        refine ⟨m', ?_, by rw [hshift]; exact hsome, w0, by simpa using hw0, hpos⟩
        simp only [List.length_cons] at hm; omega

/-- non-negative finite weights, no `-inf` / NaN sample, every `+inf` sample under a positive weight: the sum of products stays a number
or `+inf`, and is `+inf` once a `+inf` sample is read -/
theorem inner_temp_nonneg_pinf (s : List (Option (Ext α))) (D i : Nat) (ws : List α) (hnn : ∀ w ∈ ws, 0 ≤ w) :
    ∀ (j : Nat) (t n : Ext α),
      (∀ m, m < ws.length → sample s D i (j + m) ≠ some .ninf ∧ sample s D i (j + m) ≠ some .nan) →
      (∀ m, m < ws.length → sample s D i (j + m) = some .pinf → ∃ w, ws[m]? = some w ∧ 0 < w) →
      t ≠ .ninf → t ≠ .nan →
      (inner s D i (ws.map Ext.fin) j (t, n)).1 ≠ .ninf ∧ (inner s D i (ws.map Ext.fin) j (t, n)).1 ≠ .nan ∧
      ((t = .pinf ∨ ∃ m, m < ws.length ∧ sample s D i (j + m) = some .pinf) →
        (inner s D i (ws.map Ext.fin) j (t, n)).1 = .pinf) := by
  induction ws with
  | nil =>
    intro j t n _ _ h1 h2
    refine ⟨h1, h2, ?_⟩
    rintro (h | ⟨m, hm, _⟩)
    · exact h
    · simp at hm
  | cons w ws' ih =>
    intro j t n hs' hpw ht1 ht2
    have hw : 0 ≤ w := hnn w (List.mem_cons_self ..)
    have ih' := ih (fun x hx => hnn x (List.mem_cons_of_mem _ hx))
    have hshift : ∀ m, j + 1 + m = j + (m + 1) := fun m => by omega
    have hrange : ∀ m, m < ws'.length →
        sample s D i (j + 1 + m) ≠ some .ninf ∧ sample s D i (j + 1 + m) ≠ some .nan := by
      intro m hm
      rw [hshift]
      exact hs' (m + 1) (by simp only [List.length_cons]; omega)
    have hpw' : ∀ m, m < ws'.length → sample s D i (j + 1 + m) = some .pinf → ∃ w, ws'[m]? = some w ∧ 0 < w := by
      intro m hm hsm
      rw [hshift] at hsm
      obtain ⟨w0, a, b⟩ := hpw (m + 1) (by simp only [List.length_cons]; omega) hsm
      exact ⟨w0, by simpa using a, b⟩
    cases hs : sample s D i j with
    | none =>
      simp only [List.map_cons, inner, hs]
      obtain ⟨a, b, c⟩ := ih' (j + 1) t n hrange hpw' ht1 ht2
      refine ⟨a, b, ?_⟩
      rintro (h | ⟨m, hm, hsm⟩)
      · exact c (Or.inl h)
      · rcases m with _ | m'
        · simp only [Nat.add_zero] at hsm; rw [hs] at hsm; cases hsm
        · refine c (Or.inr ⟨m', ?_, by rw [hshift]; exact hsm⟩)
          simp only [List.length_cons] at hm; omega
    | some val =>
      simp only [List.map_cons, inner, hs]
      have hv := hs' 0 (by simp)
      simp only [Nat.add_zero] at hv
      rw [hs] at hv
      have hv1 : val ≠ .ninf := fun h => hv.1 (by rw [h])
      have hv2 : val ≠ .nan := fun h => hv.2 (by rw [h])
      have hvw : val = .pinf → 0 < w := by
        intro hval
        obtain ⟨w0, a, b⟩ := hpw 0 (by simp) (by simp only [Nat.add_zero]; rw [hs, hval])
        simp only [List.getElem?_cons_zero, Option.some.injEq] at a
        rw [a]; exact b
      obtain ⟨m1, m2, m3⟩ := Ext.ok_mul_nonneg val w hv1 hv2 hvw
      obtain ⟨a1, a2, a3⟩ := Ext.ok_add t (val * Ext.fin w) ht1 ht2 m1 m2
      obtain ⟨a, b, c⟩ := ih' (j + 1) (t + val * Ext.fin w) (n + Ext.fin w) hrange hpw' a1 a2
      refine ⟨a, b, ?_⟩
      rintro (h | ⟨m, hm, hsm⟩)
      · exact c (Or.inl (a3 (Or.inl h)))
      · rcases m with _ | m'
        · simp only [Nat.add_zero] at hsm
          rw [hs] at hsm
          have : val = .pinf := by simpa using hsm
          exact c (Or.inl (a3 (Or.inr (m3 this))))
        · refine c (Or.inr ⟨m', ?_, by rw [hshift]; exact hsm⟩)
          simp only [List.length_cons] at hm; omega

/-- **Non-negative weights, a `+inf` sample, no `-inf` sample, every infinite sample under a positive weight**: the output is `+inf`
(a zero weight on a finite sample adds `0`). -/
theorem inf_sample_nonneg_pinf (v : List (Ext α)) (ws : List α) (boundary np : Bool) (hnn : ∀ w ∈ ws, 0 ≤ w) (out : List (Ext α))
    (h : filterWindowX v (ws.map .fin) boundary np = .ok out) (i : Nat) (hi : i < v.length)
    (hfilt : boundary = true ∨ (ws.length / 2 ≤ i ∧ i < v.length - ws.length / 2))
    (hp : ∃ j, j < ws.length ∧ sample (toSamples v) (ws.length / 2) i j = some .pinf)
    (hpw : ∀ j, j < ws.length → sample (toSamples v) (ws.length / 2) i j = some .pinf → ∃ w, ws[j]? = some w ∧ 0 < w)
    (hn : ∀ j, j < ws.length → sample (toSamples v) (ws.length / 2) i j ≠ some .ninf) :
    out[i]? = some .pinf := by
  obtain ⟨jp, hjp1, hjp2⟩ := hp
  apply filterWindowX_ok_of_cell v (ws.map Ext.fin) boundary np out h i hi (by rw [List.length_map]; exact hfilt)
  rw [List.length_map, List.getElem?_map, cells_getElem?, toSamples_length, if_pos hi]
  simp only [Option.map_some]
  obtain ⟨n', hA1, _, hA3⟩ := inner_norm_nonneg (toSamples v) (ws.length / 2) i ws hnn 0 0 0
  have hn' : 0 < n' := hA3 ⟨jp, hjp1, by rw [Nat.zero_add, hjp2]; rfl, hpw jp hjp1 hjp2⟩
  obtain ⟨_, _, hB⟩ := inner_temp_nonneg_pinf (toSamples v) (ws.length / 2) i ws hnn 0 0 0
    (fun m hm => by rw [Nat.zero_add]; exact ⟨hn m hm, sample_toSamples_ne_nan v _ _ _⟩)
    (fun m hm hsm => by rw [Nat.zero_add] at hsm; exact hpw m hm hsm)
    (by intro h; cases h) (by intro h; cases h)
  have hB' := hB (Or.inr ⟨jp, hjp1, by rw [Nat.zero_add]; exact hjp2⟩)
  have hA1' : (inner (toSamples v) (ws.length / 2) i (ws.map Ext.fin) 0 (0, 0)).2 = Ext.fin n' := hA1
  rw [hB', hA1']
  have : ¬ n' < 0 := not_lt_of_gt hn'
  simp [Ext.div_def, Ext.div, this]

/-- a Uniform-like window `[0,1,1,1,0]` `+inf` where the zero edge falls on finite samples, NaN where it falls on the `+inf` sample -/
example : filterWindowX (α := Int) [.fin 1, .fin 2, .pinf, .fin 4, .fin 5] [.fin 0, .fin 1, .fin 1, .fin 1, .fin 0] true false
    = .ok [.nan, .pinf, .pinf, .pinf, .nan] := by rfl

/-- the zero edge of the window `[0,1,0]` on an infinite sample: NaN -/
example : filterWindowX (α := Int) [.fin 1, .fin 2, .pinf] [.fin 0, .fin 1, .fin 0] true false
    = .ok [.fin 1, .nan, .pinf] := by rfl

end ordered
end TV.C15
