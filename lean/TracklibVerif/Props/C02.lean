import TracklibVerif.Lemmas.ExprRpn
import TracklibVerif.Lemmas.ExprExact
import TracklibVerif.Lemmas.ExprErr
import TracklibVerif.Lemmas.ExprPre11
import TracklibVerif.Lemmas.ExprExt
import TracklibVerif.Lemmas.ExprAgg
import TracklibVerif.Lemmas.ExprFn
import TracklibVerif.Lemmas.ExprPrime
/-! # C02 — algebraic feature expressions evaluate to ordinary arithmetic on the features

Property theorems only (helpers: `Lemmas/Rpn.lean`, `Lemmas/RpnChars.lean`, `Lemmas/Expr.lean`, `Lemmas/ExprRpn.lean`,
`Lemmas/ExprPointwise.lean`, `Lemmas/ExprErr.lean` (error direction), `Lemmas/ExprPre*.lean` (the rewriting chain),
`Lemmas/ExprAgg.lean` / `Lemmas/ExprFn.lean` (MIN MAX ARGMIN ARGMAX D I D2 against their documented formulas),
`Lemmas/ExprPrime.lean` (the `'` shorthand), `Lemmas/ExprPre11.lean` (any number of bare minuses / doubled signs);
the closed forms of `SUM AVG VAR STD MSE RMSE MEDIAN MAD` (T13, T14) are in `Props/C02Agg.lean`).
Models: `Model/Rpn.lean` (token-level `utils.makeRPN`) and `Model/Expr.lean` (the rewriting chain,
character-level `makeRPN`, `__evaluateRPN` / `__applyOperation`, the operator classes, the purge of
`Track.operate`). The scalar type `α` is abstract (`Scalar α`): the statements hold for the `Float`
instance the driver runs as well as for exact arithmetic; no law of arithmetic is assumed.

`denoteM tr e` is the *tree semantics*: structural recursion on the expression tree with the operator
definitions of core/operators.py at each node (pointwise `+ - * / ^ < >` with the NaN-on-zero rule of
`Divider`, number∘feature and feature∘number forms, `I D D2 ABS SQRT LOG DIODE SIGN EXP COS SIN TAN`,
`SUM AVG VAR STD MSE RMSE MAD MIN MAX MEDIAN ARGMIN ARGMAX`); it has no stack, no temporaries and no parser.
The theorems cover both directions (value: T1–T5, error: T6) and start from the string the user types (T7, with the
`'` shorthand: T11, a sign typed directly after a binary `+` / `-`: T12, any number of bare minuses and doubled signs in one
string: T15). T8–T10 relate definitions as coded to their documented formulas: `MIN` / `MAX` (T8), `ARGMIN` / `ARGMAX` (T9, T9'),
`D` / `I` / `D2` (T10); `SUM AVG VAR STD MSE RMSE` (T13) and `MEDIAN` / `MAD` (T14) are in `Props/C02Agg.lean`.

The model is that of the code after the repairs 5676890 / 2dd86ce (`a/number`, `number/a` are single divisions, coded like
the other scalar operators; they used to go through a reciprocal) and b728412 (`ARGMIN` / `ARGMAX` take their first index on
equality with the start value): T5 needs commutativity of `+` and `*` only, T9 holds for every vector that holds a number. -/
namespace TV.C02
open TV.Expr TV.Rpn

variable {α : Type} [Scalar α]

/-- **T2 (parser)**: for the precedence table of `utils.makeRPN`
(`= | < > | + - | ! | * / | % | ^ | @ | & $`) the right-to-left scan at depth 0 with
outer-parenthesis stripping returns the postfix form of every expression tree printed with the
parentheses that precedence and left associativity require (plus any redundant ones: `E.par`).
So `a-b-c` is `(a-b)-c`, `a+b*c` is `a+(b*c)`, and explicit parentheses are honoured. -/
theorem makeRPN_show (e : E) (hwf : Rpn.WF pyLvl 9 e) (fuel : Nat) (hf : Rpn.size e ≤ fuel) :
    rpn pyLvl 9 fuel (shw pyLvl 9 e) = Rpn.post e :=
  rpn_shw pyLvl 9 e hwf fuel hf

/-- **T1 (stack machine = tree semantics; exactly the temporaries it created)**: for every
well-formed tree `e` whose tree semantics on the track is `v`, running `__evaluateRPN` on the postfix
form of `e` (followed by anything) amounts to pushing one item that stands for `v`; the counter of
temporaries advances by the number of operations of `e`, and the track differs only by temporaries
`#k … #(k+ops-1)` appended to the table (`Step`): no other feature, coordinate or timestamp changes. -/
theorem evalRPN_postfix (e : Ex) (tr : Tr α) (st : List (Item α)) (k : Nat) (rest : List Str) (v : Val α)
    (hw : WFx e) (hn : tr.n ≠ 0) (hf : Fresh tr k) (hl : NoLitNames tr) (hd : denoteM tr e = .ok v) :
    ∃ tr' it, evalRPN tr (Expr.post e ++ rest) st k = evalRPN tr' rest (it :: st) (k + nops e)
      ∧ Step tr tr' k (k + nops e) ∧ itemVal tr' it = some v :=
  evalRPN_post e tr st k rest v hw hn hf hl hd

/-- **T3a (no `=`)**: `operate` on the postfix form of `#output = e` returns the tree semantics of
`e`, one value per observation, and leaves the track *exactly* as it was (same table, same order,
no temporary left). -/
theorem operate_value (tr : Tr α) (e : Ex) (v : Val α)
    (hw : WFx e) (hn : tr.n ≠ 0) (hnt : NoTemps tr) (hl : NoLitNames tr) (hd : denoteM tr e = .ok v) :
    operateTokens tr (outputName :: (Expr.post e ++ [['=']])) false = (.ok (some (v.toVec tr.n)), tr) :=
  operateTokens_value tr e v hw hn hnt hl hd

/-- **T3b (`lhs = e`, new name)**: nothing is returned; the value is stored under `lhs`; every
other column, the coordinates and the timestamps are unchanged. -/
theorem operate_assign_new (tr : Tr α) (lhs : Str) (e : Ex) (v : Val α)
    (hop : isOperatorTok lhs = none) (hr : isReserved lhs = false) (ht : isTemp lhs = false)
    (hlk : lookup lhs tr.feats = none)
    (hw : WFx e) (hn : tr.n ≠ 0) (hnt : NoTemps tr) (hl : NoLitNames tr) (hd : denoteM tr e = .ok v) :
    operateTokens tr (lhs :: (Expr.post e ++ [['=']])) true = (.ok none, ext tr [(lhs, v.toVec tr.n)]) :=
  operateTokens_assign_new tr lhs e v hop hr ht hlk hw hn hnt hl hd

/-- **T3c (`lhs = e`, existing feature, vector value)**: the column `lhs` is replaced (removed, then
appended with the new values); nothing else changes. -/
theorem operate_assign_existing (tr : Tr α) (lhs : Str) (e : Ex) (c : List α)
    (hop : isOperatorTok lhs = none) (hr : isReserved lhs = false) (ht : isTemp lhs = false)
    (hlk : (lookup lhs tr.feats).isSome) (hone : lookup lhs (eraseKey lhs tr.feats) = none)
    (hw : WFx e) (hn : tr.n ≠ 0) (hnt : NoTemps tr) (hl : NoLitNames tr) (hd : denoteM tr e = .ok (.vec c)) :
    operateTokens tr (lhs :: (Expr.post e ++ [['=']])) true =
      (.ok none, { tr with feats := eraseKey lhs tr.feats ++ [(lhs, c)] }) :=
  operateTokens_assign_existing_vec tr lhs e c hop hr ht hlk hone hw hn hnt hl hd

/-- **T3c' (`lhs = <number expression>`, existing feature)**: the column is overwritten in place with
the constant (regression statement for fix 79feaf2). -/
theorem operate_assign_existing_number (tr : Tr α) (lhs : Str) (e : Ex) (x : α)
    (hop : isOperatorTok lhs = none) (hr : isReserved lhs = false) (hlk : (lookup lhs tr.feats).isSome)
    (hw : WFx e) (hn : tr.n ≠ 0) (hnt : NoTemps tr) (hl : NoLitNames tr) (hd : denoteM tr e = .ok (.lit x)) :
    operateTokens tr (lhs :: (Expr.post e ++ [['=']])) true =
      (.ok none, { tr with feats := setKey lhs (List.replicate tr.n x) tr.feats }) :=
  operateTokens_assign_existing_lit tr lhs e x hop hr hlk hw hn hnt hl hd

/-- **T3d (`x = e`, `y = e`, `z = e`)**: the coordinate is written with the value of `e` at every
observation — whether `e` has a vector value or is a pure number expression such as `3` or `1+2`,
which is written at every observation (regression statement for fix 144a468: `x=3` used to raise
KeyError) —; the table of features is untouched (regression statement for fix 3613032: the source
feature is not deleted), the other coordinates and the timestamps are unchanged, nothing is returned. -/
theorem operate_assign_coordinate (tr : Tr α) (lhs : Str) (e : Ex) (v : Val α)
    (hc : lhs = ['x'] ∨ lhs = ['y'] ∨ lhs = ['z'])
    (hw : WFx e) (hn : tr.n ≠ 0) (hnt : NoTemps tr) (hl : NoLitNames tr) (hd : denoteM tr e = .ok v) :
    operateTokens tr (lhs :: (Expr.post e ++ [['=']])) true = (.ok none, setCoord tr lhs (v.toVec tr.n)) :=
  operateTokens_assign_coord tr lhs e v hc hw hn hnt hl hd

/-- **T3 (composition parser ∘ evaluator, token level)**: parse the printed statement `#output = e`
(minimal parentheses, calls printed `f@(…)` as the rewriting produces them) with `makeRPN`'s table,
run the stack machine and the purge: the result is the tree semantics of `e` and the track is
unchanged. -/
theorem operate_show_value (tr : Tr α) (e : Ex) (v : Val α) (fuel : Nat)
    (hfuel : Rpn.size (stmt outputName e) ≤ fuel)
    (hw : WFx e) (hn : tr.n ≠ 0) (hnt : NoTemps tr) (hl : NoLitNames tr) (hd : denoteM tr e = .ok v) :
    operateTokens tr ((rpn pyLvl 9 fuel (shw pyLvl 9 (stmt outputName e))).map String.toList) false
      = (.ok (some (v.toVec tr.n)), tr) := by
  rw [rpn_shw pyLvl 9 _ (wf_stmt outputName e hw) fuel hfuel, post_stmt]
  exact operateTokens_value tr e v hw hn hnt hl hd

/-- **T4 (operator objects agree with the evaluator)**: `Track.operate(Operator.X, …)` with a new
output name returns exactly the tree semantics of the corresponding one-node expression
(`a∘b`, `a∘number`, `number∘a`, `f{a}` for each of the 12 void functions — `LOG` with its own way of storing
the result included — and the 12 aggregates); together with T3a this is "applying the operator objects
directly gives the same values". -/
theorem operator_objects_agree (tr : Tr α) (o : Char) (f a b lit out : Str) (ca cb : List α) (s : α)
    (ga : getAF tr a = .ok ca) (gb : getAF tr b = .ok cb) (hs : litOf lit = some s)
    (hn : tr.n ≠ 0) (hr : isReserved out = false) (hlk : lookup out tr.feats = none) :
    (opBin tr o a b out).1.map Val.vec = denoteM tr (.bin o (.var a) (.var b))
    ∧ (opScal tr o a s out).1.map Val.vec = denoteM tr (.bin o (.var a) (.num lit))
    ∧ (opScalRev tr o a s out).1.map Val.vec = denoteM tr (.bin o (.num lit) (.var a))
    ∧ (isVoidFn f = true → (opVoidFn tr f a out).1.map Val.vec = denoteM tr (.call f (.var a)))
    ∧ (isVoidFn f = false → isAggFn f = true →
        (opAgg tr f a).map (fun v => Val.vec (List.replicate tr.n v)) = denoteM tr (.call f (.var a))) :=
  ⟨opBin_denote tr o a b out ca cb ga gb hn hr hlk, opScal_denote tr o a lit out ca s ga hs hn hr hlk,
   opScalRev_denote tr o a lit out ca s ga hs hn hr hlk, fun hf => opVoidFn_denote tr f a out ca ga hf hn hr hlk,
   fun hf hg => opAgg_denote tr f a ca ga hf hg⟩

/-- **T2' (parser, character level)**: `utils.makeRPN` as modelled on the *string* (the definition the
driver runs and that is compared with the real `makeRPN` on every run: nine groups scanned in order,
right-to-left scan with the depth counter, `strip`, outer-parenthesis stripping, fuel = length of the
string) returns the postfix form of every printed tree whose atoms are non-empty and free of
parentheses, operator characters and white space. -/
theorem makeRPN_chars_show (e : E) (hwf : Rpn.WF pyLvl 9 e) (hok : AtomsOK e) :
    makeRPN (flat (shw pyLvl 9 e)) = .ok ((Rpn.post e).map String.toList) :=
  makeRPN_flat_shw e hwf hok

/-- **string → tokens**: on the rewritten string of any statement `lhs=e` with plain names, what
`operate` does (character-level `makeRPN`, `__double_prime`, stack machine, purge) is what it does on
the postfix token list `lhs, postfix(e), =` — so T3a–T3d apply to strings. -/
theorem operate_string_tokens (tr : Tr α) (lhs : Str) (e : Ex) (void : Bool)
    (hw : WFx e) (hp : PlainNames e) (hq : NoQuote e) (hl : AtomOK (String.ofList lhs)) (hg : GoodTok lhs) :
    operateRewritten tr (stmtString lhs e) void = operateTokens tr (lhs :: (Expr.post e ++ [['=']])) void := by
  have hgood : ∀ t ∈ lhs :: (Expr.post e ++ [['=']]), GoodTok t := by
    intro t ht
    simp only [List.mem_cons, List.mem_append, List.mem_nil_iff, or_false] at ht
    rcases ht with rfl | ht | rfl
    · exact hg
    · exact goodTok_post e hq hw t ht
    · exact ⟨'=', rfl, by decide⟩
  simp only [operateRewritten, evaluateRewritten, makeRPN_stmtString lhs e hw hp hl, doublePrime_id _ hgood,
    operateTokens]

/-- **T3' (string → value)**: from the rewritten string of the statement `#output=e` on
(`makeRPN` on characters, `__double_prime`, the stack machine, fetching `#output`, the purge),
`operate` returns the tree semantics of `e` at every observation and leaves the track exactly as it was. -/
theorem operate_string_value (tr : Tr α) (e : Ex) (v : Val α)
    (hw : WFx e) (hp : PlainNames e) (hq : NoQuote e)
    (hn : tr.n ≠ 0) (hnt : NoTemps tr) (hl : NoLitNames tr) (hd : denoteM tr e = .ok v) :
    operateRewritten tr (stmtString outputName e) false = (.ok (some (v.toVec tr.n)), tr) := by
  have hgood : ∀ t ∈ outputName :: (Expr.post e ++ [['=']]), GoodTok t := by
    intro t ht
    simp only [List.mem_cons, List.mem_append, List.mem_nil_iff, or_false] at ht
    rcases ht with rfl | ht | rfl
    · exact ⟨'t', rfl, by decide⟩
    · exact goodTok_post e hq hw t ht
    · exact ⟨'=', rfl, by decide⟩
  have h := operateTokens_value tr e v hw hn hnt hl hd
  simp only [operateRewritten, evaluateRewritten, makeRPN_stmtString outputName e hw hp atomOK_output,
    doublePrime_id _ hgood]
  exact h

/-- **T5 (tree semantics = ordinary pointwise arithmetic)**: under the two laws of `Laws`
(`x+s = s+x`, `x*s = s*x` — the number∘feature forms `sr+`, `sr*` are bound to the feature∘number operators —, true of
every field and of IEEE doubles) the evaluator's semantics of a tree — with its literal folding and its separate
feature∘number / number∘feature operator tables — is what one gets by evaluating the tree observation
by observation with numbers as constant vectors (`denote`): in particular `a/number` and `number/a` are the quotients
`Divider` computes against a constant vector (since fix 5676890; the pre-fix operators multiplied by a reciprocal and the
statement needed `x*(1/s) = x/s`, `(1/x)*s = s/x`, which IEEE doubles satisfy up to rounding only, and not at all for a
subnormal divisor). A wrong entry in one of the scalar tables (e.g. `sr-` bound to the non-reversed operator) makes this
statement false. -/
theorem tree_semantics_pointwise (L : Laws α) (tr : Tr α) (hs : WellSized tr) (hn : tr.n ≠ 0) (e : Ex) (v : Val α)
    (hd : denoteM tr e = .ok v) : denote tr e = .ok (v.toVec tr.n) :=
  (denoteM_pointwise L tr hs hn e v hd).1

/-- **C02, end to end on the model** (from the rewritten string on): if evaluating the tree of `e`
observation by observation gives… whatever the evaluator's semantics gives (`hd`), then `operate`
returns exactly the pointwise value `denote tr e` and leaves the track as it was. -/
theorem operate_string_pointwise (L : Laws α) (tr : Tr α) (e : Ex) (v : Val α)
    (hw : WFx e) (hp : PlainNames e) (hq : NoQuote e) (hs : WellSized tr)
    (hn : tr.n ≠ 0) (hnt : NoTemps tr) (hl : NoLitNames tr) (hd : denoteM tr e = .ok v) :
    ∃ vec, denote tr e = .ok vec ∧ operateRewritten tr (stmtString outputName e) false = (.ok (some vec), tr) :=
  ⟨v.toVec tr.n, tree_semantics_pointwise L tr hs hn e v hd, operate_string_value tr e v hw hp hq hn hnt hl hd⟩

/-- **T6 (error propagation, stack machine)**: when the tree semantics of a well-formed tree is an *error*
(division of a feature by the literal 0, `0 ** negative`, a complex or overflowing power, `SQRT` of a negative,
`EXP` overflow, a function of a number-valued sub-expression, …) — every variable being bound on the track,
every call applying one of the 24 known functions to something other than a bare number token — the stack
machine raises the *same* error, having changed the track only by appended temporaries `#k…`. -/
theorem evalRPN_postfix_error (e : Ex) (tr : Tr α) (st : List (Item α)) (k : Nat) (rest : List Str) (err : Err)
    (hw : WFx e) (hc : CallsOK e) (hb : Bound tr e) (hn : tr.n ≠ 0) (hf : Fresh tr k) (hl : NoLitNames tr)
    (hd : denoteM tr e = .error err) :
    ∃ tr', evalRPN tr (Expr.post e ++ rest) st k = (.error err, tr') ∧ Step tr tr' k (k + nops e) :=
  evalRPN_post_err e tr st k rest err hw hc hb hn hf hl hd

/-- **T6' (error propagation, `operate`)**: under the same hypotheses `operate` on the postfix form of
`lhs = e` (with or without a user-visible left-hand side) raises that error and — the temporaries being purged
in the `finally` clause (fix 761b645) — leaves the track *exactly* as it was: nothing is stored under `lhs`. -/
theorem operate_error (tr : Tr α) (lhs : Str) (e : Ex) (void : Bool) (err : Err)
    (hop : isOperatorTok lhs = none) (hw : WFx e) (hc : CallsOK e) (hb : Bound tr e)
    (hn : tr.n ≠ 0) (hnt : NoTemps tr) (hl : NoLitNames tr) (hd : denoteM tr e = .error err) :
    operateTokens tr (lhs :: (Expr.post e ++ [['=']])) void = (.error err, tr) :=
  operateTokens_error tr lhs e void err hop hw hc hb hn hnt hl hd

/-- **T6'' (error propagation from the rewritten string)**: the same for the string `lhs=e` as it reaches
`makeRPN` (character-level parser, `__double_prime`, stack machine, purge). -/
theorem operate_string_error (tr : Tr α) (lhs : Str) (e : Ex) (void : Bool) (err : Err)
    (hw : WFx e) (hp : PlainNames e) (hq : NoQuote e) (hla : AtomOK (String.ofList lhs)) (hg : GoodTok lhs)
    (hop : isOperatorTok lhs = none) (hc : CallsOK e) (hb : Bound tr e)
    (hn : tr.n ≠ 0) (hnt : NoTemps tr) (hl : NoLitNames tr) (hd : denoteM tr e = .error err) :
    operateRewritten tr (stmtString lhs e) void = (.error err, tr) := by
  rw [operate_string_tokens tr lhs e void hw hp hq hla hg]
  exact operateTokens_error tr lhs e void err hop hw hc hb hn hnt hl hd

/-! ## from the string the user types (the rewriting chain of `Track.__evaluate`)

`Sx` is the surface syntax (numbers, names, binary operators, calls `f{…}`, unary minus `(-…)`, explicit
parentheses); `src e` its printed string (minimal parentheses); `desugar e : Ex` what is computed (unary
minus is `0 - e`); `SrcOK e`: operators are operator characters of `makeRPN`'s table other than `=`, names /
numbers / function names are non-empty, free of parentheses, braces, operator characters and white space, and
no name or number ends with `.` (`2.*a` would contain the pattern `.*`). -/

/-- **T7a (rewriting chain, `lhs=e`)**: `preprocess` — removal of spaces, `**`→`^`, `.*`→`!`, `{`→`@(`, `}`→`)`,
`>>`/`<<`, the reflexive forms, the unary-sign rewrites, `f(`→`f@(` for the 51 names of the two operator tables —
maps the source string of the statement *exactly* to the printed parser tree of the desugared statement
(a call is `f@(…)`, a unary minus `(0-…)`), with `void = True`. -/
theorem preprocess_source_assign (lhs : Str) (e : Sx) (hl : NameOK lhs) (h : SrcOK e) :
    preprocess (lhs ++ '=' :: src e) = .ok (flat (shw pyLvl 9 (.bin '=' (.atom (String.ofList lhs)) (toE' e))), true) :=
  preprocess_assign lhs e hl h

/-- **T7b (rewriting chain, no `=`)**: the same with the prefix `#output = ` (with its two spaces) and `void = False`. -/
theorem preprocess_source_value (e : Sx) (h : SrcOK e) :
    preprocess (src e) = .ok ("#output = ".toList ++ flat (shw pyLvl 9 (toE' e)), false) :=
  preprocess_value e h

/-- **T7c (tokens of the rewritten string = postfix form of the tree)**: `makeRPN` on what `preprocess` returns for
the value form — the spaces of the prefix included — is `#output`, the postfix form of the desugared tree, `=`. -/
theorem tokens_of_preprocessed_source (e : Sx) (h : SrcOK e) :
    (preprocess (src e)).bind (fun p => makeRPN p.1) = .ok (outputName :: (Expr.post (desugar e) ++ [['=']])) := by
  rw [preprocess_value e h]
  show makeRPN ("#output = ".toList ++ flat (shw pyLvl 9 (toE' e))) = _
  rw [makeRPN_output_spaces (toE' e) (wf_toE' e h) (atomsOK_toE' e h) (by rw [← tgt_eq]; exact tgt_no_eq e h), post_toE']

/-- **T7 (source string → tokens, `lhs=e`)**: `Track.operate` on the string the user types does what it does on
the postfix token list `lhs, postfix(desugar e), =` — so T3b–T3d and T6' apply to source strings. -/
theorem operate_source_statement (tr : Tr α) (lhs : Str) (e : Sx)
    (hl : NameOK lhs) (hg : GoodTok lhs) (h : SrcOK e) (hq : NoQuote (desugar e)) :
    operate tr (lhs ++ '=' :: src e) = operateTokens tr (lhs :: (Expr.post (desugar e) ++ [['=']])) true :=
  operate_source_tokens tr lhs e hl hg h hq

/-- **C02, end to end from the source string, no `=`**: `Track.operate(src e)` — the whole of `__evaluate`
(rewriting chain, `makeRPN` on characters, `__double_prime`, stack machine, fetch of `#output`) and the purge —
returns the tree semantics of the expression at every observation and leaves the track exactly as it was. -/
theorem operate_source_value (tr : Tr α) (e : Sx) (v : Val α) (h : SrcOK e) (hq : NoQuote (desugar e))
    (hw : WFx (desugar e)) (hn : tr.n ≠ 0) (hnt : NoTemps tr) (hl : NoLitNames tr)
    (hd : denoteM tr (desugar e) = .ok v) :
    operate tr (src e) = (.ok (some (v.toVec tr.n)), tr) :=
  Expr.operate_source_value tr e v h hq hw hn hnt hl hd

/-- … and it is the *pointwise* value (ordinary arithmetic observation by observation) under the `Laws` of T5. -/
theorem operate_source_pointwise (L : Laws α) (tr : Tr α) (e : Sx) (v : Val α) (h : SrcOK e) (hq : NoQuote (desugar e))
    (hw : WFx (desugar e)) (hs : WellSized tr) (hn : tr.n ≠ 0) (hnt : NoTemps tr) (hl : NoLitNames tr)
    (hd : denoteM tr (desugar e) = .ok v) :
    ∃ vec, denote tr (desugar e) = .ok vec ∧ operate tr (src e) = (.ok (some vec), tr) :=
  ⟨v.toVec tr.n, tree_semantics_pointwise L tr hs hn (desugar e) v hd, Expr.operate_source_value tr e v h hq hw hn hnt hl hd⟩

/-- **from the source string, `lhs=e` with a new name**: nothing is returned, the value is stored under `lhs`,
nothing else changes. -/
theorem operate_source_assign_new (tr : Tr α) (lhs : Str) (e : Sx) (v : Val α)
    (hl : NameOK lhs) (hg : GoodTok lhs) (h : SrcOK e) (hq : NoQuote (desugar e))
    (hop : isOperatorTok lhs = none) (hr : isReserved lhs = false) (ht : isTemp lhs = false)
    (hlk : lookup lhs tr.feats = none)
    (hw : WFx (desugar e)) (hn : tr.n ≠ 0) (hnt : NoTemps tr) (hlit : NoLitNames tr)
    (hd : denoteM tr (desugar e) = .ok v) :
    operate tr (lhs ++ '=' :: src e) = (.ok none, ext tr [(lhs, v.toVec tr.n)]) :=
  Expr.operate_source_assign_new tr lhs e v hl hg h hq hop hr ht hlk hw hn hnt hlit hd

/-- **from the source string, error propagation**: when the tree semantics is an error (hypotheses of T6),
`Track.operate("lhs=…")` raises that error and leaves the track exactly as it was. -/
theorem operate_source_error (tr : Tr α) (lhs : Str) (e : Sx) (err : Err)
    (hl : NameOK lhs) (hg : GoodTok lhs) (h : SrcOK e) (hq : NoQuote (desugar e))
    (hop : isOperatorTok lhs = none) (hw : WFx (desugar e)) (hc : CallsOK (desugar e)) (hb : Bound tr (desugar e))
    (hn : tr.n ≠ 0) (hnt : NoTemps tr) (hlit : NoLitNames tr) (hd : denoteM tr (desugar e) = .error err) :
    operate tr (lhs ++ '=' :: src e) = (.error err, tr) := by
  rw [operate_source_tokens tr lhs e hl hg h hq]
  exact operateTokens_error tr lhs (desugar e) true err hop hw hc hb hn hnt hlit hd

/-- … and for the value form (no `=`). -/
theorem operate_source_value_error (tr : Tr α) (e : Sx) (err : Err) (h : SrcOK e) (hq : NoQuote (desugar e))
    (hw : WFx (desugar e)) (hc : CallsOK (desugar e)) (hb : Bound tr (desugar e))
    (hn : tr.n ≠ 0) (hnt : NoTemps tr) (hlit : NoLitNames tr) (hd : denoteM tr (desugar e) = .error err) :
    operate tr (src e) = (.error err, tr) := by
  rw [operate_source_value_tokens tr e h hq]
  exact operateTokens_error tr outputName (desugar e) false err (by decide) hw hc hb hn hnt hlit hd

/-- **spaces anywhere**: `operate` on a string is `operate` on the string without its blanks (the first
`replace(" ", "")`), so every statement above holds for any spacing of the source. -/
theorem operate_source_spaces (tr : Tr α) (s : Str) : operate tr s = operate tr (s.filter (fun d => d != ' ')) :=
  operate_spaces tr s

/-- **`**` written for `^`** (`Sy` = `Sx` with a `pw` node printed `**`; `lower` maps it to `^`). -/
theorem operate_source_starstar (tr : Tr α) (lhs : Str) (e : Sy)
    (hl : NameOK lhs) (hg : GoodTok lhs) (h : SrcOK (lower e)) (hq : NoQuote (desugar (lower e))) :
    operate tr (lhs ++ '=' :: srcY e) = operateTokens tr (lhs :: (Expr.post (desugar (lower e)) ++ [['=']])) true :=
  operate_source_tokens_pow tr lhs e hl hg h hq

/-- **reflexive forms** `lhs op= e` for `op` in `+ - * / ^ % !`: the statement `lhs = lhs op (e)`. -/
theorem operate_source_reflexive (tr : Tr α) (lhs : Str) (op : Char) (e : Sx) (hop : op ∈ rops)
    (hl : NameOK lhs) (hd : lhs.getLast? ≠ some '.') (hg : GoodTok lhs) (h : SrcOK e) (hq : NoQuote (desugar e)) :
    operate tr (lhs ++ op :: '=' :: src e)
      = operateTokens tr (lhs :: (Expr.post (.bin op (.var lhs) (desugar e)) ++ [['=']])) true :=
  operate_source_tokens_reflex tr lhs op e hop hl hd hg h hq

/-- **bare unary minus** at the start of the string, after `=`, `(` or `{` (`-a+b`, `c=-a*b`, `ABS{-a}`, `(-a+b)`):
dropping the `0` of one `0-` of a printed source string at such a position does not change what `operate` does
(one bare minus per application). -/
theorem operate_source_bare_minus (tr : Tr α) (pre : Str) (hp : PreOK pre) (e : Sx) (h : SrcOK e) (P Q : Str)
    (hS : pre ++ src e = P ++ '0' :: '-' :: Q)
    (hP : P = [] ∨ ∃ P' c, P = P' ++ [c] ∧ (c = '=' ∨ c = '(' ∨ c = '{')) :
    operate tr (P ++ '-' :: Q) = operate tr (pre ++ src e) :=
  operate_bare_minus tr pre hp e h P Q hS hP

/-- **front end `Track[expr]`**: when the (stripped) string contains one of the characters `+ - / * ^ > < ( ) = '`
or `{` that `Track.__getitem__` looks for, `Track[expr]` is `Track.operate(expr)` — every statement above about `operate`
then holds for `Track[…]`. The opening brace `{` is one of them since fix 396f8f9, so a function call alone (`SUM{a}`)
is evaluated; a string with none of them (a name, or a number alone) is looked up as a feature name. -/
theorem getitem_is_operate (tr : Tr α) (s : Str) (hs : strip s = s)
    (h : s.any (fun c => exprChars.contains c) = true) : getitemStr tr s = operate tr s := by
  simp only [getitemStr, hs, h, if_true]

/-- **externals** (`Track.operate(expression, {'name': value})`): the machine that substitutes the values of the
dictionary for their names is, with an empty dictionary, the machine of all the statements above. (With a non-empty
dictionary an external is a number given by name; that reading is tied by the correspondence and judged by the
oracle, stream `externals`, not proved.) -/
theorem operate_no_externals (tr : Tr α) (expr : Str) : operateX [] tr expr = operate tr expr :=
  operateX_nil tr expr

/-- **T8 (`MIN` / `MAX` as coded are the documented `min(x)` / `max(x)`, at every magnitude)**: the folds of `Min` /
`Max` start from `+inf` / `-inf` (fix 68863c7; they used to start from `±1e300` and missed everything beyond). Under
the order laws of the comparison (strict, transitive, `±inf` beyond every number, NaN comparing false), as soon as the
vector holds one number — of any magnitude, the infinities included — `MIN` (`MAX`) is a non-NaN value of the vector
and no value is below (above) it. -/
theorem aggregate_min_max (L : OrdLaws α) (T : TopLaws α) (c : List α) (w : α) (hw : w ∈ c) (hn : Scalar.isNaN w = false) :
    (minL c ∈ c ∧ Scalar.isNaN (minL c) = false ∧ ∀ v ∈ c, Scalar.lt v (minL c) = false) ∧
    (maxL c ∈ c ∧ Scalar.isNaN (maxL c) = false ∧ ∀ v ∈ c, Scalar.lt (maxL c) v = false) :=
  ⟨minL_is_minimum L T c w hw hn, maxL_is_maximum L T c w hw hn⟩

/-- **T8' (no number at all)**: on an empty or all-NaN feature `Min` returns `+inf` and `Max` returns `-inf`, their
start values (the documented `min(x)` / `max(x)` are undefined there; the oracle does not judge that case). -/
theorem aggregate_sentinel (L : OrdLaws α) (T : TopLaws α) (c : List α) (h : ∀ v ∈ c, Scalar.isNaN v = true) :
    minL c = Scalar.inf ∧ maxL c = Scalar.neg Scalar.inf :=
  minmax_of_no_number L T c h

/-- **T9 (`ARGMIN` / `ARGMAX` as coded are the documented `min {t | x(t) = min(x)}` / `min {t | x(t) = max(x)}`)**: under the
order laws of the comparison and of `==` at the start value (`EqLaws`: an infinity is equal to itself and to nothing else), as
soon as the vector holds one number — of any magnitude, the infinities included — `ARGMIN` is the index of the *first*
observation holding exactly the value `MIN` returns — no earlier observation holds it —, and likewise `ARGMAX` with the value
of `MAX`. With T8 (that value is the minimum / maximum of the numbers of the vector, NaN skipped) this is the documented
definition at every magnitude. (Since fix b728412; before it the statement needed "`MIN` is strictly below `+inf`":
`ARGMIN{[nan, inf, inf]}` was 0, the index of the NaN.) -/
theorem aggregate_argmin_argmax (L : OrdLaws α) (T : TopLaws α) (E : EqLaws α) (c : List α) (w : α) (hw : w ∈ c)
    (hn : Scalar.isNaN w = false) :
    (∃ k, argminL c = Scalar.ofNat k ∧ c[k]? = some (minL c) ∧ ∀ j, j < k → c[j]? ≠ some (minL c)) ∧
    (∃ k, argmaxL c = Scalar.ofNat k ∧ c[k]? = some (maxL c) ∧ ∀ j, j < k → c[j]? ≠ some (maxL c)) :=
  ⟨argminL_first L T E c w hw hn, argmaxL_first L T E c w hw hn⟩

/-- **T9' (no number at all)**: on an empty or all-NaN vector — the only case T9 leaves out, for which the documented index is
undefined — no index is ever taken and `ARGMIN` / `ARGMAX` return `0` (`return 0 if idmin is None else idmin`). -/
theorem aggregate_arg_none (L : OrdLaws α) (T : TopLaws α) (E : EqLaws α) (c : List α) (h : ∀ v ∈ c, Scalar.isNaN v = true) :
    argminL c = Scalar.ofNat 0 ∧ argmaxL c = Scalar.ofNat 0 :=
  ⟨argminL_none L T E c h, argmaxL_none L T E c h⟩

/-- **T10 (`D`, `I`, `D2` as coded are their documented recurrences)**, for every scalar type and without any law of
arithmetic: `D`: `y(0) = NaN`, `y(t) = x(t) - x(t-1)`; `I`: `y(0) = 0`, `y(t) = y(t-1) + x(t)`;
`D2`: `y(t) = x(t+1) - 2·x(t) + x(t-1)` for `1 ≤ t ≤ n-2`, NaN at both ends; each returns one value per observation. -/
theorem finite_differences (c : List α) (n : Nat) (hl : c.length = n) (hn : 2 ≤ n) :
    ((diff c)[0]? = some Scalar.nan ∧ (diff c).length = n ∧
      ∀ i a b, c[i]? = some a → c[i + 1]? = some b → (diff c)[i + 1]? = some (Scalar.sub b a)) ∧
    ((integ c)[0]? = some Scalar.zero ∧
      ∀ i x, c[i + 1]? = some x → (integ c)[i + 1]? = some (Scalar.add ((integ c).getD i Scalar.nan) x)) ∧
    ((diff2 n c)[0]? = some Scalar.nan ∧ (diff2 n c)[n - 1]? = some Scalar.nan ∧ (diff2 n c).length = n ∧
      ∀ i a b d, c[i]? = some a → c[i + 1]? = some b → c[i + 2]? = some d →
        (diff2 n c)[i + 1]? = some (Scalar.add (Scalar.sub d (Scalar.mul Scalar.two b)) a)) := by
  have hne : c ≠ [] := by intro h; rw [h] at hl; simp at hl; omega
  obtain ⟨e1, e2, e3⟩ := diff2_ends n c hn hl
  exact ⟨⟨diff_zero c, by rw [diff_length c hne, hl], diff_succ c⟩, ⟨integ_zero c, integ_succ c⟩,
    ⟨e1, e2, e3, diff2_mid n c hn⟩⟩

/-- **T11 (the derivative shorthand `a'`, from the source string)**: `__double_prime` turns every name ending with a quote
into `D{name}/D{t}` (twice: `a''` is `D{D{a}/D{t}}/D{t}`), so `Track.operate` on a source string whose names may carry
the shorthand does what it does on the postfix tokens of the *unprimed* tree `unprime (unprime (desugar e))` — for the
statement `lhs=e` and for the value form. T1, T3a–T3d and T6' then give the value / the stored column / the error of
that tree; on a tree without any quote `unprime` is the identity (`unprime_of_noQuote`) and this is T7. -/
theorem operate_source_prime (tr : Tr α) (lhs : Str) (e : Sx)
    (hl : NameOK lhs) (hg : GoodTok lhs) (h : SrcOK e) (hp : PrimeOK (desugar e)) :
    operate tr (lhs ++ '=' :: src e)
        = operateTokens tr (lhs :: (Expr.post (unprime (unprime (desugar e))) ++ [['=']])) true
    ∧ operate tr (src e)
        = operateTokens tr (outputName :: (Expr.post (unprime (unprime (desugar e))) ++ [['=']])) false :=
  ⟨operate_source_tokens_prime tr lhs e hl hg h hp, operate_source_value_tokens_prime tr e h hp⟩

/-- … and its value: `operate(src e)` returns the tree semantics of the unprimed tree at every observation and leaves the
track exactly as it was (`"a'"` evaluates `D{a}/D{t}`). -/
theorem operate_source_prime_value (tr : Tr α) (e : Sx) (v : Val α) (h : SrcOK e) (hp : PrimeOK (desugar e))
    (hw : WFx (unprime (unprime (desugar e)))) (hn : tr.n ≠ 0) (hnt : NoTemps tr) (hl : NoLitNames tr)
    (hd : denoteM tr (unprime (unprime (desugar e))) = .ok v) :
    operate tr (src e) = (.ok (some (v.toVec tr.n)), tr) := by
  rw [operate_source_value_tokens_prime tr e h hp]
  exact operateTokens_value tr _ v hw hn hnt hl hd

/-- **T12 (a sign directly after a binary `+` or `-`: `a+-b`, `a--b`, `a++b`, `a-+b`)**: the last four replacements of
`__unaryOp` merge two adjacent signs into the sign of their product. If `P o Q` is a printed source string (`pre` empty,
or `lhs=`) in which `o` is a *binary* `+` or `-` (the character before it is neither `(` nor `{`), then typing the two
signs `s1 s2` whose product is `o` (`SignPair`: `--` and `++` for `+`, `+-` and `-+` for `-`) in its place does not
change what `operate` does (one pair per application). -/
theorem operate_source_sign_pair (tr : Tr α) (pre : Str) (hp : PreOK pre) (e : Sx) (h : SrcOK e) (P Q : Str)
    (s1 s2 o : Char) (hs : SignPair s1 s2 o) (hS : pre ++ src e = P ++ o :: Q)
    (hP : ∃ P' c, P = P' ++ [c] ∧ c ≠ '(' ∧ c ≠ '{') :
    operate tr (P ++ s1 :: s2 :: Q) = operate tr (pre ++ src e) :=
  operate_sign_pair tr pre hp e h P Q s1 s2 o hs hS hP

/-- **T15 (ANY number of bare minuses and doubled signs in one string)**: `Sugar s u` says that `u` is obtained from `s` by
any number of the two sugarings of the bare-minus theorem and of T12, each applied to the result of the ones before, in any
order: dropping the `0` of a `0-` that stands at the start or directly after `=`, `(` or `{`, and typing a binary `+` / `-`
(between `p` and `q`: `okp p o`, `p ≠ (`, `okp o q`) as two signs with that product. If `s` is a printed source string
(`pre` empty, or `lhs=`), `Track.operate` does on `u` what it does on `s` — so T7 and everything after it hold for strings
such as `-a*(-b+a)--b`. (The eight replacements of `__unaryOp` are shown to act locally: on `X c - Q` and `X c 0 - Q`
(`c` one of `=`, `(`) they agree for ALL strings `X`, `Q`; on `A s1 s2 B` and `A o B` as soon as `A` does not end with a sign,
`(` or `=` and `B` does not start with a sign — `unaryOp_drop_zero_all`, `unaryOp_sign_pair_all` of `Lemmas/ExprPre11.lean`.) -/
theorem operate_source_sugar (tr : Tr α) (pre : Str) (hp : PreOK pre) (e : Sx) (h : SrcOK e) (u : Str)
    (hu : Sugar (pre ++ src e) u) : operate tr u = operate tr (pre ++ src e) :=
  operate_sugar tr pre hp e h u hu

/-- **T15' (tokens of a sugared string)**: the rewriting chain followed by `makeRPN`, applied to a value-form string with any
number of bare minuses and doubled signs, yields `#output`, the postfix form of the tree it denotes (every bare or
parenthesised minus being `0 - …`), `=`. -/
theorem tokens_of_sugared_source (e : Sx) (h : SrcOK e) (u : Str) (hu : Sugar (src e) u) :
    (preprocess u).bind (fun p => makeRPN p.1) = .ok (outputName :: (Expr.post (desugar e) ++ [['=']])) := by
  have hp := preprocess_sugar [] preOK_nil e h u (by simpa using hu)
  rw [List.nil_append] at hp
  rw [hp]
  exact tokens_of_preprocessed_source e h

/-- **T15'' (a sugared statement `lhs=…`)**: with a left-hand side, `Track.operate` on the sugared string does what it does on
the postfix tokens `lhs, postfix(desugar e), =` — so T3b–T3d and T6' apply to `c=-a*(-b+a)--b`. -/
theorem operate_source_sugar_statement (tr : Tr α) (lhs : Str) (e : Sx) (hl : NameOK lhs) (hg : GoodTok lhs) (h : SrcOK e)
    (hq : NoQuote (desugar e)) (u : Str) (hu : Sugar (lhs ++ '=' :: src e) u) :
    operate tr u = operateTokens tr (lhs :: (Expr.post (desugar e) ++ [['=']])) true := by
  have e1 : (lhs ++ ['=']) ++ src e = lhs ++ '=' :: src e := by simp
  have := operate_sugar tr (lhs ++ ['=']) (preOK_lhs hl) e h u (by rw [e1]; exact hu)
  rw [this, e1]
  exact operate_source_tokens tr lhs e hl hg h hq

/-! ## non-vacuity -/

/-- the laws are those of exact arithmetic: rationals with a NaN element satisfy them -/
example : Laws (Option Rat) := exactQ_laws


/-- a toy exact scalar (integers; `pow` by repeated multiplication, no NaN) for the examples -/
instance toy : Scalar Int where
  add := (· + ·)
  sub := (· - ·)
  mul := (· * ·)
  div := (· / ·)
  neg := fun x => -x
  pow := fun x y => .ok (x ^ y.toNat)
  sqrt := fun x => .ok x
  abs := fun x => x.natAbs
  lt := fun a b => decide (a < b)
  isZero := fun x => x == 0
  isNaN := fun _ => false
  nan := 0
  ofDec := fun m k => (m : Int) / (10 ^ k : Nat)
  inf := 10 ^ 300

def trEx : Tr Int := ⟨3, [1, 2, 3], [0, 0, 0], [0, 0, 0], [0, 10, 20], [(['a'], [1, -2, 4]), (['b'], [2, 2, 5])]⟩
/-- `(a+b)*2 - SUM{a}` -/
def eEx : Ex := .bin '-' (.bin '*' (.bin '+' (.var ['a']) (.var ['b'])) (.num ['2'])) (.call ['S', 'U', 'M'] (.var ['a']))

example : WFx eEx := by simp only [eEx, WFx]; decide
example : trEx.n ≠ 0 := by decide
example : NoTemps trEx := by intro p hp; simp [trEx] at hp; rcases hp with rfl | rfl <;> rfl
example : NoLitNames trEx := by
  intro s hs
  simp only [trEx, lookup]
  split
  · rename_i h; subst h; exact absurd hs (by decide)
  · split
    · rename_i h; subst h; exact absurd hs (by decide)
    · rfl
example : denoteM trEx eEx = .ok (.vec [3, -3, 15]) := by rfl
/-- the parser on the printed statement gives the postfix form the evaluator runs -/
example : (rpn pyLvl 9 20 (shw pyLvl 9 (stmt outputName eEx))).map String.toList
    = outputName :: (Expr.post eEx ++ [['=']]) := by decide +kernel
example : PlainNames eEx ∧ NoQuote eEx := by
  simp only [eEx, PlainNames, NoQuote, AtomOK, GoodTok, String.toList_ofList]
  decide
/-- the character-level parser on the string of the statement -/
example : stmtString outputName eEx = "#output=(a+b)*2-SUM@(a)".toList := by decide +kernel
example : makeRPN (stmtString outputName eEx) = .ok (outputName :: (Expr.post eEx ++ [['=']])) := by rfl
/-- `y=1+2` (fix 144a468): the number is written at every observation, the table is untouched -/
example : denoteM trEx (.bin '+' (.num ['1']) (.num ['2'])) = .ok (.lit 3) := by rfl
example : operateTokens trEx [['y'], ['1'], ['2'], ['+'], ['=']] true = (.ok none, setCoord trEx ['y'] [3, 3, 3]) := by rfl
/-- the same from the string, through the whole rewriting chain -/
example : (operate trEx "y=1+2".toList).1.toOption = some none ∧ (operate trEx "y=1+2".toList).2.ys = [3, 3, 3]
    ∧ (operate trEx "y=1+2".toList).2.feats = trEx.feats := by decide +kernel
/-- a parenthesis directly after a comparison operator stays a parenthesis (fix 6716f85), while a function
name followed by `(` is still turned into a call -/
example : funcAt "c=a>(b+1)".toList = "c=a>(b+1)".toList ∧ funcAt "c=a<(b)%(a)".toList = "c=a<(b)%(a)".toList
    ∧ funcAt "D(a)>(SUM(b))".toList = "D@(a)>(SUM@(b))".toList := by decide +kernel
example : ((preprocess "a>(b+1)".toList).bind (fun p => makeRPN p.1)).toOption
    = some [outputName, ['a'], ['b'], ['1'], ['+'], ['>'], ['=']] := by decide +kernel
example : (operate trEx "a>(b+1)".toList).1.toOption = some (some [0, 0, 0])
    ∧ (operate trEx "(a+3)>(b+1)".toList).1.toOption = some (some [1, 0, 1]) := by decide +kernel
/-- left associativity and precedence with the real table: `a-b-c*d` -/
example : rpn pyLvl 9 20 (shw pyLvl 9 (.bin '-' (.bin '-' (.atom "a") (.atom "b")) (.bin '*' (.atom "c") (.atom "d"))))
    = ["a", "b", "-", "c", "d", "*", "-"] := by decide

/-! ### the source-string theorems (T7) and the error direction (T6) are not vacuous -/

theorem trEx_noTemps : NoTemps trEx := by intro p hp; simp [trEx] at hp; rcases hp with rfl | rfl <;> rfl
theorem trEx_noLit : NoLitNames trEx := by
  intro s hs
  simp only [trEx, lookup]
  split
  · rename_i h; subst h; exact absurd hs (by decide)
  · split
    · rename_i h; subst h; exact absurd hs (by decide)
    · rfl

/-- `(a+b)*2-SUM{(-a)}` as the user types it -/
def sEx : Sx :=
  .bin '-' (.bin '*' (.bin '+' (.var ['a']) (.var ['b'])) (.num ['2'])) (.call ['S', 'U', 'M'] (.neg (.var ['a'])))
theorem sEx_src : src sEx = "(a+b)*2-SUM{(-a)}".toList := by decide +kernel
theorem sEx_ok : SrcOK sEx := by simp only [sEx, SrcOK, NameOK]; decide
theorem sEx_noQuote : NoQuote (desugar sEx) := by simp only [sEx, desugar, NoQuote, GoodTok]; decide
theorem sEx_wf : WFx (desugar sEx) := by simp only [sEx, desugar, WFx]; decide
example : (preprocess "(a+b)*2-SUM{(-a)}".toList).toOption = some ("#output = (a+b)*2-SUM@((0-a))".toList, false) := by
  decide +kernel
/-- every hypothesis of `operate_source_value` holds on a concrete string and track -/
example : operate trEx "(a+b)*2-SUM{(-a)}".toList = (.ok (some [9, 3, 21]), trEx) := by
  have h := operate_source_value trEx sEx (.vec [9, 3, 21]) sEx_ok sEx_noQuote sEx_wf (by decide) trEx_noTemps trEx_noLit (by rfl)
  rw [sEx_src] at h
  exact h

/-- `c=a/0`: the tree semantics is ZeroDivisionError (`a[0] / 0` in ScalarDivider's loop), so is `operate`, and
nothing is stored -/
def dEx : Sx := .bin '/' (.var ['a']) (.num ['0'])
example : denoteM trEx (desugar dEx) = .error "err:zerodiv" := by rfl
example : operate trEx "c=a/0".toList = (.error "err:zerodiv", trEx) := by
  have h := operate_source_error trEx ['c'] dEx "err:zerodiv" ⟨by decide, by decide⟩ ⟨'c', rfl, by decide⟩
    (by simp only [dEx, SrcOK, NameOK]; decide) (by simp only [dEx, desugar, NoQuote, GoodTok]; decide) (by decide)
    (by simp only [dEx, desugar, WFx]; decide) (by simp only [dEx, desugar, CallsOK]; trivial)
    (by simp only [dEx, desugar, Bound]; exact ⟨⟨_, rfl⟩, trivial⟩) (by decide) trEx_noTemps trEx_noLit (by rfl)
  have hs : (['c'] ++ '=' :: src dEx) = "c=a/0".toList := by decide +kernel
  rw [hs] at h
  exact h
/-- the new functions are part of the tree semantics: `DIODE{a}+ARGMAX{b}` on the toy scalar -/
example : denoteM trEx (.bin '+' (.call ['D', 'I', 'O', 'D', 'E'] (.var ['a'])) (.call ['A', 'R', 'G', 'M', 'A', 'X'] (.var ['b'])))
    = .ok (.vec [3, 2, 6]) := by rfl

/-- a five-element scalar for T8: `0 = -inf < 1 < 2 < 3 = +inf`, `4` = NaN; its comparison satisfies the laws -/
def ord5 : Scalar (Fin 5) where
  add := fun a _ => a
  sub := fun a _ => a
  mul := fun a _ => a
  div := fun a _ => a
  neg := fun a => if a = 4 then 4 else 3 - a
  pow := fun a _ => .ok a
  sqrt := fun a => .ok a
  abs := fun a => a
  lt := fun a b => decide (a < b ∧ a ≠ 4 ∧ b ≠ 4)
  isZero := fun _ => false
  isNaN := fun a => a == 4
  nan := 4
  ofDec := fun _ _ => 1
  inf := 3
example : @OrdLaws (Fin 5) ord5 := @OrdLaws.mk (Fin 5) ord5 (by decide) (by decide)
example : @TopLaws (Fin 5) ord5 := @TopLaws.mk (Fin 5) ord5 (by decide) (by decide) (by decide) (by decide) (by decide) (by decide)
/-- NaN is skipped, values of every magnitude are seen, nothing at all gives the start value -/
example : minL ([3, -7, 4] : List Int) = -7 ∧ maxL ([3, -7, 4] : List Int) = 4 := by decide +kernel
example : @minL (Fin 5) ord5 [4, 2, 1, 4] = 1 ∧ @maxL (Fin 5) ord5 [4, 2, 1, 4] = 2 ∧ @minL (Fin 5) ord5 [4, 4] = 3
    ∧ @maxL (Fin 5) ord5 [] = 0 := by decide

/-- `operate("b*factor+k", {'factor': 2, 'k': 10})` on the toy scalar -/
example : (operateX [(['f', 'a', 'c', 't', 'o', 'r'], 2), (['k'], 10)] trEx "b*factor+k".toList).1.toOption = some (some [14, 14, 20]) := by
  decide +kernel

/-- `Track["(a+b)*2"]` is `operate("(a+b)*2")`, and so is `Track["SUM{a}"]` since fix 396f8f9 (the opening brace is
among the characters `__getitem__` tests); a plain name is looked up -/
example : getitemStr trEx "(a+b)*2".toList = operate trEx "(a+b)*2".toList :=
  getitem_is_operate trEx _ (by decide +kernel) (by decide +kernel)
example : getitemStr trEx "SUM{a}".toList = operate trEx "SUM{a}".toList :=
  getitem_is_operate trEx _ (by decide +kernel) (by decide +kernel)
example : (getitemStr trEx "SUM{a}".toList).1.toOption = some (some [3, 3, 3]) ∧ (getitemStr trEx "b".toList).1.toOption = some (some [2, 2, 5]) := by
  decide +kernel

/-- T5 after fix 5676890: `a/2`, `2/a` are the quotients of `Divider` against the constant vector (toy scalar: integer division) -/
example : denoteM trEx (.bin '/' (.var ['a']) (.num ['2'])) = .ok (.vec [0, -1, 2])
    ∧ denote trEx (.bin '/' (.var ['a']) (.num ['2'])) = .ok [0, -1, 2]
    ∧ denoteM trEx (.bin '/' (.num ['8']) (.var ['a'])) = .ok (.vec [8, -4, 2])
    ∧ denote trEx (.bin '/' (.num ['8']) (.var ['a'])) = .ok [8, -4, 2] := ⟨by rfl, by rfl, by rfl, by rfl⟩
/-- `2/a` with a zero in `a`: ZeroDivisionError from the division itself; `c` is not stored and no temporary is left -/
example : (operate (α := Int) ⟨2, [1, 2], [0, 0], [0, 0], [0, 1], [(['a'], [4, 0])]⟩ "c=2/a".toList)
    = (.error "err:zerodiv", ⟨2, [1, 2], [0, 0], [0, 0], [0, 1], [(['a'], [4, 0])]⟩) := by rfl
/-- the operator object applied directly: `SCALAR_DIVIDER` by 0 raises at the first observation, `c` having been created at 0
(like every other scalar operator, fix 2dd86ce) -/
example : opScal trEx '/' ['a'] 0 ['c'] = (.error "err:zerodiv", { trEx with feats := trEx.feats ++ [(['c'], [0, 0, 0])] })
    ∧ (opScal trEx '/' ['a'] 2 ['c']).1 = .ok [0, -1, 2]
    ∧ (opScal trEx '/' ['a'] 2 ['c']).2.feats = trEx.feats ++ [(['c'], [0, -1, 2])] := ⟨by rfl, by rfl, by rfl⟩

/-- T9 on the toy scalar (whose comparison is a strict order): the first of two equal minima / maxima -/
theorem toy_ord : @OrdLaws Int toy := @OrdLaws.mk Int toy (by intro a; simp [Scalar.lt]) (by
  intro a b c h1 h2
  simp only [Scalar.lt, decide_eq_true_eq] at h1 h2 ⊢
  omega)
example : argminL ([3, -7, 4, -7] : List Int) = 1 ∧ argmaxL ([3, 9, 4, 9] : List Int) = 1 ∧ minL ([3, -7, 4, -7] : List Int) = -7 := by
  decide +kernel
/-- T9 at the start value (fix b728412) on the five-element scalar `0 = -inf < 1 < 2 < 3 = +inf`, `4` = NaN: in
`[nan, inf, inf]` the first index holding the minimum `+inf` is 1 (the pre-fix loop returned 0, the index of the NaN), in
`[nan, -inf]` the maximum `-inf` is at index 1; with a smaller number later the strict comparison still wins; nothing but NaN
gives no index -/
example : @argLoop (Fin 5) ord5 (fun v m => ord5.lt v m) [4, 3, 3] 0 3 none = some 1
    ∧ @argLoop (Fin 5) ord5 (fun v m => ord5.lt m v) [4, 0] 0 0 none = some 1
    ∧ @argLoop (Fin 5) ord5 (fun v m => ord5.lt v m) [4, 3, 1, 3, 1] 0 3 none = some 2
    ∧ @argLoop (Fin 5) ord5 (fun v m => ord5.lt v m) [4, 4] 0 3 none = none := by decide
example : @EqLaws (Fin 5) ord5 := @EqLaws.mk (Fin 5) ord5 (by decide) (by decide) (by decide) (by decide)
theorem toy_eq : @EqLaws Int toy := @EqLaws.mk Int toy (by decide +kernel)
  (by intro v h; simp only [Scalar.eq, Scalar.inf] at h ⊢; simp at h; omega)
  (by decide +kernel)
  (by intro v h; simp only [Scalar.eq, Scalar.inf, Scalar.neg] at h ⊢; simp at h; omega)
/-- T10: `D`, `I`, `D2` of `[1, 4, 9, 16]` -/
example : diff ([1, 4, 9, 16] : List Int) = [0, 3, 5, 7] ∧ integ ([1, 4, 9, 16] : List Int) = [0, 4, 13, 29]
    ∧ diff2 4 ([1, 4, 9, 16] : List Int) = [0, 2, 2, 0] := by decide +kernel
/-- T11: `a'*10` is `D{a}/D{t}*10` (`a = [1, -2, 4]`, `t = [0, 10, 20]`; the toy division is the integer one, its NaN is 0) -/
def pEx : Sx := .bin '*' (.var ['a', '\'']) (.num ['1', '0'])
theorem pEx_src : src pEx = "a'*10".toList := by decide +kernel
theorem pEx_ok : SrcOK pEx ∧ PrimeOK (desugar pEx) := by
  refine ⟨by simp only [pEx, SrcOK, NameOK]; decide, ?_⟩
  simp only [pEx, desugar, PrimeOK, VarOK, GoodTok]
  refine ⟨by decide, ⟨by decide, by decide⟩, ⟨'0', rfl, by decide⟩⟩
theorem pEx_unprime : unprime (unprime (desugar pEx))
    = .bin '*' (.bin '/' (.call ['D'] (.var ['a'])) (.call ['D'] (.var ['t']))) (.num ['1', '0']) := by rfl
/-- every hypothesis of `operate_source_prime_value` holds on a concrete string and track -/
example : operate trEx "a'*10".toList = (.ok (some [0, -10, 0]), trEx) := by
  have h := operate_source_prime_value trEx pEx (.vec [0, -10, 0]) pEx_ok.1 pEx_ok.2
    (by rw [pEx_unprime]; simp only [WFx]; decide) (by decide) trEx_noTemps trEx_noLit (by rw [pEx_unprime]; rfl)
  rw [pEx_src] at h
  exact h
example : (operate trEx "c=a'*10+b".toList).2.feats = trEx.feats ++ [(['c'], [2, -8, 5])]
    ∧ (operate trEx "a''".toList).1.toOption = some (some [0, -1, 0]) := by decide +kernel

/-- T12: `a+-b*2` is `a-b*2`, `c=a--b` is `c=a+b` -/
def mEx : Sx := .bin '-' (.var ['a']) (.bin '*' (.var ['b']) (.num ['2']))
example : operate trEx "a+-b*2".toList = operate trEx "a-b*2".toList := by
  have h := operate_source_sign_pair trEx [] preOK_nil mEx (by simp only [mEx, SrcOK, NameOK]; decide) ['a'] "b*2".toList
    '+' '-' '-' .pm (by decide +kernel) ⟨[], 'a', rfl, by decide, by decide⟩
  have hs : ([] : Str) ++ src mEx = "a-b*2".toList := by decide +kernel
  rw [hs] at h
  exact h
example : (operate trEx "a+-b*2".toList).1.toOption = some (some [-3, -6, -6])
    ∧ (operate trEx "c=a--b".toList).2.feats = trEx.feats ++ [(['c'], [3, 0, 9])] := by decide +kernel

/-- T15: `-a*(-b+a)--b` — two bare minuses and a doubled sign — is `0-a*(0-b+a)+b` -/
def gEx : Sx := .bin '+' (.bin '-' (.num ['0']) (.bin '*' (.var ['a'])
  (.par (.bin '+' (.bin '-' (.num ['0']) (.var ['b'])) (.var ['a']))))) (.var ['b'])
theorem gEx_src : src gEx = "0-a*(0-b+a)+b".toList := by decide +kernel
theorem gEx_ok : SrcOK gEx := by simp only [gEx, SrcOK, NameOK]; decide
theorem gEx_sugar : Sugar ("0-a*(0-b+a)+b".toList) ("-a*(-b+a)--b".toList) := by
  have h0 : Sugar ("0-a*(0-b+a)+b".toList) ("0-a*(".toList ++ '0' :: '-' :: "b+a)+b".toList) := by
    have e : "0-a*(".toList ++ '0' :: '-' :: "b+a)+b".toList = "0-a*(0-b+a)+b".toList := by decide +kernel
    rw [e]; exact .refl
  have h1 := Sugar.zero h0 (Or.inr ⟨"0-a*".toList, '(', by decide +kernel, Or.inr (Or.inl rfl)⟩)
  have h1' : Sugar ("0-a*(0-b+a)+b".toList) (([] : Str) ++ '0' :: '-' :: "a*(-b+a)+b".toList) := by
    have e : ([] : Str) ++ '0' :: '-' :: "a*(-b+a)+b".toList = "0-a*(".toList ++ '-' :: "b+a)+b".toList := by decide +kernel
    rw [e]; exact h1
  have h2 := Sugar.zero h1' (Or.inl rfl)
  have h2' : Sugar ("0-a*(0-b+a)+b".toList) (("-a*(-b+a".toList ++ [')']) ++ '+' :: 'b' :: []) := by
    have e : ("-a*(-b+a".toList ++ [')']) ++ '+' :: 'b' :: [] = ([] : Str) ++ '-' :: "a*(-b+a)+b".toList := by decide +kernel
    rw [e]; exact h2
  have h3 := Sugar.pair h2' SignPair.mm (by decide) (by decide) (by decide)
  have e : ("-a*(-b+a".toList ++ [')']) ++ '-' :: '-' :: 'b' :: [] = "-a*(-b+a)--b".toList := by decide +kernel
  rw [e] at h3; exact h3
example : operate trEx "-a*(-b+a)--b".toList = operate trEx "0-a*(0-b+a)+b".toList := by
  have h := operate_source_sugar trEx [] preOK_nil gEx gEx_ok "-a*(-b+a)--b".toList
    (by rw [List.nil_append, gEx_src]; exact gEx_sugar)
  rw [List.nil_append, gEx_src] at h
  exact h
example : (operate trEx "-a*(-b+a)--b".toList).1.toOption = some (some [3, -6, 9]) := by decide +kernel
example : ((preprocess "-a*(-b+a)--b".toList).bind (fun p => makeRPN p.1)).toOption
    = some (outputName :: (Expr.post (desugar gEx) ++ [['=']])) := by
  rw [tokens_of_sugared_source gEx gEx_ok _ (by rw [gEx_src]; exact gEx_sugar)]; rfl

/-- T15'': `c=-a*(-b+a)--b` stores `[3, -6, 9]` under the new name `c` -/
example : (operate trEx "c=-a*(-b+a)--b".toList).2.feats = trEx.feats ++ [(['c'], [3, -6, 9])] := by decide +kernel

/-- outside `SrcOK` (no number or name ends with `.`): a literal written `2.` directly before `*` holds the pattern `.*` of the
FILTER shorthand — `2.*a` is rewritten to `2!a`, not read as `2.0*a` (the real code does the same and raises KeyError);
`a*2.` and `2.+a` are read as written -/
example : (preprocess "2.*a".toList).toOption = some ("#output = 2!a".toList, false)
    ∧ ((preprocess "2.*a".toList).bind (fun p => makeRPN p.1)).toOption = some [outputName, ['2'], ['a'], ['!'], ['=']]
    ∧ ((preprocess "a*2.".toList).bind (fun p => makeRPN p.1)).toOption = some [outputName, ['a'], ['2', '.'], ['*'], ['=']] := by
  decide +kernel

end TV.C02
