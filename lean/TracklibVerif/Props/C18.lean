import TracklibVerif.Lemmas.DTWTable
import TracklibVerif.Lemmas.FDTW
import TracklibVerif.Lemmas.DTWFront
import TracklibVerif.Lemmas.DTWScale
import TracklibVerif.Lemmas.DTWReal
import Mathlib.Analysis.SpecialFunctions.Pow.Real
import Mathlib.Analysis.Real.Sqrt
import Mathlib.Algebra.Order.Field.Basic
import Mathlib.Tactic.Ring
import Mathlib.Algebra.Order.Ring.Rat
/-! # C18 — time-warping cost is the optimal coupling cost and the matching realises it

Property theorems only (helpers: `Lemmas/DTW.lean`, `Lemmas/DTWTable.lean`, `Lemmas/FDTW.lean`, `Lemmas/DTWFront.lean`,
`Lemmas/DTWScale.lean`). They are
about the executable model of `Model/DTWTable.lean` — the table form that the driver runs and the correspondence check
compares with `tracklib.algo.comparison.match` / `compare` — for **all** pairs of non-empty tracks, **every point distance**
`dist` (what `_distance(·, ·, dim)` computes: `dim` 1, 2, 3 or a callable, positions of class `ENUCoords`, `GeoCoords` or
`ECEFCoords`), and every accumulation `w` that is monotone in the accumulated cost (`A + B**p` and `max(A, B)` are).

Layers: `dtw` / `fdtw` (the two algorithms, any accumulation, any point distance) — sections `generic`, `links`; `_distance`,
`_exponent`, `_p2weight` and the front ends `matchCall` / `compareCall` as they are called (mode constant, `p` as type name + value
— a numpy scalar `p` is the Python number of the same value since 1f009f6: `exponent_numpy`, `match_numpy_scalar` —, `dim` as
a number or a callable, the class of the positions, a track1 that may carry the features of an earlier matching) — sections
`forms`, `session`, `cmpgen`; `matchTracks` / `compareTracks` (the same calls on tracks without features, `p` a Python number)
over an ordered field — section `field`; the same front ends with an exponent `p` that is any positive number (`p = 0.5`, `1.5`, …:
`Model/DTWReal.lean`, what the driver runs; `B**p` a parameter) — sections `realexp`, `sessionX`. The swapped-call clause needs a symmetric point distance: `_distance` is symmetric
on `ENUCoords` (any `dim`) and for `dim = 3` on the other two classes (`distanceOf_symm`); `GeoCoords.distance2DTo` (`dim = 2`)
is **not** — it measures in the local frame of its argument — so for `GeoCoords` tracks with different heights the two call
orders give different scores (finding `geo-2d-distance-asymmetric`; everything but the swap clause holds: `match_onesided`).

Vocabulary: `S` is the list built by the backward step of `_dtw` (last pair first); `BackPath S` says that `S` is a
monotone coupling with unit steps that ends at `(0,0)`; `costBack w 0 D S` is its accumulated cost
`w(… w(w(0, D[0,0]), D[s₁]) …, D[last])`; `Dmat dist` is the code's distance matrix (`rows = track2`, `columns = track1`);
`partners S.reverse j` is the content of the `pair` feature of observation `j` of the output. -/
namespace TV.C18
open TV.DTW

section generic
variable {α : Type} [Add α] [Sub α] [Mul α] [LinearOrder α] [OfNat α 0]

/-- a coupling of the two tracks: a list of pairs (last pair first) from `(n2-1, n1-1)` down to `(0,0)` by unit steps -/
def IsCouplingOf (n1 n2 : Nat) (S : List (Nat × Nat)) : Prop :=
  BackPath S ∧ S.head? = some (n2 - 1, n1 - 1)

/-- T1 `table_optimal`: the score that `_dtw` reports (`T[-1,-1]`) is the minimum, over **all** monotone unit-step
couplings from the first pair to the last pair, of the accumulated cost: it is a lower bound of the cost of every
coupling, and some coupling attains it. Only monotonicity of `w` in the accumulated cost is used; `dist` is any function
of two positions (nothing is assumed of it: not symmetry, not sign, not the triangle inequality). -/
theorem table_optimal (dist : Pt α → Pt α → α) (w : α → α → α) (hw : ∀ a b d, a ≤ b → w a d ≤ w b d)
    (t1 t2 : List (Pt α)) (h1 : 0 < t1.length) (h2 : 0 < t2.length) :
    ∃ out, dtw dist w t1 t2 = some out ∧
      (∀ S, IsCouplingOf t1.length t2.length S → out.score ≤ costBack w 0 (Dmat dist t1 t2) S) ∧
      (∃ S, IsCouplingOf t1.length t2.length S ∧ costBack w 0 (Dmat dist t1 t2) S = out.score) := by
  obtain ⟨rows, he, _, _⟩ := dtw_spec dist w t1 t2 h1 h2
  refine ⟨_, he, ?_, ?_⟩
  · intro S hS
    exact T_le w 0 _ hw _ _ _ (backPath_coupling w 0 _ S _ _ hS.1 hS.2)
  · exact ⟨_, ⟨walkF_backPath w 0 _ (t1.length + t2.length) (t2.length - 1) (t1.length - 1) (by omega), walkF_head w 0 _ _ _⟩,
      walkF_cost w 0 _ (t1.length + t2.length) (t2.length - 1) (t1.length - 1) (by omega)⟩

/-- T2 `score_symmetric`: swapping the two tracks does not change the score (the lattice is transposed), provided the
point distance is symmetric (`distanceOf_symm` below: over an ordered field `_distance` is, on `ENUCoords` for every `dim` and on
`GeoCoords` / `ECEFCoords` for `dim = 3`; `GeoCoords.distance2DTo` is not). -/
theorem score_symmetric (dist : Pt α → Pt α → α) (w : α → α → α)
    (hd : ∀ p q : Pt α, dist p q = dist q p)
    (t1 t2 : List (Pt α)) (h1 : 0 < t1.length) (h2 : 0 < t2.length) :
    ∃ o12 o21, dtw dist w t1 t2 = some o12 ∧ dtw dist w t2 t1 = some o21 ∧ o12.score = o21.score := by
  obtain ⟨r12, e12, _, _⟩ := dtw_spec dist w t1 t2 h1 h2
  obtain ⟨r21, e21, _, _⟩ := dtw_spec dist w t2 t1 h2 h1
  refine ⟨_, _, e12, e21, ?_⟩
  show T w 0 (Dmat dist t1 t2) (t2.length - 1) (t1.length - 1) = T w 0 (Dmat dist t2 t1) (t1.length - 1) (t2.length - 1)
  have hD : Dmat dist t2 t1 = fun a b => Dmat dist t1 t2 b a := by
    funext a b; unfold Dmat; exact hd _ _
  rw [hD, T_transpose w 0 (Dmat dist t1 t2) _ _ _ rfl]

/-- T3 `path_valid`: the list `S` produced by the backward walk through `M` is a monotone coupling with unit steps from
the last pair down to `(0,0)`; `nb_links` is its length; the `pair` feature of the output lists exactly its pairs
(`i ∈ pair[j] ↔ (i, j) ∈ S`); consequently every observation of track1 has at least one partner and every observation of
track2 is the partner of some observation of track1. -/
theorem path_valid (dist : Pt α → Pt α → α) (w : α → α → α)
    (t1 t2 : List (Pt α)) (h1 : 0 < t1.length) (h2 : 0 < t2.length) :
    ∃ out, dtw dist w t1 t2 = some out ∧
      IsCouplingOf t1.length t2.length out.S ∧
      out.nbLinks = out.S.length ∧ out.rows.length = t1.length ∧
      (∀ s ∈ out.S, s.1 < t2.length ∧ s.2 < t1.length) ∧
      (∀ j, j < t1.length → ∃ r : Row α, out.rows[j]? = some r ∧ (∀ i, i ∈ r.pair ↔ (i, j) ∈ out.S) ∧ r.pair ≠ []) ∧
      (∀ i, i < t2.length → ∃ (j : Nat) (r : Row α), out.rows[j]? = some r ∧ i ∈ r.pair) := by
  obtain ⟨rows, he, hl, hp⟩ := dtw_spec dist w t1 t2 h1 h2
  have hbp := walkF_backPath w 0 (Dmat dist t1 t2) (t1.length + t2.length) (t2.length - 1) (t1.length - 1) (by omega)
  have hhd := walkF_head w 0 (Dmat dist t1 t2) (t1.length + t2.length) (t2.length - 1, t1.length - 1)
  obtain ⟨r1, r2, r3⟩ := rows_pairs _ t1.length t2.length rows hbp hhd h1 h2 hl hp
  exact ⟨_, he, ⟨hbp, hhd⟩, rfl, hl, r1, r2, r3⟩

/-- T4 `path_realises`: the accumulated cost of the returned coupling equals the reported score. This is where the
predecessor encoding matters: each back-pointer designates a *minimal* predecessor (`T_pred`; false before 42f835b). -/
theorem path_realises (dist : Pt α → Pt α → α) (w : α → α → α)
    (t1 t2 : List (Pt α)) (h1 : 0 < t1.length) (h2 : 0 < t2.length) :
    ∃ out, dtw dist w t1 t2 = some out ∧ costBack w 0 (Dmat dist t1 t2) out.S = out.score := by
  obtain ⟨rows, he, _, _⟩ := dtw_spec dist w t1 t2 h1 h2
  exact ⟨_, he, walkF_cost w 0 _ (t1.length + t2.length) (t2.length - 1) (t1.length - 1) (by omega)⟩

/-- T5 `fdtw_equal`: the fast variant `_fdtw` (best-first search with `priority_dict`) reports the same score as
`_dtw`, for every accumulation that is monotone in the accumulated cost and inflationary on the distances at hand
(`a ≤ w a d`: true for `a + d^p` with `d ≥ 0` and for `max`), `big` (the 1e300 placeholder priority) being above every
candidate cost. The queue is only assumed to return *an* entry of least priority (ties between keys are irrelevant). -/
theorem fdtw_equal (dist : Pt α → Pt α → α) (big : α) (w : α → α → α) (t1 t2 : List (Pt α))
    (h1 : 0 < t1.length) (h2 : 0 < t2.length)
    (hw : ∀ a b d, a ≤ b → w a d ≤ w b d)
    (hinf : ∀ a i j, i < t2.length → j < t1.length → a ≤ w a (Dmat dist t1 t2 i j))
    (hbig : ∀ i j i' j', i < t2.length → j < t1.length → i' < t2.length → j' < t1.length →
      w (T w 0 (Dmat dist t1 t2) i j) (Dmat dist t1 t2 i' j') < big) :
    ∃ od ofast, dtw dist w t1 t2 = some od ∧ fdtw dist big w t1 t2 = some ofast ∧ ofast.score = od.score := by
  obtain ⟨rows, he, _, _⟩ := dtw_spec dist w t1 t2 h1 h2
  obtain ⟨S, rows', he', _⟩ := fdtw_spec dist big w t1 t2 h1 h2 hw hinf hbig
  exact ⟨_, _, he, he', rfl⟩

/-- T5b `fdtw_path`: the matching returned by the fast variant is also a monotone unit-step coupling from the last pair
to `(0,0)` (walk through the antecedent map `A`), its accumulated cost is the reported score, `nb_links` and the `pair`
feature describe it, and nobody is left out. -/
theorem fdtw_path (dist : Pt α → Pt α → α) (big : α) (w : α → α → α) (t1 t2 : List (Pt α))
    (h1 : 0 < t1.length) (h2 : 0 < t2.length)
    (hw : ∀ a b d, a ≤ b → w a d ≤ w b d)
    (hinf : ∀ a i j, i < t2.length → j < t1.length → a ≤ w a (Dmat dist t1 t2 i j))
    (hbig : ∀ i j i' j', i < t2.length → j < t1.length → i' < t2.length → j' < t1.length →
      w (T w 0 (Dmat dist t1 t2) i j) (Dmat dist t1 t2 i' j') < big) :
    ∃ out, fdtw dist big w t1 t2 = some out ∧
      IsCouplingOf t1.length t2.length out.S ∧
      costBack w 0 (Dmat dist t1 t2) out.S = out.score ∧
      out.nbLinks = out.S.length ∧ out.rows.length = t1.length ∧
      (∀ s ∈ out.S, s.1 < t2.length ∧ s.2 < t1.length) ∧
      (∀ j, j < t1.length → ∃ r : Row α, out.rows[j]? = some r ∧ (∀ i, i ∈ r.pair ↔ (i, j) ∈ out.S) ∧ r.pair ≠ []) ∧
      (∀ i, i < t2.length → ∃ (j : Nat) (r : Row α), out.rows[j]? = some r ∧ i ∈ r.pair) := by
  obtain ⟨S, rows, he, hbp, hhd, hcost, hl, hp⟩ := fdtw_spec dist big w t1 t2 h1 h2 hw hinf hbig
  obtain ⟨r1, r2, r3⟩ := rows_pairs S t1.length t2.length rows hbp hhd h1 h2 hl hp
  exact ⟨_, he, ⟨hbp, hhd⟩, hcost, rfl, hl, r1, r2, r3⟩

end generic

/-! ### `_exponent` and `_p2weight`: how `p` is recognised

Since 1f009f6 `match` and `compare` start with `p = _exponent(p)`: a numpy floating scalar becomes `float(p)`, a numpy integer scalar
`int(p)`, anything else is kept. `_p2weight` itself still recognises a number by the substrings `int` / `float` of its type name
(`p2weight_number`, `p2weight_unrecognised`), but through the two public entry points it only ever sees Python numbers, callables,
or whatever non-numpy object the caller passed (`exponent_numpy`, `match_numpy_scalar`). -/
section forms
variable {α : Type} [Add α] [Sub α] [Mul α] [Div α] [Neg α] [LinearOrder α] [OfNat α 0] [OfNat α 1] [OfScientific α]

omit [Sub α] [Div α] [Neg α] [OfScientific α] in
/-- `_p2weight(p)` for a number whose type name contains `int` or `float` — Python `int` and `float`, `numpy.int8/16/32/64`,
`numpy.uint8/16/32/64`, `numpy.float16/32/64` — is the accumulation of the *value* of `p`: `A + B**k` for `p == k`
(`k = 1, 2, 3, …`), `A + (B != 0)*1` for `p == 0`, `max(A, B)` for `p == inf`. -/
theorem p2weight_number (p : PArg) (v : PNorm) (hf : p.isFn = false) (hn : p.isNum = true) (hv : p.val = some v) :
    p2weight (α := α) p = .ok (weight v) := p2weight_numeric p v hf hn hv

omit [Sub α] [Div α] [Neg α] [OfScientific α] in
/-- an infinite `p` (`float('inf')`, `math.inf`, `numpy.inf`, `numpy.float16/32/64('inf')`, `numpy.longdouble('inf')`) gives
`max(A, B)` whatever its type: the test `p == float('inf')` comes last -/
theorem p2weight_infinite (p : PArg) (hv : p.val = some .inf) : p2weight (α := α) p = .ok (weight .inf) := p2weight_inf p hv

omit [Sub α] [Div α] [Neg α] [OfScientific α] in
/-- `_p2weight` called on a number other than 0 and infinity whose type name contains none of `int`, `float`, `function` (`True`,
`numpy.bool(True)`, `Fraction(2)`; also `numpy.longdouble(2)`, `numpy.longlong(2)`, `numpy.ulonglong(2)` — which no longer reach
`_p2weight` through `match` / `compare`: `match_numpy_scalar`) binds nothing: `return weight` raises UnboundLocalError -/
theorem p2weight_unrecognised (p : PArg) (hf : p.isFn = false) (hn : p.isNum = false) (h0 : p.val ≠ some (.nat 0))
    (hi : p.val ≠ some .inf) : p2weight (α := α) p = .error "err:UnboundLocalError" := p2weight_unbound p hf hn h0 hi

/-- the type names, as `str(type(p))` prints them (blanks removed), that `_p2weight` takes for numbers … -/
example : ∀ ty ∈ ["<class'int'>", "<class'float'>", "<class'numpy.int8'>", "<class'numpy.int16'>", "<class'numpy.int32'>",
    "<class'numpy.int64'>", "<class'numpy.uint8'>", "<class'numpy.uint16'>", "<class'numpy.uint32'>", "<class'numpy.uint64'>",
    "<class'numpy.float16'>", "<class'numpy.float32'>", "<class'numpy.float64'>"],
    PArg.isNum { tyname := ty, val := none } = true ∧ PArg.isFn { tyname := ty, val := none } = false := by decide
/-- … and those it does not (the first three are numpy scalars: `_exponent` turns them into Python numbers before `_p2weight` is
called, see `exponent_numpy`) -/
example : ∀ ty ∈ ["<class'numpy.longdouble'>", "<class'numpy.longlong'>", "<class'numpy.ulonglong'>", "<class'bool'>",
    "<class'numpy.bool'>", "<class'fractions.Fraction'>", "<class'str'>"],
    PArg.isNum { tyname := ty, val := none } = false ∧ PArg.isFn { tyname := ty, val := none } = false := by decide
example : PArg.isFn { tyname := "<class'function'>", val := none } = true ∧
    PArg.isFn { tyname := "<class'builtin_function_or_method'>", val := none } = true ∧
    PArg.isNum { tyname := "<class'function'>", val := none } = false ∧
    PArg.isNum { tyname := "<class'builtin_function_or_method'>", val := none } = false := by decide

omit α in
/-- **`_exponent(p)` of a numpy scalar is the Python number of the same value** (1f009f6): for `p` of any numpy floating type
(`float16`, `float32`, `float64`, `longdouble`) or integer type (`int8` … `uint64`, `intc`, `longlong`, `ulonglong`) the argument that
`_p2weight` / `_dtw_comparison` receive has the type name of a Python `float` / `int` — recognised as a number, not as a callable —
and the value of `p`; any other `p` (Python numbers, callables, `numpy.bool`, `Fraction`) is passed on unchanged -/
theorem exponent_numpy (p : PArg) :
    (p.isNumpy = true → p.exponent.isFn = false ∧ p.exponent.isNum = true ∧ p.exponent.val = p.val ∧ p.exponent.fnw = p.fnw) ∧
    (p.isNumpy = false → p.exponent = p) :=
  ⟨PArg.exponent_numpy p, PArg.exponent_other p⟩

/-- the numpy scalar types the harness hands over (the last three are those whose name contains neither `int` nor `float`) -/
example : ∀ ty ∈ ["<class'numpy.int8'>", "<class'numpy.int16'>", "<class'numpy.int32'>", "<class'numpy.int64'>",
    "<class'numpy.uint8'>", "<class'numpy.uint16'>", "<class'numpy.uint32'>", "<class'numpy.uint64'>",
    "<class'numpy.float16'>", "<class'numpy.float32'>", "<class'numpy.float64'>",
    "<class'numpy.longdouble'>", "<class'numpy.longlong'>", "<class'numpy.ulonglong'>"],
    PArg.isNumpy { tyname := ty, val := none } = true := by decide
/-- … and what is not a numpy floating / integer scalar -/
example : ∀ ty ∈ ["<class'int'>", "<class'float'>", "<class'bool'>", "<class'numpy.bool'>", "<class'fractions.Fraction'>",
    "<class'function'>", "<class'builtin_function_or_method'>"],
    PArg.isNumpy { tyname := ty, val := none } = false := by decide
example : (PArg.exponent { tyname := "<class'numpy.longdouble'>", val := some (.nat 2) }).tyname = "<class'float'>" ∧
    (PArg.exponent { tyname := "<class'numpy.ulonglong'>", val := some (.nat 2) }).tyname = "<class'int'>" ∧
    (PArg.exponent { tyname := "<class'numpy.float16'>", val := some (.nat 3) }).tyname = "<class'float'>" := by decide

/-! ### `_distance`: which `dim` on which class of positions -/

omit [OfNat α 1] in
/-- on `ENUCoords`, `dim = 1, 2, 3` give `abs(p1.U - p2.U)`, `(p2 - p1).norm2D()`, `(p2 - p1).norm()` (`distance`) -/
theorem distance_enu (G : Geom α) (h : G.cls = Coords.enu) (d : Nat) (hd : d = 1 ∨ d = 2 ∨ d = 3) :
    distanceOf G (.num d) = .ok (distance G.T.sqrt d) := by
  simp only [distanceOf]
  rw [if_pos hd, h]

omit [OfNat α 1] in
/-- the function form of `dim` (`'function' in str(type(dim))`): the callable is the point distance, whatever the class of
the positions -/
theorem distance_function_form (G : Geom α) (f : Pt α → Pt α → α) : distanceOf G (.fn f) = .ok f := rfl

omit [OfNat α 1] in
/-- on `GeoCoords`: `dim = 2` is `distance2DTo` (horizontal distance in the local frame of the second point), `dim = 3` the
distance of the two ECEF images; `dim = 1` reads an attribute `U` that a `GeoCoords` does not have -/
theorem distance_geo (G : Geom α) (h : G.cls = Coords.geo) :
    distanceOf G (.num 1) = .error "err:attr" ∧
    distanceOf G (.num 2) = .ok (fun p q => geoDistance2D G.T p.v3 q.v3) ∧
    distanceOf G (.num 3) = .ok (fun p q => geoDistance3D G.T p.v3 q.v3) := by
  simp only [distanceOf]
  simp [h]

omit [OfNat α 1] in
/-- on `ECEFCoords` only `dim = 3` is defined (no `U`, no `distance2DTo`) -/
theorem distance_ecef (G : Geom α) (h : G.cls = Coords.ecef) :
    distanceOf G (.num 1) = .error "err:attr" ∧ distanceOf G (.num 2) = .error "err:attr" ∧
    distanceOf G (.num 3) = .ok (fun p q => ecefDistance G.T p.v3 q.v3) := by
  simp only [distanceOf]
  simp [h]

/-- where `_distance` is not defined, `match` (any of the three modes, any recognised `p`) on two non-empty tracks raises the
error of the first `_distance` call: AttributeError for `dim = 1` on `GeoCoords` / `ECEFCoords` and `dim = 2` on `ECEFCoords` -/
theorem match_distance_error (G : Geom α) (big : α) (mode : Mode) (p : PArg) (w : α → α → α)
    (hp : p2weight (α := α) p.exponent = .ok w) (dim : DimArg α) (e : String) (hd : distanceOf G dim = .error e)
    (a : TrackObj α) (t2 : List (Pt α)) (h1 : a.pts.isEmpty = false) (h2 : t2.isEmpty = false) :
    matchCall G big mode.code p dim a t2 = .error e :=
  matchCall_distance_error G big mode.code (by cases mode <;> simp [Mode.code]) p w hp dim e hd a t2 h1 h2

/-! ### the front end `match`: constants, forms of `p`, histories -/

/-- **every numeric form of `p` is the same call**: `match(track1, track2, mode, p, dim)` with the constant of the mode
(`MODE_MATCHING_DTW = 2`, `FDTW = 3`, `FRECHET = 4`) and `p` a number of value `v` — **any numpy floating or integer scalar**
(`numpy.longdouble`, `longlong`, `ulonglong` included: false before 1f009f6, where these raised UnboundLocalError), or any other
object whose type name contains `int` or `float` (Python `int` / `float`) — is the call that `match_correct` / `match_fdtw_correct`
are about -/
theorem match_any_form (G : Geom α) (big : α) (mode : Mode) (p : PArg) (v : PNorm)
    (hk : p.isNumpy = true ∨ (p.isFn = false ∧ p.isNum = true)) (hv : p.val = some v) (dim : DimArg α) (t1 t2 : List (Pt α)) :
    matchCall G big mode.code p dim (TrackObj.fresh t1) t2 = matchTracks G big mode v dim t1 t2 := by
  have hq : p.exponent.isFn = false ∧ p.exponent.isNum = true ∧ p.exponent.val = some v := by
    cases hnp : p.isNumpy with
    | true =>
      obtain ⟨a, b, c, _⟩ := PArg.exponent_numpy p hnp
      exact ⟨a, b, c.trans hv⟩
    | false =>
      rw [PArg.exponent_other p hnp]
      rcases hk with h | h
      · rw [hnp] at h; cases h
      · exact ⟨h.1, h.2, hv⟩
  unfold matchTracks matchCall
  rw [PArg.exponent_ofNorm]
  unfold matchBody warpOn
  rw [p2weight_numeric p.exponent v hq.1 hq.2.1 hq.2.2, p2weight_ofNorm]

/-- **a numpy scalar `p` gives the result of the Python number of the same value** (the repair 1f009f6, both front ends, every
mode constant, every track1 — with or without earlier features): `match` / `compare` called with `p` a numpy floating (integer)
scalar return exactly what they return with `float(p)` (`int(p)`). Before the repair (`matchCallOld`) `numpy.longdouble(2)`,
`numpy.longlong(2)`, `numpy.ulonglong(2)` raised UnboundLocalError (`match_numpy_scalar_old`) and `B**p`, `1.0/p` were evaluated in
the type of `p` (float16 / float32 precision, overflow and wrap-around of the small integer types). -/
theorem match_numpy_scalar (G : Geom α) (root : Nat → α → α) (ofNat : Nat → α) (big : α) (mode : Nat) (p : PArg)
    (dim : DimArg α) (a : TrackObj α) (t2 : List (Pt α)) :
    matchCall G big mode p dim a t2 = matchCall G big mode { p with tyname := exponentTy p.tyname } dim a t2 ∧
    compareCall G root ofNat big mode p dim a t2
      = compareCall G root ofNat big mode { p with tyname := exponentTy p.tyname } dim a t2 ∧
    (isNpFloating p.tyname = true → exponentTy p.tyname = "<class'float'>") ∧
    (isNpFloating p.tyname = false → isNpInteger p.tyname = true → exponentTy p.tyname = "<class'int'>") := by
  have he : p.exponent.exponent = p.exponent := PArg.exponent_exponent p
  refine ⟨?_, ?_, ?_, ?_⟩
  · show matchBody G big mode p.exponent dim a t2 = matchBody G big mode p.exponent.exponent dim a t2
    rw [he]
  · show compareBody G root ofNat big mode p.exponent dim a t2 = compareBody G root ofNat big mode p.exponent.exponent dim a t2
    rw [he]
  · intro h; simp [exponentTy, h]
  · intro h h'; simp [exponentTy, h, h']

/-- the pre-fix variant (`matchCallOld`, kept only to document the defect that 1f009f6 repaired): a numpy scalar of value other than
0 and infinity whose type name contains neither `int` nor `float` (`numpy.longdouble(2)`, `numpy.longlong(2)`, `numpy.ulonglong(2)`)
made `match` in the modes DTW / FDTW raise UnboundLocalError -/
theorem match_numpy_scalar_old (G : Geom α) (big : α) (mode : Nat) (hm : mode = 2 ∨ mode = 3) (p : PArg)
    (hf : p.isFn = false) (hn : p.isNum = false) (h0 : p.val ≠ some (.nat 0)) (hi : p.val ≠ some .inf)
    (dim : DimArg α) (a : TrackObj α) (t2 : List (Pt α)) :
    matchCallOld G big mode p dim a t2 = .error "err:UnboundLocalError" := by
  have hp : p2weight (α := α) p = .error "err:UnboundLocalError" := p2weight_unbound p hf hn h0 hi
  unfold matchCallOld matchBody warpOn
  rcases hm with h | h <;> subst h <;> simp [hp, bind, Except.bind]

/-- a callable `p` that computes the accumulation of `v` (`lambda A, B: A + B**2`, `lambda A, B: max(A, B)`, the builtin `max`)
is the same call as the number `v` -/
theorem match_callable_form (G : Geom α) (big : α) (mode : Mode) (p : PArg) (v : PNorm)
    (hf : p.isFn = true) (hn : p.isNum = false) (hw : p.fnw = some v) (hv : p.val = none) (dim : DimArg α) (t1 t2 : List (Pt α)) :
    matchCall G big mode.code p dim (TrackObj.fresh t1) t2 = matchTracks G big mode v dim t1 t2 := by
  unfold matchTracks matchCall
  rw [PArg.exponent_ofNorm, PArg.exponent_other p (PArg.isNumpy_of_isFn p hf)]
  unfold matchBody warpOn
  rw [p2weight_callable p v hf hn hw hv, p2weight_ofNorm]

/-- any other constant (for instance one of the `MODE_COMPARISON_*`) is refused -/
theorem match_unknown_mode (G : Geom α) (big : α) (mode : Nat) (h : mode ≠ 1 ∧ mode ≠ 2 ∧ mode ≠ 3 ∧ mode ≠ 4)
    (p : PArg) (dim : DimArg α) (a : TrackObj α) (t2 : List (Pt α)) :
    matchCall G big mode p dim a t2 = .error "err:UnknownModeError" := by
  unfold matchCall matchBody
  simp [h.1, h.2.1, h.2.2.1, h.2.2.2]

/-- **a matched track matched again** (modes DTW, FRECHET): `match(m, track2, …)` where `m` carries the feature rows `rows0`
of an earlier matching (or features the user created under the names `diff`, `pair`, `ex`, `ey`) returns exactly
`match(track1, track2, …)` on the same positions without features -/
theorem match_history_irrelevant (G : Geom α) (big : α) (mode : Mode) (hm : mode ≠ Mode.fdtw) (p : PNorm) (dim : DimArg α)
    (t1 t2 : List (Pt α)) (h1 : 0 < t1.length) (h2 : 0 < t2.length) (rows0 : List (Row α)) (hl : rows0.length = t1.length) :
    matchCall G big mode.code (PArg.ofNorm p) dim { pts := t1, rows := rows0 } t2 = matchTracks G big mode p dim t1 t2 := by
  have : mode.code ≠ 3 := by cases mode <;> simp [Mode.code] at hm ⊢
  exact matchCall_history G big mode.code this _ dim t1 t2 rows0 hl h1 h2


end forms

/-! ### sessions of calls on shared objects -/
section session
variable {α : Type} [Add α] [Sub α] [Mul α] [Div α] [Neg α] [LinearOrder α] [OfNat α 0] [OfNat α 1] [OfScientific α]

/-- the session `runSeq` with every call made on copies *without* features of the tracks involved: only the positions
of the objects are kept (`none` = a call that returned no track) -/
def runFresh (G : Geom α) (root : Nat → α → α) (ofNat : Nat → α) (big : α) :
    List (Option (List (Pt α))) → List (Step α) → List (Res α)
  | _, [] => []
  | geo, st :: rest =>
    match (geo[st.a]?).join, (geo[st.b]?).join with
    | some ta, some tb =>
      if st.front then
        match matchCall G big st.mode st.p st.dim (TrackObj.fresh ta) tb with
        | .ok o => .matched o :: runFresh G root ofNat big (geo ++ [some ta]) rest
        | .error e => .err e :: runFresh G root ofNat big (geo ++ [none]) rest
      else
        (match compareCall G root ofNat big st.mode st.p st.dim (TrackObj.fresh ta) tb with
          | .ok v => .value v
          | .error e => .err e) :: runFresh G root ofNat big (geo ++ [none]) rest
    | _, _ => .err "bad-ref" :: runFresh G root ofNat big (geo ++ [none]) rest

/-- every object of the session is a non-empty track with one feature row per observation -/
def WFEnv (env : List (Option (TrackObj α))) : Prop :=
  ∀ obj, some obj ∈ env → obj.rows.length = obj.pts.length ∧ 0 < obj.pts.length

/-- **histories are irrelevant** (sessions in the modes DTW and FRECHET, `match` and `compare`, any form of `p`, any
constants): in a session of calls on shared objects — tracks, and tracks returned by earlier `match` calls, which carry the
`diff`/`pair`/`ex`/`ey` features of that matching, used again as first or second argument — every call returns what it
returns on copies of the same positions that never went through `match`. In particular `match(match(t1, t2), t3)` returns
`match(t1, t3)`: no link of the earlier matching survives, `nb_links` counts the new links only. (The FDTW modes 3 / 107
are excluded here because their coupling is valid only under the hypotheses of `match_fdtw_correct`; `match_fdtw_history`
is the single-call statement for them.) -/
theorem session_history_irrelevant (G : Geom α) (root : Nat → α → α) (ofNat : Nat → α) (big : α) :
    ∀ (steps : List (Step α)) (env : List (Option (TrackObj α))), WFEnv env →
      (∀ st ∈ steps, st.mode ≠ 3 ∧ st.mode ≠ 107) →
      runSeq G root ofNat big env steps
        = runFresh G root ofNat big (env.map (Option.map TrackObj.pts)) steps
  | [], env, _, _ => by simp [runSeq, runFresh]
  | st :: rest, env, hwf, hm => by
    have hst := hm st List.mem_cons_self
    have hrest : ∀ s ∈ rest, s.mode ≠ 3 ∧ s.mode ≠ 107 := fun s hs => hm s (List.mem_cons_of_mem _ hs)
    have hget : ∀ k : Nat, ((env.map (Option.map TrackObj.pts))[k]?).join = ((env[k]?).join).map TrackObj.pts := by
      intro k
      rw [List.getElem?_map]
      cases env[k]? with
      | none => rfl
      | some o => cases o <;> rfl
    have hmem : ∀ (k : Nat) (obj : TrackObj α), (env[k]?).join = some obj → some obj ∈ env := by
      intro k obj h
      cases hk : env[k]? with
      | none => rw [hk] at h; cases h
      | some o =>
        rw [hk] at h
        simp only [Option.join] at h
        subst h
        exact List.mem_of_getElem? hk
    have hnone : WFEnv (env ++ [none]) := by
      intro obj ho
      rcases List.mem_append.mp ho with h | h
      · exact hwf obj h
      · simp at h
    have hmapnone : (env ++ [none]).map (Option.map TrackObj.pts) = env.map (Option.map TrackObj.pts) ++ [none] := by simp
    rw [runSeq, runFresh, hget, hget]
    cases ha : (env[st.a]?).join with
    | none =>
      simp only [Option.map_none]
      rw [session_history_irrelevant G root ofNat big rest _ hnone hrest, hmapnone]
    | some a =>
      cases hb : (env[st.b]?).join with
      | none =>
        simp only [Option.map_none, Option.map_some]
        rw [session_history_irrelevant G root ofNat big rest _ hnone hrest, hmapnone]
      | some b =>
        have hwa := hwf a (hmem _ _ ha)
        have hwb := hwf b (hmem _ _ hb)
        simp only [Option.map_some]
        by_cases hf : st.front = true
        · simp only [hf, if_true]
          have hh : matchCall G big st.mode st.p st.dim a b.pts
              = matchCall G big st.mode st.p st.dim (TrackObj.fresh a.pts) b.pts :=
            matchCall_history G big st.mode hst.1 st.p st.dim a.pts b.pts a.rows hwa.1 hwa.2 hwb.2
          rw [hh]
          cases hr : matchCall G big st.mode st.p st.dim (TrackObj.fresh a.pts) b.pts with
          | error e =>
            simp only
            rw [session_history_irrelevant G root ofNat big rest _ hnone hrest, hmapnone]
          | ok o =>
            simp only
            have hlen := matchCall_rows_length G big st.mode hst.1 st.p st.dim a.pts b.pts hwa.2 hwb.2 o hr
            have hwf' : WFEnv (env ++ [some { pts := a.pts, rows := o.rows }]) := by
              intro obj ho
              rcases List.mem_append.mp ho with h | h
              · exact hwf obj h
              · simp only [List.mem_singleton, Option.some.injEq] at h
                subst h
                exact ⟨hlen, hwa.2⟩
            rw [session_history_irrelevant G root ofNat big rest _ hwf' hrest]
            simp
        · simp only [hf, if_false, Bool.false_eq_true]
          have hh : compareCall G root ofNat big st.mode st.p st.dim a b.pts
              = compareCall G root ofNat big st.mode st.p st.dim (TrackObj.fresh a.pts) b.pts :=
            compareCall_history G root ofNat big st.mode hst.2 st.p st.dim a.pts b.pts a.rows hwa.1 hwa.2 hwb.2
          rw [hh, session_history_irrelevant G root ofNat big rest _ hnone hrest, hmapnone]
          rfl

end session

/-! ### the front end `compare` -/
section cmpgen
variable {α : Type} [Add α] [Sub α] [Mul α] [Div α] [Neg α] [LinearOrder α] [OfNat α 0] [OfNat α 1] [OfScientific α]

/-- what `compare` makes of the matching `o`: the score for FRECHET, `p = inf` and `p = 0`, `(score/nb_links)**(1/p)` otherwise -/
def cmpValue (root : Nat → α → α) (ofNat : Nat → α) (mode : Mode) (p : PNorm) (o : Out α) : α :=
  match (if mode = Mode.frechet then PNorm.inf else p) with
  | .inf => o.score
  | .nat 0 => o.score
  | .nat (k+1) => root (k+1) (o.score / ofNat o.nbLinks)

/-- `compare(track1, track2, mode, p, dim)` in the modes DTW / FDTW / FRECHET is `match` followed by `cmpValue`: errors are
those of `match` -/
theorem compare_value (G : Geom α) (root : Nat → α → α) (ofNat : Nat → α) (big : α) (mode : Mode) (p : PNorm) (dim : DimArg α)
    (t1 t2 : List (Pt α)) :
    compareTracks G root ofNat big mode p dim t1 t2 =
      match matchTracks G big mode p dim t1 t2 with
      | .ok o => .ok (cmpValue root ofNat mode p o)
      | .error e => .error e := by
  have hfn : ∀ q : PNorm, (PArg.ofNorm q).isFn = false := by
    intro q
    cases q with
    | nat k => show hasSub "function".toList "<class'int'>".toList = false; decide
    | inf => decide
  unfold compareTracks compareCall matchTracks matchCall
  rw [PArg.exponent_ofNorm]
  unfold compareBody warpCompare matchBody cmpValue
  cases mode with
  | frechet =>
    simp only [Mode.code, Mode.cmpCode]
    cases warpOn G big false PArg.pyInf dim (TrackObj.fresh t1) t2 with
    | error e => rfl
    | ok o => simp [bind, Except.bind, PArg.pyInf, pure, Except.pure]
  | dtw =>
    simp only [Mode.code, Mode.cmpCode]
    cases warpOn G big false (PArg.ofNorm p) dim (TrackObj.fresh t1) t2 with
    | error e => rfl
    | ok o =>
      cases p with
      | inf => simp [bind, Except.bind, PArg.ofNorm, pure, Except.pure]
      | nat k =>
        cases k with
        | zero => simp [bind, Except.bind, PArg.ofNorm, pure, Except.pure]
        | succ k =>
          have hk : ({ tyname := "<class'int'>", val := some (PNorm.nat (k + 1)) } : PArg).isFn = false := hfn (.nat (k+1))
          simp [bind, Except.bind, PArg.ofNorm, pure, Except.pure, hk]
  | fdtw =>
    simp only [Mode.code, Mode.cmpCode]
    cases warpOn G big true (PArg.ofNorm p) dim (TrackObj.fresh t1) t2 with
    | error e => rfl
    | ok o =>
      cases p with
      | inf => simp [bind, Except.bind, PArg.ofNorm, pure, Except.pure]
      | nat k =>
        cases k with
        | zero => simp [bind, Except.bind, PArg.ofNorm, pure, Except.pure]
        | succ k => simp [bind, Except.bind, PArg.ofNorm, pure, Except.pure]
end cmpgen

/-! ### what a user reads from the returned track -/
section links
variable {α : Type} [Add α] [Sub α] [Mul α] [Div α] [LinearOrder α] [OfNat α 0]

omit [Div α] in
/-- **the links, read back**: reading the `pair` lists of the track that `_dtw` returns, observation by observation
(`[(i, j) for j, l in enumerate(pairs) for i in l]`), gives exactly the coupling `S` of `path_valid` / `path_realises`, first
pair first — same pairs, same order, same multiplicity; hence the number of stored links is `nb_links` -/
theorem links_read_back (dist : Pt α → Pt α → α) (w : α → α → α)
    (t1 t2 : List (Pt α)) (h1 : 0 < t1.length) (h2 : 0 < t2.length) :
    ∃ out, dtw dist w t1 t2 = some out ∧ readBack out.rows = out.S.reverse ∧ (readBack out.rows).length = out.nbLinks := by
  obtain ⟨rows, he, hl, hp⟩ := dtw_spec dist w t1 t2 h1 h2
  have hbp := walkF_backPath w 0 (Dmat dist t1 t2) (t1.length + t2.length) (t2.length - 1) (t1.length - 1) (by omega)
  have hhd := walkF_head w 0 (Dmat dist t1 t2) (t1.length + t2.length) (t2.length - 1, t1.length - 1)
  have hrb := readBack_eq _ t1.length t2.length rows hbp hhd h1 hl hp
  exact ⟨_, he, hrb, by rw [hrb]; simp⟩

omit [Div α] in
/-- the same for the fast variant, under the hypotheses of `fdtw_equal` -/
theorem fdtw_links_read_back (dist : Pt α → Pt α → α) (big : α) (w : α → α → α) (t1 t2 : List (Pt α))
    (h1 : 0 < t1.length) (h2 : 0 < t2.length)
    (hw : ∀ a b d, a ≤ b → w a d ≤ w b d)
    (hinf : ∀ a i j, i < t2.length → j < t1.length → a ≤ w a (Dmat dist t1 t2 i j))
    (hbig : ∀ i j i' j', i < t2.length → j < t1.length → i' < t2.length → j' < t1.length →
      w (T w 0 (Dmat dist t1 t2) i j) (Dmat dist t1 t2 i' j') < big) :
    ∃ out, fdtw dist big w t1 t2 = some out ∧ readBack out.rows = out.S.reverse ∧
      (readBack out.rows).length = out.nbLinks := by
  obtain ⟨S, rows, he, hbp, hhd, _, hl, hp⟩ := fdtw_spec dist big w t1 t2 h1 h2 hw hinf hbig
  have hrb := readBack_eq S t1.length t2.length rows hbp hhd h1 hl hp
  exact ⟨_, he, hrb, by rw [hrb]; simp⟩

end links

section features
variable {α : Type} [Add α] [Sub α] [Mul α] [Div α] [LinearOrder α] [OfNat α 0]

omit [Div α] in
/-- **`diff`, `ex`, `ey`, read back**: on the track that `_dtw` returns, observation `j` of track1 — whose partners, in coupling
order, are `partners S.reverse j`, the last of them being `i` — holds exactly that list in `pair`, and in `diff`, `ex`, `ey` the
distance and the coordinate differences to that **last** partner `track2[i]` (`rowFor`); nothing of an earlier state -/
theorem features_read_back (dist : Pt α → Pt α → α) (w : α → α → α) (t1 t2 : List (Pt α))
    (h1 : 0 < t1.length) (h2 : 0 < t2.length) :
    ∃ out, dtw dist w t1 t2 = some out ∧
      ∀ j i, j < t1.length → (partners out.S.reverse j).getLast? = some i →
        out.rows[j]? = some (rowFor dist t1 t2 j i (partners out.S.reverse j)) := by
  have hbp := walkF_backPath w 0 (Dmat dist t1 t2) (t1.length + t2.length) (t2.length - 1) (t1.length - 1) (by omega)
  have hhd := walkF_head w 0 (Dmat dist t1 t2) (t1.length + t2.length) (t2.length - 1, t1.length - 1)
  have hb := backPath_bounds _ _ _ hbp hhd
  have he : dtw dist w t1 t2 = some (Out.mk (T w 0 (Dmat dist t1 t2) (t2.length - 1) (t1.length - 1))
      (walkF w 0 (Dmat dist t1 t2) (t1.length + t2.length) (t2.length - 1, t1.length - 1))
      ((t1.map (fun _ => ({} : Row α))).mapIdx (fun j r =>
        (walkF w 0 (Dmat dist t1 t2) (t1.length + t2.length) (t2.length - 1, t1.length - 1)).reverse.foldl
          (stepRow dist t1 t2 j) r))
      (walkF w 0 (Dmat dist t1 t2) (t1.length + t2.length) (t2.length - 1, t1.length - 1)).length) := by
    unfold dtw dtwOn
    rw [distCols_eq, dtwCore_spec w 0 _ _ _ h1 h2]
    exact fillAF_rows dist t1 t2 _ _ (fun s hs => by have := hb s hs; omega)
  refine ⟨_, he, ?_⟩
  · intro j i hj hlast
    simp only [List.getElem?_mapIdx, List.getElem?_map, List.getElem?_eq_getElem hj, Option.map_some]
    rw [foldl_stepRow_last, hlast]
    simp

end features

/-! ### the public entry point `match`, over an ordered field (`ℚ`, `ℝ`) -/
section field
variable {α : Type} [Field α] [LinearOrder α] [IsStrictOrderedRing α]

/-- `_p2weight(p)` is monotone in the accumulated cost for every `p = 0, 1, 2, 3, …, inf` -/
theorem weight_mono (p : PNorm) (a b d : α) (h : a ≤ b) : weight p a d ≤ weight p b d := by
  cases p with
  | nat k => cases k <;> exact add_le_add h le_rfl
  | inf =>
    simp only [weight, pmax]
    by_cases h1 : a < d <;> by_cases h2 : b < d <;> simp only [h1, h2, if_true, if_false]
    · exact le_rfl
    · exact not_lt.mp h2
    · exact absurd (lt_of_le_of_lt h h2) h1
    · exact h

/-- `_distance` on `ENUCoords` is symmetric (`abs`, and squares of coordinate differences), for any `sqrt` -/
theorem distance_symm (sqrt : α → α) (dim : Nat) (p q : Pt α) : distance sqrt dim p q = distance sqrt dim q p := by
  unfold distance
  by_cases h1 : dim = 1
  · simp only [h1, if_true]
    rcases lt_trichotomy (p.z - q.z) 0 with h | h | h
    · have h' : ¬ q.z - p.z < 0 := by
        have : q.z - p.z = -(p.z - q.z) := by ring
        rw [this]; exact not_lt.mpr (le_of_lt (neg_pos.mpr h))
      simp only [h, h', if_true, if_false]; ring
    · have h' : q.z - p.z = 0 := by
        have : q.z - p.z = -(p.z - q.z) := by ring
        rw [this, h]; simp
      simp [h, h']
    · have h' : q.z - p.z < 0 := by
        have : q.z - p.z = -(p.z - q.z) := by ring
        rw [this]; exact neg_neg_of_pos h
      have h'' : ¬ p.z - q.z < 0 := not_lt.mpr (le_of_lt h)
      simp only [h', h'', if_true, if_false]; ring
  · simp only [h1, if_false]
    by_cases h2 : dim = 2
    · simp only [h2, if_true]; congr 1; ring
    · simp only [h2, if_false]; congr 1; ring

omit [LinearOrder α] [IsStrictOrderedRing α] in
/-- `ECEFCoords.distanceTo` is symmetric (squares of coordinate differences), for any `sqrt` -/
theorem ecefDistance_symm (T : Geo.Trig α) (a b : Geo.V3 α) : ecefDistance T a b = ecefDistance T b a := by
  simp only [ecefDistance]
  congr 1
  ring

omit [LinearOrder α] [IsStrictOrderedRing α] in
/-- `GeoCoords.distanceTo` (distance of the ECEF images) is symmetric, whatever `sin`, `cos`, `sqrt`, `pow` compute -/
theorem geoDistance3D_symm (T : Geo.Trig α) (a b : Geo.V3 α) : geoDistance3D T a b = geoDistance3D T b a :=
  ecefDistance_symm T _ _

/-- **`_distance` is symmetric** on `ENUCoords` for `dim = 1, 2, 3` and on `GeoCoords` / `ECEFCoords` for `dim = 3`. (Not for
`dim = 2` on `GeoCoords`: `distance2DTo` projects on the horizontal plane of its *argument*, and the horizontal planes of two
points differ; nor, of course, for an arbitrary callable `dim`.) -/
theorem distanceOf_symm (G : Geom α) (d : Nat) (h : G.cls = Coords.enu ∨ d = 3) (dist : Pt α → Pt α → α)
    (hd : distanceOf G (.num d) = .ok dist) (p q : Pt α) : dist p q = dist q p := by
  simp only [distanceOf] at hd
  by_cases hr : d = 1 ∨ d = 2 ∨ d = 3
  · rw [if_pos hr] at hd
    cases hc : G.cls with
    | enu =>
      rw [hc] at hd
      injection hd with hd
      subst hd
      exact distance_symm _ _ _ _
    | geo =>
      have h3 : d = 3 := by
        rcases h with h | h
        · rw [hc] at h; cases h
        · exact h
      subst h3
      rw [hc] at hd
      simp only [show ¬ (3 = 1) by decide, show ¬ (3 = 2) by decide, if_false] at hd
      injection hd with hd
      subst hd
      exact geoDistance3D_symm _ _ _
    | ecef =>
      have h3 : d = 3 := by
        rcases h with h | h
        · rw [hc] at h; cases h
        · exact h
      subst h3
      rw [hc] at hd
      simp only [if_true] at hd
      injection hd with hd
      subst hd
      exact ecefDistance_symm _ _ _
  · rw [if_neg hr] at hd
    cases hd

/-- the accumulation that `match` uses in the modes DTW (`p`) and FRECHET (`inf`) -/
def weightOf (mode : Mode) (p : PNorm) : α → α → α := weight (if mode = Mode.frechet then PNorm.inf else p)

omit [IsStrictOrderedRing α] in
/-- in the modes DTW / FRECHET `match` on tracks without features is `_dtw` with the accumulation of the mode -/
theorem matchTracks_of_dtw (G : Geom α) (big : α) (mode : Mode) (hm : mode ≠ Mode.fdtw) (p : PNorm) (dim : DimArg α)
    (dist : Pt α → Pt α → α) (hd : distanceOf G dim = .ok dist) (u v : List (Pt α)) (hu : 0 < u.length) (hv : 0 < v.length)
    (o : Out α) (ho : dtw dist (weightOf mode p) u v = some o) : matchTracks G big mode p dim u v = .ok o := by
  have hne : u.isEmpty = false := by cases u with | nil => simp at hu | cons _ _ => rfl
  have hne2 : v.isEmpty = false := by cases v with | nil => simp at hv | cons _ _ => rfl
  rw [matchTracks_unfold G big mode p dim dist hd]
  unfold weightOf at ho
  cases mode with
  | fdtw => exact absurd rfl hm
  | dtw => simp at ho; simp [hne, hne2, ho]
  | frechet => simp at ho; simp [hne, hne2, ho]

/-- **C18 for `match(track1, track2, mode = DTW | FRECHET, p, dim)` without the swap clause**, for every pair of non-empty
tracks, `p ∈ {0, 1, 2, 3, …, inf}` (a Python number; every other recognised form of `p` is the same call: `match_any_form`), every
class of positions and every `dim` on which `_distance` is defined (`hd`: `dim ∈ {1, 2, 3}` on `ENUCoords`, `{2, 3}` on
`GeoCoords`, `3` on `ECEFCoords`, any callable — nothing is assumed of the distance it computes): the call succeeds; the
reported score is a lower bound of the accumulated cost (`Σ d^p`, or `max d` for `p = inf` / FRECHET) of every monotone unit-step
coupling from the first to the last pair; the returned `S` is such a coupling and its accumulated cost **is** the score;
`nb_links` is its length and the `pair` feature lists exactly its pairs, with no observation of either track left out. -/
theorem match_onesided (G : Geom α) (big : α) (mode : Mode) (hm : mode ≠ Mode.fdtw) (p : PNorm) (dim : DimArg α)
    (dist : Pt α → Pt α → α) (hd : distanceOf G dim = .ok dist)
    (t1 t2 : List (Pt α)) (h1 : 0 < t1.length) (h2 : 0 < t2.length) :
    ∃ out, matchTracks G big mode p dim t1 t2 = .ok out ∧ dtw dist (weightOf mode p) t1 t2 = some out ∧
      (∀ S, IsCouplingOf t1.length t2.length S → out.score ≤ costBack (weightOf mode p) 0 (Dmat dist t1 t2) S) ∧
      IsCouplingOf t1.length t2.length out.S ∧
      costBack (weightOf mode p) 0 (Dmat dist t1 t2) out.S = out.score ∧
      out.nbLinks = out.S.length ∧
      (∀ j, j < t1.length → ∃ r : Row α, out.rows[j]? = some r ∧ (∀ i, i ∈ r.pair ↔ (i, j) ∈ out.S) ∧ r.pair ≠ []) ∧
      (∀ i, i < t2.length → ∃ (j : Nat) (r : Row α), out.rows[j]? = some r ∧ i ∈ r.pair) := by
  have hw : ∀ a b d : α, a ≤ b → weightOf mode p a d ≤ weightOf mode p b d := fun a b d h => weight_mono _ a b d h
  obtain ⟨out, he, hlow, _⟩ := table_optimal dist (weightOf mode p) hw t1 t2 h1 h2
  obtain ⟨out2, he2, hcoup, hnb, _, _, hrows, hcov⟩ := path_valid dist (weightOf mode p) t1 t2 h1 h2
  obtain ⟨out3, he3, hcost⟩ := path_realises dist (weightOf mode p) t1 t2 h1 h2
  rw [he] at he2 he3
  cases Option.some.inj he2
  cases Option.some.inj he3
  exact ⟨out, matchTracks_of_dtw G big mode hm p dim dist hd t1 t2 h1 h2 out he, he, hlow, hcoup, hcost, hnb, hrows, hcov⟩

/-- **C18 for `match(track1, track2, mode = DTW | FRECHET, p, dim)`**, all at once: `match_onesided`, and — when the point
distance is symmetric (`distanceOf_symm`: `ENUCoords` with `dim ∈ {1, 2, 3}`, `GeoCoords` / `ECEFCoords` with `dim = 3`) —
`match(track2, track1)` reports the same score. -/
theorem match_correct (G : Geom α) (big : α) (mode : Mode) (hm : mode ≠ Mode.fdtw) (p : PNorm) (dim : DimArg α)
    (dist : Pt α → Pt α → α) (hd : distanceOf G dim = .ok dist) (hsymm : ∀ p q, dist p q = dist q p)
    (t1 t2 : List (Pt α)) (h1 : 0 < t1.length) (h2 : 0 < t2.length) :
    ∃ out out', matchTracks G big mode p dim t1 t2 = .ok out ∧ matchTracks G big mode p dim t2 t1 = .ok out' ∧
      (∀ S, IsCouplingOf t1.length t2.length S → out.score ≤ costBack (weightOf mode p) 0 (Dmat dist t1 t2) S) ∧
      IsCouplingOf t1.length t2.length out.S ∧
      costBack (weightOf mode p) 0 (Dmat dist t1 t2) out.S = out.score ∧
      out.nbLinks = out.S.length ∧
      (∀ j, j < t1.length → ∃ r : Row α, out.rows[j]? = some r ∧ (∀ i, i ∈ r.pair ↔ (i, j) ∈ out.S) ∧ r.pair ≠ []) ∧
      (∀ i, i < t2.length → ∃ (j : Nat) (r : Row α), out.rows[j]? = some r ∧ i ∈ r.pair) ∧
      out'.score = out.score := by
  obtain ⟨out, e, he, hlow, hcoup, hcost, hnb, hrows, hcov⟩ := match_onesided G big mode hm p dim dist hd t1 t2 h1 h2
  obtain ⟨o12, o21, e12, e21, hsym⟩ := score_symmetric dist (weightOf mode p) hsymm t1 t2 h1 h2
  rw [he] at e12
  cases Option.some.inj e12
  exact ⟨out, o21, e, matchTracks_of_dtw G big mode hm p dim dist hd t2 t1 h2 h1 o21 e21, hlow, hcoup, hcost, hnb, hrows, hcov,
    hsym.symm⟩

/-- **the statement on `ENUCoords` tracks** (`dim ∈ {1, 2, 3}`, any `sqrt`): `match_correct` with its two hypotheses discharged -/
theorem match_correct_enu (G : Geom α) (hc : G.cls = Coords.enu) (big : α) (mode : Mode) (hm : mode ≠ Mode.fdtw) (p : PNorm)
    (d : Nat) (hd : d = 1 ∨ d = 2 ∨ d = 3) (t1 t2 : List (Pt α)) (h1 : 0 < t1.length) (h2 : 0 < t2.length) :
    ∃ out out', matchTracks G big mode p (.num d) t1 t2 = .ok out ∧ matchTracks G big mode p (.num d) t2 t1 = .ok out' ∧
      (∀ S, IsCouplingOf t1.length t2.length S →
        out.score ≤ costBack (weightOf mode p) 0 (Dmat (distance G.T.sqrt d) t1 t2) S) ∧
      IsCouplingOf t1.length t2.length out.S ∧
      costBack (weightOf mode p) 0 (Dmat (distance G.T.sqrt d) t1 t2) out.S = out.score ∧
      out.nbLinks = out.S.length ∧
      (∀ j, j < t1.length → ∃ r : Row α, out.rows[j]? = some r ∧ (∀ i, i ∈ r.pair ↔ (i, j) ∈ out.S) ∧ r.pair ≠ []) ∧
      (∀ i, i < t2.length → ∃ (j : Nat) (r : Row α), out.rows[j]? = some r ∧ i ∈ r.pair) ∧
      out'.score = out.score :=
  match_correct G big mode hm p (.num d) _ (distance_enu G hc d hd) (distance_symm _ _) t1 t2 h1 h2

/-- **the statement on `GeoCoords` / `ECEFCoords` tracks with `dim = 3`** (distance of the ECEF images): the swap clause holds too -/
theorem match_correct_3d (G : Geom α) (big : α) (mode : Mode) (hm : mode ≠ Mode.fdtw) (p : PNorm)
    (dist : Pt α → Pt α → α) (hd : distanceOf G (.num 3) = .ok dist)
    (t1 t2 : List (Pt α)) (h1 : 0 < t1.length) (h2 : 0 < t2.length) :
    ∃ out out', matchTracks G big mode p (.num 3) t1 t2 = .ok out ∧ matchTracks G big mode p (.num 3) t2 t1 = .ok out' ∧
      (∀ S, IsCouplingOf t1.length t2.length S → out.score ≤ costBack (weightOf mode p) 0 (Dmat dist t1 t2) S) ∧
      IsCouplingOf t1.length t2.length out.S ∧
      costBack (weightOf mode p) 0 (Dmat dist t1 t2) out.S = out.score ∧
      out'.score = out.score := by
  obtain ⟨out, out', e, e', hlow, hc, hcost, _, _, _, hs⟩ :=
    match_correct G big mode hm p (.num 3) dist hd (distanceOf_symm G 3 (Or.inr rfl) dist hd) t1 t2 h1 h2
  exact ⟨out, out', e, e', hlow, hc, hcost, hs⟩

/-- `_distance` on `ENUCoords` is non-negative when `sqrt` is -/
theorem distance_nonneg (sqrt : α → α) (hsqrt : ∀ x, 0 ≤ sqrt x) (dim : Nat) (p q : Pt α) :
    0 ≤ distance sqrt dim p q := by
  unfold distance
  by_cases h1 : dim = 1
  · simp only [h1, if_true]
    by_cases h : p.z - q.z < 0
    · simp only [h, if_true]
      have : (0 : α) - (p.z - q.z) = -(p.z - q.z) := by ring
      rw [this]; exact le_of_lt (neg_pos.mpr h)
    · simp only [h, if_false]; exact not_lt.mp h
  · simp only [h1, if_false]
    by_cases h2 : dim = 2
    · simp only [h2, if_true]; exact hsqrt _
    · simp only [h2, if_false]; exact hsqrt _

/-- **`_distance` is non-negative** for every numeric `dim` on every class of positions, when `sqrt` is -/
theorem distanceOf_nonneg (G : Geom α) (hsqrt : ∀ x, 0 ≤ G.T.sqrt x) (d : Nat) (dist : Pt α → Pt α → α)
    (hd : distanceOf G (.num d) = .ok dist) (p q : Pt α) : 0 ≤ dist p q := by
  simp only [distanceOf] at hd
  by_cases hr : d = 1 ∨ d = 2 ∨ d = 3
  · rw [if_pos hr] at hd
    cases hc : G.cls with
    | enu =>
      rw [hc] at hd
      injection hd with hd
      subst hd
      exact distance_nonneg _ hsqrt _ _ _
    | geo =>
      rw [hc] at hd
      by_cases d1 : d = 1
      · rw [if_pos d1] at hd; cases hd
      · rw [if_neg d1] at hd
        by_cases d2 : d = 2
        · rw [if_pos d2] at hd
          injection hd with hd
          subst hd
          simp only [geoDistance2D]
          exact hsqrt _
        · rw [if_neg d2] at hd
          injection hd with hd
          subst hd
          simp only [geoDistance3D, ecefDistance]
          exact hsqrt _
    | ecef =>
      rw [hc] at hd
      by_cases d3 : d = 3
      · rw [if_pos d3] at hd
        injection hd with hd
        subst hd
        simp only [ecefDistance]
        exact hsqrt _
      · rw [if_neg d3] at hd; cases hd
  · rw [if_neg hr] at hd
    cases hd

/-- `B**k ≥ 0` for `B ≥ 0` -/
theorem npow_nonneg (d : α) (hd : 0 ≤ d) : ∀ k, 0 ≤ npow d k
  | 0 => zero_le_one
  | 1 => hd
  | k+2 => mul_nonneg (npow_nonneg d hd (k+1)) hd

/-- `_p2weight(p)` is inflationary on non-negative distances -/
theorem weight_infl (p : PNorm) (a d : α) (hd : 0 ≤ d) : a ≤ weight p a d := by
  cases p with
  | nat k =>
    cases k with
    | zero =>
      simp only [weight]
      apply le_add_of_nonneg_right
      split
      · exact zero_le_one
      · exact le_rfl
    | succ k => exact le_add_of_nonneg_right (npow_nonneg d hd (k+1))
  | inf =>
    simp only [weight, pmax]
    by_cases h : a < d
    · simp only [h, if_true]; exact le_of_lt h
    · simp only [h, if_false]; exact le_rfl

/-- **C18 for the fast variant, `match(track1, track2, mode = FDTW, p, dim)`**: for every pair of non-empty tracks,
`p ∈ {0, 1, 2, 3, …, inf}`, every class of positions and `dim` on which `_distance` is defined and non-negative (`hnn`; by
`distanceOf_nonneg` every numeric `dim` on every class when `sqrt` is non-negative), and `big` (1e300 in the code) above every
candidate cost: the call succeeds and reports **the same score as `mode = DTW`**; the returned `S` is a monotone unit-step
coupling from the first to the last pair whose accumulated cost is that score; `nb_links` and the `pair` feature describe it
and no observation of either track is left out. -/
theorem match_fdtw_correct (G : Geom α) (big : α) (p : PNorm) (dim : DimArg α)
    (dist : Pt α → Pt α → α) (hd : distanceOf G dim = .ok dist) (hnn : ∀ p q, 0 ≤ dist p q)
    (t1 t2 : List (Pt α)) (h1 : 0 < t1.length) (h2 : 0 < t2.length)
    (hbig : ∀ i j i' j', i < t2.length → j < t1.length → i' < t2.length → j' < t1.length →
      weight p (T (weight p) 0 (Dmat dist t1 t2) i j) (Dmat dist t1 t2 i' j') < big) :
    ∃ out outd, matchTracks G big Mode.fdtw p dim t1 t2 = .ok out ∧ matchTracks G big Mode.dtw p dim t1 t2 = .ok outd ∧
      out.score = outd.score ∧
      IsCouplingOf t1.length t2.length out.S ∧
      costBack (weight p) 0 (Dmat dist t1 t2) out.S = out.score ∧
      out.nbLinks = out.S.length ∧
      (∀ j, j < t1.length → ∃ r : Row α, out.rows[j]? = some r ∧ (∀ i, i ∈ r.pair ↔ (i, j) ∈ out.S) ∧ r.pair ≠ []) ∧
      (∀ i, i < t2.length → ∃ (j : Nat) (r : Row α), out.rows[j]? = some r ∧ i ∈ r.pair) := by
  have hw : ∀ a b d : α, a ≤ b → weight p a d ≤ weight p b d := fun a b d h => weight_mono p a b d h
  have hinf : ∀ (a : α) i j, i < t2.length → j < t1.length → a ≤ weight p a (Dmat dist t1 t2 i j) :=
    fun a i j _ _ => weight_infl p a _ (hnn _ _)
  obtain ⟨od, ofast, e1, e2, hs⟩ := fdtw_equal dist big (weight p) t1 t2 h1 h2 hw hinf hbig
  obtain ⟨out, e3, hc, hcost, hnb, _, _, hr, hcov⟩ := fdtw_path dist big (weight p) t1 t2 h1 h2 hw hinf hbig
  rw [e2] at e3
  cases Option.some.inj e3
  have hne : t1.isEmpty = false := by cases t1 with | nil => simp at h1 | cons _ _ => rfl
  have hne2 : t2.isEmpty = false := by cases t2 with | nil => simp at h2 | cons _ _ => rfl
  refine ⟨ofast, od, ?_, ?_, hs, hc, hcost, hnb, hr, hcov⟩
  · rw [matchTracks_unfold G big _ p dim dist hd]; simp [hne, hne2, e2]
  · rw [matchTracks_unfold G big _ p dim dist hd]; simp [hne, hne2, e1]

/-- the same for the fast variant, under the hypotheses of `match_fdtw_correct` -/
theorem match_fdtw_history (G : Geom α) (big : α) (p : PNorm) (dim : DimArg α)
    (dist : Pt α → Pt α → α) (hd : distanceOf G dim = .ok dist) (hnn : ∀ p q, 0 ≤ dist p q)
    (t1 t2 : List (Pt α)) (h1 : 0 < t1.length) (h2 : 0 < t2.length)
    (hbig : ∀ i j i' j', i < t2.length → j < t1.length → i' < t2.length → j' < t1.length →
      weight p (T (weight p) 0 (Dmat dist t1 t2) i j) (Dmat dist t1 t2 i' j') < big)
    (rows0 : List (Row α)) (hl : rows0.length = t1.length) :
    matchCall G big 3 (PArg.ofNorm p) dim { pts := t1, rows := rows0 } t2 = matchTracks G big Mode.fdtw p dim t1 t2 := by
  obtain ⟨out, outd, e1, _, _, hc, _⟩ := match_fdtw_correct G big p dim dist hd hnn t1 t2 h1 h2 hbig
  have hne : t1.isEmpty = false := by cases t1 with | nil => simp at h1 | cons _ _ => rfl
  have hne2 : t2.isEmpty = false := by cases t2 with | nil => simp at h2 | cons _ _ => rfl
  have hfd : fdtw dist big (weight p) t1 t2 = some out := by
    rw [matchTracks_unfold G big _ p dim dist hd] at e1
    simp only [hne, hne2, Bool.false_eq_true, if_false] at e1
    cases hx : fdtw dist big (weight p) t1 t2 with
    | none => rw [hx] at e1; cases e1
    | some o => rw [hx] at e1; cases e1; rfl
  rw [e1]
  unfold matchCall
  rw [PArg.exponent_ofNorm]
  unfold matchBody warpOn
  rw [p2weight_ofNorm]
  simp [bind, Except.bind, hne, hne2, hd, fdtwOn_of_fdtw dist big (weight p) rows0 t1 t2 hl h1 h2 out hfd hc.1 hc.2]


/-- **`compare` in the modes DTW and FRECHET**, for every pair of non-empty tracks over an ordered field, every class of positions
and `dim` on which `_distance` is defined: the call succeeds and
returns `cmpValue` of the matching that `match` returns, which is optimal (`match_onesided`): for FRECHET / `p = inf` the value
**is** the least, over all couplings, of the largest link (the discrete Fréchet distance); for a finite `p ≥ 1` it is
`(score/nb_links)**(1/p)` with `score` the least `Σ d^p` over all couplings and `nb_links` the number of links of the returned
optimal coupling, between `max(n1, n2)` and `n1 + n2 - 1` -/
theorem compare_correct (G : Geom α) (root : Nat → α → α) (ofNat : Nat → α) (big : α) (mode : Mode)
    (hm : mode ≠ Mode.fdtw) (p : PNorm) (dim : DimArg α) (dist : Pt α → Pt α → α) (hd : distanceOf G dim = .ok dist)
    (t1 t2 : List (Pt α)) (h1 : 0 < t1.length) (h2 : 0 < t2.length) :
    ∃ out, matchTracks G big mode p dim t1 t2 = .ok out ∧
      compareTracks G root ofNat big mode p dim t1 t2 = .ok (cmpValue root ofNat mode p out) ∧
      (∀ S, IsCouplingOf t1.length t2.length S → out.score ≤ costBack (weightOf mode p) 0 (Dmat dist t1 t2) S) ∧
      IsCouplingOf t1.length t2.length out.S ∧
      costBack (weightOf mode p) 0 (Dmat dist t1 t2) out.S = out.score ∧
      out.nbLinks = out.S.length ∧
      t1.length ≤ out.nbLinks ∧ t2.length ≤ out.nbLinks ∧ out.nbLinks + 1 ≤ t1.length + t2.length := by
  obtain ⟨out, e, _, hlow, hc, hcost, hnb, _, _⟩ := match_onesided G big mode hm p dim dist hd t1 t2 h1 h2
  have hlen := backPath_length out.S _ _ hc.1 hc.2
  refine ⟨out, e, ?_, hlow, hc, hcost, hnb, by omega, by omega, by omega⟩
  rw [compare_value, e]

/-- **`compare` in the mode FDTW** (`MODE_COMPARISON_FDTW = 107`), under the hypotheses of `match_fdtw_correct`: the call succeeds
and returns `cmpValue` of the matching that `match(…, FDTW)` returns, whose score is the score of the mode DTW — the optimum
(`match_onesided`) — and whose `nb_links` is the length of a coupling realising it: for `p = inf` the value is the discrete
Fréchet distance, for a finite `p ≥ 1` it is `(score/nb_links)**(1/p)` with `max(n1, n2) ≤ nb_links ≤ n1 + n2 - 1` -/
theorem compare_fdtw_correct (G : Geom α) (root : Nat → α → α) (ofNat : Nat → α) (big : α) (p : PNorm) (dim : DimArg α)
    (dist : Pt α → Pt α → α) (hd : distanceOf G dim = .ok dist) (hnn : ∀ p q, 0 ≤ dist p q)
    (t1 t2 : List (Pt α)) (h1 : 0 < t1.length) (h2 : 0 < t2.length)
    (hbig : ∀ i j i' j', i < t2.length → j < t1.length → i' < t2.length → j' < t1.length →
      weight p (T (weight p) 0 (Dmat dist t1 t2) i j) (Dmat dist t1 t2 i' j') < big) :
    ∃ out, matchTracks G big Mode.fdtw p dim t1 t2 = .ok out ∧
      compareTracks G root ofNat big Mode.fdtw p dim t1 t2 = .ok (cmpValue root ofNat Mode.fdtw p out) ∧
      (∀ S, IsCouplingOf t1.length t2.length S → out.score ≤ costBack (weight p) 0 (Dmat dist t1 t2) S) ∧
      IsCouplingOf t1.length t2.length out.S ∧
      costBack (weight p) 0 (Dmat dist t1 t2) out.S = out.score ∧
      out.nbLinks = out.S.length ∧
      t1.length ≤ out.nbLinks ∧ t2.length ≤ out.nbLinks ∧ out.nbLinks + 1 ≤ t1.length + t2.length := by
  obtain ⟨out, outd, e, ed, hs, hc, hcost, hnb, _, _⟩ := match_fdtw_correct G big p dim dist hd hnn t1 t2 h1 h2 hbig
  obtain ⟨outd', ed', _, hlow, _⟩ := match_onesided G big Mode.dtw (by decide) p dim dist hd t1 t2 h1 h2
  rw [ed] at ed'
  cases Except.ok.inj ed'
  have hw : weightOf (α := α) Mode.dtw p = weight p := by unfold weightOf; simp
  rw [hw] at hlow
  have hlen := backPath_length out.S _ _ hc.1 hc.2
  refine ⟨out, e, ?_, ?_, hc, hcost, hnb, by omega, by omega, by omega⟩
  · rw [compare_value, e]
  · intro S hS
    rw [hs]
    exact hlow S hS

/-- accumulated costs are non-negative when the point distance is -/
theorem costBack_nonneg (dist : Pt α → Pt α → α) (hnn : ∀ p q, 0 ≤ dist p q) (p : PNorm) (t1 t2 : List (Pt α)) :
    ∀ S : List (Nat × Nat), 0 ≤ costBack (weight p) 0 (Dmat dist t1 t2) S
  | [] => le_refl _
  | _ :: rest =>
    le_trans (costBack_nonneg dist hnn p t1 t2 rest)
      (weight_infl p _ _ (hnn _ _))

/-- **`compare(DTW, p = k)` is the `k`-th root of the mean of `d^k` along the returned optimal coupling**: with exact
arithmetic — `root k` a genuine `k`-th root on non-negative numbers, `ofNat` the cast — `compare(...)^k * nb_links` is the
score, i.e. the least `Σ d^k` over all couplings. (Needs exact arithmetic: in floats `x**(1.0/k)` is rounded, and for
`k = 3` as `numpy.float16/32` the exponent `1.0/p` itself is rounded to that precision.) -/
theorem compare_mean_power (G : Geom α) (root : Nat → α → α) (big : α) (k : Nat)
    (hroot : ∀ x : α, 0 ≤ x → npow (root (k+1) x) (k+1) = x) (dim : DimArg α)
    (dist : Pt α → Pt α → α) (hd : distanceOf G dim = .ok dist) (hnn : ∀ p q, 0 ≤ dist p q)
    (t1 t2 : List (Pt α)) (h1 : 0 < t1.length) (h2 : 0 < t2.length) :
    ∃ out v, matchTracks G big Mode.dtw (.nat (k+1)) dim t1 t2 = .ok out ∧
      compareTracks G root (fun n => (n : α)) big Mode.dtw (.nat (k+1)) dim t1 t2 = .ok v ∧
      npow v (k+1) * (out.nbLinks : α) = out.score ∧
      (∀ S, IsCouplingOf t1.length t2.length S → out.score ≤ costBack (weight (.nat (k+1))) 0 (Dmat dist t1 t2) S) := by
  obtain ⟨out, e, ec, hlow, _, hcost, _, hn1, _, _⟩ :=
    compare_correct G root (fun n => (n : α)) big Mode.dtw (by decide) (.nat (k+1)) dim dist hd t1 t2 h1 h2
  have hw : weightOf (α := α) Mode.dtw (.nat (k+1)) = weight (.nat (k+1)) := by unfold weightOf; simp
  rw [hw] at hcost hlow
  refine ⟨out, _, e, ec, ?_, hlow⟩
  have hpos : (0 : α) < (out.nbLinks : α) := by exact_mod_cast (by omega : 0 < out.nbLinks)
  have hs : 0 ≤ out.score := by rw [← hcost]; exact costBack_nonneg dist hnn _ t1 t2 _
  have hv : cmpValue root (fun n => (n : α)) Mode.dtw (.nat (k+1)) out = root (k+1) (out.score / (out.nbLinks : α)) := by
    unfold cmpValue; simp
  rw [hv, hroot _ (div_nonneg hs (le_of_lt hpos))]
  exact div_mul_cancel₀ _ (ne_of_gt hpos)


/-! ### the unit of the coordinates -/

/-- **the matching does not depend on the unit of the point distance**: with every point distance multiplied by `c > 0`
(metres → millimetres, degrees → arc seconds), `_dtw` with the accumulation of `p` returns the same coupling `S`, the same
`nb_links` and `pair` lists, and the score multiplied by `c**p` (by `c` for `p = inf`, unchanged for `p = 0`): no threshold,
tolerance or other absolute quantity enters the computation -/
theorem cost_unit_invariant (dist : Pt α → Pt α → α) (c : α) (hc : 0 < c) (p : PNorm)
    (t1 t2 : List (Pt α)) (h1 : 0 < t1.length) (h2 : 0 < t2.length) :
    ∃ o o', dtw dist (weight p) t1 t2 = some o ∧ dtw (fun a b => c * dist a b) (weight p) t1 t2 = some o' ∧
      o'.S = o.S ∧ o'.score = unitFactor c p * o.score ∧ o'.nbLinks = o.nbLinks ∧
      ∀ j : Nat, (o'.rows[j]?).map (fun r : Row α => r.pair) = (o.rows[j]?).map (fun r : Row α => r.pair) := by
  apply dtw_hom dist (fun a b => c * dist a b) (weight p) (weight p) (fun a => unitFactor c p * a)
    (mul_le_mul_pos_iff _ (unitFactor_pos c hc p)) t1 t2 t1 t2 rfl rfl h1 h2
  · have := weight_unit c hc p 0 (Dmat dist t1 t2 0 0)
    rw [mul_zero] at this
    exact this
  · intro a i j
    exact weight_unit c hc p a _

/-- **the unit of the coordinates does not matter** (`ENUCoords`, `dim` 1, 2, 3): with every coordinate of both tracks multiplied
by `c > 0`, `_dtw` returns the same coupling, `nb_links` and `pair` lists, and the score multiplied by `c**p` (`c` for
`p = inf`) — for a `sqrt` that is homogeneous (`sqrt(c²x) = c·sqrt(x)` on `x ≥ 0`, as the real square root is; in floating
point this holds exactly when `c` is a power of two, which is what the `slat` stream of the harness exercises) -/
theorem unit_invariant (sqrt : α → α) (c : α) (hc : 0 < c) (hs : ∀ x, 0 ≤ x → sqrt (c * c * x) = c * sqrt x) (p : PNorm)
    (d : Nat) (t1 t2 : List (Pt α)) (h1 : 0 < t1.length) (h2 : 0 < t2.length) :
    ∃ o o', dtw (distance sqrt d) (weight p) t1 t2 = some o ∧
      dtw (distance sqrt d) (weight p) (t1.map (Pt.scale c)) (t2.map (Pt.scale c)) = some o' ∧
      o'.S = o.S ∧ o'.score = unitFactor c p * o.score ∧ o'.nbLinks = o.nbLinks ∧
      ∀ j : Nat, (o'.rows[j]?).map (fun r : Row α => r.pair) = (o.rows[j]?).map (fun r : Row α => r.pair) := by
  apply dtw_hom (distance sqrt d) (distance sqrt d) (weight p) (weight p) (fun a => unitFactor c p * a)
    (mul_le_mul_pos_iff _ (unitFactor_pos c hc p)) t1 t2 _ _ (by simp) (by simp) h1 h2
  · rw [Dmat_scale sqrt c hc hs]
    have := weight_unit c hc p 0 (Dmat (distance sqrt d) t1 t2 0 0)
    rw [mul_zero] at this
    exact this
  · intro a i j
    rw [Dmat_scale sqrt c hc hs]
    exact weight_unit c hc p a _

end field


/-! ### exponents that are not natural numbers (`p = 0.5`, `1.5`, `2.5`, …)

`_p2weight` gives `lambda A, B: A + B**p` for every number `p` whose type name contains `int` or `float`, whatever its value;
`Model/DTWReal.lean` has the front ends with such a `p` (`matchCallX`, `compareCallX`, `runSeqX`: what the driver runs), `B**x`
being a parameter `pow`. On the arguments of the sections above they are the front ends of those sections (`front_ends_agree`),
and for a `p = x > 0` that is not a natural number the statement of the property holds for **any** function `pow` (the plain
variant) / for any `pow` that is non-negative on non-negative distances (the fast variant) — the real power function is. -/
section realexp
variable {α : Type} [Field α] [LinearOrder α] [IsStrictOrderedRing α]

omit [IsStrictOrderedRing α] in
/-- **the front ends that the driver runs are those of the theorems above** on every argument `p` whose value is a natural number
or infinity (every type, callables included), for `match`, `compare` and whole sessions -/
theorem front_ends_agree (pow : α → α → α) (G : Geom α) (root : Nat → α → α) (ofNat : Nat → α) (big : α) :
    (∀ (mode : Nat) (p : PArg) (dim : DimArg α) (a : TrackObj α) (t2 : List (Pt α)),
      matchCallX pow G big mode p.toX dim a t2 = matchCall G big mode p dim a t2) ∧
    (∀ (mode : Nat) (p : PArg) (dim : DimArg α) (a : TrackObj α) (t2 : List (Pt α)),
      compareCallX pow G root ofNat big mode p.toX dim a t2 = compareCall G root ofNat big mode p dim a t2) ∧
    (∀ (steps : List (Step α)) (env : List (Option (TrackObj α))),
      runSeqX pow G root ofNat big env (steps.map Step.toX) = runSeq G root ofNat big env steps) :=
  ⟨fun mode p dim a t2 => matchCallX_toX pow G big mode p dim a t2,
   fun mode p dim a t2 => compareCallX_toX pow G root ofNat big mode p dim a t2,
   fun steps env => runSeqX_toX pow G root ofNat big steps env⟩

omit [IsStrictOrderedRing α] in
/-- `_p2weight(p)` for a number `p = x > 0` that is neither a natural number nor infinity: `lambda A, B: A + B**x` when the type
name contains `int` or `float` (Python `float` — which is what `match` / `compare` hand over for every numpy floating scalar since
1f009f6, `numpy.longdouble(1.5)` included: `match_numpy_scalar_real`), the callable itself when `p` is one computing that,
UnboundLocalError for any other type (`Fraction(3, 2)`, `Decimal('1.5')`) -/
theorem p2weight_real (pow : α → α → α) (p : PArgX α) (x : α) (hx : 0 < x) :
    (p.isNum = true → p.val = some (.real x) → p2weightX pow p = .ok (weightX pow (.real x))) ∧
    (p.isFn = true → p.isNum = false → p.fnw = some (.real x) → p.val = none → p2weightX pow p = .ok (weightX pow (.real x))) ∧
    (p.isFn = false → p.isNum = false → p.val = some (.real x) → p2weightX pow p = .error "err:UnboundLocalError") :=
  ⟨fun hn hv => p2weightX_real pow p x hn hv hx, fun hf hn hw hv => p2weightX_real_callable pow p x hf hn hw hv hx,
   fun hf hn hv => p2weightX_real_unbound pow p x hf hn hv⟩

omit [IsStrictOrderedRing α] in
/-- **a numpy scalar `p`, any positive value** (the front ends the driver runs): `match` / `compare` with `p` a numpy floating
(integer) scalar — `numpy.float16(1.5)`, `numpy.float32(2)`, `numpy.longdouble(2.5)`, `numpy.uint8(2)` — return exactly what they
return with the Python `float` (`int`) of the same value, for every mode constant and every track1; and for such a `p = x` that is not
a natural number `_p2weight` receives a Python float, so that `hp` of `match_real_correct` / `match_fdtw_real_correct` holds -/
theorem match_numpy_scalar_real (pow : α → α → α) (G : Geom α) (root : Nat → α → α) (ofNat : Nat → α) (big : α) (mode : Nat)
    (p : PArgX α) (dim : DimArg α) (a : TrackObj α) (t2 : List (Pt α)) :
    matchCallX pow G big mode p dim a t2 = matchCallX pow G big mode { p with tyname := exponentTy p.tyname } dim a t2 ∧
    compareCallX pow G root ofNat big mode p dim a t2
      = compareCallX pow G root ofNat big mode { p with tyname := exponentTy p.tyname } dim a t2 ∧
    (∀ x, p.isNumpy = true → p.val = some (.real x) → 0 < x → p2weightX pow p.exponent = .ok (weightX pow (.real x))) := by
  have he : p.exponent.exponent = p.exponent := by
    cases h : p.isNumpy with
    | false => rw [PArgX.exponent_other p h, PArgX.exponent_other p h]
    | true =>
      have hq : p.exponent.isNumpy = false := by
        show (isNpFloating (exponentTy p.tyname) || isNpInteger (exponentTy p.tyname)) = false
        have h' : (isNpFloating p.tyname || isNpInteger p.tyname) = true := h
        unfold exponentTy
        cases hf : isNpFloating p.tyname with
        | false =>
          have hi : isNpInteger p.tyname = true := by simpa [hf] using h'
          simp only [hi, if_true, Bool.false_eq_true, if_false]
          decide
        | true =>
          simp only [if_true]
          decide
      exact PArgX.exponent_other _ hq
  refine ⟨?_, ?_, ?_⟩
  · show matchBodyX pow G big mode p.exponent dim a t2 = matchBodyX pow G big mode p.exponent.exponent dim a t2
    rw [he]
  · show compareBodyX pow G root ofNat big mode p.exponent dim a t2 = compareBodyX pow G root ofNat big mode p.exponent.exponent dim a t2
    rw [he]
  · intro x hnp hv hx
    exact p2weightX_real pow p.exponent x (PArgX.exponent_numpy p hnp).2.1 hv hx

/-- `A + B**x` is monotone in the accumulated cost, whatever `B**x` is -/
theorem weightX_mono (pow : α → α → α) (p : PExp α) (a b d : α) (h : a ≤ b) : weightX pow p a d ≤ weightX pow p b d := by
  cases p with
  | norm v => exact weight_mono v a b d h
  | real x => exact add_le_add h le_rfl

/-- **C18 for `match(track1, track2, DTW, p = x, dim)` with `x > 0` any number that is not a natural number** (`hp`: a Python /
numpy float, or a callable computing `A + B**x` — `p2weight_real`), for every pair of non-empty tracks, every class of positions and
every `dim` on which `_distance` is defined, **whatever `B**x` computes** (`pow`): the call succeeds and returns what `_dtw` returns
with the accumulation `A + B**x`; the reported score is a lower bound of `Σ d**x` over all monotone unit-step couplings from the
first to the last pair; the returned `S` is such a coupling and its accumulated cost **is** the score (the cost table holds the
accumulated costs as computed — not rounded to integers when the point distances are integers); `nb_links` is its length, the
`pair` feature lists exactly its pairs, nobody is left out; and when the point distance is symmetric the swapped call reports
the same score. -/
theorem match_real_correct (pow : α → α → α) (G : Geom α) (big : α) (p : PArgX α) (x : α)
    (hp : p2weightX pow p.exponent = .ok (weightX pow (.real x))) (dim : DimArg α)
    (dist : Pt α → Pt α → α) (hd : distanceOf G dim = .ok dist)
    (t1 t2 : List (Pt α)) (h1 : 0 < t1.length) (h2 : 0 < t2.length) :
    ∃ out, matchCallX pow G big 2 p dim (TrackObj.fresh t1) t2 = .ok out ∧
      dtw dist (weightX pow (.real x)) t1 t2 = some out ∧
      (∀ S, IsCouplingOf t1.length t2.length S → out.score ≤ costBack (weightX pow (.real x)) 0 (Dmat dist t1 t2) S) ∧
      IsCouplingOf t1.length t2.length out.S ∧
      costBack (weightX pow (.real x)) 0 (Dmat dist t1 t2) out.S = out.score ∧
      out.nbLinks = out.S.length ∧
      (∀ j, j < t1.length → ∃ r : Row α, out.rows[j]? = some r ∧ (∀ i, i ∈ r.pair ↔ (i, j) ∈ out.S) ∧ r.pair ≠ []) ∧
      (∀ i, i < t2.length → ∃ (j : Nat) (r : Row α), out.rows[j]? = some r ∧ i ∈ r.pair) ∧
      ((∀ a b, dist a b = dist b a) →
        ∃ out', matchCallX pow G big 2 p dim (TrackObj.fresh t2) t1 = .ok out' ∧ out'.score = out.score) := by
  have hw : ∀ a b d : α, a ≤ b → weightX pow (.real x) a d ≤ weightX pow (.real x) b d := fun a b d h => weightX_mono pow _ a b d h
  obtain ⟨out, he, hlow, _⟩ := table_optimal dist (weightX pow (.real x)) hw t1 t2 h1 h2
  obtain ⟨out2, he2, hcoup, hnb, _, _, hrows, hcov⟩ := path_valid dist (weightX pow (.real x)) t1 t2 h1 h2
  obtain ⟨out3, he3, hcost⟩ := path_realises dist (weightX pow (.real x)) t1 t2 h1 h2
  rw [he] at he2 he3
  cases Option.some.inj he2
  cases Option.some.inj he3
  have hcall : ∀ (u v : List (Pt α)) (_ : 0 < u.length) (_ : 0 < v.length) (o : Out α),
      dtw dist (weightX pow (.real x)) u v = some o → matchCallX pow G big 2 p dim (TrackObj.fresh u) v = .ok o := by
    intro u v hu hv o ho
    unfold matchCallX matchBodyX warpOnX
    simp only [show ¬ (2 = 1) by decide, show ¬ (2 = 4) by decide, if_false, if_true, hp, bind, Except.bind]
    exact warpW_dtw G big _ dim dist hd u v hu hv o ho
  refine ⟨out, hcall t1 t2 h1 h2 out he, he, hlow, hcoup, hcost, hnb, hrows, hcov, ?_⟩
  intro hsymm
  obtain ⟨o12, o21, e12, e21, hsym⟩ := score_symmetric dist (weightX pow (.real x)) hsymm t1 t2 h1 h2
  rw [he] at e12
  cases Option.some.inj e12
  exact ⟨o21, hcall t2 t1 h2 h1 o21 e21, hsym.symm⟩

/-- **C18 for the fast variant with such a `p`**: when `B**x ≥ 0` on the distances at hand (`hpow`: the real power function is
non-negative on non-negative numbers), the point distance is non-negative and `big` is above every candidate cost,
`match(…, FDTW, p = x)` succeeds and reports **the same score as `mode = DTW`**; its `S` is a coupling whose accumulated cost is that
score; `nb_links` and the `pair` feature describe it and nobody is left out. -/
theorem match_fdtw_real_correct (pow : α → α → α) (G : Geom α) (big : α) (p : PArgX α) (x : α)
    (hp : p2weightX pow p.exponent = .ok (weightX pow (.real x))) (dim : DimArg α)
    (dist : Pt α → Pt α → α) (hd : distanceOf G dim = .ok dist) (hnn : ∀ a b, 0 ≤ dist a b)
    (hpow : ∀ b : α, 0 ≤ b → 0 ≤ pow b x)
    (t1 t2 : List (Pt α)) (h1 : 0 < t1.length) (h2 : 0 < t2.length)
    (hbig : ∀ i j i' j', i < t2.length → j < t1.length → i' < t2.length → j' < t1.length →
      weightX pow (.real x) (T (weightX pow (.real x)) 0 (Dmat dist t1 t2) i j) (Dmat dist t1 t2 i' j') < big) :
    ∃ out outd, matchCallX pow G big 3 p dim (TrackObj.fresh t1) t2 = .ok out ∧
      matchCallX pow G big 2 p dim (TrackObj.fresh t1) t2 = .ok outd ∧
      out.score = outd.score ∧
      IsCouplingOf t1.length t2.length out.S ∧
      costBack (weightX pow (.real x)) 0 (Dmat dist t1 t2) out.S = out.score ∧
      out.nbLinks = out.S.length ∧
      (∀ j, j < t1.length → ∃ r : Row α, out.rows[j]? = some r ∧ (∀ i, i ∈ r.pair ↔ (i, j) ∈ out.S) ∧ r.pair ≠ []) ∧
      (∀ i, i < t2.length → ∃ (j : Nat) (r : Row α), out.rows[j]? = some r ∧ i ∈ r.pair) := by
  have hw : ∀ a b d : α, a ≤ b → weightX pow (.real x) a d ≤ weightX pow (.real x) b d := fun a b d h => weightX_mono pow _ a b d h
  have hinf : ∀ (a : α) i j, i < t2.length → j < t1.length → a ≤ weightX pow (.real x) a (Dmat dist t1 t2 i j) :=
    fun a i j _ _ => le_add_of_nonneg_right (hpow _ (hnn _ _))
  obtain ⟨od, ofast, e1, e2, hs⟩ := fdtw_equal dist big (weightX pow (.real x)) t1 t2 h1 h2 hw hinf hbig
  obtain ⟨out, e3, hc, hcost, hnb, _, _, hr, hcov⟩ := fdtw_path dist big (weightX pow (.real x)) t1 t2 h1 h2 hw hinf hbig
  rw [e2] at e3
  cases Option.some.inj e3
  refine ⟨ofast, od, ?_, ?_, hs, hc, hcost, hnb, hr, hcov⟩
  · unfold matchCallX matchBodyX warpOnX
    simp only [show ¬ (3 = 1) by decide, show ¬ (3 = 4) by decide, show ¬ (3 = 2) by decide, if_false, if_true, hp, bind,
      Except.bind]
    exact warpW_fdtw G big _ dim dist hd t1 t2 h1 h2 _ e2
  · unfold matchCallX matchBodyX warpOnX
    simp only [show ¬ (2 = 1) by decide, show ¬ (2 = 4) by decide, if_false, if_true, hp, bind, Except.bind]
    exact warpW_dtw G big _ dim dist hd t1 t2 h1 h2 _ e1

omit [IsStrictOrderedRing α] in
/-- `compare(track1, track2, DTW | FDTW, p = x)` for a number `x` that is not a natural number is `match` followed by
`(score/nb_links)**(1.0/x)`; errors are those of `match` -/
theorem compare_real_value (pow : α → α → α) (G : Geom α) (root : Nat → α → α) (ofNat : Nat → α) (big : α) (fast : Bool)
    (p : PArgX α) (x : α) (hf : p.isFn = false) (hv : p.val = some (.real x)) (dim : DimArg α) (a : TrackObj α) (t2 : List (Pt α)) :
    compareCallX pow G root ofNat big (if fast then 107 else 106) p dim a t2 =
      match matchCallX pow G big (if fast then 3 else 2) p dim a t2 with
      | .ok o => .ok (pow (o.score / ofNat o.nbLinks) (1 / x))
      | .error e => .error e := by
  have hf' : p.exponent.isFn = false := by rw [PArgX.exponent_isFn]; exact hf
  have hv' : p.exponent.val = some (.real x) := hv
  unfold compareCallX matchCallX
  generalize p.exponent = q at hf' hv'
  clear hf hv p
  rename' q => p, hf' => hf, hv' => hv
  have hz : p.isZero = false := by simp [PArgX.isZero, hv]
  have hi : p.isInf = false := by simp [PArgX.isInf, hv]
  cases fast with
  | false =>
    simp only [Bool.false_eq_true, if_false]
    unfold compareBodyX matchBodyX warpCompareX
    simp only [show ¬ (106 = 101 ∨ 106 = 109 ∨ 106 = 102 ∨ 106 = 103 ∨ 106 = 104 ∨ 106 = 105) by decide,
      show ¬ (106 = 108) by decide, show ¬ (2 = 1) by decide, show ¬ (2 = 4) by decide, if_false, if_true]
    cases warpOnX pow G big false p dim a t2 with
    | error e => rfl
    | ok o => simp [bind, Except.bind, hz, hi, hf, hv, pure, Except.pure]
  | true =>
    simp only [if_true]
    unfold compareBodyX matchBodyX warpCompareX
    simp only [show ¬ (107 = 101 ∨ 107 = 109 ∨ 107 = 102 ∨ 107 = 103 ∨ 107 = 104 ∨ 107 = 105) by decide,
      show ¬ (107 = 108) by decide, show ¬ (107 = 106) by decide, show ¬ (3 = 1) by decide, show ¬ (3 = 4) by decide,
      show ¬ (3 = 2) by decide, if_false, if_true]
    cases warpOnX pow G big true p dim a t2 with
    | error e => rfl
    | ok o => simp [bind, Except.bind, hz, hi, hv, pure, Except.pure]

omit [IsStrictOrderedRing α] in
/-- **a matched track matched again, any `p`** (modes DTW, FRECHET and every constant that is not a matching mode): `matchCallX` on a
track1 that carries the feature rows of an earlier matching returns what it returns on the same positions without features -/
theorem match_real_history (pow : α → α → α) (G : Geom α) (big : α) (mode : Nat) (hm : mode ≠ 3) (p : PArgX α) (dim : DimArg α)
    (t1 t2 : List (Pt α)) (rows0 : List (Row α)) (hl : rows0.length = t1.length) (h1 : 0 < t1.length) (h2 : 0 < t2.length) :
    matchCallX pow G big mode p dim { pts := t1, rows := rows0 } t2 = matchCallX pow G big mode p dim (TrackObj.fresh t1) t2 :=
  matchCallX_history pow G big mode hm p dim t1 t2 rows0 hl h1 h2

/-- **the matching does not depend on the unit of the point distance, for such a `p` too**: with every point distance multiplied by
`c > 0`, `_dtw` with the accumulation `A + B**x` returns the same coupling, `nb_links` and `pair` lists, and the score multiplied
by `c**x` — for a `pow` that is multiplicative at `c` (`(c·b)**x = c**x · b**x`, `c**x > 0`: true of the real power function on
non-negative `b`, the point distance being non-negative; needs exact arithmetic, in floats `pow` is rounded) -/
theorem cost_unit_invariant_real (pow : α → α → α) (dist : Pt α → Pt α → α) (c x : α) (hc : 0 < pow c x)
    (hnn : ∀ a b, 0 ≤ dist a b) (hmul : ∀ b : α, 0 ≤ b → pow (c * b) x = pow c x * pow b x)
    (t1 t2 : List (Pt α)) (h1 : 0 < t1.length) (h2 : 0 < t2.length) :
    ∃ o o', dtw dist (weightX pow (.real x)) t1 t2 = some o ∧
      dtw (fun a b => c * dist a b) (weightX pow (.real x)) t1 t2 = some o' ∧
      o'.S = o.S ∧ o'.score = pow c x * o.score ∧ o'.nbLinks = o.nbLinks ∧
      ∀ j : Nat, (o'.rows[j]?).map (fun r : Row α => r.pair) = (o.rows[j]?).map (fun r : Row α => r.pair) := by
  apply dtw_hom dist (fun a b => c * dist a b) (weightX pow (.real x)) (weightX pow (.real x)) (fun a => pow c x * a)
    (mul_le_mul_pos_iff _ hc) t1 t2 t1 t2 rfl rfl h1 h2
  · show 0 + pow (c * Dmat dist t1 t2 0 0) x = pow c x * (0 + pow (Dmat dist t1 t2 0 0) x)
    rw [hmul (Dmat dist t1 t2 0 0) (hnn _ _)]; ring
  · intro a i j
    show pow c x * a + pow (c * Dmat dist t1 t2 i j) x = pow c x * (a + pow (Dmat dist t1 t2 i j) x)
    rw [hmul (Dmat dist t1 t2 i j) (hnn _ _)]; ring

end realexp

/-! ### sessions with any exponent -/
section sessionX
variable {α : Type} [Add α] [Sub α] [Mul α] [Div α] [Neg α] [LinearOrder α] [OfNat α 0] [OfNat α 1] [OfScientific α]

/-- the session `runSeqX` with every call made on copies *without* features of the tracks involved (`runFresh`) -/
def runFreshX (pow : α → α → α) (G : Geom α) (root : Nat → α → α) (ofNat : Nat → α) (big : α) :
    List (Option (List (Pt α))) → List (StepX α) → List (Res α)
  | _, [] => []
  | geo, st :: rest =>
    match (geo[st.a]?).join, (geo[st.b]?).join with
    | some ta, some tb =>
      if st.front then
        match matchCallX pow G big st.mode st.p st.dim (TrackObj.fresh ta) tb with
        | .ok o => .matched o :: runFreshX pow G root ofNat big (geo ++ [some ta]) rest
        | .error e => .err e :: runFreshX pow G root ofNat big (geo ++ [none]) rest
      else
        (match compareCallX pow G root ofNat big st.mode st.p st.dim (TrackObj.fresh ta) tb with
          | .ok v => .value v
          | .error e => .err e) :: runFreshX pow G root ofNat big (geo ++ [none]) rest
    | _, _ => .err "bad-ref" :: runFreshX pow G root ofNat big (geo ++ [none]) rest

/-- **histories are irrelevant, any exponent**: `session_history_irrelevant` for the sessions that the driver runs (`runSeqX`: `p` any
positive number, in any form), whatever `B**x` computes -/
theorem session_history_irrelevant_real (pow : α → α → α) (G : Geom α) (root : Nat → α → α) (ofNat : Nat → α) (big : α) :
    ∀ (steps : List (StepX α)) (env : List (Option (TrackObj α))), WFEnv env →
      (∀ st ∈ steps, st.mode ≠ 3 ∧ st.mode ≠ 107) →
      runSeqX pow G root ofNat big env steps
        = runFreshX pow G root ofNat big (env.map (Option.map TrackObj.pts)) steps
  | [], env, _, _ => by simp [runSeqX, runFreshX]
  | st :: rest, env, hwf, hm => by
    have hst := hm st List.mem_cons_self
    have hrest : ∀ s ∈ rest, s.mode ≠ 3 ∧ s.mode ≠ 107 := fun s hs => hm s (List.mem_cons_of_mem _ hs)
    have hget : ∀ k : Nat, ((env.map (Option.map TrackObj.pts))[k]?).join = ((env[k]?).join).map TrackObj.pts := by
      intro k
      rw [List.getElem?_map]
      cases env[k]? with
      | none => rfl
      | some o => cases o <;> rfl
    have hmem : ∀ (k : Nat) (obj : TrackObj α), (env[k]?).join = some obj → some obj ∈ env := by
      intro k obj h
      cases hk : env[k]? with
      | none => rw [hk] at h; cases h
      | some o =>
        rw [hk] at h
        simp only [Option.join] at h
        subst h
        exact List.mem_of_getElem? hk
    have hnone : WFEnv (env ++ [none]) := by
      intro obj ho
      rcases List.mem_append.mp ho with h | h
      · exact hwf obj h
      · simp at h
    have hmapnone : (env ++ [none]).map (Option.map TrackObj.pts) = env.map (Option.map TrackObj.pts) ++ [none] := by simp
    rw [runSeqX, runFreshX, hget, hget]
    cases ha : (env[st.a]?).join with
    | none =>
      simp only [Option.map_none]
      rw [session_history_irrelevant_real pow G root ofNat big rest _ hnone hrest, hmapnone]
    | some a =>
      cases hb : (env[st.b]?).join with
      | none =>
        simp only [Option.map_none, Option.map_some]
        rw [session_history_irrelevant_real pow G root ofNat big rest _ hnone hrest, hmapnone]
      | some b =>
        have hwa := hwf a (hmem _ _ ha)
        have hwb := hwf b (hmem _ _ hb)
        simp only [Option.map_some]
        by_cases hf : st.front = true
        · simp only [hf, if_true]
          have hh : matchCallX pow G big st.mode st.p st.dim a b.pts
              = matchCallX pow G big st.mode st.p st.dim (TrackObj.fresh a.pts) b.pts :=
            matchCallX_history pow G big st.mode hst.1 st.p st.dim a.pts b.pts a.rows hwa.1 hwa.2 hwb.2
          rw [hh]
          cases hr : matchCallX pow G big st.mode st.p st.dim (TrackObj.fresh a.pts) b.pts with
          | error e =>
            simp only
            rw [session_history_irrelevant_real pow G root ofNat big rest _ hnone hrest, hmapnone]
          | ok o =>
            simp only
            have hlen := matchCallX_rows_length pow G big st.mode hst.1 st.p st.dim a.pts b.pts hwa.2 hwb.2 o hr
            have hwf' : WFEnv (env ++ [some { pts := a.pts, rows := o.rows }]) := by
              intro obj ho
              rcases List.mem_append.mp ho with h | h
              · exact hwf obj h
              · simp only [List.mem_singleton, Option.some.injEq] at h
                subst h
                exact ⟨hlen, hwa.2⟩
            rw [session_history_irrelevant_real pow G root ofNat big rest _ hwf' hrest]
            simp
        · simp only [hf, if_false, Bool.false_eq_true]
          have hh : compareCallX pow G root ofNat big st.mode st.p st.dim a b.pts
              = compareCallX pow G root ofNat big st.mode st.p st.dim (TrackObj.fresh a.pts) b.pts :=
            compareCallX_history pow G root ofNat big st.mode hst.2 st.p st.dim a.pts b.pts a.rows hwa.1 hwa.2 hwb.2
          rw [hh, session_history_irrelevant_real pow G root ofNat big rest _ hnone hrest, hmapnone]
          rfl

end sessionX

/-! ### the hypotheses are satisfiable; a concrete run of the model (the D14 witness, in dimension 1) -/

example : ∀ a b d : ℚ, a ≤ b → weight PNorm.two a d ≤ weight PNorm.two b d := fun a b d h => weight_mono _ a b d h

/-- tracks `0,1,0` and `1,0,1` (altitudes), `p = 1`: up and left tie below the diagonal at the last cell; the score is 2
and the returned coupling `(0,0) (1,0) (2,1) (2,2)` costs `1 + 0 + 0 + 1 = 2`. -/
example :
    (dtw (α := Int) (distance id 1) (weight PNorm.one) [⟨0, 0, 0⟩, ⟨0, 0, 1⟩, ⟨0, 0, 0⟩] [⟨0, 0, 1⟩, ⟨0, 0, 0⟩, ⟨0, 0, 1⟩]).map
      (fun o => (o.score, o.S, o.rows.map (·.pair), o.nbLinks))
    = some (2, [(2, 2), (2, 1), (1, 0), (0, 0)], [[0, 1], [2], [2]], 4) := by decide

/-- same run, `diff` read back: observation 0 has partners `[0, 1]` and holds the distance to the last one (`|0 - 0|`), observations
1 and 2 have the single partner 2 (`|1 - 1|`, `|0 - 1|`), as `features_read_back` says -/
example :
    (dtw (α := Int) (distance id 1) (weight PNorm.one) [⟨0, 0, 0⟩, ⟨0, 0, 1⟩, ⟨0, 0, 0⟩] [⟨0, 0, 1⟩, ⟨0, 0, 0⟩, ⟨0, 0, 1⟩]).map
      (fun o => (o.rows.map (·.diff), readBack o.rows))
    = some ([some 0, some 0, some 1], [(0, 0), (1, 0), (2, 1), (2, 2)]) := by decide

/-- the fast variant on the same input (`big = 1000`): same score 2, a different optimal coupling. -/
example :
    (fdtw (α := Int) (distance id 1) 1000 (weight PNorm.one) [⟨0, 0, 0⟩, ⟨0, 0, 1⟩, ⟨0, 0, 0⟩] [⟨0, 0, 1⟩, ⟨0, 0, 0⟩, ⟨0, 0, 1⟩]).map
      (fun o => (o.score, o.rows.map (·.pair), o.nbLinks))
    = some (2, [[0], [0], [1, 2]], 4) := by decide +kernel

/-- `p = numpy.int32(2)` satisfies the hypotheses of `p2weight_number`; it and `numpy.longdouble(2)`, `numpy.ulonglong(2)`,
`numpy.float16(2)` (first alternative) and a Python `int` (second alternative) those of `match_any_form` -/
example : let p : PArg := { tyname := "<class'numpy.int32'>", val := some (.nat 2) }
    p.isFn = false ∧ p.isNum = true ∧ p.val = some (.nat 2) := by decide
example : ∀ ty ∈ ["<class'numpy.int32'>", "<class'numpy.longdouble'>", "<class'numpy.ulonglong'>", "<class'numpy.float16'>"],
    PArg.isNumpy { tyname := ty, val := some (.nat 2) } = true := by decide
example : let p : PArg := { tyname := "<class'int'>", val := some (.nat 2) }
    p.isNumpy = false ∧ p.isFn = false ∧ p.isNum = true := by decide


/-- `math` functions for the examples over `ℚ` (on `ENUCoords` only `sqrt` is called) -/
def exTrig : Geo.Trig ℚ :=
  { pi := 3, sin := id, cos := id, tan := id, atan := id, atan2 := fun y _ => y, sqrt := id, log := id, exp := id, pow := fun x _ => x }

/-- the witness of the repaired finding `p-numpy-type-name-without-int-or-float` in the model (ordinates `0, 0` against `1, 1`, abscissas
`0, 1` against `0, 2`, `dim = 2` replaced by the Manhattan callable so that the run stays in `ℚ`): `match(t1, t2, DTW,
p = numpy.longdouble(2))` succeeds with the score of `p = 2` (`1 + 4 = 5`, links `(0,0) (1,1)`), where the pre-fix `match` raised
UnboundLocalError -/
example :
    (matchCall (α := ℚ) { cls := .enu, T := exTrig } 1000 2 { tyname := "<class'numpy.longdouble'>", val := some (.nat 2) }
      (.fn (fun p q => |p.x - q.x| + |p.y - q.y|)) (TrackObj.fresh [⟨0, 0, 0⟩, ⟨1, 0, 0⟩]) [⟨0, 1, 0⟩, ⟨2, 1, 0⟩]).toOption.map
      (fun o => (o.score, o.rows.map (·.pair), o.nbLinks))
    = some (5, [[0], [1]], 2) := by decide +kernel
example :
    (matchCallOld (α := ℚ) { cls := .enu, T := exTrig } 1000 2 { tyname := "<class'numpy.longdouble'>", val := some (.nat 2) }
      (.fn (fun p q => |p.x - q.x| + |p.y - q.y|)) (TrackObj.fresh [⟨0, 0, 0⟩, ⟨1, 0, 0⟩]) [⟨0, 1, 0⟩, ⟨2, 1, 0⟩]).toOption.map
      (fun o => (o.score, o.rows.map (·.pair), o.nbLinks))
    = none := by decide +kernel

/-- a session (altitudes, `dim = 1`): `m = match(t0, t1, DTW, p = numpy.int64(1))`, then `match(m, t2, FRECHET)` with the
already matched track as first argument, where `t0` itself carried features under the same names: the second call returns
the links of `t0` with `t2` only (`nb_links = 3`), as `session_history_irrelevant` says -/
example :
    (runSeq (α := ℚ) { cls := .enu, T := exTrig } (fun _ x => x) (fun n => (n : ℚ)) 1000
      [some { pts := [⟨0, 0, 0⟩, ⟨0, 0, 1⟩], rows := [{ diff := some 5, pair := [9, 0] }, { diff := some 5, pair := [9, 1] }] },
       some (TrackObj.fresh [⟨0, 0, 1⟩]), some (TrackObj.fresh [⟨0, 0, 2⟩, ⟨0, 0, 0⟩, ⟨0, 0, 3⟩])]
      [{ front := true, mode := 2, p := { tyname := "<class'numpy.int64'>", val := some (.nat 1) }, dim := .num 1, a := 0, b := 1 },
       { front := true, mode := 4, p := PArg.pyInt1, dim := .num 1, a := 3, b := 2 }]).map
      (fun r => match r with
        | .matched o => some (o.score, o.rows.map (·.pair), o.nbLinks)
        | _ => none)
    = [some (1, [[0], [0]], 2), some (2, [[0, 1], [2]], 3)] := by decide +kernel

/-- the hypothesis `hd` of `match_onesided` / `compare_correct` is satisfiable on every class of positions: `dim = 2` on `GeoCoords`,
`dim = 3` on `ECEFCoords`, a callable (here the Manhattan distance of the first two coordinates) on any class -/
example : ∃ dist, distanceOf (α := ℚ) { cls := .geo, T := exTrig } (.num 2) = .ok dist := ⟨_, (distance_geo _ rfl).2.1⟩
example : ∃ dist, distanceOf (α := ℚ) { cls := .ecef, T := exTrig } (.num 3) = .ok dist := ⟨_, (distance_ecef _ rfl).2.2⟩
example : ∃ dist, distanceOf (α := ℚ) { cls := .geo, T := exTrig } (.fn (fun p q => |p.x - q.x| + |p.y - q.y|)) = .ok dist :=
  ⟨_, distance_function_form _ _⟩
/-- … and `hsymm` of `match_correct` too, for `dim = 3` on `GeoCoords` -/
example : ∃ dist, distanceOf (α := ℚ) { cls := .geo, T := exTrig } (.num 3) = .ok dist ∧ ∀ p q, dist p q = dist q p :=
  ⟨_, (distance_geo _ rfl).2.2, distanceOf_symm _ 3 (Or.inr rfl) _ (distance_geo _ rfl).2.2⟩

/-- the hypotheses on `sqrt` (`hsqrt` of `distanceOf_nonneg`, `hs` of `unit_invariant`) hold of the real square root -/
example : ∀ x : ℝ, 0 ≤ Real.sqrt x := Real.sqrt_nonneg
example (c : ℝ) (hc : 0 < c) : ∀ x : ℝ, 0 ≤ x → Real.sqrt (c * c * x) = c * Real.sqrt x :=
  fun x _ => by rw [Real.sqrt_mul (mul_self_nonneg c), Real.sqrt_mul_self hc.le]

/-- the hypothesis of `compare_mean_power` is satisfiable: for `p = 1` the root is the identity -/
example : ∀ x : ℚ, 0 ≤ x → npow ((fun (_ : Nat) (y : ℚ) => y) (0+1) x) (0+1) = x := fun _ _ => rfl

/-- `p = 1.5` as a Python float (or `numpy.float64(1.5)`) satisfies the hypotheses of `p2weight_real` (first clause), so that `hp` of
`match_real_correct` holds for it -/
example : let p : PArgX ℚ := { tyname := "<class'float'>", val := some (.real (3/2)) }
    p.isFn = false ∧ p.isNum = true := by decide
example : let p : PArgX ℚ := { tyname := "<class'numpy.float64'>", val := some (.real (3/2)) }
    p.isFn = false ∧ p.isNum = true := by decide
example (pow : ℚ → ℚ → ℚ) : p2weightX pow { tyname := "<class'float'>", val := some (.real (3/2)) } = .ok (weightX pow (.real (3/2))) :=
  (p2weight_real pow _ (3/2) (by norm_num)).1 (by decide) rfl
/-- … and so does `p = numpy.longdouble(1.5)` / `numpy.float16(1.5)` handed to `match` (`hp` is about `_exponent(p)`) -/
example (pow : ℚ → ℚ → ℚ) : ∀ ty ∈ ["<class'numpy.longdouble'>", "<class'numpy.float16'>", "<class'float'>"],
    p2weightX pow (PArgX.exponent { tyname := ty, val := some (.real (3/2)) }) = .ok (weightX pow (.real (3/2))) := by
  intro ty hty
  simp only [List.mem_cons, List.not_mem_nil, or_false] at hty
  rcases hty with h | h | h <;> subst h <;>
    exact (p2weight_real pow _ (3/2) (by norm_num)).1 (by decide) rfl

/-- the hypothesis `hpow` of `match_fdtw_real_correct` holds of the real power function -/
example (x : ℝ) : ∀ b : ℝ, 0 ≤ b → 0 ≤ b ^ x := fun _ hb => Real.rpow_nonneg hb x

/-- a run with integer point distances and an exponent that is not a natural number (heights `0, 4, 0` and `4, 0, 4`, `dim = 1`,
`pow b x` standing for `b**1.5` on the two distances that occur: `0**1.5 = 0`, `4**1.5 = 8`): the cost table holds `8, 8, 16` in its
first column — the accumulated costs as computed; the score is `16` and the returned coupling realises it -/
example :
    (matchCallX (α := ℚ) (fun b _ => if b = 4 then 8 else 0) { cls := .enu, T := exTrig } 1000 2
      { tyname := "<class'float'>", val := some (.real (3/2)) } (.num 1)
      (TrackObj.fresh [⟨0, 0, 0⟩, ⟨0, 0, 4⟩, ⟨0, 0, 0⟩]) [⟨0, 0, 4⟩, ⟨0, 0, 0⟩, ⟨0, 0, 4⟩]).toOption.map
      (fun o => (o.score, o.S, o.rows.map (·.pair), o.nbLinks))
    = some (16, [(2, 2), (2, 1), (1, 0), (0, 0)], [[0, 1], [2], [2]], 4) := by decide +kernel

/-- the hypotheses of `cost_unit_invariant_real` hold of the real power function on non-negative distances -/
example (c x : ℝ) (hc : 0 < c) : 0 < c ^ x ∧ ∀ b : ℝ, 0 ≤ b → (c * b) ^ x = c ^ x * b ^ x :=
  ⟨Real.rpow_pos_of_pos hc x, fun _ hb => Real.mul_rpow hc.le hb⟩

/-- a session with an exponent that is not a natural number (heights, `dim = 1`): `m = match(t0, t1, DTW, p = 1.5)` on a `t0` that
already carried features, then `match(m, t2, DTW, p = numpy.float64(1.5))`: the second call returns the links of `t0` with `t2` only,
as `session_history_irrelevant_real` says (`pow b x` standing for `b**1.5` on the distances that occur: 0, 1, 4) -/
example :
    (runSeqX (α := ℚ) (fun b _ => if b = 4 then 8 else b) { cls := .enu, T := exTrig } (fun _ x => x) (fun n => (n : ℚ)) 1000
      [some { pts := [⟨0, 0, 0⟩, ⟨0, 0, 4⟩], rows := [{ diff := some 5, pair := [9, 0] }, { diff := some 5, pair := [9, 1] }] },
       some (TrackObj.fresh [⟨0, 0, 4⟩]), some (TrackObj.fresh [⟨0, 0, 1⟩, ⟨0, 0, 0⟩, ⟨0, 0, 4⟩])]
      [{ front := true, mode := 2, p := { tyname := "<class'float'>", val := some (.real (3/2)) }, dim := .num 1, a := 0, b := 1 },
       { front := true, mode := 2, p := { tyname := "<class'numpy.float64'>", val := some (.real (3/2)) }, dim := .num 1, a := 3, b := 2 }]).map
      (fun r => match r with
        | .matched o => some (o.score, o.rows.map (·.pair), o.nbLinks)
        | _ => none)
    = [some (8, [[0], [0]], 2), some (1, [[0, 1], [2]], 3)] := by decide +kernel

end TV.C18
