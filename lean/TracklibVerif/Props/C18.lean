import TracklibVerif.Lemmas.DTWTable
import TracklibVerif.Lemmas.FDTW
import TracklibVerif.Lemmas.DTWFront
import Mathlib.Algebra.Order.Field.Basic
import Mathlib.Tactic.Ring
import Mathlib.Algebra.Order.Ring.Rat
/-! # C18 — time-warping cost is the optimal coupling cost and the matching realises it

Property theorems only (helpers: `Lemmas/DTW.lean`, `Lemmas/DTWTable.lean`, `Lemmas/FDTW.lean`, `Lemmas/DTWFront.lean`). They are
about the executable model of `Model/DTWTable.lean` — the table form that the driver runs and the correspondence check
compares with `tracklib.algo.comparison.match` / `compare` — for **all** pairs of non-empty tracks, all dimensions, and
every accumulation `w` that is monotone in the accumulated cost (`A + B**p` and `max(A, B)` are).

Layers: `dtw` / `fdtw` (the two algorithms, any accumulation) — sections `generic`, `links`; `_p2weight` and the front ends
`matchCall` / `compareCall` as they are called (mode constant, `p` as type name + value, a track1 that may carry the
features of an earlier matching) — sections `forms`, `session`, `cmpgen`; `matchTracks` / `compareTracks` (the same calls on
tracks without features, `p` a Python number) over an ordered field — section `field`.

Vocabulary: `S` is the list built by the backward step of `_dtw` (last pair first); `BackPath S` says that `S` is a
monotone coupling with unit steps that ends at `(0,0)`; `costBack w 0 D S` is its accumulated cost
`w(… w(w(0, D[0,0]), D[s₁]) …, D[last])`; `Dmat` is the code's distance matrix (`rows = track2`, `columns = track1`);
`partners S.reverse j` is the content of the `pair` feature of observation `j` of the output. -/
namespace TV.C18
open TV.DTW

section generic
variable {α : Type} [Add α] [Sub α] [Mul α] [LinearOrder α] [OfNat α 0]

/-- a coupling of the two tracks: a list of pairs (last pair first) from `(n2-1, n1-1)` down to `(0,0)` by unit steps -/
def IsCouplingOf (n1 n2 : Nat) (S : List (Nat × Nat)) : Prop :=
  BackPath S ∧ S.head? = some (n2 - 1, n1 - 1)

/-- T1 `table_optimal`: the score that `_dtw` reports (`T[-1,-1]`) is the minimum, over **all** monotone unit-step
couplings from the first pair to the last pair, of the accumulated cost: it is a lower bound of the cost of every
coupling, and some coupling attains it. Only monotonicity of `w` in the accumulated cost is used. -/
theorem table_optimal (sqrt : α → α) (w : α → α → α) (hw : ∀ a b d, a ≤ b → w a d ≤ w b d) (dim : Nat)
    (t1 t2 : List (Pt α)) (h1 : 0 < t1.length) (h2 : 0 < t2.length) :
    ∃ out, dtw sqrt w dim t1 t2 = some out ∧
      (∀ S, IsCouplingOf t1.length t2.length S → out.score ≤ costBack w 0 (Dmat sqrt dim t1 t2) S) ∧
      (∃ S, IsCouplingOf t1.length t2.length S ∧ costBack w 0 (Dmat sqrt dim t1 t2) S = out.score) := by
  obtain ⟨rows, he, _, _⟩ := dtw_spec sqrt w dim t1 t2 h1 h2
  refine ⟨_, he, ?_, ?_⟩
  · intro S hS
    exact T_le w 0 _ hw _ _ _ (backPath_coupling w 0 _ S _ _ hS.1 hS.2)
  · exact ⟨_, ⟨walkF_backPath w 0 _ (t1.length + t2.length) (t2.length - 1) (t1.length - 1) (by omega), walkF_head w 0 _ _ _⟩,
      walkF_cost w 0 _ (t1.length + t2.length) (t2.length - 1) (t1.length - 1) (by omega)⟩

/-- T2 `score_symmetric`: swapping the two tracks does not change the score (the lattice is transposed), provided the
point distance is symmetric (`distance_symm` below: it is, over an ordered field). -/
theorem score_symmetric (sqrt : α → α) (w : α → α → α) (dim : Nat)
    (hd : ∀ p q : Pt α, distance sqrt dim p q = distance sqrt dim q p)
    (t1 t2 : List (Pt α)) (h1 : 0 < t1.length) (h2 : 0 < t2.length) :
    ∃ o12 o21, dtw sqrt w dim t1 t2 = some o12 ∧ dtw sqrt w dim t2 t1 = some o21 ∧ o12.score = o21.score := by
  obtain ⟨r12, e12, _, _⟩ := dtw_spec sqrt w dim t1 t2 h1 h2
  obtain ⟨r21, e21, _, _⟩ := dtw_spec sqrt w dim t2 t1 h2 h1
  refine ⟨_, _, e12, e21, ?_⟩
  show T w 0 (Dmat sqrt dim t1 t2) (t2.length - 1) (t1.length - 1) = T w 0 (Dmat sqrt dim t2 t1) (t1.length - 1) (t2.length - 1)
  have hD : Dmat sqrt dim t2 t1 = fun a b => Dmat sqrt dim t1 t2 b a := by
    funext a b; unfold Dmat; exact hd _ _
  rw [hD, T_transpose w 0 (Dmat sqrt dim t1 t2) _ _ _ rfl]

/-- T3 `path_valid`: the list `S` produced by the backward walk through `M` is a monotone coupling with unit steps from
the last pair down to `(0,0)`; `nb_links` is its length; the `pair` feature of the output lists exactly its pairs
(`i ∈ pair[j] ↔ (i, j) ∈ S`); consequently every observation of track1 has at least one partner and every observation of
track2 is the partner of some observation of track1. -/
theorem path_valid (sqrt : α → α) (w : α → α → α) (dim : Nat)
    (t1 t2 : List (Pt α)) (h1 : 0 < t1.length) (h2 : 0 < t2.length) :
    ∃ out, dtw sqrt w dim t1 t2 = some out ∧
      IsCouplingOf t1.length t2.length out.S ∧
      out.nbLinks = out.S.length ∧ out.rows.length = t1.length ∧
      (∀ s ∈ out.S, s.1 < t2.length ∧ s.2 < t1.length) ∧
      (∀ j, j < t1.length → ∃ r : Row α, out.rows[j]? = some r ∧ (∀ i, i ∈ r.pair ↔ (i, j) ∈ out.S) ∧ r.pair ≠ []) ∧
      (∀ i, i < t2.length → ∃ (j : Nat) (r : Row α), out.rows[j]? = some r ∧ i ∈ r.pair) := by
  obtain ⟨rows, he, hl, hp⟩ := dtw_spec sqrt w dim t1 t2 h1 h2
  have hbp := walkF_backPath w 0 (Dmat sqrt dim t1 t2) (t1.length + t2.length) (t2.length - 1) (t1.length - 1) (by omega)
  have hhd := walkF_head w 0 (Dmat sqrt dim t1 t2) (t1.length + t2.length) (t2.length - 1, t1.length - 1)
  obtain ⟨r1, r2, r3⟩ := rows_pairs _ t1.length t2.length rows hbp hhd h1 h2 hl hp
  exact ⟨_, he, ⟨hbp, hhd⟩, rfl, hl, r1, r2, r3⟩

/-- T4 `path_realises`: the accumulated cost of the returned coupling equals the reported score. This is where the
predecessor encoding matters: each back-pointer designates a *minimal* predecessor (`T_pred`; false before 42f835b). -/
theorem path_realises (sqrt : α → α) (w : α → α → α) (dim : Nat)
    (t1 t2 : List (Pt α)) (h1 : 0 < t1.length) (h2 : 0 < t2.length) :
    ∃ out, dtw sqrt w dim t1 t2 = some out ∧ costBack w 0 (Dmat sqrt dim t1 t2) out.S = out.score := by
  obtain ⟨rows, he, _, _⟩ := dtw_spec sqrt w dim t1 t2 h1 h2
  exact ⟨_, he, walkF_cost w 0 _ (t1.length + t2.length) (t2.length - 1) (t1.length - 1) (by omega)⟩

/-- T5 `fdtw_equal`: the fast variant `_fdtw` (best-first search with `priority_dict`) reports the same score as
`_dtw`, for every accumulation that is monotone in the accumulated cost and inflationary on the distances at hand
(`a ≤ w a d`: true for `a + d^p` with `d ≥ 0` and for `max`), `big` (the 1e300 placeholder priority) being above every
candidate cost. The queue is only assumed to return *an* entry of least priority (ties between keys are irrelevant). -/
theorem fdtw_equal (sqrt : α → α) (big : α) (w : α → α → α) (dim : Nat) (t1 t2 : List (Pt α))
    (h1 : 0 < t1.length) (h2 : 0 < t2.length)
    (hw : ∀ a b d, a ≤ b → w a d ≤ w b d)
    (hinf : ∀ a i j, i < t2.length → j < t1.length → a ≤ w a (Dmat sqrt dim t1 t2 i j))
    (hbig : ∀ i j i' j', i < t2.length → j < t1.length → i' < t2.length → j' < t1.length →
      w (T w 0 (Dmat sqrt dim t1 t2) i j) (Dmat sqrt dim t1 t2 i' j') < big) :
    ∃ od ofast, dtw sqrt w dim t1 t2 = some od ∧ fdtw sqrt big w dim t1 t2 = some ofast ∧ ofast.score = od.score := by
  obtain ⟨rows, he, _, _⟩ := dtw_spec sqrt w dim t1 t2 h1 h2
  obtain ⟨S, rows', he', _⟩ := fdtw_spec sqrt big w dim t1 t2 h1 h2 hw hinf hbig
  exact ⟨_, _, he, he', rfl⟩

/-- T5b `fdtw_path`: the matching returned by the fast variant is also a monotone unit-step coupling from the last pair
to `(0,0)` (walk through the antecedent map `A`), its accumulated cost is the reported score, `nb_links` and the `pair`
feature describe it, and nobody is left out. -/
theorem fdtw_path (sqrt : α → α) (big : α) (w : α → α → α) (dim : Nat) (t1 t2 : List (Pt α))
    (h1 : 0 < t1.length) (h2 : 0 < t2.length)
    (hw : ∀ a b d, a ≤ b → w a d ≤ w b d)
    (hinf : ∀ a i j, i < t2.length → j < t1.length → a ≤ w a (Dmat sqrt dim t1 t2 i j))
    (hbig : ∀ i j i' j', i < t2.length → j < t1.length → i' < t2.length → j' < t1.length →
      w (T w 0 (Dmat sqrt dim t1 t2) i j) (Dmat sqrt dim t1 t2 i' j') < big) :
    ∃ out, fdtw sqrt big w dim t1 t2 = some out ∧
      IsCouplingOf t1.length t2.length out.S ∧
      costBack w 0 (Dmat sqrt dim t1 t2) out.S = out.score ∧
      out.nbLinks = out.S.length ∧ out.rows.length = t1.length ∧
      (∀ s ∈ out.S, s.1 < t2.length ∧ s.2 < t1.length) ∧
      (∀ j, j < t1.length → ∃ r : Row α, out.rows[j]? = some r ∧ (∀ i, i ∈ r.pair ↔ (i, j) ∈ out.S) ∧ r.pair ≠ []) ∧
      (∀ i, i < t2.length → ∃ (j : Nat) (r : Row α), out.rows[j]? = some r ∧ i ∈ r.pair) := by
  obtain ⟨S, rows, he, hbp, hhd, hcost, hl, hp⟩ := fdtw_spec sqrt big w dim t1 t2 h1 h2 hw hinf hbig
  obtain ⟨r1, r2, r3⟩ := rows_pairs S t1.length t2.length rows hbp hhd h1 h2 hl hp
  exact ⟨_, he, ⟨hbp, hhd⟩, hcost, rfl, hl, r1, r2, r3⟩

end generic

/-! ### `_p2weight`: how `p` is recognised -/
section forms
variable {α : Type} [Add α] [Sub α] [Mul α] [Div α] [LinearOrder α] [OfNat α 0] [OfNat α 1]

omit [Sub α] [Div α] in
/-- `_p2weight(p)` for a number whose type name contains `int` or `float` — Python `int` and `float`, `numpy.int8/16/32/64`,
`numpy.uint8/16/32/64`, `numpy.float16/32/64` — is the accumulation of the *value* of `p`: `A + B**k` for `p == k`
(`k = 1, 2, 3, …`), `A + (B != 0)*1` for `p == 0`, `max(A, B)` for `p == inf`. -/
theorem p2weight_number (p : PArg) (v : PNorm) (hf : p.isFn = false) (hn : p.isNum = true) (hv : p.val = some v) :
    p2weight (α := α) p = .ok (weight v) := p2weight_numeric p v hf hn hv

omit [Sub α] [Div α] in
/-- an infinite `p` (`float('inf')`, `math.inf`, `numpy.inf`, `numpy.float16/32/64('inf')`, `numpy.longdouble('inf')`) gives
`max(A, B)` whatever its type: the test `p == float('inf')` comes last -/
theorem p2weight_infinite (p : PArg) (hv : p.val = some .inf) : p2weight (α := α) p = .ok (weight .inf) := p2weight_inf p hv

omit [Sub α] [Div α] in
/-- a number other than 0 and infinity whose type name contains none of `int`, `float`, `function` (`numpy.longdouble(2)`,
`numpy.longlong(2)`, `numpy.ulonglong(2)`, `True`, `Fraction(2)`) binds nothing: `return weight` raises UnboundLocalError -/
theorem p2weight_unrecognised (p : PArg) (hf : p.isFn = false) (hn : p.isNum = false) (h0 : p.val ≠ some (.nat 0))
    (hi : p.val ≠ some .inf) : p2weight (α := α) p = .error "err:UnboundLocalError" := p2weight_unbound p hf hn h0 hi

/-- the type names, as `str(type(p))` prints them (blanks removed), that `_p2weight` takes for numbers … -/
example : ∀ ty ∈ ["<class'int'>", "<class'float'>", "<class'numpy.int8'>", "<class'numpy.int16'>", "<class'numpy.int32'>",
    "<class'numpy.int64'>", "<class'numpy.uint8'>", "<class'numpy.uint16'>", "<class'numpy.uint32'>", "<class'numpy.uint64'>",
    "<class'numpy.float16'>", "<class'numpy.float32'>", "<class'numpy.float64'>"],
    PArg.isNum { tyname := ty, val := none } = true ∧ PArg.isFn { tyname := ty, val := none } = false := by decide
/-- … and those it does not -/
example : ∀ ty ∈ ["<class'numpy.longdouble'>", "<class'numpy.longlong'>", "<class'numpy.ulonglong'>", "<class'bool'>",
    "<class'numpy.bool'>", "<class'fractions.Fraction'>", "<class'str'>"],
    PArg.isNum { tyname := ty, val := none } = false ∧ PArg.isFn { tyname := ty, val := none } = false := by decide
example : PArg.isFn { tyname := "<class'function'>", val := none } = true ∧
    PArg.isFn { tyname := "<class'builtin_function_or_method'>", val := none } = true ∧
    PArg.isNum { tyname := "<class'function'>", val := none } = false ∧
    PArg.isNum { tyname := "<class'builtin_function_or_method'>", val := none } = false := by decide

/-! ### the front end `match`: constants, forms of `p`, histories -/

omit [Div α] in
/-- **every numeric form of `p` is the same call**: `match(track1, track2, mode, p, dim)` with the constant of the mode
(`MODE_MATCHING_DTW = 2`, `FDTW = 3`, `FRECHET = 4`) and `p` a number of value `v` in any recognised type is the call that
`match_correct` / `match_fdtw_correct` are about -/
theorem match_any_form (sqrt : α → α) (big : α) (mode : Mode) (p : PArg) (v : PNorm)
    (hf : p.isFn = false) (hn : p.isNum = true) (hv : p.val = some v) (dim : Nat) (t1 t2 : List (Pt α)) :
    matchCall sqrt big mode.code p dim (TrackObj.fresh t1) t2 = matchTracks sqrt big mode v dim t1 t2 := by
  unfold matchTracks matchCall warpOn
  rw [p2weight_numeric p v hf hn hv, p2weight_ofNorm]

omit [Div α] in
/-- a callable `p` that computes the accumulation of `v` (`lambda A, B: A + B**2`, `lambda A, B: max(A, B)`, the builtin `max`)
is the same call as the number `v` -/
theorem match_callable_form (sqrt : α → α) (big : α) (mode : Mode) (p : PArg) (v : PNorm)
    (hf : p.isFn = true) (hn : p.isNum = false) (hw : p.fnw = some v) (hv : p.val = none) (dim : Nat) (t1 t2 : List (Pt α)) :
    matchCall sqrt big mode.code p dim (TrackObj.fresh t1) t2 = matchTracks sqrt big mode v dim t1 t2 := by
  unfold matchTracks matchCall warpOn
  rw [p2weight_callable p v hf hn hw hv, p2weight_ofNorm]

omit [Div α] in
/-- any other constant (for instance one of the `MODE_COMPARISON_*`) is refused -/
theorem match_unknown_mode (sqrt : α → α) (big : α) (mode : Nat) (h : mode ≠ 1 ∧ mode ≠ 2 ∧ mode ≠ 3 ∧ mode ≠ 4)
    (p : PArg) (dim : Nat) (a : TrackObj α) (t2 : List (Pt α)) :
    matchCall sqrt big mode p dim a t2 = .error "err:UnknownModeError" := by
  unfold matchCall
  simp [h.1, h.2.1, h.2.2.1, h.2.2.2]

omit [Div α] in
/-- **a matched track matched again** (modes DTW, FRECHET): `match(m, track2, …)` where `m` carries the feature rows `rows0`
of an earlier matching (or features the user created under the names `diff`, `pair`, `ex`, `ey`) returns exactly
`match(track1, track2, …)` on the same positions without features -/
theorem match_history_irrelevant (sqrt : α → α) (big : α) (mode : Mode) (hm : mode ≠ Mode.fdtw) (p : PNorm) (dim : Nat)
    (t1 t2 : List (Pt α)) (h1 : 0 < t1.length) (h2 : 0 < t2.length) (rows0 : List (Row α)) (hl : rows0.length = t1.length) :
    matchCall sqrt big mode.code (PArg.ofNorm p) dim { pts := t1, rows := rows0 } t2 = matchTracks sqrt big mode p dim t1 t2 := by
  have : mode.code ≠ 3 := by cases mode <;> simp [Mode.code] at hm ⊢
  exact matchCall_history sqrt big mode.code this _ dim t1 t2 rows0 hl h1 h2


end forms

/-! ### sessions of calls on shared objects -/
section session
variable {α : Type} [Add α] [Sub α] [Mul α] [Div α] [LinearOrder α] [OfNat α 0] [OfNat α 1]

/-- the session `runSeq` with every call made on copies *without* features of the tracks involved: only the positions
of the objects are kept (`none` = a call that returned no track) -/
def runFresh (sqrt : α → α) (root : Nat → α → α) (ofNat : Nat → α) (big : α) :
    List (Option (List (Pt α))) → List Step → List (Res α)
  | _, [] => []
  | geo, st :: rest =>
    match (geo[st.a]?).join, (geo[st.b]?).join with
    | some ta, some tb =>
      if st.front then
        match matchCall sqrt big st.mode st.p st.dim (TrackObj.fresh ta) tb with
        | .ok o => .matched o :: runFresh sqrt root ofNat big (geo ++ [some ta]) rest
        | .error e => .err e :: runFresh sqrt root ofNat big (geo ++ [none]) rest
      else
        (match compareCall sqrt root ofNat big st.mode st.p st.dim (TrackObj.fresh ta) tb with
          | .ok v => .value v
          | .error e => .err e) :: runFresh sqrt root ofNat big (geo ++ [none]) rest
    | _, _ => .err "bad-ref" :: runFresh sqrt root ofNat big (geo ++ [none]) rest

/-- every object of the session is a non-empty track with one feature row per observation -/
def WFEnv (env : List (Option (TrackObj α))) : Prop :=
  ∀ obj, some obj ∈ env → obj.rows.length = obj.pts.length ∧ 0 < obj.pts.length

/-- **histories are irrelevant** (sessions in the modes DTW and FRECHET, `match` and `compare`, any form of `p`, any
constants): in a session of calls on shared objects — tracks, and tracks returned by earlier `match` calls, which carry the
`diff`/`pair`/`ex`/`ey` features of that matching, used again as first or second argument — every call returns what it
returns on copies of the same positions that never went through `match`. In particular `match(match(t1, t2), t3)` returns
`match(t1, t3)`: no link of the earlier matching survives, `nb_links` counts the new links only. (The FDTW modes 3 / 107
are excluded here because their coupling is valid only under the hypotheses of `match_fdtw_correct`; `match_fdtw_history`
is the single-call statement for them.) -/
theorem session_history_irrelevant (sqrt : α → α) (root : Nat → α → α) (ofNat : Nat → α) (big : α) :
    ∀ (steps : List Step) (env : List (Option (TrackObj α))), WFEnv env →
      (∀ st ∈ steps, st.mode ≠ 3 ∧ st.mode ≠ 107) →
      runSeq sqrt root ofNat big env steps
        = runFresh sqrt root ofNat big (env.map (Option.map TrackObj.pts)) steps
  | [], env, _, _ => by simp [runSeq, runFresh]
  | st :: rest, env, hwf, hm => by
    have hst := hm st List.mem_cons_self
    have hrest : ∀ s ∈ rest, s.mode ≠ 3 ∧ s.mode ≠ 107 := fun s hs => hm s (List.mem_cons_of_mem _ hs)
    have hget : ∀ k : Nat, ((env.map (Option.map TrackObj.pts))[k]?).join = ((env[k]?).join).map TrackObj.pts := by
      intro k
      rw [List.getElem?_map]
      cases env[k]? with
      | none => rfl
      | some o => cases o <;> rfl
    have hmem : ∀ (k : Nat) (obj : TrackObj α), (env[k]?).join = some obj → some obj ∈ env := by
      intro k obj h
      cases hk : env[k]? with
      | none => rw [hk] at h; cases h
      | some o =>
        rw [hk] at h
        simp only [Option.join] at h
        subst h
        exact List.mem_of_getElem? hk
    have hnone : WFEnv (env ++ [none]) := by
      intro obj ho
      rcases List.mem_append.mp ho with h | h
      · exact hwf obj h
      · simp at h
    have hmapnone : (env ++ [none]).map (Option.map TrackObj.pts) = env.map (Option.map TrackObj.pts) ++ [none] := by simp
    rw [runSeq, runFresh, hget, hget]
    cases ha : (env[st.a]?).join with
    | none =>
      simp only [Option.map_none]
      rw [session_history_irrelevant sqrt root ofNat big rest _ hnone hrest, hmapnone]
    | some a =>
      cases hb : (env[st.b]?).join with
      | none =>
        simp only [Option.map_none, Option.map_some]
        rw [session_history_irrelevant sqrt root ofNat big rest _ hnone hrest, hmapnone]
      | some b =>
        have hwa := hwf a (hmem _ _ ha)
        have hwb := hwf b (hmem _ _ hb)
        simp only [Option.map_some]
        by_cases hf : st.front = true
        · simp only [hf, if_true]
          have hh : matchCall sqrt big st.mode st.p st.dim a b.pts
              = matchCall sqrt big st.mode st.p st.dim (TrackObj.fresh a.pts) b.pts :=
            matchCall_history sqrt big st.mode hst.1 st.p st.dim a.pts b.pts a.rows hwa.1 hwa.2 hwb.2
          rw [hh]
          cases hr : matchCall sqrt big st.mode st.p st.dim (TrackObj.fresh a.pts) b.pts with
          | error e =>
            simp only
            rw [session_history_irrelevant sqrt root ofNat big rest _ hnone hrest, hmapnone]
          | ok o =>
            simp only
            have hlen := matchCall_rows_length sqrt big st.mode hst.1 st.p st.dim a.pts b.pts hwa.2 hwb.2 o hr
            have hwf' : WFEnv (env ++ [some { pts := a.pts, rows := o.rows }]) := by
              intro obj ho
              rcases List.mem_append.mp ho with h | h
              · exact hwf obj h
              · simp only [List.mem_singleton, Option.some.injEq] at h
                subst h
                exact ⟨hlen, hwa.2⟩
            rw [session_history_irrelevant sqrt root ofNat big rest _ hwf' hrest]
            simp
        · simp only [hf, if_false, Bool.false_eq_true]
          have hh : compareCall sqrt root ofNat big st.mode st.p st.dim a b.pts
              = compareCall sqrt root ofNat big st.mode st.p st.dim (TrackObj.fresh a.pts) b.pts :=
            compareCall_history sqrt root ofNat big st.mode hst.2 st.p st.dim a.pts b.pts a.rows hwa.1 hwa.2 hwb.2
          rw [hh, session_history_irrelevant sqrt root ofNat big rest _ hnone hrest, hmapnone]
          rfl

end session

/-! ### the front end `compare` -/
section cmpgen
variable {α : Type} [Add α] [Sub α] [Mul α] [Div α] [LinearOrder α] [OfNat α 0] [OfNat α 1]

/-- what `compare` makes of the matching `o`: the score for FRECHET, `p = inf` and `p = 0`, `(score/nb_links)**(1/p)` otherwise -/
def cmpValue (root : Nat → α → α) (ofNat : Nat → α) (mode : Mode) (p : PNorm) (o : Out α) : α :=
  match (if mode = Mode.frechet then PNorm.inf else p) with
  | .inf => o.score
  | .nat 0 => o.score
  | .nat (k+1) => root (k+1) (o.score / ofNat o.nbLinks)

/-- `compare(track1, track2, mode, p, dim)` in the modes DTW / FDTW / FRECHET is `match` followed by `cmpValue`: errors are
those of `match` -/
theorem compare_value (sqrt : α → α) (root : Nat → α → α) (ofNat : Nat → α) (big : α) (mode : Mode) (p : PNorm) (dim : Nat)
    (t1 t2 : List (Pt α)) :
    compareTracks sqrt root ofNat big mode p dim t1 t2 =
      match matchTracks sqrt big mode p dim t1 t2 with
      | .ok o => .ok (cmpValue root ofNat mode p o)
      | .error e => .error e := by
  have hfn : ∀ q : PNorm, (PArg.ofNorm q).isFn = false := by
    intro q
    cases q with
    | nat k => show hasSub "function".toList "<class'int'>".toList = false; decide
    | inf => decide
  unfold compareTracks compareCall warpCompare matchTracks matchCall cmpValue
  cases mode with
  | frechet =>
    simp only [Mode.code, Mode.cmpCode]
    cases warpOn sqrt big false PArg.pyInf dim (TrackObj.fresh t1) t2 with
    | error e => rfl
    | ok o => simp [bind, Except.bind, PArg.pyInf, pure, Except.pure]
  | dtw =>
    simp only [Mode.code, Mode.cmpCode]
    cases warpOn sqrt big false (PArg.ofNorm p) dim (TrackObj.fresh t1) t2 with
    | error e => rfl
    | ok o =>
      cases p with
      | inf => simp [bind, Except.bind, PArg.ofNorm, pure, Except.pure]
      | nat k =>
        cases k with
        | zero => simp [bind, Except.bind, PArg.ofNorm, pure, Except.pure]
        | succ k =>
          have hk : ({ tyname := "<class'int'>", val := some (PNorm.nat (k + 1)) } : PArg).isFn = false := hfn (.nat (k+1))
          simp [bind, Except.bind, PArg.ofNorm, pure, Except.pure, hk]
  | fdtw =>
    simp only [Mode.code, Mode.cmpCode]
    cases warpOn sqrt big true (PArg.ofNorm p) dim (TrackObj.fresh t1) t2 with
    | error e => rfl
    | ok o =>
      cases p with
      | inf => simp [bind, Except.bind, PArg.ofNorm, pure, Except.pure]
      | nat k =>
        cases k with
        | zero => simp [bind, Except.bind, PArg.ofNorm, pure, Except.pure]
        | succ k => simp [bind, Except.bind, PArg.ofNorm, pure, Except.pure]
end cmpgen

/-! ### what a user reads from the returned track -/
section links
variable {α : Type} [Add α] [Sub α] [Mul α] [Div α] [LinearOrder α] [OfNat α 0]

omit [Div α] in
/-- **the links, read back**: reading the `pair` lists of the track that `_dtw` returns, observation by observation
(`[(i, j) for j, l in enumerate(pairs) for i in l]`), gives exactly the coupling `S` of `path_valid` / `path_realises`, first
pair first — same pairs, same order, same multiplicity; hence the number of stored links is `nb_links` -/
theorem links_read_back (sqrt : α → α) (w : α → α → α) (dim : Nat)
    (t1 t2 : List (Pt α)) (h1 : 0 < t1.length) (h2 : 0 < t2.length) :
    ∃ out, dtw sqrt w dim t1 t2 = some out ∧ readBack out.rows = out.S.reverse ∧ (readBack out.rows).length = out.nbLinks := by
  obtain ⟨rows, he, hl, hp⟩ := dtw_spec sqrt w dim t1 t2 h1 h2
  have hbp := walkF_backPath w 0 (Dmat sqrt dim t1 t2) (t1.length + t2.length) (t2.length - 1) (t1.length - 1) (by omega)
  have hhd := walkF_head w 0 (Dmat sqrt dim t1 t2) (t1.length + t2.length) (t2.length - 1, t1.length - 1)
  have hrb := readBack_eq _ t1.length t2.length rows hbp hhd h1 hl hp
  exact ⟨_, he, hrb, by rw [hrb]; simp⟩

omit [Div α] in
/-- the same for the fast variant, under the hypotheses of `fdtw_equal` -/
theorem fdtw_links_read_back (sqrt : α → α) (big : α) (w : α → α → α) (dim : Nat) (t1 t2 : List (Pt α))
    (h1 : 0 < t1.length) (h2 : 0 < t2.length)
    (hw : ∀ a b d, a ≤ b → w a d ≤ w b d)
    (hinf : ∀ a i j, i < t2.length → j < t1.length → a ≤ w a (Dmat sqrt dim t1 t2 i j))
    (hbig : ∀ i j i' j', i < t2.length → j < t1.length → i' < t2.length → j' < t1.length →
      w (T w 0 (Dmat sqrt dim t1 t2) i j) (Dmat sqrt dim t1 t2 i' j') < big) :
    ∃ out, fdtw sqrt big w dim t1 t2 = some out ∧ readBack out.rows = out.S.reverse ∧
      (readBack out.rows).length = out.nbLinks := by
  obtain ⟨S, rows, he, hbp, hhd, _, hl, hp⟩ := fdtw_spec sqrt big w dim t1 t2 h1 h2 hw hinf hbig
  have hrb := readBack_eq S t1.length t2.length rows hbp hhd h1 hl hp
  exact ⟨_, he, hrb, by rw [hrb]; simp⟩

end links

section features
variable {α : Type} [Add α] [Sub α] [Mul α] [Div α] [LinearOrder α] [OfNat α 0]

omit [Div α] in
/-- **`diff`, `ex`, `ey`, read back**: on the track that `_dtw` returns, observation `j` of track1 — whose partners, in coupling
order, are `partners S.reverse j`, the last of them being `i` — holds exactly that list in `pair`, and in `diff`, `ex`, `ey` the
distance and the coordinate differences to that **last** partner `track2[i]` (`rowFor`); nothing of an earlier state -/
theorem features_read_back (sqrt : α → α) (w : α → α → α) (dim : Nat) (t1 t2 : List (Pt α))
    (h1 : 0 < t1.length) (h2 : 0 < t2.length) :
    ∃ out, dtw sqrt w dim t1 t2 = some out ∧
      ∀ j i, j < t1.length → (partners out.S.reverse j).getLast? = some i →
        out.rows[j]? = some (rowFor sqrt dim t1 t2 j i (partners out.S.reverse j)) := by
  have hbp := walkF_backPath w 0 (Dmat sqrt dim t1 t2) (t1.length + t2.length) (t2.length - 1) (t1.length - 1) (by omega)
  have hhd := walkF_head w 0 (Dmat sqrt dim t1 t2) (t1.length + t2.length) (t2.length - 1, t1.length - 1)
  have hb := backPath_bounds _ _ _ hbp hhd
  have he : dtw sqrt w dim t1 t2 = some (Out.mk (T w 0 (Dmat sqrt dim t1 t2) (t2.length - 1) (t1.length - 1))
      (walkF w 0 (Dmat sqrt dim t1 t2) (t1.length + t2.length) (t2.length - 1, t1.length - 1))
      ((t1.map (fun _ => ({} : Row α))).mapIdx (fun j r =>
        (walkF w 0 (Dmat sqrt dim t1 t2) (t1.length + t2.length) (t2.length - 1, t1.length - 1)).reverse.foldl
          (stepRow sqrt dim t1 t2 j) r))
      (walkF w 0 (Dmat sqrt dim t1 t2) (t1.length + t2.length) (t2.length - 1, t1.length - 1)).length) := by
    unfold dtw dtwOn
    rw [distCols_eq, dtwCore_spec w 0 _ _ _ h1 h2]
    exact fillAF_rows sqrt dim t1 t2 _ _ (fun s hs => by have := hb s hs; omega)
  refine ⟨_, he, ?_⟩
  · intro j i hj hlast
    simp only [List.getElem?_mapIdx, List.getElem?_map, List.getElem?_eq_getElem hj, Option.map_some]
    rw [foldl_stepRow_last, hlast]
    simp

end features

/-! ### the public entry point `match`, over an ordered field (`ℚ`, `ℝ`) -/
section field
variable {α : Type} [Field α] [LinearOrder α] [IsStrictOrderedRing α]

/-- `_p2weight(p)` is monotone in the accumulated cost for every `p = 0, 1, 2, 3, …, inf` -/
theorem weight_mono (p : PNorm) (a b d : α) (h : a ≤ b) : weight p a d ≤ weight p b d := by
  cases p with
  | nat k => cases k <;> exact add_le_add h le_rfl
  | inf =>
    simp only [weight, pmax]
    by_cases h1 : a < d <;> by_cases h2 : b < d <;> simp only [h1, h2, if_true, if_false]
    · exact le_rfl
    · exact not_lt.mp h2
    · exact absurd (lt_of_le_of_lt h h2) h1
    · exact h

/-- `_distance` is symmetric (`abs`, and squares of coordinate differences) -/
theorem distance_symm (sqrt : α → α) (dim : Nat) (p q : Pt α) : distance sqrt dim p q = distance sqrt dim q p := by
  unfold distance
  by_cases h1 : dim = 1
  · simp only [h1, if_true]
    rcases lt_trichotomy (p.z - q.z) 0 with h | h | h
    · have h' : ¬ q.z - p.z < 0 := by
        have : q.z - p.z = -(p.z - q.z) := by ring
        rw [this]; exact not_lt.mpr (le_of_lt (neg_pos.mpr h))
      simp only [h, h', if_true, if_false]; ring
    · have h' : q.z - p.z = 0 := by
        have : q.z - p.z = -(p.z - q.z) := by ring
        rw [this, h]; simp
      simp [h, h']
    · have h' : q.z - p.z < 0 := by
        have : q.z - p.z = -(p.z - q.z) := by ring
        rw [this]; exact neg_neg_of_pos h
      have h'' : ¬ p.z - q.z < 0 := not_lt.mpr (le_of_lt h)
      simp only [h', h'', if_true, if_false]; ring
  · simp only [h1, if_false]
    by_cases h2 : dim = 2
    · simp only [h2, if_true]; congr 1; ring
    · simp only [h2, if_false]; congr 1; ring

/-- the accumulation that `match` uses in the modes DTW (`p`) and FRECHET (`inf`) -/
def weightOf (mode : Mode) (p : PNorm) : α → α → α := weight (if mode = Mode.frechet then PNorm.inf else p)

/-- **C18 for `match(track1, track2, mode = DTW | FRECHET, p, dim)`**, all at once, for every pair of non-empty tracks,
`p ∈ {0, 1, 2, 3, …, inf}` (a Python number; every other recognised form of `p` is the same call: `match_any_form`),
`dim ∈ {1, 2, 3}`: the call succeeds; the reported score is a lower bound of the accumulated cost
(`Σ d^p`, or `max d` for `p = inf` / FRECHET) of every monotone unit-step coupling from the first to the last pair;
the returned `S` is such a coupling and its accumulated cost **is** the score; `nb_links` is its length and the `pair`
feature lists exactly its pairs, with no observation of either track left out; and `match(track2, track1)` reports
the same score. -/
theorem match_correct (sqrt : α → α) (big : α) (mode : Mode) (hm : mode ≠ Mode.fdtw) (p : PNorm) (dim : Nat)
    (t1 t2 : List (Pt α)) (h1 : 0 < t1.length) (h2 : 0 < t2.length) :
    ∃ out out', matchTracks sqrt big mode p dim t1 t2 = .ok out ∧ matchTracks sqrt big mode p dim t2 t1 = .ok out' ∧
      (∀ S, IsCouplingOf t1.length t2.length S → out.score ≤ costBack (weightOf mode p) 0 (Dmat sqrt dim t1 t2) S) ∧
      IsCouplingOf t1.length t2.length out.S ∧
      costBack (weightOf mode p) 0 (Dmat sqrt dim t1 t2) out.S = out.score ∧
      out.nbLinks = out.S.length ∧
      (∀ j, j < t1.length → ∃ r : Row α, out.rows[j]? = some r ∧ (∀ i, i ∈ r.pair ↔ (i, j) ∈ out.S) ∧ r.pair ≠ []) ∧
      (∀ i, i < t2.length → ∃ (j : Nat) (r : Row α), out.rows[j]? = some r ∧ i ∈ r.pair) ∧
      out'.score = out.score := by
  have hmt : ∀ (u v : List (Pt α)), 0 < u.length → ∀ o, dtw sqrt (weightOf mode p) dim u v = some o →
      matchTracks sqrt big mode p dim u v = .ok o := by
    intro u v hu o ho
    have hne : u.isEmpty = false := by cases u with | nil => simp at hu | cons _ _ => rfl
    rw [matchTracks_unfold]
    unfold weightOf at ho
    cases mode with
    | fdtw => exact absurd rfl hm
    | dtw => simp at ho; simp [hne, ho]
    | frechet => simp at ho; simp [hne, ho]
  have hw : ∀ a b d : α, a ≤ b → weightOf mode p a d ≤ weightOf mode p b d := fun a b d h => weight_mono _ a b d h
  obtain ⟨out, he, hlow, _⟩ := table_optimal sqrt (weightOf mode p) hw dim t1 t2 h1 h2
  obtain ⟨out2, he2, hcoup, hnb, _, _, hrows, hcov⟩ := path_valid sqrt (weightOf mode p) dim t1 t2 h1 h2
  obtain ⟨out3, he3, hcost⟩ := path_realises sqrt (weightOf mode p) dim t1 t2 h1 h2
  obtain ⟨o12, o21, e12, e21, hsym⟩ := score_symmetric sqrt (weightOf mode p) dim (distance_symm sqrt dim) t1 t2 h1 h2
  rw [he] at he2 he3 e12
  cases Option.some.inj he2
  cases Option.some.inj he3
  cases Option.some.inj e12
  exact ⟨out, o21, hmt t1 t2 h1 out he, hmt t2 t1 h2 o21 e21, hlow, hcoup, hcost, hnb, hrows, hcov, hsym.symm⟩

/-- `_distance` is non-negative when `sqrt` is -/
theorem distance_nonneg (sqrt : α → α) (hsqrt : ∀ x, 0 ≤ sqrt x) (dim : Nat) (p q : Pt α) :
    0 ≤ distance sqrt dim p q := by
  unfold distance
  by_cases h1 : dim = 1
  · simp only [h1, if_true]
    by_cases h : p.z - q.z < 0
    · simp only [h, if_true]
      have : (0 : α) - (p.z - q.z) = -(p.z - q.z) := by ring
      rw [this]; exact le_of_lt (neg_pos.mpr h)
    · simp only [h, if_false]; exact not_lt.mp h
  · simp only [h1, if_false]
    by_cases h2 : dim = 2
    · simp only [h2, if_true]; exact hsqrt _
    · simp only [h2, if_false]; exact hsqrt _

/-- `B**k ≥ 0` for `B ≥ 0` -/
theorem npow_nonneg (d : α) (hd : 0 ≤ d) : ∀ k, 0 ≤ npow d k
  | 0 => zero_le_one
  | 1 => hd
  | k+2 => mul_nonneg (npow_nonneg d hd (k+1)) hd

/-- `_p2weight(p)` is inflationary on non-negative distances -/
theorem weight_infl (p : PNorm) (a d : α) (hd : 0 ≤ d) : a ≤ weight p a d := by
  cases p with
  | nat k =>
    cases k with
    | zero =>
      simp only [weight]
      apply le_add_of_nonneg_right
      split
      · exact zero_le_one
      · exact le_rfl
    | succ k => exact le_add_of_nonneg_right (npow_nonneg d hd (k+1))
  | inf =>
    simp only [weight, pmax]
    by_cases h : a < d
    · simp only [h, if_true]; exact le_of_lt h
    · simp only [h, if_false]; exact le_rfl

/-- **C18 for the fast variant, `match(track1, track2, mode = FDTW, p, dim)`**: for every pair of non-empty tracks,
`p ∈ {0, 1, 2, 3, …, inf}`, `dim ∈ {1, 2, 3}`, a non-negative `sqrt`, and `big` (1e300 in the code) above every candidate cost:
the call succeeds and reports **the same score as `mode = DTW`**; the returned `S` is a monotone unit-step coupling
from the first to the last pair whose accumulated cost is that score; `nb_links` and the `pair` feature describe it and
no observation of either track is left out. -/
theorem match_fdtw_correct (sqrt : α → α) (hsqrt : ∀ x, 0 ≤ sqrt x) (big : α) (p : PNorm) (dim : Nat)
    (t1 t2 : List (Pt α)) (h1 : 0 < t1.length) (h2 : 0 < t2.length)
    (hbig : ∀ i j i' j', i < t2.length → j < t1.length → i' < t2.length → j' < t1.length →
      weight p (T (weight p) 0 (Dmat sqrt dim t1 t2) i j) (Dmat sqrt dim t1 t2 i' j') < big) :
    ∃ out outd, matchTracks sqrt big Mode.fdtw p dim t1 t2 = .ok out ∧ matchTracks sqrt big Mode.dtw p dim t1 t2 = .ok outd ∧
      out.score = outd.score ∧
      IsCouplingOf t1.length t2.length out.S ∧
      costBack (weight p) 0 (Dmat sqrt dim t1 t2) out.S = out.score ∧
      out.nbLinks = out.S.length ∧
      (∀ j, j < t1.length → ∃ r : Row α, out.rows[j]? = some r ∧ (∀ i, i ∈ r.pair ↔ (i, j) ∈ out.S) ∧ r.pair ≠ []) ∧
      (∀ i, i < t2.length → ∃ (j : Nat) (r : Row α), out.rows[j]? = some r ∧ i ∈ r.pair) := by
  have hw : ∀ a b d : α, a ≤ b → weight p a d ≤ weight p b d := fun a b d h => weight_mono p a b d h
  have hinf : ∀ (a : α) i j, i < t2.length → j < t1.length → a ≤ weight p a (Dmat sqrt dim t1 t2 i j) :=
    fun a i j _ _ => weight_infl p a _ (distance_nonneg sqrt hsqrt dim _ _)
  obtain ⟨od, ofast, e1, e2, hs⟩ := fdtw_equal sqrt big (weight p) dim t1 t2 h1 h2 hw hinf hbig
  obtain ⟨out, e3, hc, hcost, hnb, _, _, hr, hcov⟩ := fdtw_path sqrt big (weight p) dim t1 t2 h1 h2 hw hinf hbig
  rw [e2] at e3
  cases Option.some.inj e3
  have hne : t1.isEmpty = false := by cases t1 with | nil => simp at h1 | cons _ _ => rfl
  refine ⟨ofast, od, ?_, ?_, hs, hc, hcost, hnb, hr, hcov⟩
  · rw [matchTracks_unfold]; simp [hne, e2]
  · rw [matchTracks_unfold]; simp [hne, e1]

/-- the same for the fast variant, under the hypotheses of `match_fdtw_correct` -/
theorem match_fdtw_history (sqrt : α → α) (hsqrt : ∀ x, 0 ≤ sqrt x) (big : α) (p : PNorm) (dim : Nat)
    (t1 t2 : List (Pt α)) (h1 : 0 < t1.length) (h2 : 0 < t2.length)
    (hbig : ∀ i j i' j', i < t2.length → j < t1.length → i' < t2.length → j' < t1.length →
      weight p (T (weight p) 0 (Dmat sqrt dim t1 t2) i j) (Dmat sqrt dim t1 t2 i' j') < big)
    (rows0 : List (Row α)) (hl : rows0.length = t1.length) :
    matchCall sqrt big 3 (PArg.ofNorm p) dim { pts := t1, rows := rows0 } t2 = matchTracks sqrt big Mode.fdtw p dim t1 t2 := by
  obtain ⟨out, outd, e1, _, _, hc, _⟩ := match_fdtw_correct sqrt hsqrt big p dim t1 t2 h1 h2 hbig
  have hne : t1.isEmpty = false := by cases t1 with | nil => simp at h1 | cons _ _ => rfl
  have hfd : fdtw sqrt big (weight p) dim t1 t2 = some out := by
    rw [matchTracks_unfold] at e1
    simp only [hne, Bool.false_eq_true, if_false] at e1
    cases hx : fdtw sqrt big (weight p) dim t1 t2 with
    | none => rw [hx] at e1; cases e1
    | some o => rw [hx] at e1; cases e1; rfl
  rw [e1]
  unfold matchCall warpOn
  rw [p2weight_ofNorm]
  simp [bind, Except.bind, hne, fdtwOn_of_fdtw sqrt big (weight p) dim rows0 t1 t2 hl h1 h2 out hfd hc.1 hc.2]


/-- **`compare` in the modes DTW and FRECHET**, for every pair of non-empty tracks over an ordered field: the call succeeds and
returns `cmpValue` of the matching that `match` returns, which is optimal (`match_correct`): for FRECHET / `p = inf` the value
**is** the least, over all couplings, of the largest link (the discrete Fréchet distance); for a finite `p ≥ 1` it is
`(score/nb_links)**(1/p)` with `score` the least `Σ d^p` over all couplings and `nb_links` the number of links of the returned
optimal coupling, between `max(n1, n2)` and `n1 + n2 - 1` -/
theorem compare_correct (sqrt : α → α) (root : Nat → α → α) (ofNat : Nat → α) (big : α) (mode : Mode)
    (hm : mode ≠ Mode.fdtw) (p : PNorm) (dim : Nat) (t1 t2 : List (Pt α)) (h1 : 0 < t1.length) (h2 : 0 < t2.length) :
    ∃ out, matchTracks sqrt big mode p dim t1 t2 = .ok out ∧
      compareTracks sqrt root ofNat big mode p dim t1 t2 = .ok (cmpValue root ofNat mode p out) ∧
      (∀ S, IsCouplingOf t1.length t2.length S → out.score ≤ costBack (weightOf mode p) 0 (Dmat sqrt dim t1 t2) S) ∧
      IsCouplingOf t1.length t2.length out.S ∧
      costBack (weightOf mode p) 0 (Dmat sqrt dim t1 t2) out.S = out.score ∧
      out.nbLinks = out.S.length ∧
      t1.length ≤ out.nbLinks ∧ t2.length ≤ out.nbLinks ∧ out.nbLinks + 1 ≤ t1.length + t2.length := by
  obtain ⟨out, _, e, _, hlow, hc, hcost, hnb, _, _, _⟩ := match_correct sqrt big mode hm p dim t1 t2 h1 h2
  have hlen := backPath_length out.S _ _ hc.1 hc.2
  refine ⟨out, e, ?_, hlow, hc, hcost, hnb, by omega, by omega, by omega⟩
  rw [compare_value, e]

/-- accumulated costs are non-negative when `sqrt` is -/
theorem costBack_nonneg (sqrt : α → α) (hsqrt : ∀ x, 0 ≤ sqrt x) (p : PNorm) (dim : Nat) (t1 t2 : List (Pt α)) :
    ∀ S : List (Nat × Nat), 0 ≤ costBack (weight p) 0 (Dmat sqrt dim t1 t2) S
  | [] => le_refl _
  | _ :: rest =>
    le_trans (costBack_nonneg sqrt hsqrt p dim t1 t2 rest)
      (weight_infl p _ _ (distance_nonneg sqrt hsqrt dim _ _))

/-- **`compare(DTW, p = k)` is the `k`-th root of the mean of `d^k` along the returned optimal coupling**: with exact
arithmetic — `root k` a genuine `k`-th root on non-negative numbers, `ofNat` the cast — `compare(...)^k * nb_links` is the
score, i.e. the least `Σ d^k` over all couplings. (Needs exact arithmetic: in floats `x**(1.0/k)` is rounded, and for
`k = 3` as `numpy.float16/32` the exponent `1.0/p` itself is rounded to that precision.) -/
theorem compare_mean_power (sqrt : α → α) (hsqrt : ∀ x, 0 ≤ sqrt x) (root : Nat → α → α) (big : α) (k : Nat)
    (hroot : ∀ x : α, 0 ≤ x → npow (root (k+1) x) (k+1) = x) (dim : Nat)
    (t1 t2 : List (Pt α)) (h1 : 0 < t1.length) (h2 : 0 < t2.length) :
    ∃ out v, matchTracks sqrt big Mode.dtw (.nat (k+1)) dim t1 t2 = .ok out ∧
      compareTracks sqrt root (fun n => (n : α)) big Mode.dtw (.nat (k+1)) dim t1 t2 = .ok v ∧
      npow v (k+1) * (out.nbLinks : α) = out.score ∧
      (∀ S, IsCouplingOf t1.length t2.length S → out.score ≤ costBack (weight (.nat (k+1))) 0 (Dmat sqrt dim t1 t2) S) := by
  obtain ⟨out, e, ec, hlow, _, hcost, _, hn1, _, _⟩ :=
    compare_correct sqrt root (fun n => (n : α)) big Mode.dtw (by decide) (.nat (k+1)) dim t1 t2 h1 h2
  have hw : weightOf (α := α) Mode.dtw (.nat (k+1)) = weight (.nat (k+1)) := by unfold weightOf; simp
  rw [hw] at hcost hlow
  refine ⟨out, _, e, ec, ?_, hlow⟩
  have hpos : (0 : α) < (out.nbLinks : α) := by exact_mod_cast (by omega : 0 < out.nbLinks)
  have hs : 0 ≤ out.score := by rw [← hcost]; exact costBack_nonneg sqrt hsqrt _ dim t1 t2 _
  have hv : cmpValue root (fun n => (n : α)) Mode.dtw (.nat (k+1)) out = root (k+1) (out.score / (out.nbLinks : α)) := by
    unfold cmpValue; simp
  rw [hv, hroot _ (div_nonneg hs (le_of_lt hpos))]
  exact div_mul_cancel₀ _ (ne_of_gt hpos)


end field


/-! ### the hypotheses are satisfiable; a concrete run of the model (the D14 witness, in dimension 1) -/

example : ∀ a b d : ℚ, a ≤ b → weight PNorm.two a d ≤ weight PNorm.two b d := fun a b d h => weight_mono _ a b d h

/-- tracks `0,1,0` and `1,0,1` (altitudes), `p = 1`: up and left tie below the diagonal at the last cell; the score is 2
and the returned coupling `(0,0) (1,0) (2,1) (2,2)` costs `1 + 0 + 0 + 1 = 2`. -/
example :
    (dtw (α := Int) id (weight PNorm.one) 1 [⟨0, 0, 0⟩, ⟨0, 0, 1⟩, ⟨0, 0, 0⟩] [⟨0, 0, 1⟩, ⟨0, 0, 0⟩, ⟨0, 0, 1⟩]).map
      (fun o => (o.score, o.S, o.rows.map (·.pair), o.nbLinks))
    = some (2, [(2, 2), (2, 1), (1, 0), (0, 0)], [[0, 1], [2], [2]], 4) := by decide

/-- same run, `diff` read back: observation 0 has partners `[0, 1]` and holds the distance to the last one (`|0 - 0|`), observations
1 and 2 have the single partner 2 (`|1 - 1|`, `|0 - 1|`), as `features_read_back` says -/
example :
    (dtw (α := Int) id (weight PNorm.one) 1 [⟨0, 0, 0⟩, ⟨0, 0, 1⟩, ⟨0, 0, 0⟩] [⟨0, 0, 1⟩, ⟨0, 0, 0⟩, ⟨0, 0, 1⟩]).map
      (fun o => (o.rows.map (·.diff), readBack o.rows))
    = some ([some 0, some 0, some 1], [(0, 0), (1, 0), (2, 1), (2, 2)]) := by decide

/-- the fast variant on the same input (`big = 1000`): same score 2, a different optimal coupling. -/
example :
    (fdtw (α := Int) id 1000 (weight PNorm.one) 1 [⟨0, 0, 0⟩, ⟨0, 0, 1⟩, ⟨0, 0, 0⟩] [⟨0, 0, 1⟩, ⟨0, 0, 0⟩, ⟨0, 0, 1⟩]).map
      (fun o => (o.score, o.rows.map (·.pair), o.nbLinks))
    = some (2, [[0], [0], [1, 2]], 4) := by decide +kernel

/-- `p = numpy.int32(2)` satisfies the hypotheses of `p2weight_number` / `match_any_form` -/
example : let p : PArg := { tyname := "<class'numpy.int32'>", val := some (.nat 2) }
    p.isFn = false ∧ p.isNum = true ∧ p.val = some (.nat 2) := by decide

/-- a session (altitudes, `dim = 1`): `m = match(t0, t1, DTW, p = numpy.int64(1))`, then `match(m, t2, FRECHET)` with the
already matched track as first argument, where `t0` itself carried features under the same names: the second call returns
the links of `t0` with `t2` only (`nb_links = 3`), as `session_history_irrelevant` says -/
example :
    (runSeq (α := Int) id (fun _ x => x) (fun n => (n : Int)) 1000
      [some { pts := [⟨0, 0, 0⟩, ⟨0, 0, 1⟩], rows := [{ diff := some 5, pair := [9, 0] }, { diff := some 5, pair := [9, 1] }] },
       some (TrackObj.fresh [⟨0, 0, 1⟩]), some (TrackObj.fresh [⟨0, 0, 2⟩, ⟨0, 0, 0⟩, ⟨0, 0, 3⟩])]
      [{ front := true, mode := 2, p := { tyname := "<class'numpy.int64'>", val := some (.nat 1) }, dim := 1, a := 0, b := 1 },
       { front := true, mode := 4, p := PArg.pyInt1, dim := 1, a := 3, b := 2 }]).map
      (fun r => match r with
        | .matched o => some (o.score, o.rows.map (·.pair), o.nbLinks)
        | _ => none)
    = [some (1, [[0], [0]], 2), some (2, [[0, 1], [2]], 3)] := by decide +kernel

/-- the hypothesis of `compare_mean_power` is satisfiable: for `p = 1` the root is the identity -/
example : ∀ x : ℚ, 0 ≤ x → npow ((fun (_ : Nat) (y : ℚ) => y) (0+1) x) (0+1) = x := fun _ _ => rfl

end TV.C18
