import TracklibVerif.Lemmas.DTWTable
import TracklibVerif.Lemmas.FDTW
import TracklibVerif.Lemmas.DTWFront
import Mathlib.Algebra.Order.Field.Basic
import Mathlib.Tactic.Ring
import Mathlib.Algebra.Order.Ring.Rat
/-! # C18 — time-warping cost is the optimal coupling cost and the matching realises it

Property theorems only (helpers: `Lemmas/DTW.lean`, `Lemmas/DTWTable.lean`). They are about the executable
model `TV.DTW.dtw` / `TV.DTW.matchTracks` of `Model/DTWTable.lean` — the table form that the driver runs and the
correspondence check compares with `tracklib.algo.comparison.match` — for **all** pairs of non-empty tracks,
all dimensions, and every accumulation `w` that is monotone in the accumulated cost (`A + B**p` and `max(A, B)` are).

Vocabulary: `S` is the list built by the backward step of `_dtw` (last pair first); `BackPath S` says that `S` is a
monotone coupling with unit steps that ends at `(0,0)`; `costBack w 0 D S` is its accumulated cost
`w(… w(w(0, D[0,0]), D[s₁]) …, D[last])`; `Dmat` is the code's distance matrix (`rows = track2`, `columns = track1`);
`partners S.reverse j` is the content of the `pair` feature of observation `j` of the output. -/
namespace TV.C18
open TV.DTW

section generic
variable {α : Type} [Add α] [Sub α] [Mul α] [LinearOrder α] [OfNat α 0]

/-- a coupling of the two tracks: a list of pairs (last pair first) from `(n2-1, n1-1)` down to `(0,0)` by unit steps -/
def IsCouplingOf (n1 n2 : Nat) (S : List (Nat × Nat)) : Prop :=
  BackPath S ∧ S.head? = some (n2 - 1, n1 - 1)

/-- T1 `table_optimal`: the score that `_dtw` reports (`T[-1,-1]`) is the minimum, over **all** monotone unit-step
couplings from the first pair to the last pair, of the accumulated cost: it is a lower bound of the cost of every
coupling, and some coupling attains it. Only monotonicity of `w` in the accumulated cost is used. -/
theorem table_optimal (sqrt : α → α) (w : α → α → α) (hw : ∀ a b d, a ≤ b → w a d ≤ w b d) (dim : Nat)
    (t1 t2 : List (Pt α)) (h1 : 0 < t1.length) (h2 : 0 < t2.length) :
    ∃ out, dtw sqrt w dim t1 t2 = some out ∧
      (∀ S, IsCouplingOf t1.length t2.length S → out.score ≤ costBack w 0 (Dmat sqrt dim t1 t2) S) ∧
      (∃ S, IsCouplingOf t1.length t2.length S ∧ costBack w 0 (Dmat sqrt dim t1 t2) S = out.score) := by
  obtain ⟨rows, he, _, _⟩ := dtw_spec sqrt w dim t1 t2 h1 h2
  refine ⟨_, he, ?_, ?_⟩
  · intro S hS
    exact T_le w 0 _ hw _ _ _ (backPath_coupling w 0 _ S _ _ hS.1 hS.2)
  · exact ⟨_, ⟨walkF_backPath w 0 _ (t1.length + t2.length) (t2.length - 1) (t1.length - 1) (by omega), walkF_head w 0 _ _ _⟩,
      walkF_cost w 0 _ (t1.length + t2.length) (t2.length - 1) (t1.length - 1) (by omega)⟩

/-- T2 `score_symmetric`: swapping the two tracks does not change the score (the lattice is transposed), provided the
point distance is symmetric (`distance_symm` below: it is, over an ordered field). -/
theorem score_symmetric (sqrt : α → α) (w : α → α → α) (dim : Nat)
    (hd : ∀ p q : Pt α, distance sqrt dim p q = distance sqrt dim q p)
    (t1 t2 : List (Pt α)) (h1 : 0 < t1.length) (h2 : 0 < t2.length) :
    ∃ o12 o21, dtw sqrt w dim t1 t2 = some o12 ∧ dtw sqrt w dim t2 t1 = some o21 ∧ o12.score = o21.score := by
  obtain ⟨r12, e12, _, _⟩ := dtw_spec sqrt w dim t1 t2 h1 h2
  obtain ⟨r21, e21, _, _⟩ := dtw_spec sqrt w dim t2 t1 h2 h1
  refine ⟨_, _, e12, e21, ?_⟩
  show T w 0 (Dmat sqrt dim t1 t2) (t2.length - 1) (t1.length - 1) = T w 0 (Dmat sqrt dim t2 t1) (t1.length - 1) (t2.length - 1)
  have hD : Dmat sqrt dim t2 t1 = fun a b => Dmat sqrt dim t1 t2 b a := by
    funext a b; unfold Dmat; exact hd _ _
  rw [hD, T_transpose w 0 (Dmat sqrt dim t1 t2) _ _ _ rfl]

/-- T3 `path_valid`: the list `S` produced by the backward walk through `M` is a monotone coupling with unit steps from
the last pair down to `(0,0)`; `nb_links` is its length; the `pair` feature of the output lists exactly its pairs
(`i ∈ pair[j] ↔ (i, j) ∈ S`); consequently every observation of track1 has at least one partner and every observation of
track2 is the partner of some observation of track1. -/
theorem path_valid (sqrt : α → α) (w : α → α → α) (dim : Nat)
    (t1 t2 : List (Pt α)) (h1 : 0 < t1.length) (h2 : 0 < t2.length) :
    ∃ out, dtw sqrt w dim t1 t2 = some out ∧
      IsCouplingOf t1.length t2.length out.S ∧
      out.nbLinks = out.S.length ∧ out.rows.length = t1.length ∧
      (∀ s ∈ out.S, s.1 < t2.length ∧ s.2 < t1.length) ∧
      (∀ j, j < t1.length → ∃ r : Row α, out.rows[j]? = some r ∧ (∀ i, i ∈ r.pair ↔ (i, j) ∈ out.S) ∧ r.pair ≠ []) ∧
      (∀ i, i < t2.length → ∃ (j : Nat) (r : Row α), out.rows[j]? = some r ∧ i ∈ r.pair) := by
  obtain ⟨rows, he, hl, hp⟩ := dtw_spec sqrt w dim t1 t2 h1 h2
  have hbp := walkF_backPath w 0 (Dmat sqrt dim t1 t2) (t1.length + t2.length) (t2.length - 1) (t1.length - 1) (by omega)
  have hhd := walkF_head w 0 (Dmat sqrt dim t1 t2) (t1.length + t2.length) (t2.length - 1, t1.length - 1)
  obtain ⟨r1, r2, r3⟩ := rows_pairs _ t1.length t2.length rows hbp hhd h1 h2 hl hp
  exact ⟨_, he, ⟨hbp, hhd⟩, rfl, hl, r1, r2, r3⟩

/-- T4 `path_realises`: the accumulated cost of the returned coupling equals the reported score. This is where the
predecessor encoding matters: each back-pointer designates a *minimal* predecessor (`T_pred`; false before 42f835b). -/
theorem path_realises (sqrt : α → α) (w : α → α → α) (dim : Nat)
    (t1 t2 : List (Pt α)) (h1 : 0 < t1.length) (h2 : 0 < t2.length) :
    ∃ out, dtw sqrt w dim t1 t2 = some out ∧ costBack w 0 (Dmat sqrt dim t1 t2) out.S = out.score := by
  obtain ⟨rows, he, _, _⟩ := dtw_spec sqrt w dim t1 t2 h1 h2
  exact ⟨_, he, walkF_cost w 0 _ (t1.length + t2.length) (t2.length - 1) (t1.length - 1) (by omega)⟩

/-- T5 `fdtw_equal`: the fast variant `_fdtw` (best-first search with `priority_dict`) reports the same score as
`_dtw`, for every accumulation that is monotone in the accumulated cost and inflationary on the distances at hand
(`a ≤ w a d`: true for `a + d^p` with `d ≥ 0` and for `max`), `big` (the 1e300 placeholder priority) being above every
candidate cost. The queue is only assumed to return *an* entry of least priority (ties between keys are irrelevant). -/
theorem fdtw_equal (sqrt : α → α) (big : α) (w : α → α → α) (dim : Nat) (t1 t2 : List (Pt α))
    (h1 : 0 < t1.length) (h2 : 0 < t2.length)
    (hw : ∀ a b d, a ≤ b → w a d ≤ w b d)
    (hinf : ∀ a i j, i < t2.length → j < t1.length → a ≤ w a (Dmat sqrt dim t1 t2 i j))
    (hbig : ∀ i j i' j', i < t2.length → j < t1.length → i' < t2.length → j' < t1.length →
      w (T w 0 (Dmat sqrt dim t1 t2) i j) (Dmat sqrt dim t1 t2 i' j') < big) :
    ∃ od ofast, dtw sqrt w dim t1 t2 = some od ∧ fdtw sqrt big w dim t1 t2 = some ofast ∧ ofast.score = od.score := by
  obtain ⟨rows, he, _, _⟩ := dtw_spec sqrt w dim t1 t2 h1 h2
  obtain ⟨S, rows', he', _⟩ := fdtw_spec sqrt big w dim t1 t2 h1 h2 hw hinf hbig
  exact ⟨_, _, he, he', rfl⟩

/-- T5b `fdtw_path`: the matching returned by the fast variant is also a monotone unit-step coupling from the last pair
to `(0,0)` (walk through the antecedent map `A`), its accumulated cost is the reported score, `nb_links` and the `pair`
feature describe it, and nobody is left out. -/
theorem fdtw_path (sqrt : α → α) (big : α) (w : α → α → α) (dim : Nat) (t1 t2 : List (Pt α))
    (h1 : 0 < t1.length) (h2 : 0 < t2.length)
    (hw : ∀ a b d, a ≤ b → w a d ≤ w b d)
    (hinf : ∀ a i j, i < t2.length → j < t1.length → a ≤ w a (Dmat sqrt dim t1 t2 i j))
    (hbig : ∀ i j i' j', i < t2.length → j < t1.length → i' < t2.length → j' < t1.length →
      w (T w 0 (Dmat sqrt dim t1 t2) i j) (Dmat sqrt dim t1 t2 i' j') < big) :
    ∃ out, fdtw sqrt big w dim t1 t2 = some out ∧
      IsCouplingOf t1.length t2.length out.S ∧
      costBack w 0 (Dmat sqrt dim t1 t2) out.S = out.score ∧
      out.nbLinks = out.S.length ∧ out.rows.length = t1.length ∧
      (∀ s ∈ out.S, s.1 < t2.length ∧ s.2 < t1.length) ∧
      (∀ j, j < t1.length → ∃ r : Row α, out.rows[j]? = some r ∧ (∀ i, i ∈ r.pair ↔ (i, j) ∈ out.S) ∧ r.pair ≠ []) ∧
      (∀ i, i < t2.length → ∃ (j : Nat) (r : Row α), out.rows[j]? = some r ∧ i ∈ r.pair) := by
  obtain ⟨S, rows, he, hbp, hhd, hcost, hl, hp⟩ := fdtw_spec sqrt big w dim t1 t2 h1 h2 hw hinf hbig
  obtain ⟨r1, r2, r3⟩ := rows_pairs S t1.length t2.length rows hbp hhd h1 h2 hl hp
  exact ⟨_, he, ⟨hbp, hhd⟩, hcost, rfl, hl, r1, r2, r3⟩

end generic

/-! ### the public entry point `match`, over an ordered field (`ℚ`, `ℝ`) -/
section field
variable {α : Type} [Field α] [LinearOrder α] [IsStrictOrderedRing α]

/-- `_p2weight(p)` is monotone in the accumulated cost for `p = 1, 2, inf` -/
theorem weight_mono (p : PNorm) (a b d : α) (h : a ≤ b) : weight p a d ≤ weight p b d := by
  cases p with
  | nat k => cases k <;> exact add_le_add h le_rfl
  | inf =>
    simp only [weight, pmax]
    by_cases h1 : a < d <;> by_cases h2 : b < d <;> simp only [h1, h2, if_true, if_false]
    · exact le_rfl
    · exact not_lt.mp h2
    · exact absurd (lt_of_le_of_lt h h2) h1
    · exact h

/-- `_distance` is symmetric (`abs`, and squares of coordinate differences) -/
theorem distance_symm (sqrt : α → α) (dim : Nat) (p q : Pt α) : distance sqrt dim p q = distance sqrt dim q p := by
  unfold distance
  by_cases h1 : dim = 1
  · simp only [h1, if_true]
    rcases lt_trichotomy (p.z - q.z) 0 with h | h | h
    · have h' : ¬ q.z - p.z < 0 := by
        have : q.z - p.z = -(p.z - q.z) := by ring
        rw [this]; exact not_lt.mpr (le_of_lt (neg_pos.mpr h))
      simp only [h, h', if_true, if_false]; ring
    · have h' : q.z - p.z = 0 := by
        have : q.z - p.z = -(p.z - q.z) := by ring
        rw [this, h]; simp
      simp [h, h']
    · have h' : q.z - p.z < 0 := by
        have : q.z - p.z = -(p.z - q.z) := by ring
        rw [this]; exact neg_neg_of_pos h
      have h'' : ¬ p.z - q.z < 0 := not_lt.mpr (le_of_lt h)
      simp only [h', h'', if_true, if_false]; ring
  · simp only [h1, if_false]
    by_cases h2 : dim = 2
    · simp only [h2, if_true]; congr 1; ring
    · simp only [h2, if_false]; congr 1; ring

/-- the accumulation that `match` uses in the modes DTW (`p`) and FRECHET (`inf`) -/
def weightOf (mode : Mode) (p : PNorm) : α → α → α := weight (if mode = Mode.frechet then PNorm.inf else p)

/-- **C18 for `match(track1, track2, mode = DTW | FRECHET, p, dim)`**, all at once, for every pair of non-empty tracks,
`p ∈ {1, 2, inf}`, `dim ∈ {1, 2, 3}`: the call succeeds; the reported score is a lower bound of the accumulated cost
(`Σ d^p`, or `max d` for `p = inf` / FRECHET) of every monotone unit-step coupling from the first to the last pair;
the returned `S` is such a coupling and its accumulated cost **is** the score; `nb_links` is its length and the `pair`
feature lists exactly its pairs, with no observation of either track left out; and `match(track2, track1)` reports
the same score. -/
theorem match_correct (sqrt : α → α) (big : α) (mode : Mode) (hm : mode ≠ Mode.fdtw) (p : PNorm) (dim : Nat)
    (t1 t2 : List (Pt α)) (h1 : 0 < t1.length) (h2 : 0 < t2.length) :
    ∃ out out', matchTracks sqrt big mode p dim t1 t2 = .ok out ∧ matchTracks sqrt big mode p dim t2 t1 = .ok out' ∧
      (∀ S, IsCouplingOf t1.length t2.length S → out.score ≤ costBack (weightOf mode p) 0 (Dmat sqrt dim t1 t2) S) ∧
      IsCouplingOf t1.length t2.length out.S ∧
      costBack (weightOf mode p) 0 (Dmat sqrt dim t1 t2) out.S = out.score ∧
      out.nbLinks = out.S.length ∧
      (∀ j, j < t1.length → ∃ r : Row α, out.rows[j]? = some r ∧ (∀ i, i ∈ r.pair ↔ (i, j) ∈ out.S) ∧ r.pair ≠ []) ∧
      (∀ i, i < t2.length → ∃ (j : Nat) (r : Row α), out.rows[j]? = some r ∧ i ∈ r.pair) ∧
      out'.score = out.score := by
  have hmt : ∀ (u v : List (Pt α)), 0 < u.length → ∀ o, dtw sqrt (weightOf mode p) dim u v = some o →
      matchTracks sqrt big mode p dim u v = .ok o := by
    intro u v hu o ho
    have hne : u.isEmpty = false := by cases u with | nil => simp at hu | cons _ _ => rfl
    rw [matchTracks_unfold]
    unfold weightOf at ho
    cases mode with
    | fdtw => exact absurd rfl hm
    | dtw => simp at ho; simp [hne, ho]
    | frechet => simp at ho; simp [hne, ho]
  have hw : ∀ a b d : α, a ≤ b → weightOf mode p a d ≤ weightOf mode p b d := fun a b d h => weight_mono _ a b d h
  obtain ⟨out, he, hlow, _⟩ := table_optimal sqrt (weightOf mode p) hw dim t1 t2 h1 h2
  obtain ⟨out2, he2, hcoup, hnb, _, _, hrows, hcov⟩ := path_valid sqrt (weightOf mode p) dim t1 t2 h1 h2
  obtain ⟨out3, he3, hcost⟩ := path_realises sqrt (weightOf mode p) dim t1 t2 h1 h2
  obtain ⟨o12, o21, e12, e21, hsym⟩ := score_symmetric sqrt (weightOf mode p) dim (distance_symm sqrt dim) t1 t2 h1 h2
  rw [he] at he2 he3 e12
  cases Option.some.inj he2
  cases Option.some.inj he3
  cases Option.some.inj e12
  exact ⟨out, o21, hmt t1 t2 h1 out he, hmt t2 t1 h2 o21 e21, hlow, hcoup, hcost, hnb, hrows, hcov, hsym.symm⟩

/-- `_distance` is non-negative when `sqrt` is -/
theorem distance_nonneg (sqrt : α → α) (hsqrt : ∀ x, 0 ≤ sqrt x) (dim : Nat) (p q : Pt α) :
    0 ≤ distance sqrt dim p q := by
  unfold distance
  by_cases h1 : dim = 1
  · simp only [h1, if_true]
    by_cases h : p.z - q.z < 0
    · simp only [h, if_true]
      have : (0 : α) - (p.z - q.z) = -(p.z - q.z) := by ring
      rw [this]; exact le_of_lt (neg_pos.mpr h)
    · simp only [h, if_false]; exact not_lt.mp h
  · simp only [h1, if_false]
    by_cases h2 : dim = 2
    · simp only [h2, if_true]; exact hsqrt _
    · simp only [h2, if_false]; exact hsqrt _

/-- `B**k ≥ 0` for `B ≥ 0` -/
theorem npow_nonneg (d : α) (hd : 0 ≤ d) : ∀ k, 0 ≤ npow d k
  | 0 => zero_le_one
  | 1 => hd
  | k+2 => mul_nonneg (npow_nonneg d hd (k+1)) hd

/-- `_p2weight(p)` is inflationary on non-negative distances -/
theorem weight_infl (p : PNorm) (a d : α) (hd : 0 ≤ d) : a ≤ weight p a d := by
  cases p with
  | nat k =>
    cases k with
    | zero =>
      simp only [weight]
      apply le_add_of_nonneg_right
      split
      · exact zero_le_one
      · exact le_rfl
    | succ k => exact le_add_of_nonneg_right (npow_nonneg d hd (k+1))
  | inf =>
    simp only [weight, pmax]
    by_cases h : a < d
    · simp only [h, if_true]; exact le_of_lt h
    · simp only [h, if_false]; exact le_rfl

/-- **C18 for the fast variant, `match(track1, track2, mode = FDTW, p, dim)`**: for every pair of non-empty tracks,
`p ∈ {1, 2, inf}`, `dim ∈ {1, 2, 3}`, a non-negative `sqrt`, and `big` (1e300 in the code) above every candidate cost:
the call succeeds and reports **the same score as `mode = DTW`**; the returned `S` is a monotone unit-step coupling
from the first to the last pair whose accumulated cost is that score; `nb_links` and the `pair` feature describe it and
no observation of either track is left out. -/
theorem match_fdtw_correct (sqrt : α → α) (hsqrt : ∀ x, 0 ≤ sqrt x) (big : α) (p : PNorm) (dim : Nat)
    (t1 t2 : List (Pt α)) (h1 : 0 < t1.length) (h2 : 0 < t2.length)
    (hbig : ∀ i j i' j', i < t2.length → j < t1.length → i' < t2.length → j' < t1.length →
      weight p (T (weight p) 0 (Dmat sqrt dim t1 t2) i j) (Dmat sqrt dim t1 t2 i' j') < big) :
    ∃ out outd, matchTracks sqrt big Mode.fdtw p dim t1 t2 = .ok out ∧ matchTracks sqrt big Mode.dtw p dim t1 t2 = .ok outd ∧
      out.score = outd.score ∧
      IsCouplingOf t1.length t2.length out.S ∧
      costBack (weight p) 0 (Dmat sqrt dim t1 t2) out.S = out.score ∧
      out.nbLinks = out.S.length ∧
      (∀ j, j < t1.length → ∃ r : Row α, out.rows[j]? = some r ∧ (∀ i, i ∈ r.pair ↔ (i, j) ∈ out.S) ∧ r.pair ≠ []) ∧
      (∀ i, i < t2.length → ∃ (j : Nat) (r : Row α), out.rows[j]? = some r ∧ i ∈ r.pair) := by
  have hw : ∀ a b d : α, a ≤ b → weight p a d ≤ weight p b d := fun a b d h => weight_mono p a b d h
  have hinf : ∀ (a : α) i j, i < t2.length → j < t1.length → a ≤ weight p a (Dmat sqrt dim t1 t2 i j) :=
    fun a i j _ _ => weight_infl p a _ (distance_nonneg sqrt hsqrt dim _ _)
  obtain ⟨od, ofast, e1, e2, hs⟩ := fdtw_equal sqrt big (weight p) dim t1 t2 h1 h2 hw hinf hbig
  obtain ⟨out, e3, hc, hcost, hnb, _, _, hr, hcov⟩ := fdtw_path sqrt big (weight p) dim t1 t2 h1 h2 hw hinf hbig
  rw [e2] at e3
  cases Option.some.inj e3
  have hne : t1.isEmpty = false := by cases t1 with | nil => simp at h1 | cons _ _ => rfl
  refine ⟨ofast, od, ?_, ?_, hs, hc, hcost, hnb, hr, hcov⟩
  · rw [matchTracks_unfold]; simp [hne, e2]
  · rw [matchTracks_unfold]; simp [hne, e1]

end field

/-! ### the hypotheses are satisfiable; a concrete run of the model (the D14 witness, in dimension 1) -/

example : ∀ a b d : ℚ, a ≤ b → weight PNorm.two a d ≤ weight PNorm.two b d := fun a b d h => weight_mono _ a b d h

/-- tracks `0,1,0` and `1,0,1` (altitudes), `p = 1`: up and left tie below the diagonal at the last cell; the score is 2
and the returned coupling `(0,0) (1,0) (2,1) (2,2)` costs `1 + 0 + 0 + 1 = 2`. -/
example :
    (dtw (α := Int) id (weight PNorm.one) 1 [⟨0, 0, 0⟩, ⟨0, 0, 1⟩, ⟨0, 0, 0⟩] [⟨0, 0, 1⟩, ⟨0, 0, 0⟩, ⟨0, 0, 1⟩]).map
      (fun o => (o.score, o.S, o.rows.map (·.pair), o.nbLinks))
    = some (2, [(2, 2), (2, 1), (1, 0), (0, 0)], [[0, 1], [2], [2]], 4) := by decide

/-- the fast variant on the same input (`big = 1000`): same score 2, a different optimal coupling. -/
example :
    (fdtw (α := Int) id 1000 (weight PNorm.one) 1 [⟨0, 0, 0⟩, ⟨0, 0, 1⟩, ⟨0, 0, 0⟩] [⟨0, 0, 1⟩, ⟨0, 0, 0⟩, ⟨0, 0, 1⟩]).map
      (fun o => (o.score, o.rows.map (·.pair), o.nbLinks))
    = some (2, [[0], [0], [1, 2]], 4) := by decide +kernel

end TV.C18
