import TracklibVerif.Lemmas.GraphTable
import TracklibVerif.Lemmas.GraphPD
import Mathlib.Algebra.Order.Group.Int
/-! # C06 — network shortest distances are the true minimum over permitted walks

Property theorems only (helper lemmas: `Lemmas/Graph.lean`, `Lemmas/GraphStop.lean`, `Lemmas/GraphTable.lean`).
The model (`Model/Graph.lean`) mirrors `Network.run_routing_forward` in Dijkstra mode and the API functions that
read its result. Weights live in any linearly ordered additive commutative monoid (`ℕ ℤ ℚ ℝ`, …) and are
non-negative (`WFNet`); there is no bound on the size of the network. `Walk net s v c` is a walk of arcs, each
traversed in a direction its orientation permits (`≥ 0`: source→target, `≤ 0`: target→source), of total
weight `c`; `IsDist net s v y` says `y` is the minimum of those weights; the sentinel `-1` is `none`. -/
namespace TV.C06
open TV.Graph
variable {W : Type} [AddCommMonoid W] [LinearOrder W] [IsOrderedAddMonoid W]

/-- T2 (`forward_invariant`): the loop invariants of appendix A.2 (source labelled 0; settled nodes' arcs relaxed;
every label is the weight of a walk; settled labels ≤ unsettled labels; settled nodes labelled; labels are of
real nodes and non-negative) are preserved by one iteration of `run_routing_forward`'s loop. -/
theorem forward_invariant (net : Net W) (hnet : WFNet net) (s : Nat) (st : St W) (hinv : Inv net s st)
    (u : Nat) (du : W) (hpop : popMinAux st net.n = some (u, du)) : Inv net s (settle net st u du) :=
  settle_inv net hnet s st hinv u du hpop

/-- T1 (`certificate_sound`): any labelling that satisfies the invariants and leaves nothing to pop (every labelled node
settled) is the distance function: every label is the minimum weight over permitted walks, and the unlabelled nodes
are exactly the unreachable ones. -/
theorem certificate_sound (net : Net W) (s : Nat) (st : St W) (hinv : Inv net s st) (hdone : step net st = none) :
    (∀ v y, st.d v = some y ↔ IsDist net s v y) ∧ (∀ v, st.d v = none ↔ ¬ Reachable net s v) := by
  obtain ⟨h1, h2⟩ := labels_are_distances net s st hinv hdone
  refine ⟨fun v y => ⟨fun h => ⟨h2 v y h, fun c hc => ?_⟩, fun ⟨hw, hmin⟩ => ?_⟩,
    unlabelled_iff_unreachable net s st hinv hdone⟩
  · obtain ⟨y', hy', hle⟩ := h1 v c hc
    rw [h] at hy'; cases hy'; exact hle
  · obtain ⟨y', hy', hle⟩ := h1 v y hw
    rw [hy']; congr 1; exact le_antisymm hle (hmin y' (h2 v y' hy'))

/-- T3: after `run_routing_forward(s)` (no target, no cut-off) the label of every node is the minimum total
weight over the permitted walks from `s`, and a node is unlabelled (`poids = -1`) exactly when no walk exists. -/
theorem forward_correct (net : Net W) (hnet : WFNet net) (s : Nat) (hs : s < net.n) :
    (∀ v y, (runForward net s none none).1.d v = some y ↔ IsDist net s v y) ∧
    (∀ v, (runForward net s none none).1.d v = none ↔ ¬ Reachable net s v) := by
  unfold runForward
  rw [forward_full]
  exact ⟨run_isDist net hnet s hs, run_none net hnet s hs⟩

/-- T4 (`target_stop`): `shortest_distance(s, t)` — the run that stops when `t` is popped — returns the
true distance, and the sentinel exactly when `t` is unreachable. -/
theorem shortest_distance_correct (net : Net W) (hnet : WFNet net) (s t : Nat) (hs : s < net.n) :
    (∀ y, shortestDistance net s t none = some y ↔ IsDist net s t y) ∧
    (shortestDistance net s t none = none ↔ ¬ Reachable net s t) :=
  shortestDistance_spec net hnet s t hs

/-- T4 with a cut-off: `shortest_distance(s, t, cut)` returns the true distance whenever that distance does not
exceed the cut-off, and the sentinel whenever `t` is unreachable. (When the distance exceeds the cut-off the
code may return a tentative label; the property does not speak about that case.) -/
theorem shortest_distance_cut (net : Net W) (hnet : WFNet net) (s t : Nat) (hs : s < net.n) (cut : Option W) :
    (∀ y, IsDist net s t y → Within cut y → shortestDistance net s t cut = some y) ∧
    (¬ Reachable net s t → shortestDistance net s t cut = none) := by
  constructor
  · intro y hy hw
    unfold shortestDistance runForward
    exact forward_label net hnet s t cut y hw net.n _ _ (inv_init net s hs) ((run_isDist net hnet s hs t y).2 hy)
  · intro hn
    unfold shortestDistance runForward
    have hinv := forward_inv net hnet s (some t) cut net.n (St.init s) [] (inv_init net s hs)
    cases hd : (forward net (some t) cut net.n (St.init s) []).1.d t with
    | none => rfl
    | some y => exact absurd ⟨y, hinv.j3 t y hd⟩ hn

/-- the list form `shortest_distance(s)`: one value per node in insertion order, the distance or `none`
(rendered `1e300`) for an unreachable node. -/
theorem shortest_distance_list_correct (net : Net W) (hnet : WFNet net) (order : List Nat) (s : Nat) (hs : s < net.n) :
    ∃ d : Nat → Option W, shortestDistanceList net order s none = order.map d ∧
      (∀ v y, d v = some y ↔ IsDist net s v y) ∧ (∀ v, d v = none ↔ ¬ Reachable net s v) :=
  ⟨_, rfl, (forward_correct net hnet s hs).1, (forward_correct net hnet s hs).2⟩

/-- T5, one source: the entries written to `output_dict` by `run_routing_forward(s, cut=cut)` are exactly the
nodes whose true distance from `s` does not exceed the cut-off, each with its true distance. -/
theorem cutoff_entries (net : Net W) (hnet : WFNet net) (s : Nat) (hs : s < net.n) (cut : Option W) (v : Nat) (y : W) :
    (v, y) ∈ (runForward net s none cut).2 ↔ (IsDist net s v y ∧ Within cut y) := by
  unfold runForward
  rw [forward_out net hnet s cut net.n (St.init s) [] (inv_init net s hs) (cnt_le _ _)
    (by intro u y; simp [St.init]) (by intro u y h; simp [St.init] at h)]
  rw [run_isDist net hnet s hs]

/-- T5 (`cutoff_table`): the table returned by `all_shortest_distances(cut)` holds, for the key `(s, v)`, the
value `y` exactly when `s` is a node, `y` is the true distance from `s` to `v`, and `y` does not exceed the cut-off. -/
theorem cutoff_table (net : Net W) (hnet : WFNet net) (order : List Nat) (horder : ∀ s ∈ order, s < net.n)
    (cut : Option W) (s v : Nat) (y : W) :
    allShortestDistances net order cut Table.empty (s, v) = some y ↔ (s ∈ order ∧ IsDist net s v y ∧ Within cut y) := by
  unfold allShortestDistances
  constructor
  · intro h
    rcases fold_record_sound (fun s => (runForward net s none cut).2) order Table.empty s v y h with ⟨a, b⟩ | h'
    · exact ⟨a, (cutoff_entries net hnet s (horder s a) cut v y).1 b⟩
    · simp [Table.empty] at h'
  · rintro ⟨hs, hd, hw⟩
    obtain ⟨y', h1, h2⟩ := fold_record_complete (fun s => (runForward net s none cut).2) s v (fun z => z = y)
      (fun z hz => ((cutoff_entries net hnet s (horder s hs) cut v z).1 hz).1.unique hd) order Table.empty hs y
      ((cutoff_entries net hnet s (horder s hs) cut v y).2 ⟨hd, hw⟩)
    rw [h1, h2]

/-- `prepare(cut)` followed by `prepared_shortest_distance(s, v)`; and a second `prepare(cut2)` on the same
`DISTANCES`: the stored value is the true distance exactly for the pairs within one of the two cut-offs. -/
theorem prepared_correct (net : Net W) (hnet : WFNet net) (order : List Nat) (horder : ∀ s ∈ order, s < net.n)
    (cut : Option W) (s v : Nat) (y : W) :
    preparedShortestDistance (prepare net order cut none) s v = some y ↔ (s ∈ order ∧ IsDist net s v y ∧ Within cut y) :=
  cutoff_table net hnet order horder cut s v y

theorem prepared_twice_correct (net : Net W) (hnet : WFNet net) (order : List Nat) (horder : ∀ s ∈ order, s < net.n)
    (cut1 cut2 : Option W) (s v : Nat) (y : W) :
    preparedShortestDistance (prepare net order cut2 (some (prepare net order cut1 none))) s v = some y ↔
      (s ∈ order ∧ IsDist net s v y ∧ (Within cut1 y ∨ Within cut2 y)) := by
  unfold preparedShortestDistance
  simp only [prepare, Option.getD_some, Option.getD_none]
  constructor
  · intro h
    unfold allShortestDistances at h
    rcases fold_record_sound (fun s => (runForward net s none cut2).2) order _ s v y h with ⟨a, b⟩ | h'
    · obtain ⟨c, d⟩ := (cutoff_entries net hnet s (horder s a) cut2 v y).1 b
      exact ⟨a, c, Or.inr d⟩
    · obtain ⟨a, c, d⟩ := (cutoff_table net hnet order horder cut1 s v y).1 h'
      exact ⟨a, c, Or.inl d⟩
  · rintro ⟨hs, hd, hw⟩
    have hA : ∀ z, (v, z) ∈ (runForward net s none cut2).2 → z = y :=
      fun z hz => ((cutoff_entries net hnet s (horder s hs) cut2 v z).1 hz).1.unique hd
    rcases hw with hw | hw
    · obtain ⟨y', h1, h2⟩ := fold_record_good (fun s => (runForward net s none cut2).2) s v (fun z => z = y) hA order
        (allShortestDistances net order cut1 Table.empty)
        ⟨y, (cutoff_table net hnet order horder cut1 s v y).2 ⟨hs, hd, hw⟩, rfl⟩
      unfold allShortestDistances at h1 ⊢
      rw [h1, h2]
    · obtain ⟨y', h1, h2⟩ := fold_record_complete (fun s => (runForward net s none cut2).2) s v (fun z => z = y) hA order
        (allShortestDistances net order cut1 Table.empty) hs y
        ((cutoff_entries net hnet s (horder s hs) cut2 v y).2 ⟨hd, hw⟩)
      unfold allShortestDistances at h1 ⊢
      rw [h1, h2]

/-! ### the queue: `priority_dict` with lazy deletion (`Model/PDict.lean`) -/

/-- [stretch] `priority_dict.pop_smallest`: when every current entry of the dict has its `(priority, key)` tuple in the
heap (`HInv`; established by the constructor, kept by `__setitem__` — `priority_dict_setitem` — and by `pop_smallest`),
a pop on a non-empty dict returns the key whose `(priority, key)` tuple is the smallest among the *current* entries,
however many stale tuples the heap still holds, removes exactly that key, and keeps `HInv`. (`heappop` is taken to
remove a smallest tuple of the heap list; `heapq`'s sift operations are not modelled.) -/
theorem pop_smallest_min (pd : PDict.PD W) (hinv : PDict.HInv pd) (k0 : Nat) (v0 : W)
    (h0 : PDict.lookup pd.dict k0 = some v0) :
    ∃ k v pd', PDict.popSmallest pd = some (k, pd') ∧ PDict.lookup pd.dict k = some v ∧
      (∀ k' v', PDict.lookup pd.dict k' = some v' → PDict.tle (v, k) (v', k')) ∧
      (∀ k', PDict.lookup pd'.dict k' = if k' = k then none else PDict.lookup pd.dict k') ∧ PDict.HInv pd' :=
  PDict.popSmallest_spec pd hinv k0 v0 h0

/-- `pd[k] = v` (heap push, or rebuild once the heap has reached twice the size of the dict) sets that entry only and
keeps the heap invariant; `priority_dict(d)` establishes it. -/
theorem priority_dict_setitem (pd : PDict.PD W) (hinv : PDict.HInv pd) (k : Nat) (v : W) :
    (∀ k', PDict.lookup (PDict.setitem pd k v).dict k' = if k' = k then some v else PDict.lookup pd.dict k') ∧
      PDict.HInv (PDict.setitem pd k v) ∧ ∀ d : List (Nat × W), PDict.HInv (PDict.ofDict d) :=
  ⟨(PDict.setitem_spec pd hinv k v).1, (PDict.setitem_spec pd hinv k v).2, PDict.ofDict_inv⟩

/-- `run_routing_forward` written with the explicit `priority_dict` (`fil = priority_dict({source: 0})`,
`pere = fil.pop_smallest()`, `fil[fils] = fils.poids`, `while len(fil) != 0`) computes exactly what the loop with the
abstract "pop the labelled unsettled node with the smallest (label, id)" computes — so all theorems above hold for it. -/
theorem forward_uses_priority_dict (net : Net W) (hnet : WFNet net) (s : Nat) (hs : s < net.n)
    (tgt : Option Nat) (cut : Option W) : runForwardPD net s tgt cut = runForward net s tgt cut :=
  runForwardPD_eq net hnet s hs tgt cut

/-! ### the hypotheses are satisfiable by a non-trivial network, and the model computes on it -/

/-- 3 nodes; a zero-weight two-way edge 0–1, an edge stored 2→1 that may only be travelled 1→2
(orientation −1), a heavier parallel edge 1→2, a self-loop. -/
def demo : Net Int :=
  { n := 3, edges := [⟨0, 0, 1, 0, 0⟩, ⟨1, 2, 1, 1, -1⟩, ⟨2, 1, 2, 5, 1⟩, ⟨3, 2, 2, 1, 0⟩] }

example : WFNet demo := by
  intro e he
  simp only [demo, List.mem_cons, List.not_mem_nil, or_false] at he
  rcases he with rfl | rfl | rfl | rfl <;> simp [demo]
example : shortestDistance demo 0 2 none = some 1 := by decide +kernel
example : shortestDistance demo 2 0 none = none := by decide +kernel
/-- beyond the cut-off the code returns a tentative label (outside the property's statement) -/
example : shortestDistance demo 0 2 (some 0) = some 1 := by decide +kernel
example : (runForward demo 0 none (some 0)).2 = [(0, 0), (1, 0)] := by decide +kernel
example : (runForwardPD demo 0 none (some 0)).2 = [(0, 0), (1, 0)] := by decide +kernel
/-- a stale heap entry (key 1 was lowered from 5 to 0) is skipped; ties on the priority go to the smaller key -/
example : (PDict.popSmallest (PDict.setitem (PDict.ofDict [(1, (5 : Int)), (2, 0)]) 1 0)).map (·.1) = some 1 := by decide +kernel

end TV.C06
