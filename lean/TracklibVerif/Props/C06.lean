import TracklibVerif.Lemmas.GraphTable
import TracklibVerif.Lemmas.GraphPD
import TracklibVerif.Lemmas.GraphSessionQ
import TracklibVerif.Lemmas.GraphR4
import TracklibVerif.Lemmas.GraphWorld
import TracklibVerif.Lemmas.GraphWorldQ
import TracklibVerif.Lemmas.GraphAStarFix
import TracklibVerif.Lemmas.GraphShared
import TracklibVerif.Lemmas.GraphMetric
import Mathlib.Algebra.Order.Group.Int
/-! # C06 — network shortest distances are the true minimum over permitted walks

Property theorems only (helper lemmas: `Lemmas/Graph.lean`, `Lemmas/GraphStop.lean`, `Lemmas/GraphTable.lean`,
`Lemmas/GraphSession.lean`, `Lemmas/GraphSessionQ.lean`, `Lemmas/PDict.lean`, `Lemmas/Heapq.lean`, `Lemmas/GraphPD.lean`,
`Lemmas/GraphAStar.lean`, `Lemmas/GraphAStarFix.lean`, `Lemmas/GraphMetric.lean`, `Lemmas/GraphWorld.lean`, `Lemmas/GraphShared.lean`).
The model (`Model/Graph.lean`) mirrors `Network.run_routing_forward` in Dijkstra mode and the API functions that
read its result; `Model/GraphAStar.lean` adds the routing-method API (`setRoutingMethod`, `setAStarWeight`, the A* branch
as it is after fix c78e3ab — label `g`, queue priority `g + h` —, several `Network` objects with their own settings) — see
the section "the routing-method API" below for which configurations the statement holds in; `Model/GraphShared.lean` has several `Network` objects that hold the **same
`Node` objects** (what `sub_network` returns; networks filled from one pool of nodes), i.e. one common store of routing
flags of which every search resets its own network's part only — section "networks that share their `Node` objects".
Weights live in any linearly ordered additive commutative monoid (`ℕ ℤ ℚ ℝ`, …) and are
non-negative (`WFNet`); there is no bound on the size of the network. `Walk net s v c` is a walk of arcs, each
traversed in a direction its orientation permits (`≥ 0`: source→target, `≤ 0`: target→source), of total
weight `c`; `IsDist net s v y` says `y` is the minimum of those weights; the sentinel `-1` is `none`.

**Weights, and float weights.** The theorems are stated for any `W` with a linear order, a `0` and a `+` such that
`0 ≤ w → a ≤ a + w` and `a ≤ b → a + w ≤ b + w` (class `WalkAdd`, `Lemmas/Graph.lean`). Nothing else is used — no
associativity, commutativity, cancellation, not even `a + 0 = a` — because the code and `Walk` both add the weights of a
walk from the source outwards (`((0 + w₁) + w₂) + …`). Every linearly ordered additive commutative (in particular every
cancellative) monoid is an instance (`instWalkAddOfMonoid`: `ℕ ℤ ℚ ℝ` …). IEEE-754 round-to-nearest addition on the
non-NaN doubles also has the two properties (rounding is monotone), so for float weights the code computes the minimum
over walks of the *left-to-right rounded* sum — that is what the theorems say at such an instance. What IEEE addition
lacks is associativity (and cancellation): that minimum need not be the rounding of the exact minimum, need not be
attained by the exactly-shortest walk, and `dist s t` need not equal `dist t s` in a symmetric network; `R4` at the
end of this file is a small non-associative instance on which the theorems apply. Lean's `Float` is opaque, so the
instance for doubles is not constructed; the float stream of the harness compares with exact rational distances at
1e-9 relative. NaN and negative weights are outside the property. -/
namespace TV.C06
open TV.Graph
variable {W : Type} [LinearOrder W] [Add W] [Zero W] [WalkAdd W]

/-- T2 (`forward_invariant`): the loop invariants of appendix A.2 (source labelled 0; settled nodes' arcs relaxed;
every label is the weight of a walk; settled labels ≤ unsettled labels; settled nodes labelled; labels are of
real nodes and non-negative) are preserved by one iteration of `run_routing_forward`'s loop. -/
theorem forward_invariant (net : Net W) (hnet : WFNet net) (s : Nat) (st : St W) (hinv : Inv net s st)
    (u : Nat) (du : W) (hpop : popMinAux st net.n = some (u, du)) : Inv net s (settle net st u du) :=
  settle_inv net hnet s st hinv u du hpop

/-- T1 (`certificate_sound`): any labelling that satisfies the invariants and leaves nothing to pop (every labelled node
settled) is the distance function: every label is the minimum weight over permitted walks, and the unlabelled nodes
are exactly the unreachable ones. -/
theorem certificate_sound (net : Net W) (s : Nat) (st : St W) (hinv : Inv net s st) (hdone : step net st = none) :
    (∀ v y, st.d v = some y ↔ IsDist net s v y) ∧ (∀ v, st.d v = none ↔ ¬ Reachable net s v) := by
  obtain ⟨h1, h2⟩ := labels_are_distances net s st hinv hdone
  refine ⟨fun v y => ⟨fun h => ⟨h2 v y h, fun c hc => ?_⟩, fun ⟨hw, hmin⟩ => ?_⟩,
    unlabelled_iff_unreachable net s st hinv hdone⟩
  · obtain ⟨y', hy', hle⟩ := h1 v c hc
    rw [h] at hy'; cases hy'; exact hle
  · obtain ⟨y', hy', hle⟩ := h1 v y hw
    rw [hy']; congr 1; exact le_antisymm hle (hmin y' (h2 v y' hy'))

/-- T3: after `run_routing_forward(s)` (no target, no cut-off) the label of every node is the minimum total
weight over the permitted walks from `s`, and a node is unlabelled (`poids = -1`) exactly when no walk exists. -/
theorem forward_correct (net : Net W) (hnet : WFNet net) (s : Nat) (hs : s < net.n) :
    (∀ v y, (runForward net s none none).1.d v = some y ↔ IsDist net s v y) ∧
    (∀ v, (runForward net s none none).1.d v = none ↔ ¬ Reachable net s v) := by
  unfold runForward
  rw [forward_full]
  exact ⟨run_isDist net hnet s hs, run_none net hnet s hs⟩

/-- T4 (`target_stop`): `shortest_distance(s, t)` — the run that stops when `t` is popped — returns the
true distance, and the sentinel exactly when `t` is unreachable. -/
theorem shortest_distance_correct (net : Net W) (hnet : WFNet net) (s t : Nat) (hs : s < net.n) :
    (∀ y, shortestDistance net s t none = some y ↔ IsDist net s t y) ∧
    (shortestDistance net s t none = none ↔ ¬ Reachable net s t) :=
  shortestDistance_spec net hnet s t hs

/-- T4 with a cut-off: `shortest_distance(s, t, cut)` returns the true distance whenever that distance does not
exceed the cut-off, and the sentinel whenever `t` is unreachable. (When the distance exceeds the cut-off the
code may return a tentative label; the property does not speak about that case.) -/
theorem shortest_distance_cut (net : Net W) (hnet : WFNet net) (s t : Nat) (hs : s < net.n) (cut : Option W) :
    (∀ y, IsDist net s t y → Within cut y → shortestDistance net s t cut = some y) ∧
    (¬ Reachable net s t → shortestDistance net s t cut = none) := by
  constructor
  · intro y hy hw
    unfold shortestDistance runForward
    exact forward_label net hnet s t cut y hw net.n _ _ (inv_init net s hs) ((run_isDist net hnet s hs t y).2 hy)
  · intro hn
    unfold shortestDistance runForward
    have hinv := forward_inv net hnet s (some t) cut net.n (St.init s) [] (inv_init net s hs)
    cases hd : (forward net (some t) cut net.n (St.init s) []).1.d t with
    | none => rfl
    | some y => exact absurd ⟨y, hinv.j3 t y hd⟩ hn

/-- the list form `shortest_distance(s)`: one value per node in insertion order, the distance or `none`
(rendered `1e300`) for an unreachable node. -/
theorem shortest_distance_list_correct (net : Net W) (hnet : WFNet net) (order : List Nat) (s : Nat) (hs : s < net.n) :
    ∃ d : Nat → Option W, shortestDistanceList net order s none = order.map d ∧
      (∀ v y, d v = some y ↔ IsDist net s v y) ∧ (∀ v, d v = none ↔ ¬ Reachable net s v) :=
  ⟨_, rfl, (forward_correct net hnet s hs).1, (forward_correct net hnet s hs).2⟩

/-- T5, one source: the entries written to `output_dict` by `run_routing_forward(s, cut=cut)` are exactly the
nodes whose true distance from `s` does not exceed the cut-off, each with its true distance. -/
theorem cutoff_entries (net : Net W) (hnet : WFNet net) (s : Nat) (hs : s < net.n) (cut : Option W) (v : Nat) (y : W) :
    (v, y) ∈ (runForward net s none cut).2 ↔ (IsDist net s v y ∧ Within cut y) := by
  unfold runForward
  rw [forward_out net hnet s cut net.n (St.init s) [] (inv_init net s hs) (cnt_le _ _)
    (by intro u y; simp [St.init]) (by intro u y h; simp [St.init] at h)]
  rw [run_isDist net hnet s hs]

/-- T5 (`cutoff_table`): the table returned by `all_shortest_distances(cut)` holds, for the key `(s, v)`, the
value `y` exactly when `s` is a node, `y` is the true distance from `s` to `v`, and `y` does not exceed the cut-off. -/
theorem cutoff_table (net : Net W) (hnet : WFNet net) (order : List Nat) (horder : ∀ s ∈ order, s < net.n)
    (cut : Option W) (s v : Nat) (y : W) :
    allShortestDistances net order cut Table.empty (s, v) = some y ↔ (s ∈ order ∧ IsDist net s v y ∧ Within cut y) := by
  unfold allShortestDistances
  constructor
  · intro h
    rcases fold_record_sound (fun s => (runForward net s none cut).2) order Table.empty s v y h with ⟨a, b⟩ | h'
    · exact ⟨a, (cutoff_entries net hnet s (horder s a) cut v y).1 b⟩
    · simp [Table.empty] at h'
  · rintro ⟨hs, hd, hw⟩
    obtain ⟨y', h1, h2⟩ := fold_record_complete (fun s => (runForward net s none cut).2) s v (fun z => z = y)
      (fun z hz => ((cutoff_entries net hnet s (horder s hs) cut v z).1 hz).1.unique hd) order Table.empty hs y
      ((cutoff_entries net hnet s (horder s hs) cut v y).2 ⟨hd, hw⟩)
    rw [h1, h2]

/-- `prepare(cut)` followed by `prepared_shortest_distance(s, v)`; and a second `prepare(cut2)` on the same
`DISTANCES`: the stored value is the true distance exactly for the pairs within one of the two cut-offs. -/
theorem prepared_correct (net : Net W) (hnet : WFNet net) (order : List Nat) (horder : ∀ s ∈ order, s < net.n)
    (cut : Option W) (s v : Nat) (y : W) :
    preparedShortestDistance (prepare net order cut none) s v = some y ↔ (s ∈ order ∧ IsDist net s v y ∧ Within cut y) :=
  cutoff_table net hnet order horder cut s v y

theorem prepared_twice_correct (net : Net W) (hnet : WFNet net) (order : List Nat) (horder : ∀ s ∈ order, s < net.n)
    (cut1 cut2 : Option W) (s v : Nat) (y : W) :
    preparedShortestDistance (prepare net order cut2 (some (prepare net order cut1 none))) s v = some y ↔
      (s ∈ order ∧ IsDist net s v y ∧ (Within cut1 y ∨ Within cut2 y)) := by
  unfold preparedShortestDistance
  simp only [prepare, Option.getD_some, Option.getD_none]
  constructor
  · intro h
    unfold allShortestDistances at h
    rcases fold_record_sound (fun s => (runForward net s none cut2).2) order _ s v y h with ⟨a, b⟩ | h'
    · obtain ⟨c, d⟩ := (cutoff_entries net hnet s (horder s a) cut2 v y).1 b
      exact ⟨a, c, Or.inr d⟩
    · obtain ⟨a, c, d⟩ := (cutoff_table net hnet order horder cut1 s v y).1 h'
      exact ⟨a, c, Or.inl d⟩
  · rintro ⟨hs, hd, hw⟩
    have hA : ∀ z, (v, z) ∈ (runForward net s none cut2).2 → z = y :=
      fun z hz => ((cutoff_entries net hnet s (horder s hs) cut2 v z).1 hz).1.unique hd
    rcases hw with hw | hw
    · obtain ⟨y', h1, h2⟩ := fold_record_good (fun s => (runForward net s none cut2).2) s v (fun z => z = y) hA order
        (allShortestDistances net order cut1 Table.empty)
        ⟨y, (cutoff_table net hnet order horder cut1 s v y).2 ⟨hs, hd, hw⟩, rfl⟩
      unfold allShortestDistances at h1 ⊢
      rw [h1, h2]
    · obtain ⟨y', h1, h2⟩ := fold_record_complete (fun s => (runForward net s none cut2).2) s v (fun z => z = y) hA order
        (allShortestDistances net order cut1 Table.empty) hs y
        ((cutoff_entries net hnet s (horder s hs) cut2 v y).2 ⟨hd, hw⟩)
      unfold allShortestDistances at h1 ⊢
      rw [h1, h2]

/-- T4 with a cut-off, the other direction: whatever `shortest_distance(s, t, cut)` returns is the weight of a permitted
walk (so never below the true distance), and it returns the sentinel only when no walk within the cut-off exists. -/
theorem shortest_distance_cut_sound (net : Net W) (hnet : WFNet net) (s t : Nat) (hs : s < net.n) (cut : Option W) :
    (∀ y, shortestDistance net s t cut = some y → Walk net s t y) ∧
    (shortestDistance net s t cut = none → ∀ y, IsDist net s t y → ¬ Within cut y) := by
  constructor
  · intro y h
    exact (forward_inv net hnet s (some t) cut net.n (St.init s) [] (inv_init net s hs)).j3 t y h
  · intro h y hy hw
    rw [(shortest_distance_cut net hnet s t hs cut).1 y hy hw] at h
    cases h

/-- orientation semantics, model = statement: the edges `addEdge` lists in `NEXT_EDGES[u]`, read with the loop's
"other end" rule (`fils = e.target; if fils == pere: fils = e.source`), are exactly the permitted arcs out of `u`:
an edge of orientation `≥ 0` from its source to its target, an edge of orientation `≤ 0` from its target to its
source (two-way edges both ways, self-loops included). -/
theorem next_edges_exactly_permitted_arcs (net : Net W) (u v : Nat) (w : W) :
    (∃ e ∈ net.edges, e.w = w ∧ ((0 ≤ e.ori ∧ e.src = u ∧ e.tgt = v) ∨ (e.ori ≤ 0 ∧ e.tgt = u ∧ e.src = v))) ↔
      ∃ e ∈ nextEdges net u, other e u = v ∧ e.w = w :=
  arc_iff_next net u v w

/-- every entry `run_routing_forward` writes to `output_dict`, with any target and any cut-off (so also through
`shortest_distance(s, t, cut, output_dict)`), is the true distance of its key and does not exceed the cut-off; the
entries are exactly the nodes the search marked `visite`. -/
theorem output_dict_entries_sound (net : Net W) (hnet : WFNet net) (s : Nat) (hs : s < net.n) (tgt : Option Nat)
    (cut : Option W) :
    (∀ u y, (u, y) ∈ (runForward net s tgt cut).2 → IsDist net s u y ∧ Within cut y) ∧
    (∀ u, (runForward net s tgt cut).1.vis u = true ↔ ∃ y, (u, y) ∈ (runForward net s tgt cut).2) :=
  runForward_entries net hnet s hs tgt cut

/-- `all_shortest_distances(cut, output_dict)` / `prepare(cut)` on a dictionary that already holds entries (from
earlier calls with other cut-offs, `load_prep`, …): afterwards the key `(s, v)` holds `y` iff either `s` is a node and
`y` is the true distance `s → v` and within the cut-off (written or overwritten), or the key is not within the cut-off
and held `y` before. Generalises `prepared_twice_correct` to any number of calls. -/
theorem dictionary_accumulates (net : Net W) (hnet : WFNet net) (order : List Nat) (horder : ∀ s ∈ order, s < net.n)
    (cut : Option W) (tb : Table W) (s v : Nat) (y : W) :
    allShortestDistances net order cut tb (s, v) = some y ↔
      ((s ∈ order ∧ IsDist net s v y ∧ Within cut y) ∨
       (tb (s, v) = some y ∧ ¬ (s ∈ order ∧ ∃ y', IsDist net s v y' ∧ Within cut y'))) :=
  allShortestDistances_acc net hnet order horder cut tb s v y

/-- `sub_network(s, cut, "TOPOLOGIC")` returns exactly the edges whose two end nodes are within the cut-off of `s`
(it keeps the edges with both ends `visite` after `run_routing_forward(s, cut=cut)`). -/
theorem sub_network_edges (net : Net W) (hnet : WFNet net) (s : Nat) (hs : s < net.n) (cut : Option W) (e : Edge W) :
    e ∈ subEdges net (runForward net s none cut).1 ↔
      (e ∈ net.edges ∧ (∃ y, IsDist net s e.src y ∧ Within cut y) ∧ (∃ y, IsDist net s e.tgt y ∧ Within cut y)) :=
  subEdges_spec net hnet s hs cut e

/-! ### one `Network` object used for a sequence of calls (`Model/GraphSession.lean`) -/

/-- the reset of the routing flags: whatever `poids` / `visite` / `antecedent` the earlier searches on this network left
on the nodes of `NODES` (no flag outside `NODES`: `CleanOutside`, part of the session invariant), `__resetFlags` followed by
`source.poids = 0` yields the initial labelling of a fresh search. When another network holds the same `Node` objects
(as `sub_network` produces) there *are* flags outside `NODES`: that case is `shared_nodes_search_pure` below. -/
theorem search_starts_clean (order : List Nat) (st : St W) (s : Nat) (h : CleanOutside order st) :
    startFlags order st s = St.init s :=
  start_clean order st s h

/-- invariant over operation sequences: after any sequence of calls (`addNode`, `addEdge`, searches of every form,
`all_shortest_distances`, `prepare`, `sub_network`, in any interleaving) on a new `Network`, the object satisfies the
session invariant (non-negative weights, edges between nodes of `NODES`, no flags outside `NODES`). -/
theorem session_invariant (n : Nat) (ops : List (Op W)) : SessOK (stateAfter (Sess.new n : Sess W) ops) :=
  stateAfter_ok _ (new_ok n) ops

/-- … hence every search of a session starts from the clean labelling and answers as a search on a fresh object:
each call returns the pure function of `Model/Graph.lean` applied to the graph *as it is at that moment*, so the
theorems above apply to it. -/
theorem session_answers_pure (n : Nat) (ops : List (Op W)) (s t : Nat) (cut : Option W) (ud : Bool) :
    let σ := stateAfter (Sess.new n : Sess W) ops
    s ∈ σ.order → t ∈ σ.order →
      (exec σ (.dist s t cut ud)).2 = .val (shortestDistance σ.net s t cut) ∧
      (exec σ (.distList s cut ud)).2 = .vals (shortestDistanceList σ.net σ.order s cut) ∧
      (exec σ (.route s (some t) cut ud)).2 =
        .flags (σ.order.map (runForward σ.net s (some t) cut).1.d) (σ.order.map (runForward σ.net s (some t) cut).1.vis) ∧
      (exec σ (.all cut false)).2 = .table (allShortestDistances σ.net σ.order cut Table.empty) ∧
      (exec σ (.prepare cut)).1.prep = some (prepare σ.net σ.order cut σ.prep) := by
  intro σ hs ht
  have h := session_invariant n ops
  exact ⟨(exec_dist_eq σ h s t hs ht cut ud).1, (exec_distList_eq σ h s hs cut ud).1,
    (exec_route_eq σ h s hs (some t) (fun _ e => by cases e; exact ht) cut ud).1,
    (exec_all_eq σ h cut false).1, (exec_prepare_eq σ h cut).1⟩

/-- the property for sessions: in any state reached by any sequence of calls, `shortest_distance(s, t)` is the
minimum weight over the permitted walks of the current graph, the sentinel iff there is none; with a cut-off it is
the true distance whenever that is within the cut-off. -/
theorem session_distance_correct (n : Nat) (ops : List (Op W)) (s t : Nat) (cut : Option W) (ud : Bool) :
    let σ := stateAfter (Sess.new n : Sess W) ops
    s ∈ σ.order → t ∈ σ.order →
      ∃ d, (exec σ (.dist s t cut ud)).2 = .val d ∧
        (∀ y, IsDist σ.net s t y → Within cut y → d = some y) ∧ (¬ Reachable σ.net s t → d = none) ∧
        (cut = none → ∀ y, d = some y ↔ IsDist σ.net s t y) ∧ (cut = none → (d = none ↔ ¬ Reachable σ.net s t)) := by
  intro σ hs ht
  have h := session_invariant n ops
  refine ⟨_, (exec_dist_eq σ h s t hs ht cut ud).1, ?_, ?_, ?_, ?_⟩
  · exact (shortest_distance_cut σ.net h.wf s t (h.nodes s hs) cut).1
  · exact (shortest_distance_cut σ.net h.wf s t (h.nodes s hs) cut).2
  · intro hc; subst hc; exact (shortest_distance_correct σ.net h.wf s t (h.nodes s hs)).1
  · intro hc; subst hc; exact (shortest_distance_correct σ.net h.wf s t (h.nodes s hs)).2

/-- the dictionaries of a session (`DISTANCES` and a caller's `output_dict`) hold only true distances of the current
graph, through any call that does not add an edge (adding an edge changes the distances; entries written before it
are the caller's business). -/
theorem session_tables_sound (σ : Sess W) (h : SessOK σ) (op : Op W) (hnet : (exec σ op).1.net = σ.net)
    (hu : TableSound σ.net σ.udict) (hp : ∀ tb, σ.prep = some tb → TableSound σ.net tb) :
    TableSound σ.net (exec σ op).1.udict ∧ ∀ tb, (exec σ op).1.prep = some tb → TableSound σ.net tb :=
  exec_tables_sound σ h op hnet hu hp

/-! ### networks that share their `Node` objects (`Model/GraphShared.lean`)

`sub_network` builds its result from the parent's own `Node` objects, and nothing stops a caller from adding nodes of one
network to another: the routing flags (`poids`, `visite`, `antecedent`) of such networks live in ONE store, and
`__resetFlags` of a network cleans only the nodes in its own `NODES`. The model of that situation is the code as it runs:
`routeOnPD` = reset of the own nodes + the loop with the explicit `priority_dict` on a store in any state. -/

/-- **a search on `Node` objects carrying ANY flags** — left by an earlier search of this network or of another network
that holds the same objects (nodes of this network labelled / marked visited by a foreign search, foreign nodes
labelled): the `output_dict` entries, and the flags it leaves on the nodes of its own `NODES`, are exactly those of the
pure search `runForward` on its own graph; the flags of every other node are left untouched. (`order` = `NODES`; every edge
of the network joins nodes of `NODES`, as `addEdge` guarantees.) This strengthens `search_starts_clean`, which needs the
flags outside `NODES` to be clean. The seeded change "reset only the nodes labelled by the previous search of the same
network" breaks exactly this. -/
theorem shared_nodes_search_pure (net : Net W) (hnet : WFNet net) (order : List Nat) (hnodes : ∀ v ∈ order, v < net.n)
    (hends : ∀ e ∈ net.edges, e.src ∈ order ∧ e.tgt ∈ order) (st : St W) (s : Nat) (hs : s ∈ order)
    (tgt : Option Nat) (cut : Option W) :
    (routeOnPD net order st s tgt cut).2 = (runForward net s tgt cut).2 ∧
    (∀ v ∈ order, (routeOnPD net order st s tgt cut).1.d v = (runForward net s tgt cut).1.d v ∧
                  (routeOnPD net order st s tgt cut).1.vis v = (runForward net s tgt cut).1.vis v ∧
                  (routeOnPD net order st s tgt cut).1.pred v = (runForward net s tgt cut).1.pred v) ∧
    (∀ v, v ∉ order → (routeOnPD net order st s tgt cut).1.d v = st.d v ∧
                      (routeOnPD net order st s tgt cut).1.vis v = st.vis v ∧
                      (routeOnPD net order st s tgt cut).1.pred v = st.pred v) :=
  routeOnPD_obs net hnet order hnodes hends st s hs tgt cut

/-- one call (any of `addNode` … `sub_network`) on a network whose `Node` objects carry any flags answers exactly as the
same network with `Node` objects of its own (the one-object session model `exec`), and leaves the same object up to the
flags. -/
theorem shared_nodes_call_as_private (σ σ' : Sess W) (hc : SameCore σ σ') (h : SessOK σ') (op : Op W) :
    (execSh σ op).2 = (exec σ' op).2 ∧ SameCore (execSh σ op).1 (exec σ' op).1 :=
  execSh_eq_exec σ σ' hc h op

/-- **sharing is unobservable.** Any program over a family of networks built on one pool of `Node` objects — `Network()`,
`addNode` / `addEdge` with nodes of the pool, searches of every form, `all_shortest_distances`, `prepare`, `sub_network` whose
result is kept and used like any other network (extracts of extracts included), `edge.weight = w` on an `Edge` object (which a
network and its extracts share, and which every later search reads), in any interleaving — returns, call by
call, what the same program returns when every network has `Node` objects of its own. -/
theorem family_answers_as_private (n : Nat) (ops : List (FamOp W)) :
    runFam (Fam.new n : Fam W) ops = runFamU n [] ops :=
  (runFam_eq (Fam.new n) [] (famRel_new n) ops).1

/-- **the property in a family.** In any state reached by any such program, on every network `k` of the family,
`shortest_distance(s, t[, cut])` is the minimum weight over the permitted walks of *that network's* current graph — the
sentinel iff there is none; with a cut-off the true distance whenever it is within it — whatever the other networks
holding the same `Node` objects have searched in between. -/
theorem family_distance_correct (n : Nat) (ops : List (FamOp W)) (k : Nat) (σ : Sess W)
    (hk : (famAfter (Fam.new n : Fam W) ops).nets[k]? = some σ) (s t : Nat) (hs : s ∈ σ.order) (ht : t ∈ σ.order)
    (cut : Option W) (ud : Bool) :
    ∃ d, (execFam (famAfter (Fam.new n : Fam W) ops) (.on k (.dist s t cut ud))).2 = .val d ∧
      (∀ y, IsDist σ.net s t y → Within cut y → d = some y) ∧ (¬ Reachable σ.net s t → d = none) ∧
      (cut = none → ∀ y, d = some y ↔ IsDist σ.net s t y) ∧ (cut = none → (d = none ↔ ¬ Reachable σ.net s t)) := by
  have hrel := (runFam_eq (Fam.new n : Fam W) [] (famRel_new n) ops).2
  cases h2 : (famAfterU (Fam.new n : Fam W).n [] ops)[k]? with
  | none => rw [(famRel_none hrel k).2 h2] at hk; cases hk
  | some σ' =>
    obtain ⟨hc, hok⟩ := hrel.2 k σ σ' hk h2
    obtain ⟨c1, c2, c3, c4⟩ := hc
    have hs' : s ∈ σ'.order := c2 ▸ hs
    have ht' : t ∈ σ'.order := c2 ▸ ht
    obtain ⟨a, _⟩ := execSh_eq_exec { σ with flags := (famAfter (Fam.new n : Fam W) ops).flags } σ' ⟨c1, c2, c3, c4⟩ hok (.dist s t cut ud)
    refine ⟨shortestDistance σ.net s t cut, ?_, ?_, ?_, ?_, ?_⟩
    · simp only [execFam, hk]
      rw [a, c1]
      exact (exec_dist_eq σ' hok s t hs' ht' cut ud).1
    · rw [c1]; exact (shortest_distance_cut σ'.net hok.wf s t (hok.nodes s hs') cut).1
    · rw [c1]; exact (shortest_distance_cut σ'.net hok.wf s t (hok.nodes s hs') cut).2
    · intro hcut; subst hcut; rw [c1]; exact (shortest_distance_correct σ'.net hok.wf s t (hok.nodes s hs')).1
    · intro hcut; subst hcut; rw [c1]; exact (shortest_distance_correct σ'.net hok.wf s t (hok.nodes s hs')).2

/-! ### the queue: `heapq` (`Model/Heapq.lean`) and `priority_dict` with lazy deletion (`Model/PDict.lean`) -/

/-- Python's order on `(priority, key)` tuples is a strict weak order — all `heapq` needs. -/
theorem tuple_order_ok : Heapq.Ord (PDict.tlt (W := W)) := PDict.tlt_ord

/-- `heapq.heappush` (append + `_siftdown`) keeps the heap invariant `heap[(j-1)//2] <= heap[j]` and adds exactly the
pushed item (the new list is a permutation of `item :: heap`). Any strict weak order. -/
theorem heapq_heappush {α : Type} {lt : α → α → Bool} (o : Heapq.Ord lt) (heap : List α) (item : α)
    (hh : Heapq.IsHeap lt heap) :
    Heapq.IsHeap lt (Heapq.heappush lt heap item) ∧ (Heapq.heappush lt heap item).Perm (item :: heap) :=
  Heapq.heappush_spec o heap item hh

/-- `heapq.heappop` (pop the last item, put it at the root, `_siftup`: bubble the smaller child up to a leaf, then
`_siftdown`) fails exactly on the empty list; on a heap it returns the root, which is a minimum of the multiset
(`not x < m` for every item `x`), leaves exactly the other items, and keeps the heap invariant. -/
theorem heapq_heappop_min {α : Type} {lt : α → α → Bool} (o : Heapq.Ord lt) (heap : List α)
    (hh : Heapq.IsHeap lt heap) :
    (Heapq.heappop lt heap = none ↔ heap = []) ∧
    ∀ m rest, Heapq.heappop lt heap = some (m, rest) →
      heap.Perm (m :: rest) ∧ Heapq.IsHeap lt rest ∧ (∀ x ∈ heap, lt x m = false) ∧ heap[0]? = some m :=
  ⟨Heapq.heappop_none lt heap, fun m rest h => Heapq.heappop_spec o heap hh m rest h⟩

/-- `heapq.heapify` (`_siftup(x, i)` for `i = n//2-1 … 0`) turns any list into a heap with the same items. -/
theorem heapq_heapify {α : Type} {lt : α → α → Bool} (o : Heapq.Ord lt) (x : List α) :
    Heapq.IsHeap lt (Heapq.heapify lt x) ∧ (Heapq.heapify lt x).Perm x :=
  Heapq.heapify_spec o x

/-- `priority_dict.pop_smallest`: when every current entry of the dict has its `(priority, key)` tuple in `_heap` and
`_heap` is a binary heap in tuple order (`HInv`; established by the constructor through `heapify`, kept by
`__setitem__` — `priority_dict_setitem` — and by `pop_smallest`), a pop on a non-empty dict returns the key whose
`(priority, key)` tuple is the smallest among the *current* entries, however many stale tuples the heap still holds,
removes exactly that key, and keeps `HInv`. `heappop` here is the modelled `heapq.heappop` (sift operations on the
list), whose minimum property is `heapq_heappop_min`. -/
theorem pop_smallest_min (pd : PDict.PD W) (hinv : PDict.HInv pd) (k0 : Nat) (v0 : W)
    (h0 : PDict.lookup pd.dict k0 = some v0) :
    ∃ k v pd', PDict.popSmallest pd = some (k, pd') ∧ PDict.lookup pd.dict k = some v ∧
      (∀ k' v', PDict.lookup pd.dict k' = some v' → PDict.tle (v, k) (v', k')) ∧
      (∀ k', PDict.lookup pd'.dict k' = if k' = k then none else PDict.lookup pd.dict k') ∧ PDict.HInv pd' :=
  PDict.popSmallest_spec pd hinv k0 v0 h0

/-- `pd[k] = v` (`heappush`, or `_rebuild_heap` = list + `heapify` once the heap has reached twice the size of the dict)
sets that entry only and keeps the invariant (entries present, `_heap` a binary heap); `priority_dict(d)` establishes it. -/
theorem priority_dict_setitem (pd : PDict.PD W) (hinv : PDict.HInv pd) (k : Nat) (v : W) :
    (∀ k', PDict.lookup (PDict.setitem pd k v).dict k' = if k' = k then some v else PDict.lookup pd.dict k') ∧
      PDict.HInv (PDict.setitem pd k v) ∧ ∀ d : List (Nat × W), PDict.HInv (PDict.ofDict d) :=
  ⟨(PDict.setitem_spec pd hinv k v).1, (PDict.setitem_spec pd hinv k v).2, PDict.ofDict_inv⟩

/-- `run_routing_forward` written with the explicit `priority_dict` (`fil = priority_dict({source: 0})`,
`pere = fil.pop_smallest()`, `fil[fils] = fils.poids`, `while len(fil) != 0`) computes exactly what the loop with the
abstract "pop the labelled unsettled node with the smallest (label, id)" computes — so all theorems above hold for it. -/
theorem forward_uses_priority_dict (net : Net W) (hnet : WFNet net) (s : Nat) (hs : s < net.n)
    (tgt : Option Nat) (cut : Option W) : runForwardPD net s tgt cut = runForward net s tgt cut :=
  runForwardPD_eq net hnet s hs tgt cut

/-! ### the routing-method API: `setRoutingMethod` / `setAStarWeight`, the A* branch of `run_routing_forward`, several
`Network` objects with their own settings (`Model/GraphAStar.lean`)

For which configurations does the property's statement hold?
* **Dijkstra** (an object's own `routing_mode ≠ 1`): always — `world_dijkstra_distance_correct` is the statement for any
  program over several objects; `own_setting_dijkstra_is_session` reduces every call to the session model; `routing_settings_per_object` says that only the object's *own*
  setters count, whatever other `Network` objects of the program were told.
* **A\*, no target** (list form, `all_shortest_distances`, `prepare`, `sub_network`): always, the heuristic is never
  computed (the local `heuristic` keeps its initial 0) — `no_target_no_heuristic`.
* **A\* with a target, heuristic 0** (`astar_wgt = 0`, or all nodes at the target's place): always, the run IS the Dijkstra
  run — `astar_zero_heuristic_is_dijkstra`.
* **A\* with a target, consistent heuristic** (`h u ≤ w + h v` along every permitted arc; for the code's
  `h v = astar_wgt × |v − target|` that is `0 ≤ astar_wgt` and every edge weighing at least `astar_wgt` × the straight-line
  distance between its ends — `astar_heuristic_consistent`; the configuration for which `setRoutingMethod`'s docstring promises
  the exact solution): the statement holds in full — `astar_exact` (no cut-off: the minimum, sentinel iff unreachable),
  `astar_cut` / `astar_cut_sound` (with a cut-off), `astar_output_dict_entries_sound` (every entry written to `output_dict`
  and every `visite` label is a true distance within the cut-off), `world_astar_distance_correct` (the same for
  `shortest_distance(s, t[, cut])` on an object of any program over several objects, at any moment).
* **A\* with a target, heuristic not consistent**: the statement does not apply (the docstring calls the result an
  approximation). What holds for ANY heuristic is `astar_any_heuristic_bounds`: a reported value is the weight of a permitted
  walk (never below the minimum), and without a cut-off the sentinel is reported iff no walk exists.
* **before fix c78e3ab** the code kept `g + h` in `poids` and relaxed from it, so the heuristic terms accumulated:
  `astar_old_inflates` is the 3-node road on which that variant (`…HOld`, kept as the documented pre-fix loop) reported 30
  for a distance of 20, which the model of the present code reports as 20. -/

section routing
variable {V : Type} [LT V] [DecidableLT V] [Add V] [Sub V] [Mul V] [OfNat V 0] [OfNat V 1]

/-- **instance-level settings.** In any program over any number of `Network` objects — creations, `setRoutingMethod`,
`setAStarWeight` and calls of every kind interleaved in any order — the object created `k`-th ends in the state, and has
returned the answers, that the calls addressed to *it* produce when run on it alone. What other objects are told
(in particular that they should route with A*) never changes what this one answers. -/
theorem routing_settings_per_object (sqrt : V → V) (w : World V) (ops : List (WorldOp V)) (k : Nat) (o : NetObj V)
    (hk : w[k]? = some o) :
    (worldAfter sqrt w ops)[k]? = some (objAfter sqrt o (opsOn k ops)) ∧
    answersOn k ops (runWorld sqrt w ops) = runObj sqrt o (opsOn k ops) :=
  world_projection sqrt w ops k o hk

/-- an object whose own `routing_mode` is not 1 — never configured (`Network()` sets `ROUTING_ALGO_DIJKSTRA`), or set back
to Dijkstra — answers every call as the one-object session model does (so `session_distance_correct` … apply),
whatever its `astar_wgt`. The setters change the two attributes of their own object and nothing else. -/
theorem own_setting_dijkstra_is_session (sqrt : V → V) (o : NetObj V) (hm : o.mode ≠ 1) (op : Op V) (m : Nat) (x : V) :
    execObj sqrt o (.call op) = ({ o with sess := (exec o.sess op).1 }, (exec o.sess op).2) ∧
    (NetObj.new 0 o.pos : NetObj V).mode = 0 ∧
    execObj sqrt o (.setMethod m) = ({ o with mode := m }, .unit) ∧
    execObj sqrt o (.setWeight x) = ({ o with wgt := x }, .unit) :=
  ⟨execObj_dijkstra sqrt o hm op, rfl, rfl, rfl⟩

/-- in A* mode too, every call other than a search *with a target* (`shortest_distance(s)` list form,
`run_routing_forward(s)`, `all_shortest_distances`, `prepare`, `sub_network`, …) is the Dijkstra call: the code computes
the heuristic only `if (self.routing_mode == 1) and not (target is None)`. -/
theorem no_target_no_heuristic (sqrt : V → V) (o : NetObj V) (op : Op V)
    (h1 : ∀ s t cut ud, op ≠ .route s (some t) cut ud) (h2 : ∀ s t cut ud, op ≠ .dist s t cut ud) :
    execObj sqrt o (.call op) = ({ o with sess := (exec o.sess op).1 }, (exec o.sess op).2) :=
  execObj_no_target sqrt o op h1 h2
end routing

/-- **the property in a program with several networks.** Start with no `Network` object and run any program: creations,
`addNode` / `addEdge`, searches of every kind, `prepare`, `sub_network`, and `setRoutingMethod` / `setAStarWeight` on any of
the objects, in any interleaving (the object itself may have been in A* mode earlier). Then on every object whose own
routing method is Dijkstra at that moment, `shortest_distance(s, t[, cut])` is the minimum weight over the permitted walks
of that object's current graph — the sentinel iff there is none; with a cut-off the true distance whenever it is within
it. (The seeded change that keeps the settings at class level breaks exactly this.) -/
theorem world_dijkstra_distance_correct [Sub W] [Mul W] [OfNat W 1] (sqrt : W → W) (ops : List (WorldOp W)) (k : Nat)
    (o : NetObj W) (hk : (worldAfter sqrt [] ops)[k]? = some o) (hm : o.mode ≠ 1) (s t : Nat)
    (hs : s ∈ o.sess.order) (ht : t ∈ o.sess.order) (cut : Option W) (ud : Bool) :
    ∃ d, (execWorld sqrt (worldAfter sqrt [] ops) (.on k (.call (.dist s t cut ud)))).2 = .val d ∧
      (∀ y, IsDist o.sess.net s t y → Within cut y → d = some y) ∧ (¬ Reachable o.sess.net s t → d = none) ∧
      (cut = none → ∀ y, d = some y ↔ IsDist o.sess.net s t y) ∧
      (cut = none → (d = none ↔ ¬ Reachable o.sess.net s t)) := by
  have h : SessOK o.sess := worldAfter_ok sqrt [] (by intro k o hq; simp at hq) ops k o hk
  refine ⟨shortestDistance o.sess.net s t cut, ?_, ?_, ?_, ?_, ?_⟩
  · simp only [execWorld, hk]
    rw [execObj_dijkstra sqrt o hm]
    exact (exec_dist_eq o.sess h s t hs ht cut ud).1
  · exact (shortest_distance_cut o.sess.net h.wf s t (h.nodes s hs) cut).1
  · exact (shortest_distance_cut o.sess.net h.wf s t (h.nodes s hs) cut).2
  · intro hc; subst hc; exact (shortest_distance_correct o.sess.net h.wf s t (h.nodes s hs)).1
  · intro hc; subst hc; exact (shortest_distance_correct o.sess.net h.wf s t (h.nodes s hs)).2

/-- A* with a heuristic that is 0 on every node — `astar_wgt = 0` (`heuristicOf_zero_weight`), or every node at the
target's position — is Dijkstra: same pops, same labels, same recorded entries, hence the true distance (needs `a + 0 = a`,
which the other theorems do not use). -/
theorem astar_zero_heuristic_is_dijkstra (hadd : ∀ a : W, a + 0 = a) (net : Net W) (hnet : WFNet net) (h : Nat → W)
    (hz : ∀ v, h v = 0) (s t : Nat) (hs : s < net.n) (cut : Option W) :
    runForwardH net h s (some t) cut = runForward net s (some t) cut ∧
    shortestDistanceH net h s t cut = shortestDistance net s t cut ∧
    (∀ y, shortestDistanceH net h s t none = some y ↔ IsDist net s t y) ∧
    (shortestDistanceH net h s t none = none ↔ ¬ Reachable net s t) := by
  have e1 : ∀ cut, runForwardH net h s (some t) cut = runForward net s (some t) cut :=
    fun cut => forwardH_zero hadd net h hz (some t) cut net.n (St.init s) []
  have e2 : ∀ cut, shortestDistanceH net h s t cut = shortestDistance net s t cut := by
    intro cut; unfold shortestDistanceH shortestDistance; rw [e1]
  refine ⟨e1 cut, e2 cut, ?_, ?_⟩
  · intro y; rw [e2]; exact (shortest_distance_correct net hnet s t hs).1 y
  · rw [e2]; exact (shortest_distance_correct net hnet s t hs).2

/-- the A* branch with ANY heuristic (not consistent, of any sign), any cut-off: whatever `shortest_distance(s, t)` reports
is the weight of a permitted walk `s → t` — never below the true minimum; and without a cut-off it reports the sentinel
exactly when no permitted walk exists. This is all the harness' oracle asks of A* when the heuristic is not consistent. -/
theorem astar_any_heuristic_bounds (net : Net W) (hnet : WFNet net) (h : Nat → W) (s t : Nat) (hs : s < net.n) :
    (∀ cut y, shortestDistanceH net h s t cut = some y → Walk net s t y) ∧
    (shortestDistanceH net h s t none = none ↔ ¬ Reachable net s t) :=
  shortestDistanceH_any net hnet h s t hs

section consistent
variable {V : Type} [AddCommMonoid V] [LinearOrder V] [IsOrderedCancelAddMonoid V]

/-- **A\* with a consistent heuristic is exact** (`h u ≤ w + h v` along every permitted arc): `shortest_distance(s, t)` in A*
mode is the minimum weight over the permitted walks, the sentinel iff there is none. Weights in a linearly ordered
cancellative commutative monoid (`ℕ ℤ ℚ ℝ`); exact arithmetic (with floats the `g + h` comparisons are subject to
rounding: the float stream of the harness compares at 1e-9 relative). -/
theorem astar_exact (net : Net V) (hnet : WFNet net) (h : Nat → V) (hc : Consistent net h) (s t : Nat) (hs : s < net.n) :
    (∀ y, shortestDistanceH net h s t none = some y ↔ IsDist net s t y) ∧
    (shortestDistanceH net h s t none = none ↔ ¬ Reachable net s t) :=
  shortestDistanceH_spec net hnet h hc s t hs

/-- … with a cut-off (`T4 with a cut-off` for A*): `shortest_distance(s, t, cut)` returns the true distance whenever that
distance does not exceed the cut-off, and the sentinel whenever `t` is unreachable — for a consistent heuristic that is
smallest at the target (`h t ≤ h v`; the code's heuristic is `0` at the target and `≥ 0` elsewhere). The label is `g`, so the
stop test `pere.poids > cut` compares the travelled distance with the cut-off, as in Dijkstra mode. -/
theorem astar_cut (net : Net V) (hnet : WFNet net) (h : Nat → V) (hc : Consistent net h) (s t : Nat) (hs : s < net.n)
    (hmin : ∀ v, h t ≤ h v) (cut : Option V) :
    (∀ y, IsDist net s t y → Within cut y → shortestDistanceH net h s t cut = some y) ∧
    (¬ Reachable net s t → shortestDistanceH net h s t cut = none) :=
  shortestDistanceH_cut net hnet h hc s t hs hmin cut

/-- … the other direction: whatever is returned is the weight of a permitted walk, and the sentinel is returned only when
no walk within the cut-off exists. -/
theorem astar_cut_sound (net : Net V) (hnet : WFNet net) (h : Nat → V) (hc : Consistent net h) (s t : Nat) (hs : s < net.n)
    (hmin : ∀ v, h t ≤ h v) (cut : Option V) :
    (∀ y, shortestDistanceH net h s t cut = some y → Walk net s t y) ∧
    (shortestDistanceH net h s t cut = none → ∀ y, IsDist net s t y → ¬ Within cut y) := by
  constructor
  · intro y hy; exact (shortestDistanceH_any net hnet h s t hs).1 cut y hy
  · intro hn y hy hw
    rw [(shortestDistanceH_cut net hnet h hc s t hs hmin cut).1 y hy hw] at hn
    cases hn

/-- every entry `run_routing_forward` writes to `output_dict` in A* mode with a consistent heuristic — any target, any
cut-off, so also through `shortest_distance(s, t, cut, output_dict)` — is the true distance of its key and does not exceed the
cut-off; the entries are exactly the nodes the search marked `visite`, and the label (`poids`) of every such node is its
true distance. -/
theorem astar_output_dict_entries_sound (net : Net V) (hnet : WFNet net) (h : Nat → V) (hc : Consistent net h) (s : Nat)
    (hs : s < net.n) (tgt : Option Nat) (cut : Option V) :
    (∀ u y, (u, y) ∈ (runForwardH net h s tgt cut).2 → IsDist net s u y ∧ Within cut y) ∧
    (∀ u, (runForwardH net h s tgt cut).1.vis u = true ↔ ∃ y, (u, y) ∈ (runForwardH net h s tgt cut).2) ∧
    (∀ u y, (runForwardH net h s tgt cut).1.vis u = true → (runForwardH net h s tgt cut).1.d u = some y → IsDist net s u y) :=
  runForwardH_entries net hnet h hc s hs tgt cut

/-- where consistency comes from: if `g u v` (= `astar_wgt` × the straight-line distance between `u` and `v`) satisfies
the triangle inequality towards the target, `h u ≤ g u v + h v`, and no edge weighs less than `g` between its ends, the
heuristic is consistent. -/
theorem consistent_of_scaled_metric (net : Net V) (h : Nat → V) (g : Nat → Nat → V) (htri : ∀ u v, h u ≤ g u v + h v)
    (hedge : ∀ u v w, Arc net u v w → g u v ≤ w) : Consistent net h :=
  fun u v w ha => le_trans (htri u v) (add_le_add_left (hedge u v w ha) (h v))

/-- **the property for A\* in a program with several networks.** Start with no `Network` object and run any program
(creations, `addNode` / `addEdge`, searches of every kind in either mode, `prepare`, `sub_network`, `setRoutingMethod` /
`setAStarWeight` on any object, in any interleaving). On an object whose own routing method is A* at that moment, for a
target `t` towards which its heuristic `astar_wgt × |v − t|` is consistent on its current graph and smallest at `t`
(`astar_heuristic_consistent`: `0 ≤ astar_wgt`, every edge at least `astar_wgt` × the straight-line distance of its ends),
`shortest_distance(s, t[, cut])` is the minimum weight over the permitted walks of that graph — the sentinel iff there is
none; with a cut-off the true distance whenever it is within it. -/
theorem world_astar_distance_correct [Sub V] [Mul V] [OfNat V 1] (sqrt : V → V) (ops : List (WorldOp V)) (k : Nat)
    (o : NetObj V) (hk : (worldAfter sqrt [] ops)[k]? = some o) (hm : o.mode = 1) (s t : Nat)
    (hs : s ∈ o.sess.order) (ht : t ∈ o.sess.order) (cut : Option V) (ud : Bool)
    (hc : Consistent o.sess.net (o.h sqrt (some t))) (hmin : ∀ v, o.h sqrt (some t) t ≤ o.h sqrt (some t) v) :
    ∃ d, (execWorld sqrt (worldAfter sqrt [] ops) (.on k (.call (.dist s t cut ud)))).2 = .val d ∧
      (∀ y, IsDist o.sess.net s t y → Within cut y → d = some y) ∧ (¬ Reachable o.sess.net s t → d = none) ∧
      (cut = none → ∀ y, d = some y ↔ IsDist o.sess.net s t y) ∧
      (cut = none → (d = none ↔ ¬ Reachable o.sess.net s t)) := by
  have h : SessOK o.sess := worldAfter_ok sqrt [] (by intro k o hq; simp at hq) ops k o hk
  refine ⟨shortestDistanceH o.sess.net (o.h sqrt (some t)) s t cut, ?_, ?_, ?_, ?_, ?_⟩
  · simp only [execWorld, hk]
    exact (execObj_astar_eq sqrt o h hm s t hs ht cut ud).1
  · exact (astar_cut o.sess.net h.wf _ hc s t (h.nodes s hs) hmin cut).1
  · exact (astar_cut o.sess.net h.wf _ hc s t (h.nodes s hs) hmin cut).2
  · intro hcut; subst hcut; exact (astar_exact o.sess.net h.wf _ hc s t (h.nodes s hs)).1
  · intro hcut; subst hcut; exact (astar_exact o.sess.net h.wf _ hc s t (h.nodes s hs)).2

/-- … and what such a call writes: with `output_dict` given, `shortest_distance(s, t, cut, output_dict)` /
`run_routing_forward(s, t, cut, output_dict)` on that object add exactly the entries of the pure A* search, each the true
distance of its key within the cut-off (`astar_output_dict_entries_sound`); the flags read back after
`run_routing_forward(s, t, cut)` are those of that search. -/
theorem world_astar_call_is_pure [Sub V] [Mul V] [OfNat V 1] (sqrt : V → V) (ops : List (WorldOp V)) (k : Nat)
    (o : NetObj V) (hk : (worldAfter sqrt [] ops)[k]? = some o) (hm : o.mode = 1) (s t : Nat)
    (hs : s ∈ o.sess.order) (ht : t ∈ o.sess.order) (cut : Option V) (ud : Bool) :
    (execObj sqrt o (.call (.dist s t cut ud))).2 = .val (shortestDistanceH o.sess.net (o.h sqrt (some t)) s t cut) ∧
    (execObj sqrt o (.call (.dist s t cut ud))).1.sess.udict =
      (if ud then record o.sess.udict s (runForwardH o.sess.net (o.h sqrt (some t)) s (some t) cut).2 else o.sess.udict) ∧
    (execObj sqrt o (.call (.route s (some t) cut ud))).2 =
      .flags (o.sess.order.map (runForwardH o.sess.net (o.h sqrt (some t)) s (some t) cut).1.d)
             (o.sess.order.map (runForwardH o.sess.net (o.h sqrt (some t)) s (some t) cut).1.vis) ∧
    (execObj sqrt o (.call (.route s (some t) cut ud))).1.sess.udict =
      (if ud then record o.sess.udict s (runForwardH o.sess.net (o.h sqrt (some t)) s (some t) cut).2 else o.sess.udict) :=
  execObj_astar_eq sqrt o (worldAfter_ok sqrt [] (by intro k o hq; simp at hq) ops k o hk) hm s t hs ht cut ud
end consistent

section metric
variable {F : Type} [Field F] [LinearOrder F] [IsStrictOrderedRing F]

/-- **the consistency hypothesis, from the configuration.** `Node.distanceTo` is the Euclidean distance of the coordinates
(`sqrt` any square root on the non-negative elements of the ordered field: `IsSqrt`), which satisfies the triangle inequality
(`distanceTo_triangle`, Cauchy–Schwarz). So on an object in A* mode with `0 ≤ astar_wgt` whose every permitted arc weighs at
least `astar_wgt` × the straight-line distance between its ends — exactly the predicate `heuristic_consistent` of the harness'
oracle — the heuristic towards ANY target `t` is consistent and smallest at `t`. -/
theorem astar_heuristic_consistent {sqrt : F → F} (hsq : IsSqrt sqrt) (o : NetObj F) (hm : o.mode = 1) (hw : 0 ≤ o.wgt)
    (hedge : ∀ u v w, Arc o.sess.net u v w → o.wgt * distanceTo sqrt (o.pos u) (o.pos v) ≤ w) (t : Nat) :
    Consistent o.sess.net (o.h sqrt (some t)) ∧ (∀ v, o.h sqrt (some t) t ≤ o.h sqrt (some t) v) := by
  unfold NetObj.h
  rw [hm]
  exact heuristicOf_consistent hsq o.sess.net o.pos o.wgt hw t hedge

/-- **the property for A\* at full strength**, hypotheses on the configuration only: in any program over several `Network`
objects, on an object whose own routing method is A* at that moment, with `0 ≤ astar_wgt` and every permitted arc of its
current graph weighing at least `astar_wgt` × the straight-line distance between its ends, `shortest_distance(s, t[, cut])` is
the minimum weight over the permitted walks — the sentinel iff there is none; with a cut-off the true distance whenever it
is within it. -/
theorem world_astar_metric_distance_correct {sqrt : F → F} (hsq : IsSqrt sqrt) (ops : List (WorldOp F)) (k : Nat)
    (o : NetObj F) (hk : (worldAfter sqrt [] ops)[k]? = some o) (hm : o.mode = 1) (hw : 0 ≤ o.wgt)
    (hedge : ∀ u v w, Arc o.sess.net u v w → o.wgt * distanceTo sqrt (o.pos u) (o.pos v) ≤ w)
    (s t : Nat) (hs : s ∈ o.sess.order) (ht : t ∈ o.sess.order) (cut : Option F) (ud : Bool) :
    ∃ d, (execWorld sqrt (worldAfter sqrt [] ops) (.on k (.call (.dist s t cut ud)))).2 = .val d ∧
      (∀ y, IsDist o.sess.net s t y → Within cut y → d = some y) ∧ (¬ Reachable o.sess.net s t → d = none) ∧
      (cut = none → ∀ y, d = some y ↔ IsDist o.sess.net s t y) ∧
      (cut = none → (d = none ↔ ¬ Reachable o.sess.net s t)) :=
  world_astar_distance_correct sqrt ops k o hk hm s t hs ht cut ud
    (astar_heuristic_consistent hsq o hm hw hedge t).1 (astar_heuristic_consistent hsq o hm hw hedge t).2
end metric

/-- the straight road 0 –10– 1 –10– 2 with nodes at x = 0, 10, 20 and the heuristic `h v` = distance to node 2 -/
def road : Net Int := { n := 3, edges := [⟨0, 0, 1, 10, 0⟩, ⟨1, 1, 2, 10, 0⟩] }
def roadH : Nat → Int := fun v => if v = 0 then 20 else if v = 1 then 10 else 0

/-- **what fix c78e3ab repaired** (finding `astar-label-accumulates-heuristic`, now a regression case): on `road`, every
weight equal to the straight-line length, `h ≥ 0` consistent and 0 at the target, the PRE-FIX loop (`shortestDistanceHOld`:
`poids = g + h`, relaxed from) reported 30; the distance is 20, which is what the model of the present code
(`shortestDistanceH`) and Dijkstra report — also under the cut-off 20. This is
also the non-vacuity example of `astar_exact` / `astar_cut`: their hypotheses hold on `road`. -/
theorem astar_old_inflates :
    WFNet road ∧ Consistent road roadH ∧ (∀ v, roadH 2 ≤ roadH v) ∧
    shortestDistanceHOld road roadH 0 2 none = some 30 ∧
    shortestDistanceH road roadH 0 2 none = some 20 ∧ shortestDistanceH road roadH 0 2 (some 20) = some 20 ∧
    shortestDistance road 0 2 none = some 20 ∧ IsDist road 0 2 20 := by
  have hwf : WFNet road := by
    intro e he
    simp only [road, List.mem_cons, List.not_mem_nil, or_false] at he
    rcases he with rfl | rfl <;> simp [road]
  have hcons : Consistent road roadH := by
    intro u v w ⟨e, he, hw, hdir⟩
    simp only [road, List.mem_cons, List.not_mem_nil, or_false] at he
    rcases he with rfl | rfl <;> rcases hdir with ⟨_, rfl, rfl⟩ | ⟨_, rfl, rfl⟩ <;> subst hw <;> decide
  have hd : shortestDistance road 0 2 none = some 20 := by decide +kernel
  have hmin : ∀ v, roadH 2 ≤ roadH v := by
    intro v
    have h2 : roadH 2 = 0 := by decide
    rw [h2]; unfold roadH; split <;> [decide; (split <;> decide)]
  exact ⟨hwf, hcons, hmin,
    by decide +kernel, by decide +kernel, by decide +kernel, hd,
    ((shortest_distance_correct road hwf 0 2 (by decide)).1 20).1 hd⟩

/-- non-vacuity of the A* theorems on a network where the heuristic matters: a detour 0 –3– 1 –4– 3 (nodes 0, 1, 3 are
corners of a 3 × 4 rectangle, node 3 opposite node 0: straight-line 5) and the direct diagonal 0 –6– 3 of weight 6 ≥ 5,
plus a dead end 0 –1– 2 pointing away from the target. `h` = straight-line distance to node 3. A* reports 6 = the minimum and
settles the source only before it pops the target; Dijkstra settles the dead end and the detour's corner first. -/
def rect : Net Int := { n := 4, edges := [⟨0, 0, 1, 3, 0⟩, ⟨1, 1, 3, 4, 0⟩, ⟨2, 0, 3, 6, 0⟩, ⟨3, 0, 2, 1, 0⟩] }
def rectH : Nat → Int := fun v => if v = 0 then 5 else if v = 1 then 4 else if v = 2 then 6 else 0
example : Consistent rect rectH := by
  intro u v w ⟨e, he, hw, hdir⟩
  simp only [rect, List.mem_cons, List.not_mem_nil, or_false] at he
  rcases he with rfl | rfl | rfl | rfl <;> rcases hdir with ⟨_, rfl, rfl⟩ | ⟨_, rfl, rfl⟩ <;> subst hw <;> decide
example : shortestDistanceH rect rectH 0 3 none = some 6 ∧ shortestDistanceH rect rectH 0 3 (some 6) = some 6 ∧
    (runForwardH rect rectH 0 (some 3) none).2 = [(0, 0)] ∧ (runForward rect 0 (some 3) none).2 = [(0, 0), (2, 1), (1, 3)] := by
  decide +kernel

/-! ### the hypotheses are satisfiable by a non-trivial network, and the model computes on it -/

/-- 3 nodes; a zero-weight two-way edge 0–1, an edge stored 2→1 that may only be travelled 1→2
(orientation −1), a heavier parallel edge 1→2, a self-loop. -/
def demo : Net Int :=
  { n := 3, edges := [⟨0, 0, 1, 0, 0⟩, ⟨1, 2, 1, 1, -1⟩, ⟨2, 1, 2, 5, 1⟩, ⟨3, 2, 2, 1, 0⟩] }

example : WFNet demo := by
  intro e he
  simp only [demo, List.mem_cons, List.not_mem_nil, or_false] at he
  rcases he with rfl | rfl | rfl | rfl <;> simp [demo]
example : shortestDistance demo 0 2 none = some 1 := by decide +kernel
example : shortestDistance demo 2 0 none = none := by decide +kernel
/-- beyond the cut-off the code returns a tentative label (outside the property's statement) -/
example : shortestDistance demo 0 2 (some 0) = some 1 := by decide +kernel
example : (runForward demo 0 none (some 0)).2 = [(0, 0), (1, 0)] := by decide +kernel
example : (runForwardPD demo 0 none (some 0)).2 = [(0, 0), (1, 0)] := by decide +kernel
/-- a stale heap entry (key 1 was lowered from 5 to 0) is skipped; ties on the priority go to the smaller key -/
example : (PDict.popSmallest (PDict.setitem (PDict.ofDict [(1, (5 : Int)), (2, 0)]) 1 0)).map (·.1) = some 1 := by decide +kernel
/-- `heapq` on integers: heapify, push, pop — the list layouts are those of CPython -/
example : Heapq.heapify (fun a b : Nat => decide (a < b)) [5, 3, 8, 1, 9, 2] = [1, 3, 2, 5, 9, 8] := by decide +kernel
example : Heapq.heappush (fun a b : Nat => decide (a < b)) [1, 3, 2, 5, 9, 8] 0 = [0, 3, 1, 5, 9, 8, 2] := by decide +kernel
example : Heapq.heappop (fun a b : Nat => decide (a < b)) [0, 3, 1, 5, 9, 8, 2] = some (0, [1, 3, 2, 5, 9, 8]) := by decide +kernel
example : Heapq.Ord (fun a b : Nat => decide (a < b)) :=
  ⟨fun a b h => by simp only [decide_eq_true_eq, decide_eq_false_iff_not] at h ⊢; omega,
   fun a b c h1 h2 => by simp only [decide_eq_false_iff_not] at h1 h2 ⊢; omega⟩
/-- a session: build 0–1 (two-way, weight 2), search, add a shortcut through a new node, search again; then a
sub-network and a prepared table — the second search does not see the labels of the first -/
def demoOps : List (Op Int) :=
  [.addEdge ⟨0, 0, 1, 2, 0⟩, .dist 0 1 none false, .addEdge ⟨1, 0, 2, 0, 1⟩, .addEdge ⟨2, 1, 2, 1, -1⟩,
   .dist 0 1 none true, .prepare (some 0), .prepared 0 2, .prepared 0 1, .sub 0 (some 0)]
example : (runOps (Sess.new 3) demoOps).map (fun o => match o with | .val d => d | _ => none)
    = [none, some 2, none, none, some 1, none, some 0, none, none] := by decide +kernel
example : (runOps (Sess.new 3) demoOps).map (fun o => match o with | .subnet ns es => (ns, es) | _ => ([], []))
    = [([], []), ([], []), ([], []), ([], []), ([], []), ([], []), ([], []), ([], []), ([0, 2], [1])] := by decide +kernel


/-- a family: the chain 0 –1– 1 –1– 2 –1– 3 (network 0), its extract around node 0 with cut-off 1 (network 1 = {0, 1},
holding the SAME `Node` objects), then: a search at the far end of network 0, a search in the extract, and searches in
network 0 again — the labels the extract's search left on nodes 0 and 1 are not seen (the seeded change C06-7 returns 0
for the distance 3 → 0 here) -/
def demoFam : List (FamOp Int) :=
  [.create, .on 0 (.addEdge ⟨0, 0, 1, 1, 0⟩), .on 0 (.addEdge ⟨1, 1, 2, 1, 0⟩), .on 0 (.addEdge ⟨2, 2, 3, 1, 0⟩),
   .extract 0 0 (some 1), .on 0 (.dist 2 3 none false), .on 1 (.dist 0 1 none false), .on 0 (.dist 3 0 none false),
   .on 0 (.dist 3 1 none false), .on 1 (.dist 1 0 (some 0) false), .on 1 (.dist 0 2 none false)]
example : (runFam (Fam.new 4) demoFam).map (fun o => match o with | .val d => d | _ => none)
    = [none, none, none, none, none, some 1, some 1, some 3, some 2, some 1, none] := by decide +kernel
example : ((runFam (Fam.new 4) demoFam).map (fun o => match o with | .subnet ns es => (ns, es) | _ => ([], [])))[4]?
    = some ([0, 1], [0]) := by decide +kernel
/-- the store really is common: after the extract's search the flags of node 1 (a node of network 0) are the extract's -/
example : ((famAfter (Fam.new 4) (demoFam.take 7)).flags.d 1, (famAfter (Fam.new 4) (demoFam.take 7)).flags.d 3)
    = (some 1, some 1) := by decide +kernel
example : runFam (Fam.new 4) demoFam = runFamU 4 [] demoFam := family_answers_as_private 4 demoFam
/-- weights are attributes of the `Edge` objects, which the extract shares with its parent: after `edge.weight = 5` on the
edge 0–1 both networks answer with the new weight (and a later `edge.weight = 0` is seen again) -/
example : ((runFam (Fam.new 4) (demoFam.take 5 ++ [.on 1 (.dist 0 1 none false), .setWeight 0 5, .on 1 (.dist 0 1 none false),
      .on 0 (.dist 0 2 none false), .setWeight 0 0, .on 0 (.dist 3 0 none false), .setWeight 1 (-1)])).drop 5).map
      (fun o => match o with | .val d => d | .err => some (-1) | _ => none)
    = [some 1, none, some 5, some 6, none, some 2, some (-1)] := by decide +kernel

/-! ### a non-associative weight structure (`R4`, `Lemmas/GraphR4.lean`: a caricature of floating point) on which all of the above holds -/

/-- the addition is not associative … -/
example : (R4.of 1 + R4.of 2) + R4.of 4 ≠ R4.of 1 + (R4.of 2 + R4.of 4) := by decide
/-- … and the theorems apply: on the path 0 –1– 1 –2– 2 –4– 3 the reported distance is the left-to-right rounded sum 8,
which is the minimum over walks of that sum (`shortest_distance_correct`), not the rounding of 1 + (2 + 4) -/
def demoR : Net R4 :=
  { n := 4, edges := [⟨0, 0, 1, R4.of 1, 0⟩, ⟨1, 1, 2, R4.of 2, 0⟩, ⟨2, 2, 3, R4.of 4, 0⟩] }
example : WFNet demoR := by
  intro e he
  simp only [demoR, List.mem_cons, List.not_mem_nil, or_false] at he
  rcases he with rfl | rfl | rfl <;> exact ⟨by decide, by decide, Nat.zero_le _⟩
example : shortestDistance demoR 0 3 none = some (R4.of 8) := by decide +kernel
example : IsDist demoR 0 3 (R4.of 8) :=
  ((shortest_distance_correct demoR (by
    intro e he
    simp only [demoR, List.mem_cons, List.not_mem_nil, or_false] at he
    rcases he with rfl | rfl | rfl <;> exact ⟨by decide, by decide, Nat.zero_le _⟩) 0 3 (by decide)).1 _).1 (by decide +kernel)

/-! ### the routing-method API on concrete objects -/

/-- two `Network` objects; the second is switched to A*, the first is never configured: its answer (20 on the road) is
the Dijkstra answer, and so is the second's (before fix c78e3ab it reported the inflated 30); with `astar_wgt = 0` it reports 20 again -/
def roadPos : Nat → Pos Rat := fun v => ⟨10 * v, 0, 0⟩
def roadOps (k : Nat) : List (WorldOp Rat) :=
  [.on k (.call (.addEdge ⟨0, 0, 1, 10, 0⟩)), .on k (.call (.addEdge ⟨1, 1, 2, 10, 0⟩))]
def twoRoads : List (WorldOp Rat) :=
  [.create 3 roadPos, .create 3 roadPos] ++ roadOps 0 ++ roadOps 1 ++
  [.on 1 (.setMethod 1), .on 0 (.call (.dist 0 2 none false)), .on 1 (.call (.dist 0 2 none false)),
   .on 1 (.call (.distList 0 none false)), .on 1 (.setWeight 0), .on 1 (.call (.dist 0 2 none false))]
example : ((runWorld sqrtRat [] twoRoads).drop 7).map (fun o => match o with | .val d => d | _ => none)
    = [some 20, some 20, none, none, some 20] := by decide +kernel
example : (answersOn 0 twoRoads (runWorld sqrtRat [] twoRoads)).length = 3 := by decide +kernel
/-- `math.sqrt` on rational squares, as the exact stream uses it -/
example : sqrtRat (25 / 4) = 5 / 2 ∧ isSquareRat (25 / 4) = true ∧ isSquareRat 2 = false := by decide +kernel

/-- the hypotheses of `world_astar_metric_distance_correct` hold on the second road of `twoRoads` (weights = straight-line
lengths, `astar_wgt = 1`): every arc weighs at least `astar_wgt` × the distance between its ends -/
example : ∀ e ∈ [(0, 1, (10 : Rat)), (1, 0, 10), (1, 2, 10), (2, 1, 10)],
    (1 : Rat) * distanceTo sqrtRat (roadPos e.1) (roadPos e.2.1) ≤ e.2.2 := by decide +kernel

end TV.C06
