import TracklibVerif.Model.FeaturesFront
import TracklibVerif.Props.C01Call
/-! # C01 — the front ends of the write paths: ANY value given is the value read

Property theorems only. `Model/FeaturesFront.lean` models what `createAnalyticalFeature(name, val_init=0.0)` and
`track[name] = obs` do with their arguments before the table primitives are reached: the default `0.0` is used only when
no second argument is given, `"#DELETE"` is the only value the bracket treats specially. The statements are for every type
`V` of cell values — the driver runs them at `V := String`, one token per Python object (`None`, bool, str, numpy scalar …) —:
"reading a feature by name returns exactly the values last written under that name", whatever the values are.
(What the seeded change C01-11 broke: `val_init=None` taken as "use the default".) -/
set_option linter.unusedSectionVars false
namespace TV.C01
open TV.Features
variable {V : Type} [Inhabited V] {n : Nat}

/-- F0: with a second argument, `createAnalyticalFeature(name, v)` IS the table primitive on `v` — no value is replaced by the
default; without it the primitive is handed `0.0`; `name=None` does nothing. -/
theorem createFront_is_create (o : Ops V) (nm : String) (init : Init V) (st : St V) :
    createFront o (some nm) (some init) st = createC nm init st ∧
    createFront o (some nm) none st = createC nm (.scalar o.zero) st ∧
    ∀ a, createFront o none a st = (.ok (), st) :=
  ⟨rfl, rfl, fun _ => rfl⟩

/-- F1: `createAnalyticalFeature(name, v)` of a new name, for EVERY value `v` (the token of `None` included): it returns, the
name reads `v` at every observation (a list: its first `n` values), every other name reads as before. -/
theorem createFront_reads_value (o : Ops V) (st : St V) (h : Inv n st) (nm : String) (init : Init V)
    (hr : reserved nm = false) (hn : n ≠ 0) (hnew : nm ∉ names st)
    (hok : match init with | .scalar _ => True | .list l => n ≤ l.length) :
    (createFront o (some nm) (some init) st).1 = .ok () ∧
    read o (createFront o (some nm) (some init) st).2 nm = .ok (initCol n init) ∧
    ∀ m, m ≠ nm → read o (createFront o (some nm) (some init) st).2 m = read o st m :=
  read_after_create o st h nm init hr hn hnew hok

/-- `track[name] = obs` on the code's table: update when the name is listed, create otherwise -/
theorem setItem_st (nm : String) (init : Init V) (st : St V) :
    (setItem nm init : M (St V) Unit) st = if hasC st nm then updateC nm init st else createC nm init st := by
  cases hc : hasC st nm <;> simp [setItem, bind, M.bind, Tbl.has, Tbl.update, Tbl.create, hc]

/-- F2: `track[name] = v` for EVERY value `v` other than `"#DELETE"` (scalar broadcast; a list: its first `n` values), whether the
name is new (create path) or already listed (update path): it returns, the name reads exactly the values given, every other
name reads as before — both paths store the same thing. -/
theorem bracket_reads_value (o : Ops V) (isDelete : V → Bool) (st : St V) (h : Inv n st) (nm : String) (init : Init V)
    (hr : reserved nm = false) (hn : n ≠ 0)
    (hok : match init with | .scalar _ => True | .list l => n ≤ l.length)
    (hd : ∀ v, init = .scalar v → isDelete v = false) :
    (bracketFront isDelete nm init st).1 = .ok () ∧
    read o (bracketFront isDelete nm init st).2 nm = .ok (initCol n init) ∧
    ∀ m, m ≠ nm → read o (bracketFront isDelete nm init st).2 m = read o st m := by
  have hb : bracketFront isDelete nm init st = (setItem nm init : M (St V) Unit) st := by
    cases init with
    | scalar v => simp [bracketFront, hd v rfl]
    | list l => rfl
  rw [hb, setItem_st]
  by_cases hex : nm ∈ names st
  · have h2 : hasC st nm = true := by simp [hasC, find_isSome_of_mem st.dico nm hex]
    rw [h2]
    exact read_after_update o st h nm init hr hn hex hok
  · have h2 : hasC st nm = false := by simp [hasC, find_none_of_not_mem st.dico nm hex, hr]
    rw [h2]
    exact read_after_create o st h nm init hr hn hex hok

/-- F3: `track[name] = "#DELETE"` IS removeAnalyticalFeature(name). -/
theorem bracket_delete_is_remove (isDelete : V → Bool) (nm : String) (v : V) (hd : isDelete v = true) (st : St V) :
    bracketFront isDelete nm (.scalar v) st = removeC nm st := by
  simp [bracketFront, hd]
  rfl

/-- the bracket front end as calls of `Model/FeaturesCall.lean`, on any table -/
theorem fcall_bracket_delete {σ : Type} [Tbl σ V] (o : Ops V) (isDelete : V → Bool) (nm : String) (v : V)
    (hd : isDelete v = true) :
    (fcall o isDelete (.bracket nm (.scalar v)) : M σ (Ret V)) = call o (.one (.remove nm)) := by
  simp only [fcall, bracketFront, hd, if_true]; rfl

theorem fcall_bracket_store {σ : Type} [Tbl σ V] (o : Ops V) (isDelete : V → Bool) (nm : String) (v : V)
    (hd : isDelete v = false) :
    (fcall o isDelete (.bracket nm (.scalar v)) : M σ (Ret V)) = call o (.one (.setItem nm (.scalar v))) := by
  simp only [fcall, bracketFront, hd]; rfl

/-- F4: a call with its front end keeps the table aligned and does exactly what it does on the name ↦ column specification:
every theorem about histories extends to histories that go through the front ends. -/
theorem fcall_refines (o : Ops V) (isDelete : V → Bool) (c : FCall V) (st : St V) (h : Inv n st) :
    Inv n (fcall o isDelete c st).2 ∧
    fcall o isDelete c (abs st) = ((fcall o isDelete c st).1, abs (fcall o isDelete c st).2) := by
  cases c with
  | api c => exact call_refines o c st h
  | create name arg =>
    cases name with
    | none => exact ⟨h, rfl⟩
    | some nm => exact call_refines o (.one (.create nm (arg.getD (.scalar o.zero)))) st h
  | bracket nm init =>
    cases init with
    | list l => exact call_refines o (.one (.setItem nm (.list l))) st h
    | scalar v =>
      cases hd : isDelete v with
      | true =>
        rw [fcall_bracket_delete o isDelete nm v hd, fcall_bracket_delete o isDelete nm v hd]
        exact call_refines o (.one (.remove nm)) st h
      | false =>
        rw [fcall_bracket_store o isDelete nm v hd, fcall_bracket_store o isDelete nm v hd]
        exact call_refines o (.one (.setItem nm (.scalar v))) st h

/-! ## Non-vacuity: values that are not numbers. `none` stands for Python's `None`, `some k` for a number. -/

def oops : Ops (Option Int) :=
  { zero := some 0, nan := some (-1000), add := fun _ _ => none, sub := fun _ _ => none, mul := fun _ _ => none,
    ofNat := fun k => some (Int.ofNat k), isNaN := fun v => v == some (-1000), parse := fun s => s.toInt?.map some }

def u0 : St (Option Int) := fresh [some 10, some 11] [some 20, some 22] [some 30, some 33] [some 1000, some 1001]

/-- `t["q"] = None` on a new name, then `createAnalyticalFeature("f", None)`, `createAnalyticalFeature("g")`: `q` and `f` read
`None`, only `g` reads the default -/
example : ((traceF oops (fun _ => false)
      [.bracket "q" (.scalar none), .create (some "f") (some (.scalar none)), .create (some "g") none] u0).map
    (fun r => (r.1.toOption.isSome, r.2.dico, r.2.rows))).getLast? =
    some (true, [("q", 0), ("f", 1), ("g", 2)], [[none, none, some 0], [none, none, some 0]]) := by decide +kernel
example : Inv 2 u0 := inv_fresh [some 10, some 11] _ _ _ rfl rfl rfl
example : (read oops (bracketFront (fun _ => false) "q" (.scalar none) u0).2 "q").toOption = some [none, none] := by decide +kernel

end TV.C01
