import TracklibVerif.Lemmas.Raster
import Mathlib.Data.Rat.Floor
import Mathlib.Tactic.NormNum
/-! # C19 — grid summarising conserves observations and aggregates per cell

Property theorems only (helper lemmas: `Lemmas/Raster.lean`; model: `Model/Raster.lean`).
`getCell`, `scatter`, `cellValue`, `aggregates` are the models of `Raster.getCell`,
`Raster.addCollectionToRaster`, the `co_*` cell operators and `Raster.computeAggregates`.
Scalars: any linearly ordered field with a floor function (`ℚ`, `ℝ`); `floor`/`ceil` are `Int.floor`/`Int.ceil`.
A feature value `none` is NaN. `WF g` says the grid is the one the constructor builds on a bounding box
`xmin ≤ xmax`, `ymin ≤ ymax` — zero width and zero height included: all observations on one vertical or horizontal
line, a single observation — with positive resolution (`ncol = max 1 ⌈(xmax-xmin)/rx⌉`,
`nrow = max 1 ⌈(ymax-ymin)/ry⌉`; the `max 1` is the `fix:` commit bdf8515). -/
namespace TV.C19
open TV.Raster
variable {α : Type} [Field α] [LinearOrder α] [IsStrictOrderedRing α] [FloorRing α]

/-- T1. Every point of the extent is assigned a cell of the grid (`0 ≤ column < ncol`, `0 ≤ line < nrow`, lines
counted from the top) whose footprint — `[xmin + c·rx, xmin + (c+1)·rx) × [ymin + (nrow-1-r)·ry, ymin + (nrow-r)·ry)`,
closed on the right for the last column and on the top for line 0 — contains it; and it is the only cell of the
grid whose footprint contains the point. This includes the grids of zero width / height (one column / one row):
there `x = xmin` lies in column 0 = `[xmin, xmin + rx)`, `y = ymin` in line 0 = `[ymin, ymin + ry)`. -/
theorem cell_footprint (g : Grid α) (hg : WF g) (x y : α)
    (hx : g.xmin ≤ x ∧ x ≤ g.xmax) (hy : g.ymin ≤ y ∧ y ≤ g.ymax) :
    ∃ c r : ℤ, getCell Int.floor g x y = some (c, r) ∧ 0 ≤ c ∧ c < g.ncol ∧ 0 ≤ r ∧ r < g.nrow ∧ InCell g c r x y
      ∧ ∀ c' r' : ℤ, c' < g.ncol → 0 ≤ r' → InCell g c' r' x y → c' = c ∧ r' = r := by
  obtain ⟨c, r, h, c0, c1, r0, r1, hin⟩ := getCell_footprint g hg x y hx hy
  exact ⟨c, r, h, c0, c1, r0, r1, hin,
    fun c' r' hc' hr' h' => inCell_unique g hg.rx hg.ry x y c' r' c r hc' c1 hr' r0 h' hin⟩

/-- a point outside the extent is assigned no cell -/
theorem cell_outside (g : Grid α) (x y : α) (h : x < g.xmin ∨ g.xmax < x ∨ y < g.ymin ∨ g.ymax < y) :
    getCell Int.floor g x y = none := by
  unfold getCell
  by_cases h1 : x < g.xmin ∨ g.xmax < x
  · simp [h1]
  · have h2 : y < g.ymin ∨ g.ymax < y := by
      rcases h with h | h | h | h
      · exact absurd (Or.inl h) h1
      · exact absurd (Or.inr h) h1
      · exact Or.inl h
      · exact Or.inr h
    simp [h1, h2]

/-- T2. Scattering observations that lie in the extent never fails; afterwards the cell in line `i`, column `j`
holds exactly the values of the observations whose `getCell` is `(j, i)`, in scatter order (each value lands in
exactly one cell). Hence the cell sizes add up to the number of observations, and the `co_count` values add up to
the number of non-NaN values. -/
theorem conservation {V : Type} (g : Grid α) (hg : WF g) (obs : List (α × α × V))
    (hin : ∀ o ∈ obs, (g.xmin ≤ o.1 ∧ o.1 ≤ g.xmax) ∧ (g.ymin ≤ o.2.1 ∧ o.2.1 ≤ g.ymax)) :
    ∃ cells : Cells V,
      scatter Int.floor g (emptyCells g.nrow.toNat g.ncol.toNat) obs = some cells
      ∧ Rect cells g.nrow.toNat g.ncol.toNat
      ∧ (∀ i j, cellAt cells i j
          = located (fun o : α × α × V => getCell Int.floor g o.1 o.2.1) (fun o => o.2.2) j i obs)
      ∧ (∑ i ∈ Finset.range g.nrow.toNat, ∑ j ∈ Finset.range g.ncol.toNat, (cellAt cells i j).length) = obs.length
      ∧ ∀ w : V → ℕ, (∑ i ∈ Finset.range g.nrow.toNat, ∑ j ∈ Finset.range g.ncol.toNat, ((cellAt cells i j).map w).sum)
          = (obs.map (fun o => w o.2.2)).sum := by
  have hrange : ∀ o ∈ obs, ∃ col line : Int, getCell Int.floor g o.1 o.2.1 = some (col, line)
      ∧ 0 ≤ col ∧ col < (g.ncol.toNat : ℤ) ∧ 0 ≤ line ∧ line < (g.nrow.toNat : ℤ) := by
    intro o ho
    obtain ⟨c, r, h, c0, c1, r0, r1, _⟩ := getCell_footprint g hg o.1 o.2.1 (hin o ho).1 (hin o ho).2
    refine ⟨c, r, h, c0, ?_, r0, ?_⟩
    · rw [Int.toNat_of_nonneg hg.ncol_pos.le]; exact c1
    · rw [Int.toNat_of_nonneg hg.nrow_pos.le]; exact r1
  obtain ⟨cells, hsc, hR, hcells⟩ := scatterBy_spec (fun o : α × α × V => getCell Int.floor g o.1 o.2.1)
    (fun o => o.2.2) g.nrow.toNat g.ncol.toNat obs _ (rect_empty _ _) hrange
  have hcells' : ∀ i j, cellAt cells i j
      = located (fun o : α × α × V => getCell Int.floor g o.1 o.2.1) (fun o => o.2.2) j i obs := by
    intro i j; rw [hcells i j, cellAt_empty]; simp
  have hw := located_weight_sum (fun o : α × α × V => getCell Int.floor g o.1 o.2.1) (fun o => o.2.2)
  refine ⟨cells, by rw [scatter_eq_scatterBy]; exact hsc, hR, hcells', ?_, ?_⟩
  · have := hw (fun _ => 1) g.nrow.toNat g.ncol.toNat obs hrange
    simp only [hcells']
    simpa using this
  · intro w
    simp only [hcells']
    exact hw w g.nrow.toNat g.ncol.toNat obs hrange

/-- T3. Each cell operator equals the aggregate over exactly the non-NaN values of the cell (`nonNaN l`):
count = their number; sum = their sum; min / max = their least / greatest element; avg = sum / number;
median = middle element (or half-sum of the two middle elements) of their sorted permutation; with no non-NaN
value (empty cell, or all NaN) count and sum are 0 and the others are NaN, which `computeAggregates` stores as the
no-data value. -/
theorem aggregate_spec (l : List (Option α)) (noData : α) :
    cellValue .count l = some (((nonNaN l).length : ℕ) : α)
    ∧ cellValue .sum l = some (nonNaN l).sum
    ∧ ((cellValue .min l = none ↔ nonNaN l = []) ∧ ∀ m, cellValue .min l = some m → m ∈ nonNaN l ∧ ∀ v ∈ nonNaN l, m ≤ v)
    ∧ ((cellValue .max l = none ↔ nonNaN l = []) ∧ ∀ m, cellValue .max l = some m → m ∈ nonNaN l ∧ ∀ v ∈ nonNaN l, v ≤ m)
    ∧ cellValue .avg l = (if nonNaN l = [] then none else some ((nonNaN l).sum / ((nonNaN l).length : α)))
    ∧ ((cellValue .median l = none ↔ nonNaN l = []) ∧
        (nonNaN l ≠ [] → ∃ s : List α, s.Perm (nonNaN l) ∧ s.Pairwise (· ≤ ·) ∧
          (((nonNaN l).length % 2 = 1 ∧ ∃ h : ((nonNaN l).length - 1) / 2 < s.length,
              cellValue .median l = some s[((nonNaN l).length - 1) / 2])
           ∨ ((nonNaN l).length % 2 = 0 ∧ ∃ (h1 : (nonNaN l).length / 2 < s.length) (h2 : (nonNaN l).length / 2 - 1 < s.length),
              cellValue .median l = some ((1 / 2 : α) * (s[(nonNaN l).length / 2] + s[(nonNaN l).length / 2 - 1]))))))
    ∧ (nonNaN l = [] → ∀ op, (cellValue op l).getD noData
          = if op = .count ∨ op = .sum then 0 else noData) := by
  refine ⟨by simp [cellValue, coCount_eq], by simp [cellValue, coSum_eq], coMin_spec l, coMax_spec l, coAvg_spec l,
    coMedian_spec l, ?_⟩
  intro hnil op
  cases op
  · simp [cellValue, coCount_eq, hnil]
  · simp [cellValue, coSum_eq, hnil]
  · have := (coMin_spec l).1.2 hnil; simp [cellValue, this]
  · have := (coMax_spec l).1.2 hnil; simp [cellValue, this]
  · simp [cellValue, coAvg_spec, hnil]
  · have := (coMedian_spec l).1.2 hnil; simp [cellValue, this]

/-- the grids written by `computeAggregates`: entry (line `i`, column `j`) is the operator's value on that cell,
NaN replaced by the no-data value -/
theorem aggregates_entry (noData : α) (op : Op) (c : Cells (Option α)) (i j : ℕ)
    (hi : i < c.length) (hj : j < (c[i]'hi).length) :
    ((aggregates noData op c)[i]?.bind (·[j]?)) = some ((cellValue op (cellAt c i j)).getD noData) := by
  unfold aggregates cellAt
  simp [hi, hj]

/-- End to end. For EVERY non-empty collection — a north-south or east-west line of observations and a single
observation included, whose extent has no width or no height —, positive resolution and margin ≥ 0, `summarize`
does not fail: it builds a well-formed grid (at least one column and one row) covering every observation, and
returns, per operator, `computeAggregates` of the cells `cells`, where the cell in line `i`, column `j` holds exactly
the values of the observations that `getCell` locates there (so that T1, T2, T3 apply to the returned grids).
Before bdf8515 this needed two different x and two different y among the observations. -/
theorem summarize_spec (obs : List (α × α × Option α)) (rx ry margin noData : α) (ops : List Op)
    (hrx : 0 < rx) (hry : 0 < ry) (hm : 0 ≤ margin) (hne : obs ≠ []) :
    ∃ (g : Grid α) (cells : Cells (Option α)),
      summarize Int.floor Int.ceil noData obs rx ry margin ops
        = some (g, ops.map (fun op => aggregates noData op cells))
      ∧ WF g
      ∧ (∀ o ∈ obs, (g.xmin ≤ o.1 ∧ o.1 ≤ g.xmax) ∧ (g.ymin ≤ o.2.1 ∧ o.2.1 ≤ g.ymax))
      ∧ Rect cells g.nrow.toNat g.ncol.toNat
      ∧ ∀ i j, cellAt cells i j
          = located (fun o : α × α × Option α => getCell Int.floor g o.1 o.2.1) (fun o => o.2.2) j i obs := by
  have hxs : obs.map (fun o => o.1) ≠ [] := fun h => hne (List.map_eq_nil_iff.1 h)
  have hys : obs.map (fun o => o.2.1) ≠ [] := fun h => hne (List.map_eq_nil_iff.1 h)
  obtain ⟨bx0, e1, mbx0, hbx0⟩ := minOf_spec _ hxs
  obtain ⟨bx1, e2, _, hbx1⟩ := maxOf_spec _ hxs
  obtain ⟨by0, e3, mby0, hby0⟩ := minOf_spec _ hys
  obtain ⟨by1, e4, _, hby1⟩ := maxOf_spec _ hys
  have mx : ∀ o ∈ obs, o.1 ∈ obs.map (fun o => o.1) := fun o ho => List.mem_map.2 ⟨o, ho, rfl⟩
  have my : ∀ o ∈ obs, o.2.1 ∈ obs.map (fun o => o.2.1) := fun o ho => List.mem_map.2 ⟨o, ho, rfl⟩
  have hx : bx0 ≤ bx1 := hbx1 _ mbx0
  have hy : by0 ≤ by1 := hby1 _ mby0
  obtain ⟨hwf, hc1, hc2, hc3, hc4⟩ := mkGrid_wf bx0 bx1 by0 by1 rx ry margin hx hy hrx hry hm
  have hin : ∀ o ∈ obs, ((mkGrid Int.ceil bx0 bx1 by0 by1 rx ry margin).xmin ≤ o.1
        ∧ o.1 ≤ (mkGrid Int.ceil bx0 bx1 by0 by1 rx ry margin).xmax)
      ∧ ((mkGrid Int.ceil bx0 bx1 by0 by1 rx ry margin).ymin ≤ o.2.1
        ∧ o.2.1 ≤ (mkGrid Int.ceil bx0 bx1 by0 by1 rx ry margin).ymax) := fun o ho =>
    ⟨⟨le_trans hc1 (hbx0 _ (mx o ho)), le_trans (hbx1 _ (mx o ho)) hc2⟩,
     ⟨le_trans hc3 (hby0 _ (my o ho)), le_trans (hby1 _ (my o ho)) hc4⟩⟩
  obtain ⟨cells, hsc, hR, hcells, _, _⟩ := conservation _ hwf obs hin
  have hnrow : ¬ ((mkGrid Int.ceil bx0 bx1 by0 by1 rx ry margin).nrow ≤ 0) := by
    have : 0 < (mkGrid Int.ceil bx0 bx1 by0 by1 rx ry margin).nrow := hwf.nrow_pos
    omega
  refine ⟨_, cells, ?_, hwf, hin, hR, hcells⟩
  unfold summarize
  simp only [e1, e2, e3, e4, hnrow, ↓reduceIte, hsc]

/-- the `floor` / `ceil` the driver uses at `Rat` (core `Rat.floor`, `Rat.ceil`) are the `Int.floor` / `Int.ceil`
of the theorems, so on exact (dyadic) inputs the theorems speak about the very values the driver computes -/
theorem rat_floor_ceil (q : ℚ) : Int.floor q = Rat.floor q ∧ Int.ceil q = Rat.ceil q := by
  refine ⟨rfl, ?_⟩
  rw [Rat.ceil_eq_neg_floor_neg]
  have : (-q).floor = ⌊-q⌋ := rfl
  rw [this, Int.floor_neg, neg_neg]

/-! ### non-vacuity -/

/-- a 2 × 2 grid over [0,2]² with unit cells is well formed -/
def demoGrid : Grid ℚ := { xmin := 0, xmax := 2, ymin := 0, ymax := 2, rx := 1, ry := 1, ncol := 2, nrow := 2 }
example : WF demoGrid := by
  refine ⟨by decide, by decide, by decide, by decide, ?_, ?_⟩ <;>
  · show (2 : ℤ) = max 1 ⌈((2 : ℚ) - 0) / 1⌉
    norm_num
/-- the centre lies in column 1, line 0; the top-right corner too (closed outer border); the origin in (0, 1) -/
example : getCell Rat.floor demoGrid 1 1 = some (1, 0) ∧ getCell Rat.floor demoGrid 2 2 = some (1, 0)
    ∧ getCell Rat.floor demoGrid 0 0 = some (0, 1) := by decide +kernel
/-- a grid of zero width: the three observations of a north-south line (1,0), (1,1), (1,2), unit cells -/
def lineGrid : Grid ℚ := { xmin := 1, xmax := 1, ymin := 0, ymax := 2, rx := 1, ry := 1, ncol := 1, nrow := 2 }
example : WF lineGrid := by
  refine ⟨by decide, by decide, by decide, by decide, ?_, ?_⟩
  · show (1 : ℤ) = max 1 ⌈((1 : ℚ) - 1) / 1⌉
    norm_num
  · show (2 : ℤ) = max 1 ⌈((2 : ℚ) - 0) / 1⌉
    norm_num
/-- it is the grid the constructor builds on that line, and the three points get the cells of the single column:
(0, 1), (0, 0) and, on the closed top border, (0, 0) -/
example : (mkGrid Rat.ceil 1 1 0 2 1 1 0).ncol = 1 ∧ (mkGrid Rat.ceil 1 1 0 2 1 1 0).nrow = 2
    ∧ getCell Rat.floor lineGrid 1 0 = some (0, 1) ∧ getCell Rat.floor lineGrid 1 1 = some (0, 0)
    ∧ getCell Rat.floor lineGrid 1 2 = some (0, 0) := by decide +kernel
/-- `summarize` of the inputs of the defect repaired by bdf8515: a north-south line (count grid `[[2],[1]]`), an
east-west line (`[[1, 2]]`), a single observation (`[[1]]`) — none raises -/
example :
    (summarize Rat.floor Rat.ceil (-99999 : ℚ) [(1, 0, some 1), (1, 1, some 1), (1, 2, none), (1, 2, some 5)] 1 1 0 [.count, .max]).map (·.2)
      = some [[[2], [1]], [[5], [1]]]
    ∧ (summarize Rat.floor Rat.ceil (-99999 : ℚ) [(0, 2, some 1), (1, 2, some 1), (2, 2, some 1)] 1 1 0 [.count]).map (·.2)
      = some [[[1, 2]]]
    ∧ (summarize Rat.floor Rat.ceil (-99999 : ℚ) [(0, 2, some 1)] 1 1 (1/4) [.count]).map (·.2) = some [[[1]]] := by
  decide +kernel
/-- the operators on a cell holding NaN, 1, 2 (the input of the defect repaired by 90d9915 / 4b05560) -/
example : coMin [none, some (1 : ℚ), some 2] = some 1 ∧ coMax [none, some (1 : ℚ), some 2] = some 2
    ∧ coCount [none, some (1 : ℚ), some 2] = 2 ∧ coMedian [none, some (1 : ℚ), some 2] = some (3 / 2)
    ∧ coMedian ([none] : List (Option ℚ)) = none := by decide +kernel

end TV.C19
