import TracklibVerif.Lemmas.Raster
import TracklibVerif.Lemmas.RasterSession
import TracklibVerif.Lemmas.RasterRounded
import Mathlib.Data.Rat.Floor
import Mathlib.Tactic.NormNum
/-! # C19 — grid summarising conserves observations and aggregates per cell

Property theorems only (helper lemmas: `Lemmas/Raster.lean`, `Lemmas/RasterSession.lean`; models: `Model/Raster.lean`,
`Model/RasterSession.lean`). `getCell`, `scatter`, `cellValue`, `aggregates` are the models of `Raster.getCell`, the scatter
loop of `Raster.addCollectionToRaster`, the `co_*` cell operators and the per-band loop of `Raster.computeAggregates`;
`addBand`, `addColl`, `computeAll`, `run` those of the calls `addAFMap`, `addCollectionToRaster`, `computeAggregates` and of
sequences of calls on one `Raster` object; `summarizeS` that of `summarize`.
Scalars: any linearly ordered field with a floor function (`ℚ`, `ℝ`); `floor`/`ceil` are `Int.floor`/`Int.ceil`.
A feature value `none` is NaN. `WF g` says the grid is the one the constructor builds on a bounding box
`xmin ≤ xmax`, `ymin ≤ ymax` — zero width and zero height included: all observations on one vertical or horizontal
line, a single observation — with positive resolution (`ncol = max 1 ⌈(xmax-xmin)/rx⌉`,
`nrow = max 1 ⌈(ymax-ymin)/ry⌉`; the `max 1` is the `fix:` commit bdf8515).

Floating point. The field theorems speak of exact arithmetic. The last sections restate the geometry for Python's floats:
`rounded_cell_in_grid` / `rounded_conservation` are about the SAME definitions `mkGrid`, `getCell`, `scatter` instantiated
at `RQ rnd` (rationals, every operation rounded by `rnd`; `Lemmas/RasterRounded.lean`), under explicit hypotheses on `rnd`
(monotone, integers up to the grid size kept, relative error `u`). Rounding inside the cell operators' sums is not covered.
`scatter_stops_at_outside` and `compute_failing_bands` state what a failing call leaves behind.
`Props/C19Partial.lean` (`add_collection_partial`, `partial_conservation`, `partial_then_compute`): which cells of which grids have been written when
the `TypeError` leaves `addCollectionToRaster` (a prefix of the track × feature × observation order), and that a later `computeAggregates` aggregates exactly those.
`computed_bands_persist` / `session_spec_after_setters` state what the calls AFTER a `computeAggregates` leave of its bands
(`setNoDataValue`, `addAFMap`: nothing is rewritten; the marker in a cell without value is the one of the call that wrote it).

Feature tables. The theorems here speak of the feature values of a track BY NAME (`Trk.feats`, `featVals`). That the ranks at
which a track stores its features (its own dictionary; different from track to track in one collection) do not matter is
`Props/C19Layout.lean`: `add_collection_by_name`, `track_layout_sound`, `add_collection_layout_independent`. -/
namespace TV.C19
open TV.Raster
variable {α : Type} [Field α] [LinearOrder α] [IsStrictOrderedRing α] [FloorRing α]

/-- T1. Every point of the extent is assigned a cell of the grid (`0 ≤ column < ncol`, `0 ≤ line < nrow`, lines
counted from the top) whose footprint — `[xmin + c·rx, xmin + (c+1)·rx) × [ymin + (nrow-1-r)·ry, ymin + (nrow-r)·ry)`,
closed on the right for the last column and on the top for line 0 — contains it; and it is the only cell of the
grid whose footprint contains the point. This includes the grids of zero width / height (one column / one row):
there `x = xmin` lies in column 0 = `[xmin, xmin + rx)`, `y = ymin` in line 0 = `[ymin, ymin + ry)`. -/
theorem cell_footprint (g : Grid α) (hg : WF g) (x y : α)
    (hx : g.xmin ≤ x ∧ x ≤ g.xmax) (hy : g.ymin ≤ y ∧ y ≤ g.ymax) :
    ∃ c r : ℤ, getCell Int.floor g x y = some (c, r) ∧ 0 ≤ c ∧ c < g.ncol ∧ 0 ≤ r ∧ r < g.nrow ∧ InCell g c r x y
      ∧ ∀ c' r' : ℤ, c' < g.ncol → 0 ≤ r' → InCell g c' r' x y → c' = c ∧ r' = r := by
  obtain ⟨c, r, h, c0, c1, r0, r1, hin⟩ := getCell_footprint g hg x y hx hy
  exact ⟨c, r, h, c0, c1, r0, r1, hin,
    fun c' r' hc' hr' h' => inCell_unique g hg.rx hg.ry x y c' r' c r hc' c1 hr' r0 h' hin⟩

/-- a point outside the extent is assigned no cell -/
theorem cell_outside (g : Grid α) (x y : α) (h : x < g.xmin ∨ g.xmax < x ∨ y < g.ymin ∨ g.ymax < y) :
    getCell Int.floor g x y = none := by
  unfold getCell
  by_cases h1 : x < g.xmin ∨ g.xmax < x
  · simp [h1]
  · have h2 : y < g.ymin ∨ g.ymax < y := by
      rcases h with h | h | h | h
      · exact absurd (Or.inl h) h1
      · exact absurd (Or.inr h) h1
      · exact Or.inl h
      · exact Or.inr h
    simp [h1, h2]

/-- T2. Scattering observations that lie in the extent never fails; afterwards the cell in line `i`, column `j`
holds exactly the values of the observations whose `getCell` is `(j, i)`, in scatter order (each value lands in
exactly one cell). Hence the cell sizes add up to the number of observations, and the `co_count` values add up to
the number of non-NaN values. -/
theorem conservation {V : Type} (g : Grid α) (hg : WF g) (obs : List (α × α × V))
    (hin : ∀ o ∈ obs, (g.xmin ≤ o.1 ∧ o.1 ≤ g.xmax) ∧ (g.ymin ≤ o.2.1 ∧ o.2.1 ≤ g.ymax)) :
    ∃ cells : Cells V,
      scatter Int.floor g (emptyCells g.nrow.toNat g.ncol.toNat) obs = some cells
      ∧ Rect cells g.nrow.toNat g.ncol.toNat
      ∧ (∀ i j, cellAt cells i j
          = located (fun o : α × α × V => getCell Int.floor g o.1 o.2.1) (fun o => o.2.2) j i obs)
      ∧ (∑ i ∈ Finset.range g.nrow.toNat, ∑ j ∈ Finset.range g.ncol.toNat, (cellAt cells i j).length) = obs.length
      ∧ ∀ w : V → ℕ, (∑ i ∈ Finset.range g.nrow.toNat, ∑ j ∈ Finset.range g.ncol.toNat, ((cellAt cells i j).map w).sum)
          = (obs.map (fun o => w o.2.2)).sum := by
  have hrange : ∀ o ∈ obs, ∃ col line : Int, getCell Int.floor g o.1 o.2.1 = some (col, line)
      ∧ 0 ≤ col ∧ col < (g.ncol.toNat : ℤ) ∧ 0 ≤ line ∧ line < (g.nrow.toNat : ℤ) := by
    intro o ho
    obtain ⟨c, r, h, c0, c1, r0, r1, _⟩ := getCell_footprint g hg o.1 o.2.1 (hin o ho).1 (hin o ho).2
    refine ⟨c, r, h, c0, ?_, r0, ?_⟩
    · rw [Int.toNat_of_nonneg hg.ncol_pos.le]; exact c1
    · rw [Int.toNat_of_nonneg hg.nrow_pos.le]; exact r1
  obtain ⟨cells, hsc, hR, hcells⟩ := scatterBy_spec (fun o : α × α × V => getCell Int.floor g o.1 o.2.1)
    (fun o => o.2.2) g.nrow.toNat g.ncol.toNat obs _ (rect_empty _ _) hrange
  have hcells' : ∀ i j, cellAt cells i j
      = located (fun o : α × α × V => getCell Int.floor g o.1 o.2.1) (fun o => o.2.2) j i obs := by
    intro i j; rw [hcells i j, cellAt_empty]; simp
  have hw := located_weight_sum (fun o : α × α × V => getCell Int.floor g o.1 o.2.1) (fun o => o.2.2)
  refine ⟨cells, by rw [scatter_eq_scatterBy]; exact hsc, hR, hcells', ?_, ?_⟩
  · have := hw (fun _ => 1) g.nrow.toNat g.ncol.toNat obs hrange
    simp only [hcells']
    simpa using this
  · intro w
    simp only [hcells']
    exact hw w g.nrow.toNat g.ncol.toNat obs hrange

/-- T3. Each cell operator equals the aggregate over exactly the non-NaN values of the cell (`nonNaN l`):
count = their number; sum = their sum; min / max = their least / greatest element; avg = sum / number;
median = middle element (or half-sum of the two middle elements) of their sorted permutation; with no non-NaN
value (empty cell, or all NaN) count and sum are 0 and the others are NaN, which `computeAggregates` stores as the
no-data value. -/
theorem aggregate_spec (l : List (Option α)) (noData : α) :
    cellValue .count l = some (((nonNaN l).length : ℕ) : α)
    ∧ cellValue .sum l = some (nonNaN l).sum
    ∧ ((cellValue .min l = none ↔ nonNaN l = []) ∧ ∀ m, cellValue .min l = some m → m ∈ nonNaN l ∧ ∀ v ∈ nonNaN l, m ≤ v)
    ∧ ((cellValue .max l = none ↔ nonNaN l = []) ∧ ∀ m, cellValue .max l = some m → m ∈ nonNaN l ∧ ∀ v ∈ nonNaN l, v ≤ m)
    ∧ cellValue .avg l = (if nonNaN l = [] then none else some ((nonNaN l).sum / ((nonNaN l).length : α)))
    ∧ ((cellValue .median l = none ↔ nonNaN l = []) ∧
        (nonNaN l ≠ [] → ∃ s : List α, s.Perm (nonNaN l) ∧ s.Pairwise (· ≤ ·) ∧
          (((nonNaN l).length % 2 = 1 ∧ ∃ h : ((nonNaN l).length - 1) / 2 < s.length,
              cellValue .median l = some s[((nonNaN l).length - 1) / 2])
           ∨ ((nonNaN l).length % 2 = 0 ∧ ∃ (h1 : (nonNaN l).length / 2 < s.length) (h2 : (nonNaN l).length / 2 - 1 < s.length),
              cellValue .median l = some ((1 / 2 : α) * (s[(nonNaN l).length / 2] + s[(nonNaN l).length / 2 - 1]))))))
    ∧ (nonNaN l = [] → ∀ op, (cellValue op l).getD noData
          = if op = .count ∨ op = .sum then 0 else noData) := by
  refine ⟨by simp [cellValue, coCount_eq], by simp [cellValue, coSum_eq], coMin_spec l, coMax_spec l, coAvg_spec l,
    coMedian_spec l, ?_⟩
  intro hnil op
  cases op
  · simp [cellValue, coCount_eq, hnil]
  · simp [cellValue, coSum_eq, hnil]
  · have := (coMin_spec l).1.2 hnil; simp [cellValue, this]
  · have := (coMax_spec l).1.2 hnil; simp [cellValue, this]
  · simp [cellValue, coAvg_spec, hnil]
  · have := (coMedian_spec l).1.2 hnil; simp [cellValue, this]

/-- the grids written by `computeAggregates`: entry (line `i`, column `j`) is the operator's value on that cell,
NaN replaced by the no-data value -/
theorem aggregates_entry (noData : α) (op : Op) (c : Cells (Option α)) (i j : ℕ)
    (hi : i < c.length) (hj : j < (c[i]'hi).length) :
    ((aggregates noData op c)[i]?.bind (·[j]?)) = some ((cellValue op (cellAt c i j)).getD noData) := by
  unfold aggregates cellAt
  simp [hi, hj]

/-- the grids written by `computeAggregates` on a raster whose no-data value is `nd` (`none` = `None`): entry (line `i`,
column `j`) is the operator's value on that cell, and the raster's OWN no-data value when that value is NaN; hence a cell
without a non-NaN value (no observation, or only NaN) holds 0 for count and sum and the raster's no-data value — whatever it is —
for the four other operators. -/
theorem aggregatesN_entry (nd : Option α) (op : Op) (c : Cells (Option α)) (i j : ℕ)
    (hi : i < c.length) (hj : j < (c[i]'hi).length) :
    ((aggregatesN nd op c)[i]?.bind (·[j]?))
        = some (fillNaN nd (cellValue op (cellAt c i j)))
    ∧ (nonNaN (cellAt c i j) = [] →
        ((aggregatesN nd op c)[i]?.bind (·[j]?)) = some (if op = .count ∨ op = .sum then some 0 else nd)) := by
  have h1 : ((aggregatesN nd op c)[i]?.bind (·[j]?))
      = some (fillNaN nd (cellValue op (cellAt c i j))) := by
    unfold aggregatesN cellAt
    simp [hi, hj]
  refine ⟨h1, fun hnil => ?_⟩
  rw [h1]
  cases op
  · simp [cellValue, coCount_eq, hnil, fillNaN]
  · simp [cellValue, coSum_eq, hnil, fillNaN]
  · have := (coMin_spec (cellAt c i j)).1.2 hnil; simp [cellValue, this, fillNaN]
  · have := (coMax_spec (cellAt c i j)).1.2 hnil; simp [cellValue, this, fillNaN]
  · simp [cellValue, coAvg_spec, hnil, fillNaN]
  · have := (coMedian_spec (cellAt c i j)).1.2 hnil; simp [cellValue, this, fillNaN]

/-! ### the raster object as a state machine: sequences of calls on ONE `Raster`

`run floor s cmds` is the model of a sequence of calls (`addAFMap`, `addCollectionToRaster`, `computeAggregates`,
`setNoDataValue`), each one caught, on the raster in state `s`; `s.noData` is the raster's own no-data value (the constructor's
`novalue`, then whatever `setNoDataValue` put there; `none` = Python's `None`), which — since the `fix:` commit 279f7b2 — is what
`computeAggregates` writes. -/

/-- No call changes the grid geometry: after ANY sequence of calls (failing ones included) the geometry is the one
`Raster.__init__` built. -/
theorem session_geometry (floor : α → Int) (s : RState α) (cmds : List (Cmd α)) :
    (run floor s cmds).1.g = s.g ∧ (run floor s cmds).2.length = cmds.length :=
  ⟨run_g floor cmds s, run_length floor cmds s⟩

/-- `addCollectionToRaster` REPLACES the values, it does not accumulate. On a raster in ANY state `s` (whatever values an
earlier collection left, whatever the bands hold) with a well-formed grid, for a collection whose observations lie in the
extent and whose tracks have every feature the bands name: no exception; geometry, bands and no-data value are untouched;
the values are kept for exactly the features of the bands, and the cell (line `i`, column `j`) of feature `af` holds exactly
the values of `af` of the observations of THIS collection that `getCell` locates there, in track order. -/
theorem add_collection_spec (s : RState α) (hg : WF s.g) (afo : List String) (T : List (Trk α))
    (hperm : afo.isPerm (afsOf s.bands) = true)
    (hfeat : ∀ t ∈ T, ∀ af ∈ afo, (featVals t af).isSome = true) (hin : ∀ t ∈ T, InExtent s.g t) :
    ∃ V : Vals α, addColl Int.floor s afo T = ({ s with values := some V }, none)
      ∧ ∀ af, (af ∉ afo → V.lookup af = none)
        ∧ (af ∈ afo → ∃ c, V.lookup af = some c ∧ Rect c s.g.nrow.toNat s.g.ncol.toNat
            ∧ ∀ i j, cellAt c i j = located (fun o : α × α × Option α => getCell Int.floor s.g o.1 o.2.1) (fun o => o.2.2) j i
                (T.flatMap (fun t => obsOf t af))) :=
  ⟨valsOf s.g afo T, addColl_ok s hg afo T hperm hfeat hin, fun af => valsOf_spec s.g hg afo T hfeat hin af⟩

/-- Conservation on a raster with a history: after `addCollectionToRaster` (hypotheses of `add_collection_spec`), for every
feature of the bands the sizes of the cells add up to the number of observations of THIS collection (each observation is
in exactly one cell, nothing of an earlier collection is counted), and any per-value weight is conserved — with the
weight "is not NaN": the entries of a `co_count` band add up to the number of non-NaN values. -/
theorem add_collection_conservation (s : RState α) (hg : WF s.g) (afo : List String) (T : List (Trk α))
    (hperm : afo.isPerm (afsOf s.bands) = true)
    (hfeat : ∀ t ∈ T, ∀ af ∈ afo, (featVals t af).isSome = true) (hin : ∀ t ∈ T, InExtent s.g t)
    (af : String) (haf : af ∈ afo) :
    ∃ (V : Vals α) (c : Cells (Option α)), addColl Int.floor s afo T = ({ s with values := some V }, none) ∧ V.lookup af = some c
      ∧ (∑ i ∈ Finset.range s.g.nrow.toNat, ∑ j ∈ Finset.range s.g.ncol.toNat, (cellAt c i j).length)
          = (T.flatMap (fun t => obsOf t af)).length
      ∧ ∀ w : Option α → ℕ, (∑ i ∈ Finset.range s.g.nrow.toNat, ∑ j ∈ Finset.range s.g.ncol.toNat, ((cellAt c i j).map w).sum)
          = ((T.flatMap (fun t => obsOf t af)).map (fun o => w o.2.2)).sum := by
  obtain ⟨V, hV, hspec⟩ := add_collection_spec s hg afo T hperm hfeat hin
  obtain ⟨c, hl, _, hc⟩ := (hspec af).2 haf
  have hrange : ∀ o ∈ T.flatMap (fun t => obsOf t af), ∃ col line : Int, getCell Int.floor s.g o.1 o.2.1 = some (col, line)
      ∧ 0 ≤ col ∧ col < (s.g.ncol.toNat : ℤ) ∧ 0 ≤ line ∧ line < (s.g.nrow.toNat : ℤ) := by
    intro o ho
    obtain ⟨t, ht, hot⟩ := List.mem_flatMap.1 ho
    have hp := hin t ht _ (obsOf_mem t af o hot)
    obtain ⟨cc, r, h, c0, c1, r0, r1, _⟩ := getCell_footprint s.g hg o.1 o.2.1 hp.1 hp.2
    refine ⟨cc, r, h, c0, ?_, r0, ?_⟩
    · rw [Int.toNat_of_nonneg hg.ncol_pos.le]; exact c1
    · rw [Int.toNat_of_nonneg hg.nrow_pos.le]; exact r1
  have hw := located_weight_sum (fun o : α × α × Option α => getCell Int.floor s.g o.1 o.2.1) (fun o => o.2.2)
  refine ⟨V, c, hV, hl, ?_, ?_⟩
  · have := hw (fun _ => 1) s.g.nrow.toNat s.g.ncol.toNat _ hrange
    simp only [hc]
    simpa using this
  · intro w
    simp only [hc]
    exact hw w s.g.nrow.toNat s.g.ncol.toNat _ hrange

/-- the observations handed to the scatter for a feature the track has (a value per position) are all its positions, in
order: none is dropped -/
theorem obs_cover (t : Trk α) (af : String) (vs : List (Option α)) (h : featVals t af = some vs) (hl : vs.length = t.pts.length) :
    (obsOf t af).map (fun o => (o.1, o.2.1)) = t.pts := by
  unfold obsOf
  rw [h]
  simp only [List.map_map]
  have : ((fun o : α × α × Option α => (o.1, o.2.1)) ∘ fun pv : (α × α) × Option α => (pv.1.1, pv.1.2, pv.2)) = Prod.fst := by
    funext pv; rfl
  rw [this, List.map_fst_zip]
  omega

/-- a track lacking a feature the bands name: `AnalyticalFeatureError`, and — the dictionary having been replaced
before the test — every cell of every feature is left empty: the earlier collection's values are gone -/
theorem add_collection_missing_feature (floor : α → Int) (s : RState α) (afo : List String) (T : List (Trk α))
    (hperm : afo.isPerm (afsOf s.bands) = true)
    (t : Trk α) (ht : t ∈ T) (af : String) (haf : af ∈ afo) (hmiss : featVals t af = none) :
    addColl floor s afo T
      = ({ s with values := some (afo.map (fun a => (a, emptyCells s.g.nrow.toNat s.g.ncol.toNat))) }, some .afError) := by
  unfold addColl
  have h1 : (!(afo.isPerm (afsOf s.bands))) = false := by rw [hperm]; rfl
  have h2 : (T.any (fun t => afo.any (fun af => (featVals t af).isNone))) = true := by
    rw [List.any_eq_true]
    refine ⟨t, ht, ?_⟩
    rw [List.any_eq_true]
    exact ⟨af, haf, by rw [hmiss]; rfl⟩
  rw [h1, h2]
  simp

/-- an observation outside the extent (every track having every feature, at least one band): `getCell` returns `None`,
the unpacking raises `TypeError`; bands and geometry are untouched (the values scattered before it stay: exactly which ones is
`add_collection_partial`, `Props/C19Partial.lean`) -/
theorem add_collection_outside (s : RState α) (hg : WF s.g) (afo : List String) (T : List (Trk α))
    (hperm : afo.isPerm (afsOf s.bands) = true) (hne : afo ≠ [])
    (hfeat : ∀ t ∈ T, ∀ af ∈ afo, HasFeat t af) (hout : ∃ t ∈ T, ∃ p ∈ t.pts, ¬ Inside s.g p.1 p.2) :
    (addColl Int.floor s afo T).2 = some .type ∧ (addColl Int.floor s afo T).1.bands = s.bands
      ∧ (addColl Int.floor s afo T).1.g = s.g := by
  refine ⟨?_, (addColl_g _ s afo T).2, (addColl_g _ s afo T).1⟩
  unfold addColl
  have h1 : (!(afo.isPerm (afsOf s.bands))) = false := by rw [hperm]; rfl
  have h2 : (T.any (fun t => afo.any (fun af => (featVals t af).isNone))) = false := by
    rw [List.any_eq_false]
    intro t ht
    rw [Bool.not_eq_true, List.any_eq_false]
    intro af haf
    obtain ⟨vs, hvs, _⟩ := hfeat t ht af haf
    rw [hvs]; simp
  rw [h1, h2]
  simp only [Bool.false_eq_true, ↓reduceIte]
  apply addTracks_outside s.g hg T _ (fun e => hne (List.map_eq_nil_iff.1 e)) ?_ hout
  intro e he
  obtain ⟨af, haf, rfl⟩ := List.mem_map.1 he
  exact ⟨rect_empty _ _, fun t ht => hfeat t ht af haf⟩

/-- The invariant over operation sequences. Take ANY sequence of calls `pre` on a new raster (bands added, other
collections scattered and aggregated, calls that raised — anything), then `addCollectionToRaster` of a collection `T` inside
the extent whose tracks have every feature of the bands, then any calls `post` other than `addCollectionToRaster` (bands
added later, `setNoDataValue`, further `computeAggregates`), then `computeAggregates`, every band being named
`<feature>#<operator>` with a feature scattered by that `addCollectionToRaster` and one of the six operators. Then neither that
`addCollectionToRaster` nor the last `computeAggregates` raises, the geometry is still the constructor's, the bands are those
present before the last call, and EVERY band — whatever it held before: nothing, an explicit grid, the aggregates of an
earlier collection — holds, in (line `i`, column `j`), its operator applied to exactly the values of its feature of the
observations of `T` that `getCell` locates in that cell, a cell without a non-NaN value holding the raster's OWN no-data value as it
is at that call — the constructor's `novalue` or what `setNoDataValue` put there since, `None` included (`aggregatesN_entry`). With T1 (`cell_footprint`), T2 (`conservation`) and T3
(`aggregate_spec`) this is the property for the collection LAST scattered, after any history. -/
theorem session_spec (g : Grid α) (hg : WF g) (nd : Option α) (pre post : List (Cmd α)) (afo : List String) (T : List (Trk α))
    (hpost : ∀ c ∈ post, c.isAdd = false)
    (hperm : afo.isPerm (afsOf (run Int.floor (initState g nd) pre).1.bands) = true)
    (hfeat : ∀ t ∈ T, ∀ af ∈ afo, (featVals t af).isSome = true) (hin : ∀ t ∈ T, InExtent g t)
    (hbands : ∀ b ∈ (run Int.floor (initState g nd) (pre ++ [.add afo T] ++ post)).1.bands,
        ∃ af opn rest, b.name = af :: opn :: rest ∧ af ∈ afo ∧ (opOf opn).isSome = true) :
    ∃ (s3 : RState α) (outs : List (Option Err)),
      run Int.floor (initState g nd) (pre ++ [.add afo T] ++ post ++ [.compute]) = (s3, outs)
      ∧ outs[pre.length]? = some none ∧ outs.getLast? = some none
      ∧ s3.g = g ∧ s3.noData = (run Int.floor (initState g nd) (pre ++ [.add afo T] ++ post)).1.noData
      ∧ s3.bands.map (·.name) = (run Int.floor (initState g nd) (pre ++ [.add afo T] ++ post)).1.bands.map (·.name)
      ∧ ∀ b ∈ s3.bands, ∀ af opn rest op, b.name = af :: opn :: rest → opOf opn = some op →
          ∃ c : Cells (Option α), Rect c g.nrow.toNat g.ncol.toNat
            ∧ (∀ i j, cellAt c i j = located (fun o : α × α × Option α => getCell Int.floor g o.1 o.2.1) (fun o => o.2.2) j i
                (T.flatMap (fun t => obsOf t af)))
            ∧ b.grid = some (aggregatesN s3.noData op c) := by
  have hthrough := run_through_add g hg nd pre post afo T hperm hfeat hin
  rw [hthrough] at hbands
  have hcore := session_core g hg nd pre post afo T hpost hperm hfeat hin hbands
  refine ⟨_, _, hcore, ?_, ?_, ?_, ?_, ?_, ?_⟩
  · have hl : (run Int.floor (initState g nd) pre).2.length = pre.length := run_length _ _ _
    simp only [List.append_assoc]
    rw [List.getElem?_append_right (by omega), hl]
    simp
  · rw [List.getLast?_concat]
  · simp only
    rw [run_g]
    exact run_g _ _ _
  · rw [hthrough]
  · rw [hthrough]
    simp [computeBand_name]
  · intro b hb af opn rest op hn hop
    simp only [List.mem_map] at hb
    obtain ⟨b0, hb0, rfl⟩ := hb
    rw [computeBand_name] at hn
    obtain ⟨af', opn', rest', hn', haf', _⟩ := hbands b0 hb0
    rw [hn'] at hn
    simp only [List.cons.injEq] at hn
    obtain ⟨rfl, rfl, rfl⟩ := hn
    obtain ⟨c, hl, hR, hc⟩ := (valsOf_spec g hg afo T hfeat hin af').2 haf'
    refine ⟨c, hR, hc, ?_⟩
    rw [computeBand_ok _ _ b0 af' opn' rest' op c hn' hl hop]

/-- Reading the bands later. `computeAggregates` is the only call that writes into a band: after ANY sequence of other calls
on a raster in any state — `setNoDataValue` with any value, any number of times; `addAFMap`, failing or not; even
`addCollectionToRaster` — the geometry is the same, the bands of before are all still there, in place, each with the very
grid it held (so a genuine aggregate that happens to be equal to a no-data marker, old or new, is never rewritten, and a
cell without value keeps the marker of the call that wrote it), the bands added since have names not taken before, and
`getAFMap(name)` returns what it returned. -/
theorem computed_bands_persist (floor : α → Int) (s : RState α) (later : List (Cmd α))
    (hlater : ∀ c ∈ later, c.isCompute = false) :
    (run floor s later).1.g = s.g
    ∧ (∃ extra, (run floor s later).1.bands = s.bands ++ extra ∧ ∀ b ∈ extra, ∀ b' ∈ s.bands, b.name ≠ b'.name)
    ∧ ∀ name b, getBand s name = some b → getBand (run floor s later).1 name = some b := by
  obtain ⟨extra, h1, h2⟩ := run_keeps_bands floor later s hlater
  exact ⟨run_g floor later s, ⟨extra, h1, h2⟩, fun name b hb => getBand_append s _ extra h1 name b hb⟩

/-- `session_spec`, read later: after the sequence of `session_spec` (any calls, a well-formed `addCollectionToRaster(T)`, calls
other than `addCollectionToRaster`, `computeAggregates`), then ANY calls other than `computeAggregates` (`setNoDataValue` once or
several times — to 0, to a count, to a value a cell really holds —, `addAFMap`, …): the bands written by that
`computeAggregates` (`s3.bands`) are the first bands of the final raster `s4`, unchanged: EVERY one still holds its operator
over exactly the values of the observations of `T` located in each cell, and in a cell without a non-NaN value 0 for count /
sum, otherwise the no-data value the raster had AT THAT `computeAggregates` (`s3.noData`) — not the one it has now. -/
theorem session_spec_after_setters (g : Grid α) (hg : WF g) (nd : Option α) (pre post later : List (Cmd α)) (afo : List String)
    (T : List (Trk α))
    (hpost : ∀ c ∈ post, c.isAdd = false)
    (hperm : afo.isPerm (afsOf (run Int.floor (initState g nd) pre).1.bands) = true)
    (hfeat : ∀ t ∈ T, ∀ af ∈ afo, (featVals t af).isSome = true) (hin : ∀ t ∈ T, InExtent g t)
    (hbands : ∀ b ∈ (run Int.floor (initState g nd) (pre ++ [.add afo T] ++ post)).1.bands,
        ∃ af opn rest, b.name = af :: opn :: rest ∧ af ∈ afo ∧ (opOf opn).isSome = true)
    (hlater : ∀ c ∈ later, c.isCompute = false) :
    ∃ (s3 s4 : RState α) (outs : List (Option Err)) (extra : List (Band α)),
      run Int.floor (initState g nd) (pre ++ [.add afo T] ++ post ++ [.compute]) = (s3, outs)
      ∧ (run Int.floor (initState g nd) (pre ++ [.add afo T] ++ post ++ [.compute] ++ later)).1 = s4
      ∧ s4.g = g ∧ s4.bands = s3.bands ++ extra ∧ (∀ b ∈ extra, ∀ b' ∈ s3.bands, b.name ≠ b'.name)
      ∧ ∀ b ∈ s3.bands, ∀ af opn rest op, b.name = af :: opn :: rest → opOf opn = some op →
          ∃ c : Cells (Option α), Rect c g.nrow.toNat g.ncol.toNat
            ∧ (∀ i j, cellAt c i j = located (fun o : α × α × Option α => getCell Int.floor g o.1 o.2.1) (fun o => o.2.2) j i
                (T.flatMap (fun t => obsOf t af)))
            ∧ b.grid = some (aggregatesN s3.noData op c) := by
  obtain ⟨s3, outs, hrun, _, _, hg3, _, _, hspec⟩ := session_spec g hg nd pre post afo T hpost hperm hfeat hin hbands
  obtain ⟨hg4, ⟨extra, hb4, hfresh⟩, _⟩ := computed_bands_persist Int.floor s3 later hlater
  refine ⟨s3, _, outs, extra, hrun, rfl, ?_, ?_, hfresh, hspec⟩
  · rw [run_append, hrun]; simp only; rw [hg4, hg3]
  · rw [run_append, hrun]; exact hb4

/-- One-shot corollary: `summarize`. For EVERY collection of non-empty tracks — a north-south or east-west line of
observations and a single observation included, whose extent has no width or no height —, positive resolution, margin ≥ 0,
a non-empty list of (feature, operator) pairs without repetition, operators among the six, every track having every
feature: `summarize` does not fail and does not return 0; it builds a well-formed grid (at least one column and one row)
covering every observation, with one band per pair, in call order; and every band holds, in (line `i`, column `j`), its
operator applied to exactly the values of its feature of the observations that `getCell` locates in that cell (so that T1, T2,
T3 apply to the returned grids). A cell without a non-NaN value holds `NO_DATA_VALUE` (`wr`), the no-data value of the raster
`summarize` builds, except for count and sum (0). It is `session_spec` for the call sequence `addAFMap … addAFMap, addCollectionToRaster,
computeAggregates` on a new raster. Before bdf8515 this needed two different x and two different y among the observations. -/
theorem summarize_spec (tracks : List (Trk α)) (afs ops afo : List String) (rx ry margin wr : α)
    (hrx : 0 < rx) (hry : 0 < ry) (hm : 0 ≤ margin)
    (hne : tracks ≠ []) (hpts : ∀ t ∈ tracks, t.pts ≠ [])
    (hafs : afs ≠ []) (hlen : afs.length = ops.length)
    (hdist : ((afs.zip ops).map (fun p => [p.1, p.2])).Nodup)
    (hops : ∀ o ∈ ops, (opOf o).isSome = true)
    (hperm : afo.isPerm afs.eraseDups = true)
    (hfeat : ∀ t ∈ tracks, ∀ af ∈ afs, (featVals t af).isSome = true) :
    ∃ s : RState α, summarizeS Int.floor Int.ceil wr tracks afs ops rx ry margin afo = .ok s
      ∧ WF s.g ∧ (∀ t ∈ tracks, InExtent s.g t) ∧ s.noData = some wr
      ∧ s.bands.map (·.name) = (afs.zip ops).map (fun p => [p.1, p.2])
      ∧ ∀ b ∈ s.bands, ∀ af opn rest op, b.name = af :: opn :: rest → opOf opn = some op →
          ∃ c : Cells (Option α), Rect c s.g.nrow.toNat s.g.ncol.toNat
            ∧ (∀ i j, cellAt c i j = located (fun o : α × α × Option α => getCell Int.floor s.g o.1 o.2.1) (fun o => o.2.2) j i
                (tracks.flatMap (fun t => obsOf t af)))
            ∧ b.grid = some (aggregatesN (some wr) op c) := by
  -- the bounding box
  obtain ⟨t0, ht0⟩ := List.exists_mem_of_ne_nil tracks hne
  obtain ⟨p0, hp0⟩ := List.exists_mem_of_ne_nil t0.pts (hpts t0 ht0)
  have mx : ∀ t ∈ tracks, ∀ p ∈ t.pts, p.1 ∈ tracks.flatMap (fun t => t.pts.map (·.1)) := fun t ht p hp =>
    List.mem_flatMap.2 ⟨t, ht, List.mem_map.2 ⟨p, hp, rfl⟩⟩
  have my : ∀ t ∈ tracks, ∀ p ∈ t.pts, p.2 ∈ tracks.flatMap (fun t => t.pts.map (·.2)) := fun t ht p hp =>
    List.mem_flatMap.2 ⟨t, ht, List.mem_map.2 ⟨p, hp, rfl⟩⟩
  have hxs : tracks.flatMap (fun t => t.pts.map (·.1)) ≠ [] := List.ne_nil_of_mem (mx t0 ht0 p0 hp0)
  have hys : tracks.flatMap (fun t => t.pts.map (·.2)) ≠ [] := List.ne_nil_of_mem (my t0 ht0 p0 hp0)
  obtain ⟨bx0, e1, mbx0, hbx0⟩ := minOf_spec _ hxs
  obtain ⟨bx1, e2, _, hbx1⟩ := maxOf_spec _ hxs
  obtain ⟨by0, e3, mby0, hby0⟩ := minOf_spec _ hys
  obtain ⟨by1, e4, _, hby1⟩ := maxOf_spec _ hys
  obtain ⟨hwf, hc1, hc2, hc3, hc4⟩ := mkGrid_wf bx0 bx1 by0 by1 rx ry margin (hbx1 _ mbx0) (hby1 _ mby0) hrx hry hm
  generalize hgdef : mkGrid Int.ceil bx0 bx1 by0 by1 rx ry margin = g at hwf hc1 hc2 hc3 hc4
  have hin : ∀ t ∈ tracks, InExtent g t := fun t ht p hp =>
    ⟨⟨le_trans hc1 (hbx0 _ (mx t ht p hp)), le_trans (hbx1 _ (mx t ht p hp)) hc2⟩,
     ⟨le_trans hc3 (hby0 _ (my t ht p hp)), le_trans (hby1 _ (my t ht p hp)) hc4⟩⟩
  -- the bands
  have hnames : ∀ n ∈ (afs.zip ops).map (fun p => [p.1, p.2]), n ≠ [""] ∧ ∀ b ∈ (initState g (some wr)).bands, b.name ≠ n := by
    intro n hn
    obtain ⟨p, _, rfl⟩ := List.mem_map.1 hn
    exact ⟨by simp, fun b hb => by simp [initState] at hb⟩
  have hpre := run_bands Int.floor ((afs.zip ops).map (fun p => [p.1, p.2])) (initState g (some wr)) hdist hnames
  rw [List.map_map] at hpre
  have hprebands : (run Int.floor (initState g (some wr)) ((afs.zip ops).map (fun p => Cmd.band [p.1, p.2] none))).1.bands
      = (afs.zip ops).map (fun p => (⟨[p.1, p.2], none⟩ : Band α)) := by
    have : ((fun n => Cmd.band n none) ∘ fun p : String × String => [p.1, p.2]) = fun p : String × String => (Cmd.band [p.1, p.2] none : Cmd α) := rfl
    rw [this] at hpre
    rw [hpre]; simp [initState]
  have hafsOf : afsOf ((afs.zip ops).map (fun p => (⟨[p.1, p.2], none⟩ : Band α))) = afs.eraseDups := by
    unfold afsOf
    rw [List.map_map]
    have : ((fun b : Band α => b.name.headD "") ∘ fun p : String × String => (⟨[p.1, p.2], none⟩ : Band α)) = Prod.fst := by
      funext p; rfl
    rw [this, List.map_fst_zip (by omega)]
  have hmem : ∀ af, af ∈ afo ↔ af ∈ afs := by
    intro af
    rw [(List.isPerm_iff.1 hperm).mem_iff, List.mem_eraseDups]
  have hfeat' : ∀ t ∈ tracks, ∀ af ∈ afo, (featVals t af).isSome = true := fun t ht af haf => hfeat t ht af ((hmem af).1 haf)
  have hperm' : afo.isPerm (afsOf (run Int.floor (initState g (some wr)) ((afs.zip ops).map (fun p => Cmd.band [p.1, p.2] none))).1.bands) = true := by
    rw [hprebands, hafsOf]; exact hperm
  have hthrough := run_through_add g hwf (some wr) ((afs.zip ops).map (fun p => Cmd.band [p.1, p.2] none)) [] afo tracks hperm' hfeat' hin
  have hb2 : (run Int.floor (initState g (some wr)) ((afs.zip ops).map (fun p => Cmd.band [p.1, p.2] none) ++ [.add afo tracks] ++ [])).1.bands
      = (afs.zip ops).map (fun p => (⟨[p.1, p.2], none⟩ : Band α)) := by
    rw [hthrough, run_nil]
    exact hprebands
  have hbands : ∀ b ∈ (run Int.floor (initState g (some wr)) ((afs.zip ops).map (fun p => Cmd.band [p.1, p.2] none) ++ [.add afo tracks] ++ [])).1.bands,
      ∃ af opn rest, b.name = af :: opn :: rest ∧ af ∈ afo ∧ (opOf opn).isSome = true := by
    rw [hb2]
    intro b hb
    obtain ⟨p, hp, rfl⟩ := List.mem_map.1 hb
    exact ⟨p.1, p.2, [], rfl, (hmem p.1).2 (List.of_mem_zip hp).1, hops p.2 (List.of_mem_zip hp).2⟩
  obtain ⟨s3, outs, hrun, _, _, hg3, hnd3, hnames3, hspec⟩ := session_spec g hwf (some wr)
    ((afs.zip ops).map (fun p => Cmd.band [p.1, p.2] none)) [] afo tracks (by simp) hperm' hfeat' hin hbands
  -- the outcomes: no call raised
  have hcore := session_core g hwf (some wr) ((afs.zip ops).map (fun p => Cmd.band [p.1, p.2] none)) [] afo tracks (by simp) hperm' hfeat' hin
    (by rw [← hthrough]; exact hbands)
  have houts : firstErr outs = none := by
    have : outs = (run Int.floor (initState g (some wr)) ((afs.zip ops).map (fun p => Cmd.band [p.1, p.2] none))).2 ++ [none] ++ [] ++ [none] := by
      have := hcore.symm.trans hrun
      exact (Prod.mk.inj this).2.symm
    rw [this]
    have hpre2 : (run Int.floor (initState g (some wr)) ((afs.zip ops).map (fun p => Cmd.band [p.1, p.2] none))).2
        = ((afs.zip ops).map (fun p => [p.1, p.2])).map (fun _ => (none : Option Err)) := by
      have h2 : ((fun n => Cmd.band n none) ∘ fun p : String × String => [p.1, p.2]) = fun p : String × String => (Cmd.band [p.1, p.2] none : Cmd α) := rfl
      rw [h2] at hpre
      rw [hpre]
    rw [hpre2]
    generalize ((afs.zip ops).map (fun p => [p.1, p.2])) = L
    induction L with
    | nil => rfl
    | cons _ _ ih => simpa [firstErr] using ih
  have hnd : s3.noData = some wr := by
    rw [hnd3, hthrough, run_nil]
    have h2 : ((fun n => Cmd.band n none) ∘ fun p : String × String => [p.1, p.2]) = fun p : String × String => (Cmd.band [p.1, p.2] none : Cmd α) := rfl
    rw [h2] at hpre
    simp only [afterAdd, hpre]
    rfl
  refine ⟨s3, ?_, by rw [hg3]; exact hwf, by rw [hg3]; exact hin, hnd, ?_, ?_⟩
  · unfold summarizeS
    have h0 : ¬ afs.length = 0 := fun h => hafs (List.eq_nil_of_length_eq_zero h)
    have h1 : ¬ afs.length ≠ ops.length := fun h => h hlen
    have h2 : (tracks.isEmpty || tracks.any (fun t => t.pts.isEmpty)) = false := by
      rw [Bool.or_eq_false_iff]
      refine ⟨by simpa using hne, ?_⟩
      rw [List.any_eq_false]
      intro t ht
      simpa using hpts t ht
    simp only [h0, h1, h2, ↓reduceIte, Bool.false_eq_true, e1, e2, e3, e4, hgdef]
    have hcmds : (afs.zip ops).map (fun p => Cmd.band [p.1, p.2] none) ++ [Cmd.add afo tracks, Cmd.compute]
        = (afs.zip ops).map (fun p => (Cmd.band [p.1, p.2] none : Cmd α)) ++ [.add afo tracks] ++ [] ++ [.compute] := by simp
    rw [hcmds, hrun]
    simp only [houts]
  · rw [hnames3, hb2]; simp
  · rw [hg3, ← hnd]; exact hspec

/-- the `floor` / `ceil` the driver uses at `Rat` (core `Rat.floor`, `Rat.ceil`) are the `Int.floor` / `Int.ceil`
of the theorems, so on exact (dyadic) inputs the theorems speak about the very values the driver computes -/
theorem rat_floor_ceil (q : ℚ) : Int.floor q = Rat.floor q ∧ Int.ceil q = Rat.ceil q := by
  refine ⟨rfl, ?_⟩
  rw [Rat.ceil_eq_neg_floor_neg]
  have : (-q).floor = ⌊-q⌋ := rfl
  rw [this, Int.floor_neg, neg_neg]

/-! ### non-vacuity -/

/-- a 2 × 2 grid over [0,2]² with unit cells is well formed -/
def demoGrid : Grid ℚ := { xmin := 0, xmax := 2, ymin := 0, ymax := 2, rx := 1, ry := 1, ncol := 2, nrow := 2 }
example : WF demoGrid := by
  refine ⟨by decide, by decide, by decide, by decide, ?_, ?_⟩ <;>
  · show (2 : ℤ) = max 1 ⌈((2 : ℚ) - 0) / 1⌉
    norm_num
/-- the centre lies in column 1, line 0; the top-right corner too (closed outer border); the origin in (0, 1) -/
example : getCell Rat.floor demoGrid 1 1 = some (1, 0) ∧ getCell Rat.floor demoGrid 2 2 = some (1, 0)
    ∧ getCell Rat.floor demoGrid 0 0 = some (0, 1) := by decide +kernel
/-- a grid of zero width: the three observations of a north-south line (1,0), (1,1), (1,2), unit cells -/
def lineGrid : Grid ℚ := { xmin := 1, xmax := 1, ymin := 0, ymax := 2, rx := 1, ry := 1, ncol := 1, nrow := 2 }
example : WF lineGrid := by
  refine ⟨by decide, by decide, by decide, by decide, ?_, ?_⟩
  · show (1 : ℤ) = max 1 ⌈((1 : ℚ) - 1) / 1⌉
    norm_num
  · show (2 : ℤ) = max 1 ⌈((2 : ℚ) - 0) / 1⌉
    norm_num
/-- it is the grid the constructor builds on that line, and the three points get the cells of the single column:
(0, 1), (0, 0) and, on the closed top border, (0, 0) -/
example : (mkGrid Rat.ceil 1 1 0 2 1 1 0).ncol = 1 ∧ (mkGrid Rat.ceil 1 1 0 2 1 1 0).nrow = 2
    ∧ getCell Rat.floor lineGrid 1 0 = some (0, 1) ∧ getCell Rat.floor lineGrid 1 1 = some (0, 0)
    ∧ getCell Rat.floor lineGrid 1 2 = some (0, 0) := by decide +kernel
/-- `summarize` of the inputs of the defect repaired by bdf8515: a north-south line (count grid `[[2],[1]]`, max `[[5],[1]]`), an
east-west line (`[[1, 2]]`), a single observation (`[[1]]`) — none raises -/
def oneTrack (pts : List (ℚ × ℚ)) (vs : List (Option ℚ)) : List (Trk ℚ) := [{ uid := 1, pts := pts, feats := [("v", vs)] }]
def bandGrids : SumRes ℚ → List (Option (List (List (Option ℚ))))
  | .ok s => s.bands.map (·.grid)
  | _ => []
example :
    bandGrids (summarizeS Rat.floor Rat.ceil (-99999 : ℚ) (oneTrack [(1, 0), (1, 1), (1, 2), (1, 2)] [some 1, some 1, none, some 5])
        ["v", "v"] ["co_count", "co_max"] 1 1 0 ["v"]) = [some [[some 2], [some 1]], some [[some 5], [some 1]]]
    ∧ bandGrids (summarizeS Rat.floor Rat.ceil (-99999 : ℚ) (oneTrack [(0, 2), (1, 2), (2, 2)] [some 1, some 1, some 1])
        ["v"] ["co_count"] 1 1 0 ["v"]) = [some [[some 1, some 2]]]
    ∧ bandGrids (summarizeS Rat.floor Rat.ceil (-99999 : ℚ) (oneTrack [(0, 2)] [some 1]) ["v"] ["co_count"] 1 1 (1/4) ["v"])
        = [some [[some 1]]] := by
  decide +kernel
/-- a session on ONE raster (the 2 × 2 grid above): a band, a first collection, `computeAggregates`, a second collection,
`computeAggregates` again, a band added later, `computeAggregates`: no call raises; after the second pass the count band
describes the second collection alone (`[[0,0],[0,1]]`, not `[[0,1],[1,1]]`), and the band added later is computed too -/
def demoT0 : List (Trk ℚ) := [{ uid := 1, pts := [(0, 0), (1/2, 1/2), (2, 2)], feats := [("v", [some 1, none, some 3])] }]
def demoT1 : List (Trk ℚ) := [{ uid := 7, pts := [(3/2, 1/2)], feats := [("v", [some 4])] }]
example :
    (run Rat.floor (initState demoGrid (some (-99999 : ℚ)))
        [.band ["v", "co_count"] none, .add ["v"] demoT0, .compute]).1.bands.map (·.grid) = [some [[some 0, some 1], [some 1, some 0]]]
    ∧ (run Rat.floor (initState demoGrid (some (-99999 : ℚ)))
        [.band ["v", "co_count"] none, .add ["v"] demoT0, .compute, .add ["v"] demoT1, .compute,
         .band ["v", "co_max"] none, .compute]).1.bands.map (·.grid)
        = [some [[some 0, some 0], [some 0, some 1]], some [[some (-99999), some (-99999)], [some (-99999), some 4]]]
    ∧ (run Rat.floor (initState demoGrid (some (-99999 : ℚ)))
        [.band ["v", "co_count"] none, .add ["v"] demoT0, .compute, .add ["v"] demoT1, .compute,
         .band ["v", "co_max"] none, .compute]).2 = [none, none, none, none, none, none, none] := by
  decide +kernel
/-- the raster's own no-data value (the input of the defect repaired by 279f7b2): built with `novalue = -1`, the cells without value
of a `co_min` band hold -1; after `setNoDataValue(7)` between `addCollectionToRaster` and `computeAggregates`, 7; after
`setNoDataValue(None)`, `None`; the count band holds 0 there in every case -/
example :
    (run Rat.floor (initState demoGrid (some (-1 : ℚ)))
        [.band ["v", "co_min"] none, .add ["v"] demoT1, .compute]).1.bands.map (·.grid)
      = [some [[some (-1), some (-1)], [some (-1), some 4]]]
    ∧ (run Rat.floor (initState demoGrid (some (-1 : ℚ)))
        [.band ["v", "co_min"] none, .add ["v"] demoT1, .setNoData (some 7), .compute]).1.bands.map (·.grid)
      = [some [[some 7, some 7], [some 7, some 4]]]
    ∧ (run Rat.floor (initState demoGrid (some (-1 : ℚ)))
        [.band ["v", "co_min"] none, .band ["v", "co_count"] none, .add ["v"] demoT1, .setNoData none, .compute]).1.bands.map (·.grid)
      = [some [[none, none], [none, some 4]], some [[some 0, some 0], [some 0, some 1]]] := by
  decide +kernel
/-- the no-data value changed after the bands were computed (the input of seeded change C19-11): a raster built with `novalue = -1`:
the min band holds -1 in the cells without value, the count band genuine 0s and 1s; `setNoDataValue(0)`, `setNoDataValue(1)`, a band
added, `setNoDataValue(None)`: the two computed bands are exactly as `computeAggregates` left them (the -1 of the cells without
value, the 0 and 1 of the counts), the new band is empty, the no-data value is `None` -/
example :
    let s := (run Rat.floor (initState demoGrid (some (-1))) [.band ["v", "co_min"] none, .band ["v", "co_count"] none, .add ["v"] demoT0, .compute]).1
    let s' := (run Rat.floor s [.setNoData (some 0), .setNoData (some 1), .band ["w", "co_sum"] none, .setNoData none]).1
    s.bands.map (·.grid) = [some [[some (-1), some 3], [some 1, some (-1)]], some [[some 0, some 1], [some 1, some 0]]]
    ∧ s'.bands.map (·.grid) = [some [[some (-1), some 3], [some 1, some (-1)]], some [[some 0, some 1], [some 1, some 0]], none]
    ∧ s'.noData = none ∧ (getBand s' ["v", "co_count"]).map (·.grid) = some (some [[some 0, some 1], [some 1, some 0]]) := by decide +kernel

/-- calls that raise, in the order the Python meets them: `computeAggregates` before any collection (`AttributeError`), a name
already taken (`WrongArgumentError`), a band without `#` (`IndexError`), an observation outside the grid (`TypeError`), a band
added after the collection for a feature it did not scatter (`KeyError`), an unknown operator (`NameError`) -/
example :
    (run Rat.floor (initState demoGrid (some (-99999 : ℚ)))
        [.band ["v", "co_count"] none, .compute, .band ["v", "co_count"] none,
         .add ["v"] [{ uid := 1, pts := [(3, 3)], feats := [("v", [some 1])] }],
         .add ["v"] demoT1, .band ["w", "co_sum"] none, .compute]).2
      = [none, some .attr, some .wrongArg, some .type, none, none, some .key]
    ∧ (run Rat.floor (initState demoGrid (some (-99999 : ℚ)))
        [.band ["v"] none, .add ["v"] demoT1, .compute, .add ["v"] [{ uid := 1, pts := [(1, 1)], feats := [] }]]).2
      = [none, none, some .index, some .afError]
    ∧ (run Rat.floor (initState demoGrid (some (-99999 : ℚ)))
        [.band ["v", "undefined_op"] none, .add ["v"] demoT1, .compute]).2 = [none, none, some .name] := by
  decide +kernel
/-- the operators on a cell holding NaN, 1, 2 (the input of the defect repaired by 90d9915 / 4b05560) -/
example : coMin [none, some (1 : ℚ), some 2] = some 1 ∧ coMax [none, some (1 : ℚ), some 2] = some 2
    ∧ coCount [none, some (1 : ℚ), some 2] = 2 ∧ coMedian [none, some (1 : ℚ), some 2] = some (3 / 2)
    ∧ coMedian ([none] : List (Option ℚ)) = none := by decide +kernel

/-! ## What a failing call leaves behind -/

/-- The scatter loop (one track, one feature) meeting an observation outside the extent: the observations before it,
all inside the extent, are in their cells — cell `(i, j)` holds what it held plus the values of those observations whose
`getCell` is `(j, i)`, in order —, the loop stops there with `TypeError` (`getCell` returned `None`, the tuple unpacking
raises), and nothing after that observation is scattered: this is the partial state `addCollectionToRaster` leaves in
the grid of that feature. How the partial grids of the several features and tracks combine — the `for trace: for
afname:` order — is `add_collection_partial` (`Props/C19Partial.lean`), with `partial_conservation` and
`partial_then_compute` for what a later `computeAggregates` makes of them. -/
theorem scatter_stops_at_outside {W : Type} (g : Grid α) (hg : WF g) (pre post : List (α × α × W)) (o : α × α × W)
    (c : Cells W) (hR : Rect c g.nrow.toNat g.ncol.toNat)
    (hpre : ∀ p ∈ pre, Inside g p.1 p.2.1) (ho : ¬ Inside g o.1 o.2.1) :
    ∃ c' : Cells W, scatterP Int.floor g c (pre ++ o :: post) = (c', some .type)
      ∧ scatter Int.floor g c pre = some c' ∧ Rect c' g.nrow.toNat g.ncol.toNat
      ∧ ∀ i j, cellAt c' i j = cellAt c i j
          ++ located (fun p : α × α × W => getCell Int.floor g p.1 p.2.1) (fun p => p.2.2) j i pre := by
  have hrange : ∀ p ∈ pre, ∃ col line : Int, getCell Int.floor g p.1 p.2.1 = some (col, line)
      ∧ 0 ≤ col ∧ col < (g.ncol.toNat : ℤ) ∧ 0 ≤ line ∧ line < (g.nrow.toNat : ℤ) := by
    intro p hp
    obtain ⟨cc, r, h, c0, c1, r0, r1, _⟩ := getCell_footprint g hg p.1 p.2.1 (hpre p hp).1 (hpre p hp).2
    refine ⟨cc, r, h, c0, ?_, r0, ?_⟩
    · rw [Int.toNat_of_nonneg hg.ncol_pos.le]; exact c1
    · rw [Int.toNat_of_nonneg hg.nrow_pos.le]; exact r1
  obtain ⟨c', hsc, hR', hcells⟩ := scatterBy_spec (fun p : α × α × W => getCell Int.floor g p.1 p.2.1)
    (fun p => p.2.2) g.nrow.toNat g.ncol.toNat pre c hR hrange
  have hsc' : scatter Int.floor g c pre = some c' := by rw [scatter_eq_scatterBy]; exact hsc
  refine ⟨c', ?_, hsc', hR', hcells⟩
  rw [scatterP_append_of_scatter Int.floor g (o :: post) pre c c' hsc']
  obtain ⟨x, y, v⟩ := o
  simp only [scatterP, getCell_outside g x y ho]

/-- A failing `computeAggregates` (whatever the exception: `IndexError`, `AttributeError`, `KeyError`, `NameError`): there is
a first band that raises; the bands before it have been rewritten with their aggregates, that band and all the following
ones are exactly as they were (no band is ever half rewritten), the exception is that band's, and nothing else of the
raster (geometry, no-data value, values) changes. -/
theorem compute_failing_bands (s : RState α) (e : Err) (h : (step Int.floor s .compute).2 = some e) :
    ∃ (pre : List (Band α)) (b : Band α) (post : List (Band α)), s.bands = pre ++ b :: post
      ∧ (∀ p ∈ pre, (computeBand s.noData s.values p).2 = none)
      ∧ computeBand s.noData s.values b = (b, some e)
      ∧ (step Int.floor s .compute).1
          = { s with bands := pre.map (fun p => (computeBand s.noData s.values p).1) ++ b :: post } := by
  simp only [step] at h ⊢
  have hpair : computeAll s.noData s.values s.bands = ((computeAll s.noData s.values s.bands).1, some e) := by rw [← h]
  obtain ⟨pre, b, post, h1, h2, h3, h4⟩ := computeAll_fail s.noData s.values s.bands _ e hpair
  exact ⟨pre, b, post, h1, h2, h3, by rw [h4]⟩

/-- non-vacuity: on the 2 × 2 demo grid, a band computed, then a band without operator: the first band is rewritten, the
second raises `IndexError` and is left as it was, the third is not reached -/
example :
    (run Rat.floor (initState demoGrid (some (-99999 : ℚ)))
        [.band ["v", "co_count"] none, .band ["v"] none, .band ["v", "co_max"] none, .add ["v"] demoT1, .compute]).1.bands.map (·.grid)
      = [some [[some 0, some 0], [some 0, some 1]], none, none]
    ∧ (run Rat.floor (initState demoGrid (some (-99999 : ℚ)))
        [.band ["v", "co_count"] none, .band ["v"] none, .band ["v", "co_max"] none, .add ["v"] demoT1, .compute]).2
      = [none, none, none, none, some .index] := by decide +kernel
/-- non-vacuity: the scatter of (1/2, 1/2), (3, 3), (3/2, 3/2) on the demo grid stops at the second observation -/
example : scatterP Rat.floor demoGrid (emptyCells 2 2) [((1/2 : ℚ), (1/2 : ℚ), (7 : ℕ)), (3, 3, 8), (3/2, 3/2, 9)]
    = ([[[], []], [[7], []]], some .type) := by decide +kernel

/-! ## The same geometry in rounded (floating-point) arithmetic

`RQ rnd` (`Lemmas/RasterRounded.lean`): the rationals with every `+ - * /` and every conversion of an integer followed by
the rounding `rnd`; comparisons exact. `mkGrid`, `getCell`, `scatter` at `RQ rnd` are the SAME model definitions as
above, now computing what Python computes in floats. `Rounding rnd N`: `rnd` is monotone and leaves the integers of
magnitude `≤ N` unchanged (IEEE binary64, any rounding mode, `N = 2^53`); `RoundingErr rnd N u` adds a relative error
bound `|rnd t - t| ≤ u |t|` (`u = 2^-53` for round-to-nearest, no underflow in these operations). `WFR g`: positive
resolution and `ncol`, `nrow` as the constructor computes them IN ROUNDED ARITHMETIC, `max 1 ⌈rnd (rnd (xmax - xmin) / rx)⌉`
(every grid `mkGrid RQ.ceil …` is: `mkGrid_wfr`). Exact footprints cannot be demanded of floats (an extent of
`3 + 10^-17` cells is given 3 lines and the observation at `ymax` goes to line 0, a hair above its exact footprint):
what holds is stated here. -/
section rounded
variable {rnd : ℚ → ℚ}

/-- T1 under rounding. For a grid built by the constructor in rounded arithmetic, every point of the extent — the
borders and corners included, whatever the rounding did to `extent / resolution` — gets a cell OF THE GRID
(`0 ≤ column < ncol`, `0 ≤ line < nrow`: `addCollectionToRaster` neither raises `IndexError` nor wraps around through a
negative index), and the point lies in that cell's footprint up to the rounding allowance `InCellUpTo`: the offset
`x - xmin` scaled by `(1 ± u)²` lies between the cell's edges `c·rx` and `(c+1)·rx`; for the lines, the rounded
subtraction from `nrow - 1` adds `u·nrow·ry`. Needs no exactness hypothesis: this is the statement about Python's
floats, for any rounding with relative error `u`. -/
theorem rounded_cell_in_grid {N : ℤ} {u : ℚ} (hr : RoundingErr rnd N u) (g : Grid (RQ rnd)) (hg : WFR g)
    (hN : g.ncol ≤ N ∧ g.nrow ≤ N) (x y : RQ rnd)
    (hx : g.xmin.v ≤ x.v ∧ x.v ≤ g.xmax.v) (hy : g.ymin.v ≤ y.v ∧ y.v ≤ g.ymax.v) :
    ∃ c l : ℤ, getCell RQ.floor g x y = some (c, l) ∧ 0 ≤ c ∧ c < g.ncol ∧ 0 ≤ l ∧ l < g.nrow
      ∧ InCellUpTo g u c l x.v y.v :=
  getCell_rounded_footprint hr g hg hN x y hx hy

/-- T2 under rounding (conservation for Python's floats). With a monotone rounding that keeps the integers up to the
grid size — no bound on the rounding error is needed — scattering observations of the extent never fails, every value
lands in exactly one cell of the grid (the one `getCell` computes), the cell sizes add up to the number of
observations and any per-value weight (non-NaN: the `co_count` total) is conserved. -/
theorem rounded_conservation {V : Type} {N : ℤ} (hr : Rounding rnd N) (g : Grid (RQ rnd)) (hg : WFR g)
    (hN : g.ncol ≤ N ∧ g.nrow ≤ N) (obs : List (RQ rnd × RQ rnd × V))
    (hin : ∀ o ∈ obs, (g.xmin.v ≤ o.1.v ∧ o.1.v ≤ g.xmax.v) ∧ (g.ymin.v ≤ o.2.1.v ∧ o.2.1.v ≤ g.ymax.v)) :
    ∃ cells : Cells V,
      scatter RQ.floor g (emptyCells g.nrow.toNat g.ncol.toNat) obs = some cells
      ∧ Rect cells g.nrow.toNat g.ncol.toNat
      ∧ (∀ i j, cellAt cells i j
          = located (fun o : RQ rnd × RQ rnd × V => getCell RQ.floor g o.1 o.2.1) (fun o => o.2.2) j i obs)
      ∧ (∑ i ∈ Finset.range g.nrow.toNat, ∑ j ∈ Finset.range g.ncol.toNat, (cellAt cells i j).length) = obs.length
      ∧ ∀ w : V → ℕ, (∑ i ∈ Finset.range g.nrow.toNat, ∑ j ∈ Finset.range g.ncol.toNat, ((cellAt cells i j).map w).sum)
          = (obs.map (fun o => w o.2.2)).sum := by
  have hncol_pos : 0 < g.ncol := by rw [hg.ncol]; exact lt_of_lt_of_le Int.one_pos (le_max_left _ _)
  have hnrow_pos : 0 < g.nrow := by rw [hg.nrow]; exact lt_of_lt_of_le Int.one_pos (le_max_left _ _)
  have hrange : ∀ o ∈ obs, ∃ col line : Int, getCell RQ.floor g o.1 o.2.1 = some (col, line)
      ∧ 0 ≤ col ∧ col < (g.ncol.toNat : ℤ) ∧ 0 ≤ line ∧ line < (g.nrow.toNat : ℤ) := by
    intro o ho
    obtain ⟨c, r, h, c0, c1, r0, r1⟩ := getCell_rounded_range hr g hg hN o.1 o.2.1 (hin o ho).1 (hin o ho).2
    refine ⟨c, r, h, c0, ?_, r0, ?_⟩
    · rw [Int.toNat_of_nonneg hncol_pos.le]; exact c1
    · rw [Int.toNat_of_nonneg hnrow_pos.le]; exact r1
  obtain ⟨cells, hsc, hR, hcells⟩ := scatterBy_spec (fun o : RQ rnd × RQ rnd × V => getCell RQ.floor g o.1 o.2.1)
    (fun o => o.2.2) g.nrow.toNat g.ncol.toNat obs _ (rect_empty _ _) hrange
  have hcells' : ∀ i j, cellAt cells i j
      = located (fun o : RQ rnd × RQ rnd × V => getCell RQ.floor g o.1 o.2.1) (fun o => o.2.2) j i obs := by
    intro i j; rw [hcells i j, cellAt_empty]; simp
  have hw := located_weight_sum (fun o : RQ rnd × RQ rnd × V => getCell RQ.floor g o.1 o.2.1) (fun o => o.2.2)
  refine ⟨cells, by rw [scatter_eq_scatterBy]; exact hsc, hR, hcells', ?_, ?_⟩
  · have := hw (fun _ => 1) g.nrow.toNat g.ncol.toNat obs hrange
    simp only [hcells']
    simpa using this
  · intro w
    simp only [hcells']
    exact hw w g.nrow.toNat g.ncol.toNat obs hrange

/-- the extent under rounding. `Raster.__init__` enlarges the bounding box by `margin` in floating point
(`xmin = bx0 - margin * (bx1 - bx0)`, … — four rounded operations per bound). For ANY monotone rounding with `rnd 0 = 0`
(no error bound needed), a bounding box whose four numbers are representable (`rnd b = b`: they ARE floats, read from the
observations) and `margin ≥ 0`, the extent the constructor computes still contains the bounding box, and is not
inverted: every observation of the collection satisfies the hypotheses `hx`, `hy` / `hin` of `rounded_cell_in_grid` /
`rounded_conservation` -/
theorem rounded_extent_contains_bbox (hmono : Monotone rnd) (h0 : rnd 0 = 0)
    (bx0 bx1 by0 by1 rx ry margin : RQ rnd)
    (hx : bx0.v ≤ bx1.v) (hy : by0.v ≤ by1.v) (hm : 0 ≤ margin.v)
    (rx0 : rnd bx0.v = bx0.v) (rx1 : rnd bx1.v = bx1.v) (ry0 : rnd by0.v = by0.v) (ry1 : rnd by1.v = by1.v) :
    let g := mkGrid RQ.ceil bx0 bx1 by0 by1 rx ry margin
    g.xmin.v ≤ bx0.v ∧ bx1.v ≤ g.xmax.v ∧ g.ymin.v ≤ by0.v ∧ by1.v ≤ g.ymax.v ∧
      g.xmin.v ≤ g.xmax.v ∧ g.ymin.v ≤ g.ymax.v := by
  have key : ∀ a b : RQ rnd, a.v ≤ b.v → rnd a.v = a.v → rnd b.v = b.v →
      (a - margin * (b - a)).v ≤ a.v ∧ b.v ≤ (b + margin * (b - a)).v := by
    intro a b hab ra rb
    have hd : 0 ≤ rnd (b.v - a.v) := by
      have := hmono (show (0 : ℚ) ≤ b.v - a.v by linarith); rwa [h0] at this
    have hmd : 0 ≤ rnd (margin.v * rnd (b.v - a.v)) := by
      have := hmono (mul_nonneg hm hd); rwa [h0] at this
    simp only [RQ.sub_v, RQ.add_v, RQ.mul_v]
    constructor
    · have := hmono (show a.v - rnd (margin.v * rnd (b.v - a.v)) ≤ a.v by linarith); rwa [ra] at this
    · have := hmono (show b.v ≤ b.v + rnd (margin.v * rnd (b.v - a.v)) by linarith); rwa [rb] at this
  obtain ⟨hx0, hx1⟩ := key bx0 bx1 hx rx0 rx1
  obtain ⟨hy0, hy1⟩ := key by0 by1 hy ry0 ry1
  exact ⟨hx0, hx1, hy0, hy1, le_trans hx0 (le_trans hx hx1), le_trans hy0 (le_trans hy hy1)⟩

end rounded

/-! Non-vacuity of the rounded statements: `rnd8` (exact below 1 in magnitude, rounded DOWN to a multiple of 1/8 above:
monotone, keeps every integer, relative error ≤ 1/8) is a `RoundingErr`. On the box `[0,1] × [0,13/4]` with cells
`1 × 21/20` the exact quotient `3.095…` would give 4 lines; rounded it is `3` and the constructor builds 3 lines: the
observation at `ymax` goes to line 0 (`idy = rnd8 (2 - 3) = -1`), which is a line of the grid, `0.1` above its exact
footprint `[2.1, 3.15]` and inside it up to the allowance. -/
def gEx : Grid (RQ rnd8) := mkGrid RQ.ceil ⟨0⟩ ⟨1⟩ ⟨0⟩ ⟨13 / 4⟩ ⟨1⟩ ⟨21 / 20⟩ ⟨0⟩

example : gEx.nrow = 3 ∧ gEx.ncol = 1 ∧ gEx.ymax.v = 13 / 4 ∧ ⌈(13 / 4 : ℚ) / (21 / 20)⌉ = 4 := by decide +kernel
example : getCell RQ.floor gEx ⟨1⟩ ⟨13 / 4⟩ = some (0, 0) ∧ getCell RQ.floor gEx ⟨1 / 2⟩ ⟨2⟩ = some (0, 1)
    ∧ getCell RQ.floor gEx ⟨0⟩ ⟨0⟩ = some (0, 2) := by decide +kernel
example : ∃ c l : ℤ, getCell RQ.floor gEx ⟨1⟩ ⟨13 / 4⟩ = some (c, l) ∧ 0 ≤ c ∧ c < gEx.ncol ∧ 0 ≤ l ∧ l < gEx.nrow
      ∧ InCellUpTo gEx (1 / 8) c l 1 (13 / 4) :=
  rounded_cell_in_grid (rnd8_rounding 3) gEx (mkGrid_wfr _ _ _ _ _ _ _ (by decide +kernel) (by decide +kernel))
    (by decide +kernel) ⟨1⟩ ⟨13 / 4⟩ (by decide +kernel) (by decide +kernel)
example : ∃ cells : Cells ℕ, scatter RQ.floor gEx (emptyCells 3 1) [(⟨1⟩, ⟨13 / 4⟩, 7), (⟨0⟩, ⟨0⟩, 8), (⟨1 / 2⟩, ⟨2⟩, 9)] = some cells
    ∧ cells = [[[7]], [[9]], [[8]]] := ⟨_, by decide +kernel, rfl⟩
/-- what the tolerance of seeded change "ceil(extent/res - 1e-9)" does, in the same arithmetic: with one line fewer than
the constructor's count the observation at `ymax` is sent to line `-1`, which Python's negative index stores in the BOTTOM
line -/
example : getCell RQ.floor { gEx with nrow := 2 } ⟨1⟩ ⟨13 / 4⟩ = some (0, -1)
    ∧ put (emptyCells 2 1 : Cells ℕ) (-1) 0 7 = some [[[]], [[7]]] := by decide +kernel
/-- the hypotheses of `rounded_extent_contains_bbox` on the example grid -/
example : let g := gEx; g.xmin.v ≤ 0 ∧ (1 : ℚ) ≤ g.xmax.v ∧ g.ymin.v ≤ 0 ∧ (13 / 4 : ℚ) ≤ g.ymax.v ∧
    g.xmin.v ≤ g.xmax.v ∧ g.ymin.v ≤ g.ymax.v :=
  rounded_extent_contains_bbox rnd8_mono (by decide +kernel) ⟨0⟩ ⟨1⟩ ⟨0⟩ ⟨13 / 4⟩ ⟨1⟩ ⟨21 / 20⟩ ⟨0⟩
    (by decide +kernel) (by decide +kernel) (by decide +kernel) (by decide +kernel) (by decide +kernel)
    (by decide +kernel) (by decide +kernel)

end TV.C19
