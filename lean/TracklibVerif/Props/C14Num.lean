import TracklibVerif.Lemmas.GeoNum
/-! # C14 — the conversions do not depend on the number types of the coordinates

Property theorem about `Model/GeoNum.lean` (Python's arithmetic on `int` / `bool` / numpy integer / `Fraction` / `float`
operands) and `Model/Geo.lean` instantiated at these numbers. Helpers: `Lemmas/GeoNum.lean`. -/
namespace TV.C14
open TV.Geo TV.GeoNum

/-- T20 A position is the same position whatever Python type its numbers have (`GeoCoords(2, 48, 120)` is
`GeoCoords(2.0, 48.0, 120.0)`): every point-level conversion of obs_coords.py — Geo→ECEF, ECEF→Geo, ECEF→ENU, ENU→ECEF,
Geo→ENU, ENU→Geo, ENU→ENU and the Lambert-93 forward projection — evaluated with Python's mixed arithmetic on
coordinates and bases that are exact numbers (`int`, `bool`, numpy integers, `Fraction`) or floats, in any combination,
returns numbers whose float values are what the float-only model returns on the float values of the inputs. Every libm
function is a parameter (`T`), no hypothesis on it. Needs exact arithmetic (stated over `ℝ`): in doubles Python's exact
`X*X + Y*Y`, `X - base.X` on ints/Fractions and the rounded float operations differ in the last bit (the harness compares
Fraction cases with 1e-7 m). This is the statement a `isinstance(hgt, float)` test in `GeoCoords.toECEFCoords` refutes, and
what entitles the harness to hand `float(v)` to the driver for a case with `ty`. -/
theorem number_types_irrelevant (T : Trig ℝ) (v : V3 (Num ℝ)) (b b2 : Base (Num ℝ)) :
    v3F (geoToEcef (trig T) v) = geoToEcef T (v3F v)
    ∧ v3F (ecefToGeo (trig T) v) = ecefToGeo T (v3F v)
    ∧ v3F (ecefToEnu (trig T) v b) = ecefToEnu T (v3F v) (baseF b)
    ∧ v3F (enuToEcef (trig T) v b) = enuToEcef T (v3F v) (baseF b)
    ∧ v3F (geoToEnu (trig T) v b) = geoToEnu T (v3F v) (baseF b)
    ∧ v3F (enuToGeo (trig T) v b) = enuToGeo T (v3F v) (baseF b)
    ∧ v3F (enuToEnu (trig T) v b b2) = enuToEnu T (v3F v) (baseF b) (baseF b2)
    ∧ v3F (toLambert93 (trig T) v) = toLambert93 T (v3F v) :=
  ⟨geoToEcef_num T v, ecefToGeo_num T v, ecefToEnu_num T v b, enuToEcef_num T v b, geoToEnu_num T v b,
   enuToGeo_num T v b, enuToEnu_num T v b b2, toLambert93_num T v⟩

/-- an int height, a Fraction latitude and a float longitude; an all-int ECEF base: the float values are the numbers themselves -/
example : v3F (⟨.flt 2.35, .exact (977 / 20), .exact 120⟩ : V3 (Num ℝ)) = ⟨2.35, 48.85, 120⟩
    ∧ baseF (.ecef ⟨.exact 4200000, .exact 170000, .exact 4780000⟩ : Base (Num ℝ)) = .ecef ⟨4200000, 170000, 4780000⟩ := by
  constructor
  · simp [v3F]; norm_num
  · simp [v3F, baseF]

/-- the exact operations are exact: `X*X + Y*Y` on two ints stays an exact number (no rounding before the square root) -/
example : ((Num.exact 3 : Num ℝ) * .exact 3 + .exact 4 * .exact 4) = .exact 25 := by
  show Num.add (Num.mul _ _) (Num.mul _ _) = _
  simp [Num.add, Num.mul]; norm_num

end TV.C14
