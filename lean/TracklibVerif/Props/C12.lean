import TracklibVerif.Lemmas.Partition
import TracklibVerif.Lemmas.PartitionArr
import Mathlib.Algebra.Order.Group.Int
/-! # C12 — optimal partitioning returns a global optimum for the requested direction

Property theorems only (helpers: `Lemmas/PartitionTable.lean` — the in-place table form equals the function
form; `Lemmas/Partition.lean` — optimality of the function form, `backtracking`). The model is
`Model/Partition.lean`; `optimalPartition 0 rows C mode` is the table form run by the driver, with the code's
convention `N = rows − 1` break candidates `0 … N−1` (hypothesis `3 ≤ rows` = at least two candidates).
Costs live in any linearly ordered additive commutative monoid (ℕ, ℤ, ℚ, ℝ; stated, not proved, for finite
doubles — the transfer check samples those). Lists are Python lists of indices. -/
namespace TV.C12
open TV.Partition
variable {α : Type} [AddCommMonoid α] [LinearOrder α] [IsOrderedAddMonoid α]

/-- the returned list is `0 :: mids ++ [N−1]`, consecutive elements increase, and its summed segment cost is
the table entry `D[0, N−1]`, which is the function form's value (for every `mode`, also outside {0, 1}) -/
theorem partition_spec (rows : Nat) (C : Nat → Nat → α) (mode : Nat) (h : 3 ≤ rows) :
    ∃ mids, optimalPartition 0 rows C mode = 0 :: (mids ++ [rows - 2]) ∧
      Inc (0 :: (mids ++ [rows - 2])) ∧
      pathCost 0 C (0 :: (mids ++ [rows - 2])) = (tables 0 rows C mode).D 0 (rows - 2) ∧
      (tables 0 rows C mode).D 0 (rows - 2) = (opt (better mode) (· + ·) C (rows - 1) 0 (rows - 2)).1 := by
  have hM : ∀ a b, a < b → b < rows - 1 →
      (tables 0 rows C mode).M a b = enc (-1) (opt (better mode) (· + ·) C (rows - 1) a b).2 :=
    fun a b hab hb => (fill_spec 0 mode (rows - 1) C a b hab hb).2
  have hD := (fill_spec 0 mode (rows - 1) C 0 (rows - 2) (by omega) (by omega)).1
  obtain ⟨mids, e, hinc, hc⟩ := bt_spec C (better mode) (rows - 1) (tables 0 rows C mode).M hM
    (rows - 1) 0 (rows - 2) (by omega) (by omega) (by omega)
  have e2 : rows - 1 - 1 = rows - 2 := by omega
  refine ⟨mids, ?_, hinc, ?_, hD⟩
  · unfold optimalPartition backward
    rw [e2, e]; rfl
  · rw [hc]; exact hD.symm

/-- **T1 `result_shape`**: for every matrix and every mode the result starts at the first candidate `0`, ends
at the last candidate `N − 1 = rows − 2`, and is strictly increasing. -/
theorem result_shape (rows : Nat) (C : Nat → Nat → α) (mode : Nat) (h : 3 ≤ rows) :
    (optimalPartition 0 rows C mode).head? = some 0 ∧
    (optimalPartition 0 rows C mode).getLast? = some (rows - 2) ∧
    (optimalPartition 0 rows C mode).Pairwise (· < ·) := by
  obtain ⟨mids, e, hinc, _, _⟩ := partition_spec rows C mode h
  rw [e]
  refine ⟨rfl, ?_, (inc_pairwise _).mp hinc⟩
  rw [lastOf_getLast?, lastOf_append]; rfl

/-- both directions at once: the result is at least as good (`R`) as every chain -/
theorem optimal_dir {R : α → α → Prop} (rows : Nat) (C : Nat → Nat → α) (mode : Nat)
    (hd : Dir (better (α := α) mode) R) (h : 3 ≤ rows)
    (π : List Nat) (h0 : π.head? = some 0) (hN : π.getLast? = some (rows - 2)) (hinc : π.Pairwise (· < ·)) :
    R (pathCost 0 C (optimalPartition 0 rows C mode)) (pathCost 0 C π) := by
  obtain ⟨mids, e, _, hc, hD⟩ := partition_spec rows C mode h
  rw [e, hc, hD]
  cases π with
  | nil => cases h0
  | cons a l =>
    have ha : a = 0 := by simpa using h0
    subst ha
    have hl : l ≠ [] := by
      intro hl; subst hl
      simp at hN; omega
    rw [lastOf_getLast?] at hN
    have hlast : lastOf 0 l = rows - 2 := by simpa using hN
    have := opt_bound hd C (rows - 1) 0 l hl ((inc_pairwise _).mpr hinc) (by omega)
    rw [hlast] at this
    exact this

/-- **T2 `optimal_min`**: with `mode = MODE_SEGMENTATION_MINIMIZE` (0) the summed segment cost of the result is
the minimum over ALL strictly increasing index lists from the first to the last candidate. -/
theorem optimal_min (rows : Nat) (C : Nat → Nat → α) (h : 3 ≤ rows)
    (π : List Nat) (h0 : π.head? = some 0) (hN : π.getLast? = some (rows - 2)) (hinc : π.Pairwise (· < ·)) :
    pathCost 0 C (optimalPartition 0 rows C 0) ≤ pathCost 0 C π :=
  optimal_dir rows C 0 dir_min h π h0 hN hinc

/-- **T2 `optimal_max`**: with `mode = MODE_SEGMENTATION_MAXIMIZE` (1) it is the maximum. -/
theorem optimal_max (rows : Nat) (C : Nat → Nat → α) (h : 3 ≤ rows)
    (π : List Nat) (h0 : π.head? = some 0) (hN : π.getLast? = some (rows - 2)) (hinc : π.Pairwise (· < ·)) :
    pathCost 0 C (optimalPartition 0 rows C 1) ≥ pathCost 0 C π :=
  optimal_dir rows C 1 dir_max h π h0 hN hinc

/-- table form = function form: the value left in `D[0, N−1]` by the in-place dynamic programme is the value of
the interval recursion `opt`, and it is the summed cost of the returned list. -/
theorem table_value (rows : Nat) (C : Nat → Nat → α) (mode : Nat) (h : 3 ≤ rows) :
    (tables 0 rows C mode).D 0 (rows - 2) = (opt (better mode) (· + ·) C (rows - 1) 0 (rows - 2)).1 ∧
    pathCost 0 C (optimalPartition 0 rows C mode) = (tables 0 rows C mode).D 0 (rows - 2) := by
  obtain ⟨mids, e, _, hc, hD⟩ := partition_spec rows C mode h
  exact ⟨hD, by rw [e, hc]⟩

/-- array form = function-table form: the programme run by the driver on real two-dimensional arrays
(`Array (Array _)` for numpy's `D` and `M`, in-place `D[i,j] = v`) returns the same list and leaves the same
tables as the function-table form the theorems above are about. -/
theorem array_form (rows : Nat) (C : Nat → Nat → α) (mode : Nat) :
    optimalPartitionA 0 rows C mode = optimalPartition 0 rows C mode ∧
    absT 0 (tablesA 0 rows C mode) = tables 0 rows C mode :=
  ⟨optimalPartitionA_eq 0 rows C mode, tablesA_eq 0 rows C mode⟩

/-! ## T3 — delegation -/

/-- the matrix built by `optimalSegmentation` holds `cost(track, a, b−1)` at every pair of candidates `a < b` -/
theorem segMatrix_entry (size : Nat) (cost : Nat → Int → α) (a b : Nat) (hab : a < b) (hb : b ≤ size - 2) (hs : 3 ≤ size) :
    segMatrix 0 size cost a b = cost a ((b : Int) - 1) := by
  unfold segMatrix
  have h1 : a + 2 < size ∧ a ≤ b ∧ b + 1 < size := by omega
  have h2 : ¬ (b + 2 < size ∧ b ≤ a ∧ a + 1 < size) := by omega
  simp only [if_pos h1, if_neg h2, add_zero]

/-- **T3 (segmentation)**: `optimalSegmentation(track, cost, glob, mode)` returns an increasing list from `0` to
`size − 2` that is optimal, in the requested direction, for the segment costs `cost(track, a, b−1)` it documents. -/
theorem segmentation_optimal {R : α → α → Prop} (size : Nat) (cost : Nat → Int → α) (mode : Nat)
    (hd : Dir (better (α := α) mode) R) (h : 3 ≤ size)
    (π : List Nat) (h0 : π.head? = some 0) (hN : π.getLast? = some (size - 2)) (hinc : π.Pairwise (· < ·)) :
    let segCost : Nat → Nat → α := fun a b => cost a ((b : Int) - 1)
    (optimalSegmentation 0 size cost mode).head? = some 0 ∧
    (optimalSegmentation 0 size cost mode).getLast? = some (size - 2) ∧
    (optimalSegmentation 0 size cost mode).Pairwise (· < ·) ∧
    R (pathCost 0 segCost (optimalSegmentation 0 size cost mode)) (pathCost 0 segCost π) := by
  intro segCost
  obtain ⟨s1, s2, s3⟩ := result_shape size (segMatrix 0 size cost) mode h
  refine ⟨s1, s2, s3, ?_⟩
  have hopt := optimal_dir size (segMatrix 0 size cost) mode hd h π h0 hN hinc
  have hcongr : ∀ (l : List Nat), l.head? = some 0 → l.getLast? = some (size - 2) → l.Pairwise (· < ·) →
      pathCost 0 (segMatrix 0 size cost) l = pathCost 0 segCost l := by
    intro l l0 lN linc
    cases l with
    | nil => cases l0
    | cons a t =>
      rw [lastOf_getLast?] at lN
      have hl : lastOf a t = size - 2 := by simpa using lN
      exact pathCost_congr _ _ (size - 2) (fun x y hxy hy => segMatrix_entry size cost x y hxy hy h) t a
        ((inc_pairwise _).mpr linc) (by omega)
  rw [hcongr π h0 hN hinc] at hopt
  unfold optimalSegmentation
  rw [← hcongr _ s1 s2 s3]
  exact hopt

theorem segmentation_optimal_min (size : Nat) (cost : Nat → Int → α) (h : 3 ≤ size)
    (π : List Nat) (h0 : π.head? = some 0) (hN : π.getLast? = some (size - 2)) (hinc : π.Pairwise (· < ·)) :
    pathCost 0 (fun a b => cost a ((b : Int) - 1)) (optimalSegmentation 0 size cost 0)
      ≤ pathCost 0 (fun a b => cost a ((b : Int) - 1)) π :=
  (segmentation_optimal size cost 0 dir_min h π h0 hN hinc).2.2.2

theorem segmentation_optimal_max (size : Nat) (cost : Nat → Int → α) (h : 3 ≤ size)
    (π : List Nat) (h0 : π.head? = some 0) (hN : π.getLast? = some (size - 2)) (hinc : π.Pairwise (· < ·)) :
    pathCost 0 (fun a b => cost a ((b : Int) - 1)) (optimalSegmentation 0 size cost 1)
      ≥ pathCost 0 (fun a b => cost a ((b : Int) - 1)) π :=
  (segmentation_optimal size cost 1 dir_max h π h0 hN hinc).2.2.2

/-- **T3 (simplification)**: `optimalSimplification(track, cost, eps, mode)` keeps exactly the observations at the
indices selected by the MINIMISING `optimalSegmentation`, whatever `mode` is: the `mode` argument is not
forwarded. Together with `segmentation_optimal_min` this is the optimality of the minimising simplification
modes; for a requested maximisation it is the defect recorded as finding D19. -/
theorem simplification_selects {ω : Type} (obs : List ω) (cost : Nat → Int → α) (mode : Nat) :
    optimalSimplification 0 obs cost mode =
      (optimalSegmentation 0 obs.length cost 0).filterMap (fun i => obs[i]?) := rfl

/-- `simplify(track, cost, MODE_SIMPLIFY_FREE)` is that minimising selection; `MODE_SIMPLIFY_FREE_MAXIMIZE`
raises (`none`). -/
theorem simplify_free {ω : Type} (obs : List ω) (cost : Nat → Int → α) :
    simplifyFree 0 obs cost 7 = some ((optimalSegmentation 0 obs.length cost 0).filterMap (fun i => obs[i]?)) ∧
    simplifyFree 0 obs cost 8 = none := ⟨rfl, rfl⟩

/-! ## the hypotheses are satisfiable by non-trivial inputs -/

/-- cost matrix of DESIGN.md §5 C12 (D11 witness), four candidates, as a `5 × 5` matrix -/
def exC : Nat → Nat → Int := fun i j =>
  (([[0, 1, 5, 9, 0], [1, 0, 1, 5, 0], [5, 1, 0, 1, 0], [9, 5, 1, 0, 0], [0, 0, 0, 0, 0]] : List (List Int)).getD i []).getD j 0

example : optimalPartition 0 5 exC 0 = [0, 1, 2, 3] := by decide +kernel
example : optimalPartition 0 5 exC 1 = [0, 3] := by decide +kernel
example : optimalPartitionA 0 5 exC 0 = [0, 1, 2, 3] := by decide +kernel
example : pathCost 0 exC [0, 1, 2, 3] = 3 ∧ pathCost 0 exC [0, 3] = 9 := by decide +kernel
example : ([0, 2, 3] : List Nat).head? = some 0 ∧ ([0, 2, 3] : List Nat).getLast? = some (5 - 2)
    ∧ ([0, 2, 3] : List Nat).Pairwise (· < ·) := by decide
-- the ordered-monoid hypotheses hold for ℤ
example : pathCost 0 exC (optimalPartition 0 5 exC 0) ≤ pathCost 0 exC [0, 2, 3] :=
  optimal_min 5 exC (by omega) [0, 2, 3] rfl rfl (by decide)
end TV.C12
